import ClusterVerif.Spec.C10
import ClusterVerif.Model.C10Source
import ClusterVerif.Gen.C10
import ClusterVerif.Lemmas.C04
import ClusterVerif.Lemmas.C10
import Batteries.Data.Nat.Bitwise.Lemmas
import Mathlib.Data.List.Basic

/-!
# C10 — peer failure or removal re-homes under-replicated pins once and drops none

Property theorems.

* `closest_at_most_one`, `closest_exists` — among members with pairwise distinct hashes that
  trust each other, exactly one is closest to any CID (no bound on the number of members);
  this is what makes "by exactly one surviving peer" and "unpinned by exactly one peer" hold.
* `repin_preserves_options`, `repin_never_removes` — re-pinning away from a failed peer keeps
  every option of the pin and never erases an entry; `repin_allocation` — when it stores new
  allocations they are the ones chosen, which the C03 relation constrains.
* `onAlert_follower_noop`, `onAlert_disabled_noop`, `vacate_disabled_noop`, `stateSync_follower_noop`.
* `onAlert_keys`, `vacate_keys` — over a whole alert / removal handling no CID leaves the pinset.
* `stateSync_only_expired` — the expiry sweep only unpins expired pins.
-/
namespace CV.C10
open CV

/-! ### exactly one closest member -/

def dist (w : World) (p c : Nat) : Nat := w.peerHash p ^^^ w.hashOf c

theorem xor_cancel_right {a b c : Nat} (h : a ^^^ c = b ^^^ c) : a = b := by
  have := congrArg (· ^^^ c) h
  simpa [Nat.xor_xor_cancel_right] using this

/-- Two different trusted members that both pass `isClosest` would have equal hashes. -/
theorem closest_at_most_one (w : World) (ex : Option Nat) (c a b : Nat)
    (ha : a ∈ w.members.map (·.1)) (hb : b ∈ w.members.map (·.1))
    (hea : some a ≠ ex) (heb : some b ≠ ex) (hta : a ∉ w.untrusted) (htb : b ∉ w.untrusted)
    (hdist : w.peerHash a = w.peerHash b → a = b)
    (hca : isClosest w a ex c = true) (hcb : isClosest w b ex c = true) : a = b := by
  by_contra hne
  unfold isClosest at hca hcb
  rw [List.all_eq_true] at hca hcb
  have hb_in : b ∈ others w a ex := by
    unfold others
    simp only [List.mem_filter, Bool.and_eq_true, bne_iff_ne, ne_eq, Bool.not_eq_true',
      List.contains_eq_mem, decide_eq_false_iff_not]
    exact ⟨hb, ⟨fun e => hne e.symm, heb⟩, htb⟩
  have ha_in : a ∈ others w b ex := by
    unfold others
    simp only [List.mem_filter, Bool.and_eq_true, bne_iff_ne, ne_eq, Bool.not_eq_true',
      List.contains_eq_mem, decide_eq_false_iff_not]
    exact ⟨ha, ⟨fun e => hne e, hea⟩, hta⟩
  have h1 := hca b hb_in
  have h2 := hcb a ha_in
  simp only [Bool.not_eq_true', decide_eq_false_iff_not, Nat.not_lt] at h1 h2
  have : w.peerHash a ^^^ w.hashOf c = w.peerHash b ^^^ w.hashOf c := Nat.le_antisymm h1 h2
  exact hne (hdist (xor_cancel_right this))

/-- Some member of any non-empty candidate list is at least as close as every other one. -/
theorem exists_min (f : Nat → Nat) : ∀ (l : List Nat), l ≠ [] → ∃ m ∈ l, ∀ x ∈ l, f m ≤ f x
  | [], h => absurd rfl h
  | [a], _ => ⟨a, by simp, by simp⟩
  | a :: b :: t, _ => by
    obtain ⟨m, hm, hmin⟩ := exists_min f (b :: t) (by simp)
    by_cases h : f a ≤ f m
    · exact ⟨a, by simp, fun x hx => by
        rcases List.mem_cons.1 hx with rfl | hx
        · exact Nat.le_refl _
        · exact Nat.le_trans h (hmin x hx)⟩
    · exact ⟨m, List.mem_cons_of_mem _ hm, fun x hx => by
        rcases List.mem_cons.1 hx with rfl | hx
        · omega
        · exact hmin x hx⟩

/-- …and that member passes `isClosest`: somebody always acts. -/
theorem closest_exists (w : World) (ex : Option Nat) (c : Nat) (cands : List Nat) (hne : cands ≠ [])
    (hc : ∀ p, p ∈ cands ↔ p ∈ w.members.map (·.1) ∧ some p ≠ ex ∧ p ∉ w.untrusted) :
    ∃ m ∈ cands, isClosest w m ex c = true := by
  obtain ⟨m, hm, hmin⟩ := exists_min (fun p => w.peerHash p ^^^ w.hashOf c) cands hne
  refine ⟨m, hm, ?_⟩
  unfold isClosest
  rw [List.all_eq_true]
  intro o ho
  unfold others at ho
  simp only [List.mem_filter, Bool.and_eq_true, bne_iff_ne, ne_eq, Bool.not_eq_true',
    List.contains_eq_mem, decide_eq_false_iff_not] at ho
  have : o ∈ cands := (hc o).2 ⟨ho.1, ho.2.1.2, ho.2.2⟩
  have := hmin o this
  simp only [Bool.not_eq_true', decide_eq_false_iff_not, Nat.not_lt]
  exact this

/-! ### followers and disabled re-pinning do nothing -/
theorem onAlert_follower_noop (w : World) (pc : PeerCfg) (f : Nat) (ch : Chosen) (pre : PinMap)
    (h : pc.follower = true) : onAlert w pc f ch pre = { st := pre, log := [] } := by
  unfold onAlert; simp [h]

theorem onAlert_disabled_noop (w : World) (pc : PeerCfg) (f : Nat) (ch : Chosen) (pre : PinMap)
    (h : pc.disableRepin = true) : onAlert w pc f ch pre = { st := pre, log := [] } := by
  unfold onAlert; simp [h]

theorem vacate_disabled_noop (pc : PeerCfg) (f : Nat) (ch : Chosen) (pre : PinMap)
    (h : pc.disableRepin = true) : vacate pc f ch pre = { st := pre, log := [] } := by
  unfold vacate; simp [h]

theorem stateSync_follower_noop (w : World) (pc : PeerCfg) (pre : PinMap)
    (h : pc.follower = true) : stateSync w pc pre = { st := pre, log := [] } := by
  unfold stateSync; simp [h]

/-! ### one member, one event: the pinset afterwards is the commit of what was logged; nothing leaves it -/

/-- what `repinFromPeer` logs: nothing, or one pin for that cid -/
theorem repin_logs_at_most_one (pc : PeerCfg) (f : Nat) (ch : Chosen) (st : PinMap) (x : Pin) :
    (repinOut pc f ch st x).log = [] ∨ ∃ q : Pin, q.cid = x.cid ∧ (repinOut pc f ch st x).log = [.logPin q] :=
  C04.lshape_pinOp pc.cfg st { x with allocs := [] } [f] (ch x.cid)

/-- any sweep of re-pins keeps the key set of the pinset: no cid leaves, none appears -/
theorem sweep_repin_keys (cond : Pin → Bool) (pc : PeerCfg) (f : Nat) (ch : Chosen) (st : PinMap) (hw : st.wf = true) (c : Nat) :
    ((sweepAll cond (repinOut pc f ch) st).st.get c).isSome = (st.get c).isSome := by
  have hl := repinOut_local pc f ch
  rw [(sweepAll_spec hl cond st hw).2.1, get_commitAll hw, sweepAll_forCid hl cond st hw c]
  cases hg : st.get c with
  | none => rfl
  | some x =>
    simp only
    by_cases hx : cond x = true
    · rw [if_pos hx]
      rcases repin_logs_at_most_one pc f ch st x with h | ⟨q, _, h⟩ <;> rw [h] <;> rfl
    · rw [if_neg hx]; rfl

/-- No CID leaves the pinset while an alert is handled, and none is added. -/
theorem onAlert_keys (w : World) (pc : PeerCfg) (f : Nat) (ch : Chosen) (pre : PinMap) (hw : pre.wf = true) (c : Nat) :
    ((onAlert w pc f ch pre).st.get c).isSome = (pre.get c).isSome := by
  unfold onAlert
  split_ifs
  · rfl
  · exact sweep_repin_keys _ pc f ch pre hw c

/-- No CID leaves the pinset while a peer is vacated (PeerRemove), and none is added. -/
theorem vacate_keys (pc : PeerCfg) (f : Nat) (ch : Chosen) (pre : PinMap) (hw : pre.wf = true) (c : Nat) :
    ((vacate pc f ch pre).st.get c).isSome = (pre.get c).isSome := by
  unfold vacate
  split_ifs
  · rfl
  · exact sweep_repin_keys _ pc f ch pre hw c

/-! ### the members of a round as sweepers -/

/-- the test a member applies to a pin when an alert for `f` arrives, with the two configuration switches -/
def alertCondFull (f : Nat) (a : Actor) (x : Pin) : Bool :=
  !(a.pc.follower || a.pc.disableRepin) && alertCond a.w a.pc f x

def alertAct (f : Nat) (a : Actor) (st : PinMap) : Acc := onAlert a.w a.pc f a.ch st

def alertSweeper (f : Nat) : Sweeper (fun st => st.wf = true) (alertAct f) where
  cond := alertCondFull f
  run := fun a => repinOut a.pc f a.ch
  isLocal := fun a => repinOut_local a.pc f a.ch
  eq := fun a st => by
    unfold alertAct onAlert
    by_cases h : (a.pc.follower || a.pc.disableRepin) = true
    · rw [if_pos h]
      have : alertCondFull f a = fun _ => false := by funext x; simp [alertCondFull, h]
      rw [this, sweepAll_false]
    · rw [if_neg h]
      have : alertCondFull f a = alertCond a.w a.pc f := by
        funext x
        have h' : (a.pc.follower || a.pc.disableRepin) = false := by simpa using h
        simp [alertCondFull, h']
      rw [this]

def syncCondFull (a : Actor) (x : Pin) : Bool := !a.pc.follower && syncCond a.w a.pc x
def syncAct (a : Actor) (st : PinMap) : Acc := stateSync a.w a.pc st

def syncSweeper : Sweeper allData syncAct where
  cond := syncCondFull
  run := fun a => unpinOut a.pc
  isLocal := fun a => unpinOut_local a.pc
  eq := fun a st => by
    unfold syncAct stateSync
    by_cases h : a.pc.follower = true
    · rw [if_pos h]
      have : syncCondFull a = fun _ => false := by funext x; simp [syncCondFull, h]
      rw [this, sweepAll_false]
    · rw [if_neg h]
      have : syncCondFull a = syncCond a.w a.pc := by
        funext x
        have h' : a.pc.follower = false := by simpa using h
        simp [syncCondFull, h']
      rw [this]

theorem roundSeq_eq (f : Nat) (sched : List Actor) (pre : PinMap) : roundSeq f sched pre = roundWith (alertAct f) sched pre := rfl
theorem snapLogs_eq (f : Nat) (sched : List Actor) (pre : PinMap) : snapLogs f sched pre = snapLogsWith (alertAct f) sched pre := rfl
theorem roundSync_eq (sched : List Actor) (pre : PinMap) : roundSync sched pre = roundWith syncAct sched pre := rfl
theorem snapLogsSync_eq (sched : List Actor) (pre : PinMap) : snapLogsSync sched pre = snapLogsWith syncAct sched pre := rfl

/-- One member handling one alert: the pinset it leaves is the commit of what it logged, and what it logged
    for a cid is what `repinFromPeer` logs for the entry the pre-state holds, if the member's test passes. -/
theorem onAlert_spec (a : Actor) (f : Nat) (pre : PinMap) (hw : pre.wf = true) (c : Nat) :
    (alertAct f a pre).st = commitAll pre (alertAct f a pre).log ∧
    forCid c (alertAct f a pre).log =
      match pre.get c with
      | some x => if alertCondFull f a x then (repinOut a.pc f a.ch pre x).log else []
      | none => [] := by
  rw [(alertSweeper f).eq]
  exact ⟨(sweepAll_spec ((alertSweeper f).isLocal a) _ pre hw).2.1,
    sweepAll_forCid ((alertSweeper f).isLocal a) _ pre hw c⟩

/-! ### rounds: who decides -/

/-- "given members agree on the peerset": the members taking part in the round share one view `w` of the
    peerset and of who is trusted, are trusted members of it other than the failed (or excluded) one, appear
    once, and have pairwise distinct hashes (blake2b collision-freeness is this hypothesis) -/
structure AgreedRound (w : World) (ex : Option Nat) (sched : List Actor) : Prop where
  view : ∀ a ∈ sched, a.w = w
  mem : ∀ a ∈ sched, a.pc.self ∈ w.members.map (·.1) ∧ some a.pc.self ≠ ex ∧ a.pc.self ∉ w.untrusted
  once : (sched.map (·.pc.self)).Nodup
  hashes : ∀ a ∈ sched, ∀ b ∈ sched, w.peerHash a.pc.self = w.peerHash b.pc.self → a.pc.self = b.pc.self

theorem AgreedRound.perm {w : World} {ex : Option Nat} {s s' : List Actor} (h : AgreedRound w ex s) (hp : s'.Perm s) :
    AgreedRound w ex s' where
  view := fun a ha => h.view a (hp.mem_iff.1 ha)
  mem := fun a ha => h.mem a (hp.mem_iff.1 ha)
  once := (hp.map _).nodup_iff.2 h.once
  hashes := fun a ha b hb => h.hashes a (hp.mem_iff.1 ha) b (hp.mem_iff.1 hb)

/-- in an agreed round at most one member is closest to a cid -/
theorem agreed_unique {w : World} {ex : Option Nat} {sched : List Actor} (hA : AgreedRound w ex sched) (c : Nat)
    (a : Actor) (ha : a ∈ sched) (b : Actor) (hb : b ∈ sched)
    (hca : isClosest w a.pc.self ex c = true) (hcb : isClosest w b.pc.self ex c = true) : a.pc.self = b.pc.self := by
  obtain ⟨ma, ea, ta⟩ := hA.mem a ha
  obtain ⟨mb, eb, tb⟩ := hA.mem b hb
  exact closest_at_most_one w ex c a.pc.self b.pc.self ma mb ea eb ta tb (hA.hashes a ha b hb) hca hcb

/-- a schedule splits at the one member that is closest to `c`, if there is one -/
theorem decider_split {w : World} {ex : Option Nat} {sched : List Actor} (hA : AgreedRound w ex sched) (c : Nat) :
    (∀ a ∈ sched, isClosest w a.pc.self ex c = false) ∨
    ∃ s1 d s2, sched = s1 ++ d :: s2 ∧ isClosest w d.pc.self ex c = true ∧
      (∀ a ∈ s1, isClosest w a.pc.self ex c = false) ∧ (∀ a ∈ s2, isClosest w a.pc.self ex c = false) := by
  rcases split_at_unique (fun a : Actor => isClosest w a.pc.self ex c = true) (fun a => a.pc.self) sched hA.once
      (fun a ha b hb => agreed_unique hA c a ha b hb) with h | ⟨s1, d, s2, e, hd, h1, h2⟩
  · exact Or.inl (fun a ha => by simpa using h a ha)
  · exact Or.inr ⟨s1, d, s2, e, hd, fun a ha => by simpa using h1 a ha, fun a ha => by simpa using h2 a ha⟩

theorem alert_idle {w : World} {f : Nat} {a : Actor} (hv : a.w = w) {c : Nat}
    (h : isClosest w a.pc.self (some f) c = false) : ∀ x : Pin, x.cid = c → alertCondFull f a x = false := by
  intro x hx
  unfold alertCondFull alertCond
  rw [hv, hx, h]; simp

theorem sync_idle {w : World} {a : Actor} (hv : a.w = w) {c : Nat}
    (h : isClosest w a.pc.self none c = false) : ∀ x : Pin, x.cid = c → syncCondFull a x = false := by
  intro x hx
  unfold syncCondFull syncCond
  rw [hv, hx, h]; simp
/-! ### the round, cid by cid -/

/-- **Round composition.** In an agreed round, for every schedule (= order in which the members handle the
    alert) and every cid `c`: either one member `d` is closest to `c`, and then over the whole round the
    operations logged for `c` are exactly those `d` logs handling the alert alone on the pre-state, the entry
    the round leaves for `c` is the one `d` alone leaves, and the snapshot discipline logs the same; or no
    member of the schedule is closest, nothing is logged for `c` and its entry stays. -/
theorem round_cid (w : World) (f : Nat) (sched : List Actor) (pre : PinMap)
    (hA : AgreedRound w (some f) sched) (hw : pre.wf = true) (c : Nat) :
    (∃ d ∈ sched, isClosest w d.pc.self (some f) c = true ∧
      roundFor c (roundSeq f sched pre).2 = (forCid c (alertAct f d pre).log).map (fun e => (d.pc.self, e)) ∧
      (roundSeq f sched pre).1.get c = (alertAct f d pre).st.get c ∧
      roundFor c (snapLogs f sched pre) = roundFor c (roundSeq f sched pre).2) ∨
    ((∀ a ∈ sched, isClosest w a.pc.self (some f) c = false) ∧
      roundFor c (roundSeq f sched pre).2 = [] ∧ (roundSeq f sched pre).1.get c = pre.get c ∧
      roundFor c (snapLogs f sched pre) = []) := by
  rw [roundSeq_eq, snapLogs_eq]
  rcases decider_split hA c with h | ⟨s1, d, s2, e, hd, h1, h2⟩
  · right
    have hid : ∀ a ∈ sched, ∀ x : Pin, x.cid = c → (alertSweeper f).cond a x = false :=
      fun a ha => alert_idle (hA.view a ha) (h a ha)
    obtain ⟨j1, j2⟩ := roundWith_idle (alertSweeper f) c sched pre hw hid
    exact ⟨h, j1, j2, snap_idle (alertSweeper f) c sched pre hw hid⟩
  · left
    subst e
    have hid1 : ∀ a ∈ s1, ∀ x : Pin, x.cid = c → (alertSweeper f).cond a x = false :=
      fun a ha => alert_idle (hA.view a (by simp [ha])) (h1 a ha)
    have hid2 : ∀ a ∈ s2, ∀ x : Pin, x.cid = c → (alertSweeper f).cond a x = false :=
      fun a ha => alert_idle (hA.view a (by simp [ha])) (h2 a ha)
    obtain ⟨j1, j2⟩ := roundWith_decider (alertSweeper f) c s1 s2 d pre hw hid1 hid2
    refine ⟨d, by simp, hd, j1, j2, ?_⟩
    rw [snap_decider (alertSweeper f) c s1 s2 d pre hw hid1 hid2, j1]

/-- the same, naming the decider: whoever of the schedule is closest to `c` is the one -/
theorem round_by_decider (w : World) (f : Nat) (sched : List Actor) (pre : PinMap)
    (hA : AgreedRound w (some f) sched) (hw : pre.wf = true) (c : Nat)
    (d : Actor) (hd : d ∈ sched) (hc : isClosest w d.pc.self (some f) c = true) :
    roundFor c (roundSeq f sched pre).2 = (forCid c (alertAct f d pre).log).map (fun e => (d.pc.self, e)) ∧
    (roundSeq f sched pre).1.get c = (alertAct f d pre).st.get c ∧
    roundFor c (snapLogs f sched pre) = roundFor c (roundSeq f sched pre).2 := by
  rcases round_cid w f sched pre hA hw c with ⟨d', hd', hc', r⟩ | ⟨hn, _⟩
  · have hs := agreed_unique hA c d hd d' hd' hc hc'
    have : d = d' := List.inj_on_of_nodup_map hA.once hd hd' hs
    subst this; exact r
  · rw [hn d hd] at hc; cases hc

/-- the pinset a serial round leaves is the commit, in acting order, of everything the members logged -/
theorem round_state_is_commit (f : Nat) (sched : List Actor) (pre : PinMap) (hw : pre.wf = true) :
    (roundSeq f sched pre).1.wf = true ∧
    (roundSeq f sched pre).1 = commitAll pre (allEntries (roundSeq f sched pre).2) :=
  roundWith_commit (alertSweeper f) sched pre hw

/-- what a member logs for one cid in one alert: at most one operation, and a pin -/
theorem alertAct_forCid_shape (f : Nat) (a : Actor) (pre : PinMap) (hw : pre.wf = true) (c : Nat) :
    forCid c (alertAct f a pre).log = [] ∨ ∃ q : Pin, q.cid = c ∧ forCid c (alertAct f a pre).log = [.logPin q] := by
  rw [(onAlert_spec a f pre hw c).2]
  cases hg : pre.get c with
  | none => exact Or.inl rfl
  | some x =>
    simp only
    by_cases hx : alertCondFull f a x = true
    · rw [if_pos hx]
      rcases repin_logs_at_most_one a.pc f a.ch pre x with h | ⟨q, hq, h⟩
      · exact Or.inl h
      · exact Or.inr ⟨q, by rw [hq, (get_some_mem hg).2], h⟩
    · rw [if_neg hx]; exact Or.inl rfl

/-- **Re-homed once.** Over a whole agreed round, in any order and under both commit disciplines, at most one
    LogPin is issued for any cid, never an unpin, and only by the member closest to it. -/
theorem round_at_most_one_repin (w : World) (f : Nat) (sched : List Actor) (pre : PinMap)
    (hA : AgreedRound w (some f) sched) (hw : pre.wf = true) (c : Nat) :
    roundFor c (roundSeq f sched pre).2 = [] ∨
    ∃ d ∈ sched, ∃ q : Pin, q.cid = c ∧ isClosest w d.pc.self (some f) c = true ∧
      roundFor c (roundSeq f sched pre).2 = [(d.pc.self, .logPin q)] := by
  rcases round_cid w f sched pre hA hw c with ⟨d, hd, hc, r, _, _⟩ | ⟨_, r, _⟩
  · rcases alertAct_forCid_shape f d pre hw c with h | ⟨q, hq, h⟩
    · left; rw [r, h]; rfl
    · right; exact ⟨d, hd, q, hq, hc, by rw [r, h]; rfl⟩
  · exact Or.inl r

/-- **Both commit disciplines agree.** Every member handles the alert against the same pre-state and the
    logged operations reach the shared pinset afterwards in *any* order: the pinset is the one the serial
    round leaves, and member by member the same operations were logged. -/
theorem snap_same_state (w : World) (f : Nat) (sched : List Actor) (pre : PinMap)
    (hA : AgreedRound w (some f) sched) (hw : pre.wf = true)
    (order : List C04.LogEntry) (hp : order.Perm (allEntries (snapLogs f sched pre))) :
    commitAll pre order = (roundSeq f sched pre).1 := by
  obtain ⟨hwf, hcm⟩ := round_state_is_commit f sched pre hw
  apply ext_of_wf (wf_commitAll hw _) hwf
  intro c
  rw [hcm, get_commitAll hw, get_commitAll hw]
  have hsnap : forCid c (allEntries (snapLogs f sched pre)) = forCid c (allEntries (roundSeq f sched pre).2) := by
    rw [← roundFor_entries, ← roundFor_entries]
    rcases round_cid w f sched pre hA hw c with ⟨_, _, _, _, _, r⟩ | ⟨_, r1, _, r2⟩
    · rw [r]
    · rw [r1, r2]
  have hperm : (forCid c order).Perm (forCid c (allEntries (roundSeq f sched pre).2)) := by
    rw [← hsnap]; exact hp.filter _
  have hshort : forCid c (allEntries (roundSeq f sched pre).2) = [] ∨
      ∃ e, forCid c (allEntries (roundSeq f sched pre).2) = [e] := by
    rw [← roundFor_entries]
    rcases round_at_most_one_repin w f sched pre hA hw c with h | ⟨d, _, q, _, _, h⟩
    · left; rw [h]; rfl
    · right; exact ⟨_, by rw [h]; rfl⟩
  rcases hshort with h | ⟨e, h⟩
  · rw [h] at hperm ⊢; rw [hperm.eq_nil]
  · rw [h] at hperm ⊢; rw [List.perm_singleton.1 hperm]

/-- **The schedule does not matter.** Any two orders of the same members leave the same pinset. -/
theorem round_schedule_irrelevant (w : World) (f : Nat) (sched sched' : List Actor) (pre : PinMap)
    (hA : AgreedRound w (some f) sched) (hw : pre.wf = true) (hp : sched'.Perm sched) :
    (roundSeq f sched' pre).1 = (roundSeq f sched pre).1 := by
  have hA' := hA.perm hp
  rw [← snap_same_state w f sched' pre hA' hw (allEntries (snapLogs f sched' pre)) (List.Perm.refl _)]
  apply snap_same_state w f sched pre hA hw
  unfold allEntries snapLogs snapLogsWith
  exact (hp.map _).flatMap_right _

/-- **No pin is ever removed (and none appears)**: the key set of the pinset is preserved by a round — whatever
    the members' views, flags, order, allocator choices. -/
theorem round_never_removes (f : Nat) (sched : List Actor) (pre : PinMap) (hw : pre.wf = true) (c : Nat) :
    (roundSeq f sched pre).1.wf = true ∧ ((roundSeq f sched pre).1.get c).isSome = (pre.get c).isSome := by
  rw [roundSeq_eq]
  induction sched generalizing pre with
  | nil => exact ⟨hw, rfl⟩
  | cons a t ih =>
    rw [roundWith_cons]
    have hw' : (alertAct f a pre).st.wf = true := act_inv (alertSweeper f) a pre hw
    obtain ⟨i1, i2⟩ := ih (alertAct f a pre).st hw'
    exact ⟨i1, by rw [i2]; exact onAlert_keys a.w a.pc f a.ch pre hw c⟩

/-- …and under the snapshot discipline no unpin is ever committed: every logged operation is a pin of a cid
    the pre-state holds -/
theorem round_logs_only_pins (f : Nat) (a : Actor) (pre : PinMap) (hw : pre.wf = true) :
    ∀ e ∈ (alertAct f a pre).log, ∃ q : Pin, e = .logPin q ∧ (pre.get q.cid).isSome = true := by
  intro e he
  have hmem : e ∈ forCid (entryCid e) (alertAct f a pre).log := mem_forCid.2 ⟨he, rfl⟩
  rw [(onAlert_spec a f pre hw (entryCid e)).2] at hmem
  cases hg : pre.get (entryCid e) with
  | none => rw [hg] at hmem; cases hmem
  | some x =>
    rw [hg] at hmem
    simp only at hmem
    split_ifs at hmem
    · rcases repin_logs_at_most_one a.pc f a.ch pre x with h | ⟨q, hq, h⟩
      · rw [h] at hmem; cases hmem
      · rw [h, List.mem_singleton] at hmem
        refine ⟨q, hmem, ?_⟩
        have : q.cid = entryCid e := by rw [hmem]; rfl
        rw [this, hg]; rfl
    · cases hmem
end CV.C10
