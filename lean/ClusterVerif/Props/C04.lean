import ClusterVerif.Lemmas.C04
import ClusterVerif.Model.C04Source
import ClusterVerif.Gen.C04

/-!
# C04 — pin, unpin and update change the pinset exactly as requested, or not at all

Property theorems only (helpers in `Lemmas/C04.lean`, `Lemmas/PinMap.lean`).

* `step_holds` — for every configuration, every well-formed pinset, every call and every
  allocation the C03 relation admits, the outcome of the model of `cluster.go` satisfies every
  clause of the property (Spec/C04 `holds`). No bound on sizes.
* `step_wf` / `run_wf` — one entry per CID is an invariant of every call sequence.
-/
namespace CV.C04
open CV

/-- requests carry metadata as a map (one value per key) -/
def wfOp : Op → Bool
  | .pin _ o => decide (o.metadata.map (·.1)).Nodup
  | .pinPath _ o => decide (o.metadata.map (·.1)).Nodup
  | _ => true

def wfCfg (cfg : Cfg) : Bool := decide (cfg.peers.map (·.1)).Nodup

theorem generic_hold (cfg : Cfg) (pre : PinMap) (op : Op) (chosen : List Nat) (hwf : pre.wf = true) :
    (genericClauses cfg pre op (step cfg pre op chosen).res (step cfg pre op chosen).post).all (·.2) = true := by
  have hshape := shape_step cfg pre op chosen
  have g1 : (step cfg pre op chosen).post.wf = true := shape_wf hshape hwf
  have g2 : ((step cfg pre op chosen).res.isSome || sameMap pre (step cfg pre op chosen).post) = true := by
    cases hres : (step cfg pre op chosen).res with
    | some _ => rfl
    | none => rw [shape_refused hshape hres]; simp [sameMap_self]
  have g3 : (allKeys pre (step cfg pre op chosen).post).all
      (fun c => (targets cfg pre op).contains c || pre.get c == (step cfg pre op chosen).post.get c) = true := by
    simp only [List.all_eq_true, Bool.or_eq_true, List.contains_eq_mem, decide_eq_true_eq, beq_iff_eq]
    intro c _
    by_cases hc : c ∈ targets cfg pre op
    · exact Or.inl hc
    · exact Or.inr (shape_frame hshape hwf c hc).symm
  have g4 : (!mustRefuse cfg pre op || (step cfg pre op chosen).res.isNone) = true := by
    cases hm : mustRefuse cfg pre op with
    | false => rfl
    | true => simp [mustRefuse_refused cfg pre op chosen hm]
  unfold genericClauses
  simp only [List.all_cons, List.all_nil, g1, g2, g3, g4, Bool.and_true]

theorem update_hold (cfg : Cfg) (pre : PinMap) (s d : Nat) (o : Opts) (hpre : pre.wfState = true)
    (hne : (pinUpdate cfg pre s d o).res ≠ none) :
    (updateClauses pre (pinUpdate cfg pre s d o).post s d o).all (·.2) = true := by
  obtain ⟨src, st, hs, hd, g1, g2, g3, g4, g5, g6, g7, g8, g9, g10, g11, g12⟩ :=
    update_effect cfg pre s d o hpre hne
  unfold updateClauses
  rw [hs, hd]
  have hk : (s == d || (pinUpdate cfg pre s d o).post.get s == pre.get s) = true := by
    rcases g12 with h | h
    · simp [h]
    · simp [h]
  rw [hs] at hk
  simp only [List.all_cons, List.all_nil, Bool.and_true, g1, g2, g3, g4, g5, g6, g7, g8, g9, g10, g11,
    beq_self_eq_true]
  rw [hk]; rfl

theorem pin_hold (cfg : Cfg) (pre : PinMap) (c : Nat) (o : Opts) (chosen : List Nat)
    (hpre : pre.wfState = true) (hcfg : (cfg.peers.map (·.1)).Nodup) (hn : (o.metadata.map (·.1)).Nodup)
    (hfol : cfg.follower = false)
    (hne : (pinOp cfg pre (pinWithOpts c o) [] chosen).res ≠ none)
    (halloc : ∀ ai, (pinOp cfg pre (pinWithOpts c o) [] chosen).alloc = some ai → C03.allowed ai (.ok chosen) = true) :
    (pinClauses cfg pre (pinOp cfg pre (pinWithOpts c o) [] chosen).post c o).all (·.2) = true := by
  unfold pinClauses
  cases hv : viaUpdate c o with
  | some u =>
    simp only
    have hupd := pinOp_user_update cfg pre c o chosen u hfol hv
    rw [hupd] at hne ⊢
    exact update_hold cfg pre u c o hpre hne
  | none =>
    simp only
    have hbody := pinOp_user_noUpdate cfg pre c o chosen hfol hv
    rw [hbody] at hne halloc ⊢
    obtain ⟨st, hget, hty, hcar, hid, hal⟩ := pin_effect cfg pre c o chosen hpre hcfg hn hne halloc
    rw [hget]
    simp only [List.all_cons, List.all_nil, Bool.and_true, hty, hcar, beq_self_eq_true, Bool.true_and]
    cases hi : identicalRepin cfg pre c o with
    | none =>
      simp only [Bool.true_and]
      rcases hal with ⟨e, he, _⟩ | h
      · rw [hi] at he; cases he
      · exact h
    | some e =>
      simp only [Bool.and_eq_true, Bool.or_eq_true, beq_iff_eq, List.isEmpty_iff, Bool.not_eq_true',
        List.isEmpty_eq_false_iff]
      refine ⟨hid e hi, ?_⟩
      rcases hal with ⟨e', he', hne'⟩ | h
      · rw [hi] at he'; cases he'; exact Or.inl hne'
      · exact Or.inr h

theorem unpin_hold (cfg : Cfg) (pre : PinMap) (c : Nat) (hne : (unpinOp cfg pre c).res ≠ none) :
    (unpinClauses cfg pre (unpinOp cfg pre c).post c).all (·.2) = true := by
  unfold unpinClauses
  have h := unpin_effect cfg pre c hne
  have : ((c :: targets.shardGroup cfg pre c).all fun k => ((unpinOp cfg pre c).post.get k).isNone) = true := by
    rw [List.all_eq_true]; intro k hk; rw [h k hk]; rfl
  rw [List.all_cons, List.all_nil, Bool.and_true]; exact this

/-- C04: every outcome the model of `cluster.go` can produce satisfies every clause of the property. -/
theorem step_holds (cfg : Cfg) (pre : PinMap) (op : Op) (chosen : List Nat)
    (hpre : pre.wfState = true) (hcfg : wfCfg cfg = true) (hop : wfOp op = true)
    (halloc : ∀ ai, (step cfg pre op chosen).alloc = some ai → C03.allowed ai (.ok chosen) = true) :
    holds cfg pre op (step cfg pre op chosen).res (step cfg pre op chosen).post = true := by
  have hwf : pre.wf = true := by
    unfold PinMap.wfState at hpre; simp only [Bool.and_eq_true] at hpre; exact hpre.1
  have hcfg' : (cfg.peers.map (·.1)).Nodup := by simpa [wfCfg] using hcfg
  unfold holds clauses
  rw [List.all_append, generic_hold cfg pre op chosen hwf, Bool.true_and]
  cases hres : (step cfg pre op chosen).res with
  | none => rfl
  | some r =>
    have hne : (step cfg pre op chosen).res ≠ none := by rw [hres]; simp
    have hfol : cfg.follower = false := by
      cases hf : cfg.follower with
      | false => rfl
      | true => exact absurd (step_follower cfg pre op chosen hf) hne
    simp only [Option.isSome_some, if_true]
    unfold okClauses
    cases op with
    | pin c o =>
      have hn : (o.metadata.map (·.1)).Nodup := by simpa [wfOp] using hop
      exact pin_hold cfg pre c o chosen hpre hcfg' hn hfol hne halloc
    | pinPath path o =>
      have hn : (o.metadata.map (·.1)).Nodup := by simpa [wfOp] using hop
      have hstep : step cfg pre (Op.pinPath path o) chosen = (match lookup cfg.paths path with
          | some c => pinOp cfg pre (pinWithOpts c o) [] chosen
          | none => err pre) := rfl
      simp only [resolve]
      cases hl : lookup cfg.paths path with
      | none => rw [hstep, hl] at hne; exact absurd rfl hne
      | some c =>
        simp only
        rw [hstep, hl] at hne halloc ⊢
        exact pin_hold cfg pre c o chosen hpre hcfg' hn hfol hne halloc
    | update s d o => exact update_hold cfg pre s d o hpre hne
    | unpin c => exact unpin_hold cfg pre c hne
    | unpinPath path =>
      have hstep : step cfg pre (Op.unpinPath path) chosen = (match lookup cfg.paths path with
          | some c => unpinOp cfg pre c
          | none => err pre) := rfl
      simp only [resolve]
      cases hl : lookup cfg.paths path with
      | none => rw [hstep, hl] at hne; exact absurd rfl hne
      | some c =>
        simp only
        rw [hstep, hl] at hne ⊢
        exact unpin_hold cfg pre c hne
    | rpcPin p =>
      simp only [List.all_cons, List.all_nil, Bool.and_true]
      exact rpcPin_effect cfg pre p chosen hwf hne

/-- requests (incl. the rpc pin entry) carry metadata as a map -/
def wfOpFull : Op → Bool
  | .rpcPin p => decide (p.opts.metadata.map (·.1)).Nodup
  | op => wfOp op

/-- The pinset stays well-formed (one entry per CID, entries in stored form) under every call. -/
theorem step_wfState (cfg : Cfg) (pre : PinMap) (op : Op) (chosen : List Nat)
    (hpre : pre.wfState = true) (hop : wfOpFull op = true) : (step cfg pre op chosen).post.wfState = true := by
  have hall : ∀ e ∈ pre, metaOk e := by
    intro e he
    have := ((wfState_iff pre).1 hpre).2 e he
    exact ((wfStored_iff e).1 this).2
  have userOk : ∀ (c : Nat) (o : Opts), (o.metadata.map (·.1)).Nodup → metaOk (pinWithOpts c o) := fun _ _ h => h
  cases op with
  | pin c o =>
    exact wfState_of_mshape hpre (mshape_pinOp cfg pre _ [] chosen hall (userOk c o (by simpa [wfOpFull, wfOp] using hop)))
  | pinPath path o =>
    show (match lookup cfg.paths path with
      | some c => pinOp cfg pre (pinWithOpts c o) [] chosen
      | none => err pre).post.wfState = true
    split
    · exact wfState_of_mshape hpre (mshape_pinOp cfg pre _ [] chosen hall (userOk _ o (by simpa [wfOpFull, wfOp] using hop)))
    · exact hpre
  | update s d o => exact wfState_of_mshape hpre (mshape_pinUpdate cfg pre s d o hall)
  | unpin c => exact wfState_unpinOp cfg pre c hpre
  | unpinPath path =>
    show (match lookup cfg.paths path with
      | some c => unpinOp cfg pre c
      | none => err pre).post.wfState = true
    split
    · exact wfState_unpinOp cfg pre _ hpre
    · exact hpre
  | rpcPin p =>
    exact wfState_of_mshape hpre (mshape_pinOp cfg pre p [] chosen hall (by simpa [wfOpFull, metaOk] using hop))

/-- History form of C04: along ANY sequence of calls from the empty pinset, with any admissible
    allocation at each call, every call's outcome satisfies every clause of the property. -/
theorem run_holds (cfg : Cfg) (hcfg : wfCfg cfg = true) (ops : List (Op × List Nat)) :
    ∀ (pre : PinMap), pre.wfState = true →
      (∀ oc ∈ ops, wfOpFull oc.1 = true ∧ wfOp oc.1 = true) →
      -- admissible choices: whenever the model consults allocate(), the chosen list is in the C03 relation
      (∀ (m : PinMap) (oc : Op × List Nat), oc ∈ ops → ∀ ai, (step cfg m oc.1 oc.2).alloc = some ai →
          C03.allowed ai (.ok oc.2) = true) →
      let states := ops.scanl (fun m oc => (step cfg m oc.1 oc.2).post) pre
      ∀ k (hk : k < ops.length),
        holds cfg (states.getD k []) (ops[k]).1 (step cfg (states.getD k []) (ops[k]).1 (ops[k]).2).res
          (step cfg (states.getD k []) (ops[k]).1 (ops[k]).2).post = true := by
  induction ops with
  | nil => intro pre _ _ _ _ k hk; exact absurd hk (by simp)
  | cons oc t ih =>
    intro pre hpre hops hadm states k hk
    cases k with
    | zero =>
      have h0 : states.getD 0 [] = pre := by simp [states, List.scanl_cons]
      simp only [List.getElem_cons_zero, h0]
      exact step_holds cfg pre oc.1 oc.2 hpre hcfg (hops oc (by simp)).2
        (fun ai hai => hadm pre oc (by simp) ai hai)
    | succ k' =>
      have hnext := step_wfState cfg pre oc.1 oc.2 hpre (hops oc (by simp)).1
      have := ih _ hnext (fun o ho => hops o (List.mem_cons_of_mem _ ho))
        (fun m o ho => hadm m o (List.mem_cons_of_mem _ ho)) k' (by simpa using hk)
      have hs : states.getD (k' + 1) [] =
          (t.scanl (fun m oc => (step cfg m oc.1 oc.2).post) (step cfg pre oc.1 oc.2).post).getD k' [] := by
        simp [states, List.scanl_cons]
      simp only [List.getElem_cons_succ, hs]
      exact this

/-- One entry per CID is preserved by every call (any result, any allocation). -/
theorem step_wf (cfg : Cfg) (pre : PinMap) (op : Op) (chosen : List Nat) (hw : pre.wf = true) :
    (step cfg pre op chosen).post.wf = true :=
  shape_wf (shape_step cfg pre op chosen) hw

/-- …hence by every call sequence from the empty pinset. -/
theorem run_wf (cfg : Cfg) (ops : List (Op × List Nat)) :
    (ops.foldl (fun m oc => (step cfg m oc.1 oc.2).post) ([] : PinMap)).wf = true := by
  suffices h : ∀ m : PinMap, m.wf = true → (ops.foldl (fun m oc => (step cfg m oc.1 oc.2).post) m).wf = true from
    h [] rfl
  induction ops with
  | nil => intro m hm; exact hm
  | cons oc t ih => intro m hm; exact ih _ (step_wf cfg m oc.1 oc.2 hm)


/-! Non-vacuity: a concrete re-pin with a metadata key removed meets every hypothesis of
    `step_holds`, is stored, and the spec rejects the outcome "nothing changed". -/
private def exOpts : Opts :=
  { rmin := 0, rmax := 0, name := 1, mode := .recursive, shard := 0, expire := .zero,
    metadata := [(1, 1)], update := none, origins := [], ualloc := [] }
private def exPre : PinMap :=
  [{ cid := 3, type := .dataT, depth := -1, allocs := [0, 1], ref := none,
     opts := { exOpts with rmin := 2, rmax := 3, metadata := [(1, 1), (2, 1)] } }]
private def exCfg : Cfg :=
  { follower := false, defMin := 2, defMax := 3, desc := false,
    peers := [(0, .valid 1), (1, .valid 2), (2, .valid 3)], paths := [], blocks := [] }
example :
    exPre.wfState = true ∧ wfCfg exCfg = true ∧ wfOp (.pin 3 exOpts) = true ∧
    (step exCfg exPre (.pin 3 exOpts) [0, 1]).res.isSome = true ∧
    ((step exCfg exPre (.pin 3 exOpts) [0, 1]).alloc.map (fun ai => C03.allowed ai (.ok [0, 1]))) = some true ∧
    holds exCfg exPre (.pin 3 exOpts) (step exCfg exPre (.pin 3 exOpts) [0, 1]).res
      (step exCfg exPre (.pin 3 exOpts) [0, 1]).post = true ∧
    holds exCfg exPre (.pin 3 exOpts) exPre.head? exPre = false := by decide

/-! ### The anchored functions still read as the model was transcribed (regenerated from /repo on every run) -/

theorem gen_source_pinPublic : Gen.pinPublic = Expected.pinPublic := rfl
theorem gen_source_setupReplicationFactor : Gen.setupReplicationFactor = Expected.setupReplicationFactor := rfl
theorem gen_source_setupPin : Gen.setupPin = Expected.setupPin := rfl
theorem gen_source_pinInternal : Gen.pinInternal = Expected.pinInternal := rfl
theorem gen_source_unpin : Gen.unpin = Expected.unpin := rfl
theorem gen_source_unpinClusterDag : Gen.unpinClusterDag = Expected.unpinClusterDag := rfl
theorem gen_source_pinUpdate : Gen.pinUpdate = Expected.pinUpdate := rfl
theorem gen_source_pinPath : Gen.pinPath = Expected.pinPath := rfl
theorem gen_source_unpinPath : Gen.unpinPath = Expected.unpinPath := rfl
theorem gen_source_checkPinType : Gen.checkPinType = Expected.checkPinType := rfl
theorem gen_source_optsEquals : Gen.optsEquals = Expected.optsEquals := rfl
theorem gen_source_pinEquals : Gen.pinEquals = Expected.pinEquals := rfl
theorem gen_source_pinWithOpts : Gen.pinWithOpts = Expected.pinWithOpts := rfl
theorem gen_source_isRemotePin : Gen.isRemotePin = Expected.isRemotePin := rfl
theorem gen_source_expiredAt : Gen.expiredAt = Expected.expiredAt := rfl


end CV.C04
