import ClusterVerif.Lemmas.C04
import ClusterVerif.Lemmas.C04Faults
import ClusterVerif.Model.C04Source
import ClusterVerif.Gen.C04
import ClusterVerif.Lemmas.C04Rpc
import ClusterVerif.Lemmas.C04Sem
import ClusterVerif.Gen.C04Sem
import ClusterVerif.Lemmas.C04Typed

/-!
# C04 — pin, unpin and update change the pinset exactly as requested, or not at all

Property theorems only (helpers in `Lemmas/C04.lean`, `Lemmas/PinMap.lean`).

* `step_holds` — for every configuration, every well-formed pinset, every call and every
  allocation the C03 relation admits, the outcome of the model of `cluster.go` satisfies every
  clause of the property (Spec/C04 `holds`). No bound on sizes.
* `step_wf` / `run_wf` — one entry per CID is an invariant of every call sequence.
-/
namespace CV.C04
open CV

/-- a C03 input used only as the default of `Option.getD` in examples -/
def default' : C03.Input := { desc := false, rmin := 0, rmax := 0, peers := [], current := [], blacklist := [], priority := [] }

/-- requests carry metadata as a map (one value per key) -/
def wfOp : Op → Bool
  | .pin _ o => decide (o.metadata.map (·.1)).Nodup
  | .pinPath _ o => decide (o.metadata.map (·.1)).Nodup
  | _ => true

def wfCfg (cfg : Cfg) : Bool := decide (cfg.peers.map (·.1)).Nodup

theorem generic_hold (cfg : Cfg) (pre : PinMap) (op : Op) (chosen : List Nat) (hwf : pre.wf = true) :
    (genericClauses cfg pre op (step cfg pre op chosen).res (step cfg pre op chosen).post).all (·.2) = true := by
  have hshape := shape_step cfg pre op chosen
  have g1 : (step cfg pre op chosen).post.wf = true := shape_wf hshape hwf
  have g2 : ((step cfg pre op chosen).res.isSome || sameMap pre (step cfg pre op chosen).post) = true := by
    cases hres : (step cfg pre op chosen).res with
    | some _ => rfl
    | none => rw [shape_refused hshape hres]; simp [sameMap_self]
  have g3 : (allKeys pre (step cfg pre op chosen).post).all
      (fun c => (targets cfg pre op).contains c || pre.get c == (step cfg pre op chosen).post.get c) = true := by
    simp only [List.all_eq_true, Bool.or_eq_true, List.contains_eq_mem, decide_eq_true_eq, beq_iff_eq]
    intro c _
    by_cases hc : c ∈ targets cfg pre op
    · exact Or.inl hc
    · exact Or.inr (shape_frame hshape hwf c hc).symm
  have g4 : (!mustRefuse cfg pre op || (step cfg pre op chosen).res.isNone) = true := by
    cases hm : mustRefuse cfg pre op with
    | false => rfl
    | true => simp [mustRefuse_refused cfg pre op chosen hm]
  unfold genericClauses
  simp only [List.all_cons, List.all_nil, g1, g2, g3, g4, Bool.and_true]

theorem update_hold (cfg : Cfg) (pre : PinMap) (s d : Nat) (o : Opts) (hpre : pre.wfState = true)
    (hne : (pinUpdate cfg pre s d o).res ≠ none) :
    (updateClauses pre (pinUpdate cfg pre s d o).post s d o).all (·.2) = true := by
  obtain ⟨src, st, hs, hd, g1, g2, g3, g4, g5, g6, g7, g8, g9, g10, g11, g12⟩ :=
    update_effect cfg pre s d o hpre hne
  unfold updateClauses
  rw [hs, hd]
  have hk : (s == d || (pinUpdate cfg pre s d o).post.get s == pre.get s) = true := by
    rcases g12 with h | h
    · simp [h]
    · simp [h]
  rw [hs] at hk
  simp only [List.all_cons, List.all_nil, Bool.and_true, g1, g2, g3, g4, g5, g6, g7, g8, g9, g10, g11,
    beq_self_eq_true]
  rw [hk]; rfl

theorem pin_hold (cfg : Cfg) (pre : PinMap) (c : Nat) (o : Opts) (chosen : List Nat)
    (hpre : pre.wfState = true) (hcfg : (cfg.peers.map (·.1)).Nodup) (hn : (o.metadata.map (·.1)).Nodup)
    (hfol : cfg.follower = false)
    (hne : (pinOp cfg pre (pinWithOpts c o) [] chosen).res ≠ none)
    (halloc : ∀ ai, (pinOp cfg pre (pinWithOpts c o) [] chosen).alloc = some ai → C03.allowed ai (.ok chosen) = true) :
    (pinClauses cfg pre (pinOp cfg pre (pinWithOpts c o) [] chosen).post c o).all (·.2) = true := by
  unfold pinClauses
  cases hv : viaUpdate c o with
  | some u =>
    simp only
    have hupd := pinOp_user_update cfg pre c o chosen u hfol hv
    rw [hupd] at hne ⊢
    exact update_hold cfg pre u c o hpre hne
  | none =>
    simp only
    have hbody := pinOp_user_noUpdate cfg pre c o chosen hfol hv
    rw [hbody] at hne halloc ⊢
    obtain ⟨st, hget, hty, hcar, hid, hal⟩ := pin_effect cfg pre c o chosen hpre hcfg hn hne halloc
    rw [hget]
    simp only [List.all_cons, List.all_nil, Bool.and_true, hty, hcar, beq_self_eq_true, Bool.true_and]
    cases hi : identicalRepin cfg pre c o with
    | none =>
      simp only [Bool.true_and]
      rcases hal with ⟨e, he, _⟩ | h
      · rw [hi] at he; cases he
      · exact h
    | some e =>
      simp only [Bool.and_eq_true, Bool.or_eq_true, beq_iff_eq, List.isEmpty_iff, Bool.not_eq_true',
        List.isEmpty_eq_false_iff]
      refine ⟨hid e hi, ?_⟩
      rcases hal with ⟨e', he', hne'⟩ | h
      · rw [hi] at he'; cases he'; exact Or.inl hne'
      · exact Or.inr h

theorem unpin_hold (cfg : Cfg) (pre : PinMap) (c : Nat) (hne : (unpinOp cfg pre c).res ≠ none) :
    (unpinClauses cfg pre (unpinOp cfg pre c).post c).all (·.2) = true := by
  unfold unpinClauses
  have h := unpin_effect cfg pre c hne
  have : ((c :: targets.shardGroup cfg pre c).all fun k => ((unpinOp cfg pre c).post.get k).isNone) = true := by
    rw [List.all_eq_true]; intro k hk; rw [h k hk]; rfl
  rw [List.all_cons, List.all_nil, Bool.and_true]; exact this

/-- C04: every outcome the model of `cluster.go` can produce satisfies every clause of the property. -/
theorem step_holds (cfg : Cfg) (pre : PinMap) (op : Op) (chosen : List Nat)
    (hpre : pre.wfState = true) (hcfg : wfCfg cfg = true) (hop : wfOp op = true)
    (halloc : ∀ ai, (step cfg pre op chosen).alloc = some ai → C03.allowed ai (.ok chosen) = true) :
    holds cfg pre op (step cfg pre op chosen).res (step cfg pre op chosen).post = true := by
  have hwf : pre.wf = true := by
    unfold PinMap.wfState at hpre; simp only [Bool.and_eq_true] at hpre; exact hpre.1
  have hcfg' : (cfg.peers.map (·.1)).Nodup := by simpa [wfCfg] using hcfg
  unfold holds clauses
  rw [List.all_append, generic_hold cfg pre op chosen hwf, Bool.true_and]
  cases hres : (step cfg pre op chosen).res with
  | none => rfl
  | some r =>
    have hne : (step cfg pre op chosen).res ≠ none := by rw [hres]; simp
    have hfol : cfg.follower = false := by
      cases hf : cfg.follower with
      | false => rfl
      | true => exact absurd (step_follower cfg pre op chosen hf) hne
    simp only [Option.isSome_some, if_true]
    unfold okClauses
    cases op with
    | pin c o =>
      have hn : (o.metadata.map (·.1)).Nodup := by simpa [wfOp] using hop
      exact pin_hold cfg pre c o chosen hpre hcfg' hn hfol hne halloc
    | pinPath path o =>
      have hn : (o.metadata.map (·.1)).Nodup := by simpa [wfOp] using hop
      have hstep : step cfg pre (Op.pinPath path o) chosen = (match lookup cfg.paths path with
          | some c => pinOp cfg pre (pinWithOpts c o) [] chosen
          | none => err pre) := rfl
      simp only [resolve]
      cases hl : lookup cfg.paths path with
      | none => rw [hstep, hl] at hne; exact absurd rfl hne
      | some c =>
        simp only
        rw [hstep, hl] at hne halloc ⊢
        exact pin_hold cfg pre c o chosen hpre hcfg' hn hfol hne halloc
    | update s d o => exact update_hold cfg pre s d o hpre hne
    | unpin c => exact unpin_hold cfg pre c hne
    | unpinPath path =>
      have hstep : step cfg pre (Op.unpinPath path) chosen = (match lookup cfg.paths path with
          | some c => unpinOp cfg pre c
          | none => err pre) := rfl
      simp only [resolve]
      cases hl : lookup cfg.paths path with
      | none => rw [hstep, hl] at hne; exact absurd rfl hne
      | some c =>
        simp only
        rw [hstep, hl] at hne ⊢
        exact unpin_hold cfg pre c hne
    | rpcPin p =>
      simp only [List.all_cons, List.all_nil, Bool.and_true, Bool.and_eq_true]
      exact ⟨rpcPin_effect cfg pre p chosen hwf hne, rpcPin_sent_effect cfg pre p chosen hwf hfol hne⟩

/-- requests (incl. the rpc pin entry) carry metadata as a map -/
def wfOpFull : Op → Bool
  | .rpcPin p => decide (p.opts.metadata.map (·.1)).Nodup
  | op => wfOp op

/-- The pinset stays well-formed (one entry per CID, entries in stored form) under every call. -/
theorem step_wfState (cfg : Cfg) (pre : PinMap) (op : Op) (chosen : List Nat)
    (hpre : pre.wfState = true) (hop : wfOpFull op = true) : (step cfg pre op chosen).post.wfState = true := by
  have hall : ∀ e ∈ pre, metaOk e := by
    intro e he
    have := ((wfState_iff pre).1 hpre).2 e he
    exact ((wfStored_iff e).1 this).2
  have userOk : ∀ (c : Nat) (o : Opts), (o.metadata.map (·.1)).Nodup → metaOk (pinWithOpts c o) := fun _ _ h => h
  cases op with
  | pin c o =>
    exact wfState_of_mshape hpre (mshape_pinOp cfg pre _ [] chosen hall (userOk c o (by simpa [wfOpFull, wfOp] using hop)))
  | pinPath path o =>
    show (match lookup cfg.paths path with
      | some c => pinOp cfg pre (pinWithOpts c o) [] chosen
      | none => err pre).post.wfState = true
    split
    · exact wfState_of_mshape hpre (mshape_pinOp cfg pre _ [] chosen hall (userOk _ o (by simpa [wfOpFull, wfOp] using hop)))
    · exact hpre
  | update s d o => exact wfState_of_mshape hpre (mshape_pinUpdate cfg pre s d o hall)
  | unpin c => exact wfState_unpinOp cfg pre c hpre
  | unpinPath path =>
    show (match lookup cfg.paths path with
      | some c => unpinOp cfg pre c
      | none => err pre).post.wfState = true
    split
    · exact wfState_unpinOp cfg pre _ hpre
    · exact hpre
  | rpcPin p =>
    exact wfState_of_mshape hpre (mshape_pinOp cfg pre p [] chosen hall (by simpa [wfOpFull, metaOk] using hop))

/-- History form of C04: along ANY sequence of calls from the empty pinset, with any admissible
    allocation at each call, every call's outcome satisfies every clause of the property. -/
theorem run_holds (cfg : Cfg) (hcfg : wfCfg cfg = true) (ops : List (Op × List Nat)) :
    ∀ (pre : PinMap), pre.wfState = true →
      (∀ oc ∈ ops, wfOpFull oc.1 = true ∧ wfOp oc.1 = true) →
      -- admissible choices: whenever the model consults allocate(), the chosen list is in the C03 relation
      (∀ (m : PinMap) (oc : Op × List Nat), oc ∈ ops → ∀ ai, (step cfg m oc.1 oc.2).alloc = some ai →
          C03.allowed ai (.ok oc.2) = true) →
      let states := ops.scanl (fun m oc => (step cfg m oc.1 oc.2).post) pre
      ∀ k (hk : k < ops.length),
        holds cfg (states.getD k []) (ops[k]).1 (step cfg (states.getD k []) (ops[k]).1 (ops[k]).2).res
          (step cfg (states.getD k []) (ops[k]).1 (ops[k]).2).post = true := by
  induction ops with
  | nil => intro pre _ _ _ _ k hk; exact absurd hk (by simp)
  | cons oc t ih =>
    intro pre hpre hops hadm states k hk
    cases k with
    | zero =>
      have h0 : states.getD 0 [] = pre := by simp [states, List.scanl_cons]
      simp only [List.getElem_cons_zero, h0]
      exact step_holds cfg pre oc.1 oc.2 hpre hcfg (hops oc (by simp)).2
        (fun ai hai => hadm pre oc (by simp) ai hai)
    | succ k' =>
      have hnext := step_wfState cfg pre oc.1 oc.2 hpre (hops oc (by simp)).1
      have := ih _ hnext (fun o ho => hops o (List.mem_cons_of_mem _ ho))
        (fun m o ho => hadm m o (List.mem_cons_of_mem _ ho)) k' (by simpa using hk)
      have hs : states.getD (k' + 1) [] =
          (t.scanl (fun m oc => (step cfg m oc.1 oc.2).post) (step cfg pre oc.1 oc.2).post).getD k' [] := by
        simp [states, List.scanl_cons]
      simp only [List.getElem_cons_succ, hs]
      exact this

/-- One entry per CID is preserved by every call (any result, any allocation). -/
theorem step_wf (cfg : Cfg) (pre : PinMap) (op : Op) (chosen : List Nat) (hw : pre.wf = true) :
    (step cfg pre op chosen).post.wf = true :=
  shape_wf (shape_step cfg pre op chosen) hw

/-- …hence by every call sequence from the empty pinset. -/
theorem run_wf (cfg : Cfg) (ops : List (Op × List Nat)) :
    (ops.foldl (fun m oc => (step cfg m oc.1 oc.2).post) ([] : PinMap)).wf = true := by
  suffices h : ∀ m : PinMap, m.wf = true → (ops.foldl (fun m oc => (step cfg m oc.1 oc.2).post) m).wf = true from
    h [] rfl
  induction ops with
  | nil => intro m hm; exact hm
  | cons oc t ih => intro m hm; exact ih _ (step_wf cfg m oc.1 oc.2 hm)


/-! Non-vacuity: a concrete re-pin with a metadata key removed meets every hypothesis of
    `step_holds`, is stored, and the spec rejects the outcome "nothing changed". -/
private def exOpts : Opts :=
  { rmin := 0, rmax := 0, name := 1, mode := .recursive, shard := 0, expire := .zero,
    metadata := [(1, 1)], update := none, origins := [], ualloc := [] }
private def exPre : PinMap :=
  [{ cid := 3, type := .dataT, depth := -1, allocs := [0, 1], ref := none,
     opts := { exOpts with rmin := 2, rmax := 3, metadata := [(1, 1), (2, 1)] } }]
private def exCfg : Cfg :=
  { follower := false, defMin := 2, defMax := 3, desc := false,
    peers := [(0, .valid 1), (1, .valid 2), (2, .valid 3)], paths := [], blocks := [] }
example :
    exPre.wfState = true ∧ wfCfg exCfg = true ∧ wfOp (.pin 3 exOpts) = true ∧
    (step exCfg exPre (.pin 3 exOpts) [0, 1]).res.isSome = true ∧
    ((step exCfg exPre (.pin 3 exOpts) [0, 1]).alloc.map (fun ai => C03.allowed ai (.ok [0, 1]))) = some true ∧
    holds exCfg exPre (.pin 3 exOpts) (step exCfg exPre (.pin 3 exOpts) [0, 1]).res
      (step exCfg exPre (.pin 3 exOpts) [0, 1]).post = true ∧
    holds exCfg exPre (.pin 3 exOpts) exPre.head? exPre = false := by decide


/-! ## Round 7 — path operations, consensus faults at every position, overlapping calls -/

/-! ### PinPath / UnpinPath -/

/-- `PinPath` is `Pin` of what the path resolves to; `UnpinPath` is `Unpin` of it -/
theorem path_ops_are_cid_ops (cfg : Cfg) (pre : PinMap) (path c : Nat) (o : Opts) (ch : List Nat)
    (h : lookup cfg.paths path = some c) :
    step cfg pre (.pinPath path o) ch = step cfg pre (.pin c o) ch ∧
    step cfg pre (.unpinPath path) ch = step cfg pre (.unpin c) ch := by
  simp [step, h]

/-- a path that does not resolve (`ipfs.Resolve` error or timeout): refused, nothing logged, nothing changed -/
theorem path_unresolved_is_noop (cfg : Cfg) (pre : PinMap) (path : Nat) (o : Opts) (ch : List Nat)
    (h : lookup cfg.paths path = none) :
    (step cfg pre (.pinPath path o) ch).res = none ∧ (step cfg pre (.pinPath path o) ch).post = pre ∧
    (step cfg pre (.pinPath path o) ch).log = [] ∧
    (step cfg pre (.unpinPath path) ch).res = none ∧ (step cfg pre (.unpinPath path) ch).post = pre ∧
    (step cfg pre (.unpinPath path) ch).log = [] := by
  simp [step, h, err]

/-- `PinPath` with the `update` option set to another CID is `PinUpdate(update, resolved, opts)` -/
theorem pinPath_update_is_pinUpdate (cfg : Cfg) (pre : PinMap) (path c u : Nat) (o : Opts) (ch : List Nat)
    (h : lookup cfg.paths path = some c) (hfol : cfg.follower = false) (hu : viaUpdate c o = some u) :
    step cfg pre (.pinPath path o) ch = pinUpdate cfg pre u c o := by
  rw [(path_ops_are_cid_ops cfg pre path c o ch h).1]
  exact pinOp_user_update cfg pre c o ch u hfol hu

/-- a path that resolves to a CID whose entry is a shard, cluster-DAG or meta pin cannot be (re-)pinned through
    `PinPath`, and one that resolves to a shard or cluster-DAG pin cannot be unpinned: refused, pinset unchanged -/
theorem path_to_structural_entry_refused (cfg : Cfg) (pre : PinMap) (path c : Nat) (o : Opts) (ch : List Nat) (e : Pin)
    (h : lookup cfg.paths path = some c) (he : pre.get c = some e) (hty : e.type ≠ .dataT) (hu : viaUpdate c o = none) :
    (step cfg pre (.pinPath path o) ch).res = none ∧ (step cfg pre (.pinPath path o) ch).post = pre ∧
    ((e.type = .shardT ∨ e.type = .clusterDagT) →
      (step cfg pre (.unpinPath path) ch).res = none ∧ (step cfg pre (.unpinPath path) ch).post = pre) := by
  have hm : mustRefuse cfg pre (.pinPath path o) = true := by
    have ht : (e.type != PinType.dataT) = true := by simpa using hty
    simp [mustRefuse, pinRequest, resolve, h, hu, he, ht]
  have hres := mustRefuse_refused cfg pre (.pinPath path o) ch hm
  refine ⟨hres, shape_refused (shape_step cfg pre (.pinPath path o) ch) hres, ?_⟩
  intro hs
  rw [(path_ops_are_cid_ops cfg pre path c o ch h).2]
  rcases hs with hs | hs <;> by_cases hf : cfg.follower = true <;> simp [step, unpinOp, he, hs, hf, err]

/-! ### consensus faults -/

/-- no fault (or a fault position the call never reaches): the call of `Model/C04.lean` -/
theorem stepF_no_fault (cfg : Cfg) (pre : PinMap) (op : Op) (ch : List Nat) :
    stepF cfg pre op ch none = step cfg pre op ch ∧
    ∀ k, (step cfg pre op ch).log.length ≤ k → stepF cfg pre op ch (some k) = step cfg pre op ch := by
  refine ⟨rfl, ?_⟩
  intro k hk
  have : ¬ k < (step cfg pre op ch).log.length := by omega
  simp [stepF, this]

/-- a fault at the k-th consensus call: an error, and exactly the first k calls applied -/
theorem fault_effect (cfg : Cfg) (pre : PinMap) (op : Op) (ch : List Nat) (k : Nat)
    (hk : k < (step cfg pre op ch).log.length) :
    (stepF cfg pre op ch (some k)).res = none ∧
    (stepF cfg pre op ch (some k)).post = applyLog ((step cfg pre op ch).log.take k) pre ∧
    (stepF cfg pre op ch (some k)).log = (step cfg pre op ch).log.take k := stepF_fault hk

/-- "or not at all" under faults, the provable part: a call that issues at most one consensus call (every Pin,
    PinPath, PinUpdate, rpc pin, and Unpin/UnpinPath of a data pin) leaves the pinset unchanged when it fails -/
theorem failed_call_is_noop_partial (cfg : Cfg) (pre : PinMap) (op : Op) (ch : List Nat) (fault : Option Nat)
    (hone : (step cfg pre op ch).log.length ≤ 1) (hres : (stepF cfg pre op ch fault).res = none) :
    (stepF cfg pre op ch fault).post = pre := by
  cases fault with
  | none => exact shape_refused (shape_step cfg pre op ch) hres
  | some k =>
    by_cases hk : k < (step cfg pre op ch).log.length
    · have h0 : k = 0 := by omega
      subst h0
      rw [(stepF_fault hk).2.1]; rfl
    · have := (stepF_no_fault cfg pre op ch).2 k (by omega)
      rw [this] at hres ⊢
      exact shape_refused (shape_step cfg pre op ch) hres

/-- the full statement: EVERY failed call leaves the pinset unchanged -/
def failed_call_is_noop_full : Prop :=
  ∀ (cfg : Cfg) (pre : PinMap) (op : Op) (ch : List Nat) (fault : Option Nat),
    pre.wfState = true → (stepF cfg pre op ch fault).res = none → (stepF cfg pre op ch fault).post = pre

private def shGroup : PinMap :=
  let o : Opts := { rmin := 0, rmax := 0, name := 0, mode := .recursive, shard := 0, expire := .zero,
                    metadata := [], update := none, origins := [], ualloc := [] }
  [ { cid := 8, type := .metaT, depth := -1, allocs := [], ref := some 9, opts := o },
    { cid := 9, type := .clusterDagT, depth := 0, allocs := [], ref := some 8, opts := { o with rmin := -1, rmax := -1, mode := .direct } },
    { cid := 10, type := .shardT, depth := 1, allocs := [0], ref := none, opts := { o with rmin := 1, rmax := 2 } },
    { cid := 11, type := .shardT, depth := 1, allocs := [1], ref := some 10, opts := { o with rmin := 1, rmax := 2 } } ]
private def shCfg : Cfg :=
  { follower := false, defMin := 1, defMax := 2, desc := false, peers := [(0, .valid 1), (1, .valid 1)], paths := [(6, 8)],
    blocks := [(9, [10, 11])] }

/-- …which the code violates: the sharded unpin with the second `LogUnpin` failing reports an error and has
    removed shard 11 (known finding K41; the same line is in corpus/C04/calls.txt and fails on the implementation) -/
theorem failed_call_is_noop_full_fails : ¬ failed_call_is_noop_full := by
  intro h
  have := h shCfg shGroup (.unpin 8) [] (some 1) (by decide) (by decide)
  revert this; decide

/-- every fault position of the sharded unpin: with links `l` the calls are `l.reverse ++ [r, c, c]`; after a
    fault at position k exactly the cids of the first k calls are gone, everything else is as before -/
theorem sharded_unpin_fault_positions (cfg : Cfg) (pre : PinMap) (c r : Nat) (p q : Pin) (links : List Nat) (k : Nat)
    (hfol : cfg.follower = false) (hp : pre.get c = some p) (hty : p.type = .metaT) (hr : p.ref = some r)
    (hq : pre.get r = some q) (hb : lookup cfg.blocks r = some links) (hk : k < links.length + 3) (x : Nat) :
    (stepF cfg pre (.unpin c) [] (some k)).res = none ∧
    (stepF cfg pre (.unpin c) [] (some k)).post.get x =
      if x ∈ (links.reverse ++ [r, c, c]).take k then none else pre.get x := by
  obtain ⟨hlog, _, _⟩ := unpin_meta_log hfol hp hty hr hq hb []
  have hk' : k < (step cfg pre (.unpin c) []).log.length := by rw [hlog]; simp; omega
  obtain ⟨h1, h2, _⟩ := stepF_fault hk'
  refine ⟨h1, ?_⟩
  rw [h2, hlog, ← List.map_take, applyLog_unpins, get_foldl_erase]

/-- a fault at a shard or at the cluster-DAG call (k ≤ number of shards) is healed by a retry: the entries the
    retry needs are still there, and the retry ends in the pinset the undisturbed Unpin would have produced -/
theorem unpin_retry_heals (cfg : Cfg) (pre : PinMap) (c r : Nat) (p q : Pin) (links : List Nat) (k : Nat)
    (hw : pre.wf = true)
    (hfol : cfg.follower = false) (hp : pre.get c = some p) (hty : p.type = .metaT) (hr : p.ref = some r)
    (hq : pre.get r = some q) (hb : lookup cfg.blocks r = some links) (hk : k ≤ links.length)
    (hc : c ∉ links) (hrl : r ∉ links) :
    (step cfg (stepF cfg pre (.unpin c) [] (some k)).post (.unpin c) []).post = (step cfg pre (.unpin c) []).post := by
  have hpos := fun x => (sharded_unpin_fault_positions cfg pre c r p q links k hfol hp hty hr hq hb (by omega) x).2
  have htake : (links.reverse ++ [r, c, c]).take k = links.reverse.take k := by
    rw [List.take_append_of_le_length (by simpa using hk)]
  have hsub : ∀ x, x ∈ links.reverse.take k → x ∈ links := fun x hx => List.mem_reverse.1 (List.mem_of_mem_take hx)
  set s := (stepF cfg pre (.unpin c) [] (some k)).post with hs
  have hsc : s.get c = some p := by rw [hpos c, htake, if_neg (fun h => hc (hsub c h))]; exact hp
  have hsr : s.get r = some q := by rw [hpos r, htake, if_neg (fun h => hrl (hsub r h))]; exact hq
  obtain ⟨hlog, _, _⟩ := unpin_meta_log hfol hp hty hr hq hb []
  have hk' : k < (step cfg pre (.unpin c) []).log.length := by rw [hlog]; simp; omega
  have hsw : s.wf = true := by rw [hs, (stepF_fault hk').2.1]; exact wf_applyLog _ hw
  have e1 : (step cfg s (.unpin c) []).post = (links.reverse ++ [r, c, c]).foldl PinMap.erase s := by
    simp [step, unpinOp, hfol, hsc, hty, hr, hsr, hb]
  have e2 : (step cfg pre (.unpin c) []).post = (links.reverse ++ [r, c, c]).foldl PinMap.erase pre := by
    simp [step, unpinOp, hfol, hp, hty, hr, hq, hb]
  rw [e1, e2]
  apply ext_of_wf (wf_foldl_erase hsw _) (wf_foldl_erase hw _)
  intro x
  rw [get_foldl_erase, get_foldl_erase, hpos x, htake]
  by_cases hx : x ∈ links.reverse ++ [r, c, c]
  · simp [hx]
  · have : x ∉ links.reverse.take k := fun h => hx (List.mem_append_left _ (List.mem_of_mem_take h))
    simp [hx, this]

/-- a fault exactly at the meta pin inside `unpinClusterDag` (position number-of-shards + 1: the cluster-DAG entry
    is gone, the meta pin is not) strands the meta pin: every later Unpin of it is refused, the pinset keeps it -/
theorem unpin_fault_strands_meta (cfg : Cfg) (pre : PinMap) (c r : Nat) (p q : Pin) (links : List Nat)
    (hfol : cfg.follower = false) (hp : pre.get c = some p) (hty : p.type = .metaT) (hr : p.ref = some r)
    (hq : pre.get r = some q) (hb : lookup cfg.blocks r = some links) (hc : c ∉ links) (hrc : r ≠ c) (ch : List Nat) :
    let s := (stepF cfg pre (.unpin c) [] (some (links.length + 1))).post
    s.get c = some p ∧ s.get r = none ∧
    (step cfg s (.unpin c) ch).res = none ∧ (step cfg s (.unpin c) ch).post = s := by
  intro s
  have hpos := fun x => (sharded_unpin_fault_positions cfg pre c r p q links (links.length + 1) hfol hp hty hr hq hb (by omega) x).2
  have htake : (links.reverse ++ [r, c, c]).take (links.length + 1) = links.reverse ++ [r] := by
    rw [List.take_append, List.take_of_length_le (by simp)]; simp
  have hsc : s.get c = some p := by
    show (stepF cfg pre (.unpin c) [] (some (links.length + 1))).post.get c = some p
    rw [hpos c, htake, if_neg, hp]
    simp only [List.mem_append, List.mem_reverse, List.mem_singleton, not_or]
    exact ⟨hc, fun h => hrc h.symm⟩
  have hsr : s.get r = none := by
    show (stepF cfg pre (.unpin c) [] (some (links.length + 1))).post.get r = none
    rw [hpos r, htake, if_pos (by simp)]
  refine ⟨hsc, hsr, ?_, ?_⟩ <;> simp [step, unpinOp, hfol, hsc, hty, hr, hsr, err]

/-- the cluster-DAG block may list a shard that is not (or no longer) in the pinset: the Unpin still succeeds and
    removes the rest (an absent entry is removed as a no-op) -/
theorem unpin_tolerates_absent_shard (cfg : Cfg) (pre : PinMap) (c r : Nat) (p q : Pin) (links : List Nat)
    (hfol : cfg.follower = false) (hp : pre.get c = some p) (hty : p.type = .metaT) (hr : p.ref = some r)
    (hq : pre.get r = some q) (hb : lookup cfg.blocks r = some links) (x : Nat) :
    (step cfg pre (.unpin c) []).res = some p ∧
    (step cfg pre (.unpin c) []).post.get x = if x ∈ links ∨ x = r ∨ x = c then none else pre.get x := by
  refine ⟨(unpin_meta_log hfol hp hty hr hq hb []).2.1, ?_⟩
  have e2 : (step cfg pre (.unpin c) []).post = (links.reverse ++ [r, c, c]).foldl PinMap.erase pre := by
    simp [step, unpinOp, hfol, hp, hty, hr, hq, hb]
  rw [e2, get_foldl_erase]
  by_cases h1 : x ∈ links <;> by_cases h2 : x = r <;> by_cases h3 : x = c <;> simp [h1, h2, h3]

/-! ### two calls overlapping on one peer -/

/-- the six interleavings of (read, write) × (read, write) produce exactly the four closed-form outcomes:
    who writes first, and whether the second writer read before or after that write -/
theorem interleavings_are_concurrent (cfg : Cfg) (pre : PinMap) (a b : Call) :
    ∀ sched ∈ allScheds, ∃ x y stale, ((x = a ∧ y = b) ∨ (x = b ∧ y = a)) ∧
      (runSched cfg a b pre sched).s = concurrent cfg pre x y stale := by
  intro sched hs
  simp only [allScheds, List.mem_cons, List.mem_nil_iff, or_false] at hs
  rcases hs with rfl | rfl | rfl | rfl | rfl | rfl
  · exact ⟨a, b, false, Or.inl ⟨rfl, rfl⟩, rfl⟩
  · exact ⟨a, b, true, Or.inl ⟨rfl, rfl⟩, rfl⟩
  · exact ⟨b, a, true, Or.inr ⟨rfl, rfl⟩, rfl⟩
  · exact ⟨a, b, true, Or.inl ⟨rfl, rfl⟩, rfl⟩
  · exact ⟨b, a, true, Or.inr ⟨rfl, rfl⟩, rfl⟩
  · exact ⟨b, a, false, Or.inr ⟨rfl, rfl⟩, rfl⟩

/-- Last writer wins, and what it wins with is well-formed: for any two calls, whoever writes second (`y`) and
    whatever it had read, the final pinset has one entry per CID; at EVERY cid the final entry is the one `y` computed
    (from the pinset it read) or the one `x` left; and `y`'s outcome satisfies every clause of C04 — in particular
    its allocation satisfies C03 for its request — relative to the pinset it read. -/
theorem last_writer_wins_wellformed (cfg : Cfg) (pre : PinMap) (x y : Call) (stale : Bool)
    (hpre : pre.wfState = true) (hcfg : wfCfg cfg = true)
    (hx : wfOpFull x.op = true) (hy : wfOp y.op = true)
    (halloc : ∀ ai, (step cfg (readOfSecond cfg pre x stale) y.op y.chosen).alloc = some ai →
      C03.allowed ai (.ok y.chosen) = true) :
    let readY := readOfSecond cfg pre x stale
    let outX := step cfg pre x.op x.chosen
    let outY := step cfg readY y.op y.chosen
    let final := concurrent cfg pre x y stale
    final.wf = true ∧
    (∀ k, final.get k = outY.post.get k ∨ final.get k = outX.post.get k) ∧
    (∀ k, touched outY.log k = true → final.get k = outY.post.get k) ∧
    holds cfg readY y.op outY.res outY.post = true := by
  intro readY outX outY final
  have hwf : pre.wf = true := by
    unfold PinMap.wfState at hpre; simp only [Bool.and_eq_true] at hpre; exact hpre.1
  have hs1 : applyLog outX.log pre = outX.post := (post_eq_applyLog (shape_step cfg pre x.op x.chosen)).symm
  have hs1wfS : outX.post.wfState = true := step_wfState cfg pre x.op x.chosen hpre hx
  have hs1wf : outX.post.wf = true := by
    unfold PinMap.wfState at hs1wfS; simp only [Bool.and_eq_true] at hs1wfS; exact hs1wfS.1
  have hreadS : readY.wfState = true := by
    show (readOfSecond cfg pre x stale).wfState = true
    unfold readOfSecond; cases stale
    · simp only [Bool.false_eq_true, if_false]; rw [hs1]; exact hs1wfS
    · exact hpre
  have hreadwf : readY.wf = true := by
    unfold PinMap.wfState at hreadS; simp only [Bool.and_eq_true] at hreadS; exact hreadS.1
  have hfinal : final = applyLog outY.log outX.post := by
    show concurrent cfg pre x y stale = _
    unfold concurrent; simp only; rw [hs1]
    show _ = applyLog (step cfg (readOfSecond cfg pre x stale) y.op y.chosen).log outX.post
    unfold readOfSecond; rw [hs1]
  have hget := fun k => get_applyLog_of_shape (shape_step cfg readY y.op y.chosen) hreadwf hs1wf k
  refine ⟨?_, ?_, ?_, ?_⟩
  · rw [hfinal]; exact wf_applyLog _ hs1wf
  · intro k; rw [hfinal, hget k]
    by_cases ht : touched outY.log k = true
    · left; simp [outY, ht]
    · right; simp [outY, outX, ht]
  · intro k ht; rw [hfinal, hget k]; simp [outY, ht]
  · exact step_holds cfg readY y.op y.chosen hreadS hcfg hy halloc

private def cOpts : Opts :=
  { rmin := 1, rmax := 1, name := 0, mode := .recursive, shard := 0, expire := .zero,
    metadata := [], update := none, origins := [], ualloc := [] }
private def cCfg : Cfg :=
  { follower := false, defMin := 1, defMax := 1, desc := false, peers := [(0, .valid 1), (1, .valid 1)], paths := [], blocks := [] }

/-- …but only relative to the pinset it READ. Judged against the pinset its write landed on, a stale second
    writer can break the statement: two overlapping, identical `Pin` calls (both admissible for their read, the two
    peers tie) leave the allocation of the SECOND, although "re-pinning with identical options keeps the
    allocations". The property's quantifier is over sequences of calls, so this is recorded as an observation about
    overlap (replayed on the real Cluster by suite `conc`), not as a violation of C04. -/
theorem stale_writer_judged_at_write_fails :
    ∃ (cfg : Cfg) (pre : PinMap) (x y : Call),
      C03.allowed ((step cfg pre x.op x.chosen).alloc.getD default') (.ok x.chosen) = true ∧
      C03.allowed ((step cfg pre y.op y.chosen).alloc.getD default') (.ok y.chosen) = true ∧
      holds cfg (step cfg pre x.op x.chosen).post y.op (step cfg pre y.op y.chosen).res (concurrent cfg pre x y true) = false :=
  ⟨cCfg, [], { op := .pin 1 cOpts, chosen := [0] }, { op := .pin 1 cOpts, chosen := [1] }, by decide⟩

/-! ### The anchored functions still read as the model was transcribed (regenerated from /repo on every run) -/

/-! ## Round 8 — the RPC layer (rpc_api.go) in front of the model

`Gen.rpcTable` is regenerated from the go/ast of rpc_api.go on every run; `rpcOp` interprets it. -/

/-- the interpreted table is the one the model was read against (a `decide`-style tie: any edit of an entry
    point's callee, arguments, returned value or error handling changes the table) -/
theorem gen_rpc_table : Gen.rpcTable = expectedRpcTable := by decide

/-- The RPC layer performs, for every writing call, exactly the Cluster operation the request means:
    `Pin` hands the whole received pin to `pin()` (no blacklist) — for a plain data pin that IS the user-facing
    `Pin(cid, options)`; `Unpin` uses the cid only; `PinPath` hands on path AND options; `UnpinPath` the path.
    Whole outcome (result, pinset, consensus calls, allocation input) under every fault position. -/
theorem rpc_layer_is_passthrough (call : RpcCall) (op : Op) (h : call.intended = some op) :
    ∃ op', rpcOp Gen.rpcTable call = some op' ∧
      ∀ cfg pre ch fault, stepF cfg pre op' ch fault = stepF cfg pre op ch fault := by
  rw [gen_rpc_table]
  cases call with
  | pin p =>
    refine ⟨.rpcPin p, by simp [rpcOp, findEntry, expectedRpcTable, RpcCall.method, evalArg, calleeOp], ?_⟩
    intro cfg pre ch fault
    simp only [RpcCall.intended, Option.some.injEq] at h
    by_cases hp' : (p == pinWithOpts p.cid p.opts) = true
    · rw [if_pos hp'] at h; subst h
      have hp : p = pinWithOpts p.cid p.opts := by simpa using hp'
      have : step cfg pre (.rpcPin p) ch = step cfg pre (.pin p.cid p.opts) ch := by
        show pinOp cfg pre p [] ch = pinOp cfg pre (pinWithOpts p.cid p.opts) [] ch
        rw [← hp]
      simp only [stepF, this]
    · rw [if_neg hp'] at h; subst h; rfl
  | unpin p =>
    refine ⟨.unpin p.cid, by simp [rpcOp, findEntry, expectedRpcTable, RpcCall.method, evalArg, calleeOp], ?_⟩
    intro cfg pre ch fault
    simp only [RpcCall.intended, Option.some.injEq] at h; subst h; rfl
  | pinPath path o =>
    refine ⟨.pinPath path o, by simp [rpcOp, findEntry, expectedRpcTable, RpcCall.method, evalArg, calleeOp], ?_⟩
    intro cfg pre ch fault
    simp only [RpcCall.intended, Option.some.injEq] at h; subst h; rfl
  | unpinPath path o =>
    refine ⟨.unpinPath path, by simp [rpcOp, findEntry, expectedRpcTable, RpcCall.method, evalArg, calleeOp], ?_⟩
    intro cfg pre ch fault
    simp only [RpcCall.intended, Option.some.injEq] at h; subst h; rfl
  | pinGet c => simp [RpcCall.intended] at h
  | pins => simp [RpcCall.intended] at h

/-- C04 at the RPC boundary: for every writing RPC call, the outcome the interpreted layer + model produce
    satisfies every clause of the property FOR THE REQUEST AS MEANT (`intended`), e.g. a plain data pin sent
    to `Cluster.Pin` is held to the option clauses of the user-facing Pin. -/
theorem rpc_step_holds (cfg : Cfg) (pre : PinMap) (call : RpcCall) (op : Op) (chosen : List Nat)
    (h : call.intended = some op)
    (hpre : pre.wfState = true) (hcfg : wfCfg cfg = true) (hop : wfOp op = true)
    (halloc : ∀ ai, (step cfg pre op chosen).alloc = some ai → C03.allowed ai (.ok chosen) = true) :
    ∃ out, rpcStep Gen.rpcTable cfg pre call chosen = some out ∧ holds cfg pre op out.res out.post = true := by
  obtain ⟨op', hop', heq⟩ := rpc_layer_is_passthrough call op h
  refine ⟨step cfg pre op chosen, ?_, step_holds cfg pre op chosen hpre hcfg hop halloc⟩
  have := heq cfg pre chosen none
  simp only [stepF] at this
  simp [rpcStep, hop', this]

/-- `Unpin` looks at nothing but the cid of the received pin, `UnpinPath` at nothing but the path:
    options, type, allocations sent along change nothing. -/
theorem rpc_unpin_uses_cid_only (p q : Pin) (path : Nat) (o o' : Opts) :
    (p.cid = q.cid → rpcOp Gen.rpcTable (.unpin p) = rpcOp Gen.rpcTable (.unpin q)) ∧
    rpcOp Gen.rpcTable (.unpinPath path o) = rpcOp Gen.rpcTable (.unpinPath path o') := by
  rw [gen_rpc_table]
  refine ⟨fun hc => ?_, ?_⟩ <;>
    simp_all [rpcOp, findEntry, expectedRpcTable, RpcCall.method, evalArg, calleeOp]

/-- The reading entry points hand back the pinset itself: `PinGet` the stored entry of that cid (error when
    absent), `Pins` every entry — the observation the property is stated over. -/
theorem rpc_reads_are_the_pinset (pre : PinMap) (c : Nat) :
    rpcRead Gen.rpcTable pre (.pinGet c) = some ((pre.get c).map (fun p => [p])) ∧
    rpcRead Gen.rpcTable pre .pins = some (some pre) := by
  rw [gen_rpc_table]; exact ⟨rfl, rfl⟩

/-- History form at the RPC boundary: along ANY sequence of writing RPC calls, every call performs the
    operation it means and its outcome satisfies every clause (composition of `rpc_layer_is_passthrough`
    with `run_holds`). -/
theorem rpc_run_holds (cfg : Cfg) (hcfg : wfCfg cfg = true) (calls : List (RpcCall × Op × List Nat))
    (hint : ∀ c ∈ calls, c.1.intended = some c.2.1) :
    ∀ (pre : PinMap), pre.wfState = true →
      (∀ c ∈ calls, wfOpFull c.2.1 = true ∧ wfOp c.2.1 = true) →
      (∀ (m : PinMap) c, c ∈ calls → ∀ ai, (step cfg m c.2.1 c.2.2).alloc = some ai → C03.allowed ai (.ok c.2.2) = true) →
      let states := calls.scanl (fun m c => (step cfg m c.2.1 c.2.2).post) pre
      ∀ k (hk : k < calls.length),
        ∃ out, rpcStep Gen.rpcTable cfg (states.getD k []) (calls[k]).1 (calls[k]).2.2 = some out ∧
          out = step cfg (states.getD k []) (calls[k]).2.1 (calls[k]).2.2 ∧
          holds cfg (states.getD k []) (calls[k]).2.1 out.res out.post = true := by
  intro pre hpre hops hadm states k hk
  have hrun := run_holds cfg hcfg (calls.map (fun c => (c.2.1, c.2.2))) pre hpre
    (by intro oc hoc; obtain ⟨c, hc, rfl⟩ := List.mem_map.1 hoc; exact hops c hc)
    (by intro m oc hoc ai hai; obtain ⟨c, hc, rfl⟩ := List.mem_map.1 hoc; exact hadm m c hc ai hai)
    k (by simpa using hk)
  have hstates : (calls.map (fun c => (c.2.1, c.2.2))).scanl (fun m oc => (step cfg m oc.1 oc.2).post) pre = states :=
    scanl_map_aux (fun m (oc : Op × List Nat) => (step cfg m oc.1 oc.2).post) (fun c => (c.2.1, c.2.2)) calls pre
  simp only [hstates, List.getElem_map] at hrun
  obtain ⟨op', hop', heq⟩ := rpc_layer_is_passthrough (calls[k]).1 (calls[k]).2.1 (hint _ (List.getElem_mem hk))
  refine ⟨step cfg (states.getD k []) (calls[k]).2.1 (calls[k]).2.2, ?_, rfl, hrun⟩
  have := heq cfg (states.getD k []) (calls[k]).2.2 none
  simp only [stepF] at this
  simp only [rpcStep, hop', Option.map_some, this]

/-- REFUTED alternative: an RPC `PinPath` that does not hand on the request's options stores an entry that does
    not carry them (witness: a named pin; the real-code counterpart is caught by `pin_stores_requested_options`). -/
theorem rpc_pinpath_dropping_options_fails :
    ¬ (∀ cfg pre call op ch out, call.intended = some op → pre.wfState = true → wfCfg cfg = true →
        rpcStep tblPinPathDropsOptions cfg pre call ch = some out → holds cfg pre op out.res out.post = true) := by
  intro h
  have := h { follower := false, defMin := -1, defMax := -1, desc := false, peers := [(0, .valid 1)], paths := [(0, 3)], blocks := [] }
    [] (.pinPath 0 { noOpts with name := 1 }) (.pinPath 0 { noOpts with name := 1 }) [] _ rfl rfl rfl rfl
  revert this; decide

/-- REFUTED alternative: an RPC `Pin` that goes through the public `Cluster.Pin(in.Cid, in.PinOptions)` is NOT the
    layer of the code: it rebuilds a data pin, so the adders' shard pin (type, depth, preset allocations) is
    stored as something else. -/
theorem rpc_pin_via_public_pin_differs :
    ¬ (∀ cfg pre call ch, (rpcStep tblPinViaPublicPin cfg pre call ch).map (·.post) =
                          (rpcStep expectedRpcTable cfg pre call ch).map (·.post)) := by
  intro h
  have := h { follower := false, defMin := 1, defMax := 1, desc := false, peers := [(0, .valid 1), (1, .valid 2)], paths := [], blocks := [] }
    [] (.pin { cid := 10, type := .shardT, opts := { noOpts with rmin := 1, rmax := 1 }, depth := 1, allocs := [1], ref := none }) [0]
  revert this; decide

/-- non-vacuity: a REST-style pin (plain data pin, options set) through the RPC `Pin` meets the hypotheses of
    `rpc_step_holds`, is meant as the user-facing pin, succeeds and stores the options. -/
private def rpcExCfg : Cfg :=
  { follower := false, defMin := 2, defMax := 3, desc := false,
    peers := [(0, .valid 1), (1, .valid 2), (2, .valid 3)], paths := [(0, 3)], blocks := [] }
private def rpcExOpts : Opts := { noOpts with name := 1, metadata := [(1, 1)] }
example :
    (RpcCall.pin (pinWithOpts 3 rpcExOpts)).intended = some (.pin 3 rpcExOpts) ∧
    ((rpcStep Gen.rpcTable rpcExCfg [] (.pin (pinWithOpts 3 rpcExOpts)) [0, 1]).map (fun out => out.res.isSome)) = some true ∧
    ((rpcStep Gen.rpcTable rpcExCfg [] (.pinPath 0 rpcExOpts) [0, 1]).map
        (fun out => holds rpcExCfg [] (.pinPath 0 rpcExOpts) out.res out.post)) = some true ∧
    rpcOp Gen.rpcTable (.unpin (pinWithOpts 3 rpcExOpts)) = some (.unpin 3) := by decide

/-! Source-text snapshots (`rfl` on normalised source lines) are kept ONLY for the functions that have no semantic tie.
    Round 8c removed the seven of `Cluster.Pin`, `PinPath`, `UnpinPath`, `pin`, `setupPin`, `Unpin`, `PinUpdate`: their
    statement sequences are regenerated and RUN by the model (`gen_sem_programs`, `sem_is_model` below), so a text
    snapshot of them only raised alarms on harmless rewrites (renamed locals, reworded log lines). -/
theorem gen_source_setupReplicationFactor : Gen.setupReplicationFactor = Expected.setupReplicationFactor := rfl
theorem gen_source_unpinClusterDag : Gen.unpinClusterDag = Expected.unpinClusterDag := rfl
theorem gen_source_cidsFromMetaPin : Gen.cidsFromMetaPin = Expected.cidsFromMetaPin := rfl
theorem gen_source_checkPinType : Gen.checkPinType = Expected.checkPinType := rfl
theorem gen_source_optsEquals : Gen.optsEquals = Expected.optsEquals := rfl
theorem gen_source_pinEquals : Gen.pinEquals = Expected.pinEquals := rfl
theorem gen_source_pinWithOpts : Gen.pinWithOpts = Expected.pinWithOpts := rfl
theorem gen_source_isRemotePin : Gen.isRemotePin = Expected.isRemotePin := rfl
theorem gen_source_expiredAt : Gen.expiredAt = Expected.expiredAt := rfl



/-! ## Round 8b — the statement sequences of cluster.go, interpreted

`harness/extract_c04sem` regenerates `Gen.semProgs` from the go/ast of `Cluster.Pin`, `PinPath`, `UnpinPath`, `pin`,
`setupPin`, `Unpin`, `PinUpdate`: which constructor builds the pin, what is assigned to it, every guard (with its
conjuncts) and early return in order, the case order of Unpin's switch. `Sem.stepSem` RUNS these sequences. -/

/-- the regenerated statement sequences are the ones the theorems below were proved for -/
theorem gen_sem_programs : Gen.semProgs = Sem.expected := by decide

/-- ALL inputs: running the regenerated sequences is the hand-written model (plus `pin()`'s `cid.Undef` guard, which
    the hand-written model cannot express). No statement of unknown shape is reached. -/
theorem sem_is_model (cfg : Cfg) (pre : PinMap) (op : Op) (chosen : List Nat) :
    Sem.stepSem Gen.semProgs cfg pre op chosen = some (Sem.stepU cfg pre op chosen) := by
  rw [gen_sem_programs]; exact Sem.stepSem_expected cfg pre op chosen

/-- ALL inputs: every clause of C04 holds for the outcome the interpreted code computes (calls naming defined cids). -/
theorem sem_step_holds (cfg : Cfg) (pre : PinMap) (op : Op) (chosen : List Nat)
    (hpre : pre.wfState = true) (hcfg : wfCfg cfg = true) (hop : wfOp op = true) (hdef : Sem.opDefined cfg op = true)
    (halloc : ∀ ai, (step cfg pre op chosen).alloc = some ai → C03.allowed ai (.ok chosen) = true) :
    ∃ out, Sem.stepSem Gen.semProgs cfg pre op chosen = some out ∧ holds cfg pre op out.res out.post = true := by
  refine ⟨_, sem_is_model cfg pre op chosen, ?_⟩
  have h : Sem.stepU cfg pre op chosen = step cfg pre op chosen := by
    cases op <;> simp [Sem.stepU, Sem.opDefined] at hdef ⊢ <;> simp_all
  rw [h]; exact step_holds cfg pre op chosen hpre hcfg hop halloc

/-- `pin()`'s `cid.Undef` guard: a pin object without a cid is refused, nothing is logged, the pinset is unchanged. -/
theorem sem_undef_cid_refused (cfg : Cfg) (pre : PinMap) (p : Pin) (chosen : List Nat) (h : p.cid = Sem.undefCid) :
    Sem.stepSem Gen.semProgs cfg pre (.rpcPin p) chosen = some (err pre) := by
  rw [sem_is_model]; simp [Sem.stepU, h]

private def semCfg : Cfg :=
  { follower := false, defMin := -1, defMax := -1, desc := false, peers := [(0, .valid 1)], paths := [(0, 3)], blocks := [] }
private def semDirect : Opts := { noOpts with mode := .direct }
private def semPre : PinMap := [{ pinWithOpts 3 { noOpts with rmin := -1, rmax := -1 } with allocs := [] }]

/-- REFUTED (seeded C04g): a PinPath that builds the pin from `api.PinCid` and assigns the options — the sequence the
    translator emits for that edit — stores a direct request as a recursive pin (MaxDepth stays −1). -/
theorem sem_c04g_fails :
    ¬ (∀ cfg pre op ch out, pre.wfState = true → wfCfg cfg = true → wfOp op = true →
        Sem.stepSem Sem.progC04g cfg pre op ch = some out → holds cfg pre op out.res out.post = true) := by
  intro h
  have := h semCfg [] (.pinPath 0 semDirect) [] _ rfl rfl rfl rfl
  revert this; decide

/-- the same edit WITH `pin.MaxDepth = opts.Mode.ToPinDepth()` is harmless: same outcome as the unchanged code, ALL inputs. -/
theorem sem_c04g_repaired_same (cfg : Cfg) (pre : PinMap) (op : Op) (ch : List Nat) :
    Sem.stepSem Sem.progC04gRepaired cfg pre op ch = Sem.stepSem Sem.expected cfg pre op ch := by
  cases op with
  | pinPath path o =>
    simp [Sem.stepSem, Sem.pinPathSem, Sem.progC04gRepaired, Sem.expected, Sem.runPath, Sem.pinPublicSem, Sem.runPinPublic,
      pinCid, pinWithOpts, Sem.pinSem]
    split_ifs <;> rfl
  | _ => rfl

/-- REFUTED: `setupPin` without the recursive → direct guard accepts a listed refusal. -/
theorem sem_no_mode_guard_fails :
    ¬ (∀ cfg pre op ch out, pre.wfState = true → wfCfg cfg = true → wfOp op = true →
        Sem.stepSem Sem.progNoModeGuard cfg pre op ch = some out → holds cfg pre op out.res out.post = true) := by
  intro h
  have := h semCfg semPre (.pin 3 semDirect) [] _ rfl rfl rfl rfl
  revert this; decide

/-- REFUTED: `Unpin` without its follower guard writes in follower mode. -/
theorem sem_unpin_no_follower_guard_fails :
    ¬ (∀ cfg pre op ch out, pre.wfState = true → wfCfg cfg = true → wfOp op = true →
        Sem.stepSem Sem.progUnpinNoFollowerGuard cfg pre op ch = some out → holds cfg pre op out.res out.post = true) := by
  intro h
  have := h { semCfg with follower := true } semPre (.unpin 3) [] _ rfl rfl rfl rfl
  revert this; decide

/-- non-vacuity: a direct pin by path meets the hypotheses of `sem_step_holds`, succeeds, and is stored direct. -/
example : (semPre.wfState && wfCfg semCfg && wfOp (.pinPath 0 semDirect) && Sem.opDefined semCfg (.pinPath 0 semDirect)) = true ∧
    ((Sem.stepSem Sem.expected semCfg [] (.pinPath 0 semDirect) []).bind (fun o => o.post.get 3)).map (·.opts.mode) = some .direct := by
  decide


/-! ## Round 8c — the adders' typed pins, the pin without a cid, retries, factor defaults -/

/-- Prop-level reading of the clause `rpc_pin_stored_as_sent`, for ALL inputs: a pin object sent to the RPC `Pin` that is
    new at its cid (no entry, no update source) and accepted is stored with the type, reference and depth it was sent
    with, and with its preset allocations unless it carried none or asks to be pinned everywhere. -/
theorem rpc_pin_stored_as_sent (cfg : Cfg) (pre : PinMap) (p : Pin) (chosen : List Nat) (hw : pre.wf = true)
    (hr : (step cfg pre (.rpcPin p) chosen).res ≠ none) (hnew : pre.get p.cid = none)
    (hu : viaUpdate p.cid p.opts = none) :
    ∃ st, (step cfg pre (.rpcPin p) chosen).post.get p.cid = some st ∧ st.type = p.type ∧ st.ref = p.ref ∧
      st.depth = p.depth ∧
      (p.allocs ≠ [] → ¬ (effMin cfg p.opts = -1 ∧ effMax cfg p.opts = -1) → st.allocs = p.allocs) := by
  have hfol : cfg.follower = false := by
    cases hf : cfg.follower with
    | false => rfl
    | true => exact absurd (step_follower cfg pre (.rpcPin p) chosen hf) hr
  have h := rpcPin_sent_effect cfg pre p chosen hw hfol hr
  have hs := rpcPin_effect cfg pre p chosen hw hr
  show ∃ st, (pinOp cfg pre p [] chosen).post.get p.cid = some st ∧ _
  unfold sentAsIs at h
  rw [hnew, hu] at h
  cases hg : (pinOp cfg pre p [] chosen).post.get p.cid with
  | none => rw [hg] at hs; cases hs
  | some st =>
    rw [hg] at h
    simp only [Bool.and_eq_true, Bool.or_eq_true, beq_iff_eq, List.isEmpty_iff] at h
    obtain ⟨⟨⟨h1, h2⟩, h3⟩, h4⟩ := h
    refine ⟨st, rfl, h1, h2, h3, ?_⟩
    intro hne hev
    rcases h4 with (h4 | h4) | h4
    · exact absurd h4 hne
    · exact absurd h4 hev
    · exact h4

private def shardPin : Pin :=
  { cid := 10, type := .shardT, opts := { noOpts with rmin := 1, rmax := 1 }, depth := 1, allocs := [1], ref := none }
private def twoPeers : Cfg :=
  { follower := false, defMin := 1, defMax := 1, desc := false, peers := [(0, .valid 1), (1, .valid 2)], paths := [], blocks := [] }

/-- non-vacuity: the adders' shard pin with a preset allocation meets the hypotheses and is stored as sent -/
example : PinMap.wf [] = true ∧ (step twoPeers [] (.rpcPin shardPin) [0]).res ≠ none ∧
    PinMap.get [] shardPin.cid = none ∧ viaUpdate shardPin.cid shardPin.opts = none ∧
    ((step twoPeers [] (.rpcPin shardPin) [0]).post.get 10).map (fun st => (st.type, st.depth, st.allocs)) =
      some (.shardT, 1, [1]) := by decide

/-- REFUTED (first pass M2): an RPC `Pin` routed through the public `Cluster.Pin(in.Cid, in.PinOptions)` — judged by the
    Spec for the request as meant, the outcome for the adders' shard pin now FAILS (`rpc_pin_stored_as_sent`). -/
theorem rpc_pin_via_public_pin_fails :
    ¬ (∀ cfg pre call op ch out, call.intended = some op → pre.wfState = true → wfCfg cfg = true →
        rpcStep tblPinViaPublicPin cfg pre call ch = some out → holds cfg pre op out.res out.post = true) := by
  intro h
  have := h twoPeers [] (.pin shardPin) (.rpcPin shardPin) [0] _ rfl rfl rfl rfl
  revert this; decide

/-- REFUTED (first pass M3): an RPC `Pin` that clears the preset allocations before `pin()` — the outcome of pinning
    the cleared object, judged for the object that was SENT, fails the clause. -/
theorem rpc_pin_clearing_allocations_fails :
    ¬ (∀ cfg pre (p : Pin) ch, pre.wfState = true → wfCfg cfg = true →
        holds cfg pre (.rpcPin p) (step cfg pre (.rpcPin { p with allocs := [] }) ch).res
          (step cfg pre (.rpcPin { p with allocs := [] }) ch).post = true) := by
  intro h
  have := h twoPeers [] shardPin [0] rfl rfl
  revert this; decide

/-- "refused, nothing changed" is an outcome every clause accepts (used for the request without a cid). -/
theorem refused_outcome_holds (cfg : Cfg) (pre : PinMap) (op : Op) (hw : pre.wf = true) :
    holds cfg pre op none pre = true := holds_refused cfg pre op hw

/-- ALL inputs, no "cids defined" hypothesis: what the interpreted code computes satisfies every clause AND the clause
    `pin_without_cid_refused` (a request that names no cid is refused and changes nothing). -/
theorem sem_step_holds_all (cfg : Cfg) (pre : PinMap) (op : Op) (chosen : List Nat)
    (hpre : pre.wfState = true) (hcfg : wfCfg cfg = true) (hop : wfOp op = true)
    (halloc : ∀ ai, (step cfg pre op chosen).alloc = some ai → C03.allowed ai (.ok chosen) = true) :
    ∃ out, Sem.stepSem Gen.semProgs cfg pre op chosen = some out ∧ holds cfg pre op out.res out.post = true ∧
      (undefClauses cfg pre op out.res out.post).all (·.2) = true := by
  have hwf : pre.wf = true := by
    unfold PinMap.wfState at hpre; simp only [Bool.and_eq_true] at hpre; exact hpre.1
  cases hd : Sem.opDefined cfg op with
  | true =>
    obtain ⟨out, h1, h2⟩ := sem_step_holds cfg pre op chosen hpre hcfg hop hd halloc
    refine ⟨out, h1, h2, ?_⟩
    have : opUndef cfg op = false := by
      cases op <;> simp_all [Sem.opDefined, opUndef, resolve, noCid, Sem.undefCid]
    simp [undefClauses, this]
  | false =>
    refine ⟨err pre, ?_, holds_refused cfg pre op hwf, ?_⟩
    · rw [sem_is_model]
      cases op <;> simp_all [Sem.opDefined, Sem.stepU]
    · simp [undefClauses, err, sameMap_self]

/-- non-vacuity: a pin object without a cid is an input of `sem_step_holds_all` that takes the second branch -/
example : Sem.opDefined twoPeers (.rpcPin { shardPin with cid := noCid }) = false ∧
    opUndef twoPeers (.rpcPin { shardPin with cid := noCid }) = true := by decide

/-- Direction (4), retries: an Unpin that succeeded is DONE — running it again is refused and changes nothing
    (with `unpin_retry_heals`: retrying after a fault converges to the same final pinset, and once there, stays). -/
theorem unpin_done_retry_is_noop (cfg : Cfg) (pre : PinMap) (c : Nat) (hne : (unpinOp cfg pre c).res ≠ none) :
    unpinOp cfg (unpinOp cfg pre c).post c = err (unpinOp cfg pre c).post := by
  have hg := unpin_effect cfg pre c hne c (List.mem_cons_self ..)
  generalize (unpinOp cfg pre c).post = m at hg ⊢
  unfold unpinOp
  split_ifs
  · rfl
  · rw [hg]

/-- Direction (2), unusual-but-valid configuration: default "pin everywhere" (max −1) and a request that sets only the
    minimum (> 0, max left 0 = "use default") gives the mixed pair (min > 0, −1): refused, pinset unchanged. -/
theorem mixed_factor_with_everywhere_default_refused (cfg : Cfg) (pre : PinMap) (c : Nat) (o : Opts) (ch : List Nat)
    (hw : pre.wf = true) (hd : cfg.defMax = -1) (h0 : o.rmax = 0) (hm : o.rmin > 0) (hu : viaUpdate c o = none) :
    (step cfg pre (.pin c o) ch).res = none ∧ (step cfg pre (.pin c o) ch).post = pre := by
  have hmr : mustRefuse cfg pre (.pin c o) = true := by
    have hne0 : (o.rmin == 0) = false := by simp; omega
    have hne1 : (o.rmin == -1) = false := by simp; omega
    simp [mustRefuse, pinRequest, hu, effMin, effMax, h0, hd, hne0, C03.factorsValid, hne1]
    exact Or.inr (Or.inl (Or.inl (Or.inl (Or.inl (by omega)))))
  have hres := mustRefuse_refused cfg pre (.pin c o) ch hmr
  exact ⟨hres, shape_refused (shape_step cfg pre (.pin c o) ch) hres⟩

example : viaUpdate 3 { noOpts with rmin := 2 } = none ∧
    (step { twoPeers with defMin := -1, defMax := -1 } [] (.pin 3 { noOpts with rmin := 2 }) [0]).res = none := by decide

/-! ## Round 8d

(a) consensus faults over the INTERPRETED sequences; (b) the clock of the expiry check as an input; (c) which fields
`PinUpdate` takes from the source and which from the request, the (request, default) table of
`setupReplicationFactor`; (d) Prop reading of `checkPinType`. -/

/-- the fault wrapper of the interpreted sequences applied to the hand-written step is `stepF` -/
theorem withFault_step (cfg : Cfg) (pre : PinMap) (op : Op) (ch : List Nat) (fault : Option Nat) :
    Sem.withFault pre fault (step cfg pre op ch) = stepF cfg pre op ch fault := by
  cases fault <;> rfl

/-- ALL inputs and EVERY fault position: running the regenerated sequences with the k-th consensus call failing is the
    model (+ the `cid.Undef` guard) with the k-th consensus call failing; no unknown statement is reached. -/
theorem semF_is_model (cfg : Cfg) (pre : PinMap) (op : Op) (chosen : List Nat) (fault : Option Nat) :
    Sem.stepSemF Gen.semProgs cfg pre op chosen fault = some (Sem.withFault pre fault (Sem.stepU cfg pre op chosen)) := by
  simp [Sem.stepSemF, sem_is_model]

/-- …and for calls naming defined cids that is `stepF`, the faulted model every round-7 theorem speaks about -/
theorem semF_is_stepF (cfg : Cfg) (pre : PinMap) (op : Op) (chosen : List Nat) (fault : Option Nat)
    (hdef : Sem.opDefined cfg op = true) :
    Sem.stepSemF Gen.semProgs cfg pre op chosen fault = some (stepF cfg pre op chosen fault) := by
  have h : Sem.stepU cfg pre op chosen = step cfg pre op chosen := by
    cases op <;> simp [Sem.stepU, Sem.opDefined] at hdef ⊢ <;> simp_all
  rw [semF_is_model, h, withFault_step]

/-- `failed_call_is_noop_partial` over the interpreted code, ALL requests (defined cid or not) and every fault position:
    a call whose regenerated sequence issues at most one consensus call leaves the pinset unchanged when it fails. -/
theorem semF_failed_call_is_noop_partial (cfg : Cfg) (pre : PinMap) (op : Op) (ch : List Nat) (fault : Option Nat)
    (hone : ∀ o, Sem.stepSem Gen.semProgs cfg pre op ch = some o → o.log.length ≤ 1) :
    ∃ out, Sem.stepSemF Gen.semProgs cfg pre op ch fault = some out ∧ (out.res = none → out.post = pre) := by
  refine ⟨_, semF_is_model cfg pre op ch fault, ?_⟩
  cases hd : Sem.opDefined cfg op with
  | true =>
    have h : Sem.stepU cfg pre op ch = step cfg pre op ch := by
      cases op <;> simp [Sem.stepU, Sem.opDefined] at hd ⊢ <;> simp_all
    have h1 := hone _ (sem_is_model cfg pre op ch)
    rw [h] at h1 ⊢; rw [withFault_step]
    exact failed_call_is_noop_partial cfg pre op ch fault h1
  | false =>
    have h : Sem.stepU cfg pre op ch = err pre := by
      cases op <;> simp_all [Sem.opDefined, Sem.stepU]
    rw [h]; intro _
    cases fault <;> simp [Sem.withFault, err]

/-- non-vacuity: a data unpin with its only consensus call failing meets the hypothesis, fails, and changes nothing -/
example : (∀ o, Sem.stepSem Gen.semProgs twoPeers [pinWithOpts 3 noOpts] (.unpin 3) [] = some o → o.log.length ≤ 1) ∧
    (Sem.stepSemF Gen.semProgs twoPeers [pinWithOpts 3 noOpts] (.unpin 3) [] (some 0)).map (·.res) = some none := by
  refine ⟨?_, by decide⟩
  intro o ho
  rw [sem_is_model] at ho
  cases ho; decide

/-! ### (b) the clock -/

/-- EVERY clock value and every expiry: `setupPin` refuses exactly when an expiry is set and lies strictly before now -/
theorem expired_refused_iff (now exp : Int) :
    Clock.refusedAt now exp = true ↔ exp ≠ Clock.goZero ∧ exp < now := by
  simp [Clock.refusedAt, Clock.isZero]

/-- the boundary, for every clock value after 1970: now−ε refused, now / now+ε / the zero time / any later instant accepted -/
theorem expiry_boundary (now : Int) (hnow : 0 < now) :
    Clock.refusedAt now (now - 1) = true ∧ Clock.refusedAt now now = false ∧ Clock.refusedAt now (now + 1) = false ∧
    Clock.refusedAt now Clock.goZero = false ∧ (∀ d, 0 ≤ d → Clock.refusedAt now (now + d) = false) ∧
    (∀ d, 0 < d → d ≤ now → Clock.refusedAt now (now - d) = true) := by
  simp only [Clock.refusedAt, Clock.isZero, Clock.goZero]
  refine ⟨?_, ?_, ?_, ?_, ?_, ?_⟩
  all_goals (intros; simp <;> omega)

/-- the abstract instants of the model (`Expiry`) are a sound reading of the concrete clock: `beforeNow` is the refusal
    for every (now, expiry); `afterNow` (what `PinUpdate` tests) for every expiry other than now itself -/
theorem clock_abstraction (now exp : Int) (hnow : 0 < now) :
    (Clock.abstract now exp).beforeNow = Clock.refusedAt now exp ∧
    (exp ≠ now → (Clock.abstract now exp).afterNow = Clock.takenAt now exp) := by
  by_cases h1 : exp = Clock.goZero
  · subst h1; simp [Clock.abstract, Clock.refusedAt, Clock.takenAt, Clock.isZero, Expiry.beforeNow, Expiry.afterNow]
  · by_cases h2 : exp = 0
    · subst h2
      have : ¬ (now < 0) := by omega
      simp [Clock.abstract, Clock.refusedAt, Clock.takenAt, Clock.isZero, Clock.goZero, Expiry.beforeNow, Expiry.afterNow, hnow, this]
    · by_cases h3 : exp < now
      · have : ¬ (now < exp) := by omega
        simp [Clock.abstract, Clock.refusedAt, Clock.takenAt, Clock.isZero, Expiry.beforeNow, Expiry.afterNow, h1, h2, h3, this]
      · refine ⟨?_, ?_⟩
        · simp [Clock.abstract, Clock.refusedAt, Clock.isZero, Expiry.beforeNow, h1, h2, h3]
        · intro hne
          have : now < exp := by omega
          simp [Clock.abstract, Clock.takenAt, Clock.isZero, Expiry.afterNow, h1, h2, h3, this]

/-- `api.Pin.ExpiredAt` and the refusal of `setupPin` are the same test except at `time.Unix(0, 0)`: such a pin is
    refused at pin time, yet an entry carrying it is never reported expired -/
theorem expiredAt_is_refused_except_unix_zero (now exp : Int) :
    Clock.expiredAt now exp = (Clock.refusedAt now exp && exp != 0) := by
  unfold Clock.expiredAt Clock.refusedAt
  by_cases h1 : Clock.isZero exp = true <;> by_cases h2 : exp = 0 <;> simp [h1, h2]

example : Clock.refusedAt 1 0 = true ∧ Clock.expiredAt 1 0 = false ∧ Clock.expiredAt 5 3 = true ∧
    (Clock.probes.map (fun d => Clock.refusedAt 1000 (Clock.probeExp 1000 d))) = [false, true, true, false, false, false, false] := by decide

/-- the `.expiry` statement of the regenerated `setupPin` refuses exactly at the clock values `expired_refused_iff` names -/
theorem expiry_guard_iff_clock (cfg : Cfg) (p : Pin) (now exp : Int) (hnow : 0 < now)
    (ho : p.opts.expire = Clock.abstract now exp) :
    Sem.runSetup cfg none [.expiry, .existingNilOk] p false = some none ↔ (exp ≠ Clock.goZero ∧ exp < now) := by
  rw [← expired_refused_iff]
  have hb := (clock_abstraction now exp hnow).1
  cases h : Clock.refusedAt now exp <;> simp [Sem.runSetup, ho, hb, h]

/-- a user pin whose expiry lies before the clock is refused and changes nothing, for every clock value -/
theorem clock_past_pin_refused (cfg : Cfg) (pre : PinMap) (c : Nat) (o : Opts) (ch : List Nat) (now exp : Int)
    (hnow : 0 < now) (ho : o.expire = Clock.abstract now exp) (hr : Clock.refusedAt now exp = true)
    (hu : viaUpdate c o = none) :
    (step cfg pre (.pin c o) ch).res = none ∧ (step cfg pre (.pin c o) ch).post = pre := by
  have hb : o.expire.beforeNow = true := by rw [ho, (clock_abstraction now exp hnow).1]; exact hr
  have hmr : mustRefuse cfg pre (.pin c o) = true := by simp [mustRefuse, pinRequest, hu, hb]
  have hres := mustRefuse_refused cfg pre (.pin c o) ch hmr
  exact ⟨hres, shape_refused (shape_step cfg pre (.pin c o) ch) hres⟩

example : Clock.abstract 1000 999 = .past ∧ Clock.refusedAt 1000 999 = true ∧
    viaUpdate 3 { noOpts with expire := .past } = none := by decide

/-! ### (c) PinUpdate's fields; setupReplicationFactor's table -/

/-- EXACTLY which fields the pin `PinUpdate` logs takes from where: cid and update source from the call; name from the
    request when non-empty; expiry from the request when set and ahead of the clock; EVERYTHING else (type, depth,
    allocations, reference, factors, mode, shard size, metadata, origins) from the source pin — the request's are ignored -/
theorem update_field_table (e : Pin) (src dst : Nat) (o : Opts) :
    (updPin e src dst o).cid = dst ∧ (updPin e src dst o).opts.update = some src ∧
    (updPin e src dst o).opts.name = (if o.name != 0 then o.name else e.opts.name) ∧
    (updPin e src dst o).opts.expire = (if o.expire.afterNow then o.expire else e.opts.expire) ∧
    (updPin e src dst o).type = e.type ∧ (updPin e src dst o).depth = e.depth ∧
    (updPin e src dst o).allocs = e.allocs ∧ (updPin e src dst o).ref = e.ref ∧
    (updPin e src dst o).opts.rmin = e.opts.rmin ∧ (updPin e src dst o).opts.rmax = e.opts.rmax ∧
    (updPin e src dst o).opts.mode = e.opts.mode ∧ (updPin e src dst o).opts.shard = e.opts.shard ∧
    (updPin e src dst o).opts.metadata = e.opts.metadata ∧ (updPin e src dst o).opts.origins = e.opts.origins ∧
    (updPin e src dst o).opts.ualloc = e.opts.ualloc := by
  unfold updPin
  split_ifs <;> exact ⟨rfl, rfl, rfl, rfl, rfl, rfl, rfl, rfl, rfl, rfl, rfl, rfl, rfl, rfl, rfl⟩

/-- REFUTATION of the alternative a wrong edit would implement: the update does NOT take metadata / factors from the request -/
theorem update_does_not_take_request_metadata :
    ¬ ∀ (e : Pin) (src dst : Nat) (o : Opts), (updPin e src dst o).opts.metadata = o.metadata ∧
        (updPin e src dst o).opts.rmax = o.rmax := by
  intro h
  have := h (pinWithOpts 3 { noOpts with metadata := [(1, 1)], rmax := 2 }) 3 4 noOpts
  revert this; decide

/-- effective factors are valid exactly when both are −1 (everywhere) or 0 < min ≤ max -/
theorem factors_valid_iff (m M : Int) : C03.factorsValid m M = true ↔ (m = -1 ∧ M = -1) ∨ (0 < m ∧ m ≤ M) := by
  simp [C03.factorsValid]
  omega

/-- `setupReplicationFactor`, EVERY (request, default) combination: per component a request of 0 means the default,
    anything else (negative too) is kept; the pin is accepted iff the effective pair is (−1, −1) or 0 < min ≤ max;
    preset allocations are dropped exactly for (−1, −1); no other field changes -/
theorem setup_replication_factor_table (cfg : Cfg) (p : Pin) :
    (setupFactors cfg p).opts.rmin = (if p.opts.rmin = 0 then cfg.defMin else p.opts.rmin) ∧
    (setupFactors cfg p).opts.rmax = (if p.opts.rmax = 0 then cfg.defMax else p.opts.rmax) ∧
    (setupFactors cfg p).allocs = (if effRmin cfg p = -1 ∧ effRmax cfg p = -1 then [] else p.allocs) ∧
    (setupFactors cfg p).cid = p.cid ∧ (setupFactors cfg p).type = p.type ∧ (setupFactors cfg p).depth = p.depth ∧
    (setupFactors cfg p).ref = p.ref ∧ (setupFactors cfg p).opts.name = p.opts.name ∧
    (setupFactors cfg p).opts.expire = p.opts.expire ∧ (setupFactors cfg p).opts.metadata = p.opts.metadata ∧
    (C03.factorsValid (effRmin cfg p) (effRmax cfg p) = true ↔
      (effRmin cfg p = -1 ∧ effRmax cfg p = -1) ∨ (0 < effRmin cfg p ∧ effRmin cfg p ≤ effRmax cfg p)) := by
  refine ⟨?_, ?_, ?_, ?_, ?_, ?_, ?_, ?_, ?_, ?_, factors_valid_iff _ _⟩
  all_goals (unfold setupFactors; split_ifs <;> simp_all [effRmin, effRmax])

/-- the sign table on representative values: request (min, max) × default (min, max) → accepted? -/
example :
    ([((0, 0), (1, 2)), ((0, 0), (-1, -1)), ((2, 0), (1, 3)), ((2, 0), (-1, -1)), ((0, 3), (-1, -1)), ((-1, 0), (1, 2)),
      ((-1, -1), (1, 2)), ((0, -1), (1, 2)), ((3, 2), (1, 2)), ((0, 1), (2, 3)), ((-2, 0), (1, 2)), ((0, 0), (0, 0))] :
        List ((Int × Int) × (Int × Int))).map
      (fun q => C03.factorsValid (effRmin { twoPeers with defMin := q.2.1, defMax := q.2.2 } (pinWithOpts 3 { noOpts with rmin := q.1.1, rmax := q.1.2 }))
                                 (effRmax { twoPeers with defMin := q.2.1, defMax := q.2.2 } (pinWithOpts 3 { noOpts with rmin := q.1.1, rmax := q.1.2 })))
    = [true, true, true, false, false, false, true, false, false, false, false, false] := by decide

/-! ### (d) checkPinType -/

/-- Prop reading of `checkPinType`: what each pin type must look like to be accepted over an existing entry -/
theorem checkPinType_iff (p : Pin) : checkPinType p = true ↔
    (p.type = .dataT ∧ p.ref.isNone = true) ∨ (p.type = .shardT ∧ p.depth = 1) ∨
    (p.type = .clusterDagT ∧ p.depth = 0 ∧ p.ref.isSome = true) ∨
    (p.type = .metaT ∧ p.allocs.isEmpty = true ∧ p.ref.isSome = true) := by
  unfold checkPinType
  cases p.type <;> simp

end CV.C04
