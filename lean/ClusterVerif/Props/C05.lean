import ClusterVerif.Spec.C05

namespace CV.C05

/-- the empty tracker is quiescent and matches -/
theorem init_quiescent (n : Nat) : quiescent n (observe init) = true := by
  simp [quiescent, observe, init, statusOf, ongoing]

end CV.C05
