import ClusterVerif.Lemmas.C05
import ClusterVerif.Lemmas.C05R
import ClusterVerif.Model.C05Source
import ClusterVerif.Gen.C05
import ClusterVerif.Lemmas.C05T

/-!
# C05 — each peer's IPFS pinset converges to what the shared pinset assigns to it

Property theorems only (the invariant and its preservation lemmas are in `Lemmas/C05.lean`).
They are about the labelled transition system of `Model/C05.lean` (any interleaving of
track / untrack / recover with worker steps, daemon effects, successful / failing / cancelled
calls and lost pins; any queue capacity and worker count), and they are stated with the very
functions of `Spec/C05.lean` that the driver evaluates on the real tracker's observations.

* `invariant_holds`, `invariant2_holds`  the tracker invariant (Q1–Q6 of the design, 21 + 4 conjuncts) holds in every reachable state
* `idle_is_quiescent`, `activity_quiesces`  no operation is lost; worker/daemon activity terminates
* `quiescent_match_or_error`   first sentence of the property
* `recover_heals`              second sentence: a recover round with IPFS healthy, from a quiescent state
* `recover_uses_recorded`      ... re-issuing the pin recorded in the shared pinset
* `full_queue_reported_*`      last sentence, per instruction
* `cancel_aborts_inflight`, `move_aborts_inflight`, `late_effect_would_break`  the cancellation edge
* `late_retrack_*`             the deduplicated re-track with another mode (suspected defect K06):
                               it ends in an error status and a recover round repairs it
-/
namespace CV.C05

/-- the small configuration of the concrete witnesses below -/
def k06Cfg : Cfg := { cap := 1, workers := 1, ncids := 1 }
def k06Pin (m : Mode) : PinSpec := { cid := 0, kind := .here, mode := m, tag := 1 }

/-- The tracker invariant is inductive: it holds initially and every step of the LTS preserves it. -/
theorem invariant_holds {cfg : Cfg} {s : State} (h : Reachable cfg s) : Inv s := inv_reachable h

theorem invariant_step (cfg : Cfg) (s : State) (e : Ev) (h : Inv s) : Inv (step cfg s e) := inv_step cfg s e h

/-- second part (channel capacity; a queued table entry is in its channel, an in-progress one has its call) -/
theorem invariant2_holds {cfg : Cfg} {s : State} (h : Reachable cfg s) : Inv2 cfg s := inv2_reachable h

/-- No operation is ever lost: when the channels are empty and nothing is parked at the daemon, no CID reports a
    queued / in-progress status, i.e. the state is quiescent as the property (and the harness) observes it. -/
theorem idle_is_quiescent (cfg : Cfg) (n : Nat) (s : State) (hr : Reachable cfg s)
    (hp : s.pinQ = []) (hu : s.unpinQ = []) (hc : s.calls = []) : quiescent n (observe s) = true :=
  idle_quiescent n (inv_reachable hr) (inv2_reachable hr) hp hu hc

/-- Activity quiesces: an internal step (worker, daemon) is either not enabled or strictly decreases the outstanding
    work, and while work is outstanding some internal step is enabled. So once instructions stop, after at most
    `work s` enabled internal steps the channels are empty and nothing is parked (`work = 0`). -/
theorem activity_quiesces (cfg : Cfg) (s : State) (hw : 1 ≤ cfg.workers) :
    (∀ e, internalEv e = true → step cfg s e = s ∨ work (step cfg s e) < work s) ∧
    (0 < work s → ∃ e, internalEv e = true ∧ work (step cfg s e) < work s) ∧
    (work s = 0 → s.pinQ = [] ∧ s.unpinQ = [] ∧ s.calls = []) :=
  ⟨fun e he => internal_step_decreases cfg s e he, busy_can_step cfg s hw, work_zero⟩

/-- Once activity quiesces, for every CID the daemon matches the last instruction or the status is an
    error status — in every reachable state, for every queue size and worker count. -/
theorem quiescent_match_or_error (cfg : Cfg) (n : Nat) (s : State) (hr : Reachable cfg s)
    (hq : quiescent n (observe s) = true) : ∀ c, c < n → matchOrError (observe s) c = true :=
  fun c hc => matchOrError_of_quiescent (inv_reachable hr) hq c hc

/-- After a recover round with IPFS healthy the daemon matches: from a quiescent reachable state, any interleaving
    of `recover` instructions (none refused with ErrFullQueue), worker steps and successful daemon calls that ends
    quiescent leaves the daemon matching for every cid that was recovered in the round (`Recover(c)`) — -/
theorem recover_heals (cfg : Cfg) (n : Nat) (s s' : State) (es : List Ev) (hr : Reachable cfg s)
    (hq : quiescent n (observe s) = true) (hes : ∀ e ∈ es, healthyEv e = true) (hrun : runOk cfg s es = some s')
    (hq' : quiescent n (observe s') = true) (c : Nat) (hc : c < n) (hrec : Ev.recover c ∈ es) :
    daemonMatches (observe s') c = true := by
  have hi := inv_reachable hr
  obtain ⟨g1, _, g3⟩ := heal_run cfg n es s s' hi (fun c hc => Or.inr (startLike_of_quiescent hi hq c hc)) hes hrun
  exact matches_of_healed_quiescent g1 hq' c hc (g3 c hc (Or.inr hrec))

/-- — hence for every CID after `RecoverAll` (a `recover` of every cid). -/
theorem recoverAll_heals (cfg : Cfg) (n : Nat) (s s' : State) (es : List Ev) (hr : Reachable cfg s)
    (hq : quiescent n (observe s) = true) (hes : ∀ e ∈ es, healthyEv e = true) (hrun : runOk cfg s es = some s')
    (hall : ∀ c, c < n → Ev.recover c ∈ es) (hq' : quiescent n (observe s') = true) :
    ∀ c, c < n → daemonMatches (observe s') c = true :=
  fun c hc => recover_heals cfg n s s' es hr hq hes hrun hq' c hc (hall c hc)

/-- A pin operation that `recover` creates carries the pin recorded in the shared pinset. -/
theorem recover_uses_recorded (cfg : Cfg) (s : State) (c i : Nat) (hr : Reachable cfg s)
    (hnew : (recover cfg s c).1.cur c = some i) (hold : s.cur c ≠ some i)
    (hpin : ((recover cfg s c).1.ops i).typ = .pin) :
    (recover cfg s c).1.shared c = some ((recover cfg s c).1.ops i).pin := by
  have h := inv_reachable hr
  unfold recover recoverWith at *
  have key : ∀ typ, typ ≠ .remote → ∀ p, p.cid = c → (typ = .pin → s.shared c = some p) →
      (enqueue cfg s p typ).1.cur c = some i → ((enqueue cfg s p typ).1.ops i).typ = .pin →
      (enqueue cfg s p typ).1.shared c = some ((enqueue cfg s p typ).1.ops i).pin := by
    intro typ ht p hp hsh hn hty
    rcases enqueue_cases cfg s p typ ht with ⟨j, _, _, _, _, h5⟩ | h5 | h5
    · rw [h5] at hn; exact absurd hn hold
    · rw [h5] at hn hty ⊢
      simp only [replaceSt, hp, upd_apply, if_true, Option.some.injEq] at hn
      subst hn
      simp only [replaceSt, upd_apply, if_true, newOpRec] at hty ⊢
      exact hsh hty
    · rw [h5] at hn hty ⊢
      simp only [replaceSt, hp, upd_apply, if_true, Option.some.injEq] at hn
      subst hn
      simp only [replaceSt, upd_apply, if_true, newOpRec] at hty ⊢
      exact hsh hty
  have hsh : (statusOf s c = .pinError ∨ statusOf s c = .unexpectedlyUnpinned) → s.shared c = some (recPin s c) := by
    intro hs
    have hw := statusOf_pinError h hs
    unfold wantTyp at hw
    unfold recPin
    cases hx : s.shared c with
    | none => rw [hx] at hw; cases hw
    | some p => rfl
  cases hs : statusOf s c <;> simp only [hs] at hnew hpin ⊢
  case pinError => exact key .pin (by intro e; cases e) _ (recPin_cid h c) (fun _ => hsh (Or.inl hs)) hnew hpin
  case unexpectedlyUnpinned =>
    exact key .pin (by intro e; cases e) _ (recPin_cid h c) (fun _ => hsh (Or.inr hs)) hnew hpin
  case unpinError => exact key .unpin (by intro e; cases e) _ rfl (fun e => by cases e) hnew hpin
  all_goals exact absurd hnew hold

/-! ### the cancellation edge

What the unchanged code guarantees: an instruction of another kind for a cid whose Pin request is in flight cancels
that operation's context — the very context `Tracker.pin` hands to the IPFSConnector call — before the opposite
request can be issued, and nothing ever un-cancels it. From then on the daemon-side effect and a successful (or
failing) completion of that request are disabled for ever: the request can only leave with its context error (`reap`).
Whether the daemon had applied it BEFORE the abort is a schedule choice (`effect i` before the instruction or not);
both are covered by `quiescent_match_or_error`. That an aborted request is not applied by the daemon AFTER the abort is
the assumption the guarantee rests on, and it is necessary (`late_effect_would_break`). -/

/-- `Untrack(c)` while a pin operation `i` is the table entry of `c` (queued or its request in flight): in every later
    state `i` is cancelled and its request can neither take effect at the daemon nor complete (nil or daemon error). -/
theorem cancel_aborts_inflight (cfg : Cfg) (s : State) (c i : Nat) (hr : Reachable cfg s) (hcur : s.cur c = some i)
    (hpin : (s.ops i).typ = .pin) (es : List Ev) :
    let s' := run cfg (untrack cfg s c).1 es
    (s'.ops i).cancelled = true ∧ effect s' i = s' ∧ retOk s' i = s' ∧ retErr s' i = s' := by
  have hlt := (inv_reachable hr).curLt c i hcur
  have h1 := enqueue_cancels_other cfg { s with shared := upd s.shared c none, failed := upd s.failed c false }
    (pinCid c) .unpin (by intro e; cases e) i hcur hlt (by rw [hpin]; intro e; cases e)
  have h2 := cancelled_stays_run cfg es _ i h1.2 h1.1
  exact ⟨h2, dead_call_inert _ i h2⟩

/-- the same when the pin moves to other peers (`Track` of a remote pin) -/
theorem move_aborts_inflight (cfg : Cfg) (s : State) (p : PinSpec) (i : Nat) (hr : Reachable cfg s)
    (hk : p.kind = .remote) (hcur : s.cur p.cid = some i) (hpin : (s.ops i).typ = .pin) (es : List Ev) :
    let s' := run cfg (track cfg s p).1 es
    (s'.ops i).cancelled = true ∧ effect s' i = s' ∧ retOk s' i = s' ∧ retErr s' i = s' := by
  have hlt := (inv_reachable hr).curLt p.cid i hcur
  have h1 := trackRemote_cancels_other { s with shared := upd s.shared p.cid (some p), failed := s.failed } p i hcur hlt
    (by rw [hpin]; intro e; cases e)
  have h1' : (((track cfg s p).1).ops i).cancelled = true ∧ i < ((track cfg s p).1).nextId := by
    unfold track
    simp only [hk, reduceCtorEq, ↓reduceIte]
    cases hn : trackNew { s with shared := upd s.shared p.cid (some p), failed := s.failed } p .remote .inProgress with
    | mk s1 r =>
      rw [hn] at h1
      cases r <;> exact h1
  have h2 := cancelled_stays_run cfg es _ i h1'.2 h1'.1
  exact ⟨h2, dead_call_inert _ i h2⟩

/-- NOT a step of the model: a daemon that applies a Pin request although its context was cancelled -/
def lateEffect (s : State) (i : Nat) : State :=
  { s with daemon := upd s.daemon (s.ops i).cid (some ((s.ops i).pin.mode, (s.ops i).pin.tag)) }

/-- ... with such a daemon (or with a tracker that does not pass the operation's context to the Pin call, which is
    the same thing seen from the daemon) the property fails: track, Pin request in flight, untrack, the Unpin completes,
    then the stale Pin request is applied: quiescent, the pinset has no entry, Status = unpinned, the daemon pins c. -/
theorem late_effect_would_break :
    let s := reap (lateEffect (run k06Cfg init
      [.track (k06Pin .recursive), .deqPin, .untrack 0, .deqUnpin, .effect 1, .retOk 1]) 0) 0
    quiescent 1 (observe s) = true ∧ (observe s).shared 0 = none ∧ (observe s).status 0 = .unpinned ∧
    (observe s).daemon 0 = some (.recursive, 1) ∧ matchOrError (observe s) 0 = false := by
  decide

def toRetCode : Ret → RetCode
  | .nil => .nil
  | .full => .full

/-- `Track` of a pin allocated here either queues it (status pin_queued / pinning) and returns nil, or returns
    ErrFullQueue and leaves the CID in pin_error: the Spec clause holds on the model's own frame. -/
theorem full_queue_reported_track (cfg : Cfg) (n : Nat) (s : State) (p : PinSpec) (hk : p.kind = .here) :
    reported n { act := .track p, ret := toRetCode (track cfg s p).2, infos := [], obs := observe (track cfg s p).1 } = true := by
  unfold track
  simp only [hk, ↓reduceIte]
  obtain ⟨i, h1, h2, h3, h4⟩ := enqueue_status cfg
    { s with shared := upd s.shared p.cid (some p), failed := upd s.failed p.cid false } p .pin (by intro e; cases e)
  simp only [reported, instrOf, hk, observe, statusOf, h1]
  cases hr : (enqueue cfg { s with shared := upd s.shared p.cid (some p), failed := upd s.failed p.cid false } p .pin).2 with
  | nil =>
    rcases h4 hr with hp | hp <;> simp [toRetCode, opStatus, h2, hp]
  | full =>
    simp [toRetCode, opStatus, h2, h3 hr, isError]

theorem full_queue_reported_untrack (cfg : Cfg) (n : Nat) (s : State) (c : Nat) :
    reported n { act := .untrack c, ret := toRetCode (untrack cfg s c).2, infos := [], obs := observe (untrack cfg s c).1 } = true := by
  unfold untrack
  obtain ⟨i, h1, h2, h3, h4⟩ := enqueue_status cfg
    { s with shared := upd s.shared c none, failed := upd s.failed c false } (pinCid c) .unpin (by intro e; cases e)
  have h1' : (enqueue cfg { s with shared := upd s.shared c none, failed := upd s.failed c false } (pinCid c) .unpin).1.cur c = some i := h1
  simp only [reported, instrOf, observe, statusOf, h1']
  cases hr : (enqueue cfg { s with shared := upd s.shared c none, failed := upd s.failed c false } (pinCid c) .unpin).2 with
  | nil =>
    rcases h4 hr with hp | hp <;> simp [toRetCode, opStatus, h2, hp]
  | full =>
    simp [toRetCode, opStatus, h2, h3 hr, isError]

/-- `Recover(c)` returning nil leaves no pin_error / unpin_error behind; returning ErrFullQueue leaves an error status. -/
theorem full_queue_reported_recover (cfg : Cfg) (n : Nat) (s : State) (c : Nat) (hr : Reachable cfg s) :
    reported n { act := .recover c, ret := toRetCode (recover cfg s c).2, infos := [], obs := observe (recover cfg s c).1 } = true := by
  have h := inv_reachable hr
  unfold recover recoverWith
  have key : ∀ typ, typ ≠ .remote → ∀ p, p.cid = c →
      reported n { act := .recover c, ret := toRetCode (enqueue cfg s p typ).2, infos := [],
                   obs := observe (enqueue cfg s p typ).1 } = true := by
    intro typ ht p hp
    obtain ⟨i, h1, h2, h3, h4⟩ := enqueue_status cfg s p typ ht
    rw [hp] at h1
    simp only [reported, instrOf, observe, statusOf, h1]
    cases hr : (enqueue cfg s p typ).2 with
    | nil =>
      rcases h4 hr with hp | hp <;> cases typ <;> simp [toRetCode, opStatus, h2, hp] at ht ⊢
    | full =>
      cases typ <;> simp [toRetCode, opStatus, h2, h3 hr, isError] at ht ⊢
  cases hs : statusOf s c <;> simp only []
  case pinError => exact key .pin (by intro e; cases e) _ (recPin_cid h c)
  case unexpectedlyUnpinned => exact key .pin (by intro e; cases e) _ (recPin_cid h c)
  case unpinError => exact key .unpin (by intro e; cases e) _ rfl
  all_goals simp [reported, instrOf, toRetCode, observe, hs]

/-! ### the deduplicated re-track with a different mode (suspected defect, refuted)

`track 0 (here, recursive)`; while its Pin call is parked, `track 0 (here, direct)` is deduplicated by
`TrackNewOperation` and returns nil; the first call then succeeds. The daemon holds a recursive pin, the pinset
records direct: the state is quiescent and the status is pin_error (Status asks the daemon for the recorded mode),
so the first sentence of the property holds; `recover 0` re-issues the recorded (direct) pin and repairs it. -/

def k06Run : State :=
  run k06Cfg init [.track (k06Pin .recursive), .deqPin, .track (k06Pin .direct), .effect 0, .retOk 0]

theorem late_retrack_is_error_status :
    quiescent 1 (observe k06Run) = true ∧ (observe k06Run).daemon 0 = some (.recursive, 1) ∧
    (observe k06Run).shared 0 = some (k06Pin .direct) ∧ (observe k06Run).status 0 = .pinError ∧
    daemonMatches (observe k06Run) 0 = false ∧ matchOrError (observe k06Run) 0 = true := by
  decide

theorem late_retrack_recovers :
    let s := run k06Cfg k06Run [.recover 0, .deqPin, .effect 1, .retOk 1]
    quiescent 1 (observe s) = true ∧ (observe s).daemon 0 = some (.direct, 1) ∧ daemonMatches (observe s) 0 = true := by
  decide

/-- a concrete non-trivial state meeting the hypotheses of `quiescent_match_or_error` -/
example : Reachable k06Cfg k06Run :=
  .step _ (.step _ (.step _ (.step _ (.step _ .init))))

/-- queue of size 1: the second pin instruction cannot be queued while the single worker is busy and the
    channel holds one operation; it is reported (ErrFullQueue, pin_error), not dropped -/
example :
    let s := run k06Cfg init [.track (k06Pin .recursive), .deqPin, .track { cid := 1, kind := .here, mode := .direct, tag := 1 }]
    (track k06Cfg s { cid := 2, kind := .here, mode := .direct, tag := 1 }).2 = .full ∧
    statusOf (track k06Cfg s { cid := 2, kind := .here, mode := .direct, tag := 1 }).1 2 = .pinError := by
  decide

/-! ### round 7: recover from the status listing (`Model/C05R.lean`)

`RecoverAll` = `StatusAll(ctx, TrackerStatusUndefined)`, then `recoverWithPinInfo` for every entry with the status READ AT
LISTING TIME (`raLoop`: worker / daemon activity `pre` goes on between the entries), `Recover(c)` = the table entry, else
`Status(c)`, then the same switch. `recAction` is that switch as a function of the status; the theorems quantify over the
status the listing produces, not over sampled states. `ls = false`: the daemon's reads (`PinLsCid` / `PinLs`) fail. -/

/-- the switch, enumerated over all thirteen statuses: exactly pin_error and unexpectedly_unpinned re-pin, exactly unpin_error
    re-unpins, everything else (cluster_error included) is left -/
theorem recover_switch_table :
    (∀ st, recAction st = some .pin ↔ (st = .pinError ∨ st = .unexpectedlyUnpinned)) ∧
    (∀ st, recAction st = some .unpin ↔ st = .unpinError) ∧ (∀ st, recAction st ≠ some .remote) := by
  refine ⟨?_, ?_, ?_⟩ <;> intro st <;> cases st <;> simp [recAction]

/-- with the daemon answering, the refined `Recover(c)` is the `recover c` step of the base model -/
theorem recoverR_refines (cfg : Cfg) (s : State) (c : Nat) : recoverR cfg s true c = recover cfg s c := recoverR_true cfg s c

/-- The refined `RecoverAll` (listing snapshot, loop with worker / daemon activity in between) preserves the invariant. -/
theorem recoverAllR_invariant (cfg : Cfg) (s : State) (ls : Bool) (items : List (List Ev × Nat)) (hr : Reachable cfg s)
    (hint : ∀ it ∈ items, ∀ e ∈ it.1, internalOnly e = true) : Inv (recoverAllR cfg s ls items).1 :=
  inv_raLoop cfg _ items s (inv_reachable hr) (fun _ _ hl => listingR_sound (inv_reachable hr) hl) hint

/-- A cid that is in trouble is listed with a status that calls for the right repair: no live operation (none, or an
    errored one) and the daemon does not match ⇒ the listing has an entry whose switch re-issues the operation the pinset
    calls for. -/
theorem mismatch_is_listed (cfg : Cfg) (s : State) (c : Nat) (hr : Reachable cfg s) (hsl : StartLike s c)
    (hm : daemonMatches (observe s) c = false) :
    ∃ st t, listingR s true c = some st ∧ recAction st = some t ∧ wantTyp (s.shared c) t := by
  have h := inv_reachable hr
  by_cases hna : ∀ st, statusAllOf s c = some st → recAction st = none
  · exfalso
    have hh := healed_of_noaction h hsl hna
    rcases hsl with hcur | ⟨i, hcur, hp⟩
    · have hidle := h.idle c hcur
      unfold idleOk at hidle
      unfold daemonMatches daemonMode observe at hm
      simp only [] at hm
      cases hsh : s.shared c with
      | none => rw [hsh] at hidle hm; simp [hidle] at hm
      | some p =>
        rw [hsh] at hidle hm; simp only [] at hidle hm
        cases hk : p.kind with
        | sharded => simp [hk] at hm
        | remote =>
          rcases hidle hk with hd | hf
          · simp [hk, hd] at hm
          · simp [hk, hf] at hm
        | here => obtain ⟨t, ht⟩ := hh.idle hcur p hsh hk; simp [hk, ht] at hm
    · have ht : (s.ops i).typ = .remote := by
        rcases hh.noErr i hcur with ht | hne
        · exact ht
        · exact absurd hp hne
      have hw := h.curTyp c i hcur
      have hf := h.remoteErr c i hcur ht hp
      rw [ht] at hw
      unfold wantTyp at hw
      unfold daemonMatches daemonMode observe at hm
      simp only [] at hm
      cases hsh : s.shared c with
      | none => rw [hsh] at hw; cases hw
      | some p =>
        rw [hsh] at hw hm; simp only [] at hw hm
        cases hk : p.kind with
        | sharded => simp [hk] at hm
        | remote => simp [hk, hf] at hm
        | here => rw [hk] at hw; cases hw
  · simp only [not_forall] at hna
    obtain ⟨st, hst, hne⟩ := hna
    cases ha : recAction st with
    | none => exact absurd ha hne
    | some t => exact ⟨st, t, hst, ha, statusAllOf_sound h hst t ha⟩

/-- `RecoverAll` covers the listing: every listed cid whose status calls for a repair — for EVERY status the listing can
    produce, by `recAction` — gets a new operation (a fresh id `j`) for that cid, of the right type, a re-pin carrying the
    pin recorded in the shared pinset; whatever the workers and the daemon do between the entries, in whatever order the
    entries are visited, as long as no entry is refused with ErrFullQueue. -/
theorem recoverAll_covers (cfg : Cfg) (s : State) (items : List (List Ev × Nat)) (hr : Reachable cfg s)
    (hint : ∀ it ∈ items, ∀ e ∈ it.1, internalOnly e = true) (hnd : (items.map (·.2)).Nodup)
    (c : Nat) (hc : c ∈ items.map (·.2)) (st : Status) (t : OpType) (hst : listingR s true c = some st)
    (hact : recAction st = some t) (hnil : (recoverAllR cfg s true items).2 = .nil) :
    ∃ j, s.nextId ≤ j ∧ j < (recoverAllR cfg s true items).1.nextId ∧ ((recoverAllR cfg s true items).1.ops j).cid = c ∧
      ((recoverAllR cfg s true items).1.ops j).typ = t ∧
      (t = .pin → s.shared c = some ((recoverAllR cfg s true items).1.ops j).pin) :=
  raLoop_covers cfg _ c st t hst hact items s (inv_reachable hr) (fun _ _ hl => listingR_sound (inv_reachable hr) hl)
    hint hnd hc (startLike_of_action hst hact) hnil

/-- ... and leaves the healthy ones alone: a cid without a table entry whose daemon state matches has a status (read with
    or without the daemon answering) for which the switch does nothing, so neither `Recover(c)` nor its entry in the loop
    of `RecoverAll` — executed in whatever later state `s1` — creates an operation. -/
theorem recover_skips_healthy (cfg : Cfg) (s : State) (ls : Bool) (c : Nat) (hcur : s.cur c = none)
    (hm : daemonMatches (observe s) c = true) :
    recoverR cfg s ls c = (s, .nil) ∧ ∀ st, listingR s ls c = some st → ∀ s1, recoverWith cfg s1 c st = (s1, .nil) := by
  obtain ⟨h1, h2⟩ := noaction_of_healthy hcur hm ls
  refine ⟨?_, fun st hl s1 => ?_⟩
  · unfold recoverR; rw [recoverWith_eq, h1]
  · rw [recoverWith_eq, h2 st hl]

/-- `recover_heals` over the refined step: from a reachable quiescent state, `RecoverAll` as the code runs it (listing with
    the daemon answering, entries visited in any order `items` that contains every listed cid, worker steps and successful
    daemon calls in between, no ErrFullQueue), then any healthy activity `es` up to a quiescent state: the daemon matches
    for every cid. -/
theorem recoverAllR_heals (cfg : Cfg) (n : Nat) (s s' : State) (items : List (List Ev × Nat)) (es : List Ev)
    (hr : Reachable cfg s) (hq : quiescent n (observe s) = true)
    (hint : ∀ it ∈ items, ∀ e ∈ it.1, healthyInternal e = true)
    (hall : ∀ c, c < n → (listingR s true c).isSome → c ∈ items.map (·.2))
    (hnil : (recoverAllR cfg s true items).2 = .nil)
    (hes : ∀ e ∈ es, healthyEv e = true) (hrun : runOk cfg (recoverAllR cfg s true items).1 es = some s')
    (hq' : quiescent n (observe s') = true) : ∀ c, c < n → daemonMatches (observe s') c = true := by
  have hi := inv_reachable hr
  obtain ⟨g1, g2⟩ := raLoop_heals cfg n (listingR s true) items s hi (fun _ _ hl => listingR_sound hi hl) hint
    (fun c hc => by
      have hsl := startLike_of_quiescent hi hq c hc
      by_cases hna : ∀ st, statusAllOf s c = some st → recAction st = none
      · exact Or.inl (healed_of_noaction hi hsl hna)
      · simp only [not_forall] at hna
        obtain ⟨st, hst, hne⟩ := hna
        cases ha : recAction st with
        | none => exact absurd ha hne
        | some t => exact Or.inr ⟨hsl, hall c hc (by rw [listingR_true, hst]; rfl), st, t, hst, ha⟩) hnil
  obtain ⟨k1, _, k3⟩ := heal_run cfg n es _ s' g1 (fun c hc => Or.inl (g2 c hc)) hes hrun
  exact fun c hc => matches_of_healed_quiescent k1 hq' c hc (k3 c hc (Or.inl (g2 c hc)))

/-- `lsErr`, single cid: when `PinLsCid` fails, `Status` of a pin allocated here that has no table entry is cluster_error —
    an error status — and `Recover(c)` leaves it alone (returns nil, creates nothing); a cid WITH a table entry is recovered
    as usual (`GetExists` needs no daemon read). -/
theorem recover_lsErr (cfg : Cfg) (s : State) (c : Nat) :
    (∀ p, s.cur c = none → s.shared c = some p → p.kind = .here →
      statusR s false c = .clusterError ∧ isError (statusR s false c) = true ∧ recoverR cfg s false c = (s, .nil)) ∧
    (∀ i, s.cur c = some i → recoverR cfg s false c = recover cfg s c) := by
  refine ⟨fun p hcur hsh hk => ?_, fun i hcur => ?_⟩
  · have h1 : statusR s false c = .clusterError := by unfold statusR; rw [hcur, hsh]; simp [hk]
    refine ⟨h1, by rw [h1]; rfl, ?_⟩
    unfold recoverR; rw [h1]; rfl
  · unfold recoverR recover statusR statusOf; rw [hcur]

/-- `lsErr`, `RecoverAll`: when `PinLs` fails the listing is empty (`StatusAll` returns nil) — not even the errored
    operations of the table are listed — so nothing is recovered: the state after it is the one the workers and the daemon
    produce on their own. (The unchanged code returned nil here; see notes/C05.md, `fixed:`.) -/
theorem recoverAll_lsErr (cfg : Cfg) (s : State) (items : List (List Ev × Nat)) :
    recoverAllR cfg s false items = (items.foldl (fun s it => run cfg s it.1) s, .nil) := by
  unfold recoverAllR
  have : listingR s false = fun _ => none := by funext c; rfl
  rw [this]; exact raLoop_unlisted cfg items s

/-- ... and a later round with the daemon answering heals: a failed round only lets workers and daemon run, so it ends in a
    reachable state, and from its next quiescent point `recoverAllR_heals` applies. -/
theorem lsErr_round_reachable (cfg : Cfg) (s : State) (items : List (List Ev × Nat)) (hr : Reachable cfg s) :
    Reachable cfg (recoverAllR cfg s false items).1 := by
  rw [recoverAll_lsErr]
  simp only []
  induction items generalizing s with
  | nil => exact hr
  | cons it rest ih =>
    simp only [List.foldl_cons]
    apply ih
    generalize it.1 = es
    induction es generalizing s with
    | nil => exact hr
    | cons e es ih2 => exact ih2 (step cfg s e) (.step e hr)

/-- a concrete lsErr round and its repair: cid 0 errored (daemon failed the pin), `RecoverAll` with `PinLs` failing does
    nothing, `RecoverAll` with the daemon answering re-queues the recorded pin and the daemon ends matching -/
example :
    let s0 := run k06Cfg init [.track (k06Pin .direct), .deqPin, .retErr 0]
    statusOf s0 0 = .pinError ∧ (recoverAllR k06Cfg s0 false [([], 0)]).1.nextId = s0.nextId ∧
    (let s1 := run k06Cfg (recoverAllR k06Cfg s0 true [([], 0)]).1 [.deqPin, .effect 1, .retOk 1]
     quiescent 1 (observe s1) = true ∧ daemonMatches (observe s1) 0 = true) := by
  decide

/-! ### round 7: whole schedules (`EvR`, `obsTrace` of `Model/C05R.lean`)

A schedule is a list of blocks of events — instructions, worker steps, daemon effects / answers / faults, lost pins, the
refined `Recover` / `RecoverAll`, the daemon's read fault going on and off, `stabilize` — and an observation is taken after
every block, as the driver does after every scripted action. -/

/-- the Prop reading of the first clause as the driver evaluates it -/
theorem clause_match_or_error_iff (n : Nat) (os : List Obs) :
    os.all (fun o => !quiescent n o || (List.range n).all (matchOrError o)) = true ↔
      ∀ o ∈ os, quiescent n o = true → ∀ c, c < n → matchOrError o c = true := by
  simp only [List.all_eq_true, Bool.or_eq_true, Bool.not_eq_eq_eq_not, Bool.not_true, List.mem_range]
  constructor
  · intro h o ho hq c hc
    rcases h o ho with h1 | h1
    · rw [hq] at h1; cases h1
    · exact h1 c hc
  · intro h o ho
    cases hq : quiescent n o
    · exact Or.inl rfl
    · exact Or.inr (fun c hc => h o ho hq c hc)

/-- `holds` is the conjunction of its four named clauses -/
theorem holds_iff (n : Nat) (o0 : Obs) (fs : List Frame) :
    holds n o0 fs = true ↔
      ((o0 :: fs.map (·.obs)).all (fun o => !quiescent n o || (List.range n).all (matchOrError o)) = true ∧
       healsFrom n o0 fs = true ∧ allFrames usesRecorded o0 fs = true ∧ fs.all (reported n) = true) := by
  simp [holds, clauses, and_assoc]

/-- For EVERY schedule — every list of blocks of instructions, worker steps, daemon actions and fault choices, with the
    refined `Recover` / `RecoverAll` and daemon read failures — EVERY observation point of the model's trace satisfies the
    first clause exactly as the driver evaluates it (`quiescent_match_or_error` of `Spec.clauses`). -/
theorem model_trace_match_or_error (cfg : Cfg) (blocks : List (List EvR)) :
    (observeR m0.s m0.ls :: obsTrace cfg m0 blocks).all
      (fun o => !quiescent cfg.ncids o || (List.range cfg.ncids).all (matchOrError o)) = true := by
  rw [clause_match_or_error_iff]
  intro o ho hq c hc
  have key : ∀ s ls, Inv s → o = observeR s ls → matchOrError o c = true := by
    intro s ls hi e
    subst e
    rw [quiescent_R] at hq
    exact matchOrError_R ls (matchOrError_of_quiescent hi hq c hc)
  rcases List.mem_cons.1 ho with e | e
  · exact key init true inv_init e
  · obtain ⟨s, ls, hi, e⟩ := obsTrace_inv cfg blocks m0 inv_init o e
    exact key s ls hi e

/-- ... and the state behind every observation point satisfies the tracker invariant -/
theorem model_trace_invariant (cfg : Cfg) (blocks : List (List EvR)) :
    ∀ o ∈ obsTrace cfg m0 blocks, ∃ s ls, Inv s ∧ o = observeR s ls :=
  obsTrace_inv cfg blocks m0 inv_init

/-- a non-trivial schedule: an errored pin, a failed-listing round, a healthy round, each block ending at a stable point -/
example :
    (obsTrace k06Cfg m0 [[.base (.track (k06Pin .direct)), .stabilize], [.base (.retErr 0), .stabilize],
      [.lsFail true], [.recoverAll [([], 0)], .stabilize], [.lsFail false], [.recoverAll [([.deqPin], 0)], .stabilize],
      [.base (.effect 1), .base (.retOk 1), .stabilize]]).map (fun o => (o.status 0, quiescent 1 o)) =
    [(.pinning, false), (.pinError, true), (.pinError, true), (.pinError, true), (.pinError, true), (.pinning, false),
     (.pinned, true)] := by
  decide

/-! ### round 7: concurrent instructions (`EvC`, `stepC` of `Model/C05R.lean`)

RPC handlers run in their own goroutines: `Recover` / `RecoverAll` (REST) run concurrently with the `Track` / `Untrack` the
consensus component issues (those two are serialised among themselves since 2ba6875). The only lock is the operation
table's: `TrackNewOperation`, `Clean`, `GetExists` are atomic, nothing else is. So an instruction is (status read →)
`TrackNewOperation` → channel send, and the steps of different instructions interleave freely. -/

/-- not interleaved, the two halves of `enqueue` are the atomic `enqueue` of the base model -/
theorem enqueue_two_steps (cfg : Cfg) (s : State) (p : PinSpec) (typ : OpType) :
    enqueue cfg s p typ =
      match enqBegin s p typ with
      | (s1, none) => (s1, .nil)
      | (s1, some i) => enqSend cfg s1 i typ := by
  unfold enqueue enqBegin enqSend
  cases trackNew s p typ .queued with
  | mk s1 r => cases r <;> cases typ <;> rfl

/-- an operation replaced between its `TrackNewOperation` and its channel send is sent cancelled; the worker that receives
    it drops it without touching the daemon or the table (`applyPinF`: `if op.Cancelled() { return true }`) -/
theorem cancelled_send_is_skipped (cfg : Cfg) (s : State) (i : Nat) (rest : List Nat) (hq : s.pinQ = i :: rest)
    (hc : (s.ops i).cancelled = true) (hfree : busyPin s < cfg.workers) : deqPin cfg s = { s with pinQ := rest } := by
  unfold deqPin
  rw [if_pos hfree, hq]
  simp only [startCall]
  rw [if_pos hc]

/-- Track‖Untrack with the sends delayed and swapped (Track's operation is replaced before it is sent): harmless — the
    stale pin operation is skipped, the unpin wins, the state is quiescent and matches the last instruction. -/
theorem interleaved_track_untrack_harmless :
    let t := runC k06Cfg initC [.trackBegin (k06Pin .recursive), .untrackBegin 0, .send 1, .send 0,
      .base .deqPin, .base .deqUnpin, .base (.effect 1), .base (.retOk 1)]
    t.sends = [] ∧ (t.s.ops 0).cancelled = true ∧ t.s.pinQ = [] ∧ quiescent 1 (observe t.s) = true ∧
    t.s.daemon 0 = none ∧ matchOrError (observe t.s) 0 = true := by
  decide

/-- the full claim for the interleaved system -/
def concurrent_full : Prop :=
  ∀ (cfg : Cfg) (es : List EvC) (n c : Nat), c < n → (runC cfg initC es).sends = [] → (runC cfg initC es).reads = [] →
    quiescent n (observe (runC cfg initC es).s) = true → matchOrError (observe (runC cfg initC es).s) c = true

/-- It FAILS: `Recover(c)` reads pin_error, `Untrack(c)` runs to completion (the pinset drops c, the daemon unpins it), then
    `recoverWithPinInfo` acts on the stale pin_error: the pinset has no entry, so it re-pins `api.PinCid(c)`. The end is
    quiescent, c is not in the pinset, `Status` = unpinned, and the daemon pins c — for good (no later recover lists c). -/
theorem concurrent_recover_untrack_breaks : ¬ concurrent_full := by
  intro h
  have := h k06Cfg [.trackBegin (k06Pin .direct), .send 0, .base .deqPin, .base (.retErr 0), .recRead 0,
    .untrackBegin 0, .send 0, .base .deqUnpin, .base (.effect 1), .base (.retOk 1), .recSwitch 0, .send 0,
    .base .deqPin, .base (.effect 2), .base (.retOk 2)] 1 0 (by decide) (by decide) (by decide) (by decide)
  revert this
  decide

/-- the same through `RecoverAll`: its listing is a snapshot; an `Untrack` that completes between the listing and the entry
    of that cid makes the loop re-pin a removed cid. (`recoverAllR_invariant` / `recoverAll_covers` assume only worker and
    daemon activity in between: the hypothesis `internalOnly` is necessary.) -/
theorem recoverAll_stale_listing_breaks :
    let s0 := run k06Cfg init [.track (k06Pin .direct), .deqPin, .retErr 0]
    let s1 := run k06Cfg (recoverAllR k06Cfg s0 true [([.untrack 0, .deqUnpin, .effect 1, .retOk 1], 0)]).1
      [.deqPin, .effect 2, .retOk 2]
    quiescent 1 (observe s1) = true ∧ s1.shared 0 = none ∧ statusOf s1 0 = .unpinned ∧
    s1.daemon 0 = some (.recursive, 0) ∧ matchOrError (observe s1) 0 = false := by
  decide

/-- what holds without the atomicity assumption: executed atomically (each first half immediately followed by its second
    half, each read by its switch) the interleaved system is the base model, for which all theorems above hold -/
theorem atomic_track_is_base (cfg : Cfg) (t : StateC) (p : PinSpec) (hs : t.sends = []) :
    (stepC cfg (stepC cfg t (.trackBegin p)) (.send 0)).s = step cfg t.s (.track p) := by
  unfold step stepRet
  by_cases hk : p.kind = .here
  · simp only [stepC, hk, if_true, pushSend, track, enqueue, enqBegin]
    cases hn : trackNew { t.s with shared := upd t.s.shared p.cid (some p), failed := upd t.s.failed p.cid false } p .pin .queued with
    | mk s1 r =>
      cases r with
      | none => simp [hs]
      | some i => simp [hs, enqSend]
  · simp only [stepC, hk, if_false]
    have : (stepC cfg { t with s := step cfg t.s (.track p) } (.send 0)) = { t with s := step cfg t.s (.track p) } := by
      simp [stepC, hs]
    simp only [stepC, hs] at this ⊢
    simp [step, stepRet]

/-! ### round 7: Shutdown, timeouts, priorities

This version of the tracker has no pin / unpin timeout of its own (no `PinTimeout`, no `context.WithTimeout` in
`stateless.go`: an IPFS call ends when the connector's own timeout or the operation's cancellation ends it — the `retErr` /
`reap` steps) and a single `pinCh` (no priority channel). `Shutdown` cancels `spt.ctx`; every operation's context derives
from it (`NewOperationTracker(ctx, …)`, `TrackNewOperation`: `trace.NewContext(opt.ctx, …)`), the workers return on
`<-spt.ctx.Done()`, and `spt.wg` is never `Add`ed to, so `Shutdown` does not wait for them. -/

/-- after `Shutdown` every operation is cancelled, every parked call has left with its context error, and no completion
    of any call — daemon effect, nil answer, error answer — changes the state any more: no worker write after close;
    operations still in the channels stay there (or are skipped: `cancelled_send_is_skipped`). -/
theorem shutdown_cancels_all (cfg : Cfg) (s : State) (hr : Reachable cfg s) :
    (shutdown s).calls = [] ∧
    ∀ i, i < s.nextId → ((shutdown s).ops i).cancelled = true ∧ effect (shutdown s) i = shutdown s ∧
      retOk (shutdown s) i = shutdown s ∧ retErr (shutdown s) i = shutdown s := by
  have hops : ∀ i, i < s.nextId → ((shutdown s).ops i).cancelled = true := by
    intro i hi
    simp [shutdown, reapAll, cancelAll, hi]
  refine ⟨?_, fun i hi => ⟨hops i hi, dead_call_inert _ i (hops i hi)⟩⟩
  simp only [shutdown, reapAll]
  rw [List.filter_eq_nil_iff]
  intro k hk
  have hlt := (inv_reachable hr).callLt k hk
  simp only [alive, cancelAll]
  rw [if_pos hlt]
  simp

/-! ### round 8: Untrack of a pin that still waits in the channel; whole histories after one instruction

What the daemon holds for a cid comes from EARLIER operations, not from the operation that is in the table now. So `Untrack`
must queue an Unpin whatever the table holds — also when the entry is a pin that no worker has picked up yet (a cid that is
already pinned, re-tracked while every worker is busy). `untrack_unpin_on_its_way`: it always does. `unqueue_shortcut_breaks`:
the tempting shortcut "cancel the queued pin and forget it" (seeded change C05f) ends quiescent with the daemon pinning a cid the
pinset does not have, status unpinned, and a recover round finds nothing. `untrack_converges` / `track_converges`: the first
sentence of the property as a statement about the whole history after ONE instruction, from any reachable state. -/
/-- `Untrack(c)` — whatever the table holds for `c` (nothing, a pin still waiting in the channel, a Pin request in flight,
    an error, an unpin) — leaves an UNPIN operation as the table entry of `c`, and that operation is either refused
    (ErrFullQueue, error phase) or alive and on its way: in the unpin channel, or its Unpin request parked at the daemon. -/
theorem untrack_unpin_on_its_way (cfg : Cfg) (s : State) (c : Nat) (hr : Reachable cfg s) :
    ∃ i, (untrack cfg s c).1.cur c = some i ∧ ((untrack cfg s c).1.ops i).typ = .unpin ∧
      (((untrack cfg s c).2 = .full ∧ ((untrack cfg s c).1.ops i).phase = .error) ∨
       ((untrack cfg s c).2 = .nil ∧ ((untrack cfg s c).1.ops i).cancelled = false ∧
          (i ∈ (untrack cfg s c).1.unpinQ ∨ ∃ k ∈ (untrack cfg s c).1.calls, k.op = i ∧ k.kind = .unpin))) := by
  have hr' : Reachable cfg (step cfg s (.untrack c)) := .step _ hr
  have hs : step cfg s (.untrack c) = (untrack cfg s c).1 := rfl
  rw [hs] at hr'
  have hi := inv_reachable hr'
  have hi2 := inv2_reachable hr'
  have key : ∃ i, (untrack cfg s c).1.cur c = some i ∧ ((untrack cfg s c).1.ops i).typ = .unpin ∧
      ((untrack cfg s c).2 = .full → ((untrack cfg s c).1.ops i).phase = .error) ∧
      ((untrack cfg s c).2 = .nil → ((untrack cfg s c).1.ops i).phase = .queued ∨ ((untrack cfg s c).1.ops i).phase = .inProgress) := by
    unfold untrack
    exact enqueue_status cfg { s with shared := upd s.shared c none, failed := upd s.failed c false } (pinCid c) .unpin
      (by intro e; cases e)
  obtain ⟨i, h1, h2, h3, h4⟩ := key
  refine ⟨i, h1, h2, ?_⟩
  cases hret : (untrack cfg s c).2 with
  | full => exact Or.inl ⟨rfl, h3 hret⟩
  | nil =>
    refine Or.inr ⟨rfl, ?_⟩
    have hnc : ((untrack cfg s c).1.ops i).cancelled = false := by
      cases hc : ((untrack cfg s c).1.ops i).cancelled with
      | false => rfl
      | true =>
        have := hi.curCancelled c i h1 hc
        rcases h4 hret with h | h <;> rw [h] at this <;> cases this
    refine ⟨hnc, ?_⟩
    rcases h4 hret with hq | hp
    · rcases hi2.queuedIn c i h1 hnc hq with hin | hin
      · have := hi.pinQTyp i hin
        rw [h2] at this; cases this
      · exact Or.inl hin
    · obtain ⟨k, hk, hko⟩ := hi2.progIn c i h1 hnc hp
      refine Or.inr ⟨k, hk, hko, ?_⟩
      have hkk := hi.callKind k hk
      rw [hko, h2] at hkk
      cases hkd : k.kind with
      | unpin => rfl
      | pin => have := hkk.mp hkd; cases this

/-- NOT the code (the shortcut seeded change C05f made): "a pin that still waits in the channel has not reached IPFS: cancel it and
    forget it, there is nothing to unpin". Everything else as `untrack`. -/
def untrackShortcut (cfg : Cfg) (s0 : State) (c : Nat) : State × Ret :=
  match s0.cur c with
  | some i =>
    if (s0.ops i).typ = .pin ∧ (s0.ops i).phase = .queued then
      ({ cancelOp s0 i with cur := upd s0.cur c none, shared := upd s0.shared c none, failed := upd s0.failed c false }, .nil)
    else untrack cfg s0 c
  | none => untrack cfg s0 c

def rqCfg : Cfg := { cap := 2, workers := 1, ncids := 2 }
def rqPin (c : Nat) : PinSpec := { cid := c, kind := .here, mode := .recursive, tag := 1 }

/-- cid 0 pinned at the daemon (its operation done and cleaned), the single worker busy with cid 1, cid 0 re-tracked: waits in the channel -/
def rqState : State :=
  run rqCfg init [.track (rqPin 0), .deqPin, .effect 0, .retOk 0, .track (rqPin 1), .deqPin, .track (rqPin 0)]

/-- The premise of the shortcut is wrong: what the daemon holds for a cid comes from EARLIER operations. With the shortcut
    the schedule ends quiescent with the pinset empty, Status = unpinned, the daemon pinning cid 0, nothing for a recover
    round to find — -/
theorem unqueue_shortcut_breaks :
    let s := run rqCfg (untrackShortcut rqCfg rqState 0).1 [.effect 1, .retOk 1, .deqPin]
    statusOf rqState 0 = .pinQueued ∧ (untrackShortcut rqCfg rqState 0).2 = .nil ∧
    quiescent 2 (observe s) = true ∧ (observe s).shared 0 = none ∧ (observe s).status 0 = .unpinned ∧
    (observe s).daemon 0 = some (.recursive, 1) ∧ matchOrError (observe s) 0 = false ∧
    (recover rqCfg s 0).2 = .nil ∧ (recover rqCfg s 0).1.cur 0 = none ∧ (recover rqCfg s 0).1.pinQ = [] ∧
    (recover rqCfg s 0).1.unpinQ = [] ∧ (recover rqCfg s 0).1.calls = [] ∧ (recover rqCfg s 0).1.daemon 0 = some (.recursive, 1) := by
  decide

/-- — while the code's `untrack` on the same schedule ends with the daemon holding nothing for cid 0. -/
theorem untrack_of_queued_pin_unpins :
    let s := run rqCfg (untrack rqCfg rqState 0).1 [.effect 1, .retOk 1, .deqPin, .deqUnpin, .effect 3, .retOk 3]
    quiescent 2 (observe s) = true ∧ (observe s).daemon 0 = none ∧ (observe s).status 0 = .unpinned ∧
    daemonMatches (observe s) 0 = true := by
  decide

example : Reachable rqCfg rqState :=
  .step _ (.step _ (.step _ (.step _ (.step _ (.step _ (.step _ .init))))))


/-! ### whole histories after one instruction -/

/-- Whole history after `Untrack(c)`: from ANY reachable state (nothing in the table for `c`, a pin still waiting in the channel,
    a Pin request in flight whose effect has or has not landed, an error, the daemon pinning `c` from an earlier operation),
    after ANY later events that do not re-track `c` — other instructions, recover rounds, worker steps, daemon successes,
    failures, lost pins, any queue size — at every quiescent point the daemon holds nothing for `c` or `c` shows an error status. -/
theorem untrack_converges (cfg : Cfg) (n : Nat) (s : State) (c : Nat) (hr : Reachable cfg s) (hc : c < n) (es : List Ev)
    (hes : ∀ e ∈ es, touches c e = false)
    (hq : quiescent n (observe (run cfg (untrack cfg s c).1 es)) = true) :
    (run cfg (untrack cfg s c).1 es).daemon c = none ∨ isError (statusOf (run cfg (untrack cfg s c).1 es) c) = true := by
  have hr1 : Reachable cfg (untrack cfg s c).1 := Reachable.step (.untrack c) hr
  have hr2 := reachable_run8 cfg es _ hr1
  have hm := quiescent_match_or_error cfg n _ hr2 hq c hc
  have hsh : (run cfg (untrack cfg s c).1 es).shared c = none := by
    rw [run_shared_untouched cfg c es _ hes]
    unfold untrack
    rw [enqueue_shared cfg _ (pinCid c) .unpin (by intro e; cases e)]
    simp
  simp only [matchOrError, daemonMatches, observe, hsh, Bool.or_eq_true, Option.isNone_iff_eq_none] at hm
  exact hm

/-- Whole history after `Track(p)` of a pin allocated here: after any later events that leave the pinset entry of `p.cid`
    alone, at every quiescent point the daemon pins it IN THE RECORDED MODE or the cid shows an error status. -/
theorem track_converges (cfg : Cfg) (n : Nat) (s : State) (p : PinSpec) (hk : p.kind = .here) (hr : Reachable cfg s)
    (hc : p.cid < n) (es : List Ev) (hes : ∀ e ∈ es, touches p.cid e = false)
    (hq : quiescent n (observe (run cfg (track cfg s p).1 es)) = true) :
    ((run cfg (track cfg s p).1 es).daemon p.cid).map (·.1) = some p.mode ∨
      isError (statusOf (run cfg (track cfg s p).1 es) p.cid) = true := by
  have hr1 : Reachable cfg (track cfg s p).1 := Reachable.step (.track p) hr
  have hr2 := reachable_run8 cfg es _ hr1
  have hm := quiescent_match_or_error cfg n _ hr2 hq p.cid hc
  have hsh : (run cfg (track cfg s p).1 es).shared p.cid = some p := by
    rw [run_shared_untouched cfg p.cid es _ hes]
    rw [track_shared]
    simp
  simp only [matchOrError, daemonMatches, daemonMode, observe, hsh, hk, Bool.or_eq_true, beq_iff_eq] at hm
  exact hm

/-- the hypotheses are met by the schedule of `untrack_of_queued_pin_unpins` (Untrack of a pin waiting in the channel) -/
example : (∀ e ∈ [Ev.effect 1, .retOk 1, .deqPin, .deqUnpin, .effect 3, .retOk 3], touches 0 e = false) ∧
    quiescent 2 (observe (run rqCfg (untrack rqCfg rqState 0).1 [.effect 1, .retOk 1, .deqPin, .deqUnpin, .effect 3, .retOk 3])) = true := by
  decide

/-! ### The anchored functions still read as the model was transcribed (regenerated from /repo on every run) -/

theorem gen_source_Stateless_f_New : Gen.Stateless.f_New = Expected.Stateless.f_New := rfl
theorem gen_source_Stateless_f_Tracker_opWorker : Gen.Stateless.f_Tracker_opWorker = Expected.Stateless.f_Tracker_opWorker := rfl
theorem gen_source_Stateless_f_applyPinF : Gen.Stateless.f_applyPinF = Expected.Stateless.f_applyPinF := rfl
theorem gen_source_Stateless_f_Tracker_pin : Gen.Stateless.f_Tracker_pin = Expected.Stateless.f_Tracker_pin := rfl
theorem gen_source_Stateless_f_Tracker_unpin : Gen.Stateless.f_Tracker_unpin = Expected.Stateless.f_Tracker_unpin := rfl
theorem gen_source_Stateless_f_Tracker_enqueue : Gen.Stateless.f_Tracker_enqueue = Expected.Stateless.f_Tracker_enqueue := rfl
theorem gen_source_Stateless_f_Tracker_SetClient : Gen.Stateless.f_Tracker_SetClient = Expected.Stateless.f_Tracker_SetClient := rfl
theorem gen_source_Stateless_f_Tracker_Shutdown : Gen.Stateless.f_Tracker_Shutdown = Expected.Stateless.f_Tracker_Shutdown := rfl
theorem gen_source_Stateless_f_Tracker_Track : Gen.Stateless.f_Tracker_Track = Expected.Stateless.f_Tracker_Track := rfl
theorem gen_source_Stateless_f_Tracker_Untrack : Gen.Stateless.f_Tracker_Untrack = Expected.Stateless.f_Tracker_Untrack := rfl
theorem gen_source_Stateless_f_Tracker_StatusAll : Gen.Stateless.f_Tracker_StatusAll = Expected.Stateless.f_Tracker_StatusAll := rfl
theorem gen_source_Stateless_f_Tracker_statusAll : Gen.Stateless.f_Tracker_statusAll = Expected.Stateless.f_Tracker_statusAll := rfl
theorem gen_source_Stateless_f_Tracker_Status : Gen.Stateless.f_Tracker_Status = Expected.Stateless.f_Tracker_Status := rfl
theorem gen_source_Stateless_f_Tracker_RecoverAll : Gen.Stateless.f_Tracker_RecoverAll = Expected.Stateless.f_Tracker_RecoverAll := rfl
theorem gen_source_Stateless_f_Tracker_Recover : Gen.Stateless.f_Tracker_Recover = Expected.Stateless.f_Tracker_Recover := rfl
theorem gen_source_Stateless_f_Tracker_recoverWithPinInfo : Gen.Stateless.f_Tracker_recoverWithPinInfo = Expected.Stateless.f_Tracker_recoverWithPinInfo := rfl
theorem gen_source_Stateless_f_Tracker_ipfsStatusAll : Gen.Stateless.f_Tracker_ipfsStatusAll = Expected.Stateless.f_Tracker_ipfsStatusAll := rfl
theorem gen_source_Stateless_f_Tracker_localStatus : Gen.Stateless.f_Tracker_localStatus = Expected.Stateless.f_Tracker_localStatus := rfl
theorem gen_source_Stateless_f_Tracker_OpContext : Gen.Stateless.f_Tracker_OpContext = Expected.Stateless.f_Tracker_OpContext := rfl
theorem gen_source_Stateless_f_addError : Gen.Stateless.f_addError = Expected.Stateless.f_addError := rfl
theorem gen_source_Optracker_f_OperationTracker_String : Gen.Optracker.f_OperationTracker_String = Expected.Optracker.f_OperationTracker_String := rfl
theorem gen_source_Optracker_f_NewOperationTracker : Gen.Optracker.f_NewOperationTracker = Expected.Optracker.f_NewOperationTracker := rfl
theorem gen_source_Optracker_f_OperationTracker_TrackNewOperation : Gen.Optracker.f_OperationTracker_TrackNewOperation = Expected.Optracker.f_OperationTracker_TrackNewOperation := rfl
theorem gen_source_Optracker_f_OperationTracker_Clean : Gen.Optracker.f_OperationTracker_Clean = Expected.Optracker.f_OperationTracker_Clean := rfl
theorem gen_source_Optracker_f_OperationTracker_Status : Gen.Optracker.f_OperationTracker_Status = Expected.Optracker.f_OperationTracker_Status := rfl
theorem gen_source_Optracker_f_OperationTracker_SetError : Gen.Optracker.f_OperationTracker_SetError = Expected.Optracker.f_OperationTracker_SetError := rfl
theorem gen_source_Optracker_f_OperationTracker_unsafePinInfo : Gen.Optracker.f_OperationTracker_unsafePinInfo = Expected.Optracker.f_OperationTracker_unsafePinInfo := rfl
theorem gen_source_Optracker_f_OperationTracker_Get : Gen.Optracker.f_OperationTracker_Get = Expected.Optracker.f_OperationTracker_Get := rfl
theorem gen_source_Optracker_f_OperationTracker_GetExists : Gen.Optracker.f_OperationTracker_GetExists = Expected.Optracker.f_OperationTracker_GetExists := rfl
theorem gen_source_Optracker_f_OperationTracker_GetAll : Gen.Optracker.f_OperationTracker_GetAll = Expected.Optracker.f_OperationTracker_GetAll := rfl
theorem gen_source_Optracker_f_OperationTracker_CleanAllDone : Gen.Optracker.f_OperationTracker_CleanAllDone = Expected.Optracker.f_OperationTracker_CleanAllDone := rfl
theorem gen_source_Optracker_f_OperationTracker_OpContext : Gen.Optracker.f_OperationTracker_OpContext = Expected.Optracker.f_OperationTracker_OpContext := rfl
theorem gen_source_Optracker_f_OperationTracker_Filter : Gen.Optracker.f_OperationTracker_Filter = Expected.Optracker.f_OperationTracker_Filter := rfl
theorem gen_source_Optracker_f_OperationTracker_filterOps : Gen.Optracker.f_OperationTracker_filterOps = Expected.Optracker.f_OperationTracker_filterOps := rfl
theorem gen_source_Optracker_f_filterOpsMap : Gen.Optracker.f_filterOpsMap = Expected.Optracker.f_filterOpsMap := rfl
theorem gen_source_Optracker_f_filter : Gen.Optracker.f_filter = Expected.Optracker.f_filter := rfl
theorem gen_source_Operation_f_NewOperation : Gen.Operation.f_NewOperation = Expected.Operation.f_NewOperation := rfl
theorem gen_source_Operation_f_Operation_String : Gen.Operation.f_Operation_String = Expected.Operation.f_Operation_String := rfl
theorem gen_source_Operation_f_Operation_Cid : Gen.Operation.f_Operation_Cid = Expected.Operation.f_Operation_Cid := rfl
theorem gen_source_Operation_f_Operation_Context : Gen.Operation.f_Operation_Context = Expected.Operation.f_Operation_Context := rfl
theorem gen_source_Operation_f_Operation_Cancel : Gen.Operation.f_Operation_Cancel = Expected.Operation.f_Operation_Cancel := rfl
theorem gen_source_Operation_f_Operation_Phase : Gen.Operation.f_Operation_Phase = Expected.Operation.f_Operation_Phase := rfl
theorem gen_source_Operation_f_Operation_SetPhase : Gen.Operation.f_Operation_SetPhase = Expected.Operation.f_Operation_SetPhase := rfl
theorem gen_source_Operation_f_Operation_Error : Gen.Operation.f_Operation_Error = Expected.Operation.f_Operation_Error := rfl
theorem gen_source_Operation_f_Operation_SetError : Gen.Operation.f_Operation_SetError = Expected.Operation.f_Operation_SetError := rfl
theorem gen_source_Operation_f_Operation_Type : Gen.Operation.f_Operation_Type = Expected.Operation.f_Operation_Type := rfl
theorem gen_source_Operation_f_Operation_Pin : Gen.Operation.f_Operation_Pin = Expected.Operation.f_Operation_Pin := rfl
theorem gen_source_Operation_f_Operation_Timestamp : Gen.Operation.f_Operation_Timestamp = Expected.Operation.f_Operation_Timestamp := rfl
theorem gen_source_Operation_f_Operation_Cancelled : Gen.Operation.f_Operation_Cancelled = Expected.Operation.f_Operation_Cancelled := rfl
theorem gen_source_Operation_f_Operation_ToTrackerStatus : Gen.Operation.f_Operation_ToTrackerStatus = Expected.Operation.f_Operation_ToTrackerStatus := rfl
theorem gen_source_Operation_f_Operation_StatusSnapshot : Gen.Operation.f_Operation_StatusSnapshot = Expected.Operation.f_Operation_StatusSnapshot := rfl
theorem gen_source_Operation_f_trackerStatus : Gen.Operation.f_trackerStatus = Expected.Operation.f_trackerStatus := rfl
theorem gen_source_Operation_f_TrackerStatusToOperationPhase : Gen.Operation.f_TrackerStatusToOperationPhase = Expected.Operation.f_TrackerStatusToOperationPhase := rfl


/-! ### inventory of the anchored files (round 8): a function ADDED to one of them has no transcribed twin above — these notice it -/

theorem gen_inventory_Stateless : Gen.Stateless.funcs =
    ["f_New", "f_Tracker_opWorker", "f_applyPinF", "f_Tracker_pin", "f_Tracker_unpin", "f_Tracker_enqueue", "f_Tracker_SetClient", "f_Tracker_Shutdown", "f_Tracker_Track", "f_Tracker_Untrack", "f_Tracker_StatusAll", "f_Tracker_statusAll", "f_Tracker_Status", "f_Tracker_RecoverAll", "f_Tracker_Recover", "f_Tracker_recoverWithPinInfo", "f_Tracker_ipfsStatusAll", "f_Tracker_localStatus", "f_Tracker_OpContext", "f_addError"] := rfl
theorem gen_inventory_Optracker : Gen.Optracker.funcs =
    ["f_OperationTracker_String", "f_NewOperationTracker", "f_OperationTracker_TrackNewOperation", "f_OperationTracker_Clean", "f_OperationTracker_Status", "f_OperationTracker_SetError", "f_OperationTracker_unsafePinInfo", "f_OperationTracker_Get", "f_OperationTracker_GetExists", "f_OperationTracker_GetAll", "f_OperationTracker_CleanAllDone", "f_OperationTracker_OpContext", "f_OperationTracker_Filter", "f_OperationTracker_filterOps", "f_filterOpsMap", "f_filter"] := rfl
theorem gen_inventory_Operation : Gen.Operation.funcs =
    ["f_NewOperation", "f_Operation_String", "f_Operation_Cid", "f_Operation_Context", "f_Operation_Cancel", "f_Operation_Phase", "f_Operation_SetPhase", "f_Operation_Error", "f_Operation_SetError", "f_Operation_Type", "f_Operation_Pin", "f_Operation_Timestamp", "f_Operation_Cancelled", "f_Operation_ToTrackerStatus", "f_Operation_StatusSnapshot", "f_trackerStatus", "f_TrackerStatusToOperationPhase"] := rfl


/-! ### round 8b: SEMANTIC tie of the operation tracker — decision tables regenerated from the Go syntax tree (`Gen/C05T.lean`,
    `harness/extract_c05t`), interpreted by `Model/C05T.lean`. Each theorem says: the table, executed, IS the model's function, for all
    inputs. An edit of a guard, a case, a constant or an action of the Go function breaks the theorem; a rewrite that keeps the
    decisions (reordered conjuncts, `!(a == b)` for `a != b`, if/else for early return) does not. -/

/-- `TrackNewOperation` (existing op × new type × phase → nil | cancel-and-replace | create): the regenerated table, executed on the
    model state, is `trackNew` — for every state, pin, type and initial phase. -/
theorem gen_table_trackNew (s : State) (p : PinSpec) (typ : OpType) (ph : Phase) :
    T.trackNewT Gen.Sem.trackNew s p typ ph = some (trackNew s p typ ph) := T.trackNewT_eq s p typ ph

/-- `Clean` deletes the table entry only when it is this very operation (pointer test) — `retOk`'s table update. -/
theorem gen_table_clean (s : State) (i : Nat) : T.cleanT Gen.Sem.clean s i = some (T.cleanM s i) := T.cleanT_eq s i

/-- `applyPinF`, cancelled operation received: no IPFS call, the operation record untouched, `continue` (no Clean) — `startCall`'s skip;
    otherwise phase := in-progress and exactly one call. -/
theorem gen_table_applyPinF_start (s : State) (i : Nat) (k : CallKind) (e c1 : Bool) :
    (startCall s i k).ops i =
      (if (s.ops i).cancelled then T.runOp (T.applyT Gen.Sem.applyPinF true e c1) (s.ops i)
       else T.runOp (T.beforeCall (T.applyT Gen.Sem.applyPinF false e c1)) (s.ops i)) ∧
    (startCall s i k).calls.length = s.calls.length + T.callsIn (T.applyT Gen.Sem.applyPinF (s.ops i).cancelled e c1) :=
  T.startCall_is_table s i k e c1

/-- `applyPinF` after the call returned nil: `SetPhase(Done); Cancel()`, returns false so that `opWorker` calls `Clean` = the model's `retOk`. -/
theorem gen_table_applyPinF_ok (s : State) (i : Nat) (k : Call) (c1 : Bool)
    (hf : findCall s i = some k) (hc : (s.ops i).cancelled = false) (he : k.eff = true) :
    (retOk s i).ops i = T.runOp (T.afterCall (T.applyT Gen.Sem.applyPinF false true c1)) (s.ops i) ∧
    (retOk s i).cur = (T.cleanM s i).cur ∧ T.retOf (T.applyT Gen.Sem.applyPinF false true c1) = some false :=
  ⟨(T.retOk_is_table s i k c1 hf hc he).1, (T.retOk_is_table s i k c1 hf hc he).2, (T.apply_ok c1).1⟩

/-- ... after the call returned an error and the operation is not cancelled: `SetError; Cancel`, no Clean = `retErr`. -/
theorem gen_table_applyPinF_err (s : State) (i : Nat) (k : Call)
    (hf : findCall s i = some k) (hc : (s.ops i).cancelled = false) :
    (retErr s i).ops i = T.runOp (T.afterCall (T.applyT Gen.Sem.applyPinF false false false)) (s.ops i) ∧
    (retErr s i).cur = s.cur ∧ T.retOf (T.applyT Gen.Sem.applyPinF false false false) = some true :=
  ⟨(T.retErr_is_table s i k hf hc).1, (T.retErr_is_table s i k hf hc).2, T.apply_err.1⟩

/-- ... after the call returned an error because the operation was cancelled meanwhile: nothing is written, no Clean = `reap`. -/
theorem gen_table_applyPinF_reap (s : State) (i : Nat) :
    (reap s i).ops i = T.runOp (T.afterCall (T.applyT Gen.Sem.applyPinF false false true)) (s.ops i) ∧ (reap s i).cur = s.cur ∧
    T.retOf (T.applyT Gen.Sem.applyPinF false false true) = some true :=
  ⟨(T.reap_is_table s i).1, (T.reap_is_table s i).2, T.apply_reap.1⟩

/-- `trackerStatus` (type × phase → TrackerStatus), every cell, is `opStatus`. -/
theorem gen_table_trackerStatus (o : Op) :
    T.statusT Gen.Sem.trackerStatus (T.Ty.ofOp o.typ) o.phase = some (opStatus o) := by
  rw [T.opStatus_tp]; exact T.statusT_eq o.typ o.phase

/-- `SetPhase` writes its argument, `SetError` writes `PhaseError`, `Cancel` cancels the context, `Cancelled` reads it. -/
theorem gen_table_operation_methods (env : T.Atom → Bool) (b : Bool) :
    (T.firstRow Gen.Sem.setPhase env).map T.phaseWrites = some [.setPhaseArg] ∧
    (T.firstRow Gen.Sem.setError env).map T.phaseWrites = some [.setPhase .error] ∧
    (T.firstRow Gen.Sem.cancel env).map (fun a => a.contains .cancelCtx) = some true ∧
    (T.firstRow Gen.Sem.cancelled (T.envDone b)).bind T.retOf = some b :=
  ⟨(T.setters_table env).1, (T.setters_table env).2.1, (T.setters_table env).2.2, T.cancelled_table b⟩

/-- the switch of `recoverWithPinInfo` over ALL statuses is `recAction`, and the re-issued pin is the recorded one exactly when the
    shared state could be read and has the pin (otherwise `api.PinCid`) = `recPin`. -/
theorem gen_table_recoverWith (st : Status) (a b : Bool) :
    T.recT Gen.Sem.recoverWith st a b = some ((recAction st).map (fun t => (t, t == .pin && a && b))) := T.recT_eq st a b

/-- nothing in the tables is outside the translator's vocabulary (fail-closed marker `.unknown` absent) -/
theorem gen_table_known :
    (T.known Gen.Sem.trackNew && T.known Gen.Sem.clean && T.known Gen.Sem.applyPinF && T.known Gen.Sem.trackerStatus &&
     T.known Gen.Sem.setPhase && T.known Gen.Sem.setError && T.known Gen.Sem.cancel && T.known Gen.Sem.cancelled &&
     T.known Gen.Sem.recoverWith) = true := T.tables_known

/-- the iota blocks: `PhaseError` is the zero value of `Phase`, `OperationUnknown` of `OperationType` -/
theorem gen_table_consts :
    Gen.Sem.phaseConsts = ["PhaseError", "PhaseQueued", "PhaseInProgress", "PhaseDone"] ∧
    Gen.Sem.typeConsts = ["OperationUnknown", "OperationPin", "OperationUnpin", "OperationRemote", "OperationShard"] := ⟨rfl, rfl⟩

/-- the alternative "dedupe also against an errored operation" (a realistic wrong edit of the guard) as a table: it is NOT `trackNew` —
    a failing input is an errored pin entry re-tracked: the table answers nil, the code creates a new operation. -/
def dedupeErroredTable : T.Table := [
  { lits := [(.found, true), (.typeEq, true), (.phaseIs .done, false)], acts := [.lookup, .retNil] },
  { lits := [(.found, true)], acts := [.lookup, .cancelOld, .newOp, .store, .retNew] },
  { lits := [(.found, false)], acts := [.lookup, .newOp, .store, .retNew] } ]

def erroredPinState : State :=
  { init with ops := upd init.ops 0 { cid := 0, typ := .pin, phase := .error, cancelled := true, pin := pinCid 0 }, nextId := 1,
              cur := upd init.cur 0 (some 0) }

theorem wrong_guard_table_refuted :
    ¬ (∀ s p typ ph, T.trackNewT dedupeErroredTable s p typ ph = some (trackNew s p typ ph)) := by
  intro h
  have h1 := h erroredPinState (pinCid 0) .pin .queued
  have h2 : (T.trackNewT dedupeErroredTable erroredPinState (pinCid 0) .pin .queued).map (·.2) = some none := by decide
  have h3 : (some (trackNew erroredPinState (pinCid 0) .pin .queued)).map (·.2) = some (some 1) := by decide
  rw [h1] at h2; rw [h2] at h3; exact absurd h3 (by decide)

example : T.trackNewT Gen.Sem.trackNew erroredPinState (pinCid 0) .pin .queued = some (trackNew erroredPinState (pinCid 0) .pin .queued) :=
  gen_table_trackNew _ _ _ _
example : (T.trackNewT Gen.Sem.trackNew erroredPinState (pinCid 0) .pin .queued).map (·.2) = some (some 1) := by decide
example : T.statusT Gen.Sem.trackerStatus .unpin .inProgress = some .unpinning := by decide
example : T.recT Gen.Sem.recoverWith .unexpectedlyUnpinned true true = some (some (.pin, true)) := by decide

/-! ### round 8c: the tracker's ENTRY POINTS as regenerated tables — `enqueue`, `Track` (kind decision), `Untrack`, `Recover` were
    text-snapshot only. -/

/-- `Tracker.enqueue` (nil when `TrackNewOperation` answers nil / channel chosen by the type / non-blocking send, or `ErrFullQueue`
    with `SetError; Cancel` when the channel has no room): the regenerated table, executed, is the model's `enqueue` — every
    configuration, state, pin, for both types that reach it. -/
theorem gen_table_enqueue (cfg : Cfg) (s : State) (p : PinSpec) (typ : OpType) (ht : typ ≠ .remote) :
    T.enqueueT Gen.Sem.enqueue cfg s p typ = some (enqueue cfg s p typ) := T.enqueueT_eq cfg s p typ ht

/-- `Tracker.Track`'s kind decision for EVERY pin: meta ↦ nothing; remote for this peer ↦ `TrackNewOperation(remote, in-progress)`, nil if
    ongoing, else the synchronous unpin call is issued; allocated here ↦ `enqueue(pin)`. The table executed up to the call is `track`,
    whatever the call will answer (`e`). -/
theorem gen_table_track (cfg : Cfg) (s : State) (p : PinSpec) (e : Bool) :
    T.trackT Gen.Sem.track cfg s p e = some (track cfg s p) := T.trackT_eq cfg s p e

/-- ... and after the synchronous call answered: error ↦ `Cancel; SetError`, no `Clean` (= the operation record `retErr` writes, the entry
    stays: status unpin-side error); nil ↦ `Cancel; SetPhase(Done); Clean` (= `retOk`). -/
theorem gen_table_track_sync (s : State) (i : Nat) (k : Call) (hf : findCall s i = some k) (hc : (s.ops i).cancelled = false) :
    (retErr s i).ops i = T.runOp (T.trackAfter Gen.Sem.track false) (s.ops i) ∧ (retErr s i).cur = s.cur ∧
    (T.trackAfter Gen.Sem.track false).contains .clean = false ∧
    (k.eff = true → (retOk s i).ops i = T.runOp (T.trackAfter Gen.Sem.track true) (s.ops i) ∧ (retOk s i).cur = (T.cleanM s i).cur) ∧
    (T.trackAfter Gen.Sem.track true).contains .clean = true := by
  refine ⟨?_, (T.retErr_is_table s i k hf hc).2, T.track_after_err.2, ?_, T.track_after_ok.2⟩
  · rw [(T.retErr_is_table s i k hf hc).1, T.apply_err.2, T.track_after_err.1]
  · intro he
    refine ⟨?_, (T.retOk_is_table s i k false hf hc he).2⟩
    rw [(T.retOk_is_table s i k false hf hc he).1, (T.apply_ok false).2, T.track_after_ok.1]

/-- `Untrack(c)` is `enqueue(api.PinCid(c), unpin)` and nothing else. -/
theorem gen_table_untrack (env : T.Atom → Bool) (cfg : Cfg) (s : State) (c : Nat) :
    T.firstRow Gen.Sem.untrack env = some [.retEnqueueUnpinCid] ∧
    untrack cfg s c = enqueue cfg { s with shared := upd s.shared c none, failed := upd s.failed c false } (pinCid c) .unpin :=
  ⟨rfl, rfl⟩

/-- `Recover(c)` hands `recoverWithPinInfo` the table entry's status when there is one, else `Status(c)`: the model's `recover`. -/
theorem gen_table_recover (cfg : Cfg) (s : State) (c : Nat) :
    T.recoverT Gen.Sem.recover cfg s c = some (recover cfg s c) := T.recoverT_eq cfg s c

/-- `Tracker.Status(c)` — the function every clause reads — as a regenerated decision tree (table entry / state unreadable / not in the
    pinset / meta / remote / `PinLsCid` failed / daemon says unpinned / else the daemon's status): executed on ANY model state, with the
    daemon's reads working or not, it is the model's `statusR` (= `statusOf` when they work). -/
theorem gen_table_status (s : State) (ls : Bool) (c : Nat) :
    T.statusTbl Gen.Sem.status s ls c = some (statusR s ls c) ∧ T.statusTbl Gen.Sem.status s true c = some (statusOf s c) := by
  refine ⟨T.statusTbl_eq s ls c, ?_⟩
  rw [T.statusTbl_eq, statusR_true]

/-- ... and when the shared state cannot be read (outside the model's runs) a cid without table entry reads cluster_error — an error
    status, never a healthy one; `addError` is `Status := cluster_error`. -/
theorem gen_table_status_stateErr (s : State) (ls : Bool) (c : Nat) (a b : Bool) (h : s.cur c = none) (hab : (a && b) = false)
    (hp : ∃ p, s.shared c = some p) (env : T.Atom → Bool) :
    T.statusTbl Gen.Sem.status s ls c a b = some .clusterError ∧
    T.firstRow Gen.Sem.addError env = some [.setStatus .clusterError, .retVoid] :=
  ⟨T.statusTbl_stateErr s ls c a b h hab hp, T.addError_table env⟩

/-- `RecoverAll`: a failed listing is RETURNED as an error without entering the loop (fix aa42f84), else the loop and `resp, nil`; the loop
    with the regenerated body — `recoverWithPinInfo` on the listed entry, leave with the error at the first one that fails, else next —
    is the model's `raLoop`, for every listing (stale or not), state and activity in between. -/
theorem gen_table_recoverAll (cfg : Cfg) (L : Nat → Option Status) (s : State) (items : List (List Ev × Nat)) :
    T.raLoopT Gen.Sem.recoverAllBody cfg L s items = some (raLoop cfg L s items) ∧
    T.firstRow Gen.Sem.recoverAll (T.envErr false) = some [.listAll, .retErr] ∧
    T.firstRow Gen.Sem.recoverAll (T.envErr true) = some [.listAll, .forEach, .retNil] :=
  ⟨T.raLoopT_eq cfg L items s, T.recoverAll_outer.1, T.recoverAll_outer.2⟩

/-- `localStatus` — the listing `StatusAll` and `RecoverAll` start from — per pin of the pinset: meta ↦ sharded, remote ↦ remote, present among
    the daemon's pins OF THE PIN'S OWN MODE ↦ the daemon's entry, else unexpectedly_unpinned: for a cid without table entry that is the
    model's `statusAllOf`, on every state; meta / remote entries are left out without `incExtra` or when the filter does not match. -/
theorem gen_table_localStatus (s : State) (c : Nat) (p : PinSpec) (hc : s.cur c = none) (hs : s.shared c = some p)
    (k : Kind) (b : Bool) (fm : Status → Bool) (hk : k ≠ .here) :
    T.localT Gen.Sem.localBody p.kind (heldAs s c p.mode) true (fun _ => true) = some (statusAllOf s c) ∧
    T.localT Gen.Sem.localBody k b false fm = some none ∧ T.localT Gen.Sem.localBody k b true (fun _ => false) = some none :=
  ⟨T.localT_eq s c p hc hs, (T.localT_skips k b fm hk).1, (T.localT_skips k b fm hk).2⟩

/-- `statusAll(ctx, TrackerStatusUndefined)` — what `RecoverAll` walks: `localStatus` (extras included), THEN the operation table laid over it, THEN the
    filter; a failed `localStatus` lists nothing. Per cid that is the model's `listingR` (= `statusAllOf` when the daemon's reads work), on every state. -/
theorem gen_table_statusAll (s : State) (ls : Bool) (c : Nat) :
    T.statusAllT Gen.Sem.statusAll Gen.Sem.statusAllOverlay Gen.Sem.statusAllFilter s ls (fun _ => true) c = some (listingR s ls c) :=
  T.statusAllT_eq s ls c

theorem gen_table_known_c :
    (T.known Gen.Sem.enqueue && T.known Gen.Sem.track && T.known Gen.Sem.untrack && T.known Gen.Sem.recover &&
     T.known Gen.Sem.status && T.known Gen.Sem.addError && T.known Gen.Sem.recoverAll && T.known Gen.Sem.recoverAllBody &&
     T.known Gen.Sem.localBody && T.known Gen.Sem.statusAll && T.known Gen.Sem.statusAllOverlay && T.known Gen.Sem.statusAllFilter) = true :=
  T.tables_known_c

example : T.statusAllT Gen.Sem.statusAll Gen.Sem.statusAllOverlay Gen.Sem.statusAllFilter k06Run true (fun _ => true) 0
    = some (some .unexpectedlyUnpinned) := by decide
example : T.statusAllT Gen.Sem.statusAll Gen.Sem.statusAllOverlay Gen.Sem.statusAllFilter k06Run true (fun st => st == .pinned) 0
    = some none := by decide

example : T.localT Gen.Sem.localBody .here false true (fun _ => true) = some (some .unexpectedlyUnpinned) := by decide

example : T.statusTbl Gen.Sem.status k06Run true 0 = some .pinError := by decide
example : T.statusTbl Gen.Sem.status k06Run false 0 = some .clusterError := by decide

/-- a realistic wrong edit of `enqueue` as a table: the full-queue branch returns `ErrFullQueue` but does not `SetError` (the refused
    operation stays `pin_queued` for ever — `full_queue_reported` fails). It is NOT `enqueue`: queue size 0, first Track. -/
def noSetErrorTable : T.Table := [
  { lits := [(.opNil, true)], acts := [.trackNewQ, .retNil] },
  { lits := [(.opNil, false), (.typIs .pin, true), (.sendOk, true)], acts := [.trackNewQ, .chPin, .send, .retNil] },
  { lits := [(.opNil, false), (.typIs .pin, true), (.sendOk, false)], acts := [.trackNewQ, .chPin, .errFull, .cancel, .retErr] },
  { lits := [(.opNil, false), (.typIs .unpin, true), (.sendOk, true)], acts := [.trackNewQ, .chUnpin, .send, .retNil] },
  { lits := [(.opNil, false), (.typIs .unpin, true), (.sendOk, false)], acts := [.trackNewQ, .chUnpin, .errFull, .cancel, .retErr] } ]

def herePin0 : PinSpec := { cid := 0, kind := .here, mode := .recursive, tag := 1 }

theorem enqueue_without_setError_refuted :
    ¬ (∀ cfg s p typ, typ ≠ .remote → T.enqueueT noSetErrorTable cfg s p typ = some (enqueue cfg s p typ)) := by
  intro h
  have h1 := h { cap := 0, workers := 1, ncids := 1 } init herePin0 .pin (by decide)
  have h2 : (T.enqueueT noSetErrorTable { cap := 0, workers := 1, ncids := 1 } init herePin0 .pin).map (fun r => statusOf r.1 0)
      = some .pinQueued := by decide
  have h3 : (some (enqueue { cap := 0, workers := 1, ncids := 1 } init herePin0 .pin)).map (fun r => statusOf r.1 0)
      = some .pinError := by decide
  rw [h1] at h2; rw [h2] at h3; exact absurd h3 (by decide)

/-- the other wrong edit: the channel is chosen with the cases swapped (a pin sent to the unpin worker) -/
def swappedChanTable : T.Table := [
  { lits := [(.opNil, true)], acts := [.trackNewQ, .retNil] },
  { lits := [(.opNil, false), (.typIs .pin, true), (.sendOk, true)], acts := [.trackNewQ, .chUnpin, .send, .retNil] },
  { lits := [(.opNil, false), (.typIs .pin, true), (.sendOk, false)], acts := [.trackNewQ, .chUnpin, .errFull, .setError, .cancel, .retErr] },
  { lits := [(.opNil, false), (.typIs .unpin, true), (.sendOk, true)], acts := [.trackNewQ, .chPin, .send, .retNil] },
  { lits := [(.opNil, false), (.typIs .unpin, true), (.sendOk, false)], acts := [.trackNewQ, .chPin, .errFull, .setError, .cancel, .retErr] } ]

theorem enqueue_swapped_channel_refuted :
    ¬ (∀ cfg s p typ, typ ≠ .remote → T.enqueueT swappedChanTable cfg s p typ = some (enqueue cfg s p typ)) := by
  intro h
  have h1 := h { cap := 1, workers := 1, ncids := 1 } init herePin0 .pin (by decide)
  have h2 : (T.enqueueT swappedChanTable { cap := 1, workers := 1, ncids := 1 } init herePin0 .pin).map (fun r => r.1.pinQ) = some [] := by decide
  have h3 : (some (enqueue { cap := 1, workers := 1, ncids := 1 } init herePin0 .pin)).map (fun r => r.1.pinQ) = some [0] := by decide
  rw [h1] at h2; rw [h2] at h3; exact absurd h3 (by decide)

example : (T.enqueueT Gen.Sem.enqueue { cap := 0, workers := 1, ncids := 1 } init herePin0 .pin).map (fun r => (r.2, statusOf r.1 0))
    = some (.full, .pinError) := by decide
example : (T.enqueueT Gen.Sem.enqueue { cap := 1, workers := 1, ncids := 1 } init herePin0 .pin).map (fun r => (r.2, r.1.pinQ, statusOf r.1 0))
    = some (.nil, [0], .pinQueued) := by decide
example : (T.trackT Gen.Sem.track { cap := 1, workers := 1, ncids := 1 } init (pinCid 0) true).map (fun r => (r.1.calls.length, statusOf r.1 0))
    = some (1, .remote) := by decide
example : (T.trackT Gen.Sem.track { cap := 1, workers := 1, ncids := 1 } init { herePin0 with kind := .sharded } true).map
    (fun r => (r.1.calls.length, statusOf r.1 0)) = some (0, .sharded) := by decide
example : T.recoverT Gen.Sem.recover { cap := 1, workers := 1, ncids := 1 } erroredPinState 0
    = some (recover { cap := 1, workers := 1, ncids := 1 } erroredPinState 0) := gen_table_recover _ _ _

/-! ### round 8c, direction 2: OTHER overlaps than Recover × Untrack — `Track` overlapping `Recover` / `RecoverAll`, and `StatusAll`
    (pinset read, then `PinLs`, then the operation table) overlapping a worker's completion. Harmless, with proofs; the one way an
    overlapping Track IS undone for a while (stale unpin_error) ends in an error status and is repaired by the next round. -/

/-- a switch acting on a STALE status that calls for a pin re-issues the pin the pinset records NOW (the pin is read at switch time) -/
theorem stale_pin_switch_uses_current_pin (cfg : Cfg) (s : State) (c : Nat) (p : PinSpec) (st : Status)
    (hs : s.shared c = some p) (ha : recAction st = some .pin) : recoverWith cfg s c st = enqueue cfg s p .pin := by
  cases st <;> simp [recAction] at ha <;> simp [recoverWith, recPin, hs]

theorem trackNew_again (s : State) (p : PinSpec) (typ : OpType) :
    trackNew (trackNew s p typ .queued).1 p typ .queued = ((trackNew s p typ .queued).1, none) := by
  unfold trackNew
  cases h : s.cur p.cid with
  | none => simp [newOp, upd]
  | some i =>
    by_cases hg : (s.ops i).typ = typ ∧ (s.ops i).phase ≠ .error ∧ (s.ops i).phase ≠ .done
    · simp [hg, h]
    · simp [hg, newOp, cancelOp, upd]

/-- `Track(p)` (allocated here) overlapping a `Recover` / `RecoverAll` whose status read came first: while the Track has done its
    `TrackNewOperation` (even before its channel send), the stale switch — any status that calls for a pin — changes NOTHING: it is
    deduplicated against the Track's operation, no second operation, no second send. For every configuration and state of the interleaved system. -/
theorem track_overlapping_recover_harmless (cfg : Cfg) (t : StateC) (p : PinSpec) (k : Nat) (st : Status)
    (hk : p.kind = .here) (hr : (stepC cfg t (.trackBegin p)).reads[k]? = some (p.cid, st)) (ha : recAction st = some .pin) :
    (stepC cfg (stepC cfg t (.trackBegin p)) (.recSwitch k)).s = (stepC cfg t (.trackBegin p)).s ∧
    (stepC cfg (stepC cfg t (.trackBegin p)) (.recSwitch k)).sends = (stepC cfg t (.trackBegin p)).sends := by
  have hsh : (stepC cfg t (.trackBegin p)).s =
      (trackNew { t.s with shared := upd t.s.shared p.cid (some p), failed := upd t.s.failed p.cid false } p .pin .queued).1 := by
    simp only [stepC, hk, if_true, pushSend, enqBegin]
    split <;> rfl
  have hrec : recPin (stepC cfg t (.trackBegin p)).s p.cid = p := by
    rw [hsh]; simp [recPin, trackNew_shared, upd]
  have hdup : enqBegin (stepC cfg t (.trackBegin p)).s p .pin = ((stepC cfg t (.trackBegin p)).s, none) := by
    rw [hsh]; exact trackNew_again _ p .pin
  generalize stepC cfg t (.trackBegin p) = t' at *
  simp [stepC, hr, ha, hrec, hdup, pushSend]

theorem enqueue_pin_again (cfg : Cfg) (s : State) (p : PinSpec) (hn : (enqueue cfg s p .pin).2 = .nil) :
    enqueue cfg (enqueue cfg s p .pin).1 p .pin = ((enqueue cfg s p .pin).1, .nil) := by
  have h2 := trackNew_again s p .pin
  unfold enqueue at hn ⊢
  rcases h : trackNew s p .pin .queued with ⟨s1, o⟩
  rw [h] at hn h2
  cases o with
  | none => simp only [] at h2 ⊢; simp [h2]
  | some i =>
    simp only [] at hn h2 ⊢
    by_cases hq : s1.pinQ.length < cfg.cap
    · simp only [hq, if_true] at hn ⊢
      have h3 : trackNew { s1 with pinQ := s1.pinQ ++ [i] } p .pin .queued = ({ s1 with pinQ := s1.pinQ ++ [i] }, none) := by
        have := h2
        unfold trackNew at this ⊢
        revert this
        cases s1.cur p.cid with
        | none => simp [newOp]
        | some j =>
          by_cases hg : (s1.ops j).typ = .pin ∧ (s1.ops j).phase ≠ .error ∧ (s1.ops j).phase ≠ .done
          · simp [hg]
          · simp [hg, newOp, cancelOp]
      simp [h3]
    · simp [hq] at hn

/-- the base-model reading: right after a `Track(p)` that returned nil, a switch on a stale pin-calling status is a no-op -/
theorem stale_pin_switch_after_track_noop (cfg : Cfg) (s0 : State) (p : PinSpec) (st : Status)
    (hk : p.kind = .here) (hn : (track cfg s0 p).2 = .nil) (ha : recAction st = some .pin) :
    recoverWith cfg (track cfg s0 p).1 p.cid st = ((track cfg s0 p).1, .nil) := by
  have hs : (track cfg s0 p).1.shared p.cid = some p := by
    rw [track_shared]; simp [upd]
  rw [stale_pin_switch_uses_current_pin cfg _ _ p st hs ha]
  have ht : track cfg s0 p = enqueue cfg { s0 with shared := upd s0.shared p.cid (some p), failed := upd s0.failed p.cid false } p .pin := by
    simp [track, hk]
  rw [ht] at hn ⊢
  exact enqueue_pin_again cfg _ p hn

example : (stepC k06Cfg { initC with reads := [(0, .unexpectedlyUnpinned)] } (.trackBegin (k06Pin .direct))).reads[0]?
    = some ((k06Pin .direct).cid, .unexpectedlyUnpinned) := by decide

/-- the overlap that DOES undo a Track for a while: `Recover(c)` reads unpin_error (a failed Untrack), `Track(c)` runs to completion (the
    daemon pins c), then the switch acts on the stale unpin_error and un-pins c again. The end is quiescent with the pinset holding c
    and the daemon not — but `Status` = pin_error (an error status: the first sentence holds), and the next recover round re-pins c. -/
theorem stale_unpin_switch_after_track_is_error_status_and_heals :
    let t := runC k06Cfg initC [.untrackBegin 0, .send 0, .base .deqUnpin, .base (.retErr 0), .recRead 0,
      .trackBegin (k06Pin .direct), .send 0, .base .deqPin, .base (.effect 1), .base (.retOk 1),
      .recSwitch 0, .send 0, .base .deqUnpin, .base (.effect 2), .base (.retOk 2)]
    let s2 := run k06Cfg t.s [.recover 0, .deqPin, .effect 3, .retOk 3]
    t.sends = [] ∧ t.reads = [] ∧ quiescent 1 (observe t.s) = true ∧ t.s.shared 0 = some (k06Pin .direct) ∧ t.s.daemon 0 = none ∧
    statusOf t.s 0 = .pinError ∧ matchOrError (observe t.s) 0 = true ∧
    quiescent 1 (observe s2) = true ∧ s2.daemon 0 = some (.direct, 1) ∧ daemonMatches (observe s2) 0 = true := by
  decide

/-- `StatusAll` is three reads: the pinset and the daemon's pins (`localStatus`) first, the operation table (`GetAll`) last. A listing
    torn between states `s1` (pinset, daemon) and `s2` (table): -/
def tornListing (s1 s2 : State) (c : Nat) : Option Status :=
  match s2.cur c with
  | some i => some (opStatus (s2.ops i))
  | none => statusAllOf { s1 with cur := fun _ => none } c

/-- a worker completing a pin between the two reads makes the listing say unexpectedly_unpinned for a cid that is pinned (neither state
    lists that); a `RecoverAll` on the torn listing re-pins the RECORDED pin: quiescent again, the daemon matches, status pinned. -/
theorem torn_statusAll_repin_harmless :
    let s1 := run k06Cfg init [.track (k06Pin .direct), .deqPin]
    let s2 := run k06Cfg s1 [.effect 0, .retOk 0]
    let s3 := run k06Cfg (raLoop k06Cfg (tornListing s1 s2) s2 [([], 0)]).1 [.deqPin, .effect 1, .retOk 1]
    statusAllOf s1 0 = some .pinning ∧ statusAllOf s2 0 = some .pinned ∧ tornListing s1 s2 0 = some .unexpectedlyUnpinned ∧
    quiescent 1 (observe s3) = true ∧ s3.daemon 0 = some (.direct, 1) ∧ statusOf s3 0 = .pinned ∧ daemonMatches (observe s3) 0 = true := by
  decide

/-- ... and for ALL states: whatever a torn (or otherwise stale) listing says about a cid the pinset records as `p`, if it calls for a
    pin the loop's entry is `enqueue(p, pin)` — the same instruction a `Track(p)` issues; its effect on the daemon is `p`'s mode. -/
theorem torn_listing_entry_is_track (cfg : Cfg) (s1 s2 : State) (c : Nat) (p : PinSpec) (st : Status)
    (hl : tornListing s1 s2 c = some st) (hs : s2.shared c = some p) (ha : recAction st = some .pin) :
    raLoop cfg (tornListing s1 s2) s2 [([], c)] = enqueue cfg s2 p .pin := by
  simp only [raLoop, run, List.foldl, hl, stale_pin_switch_uses_current_pin cfg s2 c p st hs ha]
  rcases h : enqueue cfg s2 p .pin with ⟨a, b⟩
  cases b <;> simp

/-! ### round 8c, direction 5: the last clause (`full_queue_reported`) over WHOLE histories, for every pin kind -/

/-- `Track` of ANY pin — meta (never tracked), remote for this peer (synchronous unpin path), allocated here — satisfies `reported` on the
    model's own frame, from every state. -/
theorem full_queue_reported_track_any (cfg : Cfg) (n : Nat) (s : State) (p : PinSpec) :
    reported n { act := .track p, ret := toRetCode (track cfg s p).2, infos := [], obs := observe (track cfg s p).1 } = true := by
  cases hk : p.kind with
  | here => exact full_queue_reported_track cfg n s p hk
  | sharded => simp [reported, instrOf, hk, track, toRetCode]
  | remote =>
    simp only [reported, instrOf, hk, track, observe, statusOf]
    generalize ({ s with shared := upd s.shared p.cid (some p), failed := if Kind.remote = Kind.here then upd s.failed p.cid false else s.failed } : State) = s1
    unfold trackNew
    cases h : s1.cur p.cid with
    | none => simp [newOp, upd, toRetCode, opStatus]
    | some i =>
      by_cases hg : (s1.ops i).typ = .remote ∧ (s1.ops i).phase ≠ .error ∧ (s1.ops i).phase ≠ .done
      · simp [hg, h, toRetCode, opStatus]
      · simp [hg, newOp, cancelOp, upd, toRetCode, opStatus]

/-- the frame of an instruction of a history, as the clause reads it (none for worker / daemon events) -/
def instrFrame (cfg : Cfg) (s : State) : Ev → Option Frame
  | .track p => some { act := .track p, ret := toRetCode (track cfg s p).2, infos := [], obs := observe (track cfg s p).1 }
  | .untrack c => some { act := .untrack c, ret := toRetCode (untrack cfg s c).2, infos := [], obs := observe (untrack cfg s c).1 }
  | .recover c => some { act := .recover c, ret := toRetCode (recover cfg s c).2, infos := [], obs := observe (recover cfg s c).1 }
  | _ => none

def instrFrames (cfg : Cfg) : State → List Ev → List Frame
  | _, [] => []
  | s, e :: es => (instrFrame cfg s e).toList ++ instrFrames cfg (step cfg s e) es

theorem instrFrames_reported (cfg : Cfg) (n : Nat) (es : List Ev) : ∀ s, Reachable cfg s → (instrFrames cfg s es).all (reported n) = true := by
  induction es with
  | nil => intro s _; rfl
  | cons e es ih =>
    intro s hr
    have hrest := ih (step cfg s e) (.step e hr)
    simp only [instrFrames, List.all_append, hrest, Bool.and_true]
    cases e <;> simp only [instrFrame, Option.toList, List.all_cons, List.all_nil, Bool.and_true]
    · exact full_queue_reported_track_any cfg n s _
    · exact full_queue_reported_untrack cfg n s _
    · exact full_queue_reported_recover cfg n s _ hr

/-- For EVERY history of instructions, worker steps, daemon effects / answers / errors and lost pins, from the initial state: EVERY instruction
    of it satisfies the last clause (`full_queue_reported` of `Spec.clauses`, as the driver evaluates it) on the observation at its return —
    nil ⇒ queued / in progress (or remote / not tracked), ErrFullQueue ⇒ an error status. (Composition of the per-instruction theorems; the
    observation is the one at the instruction's return, before the workers move on.) -/
theorem history_full_queue_reported (cfg : Cfg) (n : Nat) (es : List Ev) :
    (instrFrames cfg init es).all (reported n) = true := instrFrames_reported cfg n es init .init

example : ((instrFrames k06Cfg init [.track (k06Pin .direct), .track { cid := 0, kind := .here, mode := .recursive, tag := 2 }, .deqPin,
    .untrack 0, .track (pinCid 0), .recover 0]).map (fun f => (f.ret, f.obs.status 0))) =
    [(.nil, .pinQueued), (.nil, .pinQueued), (.nil, .unpinQueued), (.nil, .remote), (.nil, .remote)] := by decide
example : ((instrFrames { cap := 0, workers := 1, ncids := 1 } init [.track (k06Pin .direct), .recover 0]).map (fun f => (f.ret, f.obs.status 0))) =
    [(.full, .pinError), (.full, .pinError)] := by decide

end CV.C05
