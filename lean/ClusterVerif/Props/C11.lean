import ClusterVerif.Lemmas.C11
import ClusterVerif.Gen.C11Send
import ClusterVerif.Gen.C11Client
/-!
C11 — property theorems.

`Gen.routes`, `(Gen.chain false)`, `Gen.handlerInfo` … are regenerated from api/rest/restapi.go on every run;
the `decide` theorems below re-check them against the frozen expectation of the Spec.
-/
namespace CV.C11
open CV

/-! ### the translated facts against the frozen expectation (whole-table `decide`) -/

/-- every route of `routes()` has a frozen expectation with the same name, method and pattern, in the same order -/
theorem routes_match_expectations :
    Gen.routes.map (fun r => (r.name, r.method, r.pat)) = expectations.map (fun e => (e.name, e.method, e.pat)) := by
  decide

/-- … and its handler function is the one that implements the expected operation shape -/
theorem routes_aligned : aligned Gen.routes expectations = true := by decide

/-- no two routes share method and pattern; route names are unique -/
theorem routes_distinct :
    (Gen.routes.map (fun r => (r.method, r.pattern))).Nodup ∧ (Gen.routes.map (·.name)).Nodup := by
  decide

/-- the RPC names a shape stands for, in the order the handler's source mentions them -/
def shapeRpcs : Shape → List String
  | .unit op | .cidArg op | .pidVar op | .pidBody op | .pin op | .unpin op | .pinPath op | .unpinPath op
  | .nameVar op | .typeFilter op => [op]
  | .localUnit op opl | .localCid op opl | .statusFilter op opl => [opl, op]
  | .add => []

/-- the handler function of every route calls exactly the RPC method(s) its route names -/
theorem handlers_call_expected_rpcs :
    (Gen.routes.zip expectations).all (fun (rt, e) =>
      (Gen.handlerInfo.find? (·.1 == rt.handler)).map (·.2.1) == some (shapeRpcs e.shape)) = true := by
  decide

/-- which parse helper each shape goes through -/
def shapeHelpers : Shape → List String
  | .cidArg _ | .localCid _ _ | .pin _ | .unpin _ => ["parseCidOrError"]
  | .pinPath _ | .unpinPath _ => ["parsePinPathOrError"]
  | .pidVar _ => ["parsePidOrError"]
  | .add => ["AddParamsFromQuery", "AddMultipartHTTPHandler"]
  | _ => []

theorem handlers_use_expected_parsers :
    (Gen.routes.zip expectations).all (fun (rt, e) =>
      (Gen.handlerInfo.find? (·.1 == rt.handler)).map (·.2.2) == some (shapeHelpers e.shape)) = true := by
  decide

/-- the router is built with StrictSlash(true) and the API's own JSON 404 and 405 handlers (each a single
    sendResponse with an error: no RPC) -/
theorem router_setup :
    Gen.strictSlash = true ∧
    Gen.notFoundHandler = "notFoundHandler" ∧ Gen.notFoundStatus = 404 ∧
    Gen.methodNotAllowedHandler = some "methodNotAllowedHandler" ∧ Gen.methodNotAllowedStatus = some 405 ∧
    (Gen.handlerInfo.find? (·.1 == "notFoundHandler")).map (·.2.1) = some [] ∧
    (Gen.handlerInfo.find? (·.1 == "methodNotAllowedHandler")).map (·.2.1) = some [] := by
  decide

/-- the authentication wrapper is outermost: only pass-through layers (access log, tracing) sit outside
    it, and the CORS layer and the router are inside it -/
def authOutermost (chain : List Layer) : Bool :=
  (chain.takeWhile (· != "basicAuth")).all (fun l => l == "logging" || l == "ochttp") &&
  chain.contains "basicAuth"

/-- … whatever cfg.Tracing is (the chain is extracted per value of cfg.Tracing) -/
theorem auth_outermost : ∀ tracing : Bool, authOutermost (Gen.chain tracing) = true := by decide

theorem chain_shape :
    (Gen.chain false) = ["logging", "basicAuth", "cors", "router"] ∧
    (Gen.chain true) = ["logging", "ochttp", "basicAuth", "cors", "router"] := by decide

/-! ### auth_gate: for every chain with the wrapper outermost, every table, every request -/

theorem auth_gate_serve : ∀ (chain : List String) (t : List Route) (r : Req),
    authOutermost chain = true → authorized r = false → (serve chain t r).ops = []
  | [], _, _, _, _ => rfl
  | l :: ls, t, r, ho, hna => by
    unfold serve
    by_cases hb : l = "basicAuth"
    · subst hb; simp [hna]
    · have hlog : (l == "logging" || l == "ochttp") = true := by
        simp only [authOutermost, List.takeWhile_cons] at ho
        have hne : (l != "basicAuth") = true := by simp [hb]
        simp only [hne, if_true, List.all_cons, Bool.and_eq_true] at ho
        exact ho.1.1
      have ho' : authOutermost ls = true := by
        simp only [authOutermost, List.takeWhile_cons] at ho
        have hne : (l != "basicAuth") = true := by simp [hb]
        simp only [hne, if_true, List.all_cons, Bool.and_eq_true, List.contains_cons] at ho
        simp only [authOutermost, Bool.and_eq_true]
        refine ⟨ho.1.2, ?_⟩
        have hbb : (("basicAuth" : String) == l) = false := by
          simp; exact fun h => hb h.symm
        simpa [hbb] using ho.2
      have hr : (l == "router") = false := by
        rcases (Bool.or_eq_true _ _).mp hlog with h | h <;> (have := eq_of_beq h; subst this; decide)
      have hc : (l == "cors") = false := by
        rcases (Bool.or_eq_true _ _).mp hlog with h | h <;> (have := eq_of_beq h; subst this; decide)
      have hb' : (l == "basicAuth") = false := by simp [hb]
      simp only [hr, hb', hc, hlog, if_true, Bool.false_eq_true, if_false]
      exact auth_gate_serve ls t r ho' hna

/-- **auth_gate.** When credentials are configured, a request without a valid pair performs nothing —
    whatever the path, the method, the route table — provided only that the wrapper is outermost. -/
theorem auth_gate (chain : List String) (t : List Route) (r : Req)
    (ho : authOutermost chain = true) (hc : r.creds = true) (ha : r.auth ≠ .right) :
    (handle chain t r).ops = [] := by
  have hna : authorized r = false := by
    unfold authorized; simp [hc, ha]
  unfold handle headAdjust
  split <;> simp [auth_gate_serve chain t r ho hna]

/-- … in particular for the chain and the table of this tree, with or without tracing -/
theorem auth_gate_gen (tracing : Bool) (r : Req) (hc : r.creds = true) (ha : r.auth ≠ .right) :
    (handle (Gen.chain tracing) Gen.routes r).ops = [] :=
  auth_gate _ _ r (auth_outermost tracing) hc ha

/-! ### the decision of `basicAuthHandler` (shape extracted into `Gen.authLogic`) -/

/-- nil credentials pass through, the ok flag of `r.BasicAuth()` is checked, both refusals are 401 -/
theorem auth_logic_shape :
    Gen.authLogic.nilPassThrough = true ∧ Gen.authLogic.okChecked = true ∧
    Gen.authLogic.noHeaderStatus = 401 ∧ Gen.authLogic.mismatchStatus = 401 := by decide

/-- **the wrapper accepts exactly the configured pairs**: for every credentials map and every header, the
    extracted logic lets a request through iff it carries a well-formed Basic header whose user AND password
    are one configured pair -/
theorem authOk_exact (creds : List (String × String)) (h : AuthHeader) :
    authOk Gen.authLogic creds h = true ↔ ∃ u p, h = .basic u p ∧ (u, p) ∈ creds := by
  cases h with
  | none => simp [authOk, Gen.authLogic]
  | malformed => simp [authOk, Gen.authLogic]
  | basic user pass =>
    simp only [authOk, Gen.authLogic, AuthCond.eval, List.any_eq_true, Bool.and_eq_true, beq_iff_eq]
    constructor
    · rintro ⟨⟨u, p⟩, hm, hu, hp⟩
      simp only at hu hp
      subst hu; subst hp
      exact ⟨u, p, rfl, hm⟩
    · rintro ⟨u, p, heq, hm⟩
      injection heq with h1 h2
      subst h1; subst h2
      exact ⟨(user, pass), hm, rfl, rfl⟩

/-- so the extracted logic classifies every header as the statement's notion of valid credentials does -/
theorem auth_class_agrees (creds : List (String × String)) (h : AuthHeader) :
    authClass Gen.authLogic creds h = specAuthClass creds h := by
  have hv : authOk Gen.authLogic creds h = validCreds creds h := by
    cases hb : validCreds creds h with
    | true =>
      rw [authOk_exact]
      cases h with
      | basic u p => exact ⟨u, p, rfl, by simpa [validCreds] using hb⟩
      | none => simp [validCreds] at hb
      | malformed => simp [validCreds] at hb
    | false =>
      cases ho : authOk Gen.authLogic creds h with
      | false => rfl
      | true =>
        obtain ⟨u, p, rfl, hm⟩ := (authOk_exact creds h).mp ho
        simp [validCreds, hm] at hb
  unfold authClass specAuthClass
  rw [hv]
  cases h <;> rfl
/-- the gate in concrete terms: any configured pairs, any header that is not one of them, any path, method, table -/
theorem auth_gate_concrete (tracing : Bool) (creds : List (String × String)) (hd : AuthHeader) (t : List Route) (r : Req)
    (hc : r.creds = true) (ha : r.auth = authClass Gen.authLogic creds hd) (hv : validCreds creds hd = false) :
    (handle (Gen.chain tracing) t r).ops = [] := by
  refine auth_gate (Gen.chain tracing) t r (auth_outermost tracing) hc ?_
  rw [ha, auth_class_agrees]
  unfold specAuthClass
  rw [hv]
  cases hd <;> simp

/-! ### the main theorem -/

/-- **Main theorem.** For every route table that lines up with the expectations (in particular
    `Gen.routes`, by `routes_aligned`) and **every request, with no exception**, the model's response
    satisfies every clause of the property (the former hypotheses ¬K07, ¬K20, ¬K21 are gone with the repairs). -/
theorem model_holds_table (t : List Route) (hal : aligned t expectations = true) (r : Req) :
    holds r (handle (Gen.chain false) t r) = true := by
  cases ha : authorized r with
  | false => rw [handle_unauthorized t r ha]; exact holds_unauthorized ha
  | true =>
  cases hp : preflight r with
  | true => rw [handle_preflight t r ha hp]; exact holds_preflight ha hp
  | false =>
  rcases router_cases t hal r ha hp with
    ⟨hn, b, hb, ho⟩ | ⟨hn, hh, e, h, he, hadr, hsh, ho⟩ | ⟨hnil, ho⟩ | ⟨hnil, hany, ho⟩
  · rw [ho]; exact holds_redirect ha hp hn
  · rw [ho]
    exact holds_found ha hp hh hn he hadr (handler_ok h e r hsh) (wellShaped_handler h r e.pat)
  · rw [ho]; exact holds_unknown ha hp hnil (Or.inl rfl) (fun _ => rfl)
  · rw [ho]
    exact holds_unknown ha hp hnil (Or.inr rfl) (fun _ => rfl)

/-- … for the route table and the handler chain of this tree -/
theorem model_holds (r : Req) :
    holds r (handle (Gen.chain false) Gen.routes r) = true :=
  model_holds_table Gen.routes routes_aligned r

/-- … and whatever cfg.Tracing is (the ochttp layer passes requests through, outside the credential check) -/
theorem model_holds_tracing (tracing : Bool) (r : Req) :
    holds r (handle (Gen.chain tracing) Gen.routes r) = true := by
  rw [handle_any_tracing]; exact model_holds r

/-! ### the clauses one by one, each with only the hypothesis it needs -/

/-- **fail_closed.** A request that is malformed for every route it addresses (or addresses none) is
    answered 4xx and performs nothing.  No hypothesis about the options is needed any more (K21 repaired). -/
theorem fail_closed (r : Req) (ha : authorized r = true) (hp : preflight r = false)
    (hc : nonCanonical r = false)
    (hbad : ∀ e ∈ expectations, addresses e r = true → isMalformed (verdict e r) = true) :
    refused (handle (Gen.chain false) Gen.routes r) = true := by
  rcases router_cases Gen.routes routes_aligned r ha hp with
    ⟨hn, _, _, _⟩ | ⟨_, _, e, h, he, hadr, hsh, ho⟩ | ⟨_, ho⟩ | ⟨_, _, ho⟩
  · rw [hn] at hc; exact absurd hc (by decide)
  · rw [ho]
    have hm := hbad e he hadr
    have hcf := handler_ok h e r hsh
    cases hv : verdict e r with
    | malformed => rw [hv] at hcf; simpa [conforms] using hcf
    | perform w => rw [hv] at hm; simp [isMalformed] at hm
    | either w => rw [hv] at hm; simp [isMalformed] at hm
  · rw [ho]; unfold headAdjust; split <;> decide
  · rw [ho]; unfold headAdjust; split <;> decide

/-- **faithful.** A request that is well-formed for a route it addresses yields exactly the operation
    that one of the routes it addresses names, with exactly the CID / path / options it carried (or, if
    it is malformed for that one, the refusal).  Unconditional since the repairs of K07 and K21. -/
theorem faithful (r : Req) (ha : authorized r = true) (hp : preflight r = false)
    (hc : nonCanonical r = false)
    (hgood : ∃ e ∈ expectations, addresses e r = true ∧ isMalformed (verdict e r) = false) :
    ∃ e ∈ expectations, addresses e r = true ∧ conforms (verdict e r) (handle (Gen.chain false) Gen.routes r) = true := by
  have hne : expectations.filter (fun e => addresses e r) ≠ [] := by
    obtain ⟨e, he, hadr, _⟩ := hgood
    intro hnil
    have : e ∈ expectations.filter (fun e => addresses e r) := by simp [List.mem_filter, he, hadr]
    rw [hnil] at this; simp at this
  rcases router_cases Gen.routes routes_aligned r ha hp with
    ⟨hn, _, _, _⟩ | ⟨_, _, e, h, he, hadr, hsh, ho⟩ | ⟨hnil, _⟩ | ⟨hnil, _, _⟩
  · rw [hn] at hc; exact absurd hc (by decide)
  · refine ⟨e, he, hadr, ?_⟩
    rw [ho]
    exact handler_ok h e r hsh
  · exact absurd hnil hne
  · exact absurd hnil hne

/-- **single_document.** Every response body is a single JSON document (with the HTTP-defined
    exceptions spelled out in `singleDocument`), unconditionally; in particular it holds for
    every combination of invalid parts and options (the F07 repair). -/
theorem single_document (r : Req) :
    singleDocument r (handle (Gen.chain false) Gen.routes r) = true := by
  cases ha : authorized r with
  | false => rw [handle_unauthorized _ r ha]; exact holds_single (holds_unauthorized ha)
  | true =>
  cases hp : preflight r with
  | true => rw [handle_preflight _ r ha hp]; exact holds_single (holds_preflight ha hp)
  | false =>
  rcases router_cases Gen.routes routes_aligned r ha hp with
    ⟨hn, b, hb, ho⟩ | ⟨hn, hh, e, h, he, hadr, hsh, ho⟩ | ⟨hnil, ho⟩ | ⟨hnil, hany, ho⟩
  · rw [ho]; exact holds_single (holds_redirect ha hp hn)
  · rw [ho]
    have hw := wellShaped_handler h r e.pat
    unfold singleDocument
    simp only [hp, hn, Bool.false_and, Bool.false_eq_true, if_false]
    unfold wellShaped at hw
    by_cases h204 : (runHandler h r e.pat).status = 204
    · simp_all
    · simp_all
  · rw [ho]; exact holds_single (holds_unknown ha hp hnil (Or.inl rfl) (fun _ => rfl))
  · rw [ho]
    exact holds_single (holds_unknown ha hp hnil (Or.inr rfl) (fun _ => rfl))

/-- Unconditionally (all requests, including the recorded deviations): never more than one JSON
    document, never more than one cluster operation. -/
theorem at_most_one (r : Req) :
    let o := handle (Gen.chain false) Gen.routes r
    (o.body = .docs 0 ∨ o.body = .docs 1 ∨ o.body = .junk 0) ∧ o.ops.length ≤ 1 := by
  intro o
  show (((handle (Gen.chain false) Gen.routes r).body = .docs 0 ∨ (handle (Gen.chain false) Gen.routes r).body = .docs 1 ∨
      (handle (Gen.chain false) Gen.routes r).body = .junk 0) ∧ (handle (Gen.chain false) Gen.routes r).ops.length ≤ 1)
  cases ha : authorized r with
  | false => rw [handle_unauthorized _ r ha]; unfold headAdjust; split <;> simp
  | true =>
  cases hp : preflight r with
  | true => rw [handle_preflight _ r ha hp]; unfold headAdjust; split <;> simp
  | false =>
  rcases router_cases Gen.routes routes_aligned r ha hp with
    ⟨hn, b, hb, ho⟩ | ⟨hn, hh, e, h, he, hadr, hsh, ho⟩ | ⟨hnil, ho⟩ | ⟨hnil, hany, ho⟩
  · rw [ho]; unfold headAdjust
    rcases hb with rfl | rfl <;> (split <;> simp)
  · rw [ho]
    refine ⟨?_, handler_ops_le_one h r e.pat⟩
    have hw := wellShaped_handler h r e.pat
    unfold wellShaped at hw
    by_cases h204 : (runHandler h r e.pat).status = 204
    · simp_all
    · simp_all
  · rw [ho]; unfold headAdjust; split <;> simp
  · rw [ho]; unfold headAdjust; split <;> simp

/-! ### the bundled client -/

/-- **query round trip.** `FromQuery (ToQuery o) = o` up to the representation of the metadata map
    (the empty key is never sent). -/
theorem client_query_roundtrip (o : Opts) : fromQuery (toQuery o) (toQueryMeta o) = some (normOpts o) :=
  query_roundtrip o

/-- arguments a client method can be given: CIDs and peer IDs are typed values (their text decodes),
    no path segment / metric name is empty, a dot segment, or the word `recover` (which
    `/pins/{hash}/recover` shadows) -/
def callWf : Call → Prop
  | .peerAdd s => s.pid.isSome
  | .peerRm s => segOK s ∧ s.pid.isSome
  | .pin s _ | .unpin s | .allocation s | .status s _ | .recover s _ => segOK s ∧ s.cid.isSome
  | .metrics s => segOK s
  | .pinPath p _ | .unpinPath p => ∀ s ∈ p, segOK s
  | .statusAll m _ => m < 8192 ∧ m % 2 = 0      -- a filter made of the known status bits (bits 1..12)
  | _ => True

/-- (K23 repaired) `TrackerStatus.String` followed by `TrackerStatusFromString` is the identity on every filter
    made of the known status bits -/
theorem filter_roundtrip (m : Nat) (hlt : m < 8192) (heven : m % 2 = 0) : widen m = m := widen_known m hlt heven

/-- **client_server_inverse.** For every client method and every well-formed argument, under every
    credential situation and every answer of the cluster: the request the client builds is routed (over
    the generated table, through the generated chain) to the handler that performs exactly the
    operation the method names with exactly the arguments given, and the client returns the server's
    answer (an error with the server's status when the server answered an error; 401 and nothing
    performed without valid credentials; an invalid path is refused before anything is sent).
    Excluded: K01d (the answer carries origins). -/
theorem client_server_inverse (tracing : Bool) (cfg : CliCfg) (c : Call) (hwf : callWf c)
    (h1 : answerHasOrigins c = false) :
    cliHolds cfg c (clientCall (Gen.chain tracing) Gen.routes cfg c).1 (clientCall (Gen.chain tracing) Gen.routes cfg c).2 = true := by
  rw [clientCall_any_tracing]
  cases c with
  | id => exact client_id cfg
  | version => exact client_version cfg
  | peers => exact client_peers cfg
  | alerts => exact client_alerts cfg
  | graph => exact client_graph cfg
  | metricNames => exact client_metricNames cfg
  | peerAdd s =>
    obtain ⟨p, hp⟩ := Option.isSome_iff_exists.mp hwf
    exact client_peerAdd cfg s p hp
  | peerRm s =>
    obtain ⟨p, hp⟩ := Option.isSome_iff_exists.mp hwf.2
    exact client_peerRm cfg s hwf.1 p hp
  | pin s o =>
    obtain ⟨c', hc⟩ := Option.isSome_iff_exists.mp hwf.2
    have ho : o.origins = [] := by simpa [answerHasOrigins] using h1
    exact client_pin cfg s o hwf.1 c' hc ho
  | unpin s =>
    obtain ⟨c', hc⟩ := Option.isSome_iff_exists.mp hwf.2
    exact client_unpin cfg s hwf.1 c' hc
  | allocation s =>
    obtain ⟨c', hc⟩ := Option.isSome_iff_exists.mp hwf.2
    exact client_allocation cfg s hwf.1 c' hc
  | pinPath p o =>
    have ho : o.origins = [] := by simpa [answerHasOrigins] using h1
    exact client_pinPath cfg p o hwf ho
  | unpinPath p => exact client_unpinPath cfg p hwf
  | allocations m => exact client_allocations cfg m
  | status s l =>
    obtain ⟨c', hc⟩ := Option.isSome_iff_exists.mp hwf.2
    exact client_status cfg s l hwf.1 c' hc
  | recover s l =>
    obtain ⟨c', hc⟩ := Option.isSome_iff_exists.mp hwf.2
    exact client_recover cfg s l hwf.1 c' hc
  | statusAll m l => exact client_statusAll cfg m l (widen_known m hwf.1 hwf.2)
  | recoverAll l => exact client_recoverAll cfg l
  | repoGC l => exact client_repoGC cfg l
  | metrics s => exact client_metrics cfg s hwf

/-- the client-side deviation K01d is real: a concrete call on which the clauses fail; and the repaired
    K07 stays repaired: a pin with mode=direct arrives direct and stays direct once stored -/
def cfgOpen : CliCfg := { creds := false, auth := .none, rpc := .ok }
def sC3 : Seg := ⟨"c3", some 3, some 1003⟩
def o0 : Opts := (pinCid 0).opts
theorem client_K01d_witness :
    cliHolds cfgOpen (.pin sC3 { o0 with origins := [1] })
      (clientCall (Gen.chain false) Gen.routes cfgOpen (.pin sC3 { o0 with origins := [1] })).1
      (clientCall (Gen.chain false) Gen.routes cfgOpen (.pin sC3 { o0 with origins := [1] })).2 = false := by decide
/-- (K23 repaired) a composite filter arrives unchanged -/
theorem client_filter_arrives :
    widen 136 = 136 ∧ widen 14 = 14 ∧ widen 1536 = 1536 ∧ widen 530 = 530 ∧
    cliHolds cfgOpen (.statusAll 136 false)
      (clientCall (Gen.chain false) Gen.routes cfgOpen (.statusAll 136 false)).1
      (clientCall (Gen.chain false) Gen.routes cfgOpen (.statusAll 136 false)).2 = true := by decide

/-! ### the add endpoint (its model: `addHandle`) -/

/-- without valid credentials the add endpoint asks nothing of the cluster -/
theorem add_auth_gate (r : AddReq) (h : addAuthorized r = false) : (addHandle r).ops = [] := by
  show (addHandle0 r).ops = []
  unfold addHandle0
  have : (r.creds && r.auth != .right) = true := by
    unfold addAuthorized at h
    cases hc : r.creds <;> cases ha : r.auth <;> simp_all
  simp [this]

/-- a request without a multipart body, with a query string that does not parse, or with any pin option / add
    option that `AddParamsFromQuery` rejects, is refused 400 with one JSON document and nothing is asked of the cluster -/
theorem add_parse_refused (r : AddReq) (ha : addAuthorized r = true)
    (h : r.mp = .none ∨ hasGarbled r.query = true ∨ addParams r.query r.md = none) :
    (addHandle r).status = 400 ∧ (addHandle r).body = .docs 1 ∧ (addHandle r).ops = [] := by
  show (addHandle0 r).status = 400 ∧ (addHandle0 r).body = .docs 1 ∧ (addHandle0 r).ops = []
  unfold addHandle0
  have hna : (r.creds && r.auth != .right) = false := by
    unfold addAuthorized at ha
    cases hc : r.creds <;> cases hau : r.auth <;> simp_all
  simp only [hna, Bool.false_eq_true, if_false]
  by_cases hm : r.mp = .none
  · simp [hm]
  · rcases h with h | h | h
    · exact absurd h hm
    · simp [hm, h]
    · by_cases hg : hasGarbled r.query = true <;> simp [hm, h, hg]

/-- a well-formed add that the adder does not reject later (K24) asks for one allocation with the carried options, puts blocks, and pins a plain data pin
    carrying exactly the carried options (mode and pin-update do not apply to adding) -/
theorem add_faithful (r : AddReq) (ha : addAuthorized r = true) (hm : r.mp = .ok) (p : AddParams)
    (hg : hasGarbled r.query = false)
    (hp : addParams r.query r.md = some p) (hl : lateFailure r p = false) (hr : r.rpc = .ok)
    (w : Opts) (hw : carried r.query r.md = some w) :
    addFaithful r (addHandle r) = true := by
  obtain ⟨o, ho, hpo⟩ := addParams_opts hp
  have how : o = w := by rw [fromQuery_of_carried hw] at ho; simpa using ho.symm
  subst how
  have hops : (addHandle r).ops = (addHandle0 r).ops := rfl
  unfold addFaithful
  rw [hops]
  unfold addHandle0
  have hna : (r.creds && r.auth != .right) = false := by
    unfold addAuthorized at ha
    cases hc : r.creds <;> cases hau : r.auth <;> simp_all
  simp only [hna, hm, hg, hp, hr, Bool.false_eq_true, if_false]
  simp [addFaithful, hw, hl, addCmp, addOpts, hpo, pinArg, pinWithOpts, depthToMode, modeToDepth, canonOpts]

/-- K24 is real: a broken multipart body is answered 200 with an error trailer.  The repaired K25 stays
    repaired: another hash function with an explicit CID version 0 is refused 400 with nothing performed; without a
    version it is added as CIDv1 -/
def addReq0 : AddReq := { creds := false, auth := .none, mp := .ok, query := [], md := [], rpc := .ok }
theorem add_K24_witness :
    addHandle0 { addReq0 with mp := .junk } = { status := 200, body := .docs 0, trailer := true, root := none, ops := [] } ∧
    addHolds { addReq0 with mp := .junk } (addHandle { addReq0 with mp := .junk }) = false := by decide
theorem add_other_hash :
    addHandle0 { addReq0 with query := [("hash", .valid (.str "sha3-512")), ("cid-version", .valid (.int 0))] } =
      { status := 400, body := .docs 1, trailer := false, root := none, ops := [] } ∧
    addHolds { addReq0 with query := [("hash", .valid (.str "sha3-512")), ("cid-version", .valid (.int 0))] }
      (addHandle { addReq0 with query := [("hash", .valid (.str "sha3-512")), ("cid-version", .valid (.int 0))] }) = true ∧
    (addHandle { addReq0 with query := [("hash", .valid (.str "sha3-512"))] }).root = some ⟨1, "raw", "sha3-512"⟩ ∧
    addHolds { addReq0 with query := [("hash", .valid (.str "sha3-512"))] }
      (addHandle { addReq0 with query := [("hash", .valid (.str "sha3-512"))] }) = true := by decide

/-! ### the add options, field by field (`AddParamsFromQuery` → the adder) -/

/-- **options_exact (the `AddParams`).** Whatever `AddParamsFromQuery` accepts, the `AddParams` it builds carry every
    add option of the query exactly: a value given by name is never replaced, an option not given has the default
    (the CID version following the hash function, the leaf form following the version). For every query. -/
theorem add_seen_exact (q : List (String × QV)) (md : List (Nat × Nat)) (p : AddParams)
    (h : addParams q md = some p) : seenExact q p.seen = true :=
  seenExact_of_addParams h

/-- in particular an explicit `raw-leaves` always wins - whatever hash function and version come with it -/
theorem add_explicit_raw_leaves_wins (q : List (String × QV)) (md : List (Nat × Nat)) (p : AddParams) (b : Bool)
    (h : addParams q md = some p) (hb : getq q "raw-leaves" = .valid (.bool b)) : p.rawLeaves = b := by
  have := seenExact_of_addParams h
  simp only [seenExact, Bool.and_eq_true] at this
  have h12 := this.1.1.2
  simpa [boolCarried, hb, AddParams.seen] using h12

/-- … and so does an explicit `cid-version` -/
theorem add_explicit_cid_version_wins (q : List (String × QV)) (md : List (Nat × Nat)) (p : AddParams) (i : Int)
    (h : addParams q md = some p) (hb : getq q "cid-version" = .valid (.int i)) : p.cidv = i := by
  have := seenExact_of_addParams h
  simp only [seenExact, Bool.and_eq_true] at this
  have h11 := this.1.1.1.2
  simpa [cidvCarried, hb, AddParams.seen] using h11

/-- the model's answer to ANY add request satisfies the new clause's `AddParams` half whenever the query is accepted,
    and its leaf form is the one asked for by name -/
theorem add_options_exact_model (r : AddReq) (p : AddParams) (hg : hasGarbled r.query = false)
    (hp : addParams r.query r.md = some p) : addOptionsExact r (addHandle r) = true := by
  have hs : (addHandle r).seen = some p.seen := by
    show seenOf r.query r.md = some p.seen
    simp [seenOf, hg, hp]
  have hl : leafExact r.query (addHandle r).leaf = true := by
    show leafExact r.query (addHandle0 r).leaf = true
    exact leafExact_addHandle0 r p hg hp
  simp [addOptionsExact, hs, hl, seenExact_of_addParams hp]

example : addParams [("hash", .valid (.str "sha3-512")), ("raw-leaves", .valid (.bool false))] [] ≠ none := by decide

/-- **the refuted alternative** ("parse the CID-builder options together at the end"): reading `raw-leaves` before the
    hash function moves the version to 1, and letting that move set `RawLeaves`, overrides the request's own
    `raw-leaves=false` - the clause fails on `?hash=sha3-512&raw-leaves=false` (no `cid-version`) -/
def qLate : List (String × QV) := [("hash", .valid (.str "sha3-512")), ("raw-leaves", .valid (.bool false))]
theorem late_upgrade_overrides_explicit :
    (addParamsLate qLate []).map (·.rawLeaves) = some true ∧
    (addParamsLate qLate []).map (fun p => seenExact qLate p.seen) = some false ∧
    (addParams qLate []).map (·.rawLeaves) = some false ∧
    (addParams qLate []).map (·.cidv) = some 1 ∧
    (addHandle { addReq0 with query := qLate }).root = some ⟨1, "pb", "sha3-512"⟩ ∧
    addHolds { addReq0 with query := qLate } (addHandle { addReq0 with query := qLate }) = true := by decide

/-- the two orders differ ONLY there: with a `cid-version`, a sha2-256 hash or no explicit `raw-leaves=false` they agree -/
theorem late_agrees_elsewhere (q : List (String × QV)) (md : List (Nat × Nat)) (p : AddParams)
    (h : addParams q md = some p) (hr : p.rawLeaves = true ∨ otherHash q = false ∨ getq q "cid-version" ≠ .empty) :
    (addParamsLate q md).map (·.seen) = some p.seen :=
  late_agrees h hr

/-! ### the converse of `addp` (round 8 final): for EVERY query, not only the ones the correspondence run draws -/

/-- **which queries `AddParamsFromQuery` accepts.** For every query: the model accepts iff the pin options decode
    (`fromQuery`), every add bool that is present decodes, layout and format decode, `cid-version` decodes, and version 0 is
    not asked for by name together with a hash function other than sha2-256.  Chunker and hash words are NOT looked at. -/
theorem add_accept_iff (q : List (String × QV)) (md : List (Nat × Nat)) :
    (addParams q md).isSome = true ↔
      (fromQuery q md).isSome = true ∧ (∀ k ∈ addBoolKeys, (boolParam (getq q k) false).isSome = true) ∧
      (wordParam (getq q "layout")).isSome = true ∧ (wordParam (getq q "format")).isSome = true ∧
      (intParam (getq q "cid-version") 0).isSome = true ∧ v0OtherHash q = false := by
  rw [addParams_isSome]
  simp only [addParseOk, List.all_eq_true, Bool.and_eq_true, Bool.not_eq_true', and_assoc]

/-- the handler hands nothing to the adder exactly when `url.ParseQuery` or `AddParamsFromQuery` refuses the query -/
theorem add_refused_iff (q : List (String × QV)) (md : List (Nat × Nat)) :
    seenOf q md = none ↔ hasGarbled q = true ∨ (addParams q md).isSome = false := by
  unfold seenOf
  cases hg : hasGarbled q <;> cases hp : addParams q md <;> simp

/-- **`parseClauses` holds of `seenOf`, for every query** (until now validated by the `addp` correspondence only): a
    well-formed query is turned into `AddParams` carrying exactly its add options; one with an undecodable pin option, add
    bool, layout, format or cid-version, with a malformed escape anywhere, or with version 0 named next to another hash
    function is refused; an undecodable chunker / hash word is left to the adder (K24's subject, no clause). -/
theorem add_parse_clauses_hold (q : List (String × QV)) (md : List (Nat × Nat)) :
    (parseClauses q md (seenOf q md)).all (·.2) = true :=
  parseClauses_seenOf q md

/-- the Prop-level reading: with chunker and hash words that decode, "well-formed" and "accepted" coincide -/
theorem add_wellformed_iff_accepted (q : List (String × QV)) (md : List (Nat × Nat))
    (hc : (lateWord (getq q "chunker") "").isSome = true) (hh : (lateWord (getq q "hash") "").isSome = true) :
    addQueryOk q md = true ↔ ∃ p, hasGarbled q = false ∧ addParams q md = some p ∧ seenOf q md = some p.seen ∧
      seenExact q p.seen = true := by
  rw [addQueryOk_eq q md hc hh]
  constructor
  · intro h
    obtain ⟨s, hs⟩ := Option.isSome_iff_exists.mp h
    obtain ⟨p, hp, rfl⟩ := seenOf_some hs
    refine ⟨p, ?_, hp, hs, seenExact_of_addParams hp⟩
    cases hg : hasGarbled q with
    | false => rfl
    | true => simp [seenOf, hg] at hs
  · rintro ⟨p, _, _, hs, _⟩; simp [hs]

def qAddpOk : List (String × QV) :=
  [("hash", .valid (.str "sha3-512")), ("raw-leaves", .valid (.bool false)), ("layout", .valid (.str "trickle")), ("name", .empty)]
def qAddpBad : List (String × QV) := [("shard", .invalid), ("chunker", .valid (.str "size-10"))]
example : (addParams qAddpOk []).isSome = true ∧ addQueryOk qAddpOk [] = true := by decide
example : seenOf qAddpBad [] = none ∧ addQueryOk qAddpBad [] = false ∧
    parseClauses qAddpBad [] (seenOf qAddpBad []) = [("fail_closed", true)] := by decide
example : v0OtherHash [("hash", .invalid), ("cid-version", .valid (.int 0))] = true := by decide

/-- **the refuted alternative** (a lenient `parseBoolParam` that falls back to the default on an undecodable value):
    whatever `AddParams` it hands on for `?shard=<not a bool>`, the `fail_closed` clause fails -/
theorem lenient_bool_refuted (s : AddSeen) : (parseClauses qAddpBad [] (some s)).all (·.2) = false := by
  have h : parseClauses qAddpBad [] (some s) = [("fail_closed", false)] := by
    have h1 : addQueryOk qAddpBad [] = false := by decide
    have h2 : ((lateWord (getq qAddpBad "chunker") "").isNone || (lateWord (getq qAddpBad "hash") "").isNone) = false := by decide
    simp [parseClauses, h1, h2]
  rw [h]; rfl

/-- **all add clauses together, for every add request** (gate, answered, single document, fail-closed, faithful, options
    exact): the model's answer satisfies `addHolds` — whatever the credentials, body, query, metadata and cluster answer —
    under ONE hypothesis, which is the recorded finding K24 itself: an accepted request is not one the adder rejects late
    (broken multipart body, unknown chunker / hash word, `format=car` or `nocopy=true` with an inline plain file, a CID version
    other than 0 / 1), where the answer is 200 + trailer (or 500) instead of 4xx (`add_K24_witness` shows the clause really
    fails there). -/
theorem add_model_holds (r : AddReq)
    (hK : ∀ p, addAuthorized r = true → r.mp ≠ .none → hasGarbled r.query = false → addParams r.query r.md = some p →
      lateFailure r p = false) :
    addHolds r (addHandle r) = true := by
  by_cases ha' : addAuthorized r = false
  · have h401 : addHandle0 r = { status := 401, body := .docs 1, trailer := false, root := none, ops := [] } := by
      unfold addHandle0
      have : (r.creds && r.auth != .right) = true := by
        unfold addAuthorized at ha'
        cases hc : r.creds <;> cases hau : r.auth <;> simp_all
      simp [this]
    simp [addHolds, addClauses, ha', addHandle, h401]
  · have ha : addAuthorized r = true := by simpa using ha'
    by_cases hrefuse : r.mp = .none ∨ hasGarbled r.query = true ∨ addParams r.query r.md = none
    · obtain ⟨hs, hb, ho⟩ := add_parse_refused r ha hrefuse
      have hmal : addMalformed r = true := by
        rcases hrefuse with h | h | h
        · simp [addMalformed, h]
        · simp [addMalformed, h]
        · exact addMalformed_of_refused r h
      simp [addHolds, addClauses, ha, hmal, hs, hb, ho, is4xx]
    · simp only [not_or] at hrefuse
      obtain ⟨hmn, hg, hpn⟩ := hrefuse
      have hg' : hasGarbled r.query = false := by simpa using hg
      obtain ⟨p, hp⟩ := Option.ne_none_iff_exists'.mp hpn
      have hl := hK p ha hmn hg' hp
      have hm : r.mp = .ok := by
        have : (r.mp == .junk) = false := by
          simp only [lateFailure, Bool.or_eq_false_iff] at hl; exact hl.1.1.1.1.1
        cases hx : r.mp <;> simp_all
      have hmal := addMalformed_of_accepted r p hm hg' hp hl
      have hna : (r.creds && r.auth != .right) = false := by
        unfold addAuthorized at ha
        cases hc : r.creds <;> cases hau : r.auth <;> simp_all
      obtain ⟨_, _, hstream⟩ := addParams_fields hp
      by_cases hr : r.rpc = .ok
      · obtain ⟨w, hw⟩ : ∃ w, carried r.query r.md = some w := by
          cases hcc : carried r.query r.md with
          | none => simp [addMalformed, hcc] at hmal
          | some w => exact ⟨w, rfl⟩
        have hf := add_faithful r ha hm p hg' hp hl hr w hw
        have hle : leafExact r.query (addHandle r).leaf = true := leafExact_addHandle0 r p hg' hp
        have hst : (addHandle r).status = 200 ∧ (addHandle r).body = .docs 1 ∧ (addHandle r).ops ≠ [] := by
          show (addHandle0 r).status = 200 ∧ (addHandle0 r).body = .docs 1 ∧ (addHandle0 r).ops ≠ []
          unfold addHandle0
          simp [hna, hm, hg', hp, hl, hr]
        obtain ⟨h1, h2, _⟩ := hst
        simp only [addHolds, addClauses, ha, hmal, hr, hf, hle, h1, h2]
        cases addStreams r <;> simp
      · have hr' : (r.rpc != .ok) = true := by simpa using hr
        have hst : addHandle0 r = errorAnswer p [⟨"Cluster.BlockAllocate", .path "" (addOpts p)⟩] := by
          unfold addHandle0
          simp [hna, hm, hg', hp, hl, hr']
        have hps : p.stream = addStreams r := by
          unfold addStreams
          generalize getq r.query "stream-channels" = v at hstream
          cases v with
          | valid x =>
            cases x with
            | bool b => simp only [boolParam, Option.some.injEq] at hstream; subst hstream; generalize p.stream = s; cases s <;> decide
            | _ => simp [boolParam] at hstream
          | empty => simp only [boolParam, Option.some.injEq] at hstream; rw [← hstream]; decide
          | _ => simp [boolParam] at hstream
        have hrn : (r.rpc == .ok) = false := by simpa using hr
        cases hs : addStreams r <;>
          simp [addHolds, addClauses, ha, hmal, hrn, hr, addHandle, hst, errorAnswer, hps, hs]

/-- the hypothesis of `add_model_holds` is met by every request whose query the adder accepts; e.g. these -/
def addReqOk : AddReq := { creds := true, auth := .right, mp := .ok, query := qAddpOk, md := [(1, 2)], rpc := .ok }
example : ∀ p, addParams addReqOk.query addReqOk.md = some p → lateFailure addReqOk p = false := by
  intro p hp
  have : addParams addReqOk.query addReqOk.md = some ((addParams addReqOk.query addReqOk.md).get (by decide)) := by simp
  rw [this] at hp; cases hp; decide
example : addHolds addReqOk (addHandle addReqOk) = true ∧ (addHandle addReqOk).ops.length = 3 := by decide
example : addHolds { addReqOk with rpc := .err, query := [("stream-channels", .valid (.bool false))] }
    (addHandle { addReqOk with rpc := .err, query := [("stream-channels", .valid (.bool false))] }) = true := by decide
example : addHolds { addReqOk with query := qAddpBad } (addHandle { addReqOk with query := qAddpBad }) = true := by decide

/-! ### credentials-map corner cases (round 8 final): an empty configured password, an empty user name -/

/-- **an empty configured password is not a wildcard**: with `user → ""` configured, only the empty password gets that
    user through, and a request without a (well-formed) header gets nobody through -/
theorem empty_password_not_wildcard (u p : String) (hp : p ≠ "") :
    authOk Gen.authLogic [(u, "")] (.basic u p) = false ∧ authOk Gen.authLogic [(u, "")] (.basic u "") = true ∧
    authOk Gen.authLogic [(u, "")] .none = false ∧ authOk Gen.authLogic [(u, "")] .malformed = false := by
  refine ⟨?_, ?_, rfl, rfl⟩
  · simp [authOk, Gen.authLogic, AuthCond.eval, Ne.symm hp]
  · simp [authOk, Gen.authLogic, AuthCond.eval]

/-- an empty configured user name is a name like any other: only the empty user with that password gets through -/
theorem empty_user_is_a_name (u p pw : String) :
    authOk Gen.authLogic [("", pw)] (.basic u p) = (u == "" && p == pw) := by
  simp only [authOk, Gen.authLogic, AuthCond.eval, List.any_cons, List.any_nil, Bool.or_false]
  rw [Bool.eq_iff_iff]
  simp only [Bool.and_eq_true, beq_iff_eq]
  constructor <;> rintro ⟨a, b⟩ <;> exact ⟨a.symm, b.symm⟩

/-- the refuted alternative: a handler that does not test `ok` of `r.BasicAuth()` treats "no header" as the pair
    ("", "") - with an empty user and password configured a request without any header would get through; and one that
    only compares when the configured password is non-empty makes the empty password a wildcard -/
theorem ok_unchecked_refuted :
    authOk { Gen.authLogic with okChecked := false } [("", "")] .none = true ∧
    authOk Gen.authLogic [("", "")] .none = false := by decide
theorem user_only_refuted :
    authOk { Gen.authLogic with cond := .atom .userEq } [("u0", "")] (.basic "u0" "whatever") = true ∧
    authOk Gen.authLogic [("u0", "")] (.basic "u0" "whatever") = false := by decide

example : authOk Gen.authLogic [("u0", "")] (.basic "u0" "") = true := by decide

/-! ### the full statement (server side) now holds of the model -/

/-- the property of the server request path with no deviation excluded -/
def C11_full : Prop := ∀ (tracing : Bool) (r : Req), holds r (handle (Gen.chain tracing) Gen.routes r) = true

def sPins : Seg := ⟨"pins", none, none⟩
def sCid3 : Seg := ⟨"c3", some 3, some 1003⟩
def req0 : Req :=
  { creds := false, auth := .none, pf := false, method := "POST", segs := [sPins, sCid3], slash := false,
    query := [], md := [], body := .none, rpc := .ok }

/-- (repaired K07) POST /pins/<cid>?mode=direct -/
def rDirect : Req := { req0 with query := [("mode", .valid (.mode .direct))] }
/-- (repaired K20) PUT /pins/<cid> -/
def rWrongMethod : Req := { req0 with method := "PUT" }
/-- (repaired K21) POST /pins/<cid> with an option that does not decode -/
def rBadOpt (q : List (String × QV)) : Req := { req0 with query := q }

theorem pin_direct_stays_direct :
    holds rDirect (handle (Gen.chain false) Gen.routes rDirect) = true ∧
    (handle (Gen.chain false) Gen.routes rDirect).ops.map (·.arg) =
      [.pin (pinWithOpts 3 { (pinCid 0).opts with mode := .direct }) .direct] := by decide
/-- (K20 repaired) a wrong method on a known path is refused 405 with one JSON document -/
theorem wrong_method_json :
    handle (Gen.chain false) Gen.routes rWrongMethod = refuse 405 ∧
    holds rWrongMethod (handle (Gen.chain false) Gen.routes rWrongMethod) = true := by decide
/-- (K21 repaired) every formerly tolerated shape is refused 400 with nothing performed, and the clauses hold -/
theorem undecodable_options_refused :
    [ [("mode", QV.invalid)], [("user-allocations", .valid (.peers [some 1, none]))],
      [("replication", .valid (.int 2)), ("replication-min", .invalid)],
      [("expire-at", .valid (.exp (.future 1))), ("expire-in", .invalid)],
      [("replication-max", .garbled)] ].all (fun q =>
        handle (Gen.chain false) Gen.routes (rBadOpt q) == refuse 400 &&
        holds (rBadOpt q) (handle (Gen.chain false) Gen.routes (rBadOpt q))) = true := by decide

theorem C11_full_holds : C11_full := fun tracing r => model_holds_tracing tracing r

/-! ### concrete non-trivial inputs that meet the hypotheses -/

/-- a pin request with options, right credentials on a protected API: exactly one Cluster.Pin with the carried options -/
def rPin : Req :=
  { req0 with
      creds := true, auth := .right,
      query := [("name", .valid (.nat 2)), ("replication", .valid (.int 3)), ("replication-min", .valid (.int 1)),
                ("user-allocations", .valid (.peers [some 1, some 2])), ("expire-in", .valid (.nat 1)),
                ("origins", .valid (.nats [4])), ("name", .valid (.nat 5))],
      md := [(3, 1), (1, 2), (3, 9), (0, 7)] }

example :
    (handle (Gen.chain false) Gen.routes rPin).status = 200 ∧
    (handle (Gen.chain false) Gen.routes rPin).ops =
      [⟨"Cluster.Pin", .pin ⟨3, .dataT, ⟨3, 3, 2, .recursive, 0, .future 9001, [(1, 2), (3, 1)], none, [4], [1, 2]⟩,
                              -1, [], none⟩ .recursive⟩] := by
  decide

/-- the same request with a wrong password performs nothing; with an undecodable shard-size it is refused -/
example : (handle (Gen.chain false) Gen.routes { rPin with auth := .wrong }).ops = [] ∧
    (handle (Gen.chain false) Gen.routes { rPin with auth := .wrong }).status = 401 := by decide
example : handle (Gen.chain false) Gen.routes { rPin with query := rPin.query ++ [("shard-size", .invalid)] } = refuse 400 := by
  decide

/-! ### round 8b: `sendResponse` interpreted over its extracted body (`Gen.sendLogic`), for every status value -/

/-- an error is answered with exactly one `WriteHeader`, of a status ≥ 400 (the given one if it is ≥ 400, else 500 — in
    particular for `autoStatus`), and exactly one JSON document, whatever `resp` is -/
theorem send_error (st : Int) (resp : Bool) :
    ∃ s, sendResponse Gen.sendLogic Gen.autoStatus st true resp = ⟨[s], 1⟩ ∧ 400 ≤ s ∧
      (400 ≤ st → s = st) ∧ (st < 400 → s = 500) := by
  by_cases h : st < 400
  · refine ⟨500, ?_, by omega, by omega, fun _ => rfl⟩
    simp [sendResponse, runArms, runStmts, SCond.eval, Gen.sendLogic, Gen.autoStatus, h]
  · refine ⟨st, ?_, by omega, fun _ => rfl, by omega⟩
    have h1 : ¬ st = -1 := by omega
    simp [sendResponse, runArms, runStmts, SCond.eval, Gen.sendLogic, Gen.autoStatus, h, h1]

/-- a value without error: one header (200 for `autoStatus`, else the given status), one document -/
theorem send_value (st : Int) :
    sendResponse Gen.sendLogic Gen.autoStatus st false true = ⟨[if st = Gen.autoStatus then 200 else st], 1⟩ := by
  by_cases h : st = -1 <;>
    simp [sendResponse, runArms, runStmts, SCond.eval, Gen.sendLogic, Gen.autoStatus, h]

/-- neither error nor value: one header (204 for `autoStatus`), no body -/
theorem send_empty (st : Int) :
    sendResponse Gen.sendLogic Gen.autoStatus st false false = ⟨[if st = Gen.autoStatus then 204 else st], 0⟩ := by
  by_cases h : st = -1 <;>
    simp [sendResponse, runArms, runStmts, SCond.eval, Gen.sendLogic, Gen.autoStatus, h]

/-- `single_document` at the level of `sendResponse`: for every status, error and value exactly one `WriteHeader`, never
    more than one document, and one document exactly when there is an error or a value -/
theorem send_single_document (st : Int) (err resp : Bool) :
    (sendResponse Gen.sendLogic Gen.autoStatus st err resp).written.length = 1 ∧
    (sendResponse Gen.sendLogic Gen.autoStatus st err resp).docs ≤ 1 ∧
    ((sendResponse Gen.sendLogic Gen.autoStatus st err resp).docs = 1 ↔ (err || resp) = true) := by
  cases err
  · cases resp
    · rw [send_empty]; simp
    · rw [send_value]; simp
  · obtain ⟨s, hs, _⟩ := send_error st resp
    rw [hs]; simp

/-- `fail_closed` at the level of `sendResponse`: whatever status a handler passes along with an error, the status
    written is ≥ 400 -/
theorem send_fail_closed (st : Int) (resp : Bool) :
    ∀ s ∈ (sendResponse Gen.sendLogic Gen.autoStatus st true resp).written, 400 ≤ s := by
  obtain ⟨s, hs, h400, _⟩ := send_error st resp
  rw [hs]; simp; exact h400

/-- the alternative a tidy-up would write (`if status == autoStatus { status = 500 }`, without the `status < 400` floor) -/
def sendLogicNoFloor : List SArm :=
  [ { guard := some .errNonNil, body := [.ifSet .statusAuto 500, .writeHeader, .encode, .ret] },
    { guard := some .respNonNil, body := [.ifSet .statusAuto 200, .writeHeader, .encode, .ret] },
    { guard := none, body := [.ifSet .statusAuto 204, .writeHeader] } ]

/-- … is not fail-closed: an error passed with status 200 is answered 200 -/
theorem send_no_floor_refuted :
    ¬ ∀ (st : Int) (resp : Bool), ∀ s ∈ (sendResponse sendLogicNoFloor Gen.autoStatus st true resp).written, 400 ≤ s := by
  intro h
  have := h 200 false 200 (by decide)
  omega

/-- every route's handler: for the local and the global form and each cluster answer, the extracted call sites, run
    through the extracted `sendResponse`, give exactly the status and document count of the model's arm -/
theorem handlers_answer_through_sendResponse :
    Gen.routes.all (fun rt => [false, true].all (fun loc => [RpcMode.ok, .err, .notFound].all (fun m =>
      sendsAgree Gen.sendLogic Gen.autoStatus Gen.handlerSends rt loc m))) = true := by decide

/-- every call made before an RPC — in a handler, a parse helper, the 404 and the 405 handler — is a refusal: a 4xx
    status by name with a non-nil error and no value, answered as the model's `refuse` -/
theorem refusals_through_sendResponse :
    Gen.handlerSends.all (fun h => refusalsAgree Gen.sendLogic Gen.autoStatus h.2) = true := by decide

/-- the functions that call `sendResponse` are the route handlers, the three parse helpers and the 404 / 405 handlers -/
theorem senders_known :
    Gen.handlerSends.all (fun h => Gen.routes.any (fun rt => rt.handler == h.1) ||
      ["parseCidOrError", "parsePinPathOrError", "parsePidOrError", Gen.notFoundHandler,
       Gen.methodNotAllowedHandler.getD ""].contains h.1) = true := by decide

example : sendResponse Gen.sendLogic Gen.autoStatus 200 true true = ⟨[500], 1⟩ := by decide
example : sendResponse Gen.sendLogic Gen.autoStatus 404 true false = ⟨[404], 1⟩ := by decide
example : sendResponse Gen.sendLogic Gen.autoStatus Gen.autoStatus false false = ⟨[204], 0⟩ := by decide
example : groupAnswer Gen.sendLogic Gen.autoStatus ((Gen.handlerSends.lookup "unpinHandler").getD []) "Cluster.Unpin" .notFound
    = some ⟨[404], 1⟩ := by decide
example : groupAnswer Gen.sendLogic Gen.autoStatus ((Gen.handlerSends.lookup "statusAllHandler").getD []) "Cluster.StatusAllLocal" .ok
    = some ⟨[200], 1⟩ := by decide

/-! ### the bundled client's methods as a regenerated table (round 8c) -/

/-- **build_interpreted.** For every call, what the model's client sends (`build`, over which `client_server_inverse` is
    proved) is the interpretation of the row that `extract_c11c` regenerated from the method's source: same verb, path
    pieces, escaping class, query keys, body. -/
theorem build_interpreted (cfg : CliCfg) (c : Call) : build cfg c = interpTable Gen.clientMethods cfg c := by
  cases c with
  | pinPath p o => simp only [build, interpTable, callName]; cases h : clientPath p <;> simp [interpRow, pathSegs, querySegs, rowBody, rowMeta, callPathArg, callOpts, h, Gen.clientMethods, mkReq] <;> rfl
  | unpinPath p => simp only [build, interpTable, callName]; cases h : clientPath p <;> simp [interpRow, pathSegs, querySegs, rowBody, rowMeta, callPathArg, callOpts, h, Gen.clientMethods, mkReq] <;> rfl
  | pin s o => simp [build, interpTable, callName, Gen.clientMethods, interpRow, pathSegs, querySegs, rowBody, rowMeta, callSeg, callOpts, mkReq]
  | _ => rfl

/-- every row addresses (first match over the regenerated route table, verb included) the route named like the method -/
theorem client_rows_route : Gen.clientMethods.all (rowRoutes Gen.routes) = true := by decide

/-- every key a method writes by name is the key the server reads (`local`, `filter`); whole queries come from
    `PinOptions.ToQuery` (Pin, PinPath only) or `AddParams.ToQueryString` (the streaming add only) -/
theorem client_rows_keys : Gen.clientMethods.all rowKeysKnown = true := by decide

/-- no method writes an unescaped string into the path or the query -/
theorem client_rows_escaped :
    Gen.clientMethods.all (fun row => !row.path.contains (.arg .rawString) && !row.path.contains .rawPath &&
      row.query.all (fun q => match q with | .kv _ .rawString => false | _ => true)) = true := by decide

/-- the table is complete in both directions: every non-streaming row is the method of some `Call` constructor, every
    method that sends nothing itself is known (`Add` goes through `AddMultiFile`), row names are unique -/
theorem client_rows_complete :
    (Gen.clientMethods.filter (fun r => !r.stream)).map (·.name) =
      ["ID", "Peers", "PeerAdd", "PeerRm", "Pin", "Unpin", "PinPath", "UnpinPath", "Allocations", "Allocation", "Status",
       "StatusAll", "Recover", "RecoverAll", "Alerts", "Version", "GetConnectGraph", "Metrics", "MetricNames", "RepoGC"] ∧
    (Gen.clientMethods.filter (·.stream)).map (·.name) = ["AddMultiFile"] ∧ Gen.noRequestMethods = ["Add"] := by decide

/-- **client_server_inverse per row.** For every row of the regenerated table, every call of that method with
    well-formed arguments, every credential situation and cluster answer: the request the ROW yields, sent through the
    regenerated chain and route table, performs exactly the operation the method names with the arguments given, and the
    client returns the server's answer. -/
theorem client_row_inverse (tracing : Bool) (cfg : CliCfg) (row : CRow) (c : Call)
    (hrow : Gen.clientMethods.find? (fun r => r.name == callName c) = some row) (hwf : callWf c)
    (h1 : answerHasOrigins c = false) :
    row.stream = false ∧ build cfg c = interpRow row cfg c ∧
    cliHolds cfg c (clientCall (Gen.chain tracing) Gen.routes cfg c).1 (clientCall (Gen.chain tracing) Gen.routes cfg c).2 = true := by
  have hb := build_interpreted cfg c
  have hs : row.stream = false := by
    have : ∀ r ∈ Gen.clientMethods, r.name = callName c → r.stream = false := by
      intro r hr hn
      have h21 : Gen.clientMethods.all (fun r => !r.stream || r.name == "AddMultiFile") = true := by decide
      have := List.all_eq_true.mp h21 r hr
      cases hst : r.stream with
      | false => rfl
      | true =>
        simp [hst] at this
        rw [this] at hn
        cases c <;> simp [callName] at hn
    have hmem := List.mem_of_find?_eq_some hrow
    have hname := List.find?_some hrow
    exact this row hmem (by simpa using hname)
  refine ⟨hs, ?_, client_server_inverse tracing cfg c hwf h1⟩
  rw [hb, interpTable, hrow]; simp [hs]

/-- the alternative rows a slip would write: `Recover` as `/pins/recover/%s`, `RecoverAll` with the verb GET -/
def swappedRecover : CRow :=
  { name := "Recover", verb := "POST", path := [.lit "pins", .lit "recover", .arg .cidStr], query := [.kv "local" .boolT],
    body := .none, out := true, stream := false, guards := [] }
def getRecoverAll : CRow :=
  { name := "RecoverAll", verb := "GET", path := [.lit "pins", .lit "recover"], query := [.kv "local" .boolT],
    body := .none, out := true, stream := false, guards := [] }

/-- … the first addresses no POST route at all, the second is a Status of the CID "recover": neither is accepted -/
theorem client_swapped_rows_refuted :
    rowRoutes Gen.routes swappedRecover = false ∧ rowRoutes Gen.routes getRecoverAll = false := by decide

/-- `handleResponse`'s regenerated switch decides exactly as the model's `clientRet` for every HTTP status (< 600) -/
theorem client_decode_table (c : Call) (o : Resp) (h : o.status < 600) :
    decodeRet Gen.decodeLogic c o = clientRet c o := by
  have hs : Gen.decodeLogic = { silent := [202, 204], errLo := 399, errHi := 600, errDecoded := true, objDecoded := true } := by
    decide
  rw [hs]
  by_cases h2 : o.status = 202
  · simp [decodeRet, clientRet, h2]
  · by_cases h4 : o.status = 204
    · simp [decodeRet, clientRet, h4]
    · by_cases h5 : 400 ≤ o.status
      · have h6 : 399 < o.status := by omega
        simp [decodeRet, clientRet, h2, h4, h5, h6, h]
      · have h6 : ¬ 399 < o.status := by omega
        simp [decodeRet, clientRet, h2, h4, h5, h6]

example : interpTable Gen.clientMethods ⟨true, .right, .ok⟩ (.recover ⟨"c3", some 3, none⟩ true) =
    some (mkReq ⟨true, .right, .ok⟩ "POST" [lit "pins", ⟨"c3", some 3, none⟩, lit "recover"] [("local", boolQ true)] [] .none) := by rfl
example : (interpTable Gen.clientMethods ⟨false, .none, .ok⟩ (.unpinPath [⟨"c3", some 3, none⟩, lit "a b"])).map (·.segs) =
    some [lit "pins", lit "ipfs", ⟨"c3", some 3, none⟩, lit "a b"] := by decide
example : decodeRet Gen.decodeLogic .id { status := 404, body := .docs 1, ops := [] } = .err 404 := by decide


/-! ### both listeners: one server value, one chain (round 8d) -/

/-- `GET /id`, credentials configured, no Authorization header -/
def reqIdNoHeader : Req :=
  { creds := true, auth := .none, pf := false, method := "GET", segs := [lit "id"], slash := false,
    query := [], md := [], body := .none, rpc := .ok }

/-- the chain a listener serves in this tree (regenerated serve sites, `run` dispatch, server / router counts) -/
def genListenerChain (tracing : Bool) (l : Listener) : Option (List Layer) :=
  listenerChain Gen.runStarts Gen.serveSites Gen.serverLiterals Gen.routerValues Gen.serverWrites (Gen.chain tracing) l

/-- The HTTP(S) listeners and the libp2p-tunnelled listener are served by the same `http.Server` value, hence by the
    same handler chain (logging, [ochttp,] basicAuth, cors, router), whatever cfg.Tracing is. -/
theorem both_listeners_same_chain : ∀ (tracing : Bool) (l : Listener),
    genListenerChain tracing l = some (Gen.chain tracing) := by
  intro tracing l
  cases tracing <;> cases l <;> decide

/-- … so the credential gate holds on either listener: for every request, table and listener, with credentials configured
    and no valid pair presented, nothing is performed. -/
theorem listener_auth_gate (tracing : Bool) (l : Listener) (chain : List Layer) (t : List Route) (r : Req)
    (hl : genListenerChain tracing l = some chain) (hc : r.creds = true) (ha : r.auth ≠ .right) :
    (handle chain t r).ops = [] := by
  have h := both_listeners_same_chain tracing l
  rw [h] at hl
  cases hl
  exact auth_gate _ t r (auth_outermost tracing) hc ha

/-- … and the whole property holds on either listener. -/
theorem listener_model_holds (tracing : Bool) (l : Listener) (chain : List Layer) (r : Req)
    (hl : genListenerChain tracing l = some chain) : holds r (handle chain Gen.routes r) = true := by
  have h := both_listeners_same_chain tracing l
  rw [h] at hl
  cases hl
  exact model_holds_tracing tracing r

/-- TLS is a matter of the HTTP listeners only (`tls.Listen` / `net.Listen` in setupHTTP); the libp2p listener is a
    gostream listener on the host; each listener field is given a value in exactly one function. -/
theorem listeners_bound :
    Gen.listenerBinds = [("setupHTTP", "api.httpListeners", "tls.Listen|net.Listen"),
                         ("setupLibp2p", "api.libp2pListener", "gostream.Listen")] := by decide

/-- the alternative a realistic edit would write — a second server (say without the auth wrapper) for the libp2p
    listener — is not a chain the model accepts: with a serve site `api.p2pServer.Serve(api.libp2pListener)` (or a second
    `http.Server` literal) `listenerChain` is `none` for the libp2p listener. -/
theorem second_server_refuted :
    listenerChain Gen.runStarts [("runHTTPServer", "api.server", "l"), ("runLibp2pServer", "api.p2pServer", "api.libp2pListener")]
        1 1 0 (Gen.chain false) .libp2p = none ∧
    listenerChain Gen.runStarts Gen.serveSites 2 1 0 (Gen.chain false) .libp2p = none ∧
    listenerChain Gen.runStarts Gen.serveSites 1 2 0 (Gen.chain false) .http = none := by decide

/-- a chain whose auth wrapper is missing on one listener would perform operations without credentials there:
    the witness is `GET /id` with credentials configured and no header. -/
theorem unwrapped_listener_refuted :
    (handle ["logging", "cors", "router"] Gen.routes reqIdNoHeader).ops ≠ [] := by decide

example : genListenerChain true .libp2p = some ["logging", "ochttp", "basicAuth", "cors", "router"] := by decide
example : (handle ((genListenerChain false .libp2p).getD []) Gen.routes reqIdNoHeader).status = 401 := by decide


end CV.C11
