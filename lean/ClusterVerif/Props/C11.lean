import ClusterVerif.Spec.C11
import ClusterVerif.Gen.C11
namespace CV.C11

/-- every route of `routes()` has a frozen expectation with the same name, method and pattern, in the same order -/
theorem routes_match_expectations :
    Gen.routes.map (fun r => (r.name, r.method, r.pat)) = expectations.map (fun e => (e.name, e.method, e.pat)) := by
  decide

end CV.C11
