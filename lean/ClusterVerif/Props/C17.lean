import ClusterVerif.Spec.C17
namespace CV.C17
open CV

theorem watch_spawns_shutdown (ps : List Nat) (self : Nat) (f : CFlags) (h : ps.contains self = false) :
    (watchTick (some ps) self f).2 = true := by
  unfold watchTick
  simp only [h, Bool.false_eq_true, if_false]

end CV.C17
