import ClusterVerif.Lemmas.C17Step
import ClusterVerif.Lemmas.C17Fault
import ClusterVerif.Lemmas.C17Conc
import ClusterVerif.Lemmas.C17Depart
import ClusterVerif.Spec.C17Depart
import ClusterVerif.Gen.C17

/-!
# C17 — Raft membership changes are agreed by all members and never lose the pinset

Property theorems only (helpers in `Lemmas/C17.lean`, `Lemmas/C17Step.lean`).
Agreement on the log itself is hashicorp/raft's: the model has ONE log and members hold prefixes of it.

* `peerset_agree`, `caught_up_agree`            members at the same index / all caught-up members report one peerset
* `add_effect`, `rm_effect`, `add_frame`, `rm_frame`   a successful call puts / removes exactly that peer, nothing else, pins untouched
* `add_present_noop`, `rm_absent_noop`          no log entry, under ANY leader/failure oracle
* `add_at_most_once`, `rm_at_most_once`         retries and lost replies never duplicate the change
* `last_peer_kept`, `voters_never_empty`        the only peer / the last voter is never removed
* `healthy_call_is_one_attempt`                 in a healthy cluster the redirect/retry loops collapse (what the harness replays)
* `joiner_synced`, `joiner_has_prior_pins`, `joiner_equals_others`   WaitForSync ready ⇒ every entry before the own addition is applied
* `removed_peer_cleans`, `restart_keeps_data`, `left_peer_cleans`, `failed_leave_keeps_data`   watchPeers / Shutdown decisions
* `rehomed_first`                               PeerRemove logs its re-pins before RmPeer
* `gen_*`                                       the guard / ordering facts re-checked on the go/ast skeletons of today's source
* `clean_discards`, `discard_after_every_removal`, `runDisk_backups_bounded`   CleanupRaft / makeBackup
* `allowed_holds` (= `C17_full_holds`)          every script outcome the model allows meets every clause of the property
-/
namespace CV.C17
open CV

/-! ## one log, prefixes -/

theorem peerset_agree (log : List Entry) (m1 m2 : Member) (h : m1.have_ = m2.have_) :
    m1.peers log = m2.peers log := by
  unfold Member.peers Member.cfg; rw [h]

theorem caught_up_agree (log : List Entry) (m : Member) (h : m.have_ = log.length) (ha : m.applied = log.length) :
    m.peers log = cfgIds (cfgAt log) ∧ m.pins log = pinsAt log := by
  unfold Member.peers Member.cfg Member.pins
  rw [h, ha, List.take_length]
  exact ⟨rfl, rfl⟩

/-! ## add / remove through the redirect and retry loops, under any oracle -/

theorem add_effect (self retries : Nat) (orc : Nat → Tick) (log : List Entry) (p : Nat)
    (h : (consAddPeer self retries orc log p).1 = .ok) :
    cfgHas (cfgAt (consAddPeer self retries orc log p).2) p = true := by
  refine consLoop_ok (Q := fun l => cfgHas (cfgAt l) p = true) ?_ _ _ _ h
  intro l f _
  cases hh : cfgHas (cfgAt l) p with
  | true => rw [rwAddPeer_present hh, List.append_nil]; exact hh
  | false =>
    unfold rwAddPeer
    simp only [hh, Bool.false_eq_true, if_false]
    split_ifs
    · rw [cfgAt_append]; simp only [applyCfg]; rw [cfgHas_cfgPut]; simp
    · simp_all [rwAddPeer]

theorem rm_effect (self retries : Nat) (orc : Nat → Tick) (log : List Entry) (p : Nat)
    (h : (consRmPeer self retries orc log p).1 = .ok) :
    cfgHas (cfgAt (consRmPeer self retries orc log p).2) p = false := by
  refine consLoop_ok (Q := fun l => cfgHas (cfgAt l) p = false) ?_ _ _ _ h
  intro l f hok
  cases hh : cfgHas (cfgAt l) p with
  | false => rw [rwRemovePeer_absent hh, List.append_nil]; exact hh
  | true =>
    unfold rwRemovePeer at hok ⊢
    simp only [hh, Bool.not_true, Bool.false_eq_true, if_false] at hok ⊢
    split_ifs at hok ⊢
    rw [cfgAt_append]; simp only [applyCfg]; rw [cfgHas_cfgErase]; simp

theorem add_frame (self retries : Nat) (orc : Nat → Tick) (log : List Entry) (p : Nat) :
    pinsAt (consAddPeer self retries orc log p).2 = pinsAt log ∧
    ∀ q, q ≠ p → cfgHas (cfgAt (consAddPeer self retries orc log p).2) q = cfgHas (cfgAt log) q := by
  refine consLoop_inv (I := fun l => pinsAt l = pinsAt log ∧ ∀ q, q ≠ p → cfgHas (cfgAt l) q = cfgHas (cfgAt log) q)
    ?_ _ _ _ ⟨rfl, fun _ _ => rfl⟩
  intro l f ⟨h1, h2⟩
  unfold rwAddPeer
  split_ifs
  · simpa using ⟨h1, h2⟩
  · refine ⟨by rw [pinsAt_append]; exact h1, fun q hq => ?_⟩
    rw [cfgAt_append]; simp only [applyCfg]; rw [cfgHas_cfgPut, ← h2 q hq]; simp [hq]
  · simpa using ⟨h1, h2⟩

theorem rm_frame (self retries : Nat) (orc : Nat → Tick) (log : List Entry) (p : Nat) :
    pinsAt (consRmPeer self retries orc log p).2 = pinsAt log ∧
    ∀ q, q ≠ p → cfgHas (cfgAt (consRmPeer self retries orc log p).2) q = cfgHas (cfgAt log) q := by
  refine consLoop_inv (I := fun l => pinsAt l = pinsAt log ∧ ∀ q, q ≠ p → cfgHas (cfgAt l) q = cfgHas (cfgAt log) q)
    ?_ _ _ _ ⟨rfl, fun _ _ => rfl⟩
  intro l f ⟨h1, h2⟩
  unfold rwRemovePeer
  split_ifs
  · simpa using ⟨h1, h2⟩
  · simpa using ⟨h1, h2⟩
  · refine ⟨by rw [pinsAt_append]; exact h1, fun q hq => ?_⟩
    rw [cfgAt_append]; simp only [applyCfg]; rw [cfgHas_cfgErase, ← h2 q hq]; simp [hq]
  · simpa using ⟨h1, h2⟩

/-- adding a present peer appends nothing, whatever the leader oracle does; in a healthy cluster it succeeds -/
theorem add_present_noop (self retries : Nat) (orc : Nat → Tick) (log : List Entry) (p : Nat)
    (h : cfgHas (cfgAt log) p = true) :
    (consAddPeer self retries orc log p).2 = log ∧ ∀ l, consAddPeer self retries (healthy l) log p = (.ok, log) := by
  refine ⟨consLoop_inert (fun f => by rw [rwAddPeer_present h]) _ _, fun l => ?_⟩
  unfold consAddPeer
  rw [consLoop_healthy (errEmpty_add p), direct_eq, rwAddPeer_present h, List.append_nil]

/-- removing an absent peer appends nothing, whatever the leader oracle does; in a healthy cluster it succeeds -/
theorem rm_absent_noop (self retries : Nat) (orc : Nat → Tick) (log : List Entry) (p : Nat)
    (h : cfgHas (cfgAt log) p = false) :
    (consRmPeer self retries orc log p).2 = log ∧ ∀ l, consRmPeer self retries (healthy l) log p = (.ok, log) := by
  refine ⟨consLoop_inert (fun f => by rw [rwRemovePeer_absent h]) _ _, fun l => ?_⟩
  unfold consRmPeer
  rw [consLoop_healthy (errEmpty_rm p), direct_eq, rwRemovePeer_absent h, List.append_nil]

/-- the only peer cannot be removed: the call fails and the log is untouched, under any oracle -/
theorem last_peer_kept (self retries : Nat) (orc : Nat → Tick) (log : List Entry) (p : Nat)
    (h : cfgIds (cfgAt log) = [p]) : consRmPeer self retries orc log p = (.err, log) :=
  consLoop_refused (fun f => rwRemovePeer_last h f) _ _

/-- no add, remove or pin/unpin call ever leaves the configuration without a voter -/
theorem voters_never_empty (self retries : Nat) (orc : Nat → Tick) (log : List Entry) (p : Nat)
    (h : cfgVoters (cfgAt log) ≠ []) :
    cfgVoters (cfgAt (consAddPeer self retries orc log p).2) ≠ [] ∧
    cfgVoters (cfgAt (consRmPeer self retries orc log p).2) ≠ [] := by
  constructor
  · refine consLoop_inv (I := fun l => cfgVoters (cfgAt l) ≠ []) ?_ _ _ _ h
    intro l f hl
    unfold rwAddPeer
    split_ifs with h1 h2
    · simpa using hl
    · have := (Bool.and_eq_true_iff.1 h2).2
      rw [cfgAt_append]
      unfold raftAccepts at this
      intro hn; rw [hn] at this; simp at this
    · simpa using hl
  · refine consLoop_inv (I := fun l => cfgVoters (cfgAt l) ≠ []) ?_ _ _ _ h
    intro l f hl
    unfold rwRemovePeer
    split_ifs with h1 h2 h3
    · simpa using hl
    · simpa using hl
    · have := (Bool.and_eq_true_iff.1 h3).2
      rw [cfgAt_append]
      unfold raftAccepts at this
      intro hn; rw [hn] at this; simp at this
    · simpa using hl

/-- retries and lost replies never duplicate an addition: at most one entry, thanks to the presence check -/
theorem add_at_most_once (self retries : Nat) (orc : Nat → Tick) (log : List Entry) (p : Nat) :
    (consAddPeer self retries orc log p).2 = log ∨ (consAddPeer self retries orc log p).2 = log ++ [.addVoter p] := by
  refine consLoop_inv (I := fun l => l = log ∨ l = log ++ [.addVoter p]) ?_ _ _ _ (Or.inl rfl)
  intro l f hl
  rcases hl with rfl | rfl
  · unfold rwAddPeer
    split_ifs
    · left; simp
    · right; rfl
    · left; simp
  · right
    have : cfgHas (cfgAt (log ++ [.addVoter p])) p = true := by
      rw [cfgAt_append]; simp only [applyCfg]; rw [cfgHas_cfgPut]; simp
    rw [rwAddPeer_present this, List.append_nil]

theorem rm_at_most_once (self retries : Nat) (orc : Nat → Tick) (log : List Entry) (p : Nat) :
    (consRmPeer self retries orc log p).2 = log ∨ (consRmPeer self retries orc log p).2 = log ++ [.rmServer p] := by
  refine consLoop_inv (I := fun l => l = log ∨ l = log ++ [.rmServer p]) ?_ _ _ _ (Or.inl rfl)
  intro l f hl
  rcases hl with rfl | rfl
  · unfold rwRemovePeer
    split_ifs
    · left; simp
    · left; simp
    · right; rfl
    · left; simp
  · right
    have : cfgHas (cfgAt (log ++ [.rmServer p])) p = false := by
      rw [cfgAt_append]; simp only [applyCfg]; rw [cfgHas_cfgErase]; simp
    rw [rwRemovePeer_absent this, List.append_nil]

/-- in a healthy cluster a call amounts to one attempt on the leader's configuration, whoever issues it -/
theorem healthy_call_is_one_attempt (self l retries : Nat) (log : List Entry) (p : Nat) (e : Entry) :
    consAddPeer self retries (healthy l) log p = direct (rwAddPeer p) log ∧
    consRmPeer self retries (healthy l) log p = direct (rwRemovePeer p) log ∧
    consCommit self retries (healthy l) log e = direct (rwCommit e) log :=
  ⟨consLoop_healthy (errEmpty_add p) _ _ _ _, consLoop_healthy (errEmpty_rm p) _ _ _ _,
   consLoop_healthy (errEmpty_commit e) _ _ _ _⟩

example : consRmPeer 1 1 (healthy 0) [.boot [0, 1]] 0 = (.ok, [.boot [0, 1], .rmServer 0]) := by decide
example : consRmPeer 0 2 (fun k => { leader := if k < 2 then none else some 0, ok := true, lost := false })
    [.boot [0]] 0 = (.err, [.boot [0]]) := by decide

/-! ## a joiner is synced before it is ready -/

/-- `WaitForSync` returned: some entry already applied by this peer gave it its vote -/
theorem joiner_synced (log : List Entry) (leaderKnown : Bool) (m : Member)
    (hr : syncReady log leaderKnown m = true) :
    ∃ (k : Nat) (e : Entry), k < m.applied ∧ log[k]? = some e ∧ e.enfranchises m.id = true := by
  unfold syncReady at hr
  simp only [Bool.and_eq_true, beq_iff_eq] at hr
  obtain ⟨⟨_, hv⟩, ha⟩ := hr
  unfold Member.cfg cfgAt at hv
  rcases cfgVoter_foldl _ _ hv with h | ⟨k, e, hk, he⟩
  · simp [cfgVoter] at h
  · refine ⟨k, e, ?_, ?_, he⟩
    · have := (List.getElem?_eq_some_iff.1 hk).1
      rw [List.length_take] at this
      omega
    · rw [List.getElem?_take] at hk
      split_ifs at hk
      exact hk

/-- hence its pinset is the replay of the log up to an index beyond its own addition -/
theorem joiner_has_prior_pins (log : List Entry) (m : Member) (k : Nat) (hk : k < m.applied) :
    m.pins log = ((log.take m.applied).drop (k + 1)).foldl applyPin (pinsAt (log.take (k + 1))) := by
  unfold Member.pins pinsAt
  rw [← List.foldl_append]
  congr 1
  have : log.take (k + 1) = (log.take m.applied).take (k + 1) := by
    rw [List.take_take]; congr 1; omega
  rw [this, List.take_append_drop]

/-- and when no pin or unpin was logged after what it applied, it holds the pinset of every caught-up member -/
theorem joiner_equals_others (log : List Entry) (m : Member)
    (hq : (log.drop m.applied).all (fun e => !e.isPinOp) = true) : m.pins log = pinsAt log := by
  unfold Member.pins
  conv_rhs => rw [← List.take_append_drop m.applied log]
  rw [pinsAt_append_cfg]
  intro e he
  simpa using List.all_eq_true.1 hq e he

/-- without the Voter wait the check is not enough: a fresh peer with an empty log passes "leader known, applied = last" -/
example : let log : List Entry := [.boot [0], .pin (pinCid 7), .addVoter 1]
    let m : Member := { id := 1, have_ := 0, applied := 0 }
    (true && m.applied == m.have_) = true ∧ syncReady log true m = false ∧ m.pins log ≠ pinsAt (log.take 2) := by decide

/-! ## a removed peer stops itself and cleans -/

theorem removed_peer_cleans (ps : List Nat) (self : Nat) (f : CFlags) (peersOk rmOk : Bool)
    (hne : ps.contains self = false) (hready : f.ready = true) (hnot : f.shutdown = false) :
    (watchTick (some ps) self f).2 = true ∧
    (shutdownActs (watchTick (some ps) self f).1 peersOk rmOk).2 = [.consShutdown, .clean, .done] := by
  have hw : watchTick (some ps) self f = ({ f with removed := true }, true) := by
    unfold watchTick
    simp only [hne, Bool.false_eq_true, if_false]
  rw [hw]
  refine ⟨rfl, ?_⟩
  unfold shutdownActs
  simp [hready, hnot]

theorem restart_keeps_data (f : CFlags) (peersOk rmOk : Bool) (h1 : f.removed = false) (h2 : f.leaveOnShutdown = false) :
    Act.clean ∉ (shutdownActs f peersOk rmOk).2 := by
  unfold shutdownActs
  split_ifs <;> simp_all

/-- a peer that leaves on shutdown and whose `RmPeer(self)` succeeded discards its data -/
theorem left_peer_cleans (f : CFlags) (h1 : f.leaveOnShutdown = true) (h2 : f.ready = true)
    (h3 : f.removed = false) (h4 : f.shutdown = false) :
    (shutdownActs f true true).2 = [.rmSelf, .consShutdown, .clean, .done] := by
  unfold shutdownActs
  simp [h1, h2, h3, h4]

/-- a peer that could not leave (the last peer, or any `RmPeer` error) keeps its data (fix f1a149d; was finding K34) -/
theorem failed_leave_keeps_data (f : CFlags) (peersOk : Bool) (h3 : f.removed = false) :
    Act.clean ∉ (shutdownActs f peersOk false).2 := by
  unfold shutdownActs
  split_ifs <;> simp_all

/-! ## the removed peer's data folder (CleanupRaft / makeBackup) -/

/-- whatever the folder held, however many rotated copies exist and however `data_folder` was written, `Clean`
    empties it; the copies never exceed backups_rotate (or what was there before) -/
theorem clean_discards (keep : Nat) (slash : Bool) (d : Disk) :
    (cleanupRaft keep slash d).data = false ∧ (cleanupRaft keep slash d).backups ≤ max d.backups keep := by
  cases hs : d.snap with
  | false =>
    have : cleanupRaft keep slash d = { d with data := false } := by simp [cleanupRaft, hs]
    rw [this]; exact ⟨rfl, by simp only; omega⟩
  | true =>
    have : cleanupRaft keep slash d = makeBackup keep d := by simp [cleanupRaft, hs]
    rw [this]
    refine ⟨rfl, ?_⟩
    unfold makeBackup
    simp only
    split_ifs <;> omega

theorem runDisk_backups_bounded (keep : Nat) (slash : Bool) (ops : List DiskOp) (d : Disk) :
    (runDisk keep slash d ops).backups ≤ max d.backups keep := by
  induction ops generalizing d with
  | nil => simp only [runDisk, List.foldl_nil]; omega
  | cons op rest ih =>
    have h := ih (diskStep keep slash d op)
    have hb : (diskStep keep slash d op).backups ≤ max d.backups keep := by
      cases op with
      | write sn => simp only [diskStep]; omega
      | clean => exact (clean_discards keep slash d).2
    simp only [runDisk, List.foldl_cons] at h ⊢
    omega

/-- in ANY history of re-adding and re-removing the same peer on the same data folder, after every removal the
    folder is empty — the (backups_rotate+1)-th removal included, with or without a trailing slash in `data_folder` -/
theorem discard_after_every_removal (keep : Nat) (slash : Bool) (d : Disk) (before : List DiskOp) :
    (runDisk keep slash d (before ++ [.clean])).data = false := by
  simp only [runDisk, List.foldl_append, List.foldl_cons, List.foldl_nil, diskStep]
  exact (clean_discards keep slash _).1

example : runDisk 1 false ⟨false, false, 0⟩ [.write true, .clean, .write true, .clean, .write true, .clean] = ⟨false, false, 1⟩ := by
  decide
example : runDisk 2 true ⟨false, false, 0⟩ [.write true, .clean] = ⟨false, false, 1⟩ := by decide

/-! ## re-pins come first -/

theorem rehomed_first (repin : Bool) (pins : PinMap) (p : Nat) (realloc : Pin → Option Pin) :
    ∃ ls, peerRemoveCalls repin pins p realloc = ls ++ [.rmPeer p] ∧ (∀ c ∈ ls, ∃ q, c = .logPin q) ∧
      (repin = false → ls = []) := by
  unfold peerRemoveCalls
  refine ⟨_, rfl, ?_, ?_⟩
  · intro c hc
    split_ifs at hc
    · obtain ⟨q, _, hq⟩ := List.mem_filterMap.1 hc
      cases hr : realloc q with
      | none => rw [hr] at hq; cases hq
      | some q' => rw [hr] at hq; exact ⟨q', by simpa using hq.symm⟩
    · cases hc
  · intro h; simp [h]

/-! ## the same facts on today's source (go/ast skeletons, regenerated on every run) -/

/-- first position of `a`, if any -/
def idx (a : String) (l : List String) : Option Nat :=
  let i := l.findIdx (· == a)
  if i < l.length then some i else none

/-- `a` occurs, and before the first `b` -/
def before (a b : String) (l : List String) : Bool :=
  match idx a l, idx b l with
  | some i, some j => decide (i < j)
  | _, _ => false

/-- the guard `if cond { return rets }` occurs, with nothing else in its body -/
def guard (cond rets : String) (l : List String) : Bool :=
  match idx ("if:" ++ cond) l with
  | some i => l[i + 1]? == some ("ret:" ++ rets) && l[i + 2]? == some "end"
  | none => false

theorem gen_rw_add_present_guard :
    guard "find(peers, peer)" "nil" Gen.rwAddPeer = true ∧
    before "if:find(peers, peer)" "call:AddVoter" Gen.rwAddPeer = true ∧
    before "call:Peers" "if:find(peers, peer)" Gen.rwAddPeer = true := by decide

theorem gen_rw_rm_guards :
    guard "!find(peers, peer)" "nil" Gen.rwRemovePeer = true ∧
    guard "len(peers) == 1 && peers[0] == peer" "E" Gen.rwRemovePeer = true ∧
    before "if:!find(peers, peer)" "if:len(peers) == 1 && peers[0] == peer" Gen.rwRemovePeer = true ∧
    before "if:len(peers) == 1 && peers[0] == peer" "call:RemoveServer" Gen.rwRemovePeer = true := by decide

theorem gen_wait_for_sync :
    Gen.waitForSync = ["call:WaitForLeader", "if:err != nil", "ret:E", "end",
                       "call:WaitForVoter", "if:err != nil", "ret:E", "end",
                       "call:WaitForUpdates", "if:err != nil", "ret:E", "end", "ret:nil"] ∧
    guard "isVoter(pid, configFuture.Configuration())" "nil" Gen.waitForVoter = true ∧
    guard "lai == li" "nil" Gen.waitForUpdates = true ∧
    guard "server.ID == srvID && server.Suffrage == hraft.Voter" "true" Gen.isVoter = true ∧
    before "call:WaitForSync" "send:cc.readyCh" Gen.finishBootstrap = true := by decide

theorem gen_retry_loops :
    Gen.consAddPeer.head? = some "for:i <= cc.config.CommitRetries" ∧
    Gen.consRmPeer.head? = some "for:i <= cc.config.CommitRetries" ∧
    Gen.redirectToLeader.head? = some "for:i <= cc.config.CommitRetries" ∧
    guard "err != nil || ok" "err" Gen.consAddPeer = true ∧ before "call:redirectToLeader" "call:AddPeer" Gen.consAddPeer = true ∧
    guard "err != nil || ok" "err" Gen.consRmPeer = true ∧ before "call:redirectToLeader" "call:RemovePeer" Gen.consRmPeer = true ∧
    guard "leader == cc.host.ID()" "false,nil" Gen.redirectToLeader = true ∧
    before "if:leader == cc.host.ID()" "call:CallContext" Gen.redirectToLeader = true := by decide

theorem gen_peer_remove_order :
    Gen.peerRemove = ["call:vacatePeer", "call:RmPeer", "if:err != nil", "ret:err", "end", "ret:nil"] ∧
    guard "c.config.DisableRepinning" "" Gen.vacatePeer = true ∧
    before "if:c.config.DisableRepinning" "call:State" Gen.vacatePeer = true ∧
    before "if:containsPeer(pin.Allocations, p)" "call:repinFromPeer" Gen.vacatePeer = true := by decide

theorem gen_watch_peers :
    before "call:Peers" "if:!hasMe" Gen.watchPeers = true ∧
    before "if:!hasMe" "set:c.removed=true" Gen.watchPeers = true ∧
    before "set:c.removed=true" "go:Shutdown" Gen.watchPeers = true := by decide

/-- `RmPeer(self)` is followed by `if err != nil { } else { c.removed = true }`: the flag is set on success only -/
def leaveBranch (l : List String) : Bool :=
  match idx "call:RmPeer" l with
  | some i => l[i + 1]? == some "if:err != nil" && l[i + 2]? == some "else" &&
              l[i + 3]? == some "set:c.removed=true" && l[i + 4]? == some "end"
  | none => false

/- since /repo 87856f0 Shutdown reads `readyB` and `removed` once, under their own lock, into the locals `ready` and
   `removed` (and sets both the local and the field when it leaves): the guards below are over those locals. -/
theorem gen_shutdown_order :
    before "if:c.consensus != nil && c.config.LeaveOnShutdown && ready && !removed" "call:RmPeer" Gen.clusterShutdown = true ∧
    leaveBranch Gen.clusterShutdown = true ∧
    before "set:c.removed=true" "if:con != nil" Gen.clusterShutdown = true ∧
    before "if:con != nil" "if:removed && ready" Gen.clusterShutdown = true ∧
    before "if:removed && ready" "call:Clean" Gen.clusterShutdown = true ∧
    guard "!cc.shutdown" "E" Gen.consClean = true ∧ before "if:!cc.shutdown" "call:CleanupRaft" Gen.consClean = true := by decide

/-! ## what the model allows satisfies the property -/

/-- the full statement: every case the model allows meets every clause of the property -/
def C17_full : Prop := ∀ k : Case, allowed k = true → holds k = true

/-- Every script outcome and observation the model admits meets every clause of the property written from its text
    (scripts of any length, all op kinds, both suites, any backups_rotate, `data_folder` with or without a trailing slash). -/
theorem allowed_holds (k : Case) (ha : allowed k = true) : holds k = true := by
  unfold allowed at ha
  cases hr : replay ⟨k.keep, k.slash⟩ (initState k.tier k.repin k.init) k.ops with
  | none => rw [hr] at ha; cases ha
  | some m =>
    rw [hr] at ha
    simp only at ha
    obtain ⟨R, _, hc⟩ := replay_rel (rel_init k.tier k.repin k.init) hr
    have ho := obs_clauses R ha
    unfold holds clauses
    rw [List.all_append, Bool.and_eq_true]
    exact ⟨hc, ho⟩

theorem C17_full_holds : C17_full := allowed_holds

/-- regression for the repaired finding K35/F36 (`data_folder` with a trailing slash): a peer joins, snapshots, is
    removed, cleans. `gone`/`copies` = what its data folder looks like after `Clean`. -/
def slashCase (gone : Bool) (copies : Nat) : Case :=
  { tier := .cons, repin := true, retries := 1, init := [0], keep := 2, slash := true,
    ops := [.start 1, .add 0 1 .ok, .pin 0 (pinCid 1) .ok, .rm 0 1 .ok, .clean 1 gone copies],
    obs := { members := [{ id := 0, peers := [0], pins := [(pinCid 1).stored], nonvoters := [] }], gone := [] } }

/-- the old behaviour (folder left in place, no copy made) is neither admitted by the model nor by the property;
    the repaired behaviour (folder rotated away into one copy) is admitted by both -/
example : allowed (slashCase false 0) = false ∧ holds (slashCase false 0) = false ∧
    allowed (slashCase true 1) = true ∧ holds (slashCase true 1) = true := by decide

/-- regression for the repaired finding K34: one peer, one pin, leave on shutdown (fails: the last peer cannot be
    removed), restart. `pins` = what the peer reports after the restart. -/
def leaveLastCase (pins : PinMap) : Case :=
  { tier := .cluster, repin := true, retries := 1, init := [0], keep := 2, slash := false,
    ops := [.pin 0 (pinCid 1) .ok, .leave 0 .err, .restart 0],
    obs := { members := [{ id := 0, peers := [0], pins := pins, nonvoters := [] }], gone := [] } }

/-- the old behaviour (empty pinset after the restart) is neither admitted by the model nor by the property;
    the repaired behaviour (pinset kept) is admitted by both -/
example : allowed (leaveLastCase []) = false ∧ holds (leaveLastCase []) = false ∧
    allowed (leaveLastCase [(pinCid 1).stored]) = true ∧ holds (leaveLastCase [(pinCid 1).stored]) = true := by decide

/-- regression for the seeded change "the oldest backup is not removed": the third removal of the same peer with
    backups_rotate = 1 that leaves its folder in place is neither admitted by the model nor by the property -/
def churnCase (gone : Bool) : Case :=
  { tier := .cons, repin := true, retries := 1, init := [0], keep := 1, slash := false,
    ops := [.start 1, .add 0 1 .ok, .pin 0 (pinCid 1) .ok, .rm 0 1 .ok, .clean 1 true 1,
            .start 1, .add 0 1 .ok, .pin 0 (pinCid 1) .ok, .rm 0 1 .ok, .clean 1 gone 1],
    obs := { members := [{ id := 0, peers := [0], pins := [(pinCid 1).stored], nonvoters := [] }], gone := [] } }
example : allowed (churnCase true) = true ∧ holds (churnCase true) = true ∧
    allowed (churnCase false) = false ∧ holds (churnCase false) = false := by decide

def removeLeaderCase : Case :=
  { tier := .cons, repin := true, retries := 1, init := [0], keep := 2, slash := false,
    ops := [.pin 0 (pinCid 1) .ok, .start 1, .add 0 1 .ok, (.ready 1 true true true [(pinCid 1).stored]), .rm 1 0 .ok],
    obs := { members := [{ id := 1, peers := [1], pins := [(pinCid 1).stored], nonvoters := [] }], gone := [] } }
example : allowed removeLeaderCase = true ∧ holds removeLeaderCase = true := by decide

/-! ## the failure arms: traces of attempts, under ANY oracle (Model/C17Fault.lean) -/

/-- the traced loops compute what the loops compute -/
theorem traced_loops_agree (self retries : Nat) (att : Attempt) (orc : Nat → Tick) (n pos : Nat) (log : List Entry) :
    (consLoopT self retries att orc n pos log).1 = consLoop self retries att orc n pos log :=
  consLoopT_fst self retries att orc n pos log

/-- AddPeer / RmPeer / commit report an error exactly when the caller saw no attempt succeed (no answered forward
    with a good result, no own Raft call that succeeded) — any oracle, any number of retries -/
theorem error_iff_no_attempt_succeeded (self retries : Nat) (att : Attempt) (orc : Nat → Tick) (log : List Entry) :
    (consLoopT self retries att orc (retries + 1) 0 log).1.1 = .err ↔
      ∀ a ∈ (consLoopT self retries att orc (retries + 1) 0 log).2, a.ackOk = false := by
  obtain ⟨h1, h2⟩ := consLoopT_trace self retries att orc (retries + 1) 0 log
  refine ⟨h2, fun hall => ?_⟩
  cases hr : (consLoopT self retries att orc (retries + 1) 0 log).1.1 with
  | err => rfl
  | ok =>
    obtain ⟨a, ha, hk⟩ := h1 hr
    rw [hall a ha] at hk; cases hk

/-- an acknowledged call: some attempt was executed by the leader, succeeded there, and its answer arrived -/
theorem ack_implies_some_attempt_committed (self retries : Nat) (att : Attempt) (orc : Nat → Tick) (log : List Entry)
    (h : (consLoopT self retries att orc (retries + 1) 0 log).1.1 = .ok) :
    ∃ a ∈ (consLoopT self retries att orc (retries + 1) 0 log).2, a.answered = true ∧ a.res = .ok := by
  obtain ⟨a, ha, hk⟩ := (consLoopT_trace self retries att orc (retries + 1) 0 log).1 h
  refine ⟨a, ha, ?_⟩
  simpa [Att.ackOk] using hk

/-- a call reported as FAILED in which no reply was lost left the log — hence every member's peerset and pinset — alone -/
theorem failed_without_lost_reply_unchanged (self retries : Nat) (orc : Nat → Tick) (log : List Entry) (p : Nat) :
    ((consLoopT self retries (rwAddPeer p) orc (retries + 1) 0 log).1.1 = .err →
      (∀ a ∈ (consLoopT self retries (rwAddPeer p) orc (retries + 1) 0 log).2, a.executed = true → a.answered = true) →
      (consAddPeer self retries orc log p).2 = log) ∧
    ((consLoopT self retries (rwRemovePeer p) orc (retries + 1) 0 log).1.1 = .err →
      (∀ a ∈ (consLoopT self retries (rwRemovePeer p) orc (retries + 1) 0 log).2, a.executed = true → a.answered = true) →
      (consRmPeer self retries orc log p).2 = log) := by
  constructor
  · intro h1 h2
    have := consLoopT_no_lost (errEmpty_add p) (retries + 1) 0 log h1 h2
    rw [consLoopT_fst] at this
    exact this
  · intro h1 h2
    have := consLoopT_no_lost (errEmpty_rm p) (retries + 1) 0 log h1 h2
    rw [consLoopT_fst] at this
    exact this

/-- whatever the oracle: an AddPeer leaves the log alone, or — only if the peer was absent — appends ONE AddVoter -/
theorem add_once_if_absent (self retries : Nat) (orc : Nat → Tick) (log : List Entry) (p : Nat) :
    (consAddPeer self retries orc log p).2 = log ∨
    (cfgHas (cfgAt log) p = false ∧ (consAddPeer self retries orc log p).2 = log ++ [.addVoter p]) :=
  add_once_if_absent' self retries orc log p

theorem rm_once_if_present (self retries : Nat) (orc : Nat → Tick) (log : List Entry) (p : Nat) :
    (consRmPeer self retries orc log p).2 = log ∨
    (cfgHas (cfgAt log) p = true ∧ (consRmPeer self retries orc log p).2 = log ++ [.rmServer p]) :=
  rm_once_if_present' self retries orc log p

/-- an acknowledged AddPeer / RmPeer is committed: the peer is in / out of the configuration of the (single) log, and
    the log is either untouched (the peer was already there / already gone) or one entry longer — any oracle -/
theorem ack_implies_committed (self retries : Nat) (orc : Nat → Tick) (log : List Entry) (p : Nat) :
    ((consAddPeer self retries orc log p).1 = .ok →
      cfgHas (cfgAt (consAddPeer self retries orc log p).2) p = true ∧
      ((cfgHas (cfgAt log) p = true ∧ (consAddPeer self retries orc log p).2 = log) ∨
       (cfgHas (cfgAt log) p = false ∧ (consAddPeer self retries orc log p).2 = log ++ [.addVoter p]))) ∧
    ((consRmPeer self retries orc log p).1 = .ok →
      cfgHas (cfgAt (consRmPeer self retries orc log p).2) p = false ∧
      ((cfgHas (cfgAt log) p = false ∧ (consRmPeer self retries orc log p).2 = log) ∨
       (cfgHas (cfgAt log) p = true ∧ (consRmPeer self retries orc log p).2 = log ++ [.rmServer p]))) := by
  constructor
  · intro h
    have he := add_effect self retries orc log p h
    refine ⟨he, ?_⟩
    rcases add_once_if_absent self retries orc log p with h1 | h1
    · left; rw [h1] at he; exact ⟨he, h1⟩
    · right; exact h1
  · intro h
    have he := rm_effect self retries orc log p h
    refine ⟨he, ?_⟩
    rcases rm_once_if_present self retries orc log p with h1 | h1
    · left; rw [h1] at he; exact ⟨he, h1⟩
    · right; exact h1

/-- idempotence under retries: a follower's AddPeer whose forward is answered at least once within its
    `commit_retries + 1` attempts is acknowledged — however many earlier forwards were refused, or were EXECUTED with the
    answer lost — and the peer was added at most once (`add_once_if_absent`). In particular a retried AddPeer whose
    first attempt committed but whose answer was lost does not report failure. -/
theorem lost_reply_retry_acks (self lead retries : Nat) (orc : Nat → Tick) (log : List Entry) (p : Nat)
    (hl : ∀ k, (orc k).leader = some lead) (hne : lead ≠ self) (h : ∃ i, i ≤ retries ∧ (orc i).ok = true) :
    (consAddPeer self retries orc log p).1 = .ok ∧ cfgHas (cfgAt (consAddPeer self retries orc log p).2) p = true := by
  have hok : (consAddPeer self retries orc log p).1 = .ok :=
    consLoop_answered (good_add_any p) hl trivial (by simpa using hne) h
  exact ⟨hok, add_effect self retries orc log p hok⟩

/-- the first forward commits and its answer is lost; the retry is answered: acknowledged, ONE entry -/
example : consAddPeer 1 1 (planOrc 1 0 [.l]) [.boot [0, 1, 2]] 3 = (.ok, [.boot [0, 1, 2], .addVoter 3]) := by decide
/-- … with `commit_retries = 0` there is no retry: reported as failed, yet in the single log (visible on all, not split) -/
example : consAddPeer 1 0 (planOrc 1 0 [.l]) [.boot [0, 1, 2]] 3 = (.err, [.boot [0, 1, 2], .addVoter 3]) := by decide
/-- the leader (0) loses the leadership between looking and calling Raft: its call fails; with a retry the request is
    forwarded to the new leader (2) and acknowledged; without one it is reported as failed and nothing happened -/
example : consAddPeer 0 1 (planOrc 0 2 [.x]) [.boot [0, 1, 2]] 3 = (.ok, [.boot [0, 1, 2], .addVoter 3]) ∧
    consAddPeer 0 0 (planOrc 0 2 [.x]) [.boot [0, 1, 2]] 3 = (.err, [.boot [0, 1, 2]]) := by decide
/-- every forward refused: failed, nothing happened; three forwards for `commit_retries = 2` -/
example : (consLoopT 1 2 (rwAddPeer 3) (planOrc 1 0 [.f, .f, .f, .f]) 3 0 [.boot [0, 1, 2]]).1 = (.err, [.boot [0, 1, 2]]) ∧
    fwdCount (consLoopT 1 2 (rwAddPeer 3) (planOrc 1 0 [.f, .f, .f, .f]) 3 0 [.boot [0, 1, 2]]).2 = 3 := by decide

/-! ## concurrent issue: the single log linearises membership changes and pins -/

/-- Whatever order Raft gave to the acknowledged configuration entries and pin entries issued concurrently — `log` is
    ANY list of entries, in particular any interleaving of two sequences — two members that applied the same index
    report the same peerset and the same pinset; and for every interleaving all caught-up members report the
    configuration and the pinset of that one log. -/
theorem interleaved_log_agree (log : List Entry) (m1 m2 : Member)
    (hh : m1.have_ = m2.have_) (ha : m1.applied = m2.applied) :
    m1.peers log = m2.peers log ∧ m1.pins log = m2.pins log := by
  unfold Member.peers Member.cfg Member.pins
  rw [hh, ha]
  exact ⟨rfl, rfl⟩

/-- pins do not disturb the configuration and configuration entries do not disturb the pinset: in any interleaving
    the peerset is the replay of the configuration entries alone and the pinset the replay of the pin entries alone -/
theorem interleaving_projections (log : List Entry) :
    cfgAt log = cfgAt (log.filter (fun e => !e.isPinOp)) ∧ pinsAt log = pinsAt (log.filter (fun e => e.isPinOp)) := by
  unfold cfgAt pinsAt
  constructor
  · generalize ([] : Config) = c
    induction log generalizing c with
    | nil => rfl
    | cons e rest ih =>
      cases he : e.isPinOp with
      | true => simp only [List.foldl_cons, List.filter_cons, he, Bool.not_true, Bool.false_eq_true, if_false]
                rw [applyCfg_of_pinOp he]; exact ih c
      | false => simp only [List.foldl_cons, List.filter_cons, he, Bool.not_false, if_true]; exact ih _
  · generalize ([] : PinMap) = c
    induction log generalizing c with
    | nil => rfl
    | cons e rest ih =>
      cases he : e.isPinOp with
      | false => simp only [List.foldl_cons, List.filter_cons, he, Bool.false_eq_true, if_false]
                 rw [applyPin_of_not_pinOp he]; exact ih c
      | true => simp only [List.foldl_cons, List.filter_cons, he, if_true]; exact ih _

example : cfgIds (cfgAt [.boot [0, 1], .pin (pinCid 1), .addVoter 2, .pin (pinCid 2), .rmServer 0]) = [1, 2] ∧
    cfgIds (cfgAt [.boot [0, 1], .addVoter 2, .rmServer 0, .pin (pinCid 1), .pin (pinCid 2)]) = [1, 2] := by decide

/-! ## fault scripts: what the model admits of a run with injected failures meets the property -/

/-- the full statement for suite `fault`: every fault script outcome and observation the model admits — any plan of
    refused forwards, lost replies and refused Raft calls, any `commit_retries`, calls at leaders and followers,
    removal of the leader or of the caller through a lost reply — meets every clause of the property -/
def C17_fault_full : Prop := ∀ k : FCase, fAllowed k = true → fHolds k = true

theorem fault_allowed_holds (k : FCase) (ha : fAllowed k = true) : fHolds k = true := by
  unfold fAllowed at ha
  cases hr : fReplay k.retries k.init [.boot k.init] k.ops with
  | none => rw [hr] at ha; cases ha
  | some log =>
    rw [hr] at ha
    simp only at ha
    obtain ⟨R, hc⟩ := fReplay_rel k.ops (fRel_init k.init) hr
    unfold fHolds fClauses
    rw [List.all_append, Bool.and_eq_true]
    exact ⟨hc, fObs_clauses R ha⟩

theorem C17_fault_full_holds : C17_fault_full := fault_allowed_holds

/-- commit_retries = 1, follower 1 adds peer 3: the first forward commits but its answer is lost, the retry is
    acknowledged; then its removal fails twice at the endpoint (reported as failed, nothing happened) -/
def lostReplyCase (res2 : Res) (has2 : Has) (peers : List Nat) : FCase :=
  { retries := 1, init := [0, 1, 2],
    ops := [.add 1 3 0 [.l] .ok 2 0 .all, .rm 1 3 0 [.f, .f] res2 2 0 has2],
    obs := { members := [0, 1, 2].map (fun i => { id := i, peers := peers, pins := [], nonvoters := [] }), gone := [] } }

example : fAllowed (lostReplyCase .err .all [0, 1, 2, 3]) = true ∧ fHolds (lostReplyCase .err .all [0, 1, 2, 3]) = true ∧
    -- a removal acknowledged although every forward failed (redirectToLeader swallowing the error) breaks `ack_in_all`
    fHolds (lostReplyCase .ok .all [0, 1, 2, 3]) = false ∧ fAllowed (lostReplyCase .ok .all [0, 1, 2, 3]) = false ∧
    -- a split outcome is refused
    fHolds (lostReplyCase .err .mixed [0, 1, 2, 3]) = false := by decide

/-! ## concurrent phases (suite `conc`)

The full statement: every observation the model explains by SOME order of each phase meets the clauses. Still a
definition (the pinset half and the three per-call clauses are validated by the correspondence run only). PROVED below,
for ALL cases: the membership half — the invariant goes through `perms` / `dedupLogs` / `cApplyAll` by `cLogs_inv`. -/
def C17_conc_full : Prop := ∀ k : CCase, cAllowed k = true → cHolds k = true

/-- ANY order of a phase (`order` a permutation of it), ANY admitted outcome of every call (failed calls with or without
    a trace in the log, pins and other peers' changes interleaved): a peer named only by acknowledged AddPeer calls is in
    the configuration afterwards; one named only by acknowledged RmPeer calls is not; one nobody names is where it was. -/
theorem conc_phase_acked_change_lands (running : List Nat) (ph order : List COp) (log log' : List Entry) (j : Nat)
    (hp : order.Perm ph) (hr : CReach running (removesRunning running ph) log order log') :
    ((∀ o ∈ ph, o.subject = some j → ∃ a, o = .add a j .ok) → (∃ o ∈ ph, o.subject = some j) →
        cfgHas (cfgAt log') j = true) ∧
    ((∀ o ∈ ph, o.subject = some j → ∃ a, o = .rm a j .ok) → (∃ o ∈ ph, o.subject = some j) →
        cfgHas (cfgAt log') j = false) ∧
    ((∀ o ∈ ph, o.subject ≠ some j) → cfgHas (cfgAt log') j = cfgHas (cfgAt log) j) := by
  refine ⟨fun hall ⟨o, ho, hs⟩ => reach_acked_adds hr (fun o ho => hall o (hp.mem_iff.1 ho)) (Or.inr ⟨o, hp.mem_iff.2 ho, hs⟩),
    fun hall ⟨o, ho, hs⟩ => reach_acked_rms hr (fun o ho => hall o (hp.mem_iff.1 ho)) (Or.inr ⟨o, hp.mem_iff.2 ho, hs⟩),
    fun hn => reach_untouched hr (fun o ho => hn o (hp.mem_iff.1 ho))⟩

/-- WHOLE HISTORY, all phases, all orders: on every log the concurrent model reaches, every peer the property's
    bookkeeping is SURE of (`cAdvance`: named by exactly one call of its phase, acknowledged — or untouched since) is in
    the configuration iff the bookkeeping lists it -/
theorem conc_sure_peers_in_every_log (init : List Nat) (phases : List (List COp)) (log : List Entry)
    (h : log ∈ cLogs (normPeers init) [[.boot init]] phases) (j : Nat)
    (hj : (cFinal (cInit init) phases).unsureP.contains j = false) :
    cfgHas (cfgAt log) j = (cFinal (cInit init) phases).members.contains j :=
  cLogs_surePeers init phases log h j hj

/-- `C17_conc_full` RESTRICTED TO THREE OF THE FOUR SYNC-POINT CLAUSES (`agree`, `ack_in_all`, `pinset_agree`), for every concurrent
    case: whatever the model admits, the remaining members the bookkeeping is sure of report ONE peerset, which contains
    every surely-added peer and nothing but listed or unsure peers, and ONE pinset. Not covered: `pinset_kept`, and the
    per-call clauses `add_present_noop` / `rm_absent_noop` / `last_peer_kept`. -/
theorem conc_allowed_membership_holds (k : CCase) (ha : cAllowed k = true) :
    ∀ c ∈ cCheckObs k.init (cFinal (cInit k.init) k.phases) k.obs,
      (c.1 = "agree" ∨ c.1 = "ack_in_all" ∨ c.1 = "pinset_agree") → c.2 = true := by
  unfold cAllowed at ha
  obtain ⟨log, hlog, hobs⟩ := List.any_eq_true.1 ha
  have S := cLogs_surePeers k.init k.phases log hlog
  generalize cFinal (cInit k.init) k.phases = s at S ⊢
  unfold fObsOk at hobs
  simp only [Bool.and_eq_true, List.all_eq_true] at hobs
  obtain ⟨h1, _⟩ := hobs
  have key : ∀ m ∈ k.obs.members.filter
      (fun m => k.init.contains m.id && s.members.contains m.id && !s.unsureP.contains m.id),
      m.peers = cfgIds (cfgAt log) ∧ canonMap m.pins = canonMap (pinsAt log) := by
    intro m hm
    obtain ⟨hm1, hm2⟩ := List.mem_filter.1 hm
    simp only [Bool.and_eq_true, Bool.not_eq_true'] at hm2
    have hc : cfgHas (cfgAt log) m.id = true := by rw [S m.id hm2.2]; exact hm2.1.2
    have := h1 m hm1
    simp only [hm2.1.1, hc, Bool.and_self, Bool.not_true, Bool.false_or, Bool.and_eq_true, beq_iff_eq] at this
    exact ⟨this.1.1, this.1.2⟩
  intro c hc hn
  simp only [cCheckObs, List.mem_cons, List.not_mem_nil, or_false] at hc
  generalize k.obs.members.filter
      (fun m => k.init.contains m.id && s.members.contains m.id && !s.unsureP.contains m.id) = R at key hc
  rcases hc with rfl | rfl | rfl | rfl
  · simp only [List.all_eq_true]
    intro m hm
    obtain ⟨f, hf⟩ : ∃ f, R.head? = some f := by
      cases R with
      | nil => cases hm
      | cons f tl => exact ⟨f, rfl⟩
    have hfm : f ∈ R := List.mem_of_mem_head? hf
    rw [hf]; simp [(key m hm).1, (key f hfm).1]
  · simp only [List.all_eq_true, Bool.and_eq_true, Bool.or_eq_true]
    intro m hm
    rw [(key m hm).1]
    constructor
    · intro j hjm
      cases hu : s.unsureP.contains j with
      | true => exact Or.inl rfl
      | false =>
        right
        have := S j hu
        rw [List.contains_iff_mem.2 hjm] at this
        exact this
    · intro j hjc
      cases hu : s.unsureP.contains j with
      | true => exact Or.inr rfl
      | false =>
        left
        rw [← S j hu]
        unfold cfgHas; exact List.contains_iff_mem.2 hjc
  · simp only [List.all_eq_true]
    intro m hm
    obtain ⟨f, hf⟩ : ∃ f, R.head? = some f := by
      cases R with
      | nil => cases hm
      | cons f tl => exact ⟨f, rfl⟩
    have hfm : f ∈ R := List.mem_of_mem_head? hf
    rw [hf]; simp [(key m hm).2, (key f hfm).2]
  · simp only at hn; rcases hn with h | h | h <;> exact absurd h (by decide)

/-- `cAllowed → cHolds` for the clause `pinset_kept`: whatever the model admits, every remaining member the bookkeeping
    is sure of reports, on the cids the bookkeeping is sure of, exactly the bookkept pinset. -/
theorem conc_allowed_pinset_kept (k : CCase) (ha : cAllowed k = true) :
    ∀ c ∈ cCheckObs k.init (cFinal (cInit k.init) k.phases) k.obs, c.1 = "pinset_kept" → c.2 = true := by
  unfold cAllowed at ha
  obtain ⟨log, hlog, hobs⟩ := List.any_eq_true.1 ha
  have S := cLogs_surePeers k.init k.phases log hlog
  have P := conc_sure_pins_in_every_log k.init k.phases log hlog
  generalize cFinal (cInit k.init) k.phases = s at S P ⊢
  unfold fObsOk at hobs
  simp only [Bool.and_eq_true, List.all_eq_true] at hobs
  obtain ⟨h1, _⟩ := hobs
  have key : ∀ m ∈ k.obs.members.filter
      (fun m => k.init.contains m.id && s.members.contains m.id && !s.unsureP.contains m.id),
      canonMap m.pins = canonMap (pinsAt log) := by
    intro m hm
    obtain ⟨hm1, hm2⟩ := List.mem_filter.1 hm
    simp only [Bool.and_eq_true, Bool.not_eq_true'] at hm2
    have hc : cfgHas (cfgAt log) m.id = true := by rw [S m.id hm2.2]; exact hm2.1.2
    have := h1 m hm1
    simp only [hm2.1.1, hc, Bool.and_self, Bool.not_true, Bool.false_or, Bool.and_eq_true, beq_iff_eq] at this
    exact this.1.2
  intro c hc hn
  simp only [cCheckObs, List.mem_cons, List.not_mem_nil, or_false] at hc
  generalize k.obs.members.filter
      (fun m => k.init.contains m.id && s.members.contains m.id && !s.unsureP.contains m.id) = R at key hc
  rcases hc with rfl | rfl | rfl | rfl
  · simp only at hn; exact absurd hn (by decide)
  · simp only at hn; exact absurd hn (by decide)
  · simp only at hn; exact absurd hn (by decide)
  · simp only [List.all_eq_true, beq_iff_eq]
    intro m hm
    exact surePins_kept P (key m hm)

/-- a pin at the leader races with the leader's own removal: acknowledged pin present in either order -/
def concCase (pins : PinMap) : CCase :=
  { retries := 1, init := [0, 1, 2],
    phases := [[.rm 0 0 .ok, .pin 0 (pinCid 1) .ok, .pin 1 (pinCid 2) .ok]],
    obs := { members := [1, 2].map (fun i => { id := i, peers := [1, 2], pins := pins, nonvoters := [] }), gone := [] } }
example : cAllowed (concCase [(pinCid 1).stored, (pinCid 2).stored]) = true ∧
    cHolds (concCase [(pinCid 1).stored, (pinCid 2).stored]) = true ∧
    cHolds (concCase [(pinCid 2).stored]) = false ∧ cAllowed (concCase [(pinCid 2).stored]) = false := by decide
/-- the hypotheses of the three theorems above are met by that case: its one phase names peer 0 by exactly one call, an
    acknowledged removal, racing with two pins -/
example : cAllowed (concCase [(pinCid 1).stored, (pinCid 2).stored]) = true ∧
    (cFinal (cInit [0, 1, 2]) (concCase []).phases).unsureP.contains 0 = false ∧
    (cFinal (cInit [0, 1, 2]) (concCase []).phases).members = [1, 2] := by decide

/-! ## a joiner during a burst of pins (suite `join`) -/

/-- A peer that `WaitForSync` lets through has applied every entry logged before its own addition — also when entries
    keep arriving while it catches up: if no entry below index `a` gives it a vote, `a < applied` and its pinset is the
    pinset at `a` extended by the entries it applied since. -/
theorem joiner_holds_everything_before_addition (log : List Entry) (j h a : Nat)
    (hr : syncReady log true { id := j, have_ := h, applied := h } = true)
    (hfirst : ∀ k e, log[k]? = some e → e.enfranchises j = true → a ≤ k) :
    a < h ∧ pinsAt (log.take h) = ((log.take h).drop a).foldl applyPin (pinsAt (log.take a)) :=
  joiner_sync_lemma log j h a hr hfirst

/-- the full statement for suite `join`: whatever position Raft gave to the joiner's addition among the pins of the burst
    (after those acknowledged before `AddPeer` was issued) and whatever prefix the joiner had applied when `WaitForSync`
    let it through, it held every pin acknowledged before the join was issued, and after the burst everybody reports
    one peerset and one pinset. Hypotheses: the joiner is a new peer, the pins have distinct cids. -/
theorem join_allowed_holds (k : JCase) (hw : WfJ k) (ha : jAllowed k = true) : jHolds k = true :=
  join_allowed_holds' k hw ha

/-- one member, two pins before, a burst of three of which one was acknowledged when the join was issued -/
def joinCase (ready : PinMap) : JCase :=
  { init := [0], joiner := 3, pre := [pinCid 0, pinCid 1], burst := [pinCid 2, pinCid 3, pinCid 4], acked := 1, addRes := .ok,
    bits := (true, true, true), ready := ready,
    obs := { members := [0, 3].map (fun i =>
               ({ id := i, peers := [0, 3], pins := [pinCid 0, pinCid 1, pinCid 2, pinCid 3, pinCid 4].map Pin.stored, nonvoters := [] } : MemberObs)),
             gone := [] } }

example : jAllowed (joinCase ([pinCid 0, pinCid 1, pinCid 2, pinCid 3].map Pin.stored)) = true ∧
    jHolds (joinCase ([pinCid 0, pinCid 1, pinCid 2, pinCid 3].map Pin.stored)) = true ∧
    -- ready before its own addition was applied (WaitForSync without the voter wait): neither admitted nor accepted
    jAllowed (joinCase ([pinCid 0].map Pin.stored)) = false ∧ jHolds (joinCase ([pinCid 0].map Pin.stored)) = false := by decide

/-! ## raftWrapper: a future error is returned as an error (latest vs committed configuration) -/

/-- the code (`recheck = false`) is the Bool-future wrapper the retry loops are stated over: whatever the leader's own
    log shows after a failed future, the attempt fails and nothing reaches the committed log -/
theorem wrapper_future_error_is_error (p : Nat) (c : Config) (fut : Fut) :
    rwAddPeerW false p c fut = rwAddPeer p c (fut == .ok) ∧ rwRemovePeerW false p c fut = rwRemovePeer p c (fut == .ok) := by
  unfold rwAddPeerW rwAddPeer rwRemovePeerW rwRemovePeer
  cases fut <;> simp

/-- acknowledged ⇒ committed, at the wrapper: NEEDS "a future error is returned as an error" (`recheck = false`) -/
theorem ack_implies_committed_wrapper (log : List Entry) (p : Nat) (fut : Fut) :
    ((rwAddPeerW false p (cfgAt log) fut).1 = .ok →
      cfgHas (cfgAt (log ++ (rwAddPeerW false p (cfgAt log) fut).2)) p = true) ∧
    ((rwRemovePeerW false p (cfgAt log) fut).1 = .ok →
      cfgHas (cfgAt (log ++ (rwRemovePeerW false p (cfgAt log) fut).2)) p = false) := by
  rw [(wrapper_future_error_is_error p (cfgAt log) fut).1, (wrapper_future_error_is_error p (cfgAt log) fut).2]
  constructor
  · intro h
    cases hh : cfgHas (cfgAt log) p with
    | true => rw [rwAddPeer_present hh, List.append_nil]; exact hh
    | false =>
      unfold rwAddPeer at h ⊢
      simp only [hh, Bool.false_eq_true, if_false] at h ⊢
      split_ifs at h ⊢
      rw [cfgAt_append]; simp only [applyCfg]; rw [cfgHas_cfgPut]; simp
  · intro h
    cases hh : cfgHas (cfgAt log) p with
    | false => rw [rwRemovePeer_absent hh, List.append_nil]; exact hh
    | true =>
      unfold rwRemovePeer at h ⊢
      simp only [hh, Bool.not_true, Bool.false_eq_true, if_false] at h ⊢
      split_ifs at h ⊢
      rw [cfgAt_append]; simp only [applyCfg]; rw [cfgHas_cfgErase]; simp

/-- the refuted alternative (seeded change C17e: on a future error trust `rw.Peers()`, i.e. the LATEST configuration):
    a cut-off leader acknowledges an addition / a removal that no quorum accepted — the committed configuration, which is
    what every member reports after the partition heals, does not have / still has the peer -/
theorem recheck_acks_uncommitted :
    ((rwAddPeerW true 3 (cfgAt [.boot [0, 1, 2]]) .errAppended).1 = .ok ∧
      cfgHas (cfgAt ([.boot [0, 1, 2]] ++ (rwAddPeerW true 3 (cfgAt [.boot [0, 1, 2]]) .errAppended).2)) 3 = false) ∧
    ((rwRemovePeerW true 2 (cfgAt [.boot [0, 1, 2]]) .errAppended).1 = .ok ∧
      cfgHas (cfgAt ([.boot [0, 1, 2]] ++ (rwRemovePeerW true 2 (cfgAt [.boot [0, 1, 2]]) .errAppended).2)) 2 = true) := by
  decide

/-- everything after the first occurrence of `a`, inclusive -/
def fromFirst (a : String) (l : List String) : List String := l.dropWhile (· != a)

/-- on today's source: after the Raft call the wrappers do nothing but return the future's error (AddPeer: log, then
    `return err`; RemovePeer: `if err != nil { return err }; return nil`) — no second look at the configuration -/
theorem gen_rw_future_error_returned :
    fromFirst "call:AddVoter" Gen.rwAddPeer = ["call:AddVoter", "if:err != nil", "end", "ret:err"] ∧
    fromFirst "call:RemoveServer" Gen.rwRemovePeer = ["call:RemoveServer", "if:err != nil", "ret:err", "end", "ret:nil"] := by
  decide

/-- the partition on real peers (suite `fault`, plan `p`): acknowledged by the cut-off leader, in nobody's peerset -/
def partitionCase (res : Res) (has : Has) (peers : List Nat) : FCase :=
  { retries := 0, init := [0, 1, 2], ops := [.rm 0 2 1 [.p] res 0 1 has],
    obs := { members := [0, 1, 2].map (fun i => ({ id := i, peers := peers, pins := [], nonvoters := [] } : MemberObs)), gone := [] } }
example : fAllowed (partitionCase .err .all [0, 1, 2]) = true ∧ fHolds (partitionCase .err .all [0, 1, 2]) = true ∧
    fAllowed (partitionCase .ok .all [0, 1, 2]) = false ∧ fHolds (partitionCase .ok .all [0, 1, 2]) = false := by decide

/-! ## Round 8 — departure of a peer: who starts `Shutdown`, and with which flag

`Gen.shutdownSites` (regenerated from cluster.go on every run) lists every place that starts `c.Shutdown` with its
enclosing conditions and whether `c.removed = true` dominates it. `Shutdown` reads `removed` once: a start that is not
preceded by the assignment never reaches `consensus.Clean`. -/

/-- today's sites as the model's structure -/
def codeSites : List Site := Gen.shutdownSites.map Site.ofGen

/-- on today's source every site is one the model understands (`watchPeers` on `!hasMe`, start-up failures of
    `NewCluster` / `ready()` before `readyB`), every start caused by the peer's absence from the peerset carries the flag,
    and a removal decided elsewhere is noticed -/
theorem gen_shutdown_sites_safe : sitesSafe codeSites = true := by decide

/-- ANY safe site list, ANY history of removals by others, self-removals (succeeding or failing), watch rounds (answered or
    not), operator stops (leaving or not, `RmPeer(self)` succeeding or not) and writes, any `backups_rotate`, any
    `data_folder` spelling: a peer that has stopped and is no member any more holds no consensus data — unless the
    history left the statement (`outside`: stopped by the operator after its removal and before its watch round by a
    `Shutdown` that does not consult an answering `consensus.Peers`, or removed while down). Round 8c states the same for
    today's consulting `Shutdown` WITHOUT the marker: `departure_cleans_today`. -/
theorem departure_cleans (sites : List Site) (hs : sitesSafe sites = true) (keep : Nat) (slash leave : Bool)
    (backups : Nat) (evs : List DEv) (consult : Bool := false) :
    let st := depRun sites keep slash (freshPeer leave backups consult) evs
    st.outside = false → st.f.shutdown = true → st.member = false → st.disk.data = false := by
  intro st ho hsd hm
  have hi : DepInv st := depRun_inv hs keep slash evs (freshPeer leave backups consult) ⟨rfl, Or.inr rfl⟩
  rcases hi.2 with h | h
  · rw [ho] at h; cases h
  · unfold departedClean at h
    rw [hsd, hm] at h
    simpa using h

/-- … in particular for the sites of today's cluster.go -/
theorem departure_cleans_code (keep : Nat) (slash leave : Bool) (backups : Nat) (evs : List DEv) :
    let st := depRun codeSites keep slash (freshPeer leave backups (effectsConsult Gen.shutdownEffects)) evs
    st.outside = false → st.f.shutdown = true → st.member = false → st.disk.data = false :=
  departure_cleans codeSites gen_shutdown_sites_safe keep slash leave backups evs (effectsConsult Gen.shutdownEffects)

def selfRemovalHistory : List DEv :=
  [.write true, .selfRemove true true true, .tick false true true, .write false, .tick true true true]
example : (depRun codeSites 2 false (freshPeer false 0) selfRemovalHistory).outside = false ∧
    (depRun codeSites 2 false (freshPeer false 0) selfRemovalHistory).f.shutdown = true ∧
    (depRun codeSites 2 false (freshPeer false 0) selfRemovalHistory).member = false ∧
    (depRun codeSites 2 false (freshPeer false 0) selfRemovalHistory).disk = ⟨false, false, 0⟩ ∧
    (depRun codeSites 2 false (freshPeer false 0) selfRemovalHistory).acts = [Act.consShutdown, Act.clean, Act.done] := by decide

/-- a running, ready peer that is no member any more stops AND cleans at its next answered watch round (safe sites) -/
theorem removed_peer_stops_at_watch_round (sites : List Site) (hs : sitesSafe sites = true) (keep : Nat) (slash : Bool)
    (st : PSt) (p r : Bool) (hrun : st.f.shutdown = false) (hrd : st.f.ready = true) (hm : st.member = false) :
    let st' := depStep sites keep slash st (.tick true p r)
    st'.f.shutdown = true ∧ st'.disk.data = false := by
  simp only [depStep, hrun, hm, Bool.not_true, Bool.or_false, Bool.false_eq_true, if_false]
  unfold fire
  simp only [safe_has_absent hs, Bool.false_eq_true, if_false, safe_hit_flagged hs .absent (Or.inl rfl), Bool.or_true]
  have := doShutdown_removed keep slash { st with f := { st.f with removed := true } } p r hrun hrd rfl
  exact ⟨this.2.1, this.1⟩

/-- the refuted alternative (seeded change C17f): `PeerRemove` starts `Shutdown` for `pid == c.id` without the flag. The
    site list is not safe, and the history "the peer removes itself" ends with a stopped non-member that kept raft.db
    and its snapshot — inside the statement (`outside = false`), whatever `leave_on_shutdown` is when the second
    `RmPeer(self)` cannot succeed any more. The same edit with the flag assigned first is safe. -/
theorem early_shutdown_keeps_data :
    sitesSafe earlyShutdownSites = false ∧
    (∀ leave : Bool,
      let st := depRun earlyShutdownSites 2 false (freshPeer leave 0) [.write true, .selfRemove true true false]
      st.outside = false ∧ st.f.shutdown = true ∧ st.member = false ∧ st.disk.data = true ∧ st.acts.contains .clean = false) ∧
    sitesSafe earlyFlaggedSites = true := by decide

/-- every unflagged self-removal site is refuted, not only the seeded one: if some site fires on `PeerRemove(self)`
    without the flag, the one-step history "remove yourself" leaves a stopped non-member with its data -/
theorem unflagged_self_removal_refuted (sites : List Site) (s : Site) (hin : s ∈ sites)
    (hc : classify s = some .selfRemoved) (hf : s.flagged = false) (keep : Nat) (slash : Bool) (backups : Nat) :
    let st := depRun sites keep slash (freshPeer false backups) [.selfRemove true true true]
    st.outside = false ∧ st.f.shutdown = true ∧ st.member = false ∧ st.disk.data = true := by
  have hmem : s ∈ sites.filter (fun s => classify s == some Trig.selfRemoved) :=
    List.mem_filter.mpr ⟨hin, by simp [hc]⟩
  have hne : (sites.filter (fun s => classify s == some Trig.selfRemoved)).isEmpty = false := by
    cases hl : sites.filter (fun s => classify s == some Trig.selfRemoved) with
    | nil => rw [hl] at hmem; cases hmem
    | cons a l => rfl
  have hall : (sites.filter (fun s => classify s == some Trig.selfRemoved)).all (·.flagged) = false := by
    rw [Bool.eq_false_iff]
    intro h
    rw [List.all_eq_true] at h
    have := h s hmem
    rw [hf] at this; cases this
  simp [depRun, depStep, freshPeer, fire, hne, hall, doShutdown, shutdownActsC, shutdownActs]

/-- the machine WITHOUT the consulting `Shutdown` (`consult = false`, the code before /repo 3277283): (a) another member
    removes the peer and the operator stops it before its next watch round; (b) the peer is removed while it is down — both
    keep the data and are marked `outside`. Since 3277283 (a) is INSIDE the statement (`departure_cleans_today`). -/
theorem stop_before_watch_round_keeps_data :
    (let st := depRun codeSites 2 false (freshPeer false 0) [.removedByOther, .stop true true]
     st.outside = true ∧ st.f.shutdown = true ∧ st.member = false ∧ st.disk.data = true) ∧
    (let st := depRun codeSites 2 false (freshPeer false 0) [.stop true true, .removedByOther]
     st.outside = true ∧ st.f.shutdown = true ∧ st.member = false ∧ st.disk.data = true) := by decide

/-! ## Round 8b — `Shutdown` interpreted, the departure clause on real peers, the gap and its repair

`Gen.shutdownEffects` (regenerated on every run) is the list of tracked effects of `(*Cluster).Shutdown` with the atoms
of their guards; `interpShutdown` runs it. The departure machine uses the closed form `shutdownActsC consult`; the next
statement says they are the same function on today's source, for every flag and oracle value. -/

set_option maxRecDepth 100000 in
/-- today's `Shutdown`, interpreted from its regenerated structure, IS the closed form the theorems are about: same acts in
    the same order, same final `removed` — for all 128 values of (ready, removed, leave_on_shutdown, already shut down,
    listed by `consensus.Peers`, `Peers` answers, `RmPeer(self)` succeeds). `effectsConsult` reads off the structure
    whether `Shutdown` itself looks at the peerset (it does not today; with notes/proposed_fixes/C17-1.diff it does). -/
theorem gen_shutdown_effects_agree :
    ∀ rd rm lv sd m p r : Bool,
      interpShutdown Gen.shutdownEffects ⟨⟨rd, rm, lv, sd⟩, m, p, r⟩ =
        some (closedShutdown (effectsConsult Gen.shutdownEffects) ⟨⟨rd, rm, lv, sd⟩, m, p, r⟩) := by decide

/-- realistic wrong edits of `Shutdown`'s guards change the interpretation, each with a concrete input:
    `Clean` guarded by `removed` alone (a peer that never got ready would clean), `Clean` guarded by `ready` alone
    (an ordinary stop discards the state), `Clean` BEFORE consensus is stopped, `removed = true` also when `RmPeer(self)`
    failed (a peer that could not leave discards its state), an atom the model does not know (fail-closed) -/
theorem shutdown_guard_edits_refuted :
    interpShutdown [("read", []), ("consShutdown", []), ("clean", ["removed"]), ("done", []), ("return", [])]
        ⟨⟨false, true, false, false⟩, true, true, true⟩ ≠ some (closedShutdown false ⟨⟨false, true, false, false⟩, true, true, true⟩) ∧
    interpShutdown [("read", []), ("consShutdown", []), ("clean", ["ready"]), ("done", []), ("return", [])]
        ⟨⟨true, false, false, false⟩, true, true, true⟩ ≠ some (closedShutdown false ⟨⟨true, false, false, false⟩, true, true, true⟩) ∧
    interpShutdown [("read", []), ("clean", ["removed", "ready"]), ("consShutdown", []), ("done", []), ("return", [])]
        ⟨⟨true, true, false, false⟩, false, true, true⟩ ≠ some (closedShutdown false ⟨⟨true, true, false, false⟩, false, true, true⟩) ∧
    interpShutdown [("read", []), ("rmSelf", ["c.config.LeaveOnShutdown", "ready", "!removed", "err@Peers == nil"]),
                    ("setRemoved", ["c.config.LeaveOnShutdown", "ready", "!removed", "err@Peers == nil"]),
                    ("consShutdown", []), ("clean", ["removed", "ready"]), ("done", []), ("return", [])]
        ⟨⟨true, false, true, false⟩, true, true, false⟩ ≠ some (closedShutdown false ⟨⟨true, false, true, false⟩, true, true, false⟩) ∧
    interpShutdown [("read", []), ("clean", ["removed || ready"]), ("return", [])] ⟨⟨true, true, false, false⟩, true, true, true⟩ = none := by
  decide

/-- what the model reports of a peer, in the shape the harness observes -/
def modelObs (st : PSt) : DObs := ⟨st.f.shutdown, st.member, st.disk.data, st.acts.contains .rmSelf⟩

/-- inside the statement the model's outcome meets the text clause `removed_discards` (safe sites, any history, with or
    without the consulting `Shutdown`) -/
theorem model_meets_removed_discards (sites : List Site) (hs : sitesSafe sites = true) (keep : Nat) (slash leave consult : Bool)
    (backups : Nat) (evs : List DEv) :
    let st := depRun sites keep slash (freshPeer leave backups consult) evs
    st.outside = false →
      (!((modelObs st).stopped && !(modelObs st).member && actedSinceRemoval leave evs) || !(modelObs st).data) = true := by
  intro st ho
  have h := departure_cleans sites hs keep slash leave backups evs consult ho
  simp only [modelObs]
  cases h1 : st.f.shutdown <;> cases h2 : st.member <;> simp
  right
  exact h h1 h2

/-- the same sentence of the property for the whole clause list on an example with a restart: a member is stopped,
    started again, removed by another member, given its watch round -/
example : let evs : List DEv := [.stop true true, .restart, .removedByOther, .tick true true true]
    dHolds false evs (modelObs (depRun codeSites 2 false (freshPeer false 0) evs)) = true ∧
    (depRun codeSites 2 false (freshPeer false 0) evs).outside = false := by decide

/-! ### Round 8c — K17a is repaired (/repo 3277283: `Shutdown` consults `consensus.Peers` when `ready && !removed`)

The K17a history (removed by another member, stopped by the operator before its watch round) is now part of the
STATEMENT: the exclusions left are properties of the history itself (a `stop` whose `consensus.Peers` does not answer;
a removal while the peer is down = K17b), not the machine's `outside` marker. -/

/-- today's `Shutdown` looks at the peerset itself (read off the regenerated structure; a revert of 3277283 makes this
    `false` and fails here, in `departure_cleans_today`, `k17a_history_cleans_today` and `consult_closes_stop_gap`) -/
theorem gen_shutdown_consults : effectsConsult Gen.shutdownEffects = true := by decide

/-- ANY safe site list, consulting `Shutdown`, ANY history in which every operator stop gets an answer from
    `consensus.Peers` and the peer is never removed while it is down: a peer that has stopped and is no member any more
    holds no consensus data. No `outside` in the statement: removed-by-another-then-stopped (K17a) is covered. -/
theorem departure_cleans_consulting (sites : List Site) (hs : sitesSafe sites = true) (keep : Nat) (slash leave : Bool)
    (backups : Nat) (evs : List DEv) (ha : evs.all DEv.answered = true)
    (hd : removedWhileDown sites keep slash (freshPeer leave backups true) evs = false) :
    let st := depRun sites keep slash (freshPeer leave backups true) evs
    st.f.shutdown = true → st.member = false → st.disk.data = false := by
  intro st hsd hm
  exact departure_cleans sites hs keep slash leave backups evs true
    (depRun_inside sites keep slash evs _ rfl rfl ha hd) hsd hm

/-- … for the sites and the `Shutdown` of today's cluster.go -/
theorem departure_cleans_today (keep : Nat) (slash leave : Bool) (backups : Nat) (evs : List DEv)
    (ha : evs.all DEv.answered = true)
    (hd : removedWhileDown codeSites keep slash (freshPeer leave backups true) evs = false) :
    let st := depRun codeSites keep slash (freshPeer leave backups (effectsConsult Gen.shutdownEffects)) evs
    st.f.shutdown = true → st.member = false → st.disk.data = false := by
  have h := departure_cleans_consulting codeSites gen_shutdown_sites_safe keep slash leave backups evs ha hd
  rw [gen_shutdown_consults]
  exact h

/-- … and in the words of the text clause: such a history meets `removed_discards` -/
theorem model_meets_text_today (keep : Nat) (slash leave : Bool) (backups : Nat) (evs : List DEv)
    (ha : evs.all DEv.answered = true)
    (hd : removedWhileDown codeSites keep slash (freshPeer leave backups true) evs = false) :
    let st := depRun codeSites keep slash (freshPeer leave backups true) evs
    (!((modelObs st).stopped && !(modelObs st).member && actedSinceRemoval leave evs) || !(modelObs st).data) = true :=
  model_meets_removed_discards codeSites gen_shutdown_sites_safe keep slash leave true backups evs
    (depRun_inside codeSites keep slash evs _ rfl rfl ha hd)

/-- the K17a history itself (after a write with a snapshot; `RmPeer(self)` succeeding or not; any `leave_on_shutdown`)
    meets the hypotheses of `departure_cleans_today`, ends stopped, non-member, clean, inside, and all text clauses hold
    — REPRODUCED on real peers: `C17 d lv=0 br=2 w rmo stop@10 => st=1 mem=0 data=0` -/
theorem k17a_history_cleans_today :
    ∀ leave r : Bool,
      let evs : List DEv := [.write true, .removedByOther, .stop true r]
      let st := depRun codeSites 2 false (freshPeer leave 0 (effectsConsult Gen.shutdownEffects)) evs
      evs.all DEv.answered = true ∧ removedWhileDown codeSites 2 false (freshPeer leave 0 true) evs = false ∧
      st.outside = false ∧ st.f.shutdown = true ∧ st.member = false ∧ st.disk.data = false ∧
      dHolds leave evs (modelObs st) = true := by decide

/-- THE REFUTED ALTERNATIVE = the code before 3277283 (what a revert reintroduces; `consult = false`): the text clause
    "a removed peer discards its consensus data" fails for a peer removed by another member and stopped by the operator
    before its watch round (was finding K17a, reproduced on real peers: `… w rmo stop@10 => st=1 mem=0 data=1`). -/
theorem no_consult_keeps_data :
    ¬ (∀ (leave : Bool) (evs : List DEv), evs.all DEv.answered = true →
        removedWhileDown codeSites 2 false (freshPeer leave 0 false) evs = false →
        dHolds leave evs (modelObs (depRun codeSites 2 false (freshPeer leave 0 false) evs)) = true) ∧
    (∀ leave : Bool,
      let evs : List DEv := [.write true, .removedByOther, .stop true false]
      let st := depRun codeSites 2 false (freshPeer leave 0 false) evs
      st.f.shutdown = true ∧ st.member = false ∧ st.disk.data = true ∧ st.acts.contains .clean = false ∧
      dHolds leave evs (modelObs st) = false) := by
  refine ⟨fun h => ?_, by decide⟩
  have := h false [.removedByOther, .stop true true] (by decide) (by decide)
  revert this
  decide

/-- WHAT IS STILL OPEN today (K17b, known, no small repair): a peer removed while down that is started again never gets
    ready, stops itself and keeps raft.db — the text clause fails on the model of today's code (consulting `Shutdown`),
    and the witness is exactly a history that `removedWhileDown` excludes. -/
theorem departure_text_refuted_today :
    ¬ (∀ (leave : Bool) (evs : List DEv),
        dHolds leave evs (modelObs (depRun codeSites 2 false (freshPeer leave 0 (effectsConsult Gen.shutdownEffects)) evs)) = true) ∧
    (let evs : List DEv := [.stop true true, .removedByOther, .restart]
     removedWhileDown codeSites 2 false (freshPeer false 0 true) evs = true ∧
     dHolds false evs (modelObs (depRun codeSites 2 false (freshPeer false 0 (effectsConsult Gen.shutdownEffects)) evs)) = false) := by
  refine ⟨fun h => ?_, by decide⟩
  have := h false [.stop true true, .removedByOther, .restart]
  revert this
  decide

/-- THE REPAIR (3277283, `consult` read off today's structure): gap (a) is closed for every `leave_on_shutdown` and
    every outcome of `RmPeer(self)` as long as `consensus.Peers` answers — the stopped peer has cleaned and the history is
    inside the statement; when `Peers` does not answer the peer keeps its data (and the history is outside); gap (b) stays. -/
theorem consult_closes_stop_gap :
    (∀ leave r : Bool,
      let evs : List DEv := [.write true, .removedByOther, .stop true r]
      let st := depRun codeSites 2 false (freshPeer leave 0 (effectsConsult Gen.shutdownEffects)) evs
      st.outside = false ∧ st.f.shutdown = true ∧ st.disk.data = false ∧ dHolds leave evs (modelObs st) = true) ∧
    (let evs : List DEv := [.write true, .removedByOther, .stop false false]
     let st := depRun codeSites 2 false (freshPeer false 0 (effectsConsult Gen.shutdownEffects)) evs
     st.outside = true ∧ st.disk.data = true) ∧
    (let evs : List DEv := [.stop true true, .removedByOther, .restart]
     let st := depRun codeSites 2 false (freshPeer false 0 (effectsConsult Gen.shutdownEffects)) evs
     st.outside = true ∧ st.disk.data = true ∧ dHolds false evs (modelObs st) = false) := by decide

/-- a member that is stopped and started again is a running ready member again, on its old folder; removed afterwards it
    stops and cleans at its watch round (restart does not lose the departure guarantee) -/
theorem restart_then_removed_cleans (sites : List Site) (hs : sitesSafe sites = true) (keep : Nat) (slash leave consult : Bool)
    (backups : Nat) (pre : List DEv) (p r : Bool) :
    let st := depRun sites keep slash (freshPeer leave backups consult) (pre ++ [.tick true p r])
    st.member = false → st.f.shutdown = true := by
  intro st hm
  have hst : st = depStep sites keep slash (depRun sites keep slash (freshPeer leave backups consult) pre) (.tick true p r) := by
    simp [st, depRun, List.foldl_append]
  have hi := depRun_inv hs keep slash pre (freshPeer leave backups consult) ⟨rfl, Or.inr rfl⟩
  generalize depRun sites keep slash (freshPeer leave backups consult) pre = s0 at hst hi
  rw [hst] at hm ⊢
  cases hsd : s0.f.shutdown
  · have hm0 : s0.member = false := by
      cases h0 : s0.member
      · rfl
      · simp [depStep, hsd, h0] at hm
    exact (removed_peer_stops_at_watch_round sites hs keep slash s0 p r hsd hi.1 hm0).1
  · simp [depStep, hsd]

end CV.C17
