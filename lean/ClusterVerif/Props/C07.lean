import ClusterVerif.Lemmas.C07

/-!
# C07 — untrusted peers cannot alter the pinset, drive IPFS or read closed endpoints

Property theorems only (helper lemmas are in `Lemmas/C07.lean`). The terms
`Gen.policy`, `Gen.methods`, `Gen.closure`, `Gen.crdt`, `Gen.raft`, … are
regenerated from today's source on every run, so each `decide` below is
re-checked against the current table / closure / consensus code.

Facts about the regenerated terms
* `every_method_has_entry`, `registered_are_validated`, `all_servers_guarded`,
  `config_installs_table`, `policy_keys_nodup`
* `no_weaker_than_intent`     — for EVERY endpoint name (not only the listed ones)
* `follower_no_weaker`        — closing entries keeps it
Consequences for every endpoint name and caller
* `untrusted_only_handshake`, `open_exactly_handshake`, `closed_refused_to_all_remote`
Trust
* `raft_trusts_everyone`, `crdt_trust_semantics` (induction over the call list), `crdt_self_trusted`
* `trustOf_eq_parse` (whatever sequence of Default / LoadJSON / ApplyEnvVars produced it, the crdt configuration is
  the parse of the list in effect), `env_list_restricts`, `env_list_restricts_trust`, `star_iff_trust_all`,
  `tojson_reflects_trust`, `cfg_model_meets_spec`
* `untrusted_updates_ignored` (induction over the delivered messages)
The model meets the property, for every input
* `rpc_model_meets_spec`, `trust_model_meets_spec`, `rep_model_meets_spec`
The Bool checkers say what the statement says
* `rpcHolds_iff`, `trustHolds_iff`, `cfgHolds_iff`, `repHolds_iff`
-/
namespace CV.C07

set_option maxRecDepth 4096

/-! ## facts about the regenerated terms -/

/-- every reflected endpoint has an entry in the policy table (default-deny is never needed) -/
theorem every_method_has_entry : ∀ m ∈ Gen.methods, (lookup Gen.policy m).isSome = true := by decide

/-- `isRPCPolicyValid` walks every API type that `newRPCServer` registers -/
theorem registered_are_validated :
    (∀ t ∈ Gen.registeredTypes, t ∈ Gen.validatedTypes) ∧ (∀ m ∈ Gen.methods, m ∈ Gen.validatedMethods) := by decide

/-- whatever `Config.Tracing` is, the `rpc.NewServer` that `newRPCServer` reaches serves the cluster host
    with the closure installed -/
theorem all_servers_guarded : ∀ tracing : Bool, Gen.serverGuarded tracing = true := by decide

/-- `Config.Default()` installs the table the theorems are about -/
theorem config_installs_table : Gen.configPolicyIsDefault = true := by decide

/-- the table is a map: no key twice -/
theorem policy_keys_nodup : (Gen.policy.map (·.1)).Nodup := by decide

/-- No endpoint — listed in the table or not — is wider open than intended
    (closed < trusted < open; a name without frozen intent may be at most trusted). -/
theorem no_weaker_than_intent : NoWeaker Gen.closure Gen.policy := by
  intro ep
  unfold Closure.verdict
  cases h : lookup Gen.policy ep with
  | none =>
    have : Gen.closure.missing.level = 0 := by decide
    simp [this]
  | some v =>
    have hm := lookup_some_mem h
    have key : ∀ e ∈ Gen.policy, (armOf Gen.closure.cases Gen.closure.dflt e.2).level ≤ (intentOf e.1).level := by decide
    exact key (ep, v) hm

/-- Setting entries to `RPCClosed` (what ipfs-cluster-follow does) keeps the table no weaker than intended. -/
theorem follower_no_weaker (k : String) : NoWeaker Gen.closure (override Gen.policy k (some Gen.constClosed)) := by
  intro ep
  unfold Closure.verdict
  rw [lookup_override]
  by_cases hk : (k == ep) = true
  · have : (armOf Gen.closure.cases Gen.closure.dflt Gen.constClosed).level = 0 := by decide
    simp [hk, this]
  · simp only [hk, Bool.false_eq_true, if_false]
    exact no_weaker_than_intent ep

/-! ## consequences for every endpoint name -/

/-- An untrusted remote caller passes authorization only on the identity, version and
    join-handshake endpoints. -/
theorem untrusted_only_handshake (ep : String) (h : authorizeWith Gen.closure Gen.policy false ep = true) :
    ep ∈ openSet :=
  noWeaker_untrusted no_weaker_than_intent h

/-- … and on exactly those. -/
theorem open_exactly_handshake (ep : String) :
    authorizeWith Gen.closure Gen.policy false ep = true ↔ ep ∈ openSet := by
  constructor
  · exact untrusted_only_handshake ep
  · have key : ∀ e ∈ openSet, authorizeWith Gen.closure Gen.policy false e = true := by decide
    exact key ep

/-- Endpoints meant for local use are refused to every remote caller, trusted or not. -/
theorem closed_refused_to_all_remote (ep : String) (trusted : Bool) (h : localOnly ep = true) :
    authorizeWith Gen.closure Gen.policy trusted ep = false :=
  noWeaker_localOnly no_weaker_than_intent trusted h

/-- The statement is not vacuous: a closure whose `default:` arm returned `true` would break it. -/
example : ¬ (∀ ep, authorizeWith { Gen.closure with dflt := .allow } Gen.policy false ep = true → ep ∈ openSet) := by
  intro h
  have := h "Cluster.Pin" (by decide)
  revert this; decide

/-! ## trust -/

/-- Raft: every peer is trusted, whatever was configured or called. -/
theorem raft_trusts_everyone (cfg : TrustCfg) (ops : List TOp) (self p : Nat) :
    trustedAfterCfg Gen.raft cfg ops self p = true := by
  simp [trustedAfterCfg, isTrusted, Gen.raft, evalFinal]

/-- CRDT, from a loaded list: a remote peer is trusted iff '*' is listed, or the last Trust/Distrust call
    about it was a Trust, or there was no such call and it is listed. For every list and call list. -/
theorem crdt_trust_semantics (raw : List (Option Nat)) (ops : List TOp) (self p : Nat) (hp : p ≠ self) :
    trustedAfter Gen.crdt raw ops self p = (starListed raw || (lastCall ops p).getD (listedIn raw p)) := by
  have hps : (p == self) = false := by simpa using hp
  have hshape : ∀ (cfg : TrustCfg) (set : List Nat),
      isTrusted Gen.crdt cfg self set p = (cfg.trustAll || set.contains p) := by
    intro cfg set
    simp [isTrusted, Gen.crdt, evalGuard, evalFinal, hps]
  unfold trustedAfter trustedAfterCfg stateAfter
  simp only [parseTrusted_eq, List.reverse_nil, List.nil_append]
  rw [hshape, contains_after_calls Gen.crdt rfl rfl rfl]
  by_cases hs : raw.contains none = true
  · have : starListed raw = true := hs
    simp only [hs, if_true, this, Bool.true_or]
  · have hs' : starListed raw = false := by simpa [starListed] using hs
    have hinit : (initialSet Gen.crdt { trustAll := false, listed := raw.filterMap id }).contains p = listedIn raw p := by
      have : initialSet Gen.crdt { trustAll := false, listed := raw.filterMap id } =
          (raw.filterMap id).foldl (fun s q => applySetOp .insert s q) [] := rfl
      rw [this, contains_foldl_insert, contains_filterMap_id]
      simp [listedIn]
    simp only [hs, Bool.false_eq_true, if_false, Bool.false_or, hs', hinit]

/-- The join handshake grants nothing: `AddPeer` - what the OPEN endpoint `Cluster.PeerAdd` reaches, so what anybody can
    trigger - leaves the trusted set alone in both consensus components (regenerated fact). -/
theorem handshake_endpoint_is_inert : Gen.crdt.addPeerOp = .noop ∧ Gen.raft.addPeerOp = .noop := by decide

/-- Who calls `Trust` / `Distrust` at all (every non-test source of the root, consensus, api, pstoremgr and cmdutils
    packages): only `setup()` for the configured list. A new caller - an RPC handler, `PeerAdd`, `Join` - breaks this. -/
theorem trust_changed_only_by_setup : Gen.trustCallers = ["consensus/crdt.setup:Trust"] := by decide

/-- a Trust or Distrust call (not a handshake) -/
def isTrustCall : TOp → Bool
  | .handshake _ => false
  | _ => true

theorem lastCall_filter_calls (ops : List TOp) (p : Nat) : lastCall (ops.filter isTrustCall) p = lastCall ops p := by
  induction ops with
  | nil => rfl
  | cons o rest ih =>
    cases o with
    | handshake q =>
      have h : (TOp.handshake q :: rest).filter isTrustCall = rest.filter isTrustCall := by
        simp [List.filter_cons, isTrustCall]
      rw [h, ih]
      simp only [lastCall]
      cases lastCall rest p <;> rfl
    | trust q =>
      have h : (TOp.trust q :: rest).filter isTrustCall = TOp.trust q :: rest.filter isTrustCall := by
        simp [List.filter_cons, isTrustCall]
      rw [h]; simp only [lastCall, ih]
    | distrust q =>
      have h : (TOp.distrust q :: rest).filter isTrustCall = TOp.distrust q :: rest.filter isTrustCall := by
        simp [List.filter_cons, isTrustCall]
      rw [h]; simp only [lastCall, ih]

/-- Any number of handshakes by any peers, interleaved anywhere with Trust/Distrust calls, leave every peer's trust as
    it is without them: trust of a remote peer is a function of the configuration and the Trust/Distrust calls only. -/
theorem handshakes_grant_nothing (raw : List (Option Nat)) (ops : List TOp) (self p : Nat) (hp : p ≠ self) :
    trustedAfter Gen.crdt raw ops self p = trustedAfter Gen.crdt raw (ops.filter isTrustCall) self p := by
  rw [crdt_trust_semantics raw ops self p hp, crdt_trust_semantics raw _ self p hp, lastCall_filter_calls]

example : trustedAfter Gen.crdt [some 1] [.handshake 2, .handshake 2] 0 2 = false ∧
    trustedAfter Gen.crdt [some 1] [.handshake 2, .trust 2] 0 2 = true := by decide

/-- CRDT: a peer always trusts itself. -/
theorem crdt_self_trusted (cfg : TrustCfg) (ops : List TOp) (self : Nat) :
    trustedAfterCfg Gen.crdt cfg ops self self = true := by
  simp [trustedAfterCfg, isTrusted, Gen.crdt, evalGuard]

/-! ### from the configuration sources to TrustAll / TrustedPeers -/

/-- Whatever sequence of Default / LoadJSON / ApplyEnvVars produced it, the crdt configuration is the
    parse of the list in effect (file replaces, environment overrides, defaults are "*"). -/
theorem trustOf_eq_parse (srcs : List Source) :
    modelCfg srcs = parseTrusted (effectiveList srcs) [] := by
  have h := foldl_cfgStep_parse Gen.cfgShape (by decide) (by decide) (by decide) srcs []
  exact h

/-- After an environment list without '*', TrustAll is off and exactly the listed peers are configured,
    whatever was loaded before (defaults with TrustAll, a file with "*", …). -/
theorem env_list_restricts (pre : List Source) (raw : List (Option Nat)) (hs : starListed raw = false) :
    modelCfg (pre ++ [.env (some raw)]) = { trustAll := false, listed := raw.filterMap id } := by
  rw [trustOf_eq_parse]
  have : effectiveList (pre ++ [.env (some raw)]) = raw := by
    simp [effectiveList, List.foldl_append, effStep]
  rw [this, parseTrusted_nostar hs]

/-- … so exactly the listed peers are trusted by a component started with it (remote peers, before any call). -/
theorem env_list_restricts_trust (pre : List Source) (raw : List (Option Nat)) (hs : starListed raw = false)
    (self p : Nat) (hp : p ≠ self) :
    trustedAfterCfg Gen.crdt (modelCfg (pre ++ [.env (some raw)])) [] self p = listedIn raw p := by
  have hl : effectiveList (pre ++ [.env (some raw)]) = raw := by
    simp [effectiveList, List.foldl_append, effStep]
  have h := crdt_trust_semantics raw [] self p hp
  rw [trustOf_eq_parse, hl]
  simpa [trustedAfter, hs, lastCall] using h

/-- TrustAll is on exactly when '*' is in the list in effect. -/
theorem star_iff_trust_all (srcs : List Source) :
    (modelCfg srcs).trustAll = starListed (effectiveList srcs) := by
  rw [trustOf_eq_parse]
  cases h : starListed (effectiveList srcs) with
  | true => rw [parseTrusted_star h]
  | false => rw [parseTrusted_nostar h]

/-- What ToJSON prints describes the trust in effect: loading it back gives the same configuration. -/
theorem tojson_reflects_trust (srcs : List Source) :
    parseTrusted (toJSONTrust (modelCfg srcs)) [] = modelCfg srcs ∧
    (starListed (toJSONTrust (modelCfg srcs)) = (modelCfg srcs).trustAll) := by
  rw [trustOf_eq_parse]
  refine ⟨parse_toJSON _, ?_⟩
  cases h : starListed (effectiveList srcs) with
  | true => rw [parseTrusted_star h]; rfl
  | false =>
    rw [parseTrusted_nostar h]
    simp only [toJSONTrust, Bool.false_eq_true, if_false, starListed]
    exact contains_none_map_some _

/-- The model's configuration satisfies the configuration clause, for every source sequence. -/
theorem cfg_model_meets_spec (srcs : List Source) :
    cfgHolds srcs (modelCfg srcs).trustAll (modelCfg srcs).listed = true := by
  unfold cfgHolds cfgClauses
  rw [trustOf_eq_parse]
  cases h : starListed (effectiveList srcs) with
  | true => rw [parseTrusted_star h]; simp [h]
  | false => rw [parseTrusted_nostar h]; simp [h, sameSetNat_refl]

/-- The seeded defect as a shape: had `applyJSONConfig` not reset TrustAll, an environment list over the
    defaults would leave everyone trusted. -/
example : (trustOf { Gen.cfgShape with applyResetsTrustAll := false, loadResetsTrustAll := true }
    [.default, .env (some [some 1])]).trustAll = true := by decide

/-- The model's trust decision is the statement's, in both modes. -/
theorem modelTrusted_eq_spec (ts : TrustSetting) (self p : Nat) (hp : p ≠ self) :
    modelTrusted ts self p = specTrusted ts p := by
  obtain ⟨mode, srcs, ops⟩ := ts
  cases mode with
  | raft => simp [modelTrusted, shapeOf, raft_trusts_everyone, specTrusted]
  | crdt =>
    have h := crdt_trust_semantics (effectiveList srcs) ops self p hp
    simp only [modelTrusted, shapeOf, trustOf_eq_parse, specTrusted, TrustSetting.raw]
    exact h

example : specTrusted { mode := .crdt, srcs := [.load [some 1, some 2]], ops := [.distrust 1, .trust 3] } 1 = false ∧
    specTrusted { mode := .crdt, srcs := [.load [some 1, some 2]], ops := [.distrust 1, .trust 3] } 3 = true ∧
    specTrusted { mode := .crdt, srcs := [.load [some 1, none]], ops := [.distrust 1] } 1 = true ∧
    specTrusted { mode := .crdt, srcs := [.default, .env (some [some 1])], ops := [] } 2 = false := by decide

/-- CRDT: updates that the topic validator rejects leave the pinset unchanged, however many are delivered. -/
theorem untrusted_updates_ignored (cfg : TrustCfg) (self : Nat) (set pins : List Nat) (ms : List Msg)
    (h : ∀ m ∈ ms, accepts Gen.crdt cfg self set m = false) :
    deliverAll Gen.crdt cfg self set pins ms = pins := by
  unfold deliverAll
  induction ms generalizing pins with
  | nil => rfl
  | cons m rest ih =>
    have hm := h m List.mem_cons_self
    simp only [List.foldl_cons, deliver, hm, Bool.false_eq_true, if_false]
    exact ih pins (fun x hx => h x (List.mem_cons_of_mem _ hx))

/-- … and pin by pin: a pin that no accepted update mentions is present afterwards iff it was before. -/
theorem unmentioned_pin_unchanged (sh : ConsensusShape) (cfg : TrustCfg) (self : Nat) (set pins : List Nat)
    (ms : List Msg) (c : Nat) (h : ∀ m ∈ ms, m.pin = c → accepts sh cfg self set m = false) :
    (deliverAll sh cfg self set pins ms).contains c = pins.contains c := by
  unfold deliverAll
  induction ms generalizing pins with
  | nil => rfl
  | cons m rest ih =>
    simp only [List.foldl_cons]
    rw [ih _ (fun x hx => h x (List.mem_cons_of_mem _ hx))]
    unfold deliver
    by_cases ha : accepts sh cfg self set m = true
    · have hne : m.pin ≠ c := by
        intro he; have := h m List.mem_cons_self he; rw [ha] at this; exact absurd this (by decide)
      have h1 : (c == m.pin) = false := by simpa using (Ne.symm hne)
      simp only [ha, if_true]
      cases m.add
      · simp only [Bool.false_eq_true, if_false]
        rw [contains_setDelete, h1]; simp
      · simp only [if_true]
        rw [contains_setInsert, h1]; simp
    · simp [ha]

/-! ## the model meets the property, for every input -/

/-- RPC: for every policy kind that ships (default table, follower table), trust setting, caller and
    endpoint name, what the model lets the caller observe satisfies both RPC clauses. -/
theorem rpc_model_meets_spec (i : RpcInput) (hk : i.kind ≠ .custom) :
    rpcHolds i (modelObs i (kindOverrides i.kind)) = true := by
  have hnw : NoWeaker Gen.closure (applyOverrides Gen.policy (kindOverrides i.kind)) := by
    cases hkk : i.kind with
    | shipped => exact no_weaker_than_intent
    | follower => exact follower_no_weaker "Cluster.RepoGCLocal"
    | custom => exact absurd hkk hk
  unfold rpcHolds rpcClauses
  by_cases hap : rpcApplies i = true
  · have hreg : i.registered = true := by
      simp only [rpcApplies, Bool.and_eq_true] at hap; exact hap.2
    simp only [hap, Bool.not_true, Bool.false_eq_true, if_false]
    cases hc : i.caller with
    | self => rfl
    | remote p =>
      simp only [List.all_cons, List.all_nil, Bool.and_true, Bool.and_eq_true, Bool.or_eq_true]
      by_cases hps : p = i.self
      · simp [hps]
      · have hobs : modelObs i (kindOverrides i.kind) =
            if authorizeWith Gen.closure (applyOverrides Gen.policy (kindOverrides i.kind)) (specTrusted i.ts p) i.ep
            then Obs.passed else Obs.refused := by
          have := modelTrusted_eq_spec i.ts i.self p hps
          simp only [modelObs, hreg, Bool.not_true, Bool.false_eq_true, if_false, passes, hc,
            all_servers_guarded i.tracing, Bool.false_or]
          unfold modelTrusted at this
          rw [this]
        rw [hobs]
        constructor
        · by_cases ht : specTrusted i.ts p = true
          · simp [ht]
          · have ht' : specTrusted i.ts p = false := by simpa using ht
            rw [ht']
            by_cases ha : authorizeWith Gen.closure (applyOverrides Gen.policy (kindOverrides i.kind)) false i.ep = true
            · have := noWeaker_untrusted hnw ha
              simp [this]
            · simp [ha]
        · by_cases hl : localOnly i.ep = true
          · simp [noWeaker_localOnly hnw (specTrusted i.ts p) hl]
          · simp [hl]
  · simp [hap]

example : rpcApplies ⟨.shipped, true, ⟨.crdt, [.load [some 1]], []⟩, 0, .remote 2, "Cluster.Pin", true⟩ = true := by decide

/-- IsTrustedPeer: the model's answer is the statement's for every remote peer. -/
theorem trust_model_meets_spec (i : TrustInput) : trustHolds i (modelTrusted i.ts i.self i.p) = true := by
  unfold trustHolds trustClauses
  by_cases hp : i.p = i.self
  · simp [hp]
  · simp [modelTrusted_eq_spec i.ts i.self i.p hp]

/-- Pinset updates: whatever is published, a pin not mentioned by a trusted peer's update is in the
    model observer's pinset afterwards exactly if it was before. -/
theorem rep_model_meets_spec (i : RepInput) (hm : i.ts.mode = .crdt) : repHolds i (modelRep i) = true := by
  unfold repHolds repClauses
  simp only [List.all_cons, List.all_nil, Bool.and_true, List.all_eq_true, Bool.or_eq_true, beq_iff_eq]
  intro c _
  by_cases ht : touchedByTrusted i c = true
  · exact Or.inl ht
  · right
    unfold modelRep
    apply unmentioned_pin_unchanged
    intro m hmem hpin
    have hnt : ¬ (m.signer = i.self ∨ specTrusted i.ts m.signer = true) := by
      intro hor
      apply ht
      simp only [touchedByTrusted, List.any_eq_true, Bool.and_eq_true, Bool.or_eq_true, beq_iff_eq]
      exact ⟨m, hmem, hpin, hor⟩
    have hne : m.signer ≠ i.self := fun h => hnt (Or.inl h)
    have hsp : specTrusted i.ts m.signer = false := by
      cases h : specTrusted i.ts m.signer with
      | true => exact absurd (Or.inr h) hnt
      | false => rfl
    have := modelTrusted_eq_spec i.ts i.self m.signer hne
    rw [hsp] at this
    simp only [modelTrusted, trustedAfterCfg, hm, shapeOf] at this
    simp only [hm, shapeOf, accepts, Gen.crdt]
    exact this

/-! ## the Bool checkers say what the statement says -/

/-- `rpcHolds` read as a proposition. -/
theorem rpcHolds_iff (i : RpcInput) (o : Obs) :
    rpcHolds i o = true ↔
      (rpcApplies i = true → ∀ p, i.caller = .remote p → p ≠ i.self →
        ((specTrusted i.ts p = false → o = .passed → i.ep ∈ openSet) ∧
         (localOnly i.ep = true → o = .refused))) := by
  unfold rpcHolds rpcClauses
  by_cases hap : rpcApplies i = true
  · simp only [hap, Bool.not_true, Bool.false_eq_true, if_false, forall_const]
    cases hc : i.caller with
    | self => simp
    | remote q =>
      simp only [List.all_cons, List.all_nil, Bool.and_true, Bool.and_eq_true, Bool.or_eq_true, beq_iff_eq,
        Caller.remote.injEq, List.contains_eq_mem, decide_eq_true_eq, Bool.not_eq_true', forall_eq']
      constructor
      · rintro ⟨h1, h2⟩ hq
        refine ⟨fun ht ho => ?_, fun hl => ?_⟩
        · rcases h1 with ((h | h) | h) | h
          · rw [ht] at h; exact absurd h (by decide)
          · exact absurd h hq
          · rw [ho] at h; exact absurd h (by decide)
          · exact h
        · rcases h2 with (h | h) | h
          · exact absurd h hq
          · rw [hl] at h; exact absurd h (by decide)
          · exact h
      · intro h
        by_cases hq : q = i.self
        · exact ⟨Or.inl (Or.inl (Or.inr hq)), Or.inl (Or.inl hq)⟩
        · obtain ⟨h1, h2⟩ := h hq
          constructor
          · cases ht : specTrusted i.ts q with
            | true => exact Or.inl (Or.inl (Or.inl rfl))
            | false =>
              cases o with
              | refused => exact Or.inl (Or.inr rfl)
              | passed => exact Or.inr (h1 ht rfl)
          · cases hl : localOnly i.ep with
            | false => exact Or.inl (Or.inr rfl)
            | true => exact Or.inr (h2 hl)
  · simp [hap]

/-- `trustHolds` read as a proposition. -/
theorem trustHolds_iff (i : TrustInput) (o : Bool) :
    trustHolds i o = true ↔ (i.p ≠ i.self → o = specTrusted i.ts i.p) := by
  unfold trustHolds trustClauses
  simp only [List.all_cons, List.all_nil, Bool.and_true, Bool.or_eq_true, beq_iff_eq]
  constructor
  · rintro (h | h) hne
    · exact absurd h hne
    · exact h
  · intro h
    by_cases hp : i.p = i.self
    · exact Or.inl hp
    · exact Or.inr (h hp)

/-- `cfgHolds` read as a proposition. -/
theorem cfgHolds_iff (srcs : List Source) (ta : Bool) (peers : List Nat) :
    cfgHolds srcs ta peers = true ↔
      (ta = starListed (effectiveList srcs) ∧
       (starListed (effectiveList srcs) = false → ∀ x, x ∈ peers ↔ some x ∈ effectiveList srcs)) := by
  unfold cfgHolds cfgClauses
  simp only [List.all_cons, List.all_nil, Bool.and_true, Bool.and_eq_true, beq_iff_eq, Bool.or_eq_true]
  constructor
  · rintro ⟨h1, h2⟩
    refine ⟨h1, fun hs x => ?_⟩
    rcases h2 with h2 | h2
    · rw [hs] at h2; exact absurd h2 (by decide)
    · simp only [sameSetNat, Bool.and_eq_true, List.all_eq_true, List.contains_eq_mem, decide_eq_true_eq] at h2
      constructor
      · intro hx
        have := h2.1 x hx
        simpa [List.mem_filterMap] using this
      · intro hx
        exact h2.2 x (by simpa [List.mem_filterMap] using hx)
  · rintro ⟨h1, h2⟩
    refine ⟨h1, ?_⟩
    cases hs : starListed (effectiveList srcs) with
    | true => exact Or.inl rfl
    | false =>
      right
      simp only [sameSetNat, Bool.and_eq_true, List.all_eq_true, List.contains_eq_mem, decide_eq_true_eq]
      constructor
      · intro x hx
        have := (h2 hs x).1 hx
        simpa [List.mem_filterMap] using this
      · intro x hx
        have : some x ∈ effectiveList srcs := by simpa [List.mem_filterMap] using hx
        exact (h2 hs x).2 this

/-- `repHolds` read as a proposition. -/
theorem repHolds_iff (i : RepInput) (after : List Nat) :
    repHolds i after = true ↔
      ∀ c, (c ∈ i.before ∨ c ∈ after ∨ ∃ m ∈ i.msgs, m.pin = c) →
        (¬ ∃ m ∈ i.msgs, m.pin = c ∧ (m.signer = i.self ∨ specTrusted i.ts m.signer = true)) →
        (c ∈ after ↔ c ∈ i.before) := by
  unfold repHolds repClauses
  simp only [List.all_cons, List.all_nil, Bool.and_true, List.all_eq_true, Bool.or_eq_true, beq_iff_eq,
    List.mem_append, List.mem_map, touchedByTrusted, List.any_eq_true, Bool.and_eq_true]
  constructor
  · intro h c hc hnt
    have hc' : (c ∈ i.before ∨ c ∈ after) ∨ ∃ a, a ∈ i.msgs ∧ a.pin = c := by
      rcases hc with h1 | h1 | h1
      · exact Or.inl (Or.inl h1)
      · exact Or.inl (Or.inr h1)
      · exact Or.inr h1
    rcases h c hc' with h1 | h1
    · exact absurd h1 hnt
    · have := h1
      simp only [List.contains_eq_mem, decide_eq_decide] at this
      exact this
  · intro h c hc
    by_cases hnt : ∃ m ∈ i.msgs, m.pin = c ∧ (m.signer = i.self ∨ specTrusted i.ts m.signer = true)
    · exact Or.inl hnt
    · right
      have hc' : c ∈ i.before ∨ c ∈ after ∨ ∃ m ∈ i.msgs, m.pin = c := by
        rcases hc with (h1 | h1) | h1
        · exact Or.inl h1
        · exact Or.inr (Or.inl h1)
        · exact Or.inr (Or.inr h1)
      have := h c hc' hnt
      simp only [List.contains_eq_mem, decide_eq_decide]
      exact this

/-! ## where the policy table comes from: no configuration widens an endpoint

`Gen.polShape` is regenerated from cluster_config.go (Default / LoadJSON / ApplyEnvVars / applyConfigJSON / setDefaults /
configJSON) and from every non-test file of the repository that writes `RPCPolicy` or `DefaultRPCPolicy`. -/

/-- every write of the table was read by the translator; `configJSON` has no field that could carry a table and
    `applyConfigJSON` never touches it; `setDefaults` (called by `Default` and `LoadJSON`) installs the shipped table -/
theorem policy_writers_recognised :
    Gen.polShape.unknownWrites = [] ∧ Gen.polShape.jsonPolicyKeys = [] ∧ Gen.polShape.applyWritesPolicy = false ∧
    Gen.polShape.setDefaultsInstalls = true ∧ Gen.polShape.defaultCallsSetDefaults = true ∧
    Gen.polShape.loadCallsSetDefaults = true := by decide

/-- every keyed assignment into the table found in the sources assigns a class no wider than the key's intent -/
theorem policy_writers_only_tighten :
    ∀ w ∈ Gen.polShape.keyedWrites,
      (armOf Gen.closure.cases Gen.closure.dflt w.value).level ≤ (intentOf w.key).level := by decide

/-- the follower table of the `auth` suite is what cmd/ipfs-cluster-follow assigns today -/
theorem follower_writes_from_source : followerWritesGen = followerOverrides := by decide

/-- a Go map assignment of a value no wider than intended keeps a table no wider than intended -/
theorem noWeaker_override {cl : Closure} {pol : Policy} (h : NoWeaker cl pol) (k : String) (v : Int)
    (hv : (armOf cl.cases cl.dflt v).level ≤ (intentOf k).level) : NoWeaker cl (override pol k (some v)) := by
  intro ep
  unfold Closure.verdict
  rw [lookup_override]
  by_cases hk : (k == ep) = true
  · have : k = ep := by simpa using hk
    subst this
    simpa [hk] using hv
  · simp only [hk, Bool.false_eq_true, if_false]
    exact h ep

theorem noWeaker_writes {cl : Closure} (ws : List PolWrite)
    (hw : ∀ w ∈ ws, (armOf cl.cases cl.dflt w.value).level ≤ (intentOf w.key).level) :
    ∀ pol : Policy, NoWeaker cl pol → NoWeaker cl (ws.foldl (fun q w => override q w.key (some w.value)) pol) := by
  induction ws with
  | nil => intro pol h; exact h
  | cons w rest ih =>
    intro pol h
    simp only [List.foldl_cons]
    exact ih (fun w' hw' => hw w' (List.mem_cons_of_mem _ hw')) _
      (noWeaker_override h w.key w.value (hw w (List.mem_cons_self ..)))

theorem carries_false : carries Gen.polShape = false := by decide

/-- one configuration step keeps the package-level table no wider than intended -/
theorem polStep_noWeaker (st : PolState) (s : PSource) (h : NoWeaker Gen.closure st.global) :
    NoWeaker Gen.closure (polStep Gen.polShape st s).global := by
  cases s with
  | default => exact h
  | load extra => simp only [polStep, carries_false, Bool.false_and, Bool.false_eq_true, if_false]; exact h
  | env extra => simp only [polStep, carries_false, Bool.false_and, Bool.false_eq_true, if_false]; exact h
  | follower =>
    simp only [polStep]
    by_cases hi : st.installed = true
    · simp only [hi, if_true]
      exact noWeaker_writes _ policy_writers_only_tighten _ h
    · simp only [hi, Bool.false_eq_true, if_false]; exact h
  | helper extra =>
    simp only [polStep, carries_false, Bool.false_eq_true, if_false]
    by_cases hi : freshInstalled Gen.polShape = true
    · simp only [hi, if_true]
      exact noWeaker_writes _ (fun w hw => policy_writers_only_tighten w ((List.mem_filter.mp hw).1)) _ h
    · simp only [hi, Bool.false_eq_true, if_false]; exact h

theorem policyAfter_noWeaker (srcs : List PSource) :
    ∀ st : PolState, NoWeaker Gen.closure st.global →
      NoWeaker Gen.closure (srcs.foldl (polStep Gen.polShape) st).global := by
  induction srcs with
  | nil => intro st h; exact h
  | cons s rest ih => intro st h; exact ih _ (polStep_noWeaker st s h)

theorem noWeaker_nil : NoWeaker Gen.closure [] := by
  intro ep
  have : (Gen.closure.verdict [] ep) = Gen.closure.missing := by simp [Closure.verdict, lookup]
  rw [this]
  have : Gen.closure.missing.level = 0 := by decide
  omega

/-- **No configuration widens an endpoint.** Whatever sequence of `Default()`, `LoadJSON` (of a file that also carries
    policy entries), `ApplyEnvVars` (with policy variables set) and follower assignments builds the cluster `Config`,
    the table the RPC server reads is, for EVERY endpoint name, no wider than intended. -/
theorem config_sources_cannot_widen (srcs : List PSource) : NoWeaker Gen.closure (modelPolicy srcs) := by
  unfold modelPolicy policyOf PolState.table policyAfter
  by_cases hi : (srcs.foldl (polStep Gen.polShape) { global := Gen.policy, installed := false }).installed = true
  · simp only [hi, if_true]
    exact policyAfter_noWeaker srcs _ no_weaker_than_intent
  · simp only [hi, Bool.false_eq_true, if_false]
    exact noWeaker_nil

example : modelPolicy [.default, .load [("Cluster.Pin", 2)], .env [("Cluster.Pins", 2)], .follower]
    = override Gen.policy "Cluster.RepoGCLocal" (some 0) := by decide

/-- under any configuration an untrusted remote caller passes authorization only on the handshake endpoints … -/
theorem untrusted_only_handshake_any_config (srcs : List PSource) (ep : String)
    (h : authorizeWith Gen.closure (modelPolicy srcs) false ep = true) : ep ∈ openSet :=
  noWeaker_untrusted (config_sources_cannot_widen srcs) h

/-- … and an endpoint meant for local use is refused to every remote caller, trusted or not -/
theorem closed_refused_any_config (srcs : List PSource) (ep : String) (t : Bool) (hl : localOnly ep = true) :
    authorizeWith Gen.closure (modelPolicy srcs) t ep = false :=
  noWeaker_localOnly (config_sources_cannot_widen srcs) t hl

/-- package `cmdutils` (the daemon's configuration helper) does not write the table -/
theorem no_cmdutils_writes : helperWrites Gen.polShape = [] := by decide

theorem polStep_global_of_no_follower (st : PolState) (s : PSource) (hs : s ≠ .follower) :
    (polStep Gen.polShape st s).global = st.global := by
  cases s with
  | default => rfl
  | load extra => simp [polStep, carries_false]
  | env extra => simp [polStep, carries_false]
  | follower => exact absurd rfl hs
  | helper extra => simp [polStep, carries_false, no_cmdutils_writes]

/-- **The table is not configurable**: without the follower's assignments, the entries a file or the environment carry
    never reach it - the `Config` holds the shipped table, or none at all (nil map, before `Default`/`LoadJSON`). -/
theorem policy_not_configurable (srcs : List PSource) (hf : PSource.follower ∉ srcs) :
    modelPolicy srcs = if modelInstalled srcs then Gen.policy else [] := by
  have key : ∀ (l : List PSource) (st : PolState), PSource.follower ∉ l →
      (l.foldl (polStep Gen.polShape) st).global = st.global := by
    intro l
    induction l with
    | nil => intro st _; rfl
    | cons s rest ih =>
      intro st hm
      simp only [List.foldl_cons]
      rw [ih _ (fun h => hm (List.mem_cons_of_mem _ h))]
      exact polStep_global_of_no_follower st s (fun h => hm (h ▸ List.mem_cons_self ..))
  unfold modelPolicy policyOf PolState.table modelInstalled policyAfter
  rw [key srcs _ hf]

example : PSource.follower ∉ [PSource.default, .load [("Cluster.Pin", 2)], .env [("Consensus.LogPin", 2)]] := by decide

/-- the model's observation of a call against a server built from any configuration meets both RPC clauses -/
theorem polrpc_model_meets_spec (i : PolRpcInput) : polRpcHolds i (modelPolObs i) = true := by
  have hg : Gen.serverGuarded false = true := all_servers_guarded false
  unfold polRpcHolds polRpcClauses modelPolObs
  simp only [hg, Bool.not_true, Bool.false_or, List.all_cons, List.all_nil, Bool.and_true, Bool.and_eq_true,
    Bool.or_eq_true]
  constructor
  · cases ht : i.trusted with
    | true => simp
    | false =>
      cases ha : authorizeWith Gen.closure (modelPolicy i.srcs) false i.ep with
      | false => simp
      | true =>
        right
        have := untrusted_only_handshake_any_config i.srcs i.ep ha
        simpa using this
  · cases hl : localOnly i.ep with
    | false => simp
    | true =>
      right
      simp [closed_refused_any_config i.srcs i.ep i.trusted hl]

/-- refutation of the alternative a realistic edit would implement: a `configJSON` field `rpc_policy` applied by
    `applyConfigJSON` lets a service file open `Cluster.Pin` to untrusted peers -/
theorem loadable_policy_would_open :
    authorizeWith Gen.closure
      (policyOf { Gen.polShape with jsonPolicyKeys := ["rpc_policy"], applyWritesPolicy := true } Gen.policy
        [.load [("Cluster.Pin", 2)]]) false "Cluster.Pin" = true := by decide

/-- refutation: a writer that assigns `RPCOpen` into the table would not be accepted by `policy_writers_only_tighten` -/
example : ¬ ((armOf Gen.closure.cases Gen.closure.dflt 2).level ≤ (intentOf "Cluster.RepoGCLocal").level) := by decide

/-- the Bool checker of the `polrpc` observation read as a proposition -/
theorem polRpcHolds_iff (i : PolRpcInput) (o : Obs) :
    polRpcHolds i o = true ↔
      ((i.trusted = false → o = .passed → i.ep ∈ openSet) ∧ (localOnly i.ep = true → o = .refused)) := by
  unfold polRpcHolds polRpcClauses
  cases i.trusted <;> cases o <;> cases localOnly i.ep <;> simp

/-- the closure gives a table value exactly its documented meaning: 2 open, 1 trusted, anything else closed -/
theorem closure_reads_value (v : Int) : (armOf Gen.closure.cases Gen.closure.dflt v).level = specLevel v := by
  unfold specLevel
  by_cases h2 : v = 2
  · subst h2; decide
  · by_cases h1 : v = 1
    · subst h1; decide
    · have e1 : ((1 : Int) == v) = false := by simpa using fun h => h1 h.symm
      have e2 : ((2 : Int) == v) = false := by simpa using fun h => h2 h.symm
      have f1 : (v == 1) = false := by simpa using h1
      have f2 : (v == 2) = false := by simpa using h2
      simp [Gen.closure, armOf, e1, e2, f1, f2, Verdict.level]

/-- **The configured table is respected** by the model, for every table the configuration could hand over (the shipped
    one with any overrides), every trust setting and every endpoint -/
theorem configured_class_respected (i : RpcInput) (ovs : List (String × Option Int)) :
    rpcCfgHolds (lookup (applyOverrides Gen.policy ovs) i.ep) i (modelObs i ovs) = true := by
  unfold rpcCfgHolds rpcCfgClauses
  cases hr : i.registered with
  | false => simp
  | true =>
    cases hc : i.caller with
    | self => simp
    | remote p =>
      cases hl : lookup (applyOverrides Gen.policy ovs) i.ep with
      | none => simp
      | some v =>
        have hg : Gen.serverGuarded i.tracing = true := all_servers_guarded i.tracing
        have hv := closure_reads_value v
        simp only [Bool.not_true, Bool.false_eq_true, if_false, List.all_cons, List.all_nil, Bool.and_true]
        unfold modelObs passes authorizeWith Closure.verdict
        simp only [hr, hc, hl, hg, Bool.not_true, Bool.false_eq_true, if_false, Bool.false_or]
        by_cases hs : p = i.self
        · simp [hs]
        · cases ha : armOf Gen.closure.cases Gen.closure.dflt v with
          | deny => simp
          | allow => rw [ha] at hv; simp [← hv, Verdict.level]
          | askTrust =>
            rw [ha] at hv
            have := modelTrusted_eq_spec i.ts i.self p hs
            simp only [modelTrusted] at this
            cases ht : trustedAfterCfg (shapeOf i.ts.mode) (modelCfg i.ts.srcs) i.ts.ops i.self p with
            | false => simp
            | true => rw [ht] at this; simp [← hv, Verdict.level, ← this]

/-- a follower that serves its closed endpoint to a trusted remote caller fails the clause -/
example : rpcCfgClauses (some 0) ⟨.follower, false, ⟨.crdt, [.load [some 1]], []⟩, 0, .remote 1, "Cluster.RepoGCLocal", true⟩ .passed
  = [("configured_class_respected", false)] := by decide

/-! ## the entry-wise reading of the table in effect (round 8b: was `def pol_table_meets_spec : Prop`) -/

/-- every ENTRY of a table carries a value whose documented meaning (2 = open, 1 = trusted, anything else closed) is no
    wider than the key's intent -/
def EntriesOk (pol : Policy) : Prop := ∀ e ∈ pol, specLevel e.2 ≤ (intentOf e.1).level

theorem shipped_entries_ok : EntriesOk Gen.policy := by unfold EntriesOk; decide

theorem entriesOk_override {pol : Policy} (h : EntriesOk pol) (k : String) (v : Int)
    (hv : specLevel v ≤ (intentOf k).level) : EntriesOk (override pol k (some v)) := by
  intro e he
  simp only [override, List.mem_cons, List.mem_filter] at he
  rcases he with rfl | ⟨hm, _⟩
  · exact hv
  · exact h e hm

/-- deleting an entry (Go `delete(m, k)`) keeps the entry-wise reading too -/
theorem entriesOk_delete {pol : Policy} (h : EntriesOk pol) (k : String) : EntriesOk (override pol k none) := by
  intro e he
  simp only [override, List.mem_filter] at he
  exact h e he.1

theorem entriesOk_writes (ws : List PolWrite) (hw : ∀ w ∈ ws, specLevel w.value ≤ (intentOf w.key).level) :
    ∀ pol : Policy, EntriesOk pol → EntriesOk (ws.foldl (fun q w => override q w.key (some w.value)) pol) := by
  induction ws with
  | nil => intro pol h; exact h
  | cons w rest ih =>
    intro pol h
    simp only [List.foldl_cons]
    exact ih (fun w' hw' => hw w' (List.mem_cons_of_mem _ hw')) _
      (entriesOk_override h w.key w.value (hw w (List.mem_cons_self ..)))

/-- the writers found in the sources, read by the DOCUMENTED meaning of the constants (not through the closure) -/
theorem policy_writers_spec_level : ∀ w ∈ Gen.polShape.keyedWrites, specLevel w.value ≤ (intentOf w.key).level :=
  fun w hw => closure_reads_value w.value ▸ policy_writers_only_tighten w hw

theorem polStep_entriesOk (st : PolState) (s : PSource) (h : EntriesOk st.global) :
    EntriesOk (polStep Gen.polShape st s).global := by
  cases s with
  | default => exact h
  | load extra => simp only [polStep, carries_false, Bool.false_and, Bool.false_eq_true, if_false]; exact h
  | env extra => simp only [polStep, carries_false, Bool.false_and, Bool.false_eq_true, if_false]; exact h
  | follower =>
    simp only [polStep]
    by_cases hi : st.installed = true
    · simp only [hi, if_true]
      exact entriesOk_writes _ policy_writers_spec_level _ h
    · simp only [hi, Bool.false_eq_true, if_false]; exact h
  | helper extra =>
    simp only [polStep, carries_false, Bool.false_eq_true, if_false]
    by_cases hi : freshInstalled Gen.polShape = true
    · simp only [hi, if_true]
      exact entriesOk_writes _ (fun w hw => policy_writers_spec_level w ((List.mem_filter.mp hw).1)) _ h
    · simp only [hi, Bool.false_eq_true, if_false]; exact h

theorem policyAfter_entriesOk (srcs : List PSource) :
    ∀ st : PolState, EntriesOk st.global → EntriesOk (srcs.foldl (polStep Gen.polShape) st).global := by
  induction srcs with
  | nil => intro st h; exact h
  | cons s rest ih => intro st h; exact ih _ (polStep_entriesOk st s h)

/-- for every sequence of configuration steps, every entry of the table in effect is no wider than intended -/
theorem config_entries_ok (srcs : List PSource) : EntriesOk (modelPolicy srcs) := by
  unfold modelPolicy policyOf PolState.table policyAfter
  by_cases hi : (srcs.foldl (polStep Gen.polShape) { global := Gen.policy, installed := false }).installed = true
  · simp only [hi, if_true]
    exact policyAfter_entriesOk srcs _ shipped_entries_ok
  · simp only [hi, Bool.false_eq_true, if_false]
    intro e he; cases he

/-- the Bool checker of the `pol` observation read as a proposition -/
theorem polHolds_iff (table : Policy) : polHolds table = true ↔ EntriesOk table := by
  unfold polHolds polClauses EntriesOk
  simp only [List.all_cons, List.all_nil, Bool.and_true, List.all_eq_true, decide_eq_true_eq]

/-- **the model's table meets the `pol` clause for every configuration** (this was the unproved `def` of the first pass) -/
theorem pol_table_meets_spec (srcs : List PSource) : polHolds (modelPolicy srcs) = true :=
  (polHolds_iff _).mpr (config_entries_ok srcs)

example : polHolds (modelPolicy [.default, .load [("Cluster.Pin", 2)], .follower, .env [("Cluster.Pins", 1)], .default]) = true := by
  decide

/-- refutation: an entry `Cluster.Pin: RPCTrusted` fails the reading (the closure-level theorems would not notice a table
    that is never served; this one is about the `Config` itself) -/
theorem widened_entry_fails : polHolds (override Gen.policy "Cluster.Pin" (some 1)) = false := by decide

example : polHolds (modelPolicy [.helper [("Cluster.Pin", 2)], .follower, .helper []]) = true := by decide

/-- the daemon's path (`cmdutils.NewLoadedConfigHelper` + `SetupTracing`) hands `NewCluster` exactly the shipped table,
    whatever the service.json carries -/
theorem daemon_path_installs_shipped (extra : List (String × Int)) : modelPolicy [.helper extra] = Gen.policy := by
  have := policy_not_configurable [.helper extra] (by simp)
  rw [this]
  have hi : modelInstalled [.helper extra] = true := by
    simp only [modelInstalled, policyAfter, List.foldl_cons, List.foldl_nil, polStep]
    decide
  simp [hi]

/-- refutation of the flagged-only mutant of the first pass: a keyed write of `RPCOpen` inside `cmdutils` reaches the
    served table through the daemon's path and opens `Cluster.Pins` to untrusted peers -/
theorem cmdutils_writer_would_open :
    authorizeWith Gen.closure
      (policyOf { Gen.polShape with keyedWrites := [{ dir := "cmdutils", fn := "SetupTracing", key := "Cluster.Pins", value := 2 }] }
        Gen.policy [.helper []]) false "Cluster.Pins" = true := by decide

/-! ## what the handlers behind the endpoints reach (round 8b)

`Gen.handlerCalls` (all endpoints, direct calls) and `Gen.openReach` (the RPCOpen endpoints, followed transitively through
the methods of `*Cluster`) are regenerated from rpc_api.go and the root package on every run. -/

/-- the reach table covers exactly the endpoints the shipped table opens -/
theorem open_reach_covers_open :
    Gen.openReach.map (·.ep) = (Gen.policy.filter (fun e => e.2 == Gen.constOpen)).map (·.1) := by decide

/-- every clause about the handlers of the open endpoints holds for today's source: they call nothing outside the
    identity / join allow-list, forward only to open endpoints, and nothing escaped the translator -/
theorem open_handlers_harmless : ∀ r ∈ Gen.openReach, reachHolds r = true := by decide

/-- nothing on the allow-list alters the pinset, drives the tracker / IPFS / allocator or injects metrics -/
theorem handshake_calls_do_not_drive : ∀ c ∈ handshakeMayCall, drives c = false := by decide

/-- the Bool checker read as a proposition -/
theorem reachHolds_iff (r : Reach) :
    reachHolds r = true ↔
      ((∀ c ∈ r.calls, c ∈ handshakeMayCall) ∧ (∀ t ∈ r.forwards, intentOf t = .open_) ∧ r.unread = []) := by
  unfold reachHolds reachClauses
  simp only [List.all_cons, List.all_nil, Bool.and_true, Bool.and_eq_true, List.all_eq_true, List.contains_eq_mem,
    decide_eq_true_eq, beq_iff_eq, List.isEmpty_iff]

/-- **no open endpoint's handler reaches a pinset-mutating / IPFS-driving call**, through any chain of `*Cluster` methods -/
theorem open_handlers_never_drive : ∀ r ∈ Gen.openReach, ∀ c ∈ r.calls, drives c = false := by
  intro r hr c hc
  exact handshake_calls_do_not_drive c (((reachHolds_iff r).mp (open_handlers_harmless r hr)).1 c hc)

/-- **no confused deputy**: whatever the serving peer calls over RPC - with its own credentials - while serving an open
    endpoint is itself an endpoint the untrusted caller could have called directly -/
theorem open_handlers_forward_only_open : ∀ r ∈ Gen.openReach, ∀ t ∈ r.forwards, t ∈ openSet := by
  intro r hr t ht
  exact intentOf_open_mem (((reachHolds_iff r).mp (open_handlers_harmless r hr)).2.1 t ht)

/-- every handler is fully read by the translator and makes no RPC call of its own; a handler of the four component
    services uses only the one component its API type wraps (the `Cluster` service wraps the whole peer) -/
theorem handlers_stay_in_component :
    ∀ r ∈ Gen.handlerCalls, r.unread = [] ∧ r.forwards = [] ∧
      (r.svc == "Cluster" || r.calls.all (fun c => c.1 == componentOf r.svc)) = true := by decide

/-- the handler table covers exactly the reflected endpoints -/
theorem handler_table_complete : Gen.handlerCalls.map (·.ep) = Gen.methods := by decide

/-- refutations: the alternatives a realistic wrong edit would implement fail the clauses -/
example : reachHolds ⟨"Cluster", "Cluster.PeerAdd", [("consensus", "AddPeer"), ("consensus", "Trust")], ["Cluster.ID"], []⟩
    = false := by decide
example : reachHolds ⟨"Cluster", "Cluster.PeerAdd", [("consensus", "AddPeer")], ["Cluster.ID", "Cluster.Pin"], []⟩
    = false := by decide
example : drives ("consensus", "LogPin") = true ∧ drives ("ipfs", "Pin") = true ∧ drives ("tracker", "Track") = true := by decide

/-! ## Round 8c: the REST API over libp2p, the consensus component the daemons build, metrics -/

/-- **the REST API is put on the cluster host only under the Raft guard**: every call site (both daemons) that leaves the
    cluster's host in `API.host` sits under `GetConsensus() == Raft.ConfigKey()`; no site has an unreadable host or constructor -/
theorem rest_shares_cluster_host_only_in_raft :
    ∀ s ∈ Gen.daemonShape.restSites,
      (s.given Gen.daemonShape = .cluster → s.guard = .only "raft") ∧ s.given Gen.daemonShape ≠ .other := by decide

/-- api/rest does with the host what the model's `exposureOf` assumes -/
theorem rest_pkg_shape :
    Gen.daemonShape.newAPINilHost = true ∧ Gen.daemonShape.storesHostParam = true ∧ Gen.daemonShape.ownHostWhenAddr = true ∧
    Gen.daemonShape.noHostNoListener = true ∧ Gen.daemonShape.listensOn = "api.host" ∧ Gen.daemonShape.hostWriters = [] := by decide

/-- the same server - whose handler is wrapped by `basicAuthHandler(cfg.BasicAuthCredentials, …)` - serves the libp2p listener
    (what C11's `auth_gate` protects is therefore what a libp2p caller meets) -/
theorem rest_libp2p_behind_basic_auth :
    Gen.daemonShape.authWrapsHandler = true ∧ Gen.daemonShape.libp2pServer = "api.server" := by decide

/-- what each daemon exposes, for every configuration: a CRDT service peer and a follower have NO REST listener on the
    cluster host (none at all, or one on a host of the API's own when `libp2p_listen_multiaddress` is set); a Raft service
    peer without `libp2p_listen_multiaddress` serves REST on the cluster host -/
theorem daemon_exposure_table :
    (∀ addr, modelExposure ⟨serviceDir, .crdt, addr, false, false⟩ = (if addr then .ownHost else .noListener)) ∧
    (∀ addr m, modelExposure ⟨followDir, m, addr, false, false⟩ = (if addr then .ownHost else .noListener)) ∧
    (∀ addr, modelExposure ⟨serviceDir, .raft, addr, false, false⟩ = (if addr then .ownHost else .clusterHost)) := by
  refine ⟨?_, ?_, ?_⟩
  · intro addr; cases addr <;> decide
  · intro addr m; cases addr <;> cases m <;> decide
  · intro addr; cases addr <;> decide

theorem modelExposure_irrelevant (i : DmnInput) : modelExposure i = modelExposure ⟨i.dir, i.mode, i.addr, false, false⟩ := rfl

/-- **no untrusted swarm peer reaches a REST route through the cluster host**, for both daemons, every consensus, every
    REST configuration (listen address, credentials) and every trust listing: the model's observation meets the clause -/
theorem rest_closed_to_untrusted_swarm_peers :
    ∀ (i : DmnInput), (i.dir = serviceDir ∨ i.dir = followDir) → dmnHolds i (modelServed i) = true := by
  rintro ⟨dir, m, addr, auth, listed⟩ (h | h) <;> simp only at h <;> subst h <;>
    cases m <;> cases addr <;> cases auth <;> cases listed <;> decide

example : modelServed ⟨serviceDir, .raft, false, false, false⟩ = true ∧ modelServed ⟨serviceDir, .raft, false, true, false⟩ = false ∧
    modelServed ⟨serviceDir, .crdt, false, false, false⟩ = false := by decide

/-- refutation - the edit the source comment warns about: without the Raft guard (the REST API always gets the cluster host)
    an unlisted swarm peer of a CRDT cluster gets `POST /pins` served -/
def unguardedDaemon : DaemonShape :=
  { Gen.daemonShape with restSites := [⟨serviceDir, "createCluster", "NewAPIWithHost", .cluster, .always⟩] }

theorem unguarded_rest_would_open :
    dmnHolds ⟨serviceDir, .crdt, false, false, false⟩
      (swarmPeerReachesRest (daemonExposure unguardedDaemon serviceDir "crdt" false) false) = false := by decide

/-- with credentials configured even that daemon refuses the swarm peer (C11 `auth_gate`) - the guard and basic auth are two
    independent protections; C07 needs the first because credentials are optional -/
example : dmnHolds ⟨serviceDir, .crdt, false, true, false⟩
      (swarmPeerReachesRest (daemonExposure unguardedDaemon serviceDir "crdt" false) true) = true := by decide

/-- **the daemons build the configured consensus component**, so `IsTrustedPeer` is answered by `shapeOf m`: the service
    daemon builds raft.NewConsensus under `raft` and crdt.New under `crdt` (its `default` arm builds nothing), the
    follower always builds crdt.New; each hands exactly that value to NewCluster -/
theorem daemon_builds_configured_consensus :
    (∀ m, modelDaemonConsensus serviceDir m = some (modeKey m)) ∧ (∀ m, modelDaemonConsensus followDir m = some "crdt") := by
  constructor <;> intro m <;> cases m <;> decide

/-- every consensus constructor call in cmd/ sits under the guard of its own kind or in the (CRDT-only) follower -/
theorem consensus_sites_guarded :
    ∀ s ∈ Gen.daemonShape.consSites, s.guard = .only s.ctor ∨ (s.dir = followDir ∧ s.ctor = "crdt") := by decide

/-- refutation: a daemon whose `crdt` arm builds the Raft component would answer IsTrustedPeer = true for everybody -/
example : daemonConsensus { Gen.daemonShape with consSites :=
      [⟨serviceDir, "setupConsensus", "raft", .only "raft"⟩, ⟨serviceDir, "setupConsensus", "raft", .only "crdt"⟩] } serviceDir "crdt"
    = some "raft" := by decide

/-! ### metrics: an unauthenticated metric never authorizes anybody -/

theorem injectMetric_keeps_auth (cl : Closure) (st : AuthState) (m : Metric) (caller : Nat) (ep : String) :
    authorizeIn cl (injectMetric st m) caller ep = authorizeIn cl st caller ep := rfl

/-- **whatever metrics arrive - any number, any claimed peer, any value - no authorization decision changes**: the policy
    table, the trusted set and hence `authorizeIn` for every caller and endpoint are what they were -/
theorem metrics_never_authorize (cl : Closure) (ms : List Metric) :
    ∀ (st : AuthState) (caller : Nat) (ep : String),
      authorizeIn cl (ms.foldl injectMetric st) caller ep = authorizeIn cl st caller ep ∧
      (ms.foldl injectMetric st).pol = st.pol ∧ (ms.foldl injectMetric st).trustedSet = st.trustedSet := by
  induction ms with
  | nil => intro st caller ep; exact ⟨rfl, rfl, rfl⟩
  | cons m ms ih =>
    intro st caller ep
    have h := ih (injectMetric st m) caller ep
    exact ⟨h.1.trans (injectMetric_keeps_auth cl st m caller ep), h.2.1, h.2.2⟩

example : authorizeIn Gen.closure ([⟨5, 1, true⟩, ⟨6, 9, true⟩].foldl injectMetric ⟨Gen.policy, [1], []⟩) 5 "Cluster.Pin" = false := by decide

/-- what metrics DO influence - and the hoped-for "only trusted peers are candidates" is false when the monitor has no
    peerset (CRDT service peers, followers): a peer outside the trusted set becomes an allocation candidate by one metric -/
theorem metrics_can_nominate_untrusted :
    ∃ (st : AuthState) (m : Metric), st.trustedSet.contains m.peer = false ∧ m.peer ∈ allocCandidates none (injectMetric st m) :=
  ⟨⟨[], [1], []⟩, ⟨5, 1, true⟩, by decide, by decide⟩

/-- with a peerset (Raft) a candidate is always a consensus peer, whatever is injected -/
theorem candidates_within_peerset (ps : List Nat) (st : AuthState) : ∀ p ∈ allocCandidates (some ps) st, p ∈ ps := by
  intro p hp
  simp only [allocCandidates, List.mem_filter, List.contains_eq_mem, decide_eq_true_eq] at hp
  exact hp.2

/-! ### the dynamic counterpart of `open_handlers_never_drive` -/

/-- what the model says an open handler calls passes the clause the recorded calls are checked with -/
theorem open_reach_passes_hs : ∀ r ∈ Gen.openReach, hsHolds r.calls = true := by
  intro r hr
  simp only [hsHolds, hsClauses, List.all_cons, List.all_nil, Bool.and_true, List.all_eq_true, Bool.not_eq_true']
  intro c hc
  exact open_handlers_never_drive r hr c hc

example : hsHolds [("ipfs", "ID"), ("tracker", "RecoverAll")] = false := by decide

end CV.C07
