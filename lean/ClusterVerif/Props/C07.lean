import ClusterVerif.Spec.C07
import ClusterVerif.Gen.C07
namespace CV.C07

/-- every reflected endpoint has an entry in the policy table -/
theorem every_method_has_entry : ∀ m ∈ Gen.methods, (lookup Gen.policy m).isSome = true := by decide

end CV.C07
