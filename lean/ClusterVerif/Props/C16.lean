import ClusterVerif.Lemmas.C16
import ClusterVerif.Model.C16Source
import ClusterVerif.Gen.C16

/-!
# C16 — the IPFS connector reports success only when the daemon reached the asked state

Property theorems only (helper lemmas are in `Lemmas/C16.lean`).  All of them
are about `run`, the model of `Connector.Pin / Unpin / PinLsCid` talking to a
daemon with an arbitrary pin table and an arbitrary script of per-request
behaviours; none has a size bound.

* `pin_success_sound`, `unpin_success_sound`, `ls_truthful`
* `errors_reported`
* `no_request_when_already`, `unpin_absent_ok`
* `stall_times_out_partial`
* `update_only_if_recursive`, `update_unpin_false`, `source_kept`
* `run_returns`
* `allowed_holds_partial` — every output the model admits satisfies every clause
  of `Spec.C16`, outside the one recorded finding (a stalled pin/update);
* `holds_iff` — the Bool checker `holds` read as a proposition;
* `C16_full_fails_updateStall`, `C16_full_fails` — with that finding the full
  statement is false, with a concrete witness (replayed on the implementation by
  the corpus).

(The error object inside a 200 progress stream, formerly a second finding, is
repaired in `pinProgress`; `serr` now yields an error in the model and the
theorems no longer carry a hypothesis about it.)
-/
namespace CV.C16

/-- the recorded finding: the pin/update of this run is answered by a stall -/
def updateStalled (i : Input) : Bool :=
  (servedT i (run i).trace).any (fun x => (match x.1 with | .upd .. => true | _ => false) && x.2 == .stall)

/-- the model's output as an observation -/
def obs (i : Input) (sw : List Nat) : Output :=
  ⟨(run i).res, (run i).trace, sw, (run i).final⟩

/-! ### success only if the daemon reached the asked state -/

/-- `Pin` returns nil ⇒ the daemon holds the CID in the asked mode. -/
theorem pin_success_sound (i : Input) (hw : wf i = true) (hop : i.op = .pin)
    (h : (run i).res = .ok) : (run i).final i.cid = wanted i.depth := by
  rw [wanted_eq_asked]
  simp only [run, hop] at h ⊢
  rcases pin_cases i with ⟨_, hp⟩ | ⟨h0, hp⟩ | ⟨s, h0, hs, hsrc, hp⟩ | ⟨s, f, h0, hs, hsrc, hu, hp⟩ |
      ⟨s, f, h0, hs, hsrc, hu, hp⟩
  · rw [hp] at h; simp at h
  · rw [hp]; exact lsCid_asked _ _ _ _ h0
  · rw [hp] at h ⊢
    exact addCall_ok _ _ _ _ h
  · rw [hp] at h ⊢
    have hr := updCall_ok _ _ _ _ h
    obtain ⟨_, hm⟩ := lsCid_r _ _ _ _ (clsAt_ne_honestAny _ _) hu
    have hd : i.depth ≠ 0 := by
      intro hd
      simp [wf, hsrc, hm, hd] at hw
    simp only [hr, asked, hd, if_false]
  · rw [hp] at h ⊢
    exact addCall_ok _ _ _ _ h

/-- `Unpin` returns nil ⇒ the daemon holds no pin on the CID (for a daemon that does not lie). -/
theorem unpin_success_sound (i : Input) (hw : wf i = true) (hop : i.op = .unpin)
    (h : (run i).res = .ok) : held ((run i).final i.cid) = false := by
  simp only [run, hop, unpin] at h ⊢
  by_cases hd : i.unpinDisable = true
  · simp [hd] at h
  · simp only [hd, if_false, Bool.false_eq_true] at h ⊢
    apply rmCall_ok _ _ _ h
    intro hl
    simp [wf, hop, hl.1, hl.2] at hw

/-- a truthfully answered `PinLsCid` reports the daemon's state as far as the type filter shows it;
if the daemon lists the pin whatever the filter, exactly the daemon's state -/
theorem ls_truthful (i : Input) (hop : i.op = .ls) :
    (clsFirst (i.beh 0) = .honest →
      (run i).res = .st (if i.table i.cid = wanted i.depth then i.table i.cid else .u)) ∧
    (clsFirst (i.beh 0) = .honestAny → (run i).res = .st (i.table i.cid)) := by
  simp only [run, hop, lsOp]
  constructor <;> intro hb <;> rw [hb]
  · rw [lsCid_honest, wanted_eq_asked]
  · rw [lsCid_honestAny]

/-! ### requests nothing when already pinned as asked -/

theorem no_request_when_already (i : Input) (hop : i.op = .pin)
    (hp : i.table i.cid = wanted i.depth)
    (hb : clsFirst (i.beh 0) = .honest ∨ clsFirst (i.beh 0) = .honestAny) :
    (run i).res = .ok ∧ (run i).trace = [.ls i.cid (typeRec i.depth)] ∧ (run i).swarmMax = 0 ∧
      (run i).final = i.table := by
  rw [wanted_eq_asked] at hp
  have h0 : lsCid i.table i.cid (typeRec i.depth) (clsFirst (i.beh 0)) = .status (asked i.depth) := by
    rcases hb with hb | hb <;> rw [hb]
    · rw [lsCid_honest]; simp [hp]
    · rw [lsCid_honestAny, hp]
  simp [run, hop, pin, h0]

/-! ### unpinning what is not pinned is a success -/

theorem unpin_absent_ok (i : Input) (hop : i.op = .unpin) (hd : i.unpinDisable = false)
    (ha : held (i.table i.cid) = false)
    (hb : clsAt false (i.beh 0) = .honest ∨ clsAt false (i.beh 0) = .notPinned) :
    (run i).res = .ok := by
  simp only [run, hop, unpin, hd, if_false, Bool.false_eq_true]
  exact rmCall_absent _ _ _ ha hb

/-! ### pin update -/

/-- a pin/update is sent only by `Pin`, from the pin's own source to its CID, and only when the
daemon holds the source recursively -/
theorem update_only_if_recursive (i : Input) (f t : Nat) (u : Bool) (h : Req.upd f t u ∈ (run i).trace) :
    i.op = .pin ∧ i.src = some f ∧ t = i.cid ∧ i.table f = .r := by
  cases hop : i.op with
  | unpin =>
    simp only [run, hop, unpin] at h
    split at h <;> simp at h
  | ls =>
    simp only [run, hop, lsOp] at h
    split at h <;> simp at h
  | pin =>
    simp only [run, hop] at h
    rcases pin_cases i with ⟨_, hp⟩ | ⟨h0, hp⟩ | ⟨s, h0, hs, hsrc, hp⟩ | ⟨s, f', h0, hs, hsrc, hu, hp⟩ |
        ⟨s, f', h0, hs, hsrc, hu, hp⟩ <;> rw [hp] at h <;> simp [addReq] at h
    obtain ⟨rfl, rfl, _⟩ := h
    exact ⟨rfl, hsrc, rfl, (lsCid_r _ _ _ _ (clsAt_ne_honestAny _ _) hu).1⟩

/-- … and always with `unpin=false` -/
theorem update_unpin_false (i : Input) (f t : Nat) (u : Bool) (h : Req.upd f t u ∈ (run i).trace) :
    u = false := by
  cases hop : i.op with
  | unpin =>
    simp only [run, hop, unpin] at h
    split at h <;> simp at h
  | ls =>
    simp only [run, hop, lsOp] at h
    split at h <;> simp at h
  | pin =>
    simp only [run, hop] at h
    rcases pin_cases i with ⟨_, hp⟩ | ⟨h0, hp⟩ | ⟨s, h0, hs, hsrc, hp⟩ | ⟨s, f', h0, hs, hsrc, hu, hp⟩ |
        ⟨s, f', h0, hs, hsrc, hu, hp⟩ <;> rw [hp] at h <;> simp [addReq] at h
    exact h.2.2

/-- `Pin` leaves the update source as it was: untouched when it is another CID, still recursively
pinned when it is the CID itself -/
theorem source_kept (i : Input) (s : Nat) (hop : i.op = .pin) (hsrc : i.src = some s) :
    (s ≠ i.cid → (run i).final s = i.table s) ∧ (i.table s = .r → (run i).final s = .r) := by
  simp only [run, hop]
  rcases pin_cases i with ⟨_, hp⟩ | ⟨h0, hp⟩ | ⟨s', h0, hs, hsrc', hp⟩ | ⟨s', f, h0, hs, hsrc', hu, hp⟩ |
      ⟨s', f, h0, hs, hsrc', hu, hp⟩ <;> rw [hp]
  · exact ⟨fun _ => rfl, fun h => h⟩
  · exact ⟨fun _ => rfl, fun h => h⟩
  · rw [hsrc] at hsrc'; cases hsrc'
  · rw [hsrc] at hsrc'; cases hsrc'
    refine ⟨fun hne => updCall_frame _ _ _ _ _ hne, fun hr => ?_⟩
    by_cases hne : s = i.cid
    · subst hne; exact updCall_same _ _ _ hr
    · show (updCall i.table s i.cid (i.beh 2)).2 s = .r
      rw [updCall_frame _ _ _ _ _ hne]; exact hr
  · rw [hsrc] at hsrc'; cases hsrc'
    refine ⟨fun hne => addCall_frame _ _ _ _ _ hne, fun hr => ?_⟩
    by_cases hne : s = i.cid
    · -- the source is the CID itself and is recursively pinned: an honest pin/ls of it says so
      subst hne
      exact addCall_keeps_r _ _ _ _ hr
    · show (addCall i.table i.cid i.depth (i.beh 2)).2 s = .r
      rw [addCall_frame _ _ _ _ _ hne]; exact hr

/-! ### daemon and transport failures are reported as errors -/

/-- if any request that decides the outcome failed, the call does not report success -/
theorem errors_reported (i : Input)
    (hf : ((servedT i (run i).trace).zipIdx.any (fun x => failure i x.2 x.1.1 x.1.2)) = true) :
    isSuccess (run i).res = false := by
  cases hop : i.op with
  | unpin =>
    simp only [run, hop, unpin] at hf ⊢
    by_cases hd : i.unpinDisable = true
    · simp [hd, isSuccess]
    · simp only [hd, if_false, Bool.false_eq_true] at hf ⊢
      simp [servedT, List.zipIdx, Req.isAdd] at hf
      rw [rmCall_of_failure i 0 _ hf]; rfl
  | ls =>
    simp only [run, hop, lsOp] at hf ⊢
    cases hl : lsCid i.table i.cid (typeRec i.depth) (clsFirst (i.beh 0)) with
    | err => rfl
    | status s =>
      rw [hl] at hf
      simp [servedT, List.zipIdx, Req.isAdd] at hf
      rw [lsCid_of_failure i _ _ _ hf] at hl; cases hl
  | pin =>
    simp only [run, hop] at hf ⊢
    rcases pin_cases i with ⟨_, hp⟩ | ⟨h0, hp⟩ | ⟨s, h0, hs, hsrc, hp⟩ | ⟨s, f, h0, hs, hsrc, hu, hp⟩ |
        ⟨s, f, h0, hs, hsrc, hu, hp⟩ <;> rw [hp] at hf ⊢
    · rfl
    · simp [servedT, List.zipIdx, Req.isAdd] at hf
      rw [lsCid_of_failure i _ _ _ hf] at h0; cases h0
    · simp [servedT, List.zipIdx, Req.isAdd, addReq] at hf
      rcases hf with hf | hf
      · rw [lsCid_of_failure i _ _ _ hf] at h0; cases h0
      · have := addCall_of_failure i 1 (i.beh 1) (by simpa [addReq] using hf)
        simp [this, isSuccess]
    · simp [servedT, List.zipIdx, Req.isAdd] at hf
      rcases hf with hf | hf | hf
      · rw [lsCid_of_failure i _ _ _ hf] at h0; cases h0
      · simp [failure] at hf
      · have hne := updCall_of_failure i 2 f false (i.beh 2) hf
        rcases updCall_res i.table f i.cid (i.beh 2) with h | h | h
        · exact absurd h hne
        · simp [h, isSuccess]
        · simp [h, isSuccess]
    · simp [servedT, List.zipIdx, Req.isAdd, addReq] at hf
      rcases hf with hf | hf | hf
      · rw [lsCid_of_failure i _ _ _ hf] at h0; cases h0
      · simp [failure] at hf
      · have := addCall_of_failure i 2 (i.beh 2) (by simpa [addReq] using hf)
        simp [this, isSuccess]

/-! ### a pin that makes no progress is given up -/

/-- a pin/add that stalls, or whose progress number stops rising, makes `Pin` return an error by
itself (outside the recorded finding: the stalled pin/update) -/
theorem stall_times_out_partial (i : Input) (hop : i.op = .pin) (hk : updateStalled i = false)
    (hs : (servedT i (run i).trace).any (fun x => isPinning x.1 && (x.2 == .stall || x.2 == .noProgress)) = true) :
    (run i).res = .err := by
  unfold updateStalled at hk
  simp only [run, hop] at hs hk ⊢
  rcases pin_cases i with ⟨_, hp⟩ | ⟨h0, hp⟩ | ⟨s, h0, hs', hsrc, hp⟩ | ⟨s, f, h0, hs', hsrc, hu, hp⟩ |
      ⟨s, f, h0, hs', hsrc, hu, hp⟩ <;> rw [hp] at hs hk ⊢
  · simp [servedT, List.zipIdx, isPinning] at hs
  · simp [servedT, List.zipIdx, Req.isAdd, addReq, isPinning] at hs
    exact addCall_of_stall _ _ _ _ hs
  · simp [servedT, List.zipIdx, Req.isAdd, isPinning] at hs hk
    rcases hs with hs | hs
    · exact absurd hs hk
    · exact absurd hs (clsAt_false_ne_noProgress _)
  · simp [servedT, List.zipIdx, Req.isAdd, addReq, isPinning] at hs
    exact addCall_of_stall _ _ _ _ hs

/-- the call always returns (model: never `hang`, never `panic`) -/
theorem run_returns (i : Input) : (run i).res ≠ .hang ∧ (run i).res ≠ .panic := by
  cases hop : i.op with
  | unpin =>
    simp only [run, hop, unpin]
    by_cases hd : i.unpinDisable = true
    · simp [hd]
    · simp only [hd, if_false, Bool.false_eq_true]
      rcases rmCall_res i.table i.cid (i.beh 0) with h | h <;> simp [h]
  | ls =>
    simp only [run, hop, lsOp]
    split <;> simp
  | pin =>
    simp only [run, hop]
    rcases pin_cases i with ⟨_, hp⟩ | ⟨h0, hp⟩ | ⟨s, h0, hs, hsrc, hp⟩ | ⟨s, f, h0, hs, hsrc, hu, hp⟩ |
        ⟨s, f, h0, hs, hsrc, hu, hp⟩ <;> rw [hp]
    · simp
    · simp
    · rcases addCall_res i.table i.cid i.depth (i.beh 1) with h | h <;> simp [h]
    · rcases updCall_res i.table f i.cid (i.beh 2) with h | h | h <;> simp [h]
    · rcases addCall_res i.table i.cid i.depth (i.beh 2) with h | h <;> simp [h]

/-! ### every output the model admits satisfies every clause -/

/-- C16 at full strength: whatever the real connector may show according to the model satisfies the
property, for every pin, prior pin table and script of daemon behaviours in the quantifier's domain. -/
def C16_full : Prop := ∀ (i : Input) (o : Output), wf i = true → allowed i o = true → holds i o = true

/-- C16 outside the recorded finding (stalled pin/update). -/
theorem allowed_holds_partial (i : Input) (o : Output) (hw : wf i = true) (ha : allowed i o = true)
    (hk2 : updateStalled i = false) : holds i o = true := by
  simp only [allowed, Bool.and_eq_true, beq_iff_eq, List.all_eq_true, List.mem_range] at ha
  obtain ⟨⟨⟨hres, htr⟩, hfin⟩, hsw⟩ := ha
  have hcid : i.cid < i.n := by
    simp only [wf, Bool.and_eq_true, decide_eq_true_eq] at hw; exact hw.1.1
  have hfc : o.final i.cid = (run i).final i.cid := hfin _ hcid
  have hfs : ∀ s, i.src = some s → o.final s = (run i).final s := by
    intro s hs
    simp only [wf, hs, Bool.and_eq_true, decide_eq_true_eq] at hw
    exact hfin _ hw.1.2.1
  have c1 : cPinSound i o = true := by
    unfold cPinSound; rw [hres, hfc]
    by_cases h : (i.op == .pin && (run i).res == .ok) = true
    · have h' : i.op = .pin ∧ (run i).res = .ok := by simpa using h
      simp [pin_success_sound i hw h'.1 h'.2]
    · simp [h]
  have c2 : cUnpinSound i o = true := by
    unfold cUnpinSound; rw [hres, hfc]
    by_cases h : (i.op == .unpin && (run i).res == .ok) = true
    · have h' : i.op = .unpin ∧ (run i).res = .ok := by simpa using h
      simp [unpin_success_sound i hw h'.1 h'.2]
    · simp [h]
  have c3 : cLsTruthful i o = true := by
    rw [cLsTruthful_iff, hres]
    exact ⟨fun hop hb => (ls_truthful i hop).1 hb, fun hop hb => (ls_truthful i hop).2 hb⟩
  have c4 : cErrorsReported i o = true := by
    unfold cErrorsReported served; rw [hres, htr]
    by_cases h : ((servedT i (run i).trace).zipIdx.any (fun x => failure i x.2 x.1.1 x.1.2)) = true
    · simp [errors_reported i h]
    · simp [h]
  have c5 : cNoRequestWhenAlready i o = true := by
    rw [cNoRequestWhenAlready_iff, hres, htr, hfc]
    intro hop hp hb
    obtain ⟨h1, h2, h3, h4⟩ := no_request_when_already i hop hp hb
    rw [h3] at hsw
    simp [h1, h2, h4, isLsOf, swarmOk_zero _ hsw]
  have c6 : cUnpinAbsentOk i o = true := by
    unfold cUnpinAbsentOk; rw [hres]
    by_cases h : (i.op == .unpin && !i.unpinDisable && !held (i.table i.cid) &&
        (clsAt false (i.beh 0) == .honest || clsAt false (i.beh 0) == .notPinned)) = true
    · have h' : ((i.op = .unpin ∧ i.unpinDisable = false) ∧ held (i.table i.cid) = false) ∧
          (clsAt false (i.beh 0) = .honest ∨ clsAt false (i.beh 0) = .notPinned) := by simpa using h
      simp [unpin_absent_ok i h'.1.1.1 h'.1.1.2 h'.1.2 h'.2]
    · simp [h]
  have c7 : cStallTimesOut i o = true := by
    unfold cStallTimesOut served; rw [hres, htr]
    by_cases h : (i.op == .pin && (servedT i (run i).trace).any
        (fun x => isPinning x.1 && (x.2 == .stall || x.2 == .noProgress))) = true
    · have h' : i.op = .pin ∧ (servedT i (run i).trace).any
          (fun x => isPinning x.1 && (x.2 == .stall || x.2 == .noProgress)) = true := by simpa using h
      simp [stall_times_out_partial i h'.1 hk2 h'.2]
    · simp [h]
  have c8 : cReturns o = true := by
    unfold cReturns; rw [hres]
    simp [run_returns i]
  have c9 : cUpdateOnlyIfRecursive i o = true := by
    unfold cUpdateOnlyIfRecursive; rw [htr, List.all_eq_true]
    intro r hr
    cases r with
    | upd f t u =>
      obtain ⟨h1, h2, h3, h4⟩ := update_only_if_recursive i f t u hr
      simp [h1, h2, h3, h4]
    | _ => rfl
  have c10 : cUpdateUnpinFalse o = true := by
    unfold cUpdateUnpinFalse; rw [htr, List.all_eq_true]
    intro r hr
    cases r with
    | upd f t u => simp [update_unpin_false i f t u hr]
    | _ => rfl
  have c11 : cSourceKept i o = true := by
    unfold cSourceKept
    cases hsrc : i.src with
    | none => rfl
    | some s =>
      simp only
      rw [hfs s hsrc]
      by_cases hop : i.op = .pin
      · obtain ⟨h1, h2⟩ := source_kept i s hop hsrc
        by_cases hne : s = i.cid
        · subst hne
          by_cases hr : i.table i.cid = .r
          · simp [h2 hr, hr]
          · simp [hr]
        · by_cases hr : i.table s = .r
          · simp [h1 hne, hr]
          · simp [h1 hne]
      · simp [hop]
  simp [holds, clauses, c1, c2, c3, c4, c5, c6, c7, c8, c9, c10, c11]

/-! ### what the Bool checker says, as a proposition -/

/-- `holds` (the checker the driver applies to the implementation's output) is exactly the property,
clause by clause, as propositions: it cannot be quietly weaker than the statement. -/
theorem holds_iff (i : Input) (o : Output) : holds i o = true ↔
    ((i.op = .pin → o.res = .ok → o.final i.cid = wanted i.depth) ∧
     (i.op = .unpin → o.res = .ok → held (o.final i.cid) = false) ∧
     ((i.op = .ls → clsFirst (i.beh 0) = .honest →
        o.res = .st (if i.table i.cid = wanted i.depth then i.table i.cid else .u)) ∧
      (i.op = .ls → clsFirst (i.beh 0) = .honestAny → o.res = .st (i.table i.cid))) ∧
     ((∃ x ∈ (served i o).zipIdx, failure i x.2 x.1.1 x.1.2 = true) → isSuccess o.res = false) ∧
     (i.op = .pin → i.table i.cid = wanted i.depth →
        (clsFirst (i.beh 0) = .honest ∨ clsFirst (i.beh 0) = .honestAny) →
        o.res = .ok ∧ (∀ r ∈ o.trace, isLsOf i.cid r = true) ∧ o.trace.length ≤ 1 ∧ o.swarm = [] ∧
          o.final i.cid = i.table i.cid) ∧
     (i.op = .unpin → i.unpinDisable = false → held (i.table i.cid) = false →
        (clsAt false (i.beh 0) = .honest ∨ clsAt false (i.beh 0) = .notPinned) → o.res = .ok) ∧
     (i.op = .pin → (∃ x ∈ served i o, isPinning x.1 = true ∧ (x.2 = .stall ∨ x.2 = .noProgress)) →
        o.res = .err) ∧
     (o.res ≠ .hang ∧ o.res ≠ .panic) ∧
     (∀ f t u, Req.upd f t u ∈ o.trace → i.op = .pin ∧ i.src = some f ∧ t = i.cid ∧ i.table f = .r) ∧
     (∀ f t u, Req.upd f t u ∈ o.trace → u = false) ∧
     (∀ s, i.src = some s → i.op = .pin →
        (s ≠ i.cid → o.final s = i.table s) ∧ (i.table s = .r → o.final s = .r))) := by
  simp only [holds, clauses, List.all_cons, List.all_nil, Bool.and_true, Bool.and_eq_true,
    cPinSound_iff, cUnpinSound_iff, cLsTruthful_iff, cErrorsReported_iff, cNoRequestWhenAlready_iff,
    cUnpinAbsentOk_iff, cStallTimesOut_iff, cReturns_iff, cUpdateOnlyIfRecursive_iff,
    cUpdateUnpinFalse_iff, cSourceKept_iff]

/-! ### the finding: the full statement is false -/

/-- witness: source 1 recursively pinned, pin/update never answered: the connector returns only
when the caller's context ends. -/
def witnessUpdateStall : Input :=
  { op := .pin, n := 2, cid := 0, depth := -1, modeRec := true, src := some 1, norig := 0,
    unpinDisable := false, table := fun c => if c = 1 then .r else .u, script := [.ok, .ok, .st] }

theorem C16_full_fails_updateStall :
    wf witnessUpdateStall = true ∧ allowed witnessUpdateStall (obs witnessUpdateStall []) = true ∧
      cStallTimesOut witnessUpdateStall (obs witnessUpdateStall []) = false := by decide

theorem C16_full_fails : ¬ C16_full := by
  intro h
  have := h witnessUpdateStall (obs witnessUpdateStall []) (by decide) (by decide)
  revert this
  decide

/-! ### the hypotheses are met by non-trivial inputs -/

/-- a recursive pin with an update source that the daemon holds recursively: three requests, pin/update -/
def exUpdate : Input :=
  { op := .pin, n := 3, cid := 0, depth := -1, modeRec := true, src := some 1, norig := 12,
    unpinDisable := false, table := fun c => if c = 1 then .r else if c = 2 then .d else .u,
    script := [.ok, .ok, .ok] }

example :
    wf exUpdate = true ∧ updateStalled exUpdate = false ∧
      (run exUpdate).trace = [.ls 0 true, .ls 1 true, .upd 1 0 false] ∧ (run exUpdate).res = .ok ∧
      (run exUpdate).final 0 = .r ∧ (run exUpdate).final 1 = .r ∧ (run exUpdate).swarmMax = 10 := by decide

/-- a direct pin whose pin/add stream stalls after some progress: error, nothing pinned -/
def exStall : Input :=
  { op := .pin, n := 2, cid := 0, depth := 0, modeRec := false, src := none, norig := 0,
    unpinDisable := false, table := fun _ => .i, script := [.e, .ps] }

example :
    wf exStall = true ∧ updateStalled exStall = false ∧
      (run exStall).trace = [.ls 0 false, .add 0 false none true] ∧ (run exStall).res = .err ∧
      (run exStall).final 0 = .i := by decide

/-- pin/add answered by a 200 stream that carries an error: reported as an error, nothing pinned -/
def exStreamErr : Input :=
  { op := .pin, n := 1, cid := 0, depth := -1, modeRec := true, src := none, norig := 0,
    unpinDisable := false, table := fun _ => .u, script := [.ok, .serr] }

example :
    wf exStreamErr = true ∧ updateStalled exStreamErr = false ∧
      (run exStreamErr).trace = [.ls 0 true, .add 0 true none true] ∧ (run exStreamErr).res = .err ∧
      (run exStreamErr).final 0 = .u := by decide

/-- unpinning an only indirectly pinned CID: the daemon says "not pinned", the connector says ok -/
def exUnpinAbsent : Input :=
  { op := .unpin, n := 1, cid := 0, depth := -1, modeRec := true, src := none, norig := 0,
    unpinDisable := false, table := fun _ => .i, script := [.ok] }

example : wf exUnpinAbsent = true ∧ (run exUnpinAbsent).trace = [.rm 0] ∧ (run exUnpinAbsent).res = .ok := by
  decide

/-! ### The anchored functions still read as the model was transcribed (regenerated from /repo on every run) -/

theorem gen_source_pinArgs : Gen.pinArgs = Expected.pinArgs := rfl
theorem gen_source_pin : Gen.pin = Expected.pin := rfl
theorem gen_source_pinProgress : Gen.pinProgress = Expected.pinProgress := rfl
theorem gen_source_pinUpdate : Gen.pinUpdate = Expected.pinUpdate := rfl
theorem gen_source_unpin : Gen.unpin = Expected.unpin := rfl
theorem gen_source_pinLs : Gen.pinLs = Expected.pinLs := rfl
theorem gen_source_pinLsCid : Gen.pinLsCid = Expected.pinLsCid := rfl
theorem gen_source_doPostCtx : Gen.doPostCtx = Expected.doPostCtx := rfl
theorem gen_source_postCtx : Gen.postCtx = Expected.postCtx := rfl
theorem gen_source_checkResponse : Gen.checkResponse = Expected.checkResponse := rfl
theorem gen_source_statusFromString : Gen.statusFromString = Expected.statusFromString := rfl
theorem gen_source_isPinned : Gen.isPinned = Expected.isPinned := rfl
theorem gen_source_toPinMode : Gen.toPinMode = Expected.toPinMode := rfl


end CV.C16
