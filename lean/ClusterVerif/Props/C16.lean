import ClusterVerif.Lemmas.C16
import ClusterVerif.Lemmas.C16Req
import ClusterVerif.Lemmas.C16Seq
import ClusterVerif.Model.C16Source
import ClusterVerif.Gen.C16

/-!
# C16 — the IPFS connector reports success only when the daemon reached the asked state

Property theorems only (helper lemmas are in `Lemmas/C16.lean`, `Lemmas/C16Http.lean`).

**HTTP layer** (`doPostCtx` / `checkResponse` / `postCtx`, interpreted from the decision tables the
translator regenerates from the source): `gen_tables_understood`, `doPost_passes_through`,
`post_success_iff`, `post_success_wire_iff`, `post_ipfs_error_iff`, `post_nil_body_iff`,
`check_success_iff`, `http_ctype_irrelevant`; every connector method's success rests on it:
`ls_found_rests_on_post`, `rm_ok_rests_on_post`, `upd_ok_rests_on_post`, `add_ok_rests_on_http`.

**Lookups**: `gen_lookup_sites_modelled` (every PinLsCid / PinLs call site of the source is one the
model knows), `skip_only_if_confirmed`, `filter_ignoring_source_breaks_direct_update`.

**The conversation** (`run`: `Connector.Pin / Unpin / PinLsCid` talking to a daemon with an arbitrary
pin table and an arbitrary script of per-request behaviours from the product space status code ×
content type × body shape × transport; no size bound):

* `pin_success_sound`, `unpin_success_sound`, `ls_truthful`
* `errors_reported`
* `no_request_when_already`, `unpin_absent_ok`
* `stall_times_out` (full since the repair of K28: pin/update runs under the pin timeout)
* `update_only_if_recursive`, `update_unpin_false`, `source_kept`
* `run_returns`
* `allowed_holds` — every output the model admits satisfies every clause of `Spec.C16`;
* `holds_iff` — the Bool checker `holds` read as a proposition.
-/
namespace CV.C16

/-- the model's output as an observation -/
def obs (i : Input) (sw : List Nat) : Output :=
  ⟨(run i).res, (run i).trace, sw, (run i).final⟩

/-! ### the HTTP layer -/

/-- the translator understood every statement, test and result of the three helpers -/
theorem gen_tables_understood :
    Gen.doPostCtxDec.all Dec.Path.known = true ∧ Gen.checkResponseDec.all Dec.Path.known = true ∧
      Gen.postCtxDec.all Dec.Path.known = true := by decide

/-- `doPostCtx` hands on the response and the error of the round trip, whatever else it tests -/
theorem doPost_passes_through :
    ∀ p ∈ Gen.doPostCtxDec, p.val = .response ∧ p.err = .ev .doErr := by decide

/-- `postCtx` returns a nil error exactly when response headers arrived, the status code is 200 (no
other 2xx, no 3xx) and the body could be read to its end; it then returns that body. -/
theorem post_success_iff (f : Facts) :
    (post f).err = .none ↔ (f.doErr = false ∧ f.status = 200 ∧ f.readErr = false) := by
  rw [post_eq]
  unfold postRef
  split_ifs <;> simp_all

theorem post_success_body (f : Facts) (h : (post f).err = .none) : (post f).body = .body :=
  post_ok_body f h

/-- … in terms of what is on the wire: status 200 and everything arrives; the content type and the
shape of the body play no part -/
theorem post_success_wire_iff (b : Beh) :
    (post b.facts).err = .none ↔ (b.status = 200 ∧ b.transport = .full) := post_ok_iff b

/-- an `ipfsError` (the only error whose text `Unpin` reads, and the only one `PinLsCid` takes for "not
pinned") comes back exactly for a completely received non-200 reply whose body is a JSON object with a
string `Message` (or none), or `null`; the body is handed back with it. -/
theorem post_ipfs_error_iff (b : Beh) :
    (post b.facts).err = .ipfs ↔ (b.status ≠ 200 ∧ b.transport = .full ∧ b.body.decodesAsErrObj = true) :=
  post_ipfs_iff b

/-- every other failure (no response, non-200 with an undecodable / empty / cut-off body, a 200 body
cut short) comes back with a nil body: the test `PinLsCid` uses for "the daemon is down" -/
theorem post_nil_body_iff' (f : Facts) :
    ((post f).body = .nil ∧ (post f).err ≠ .none) ↔
      ((post f).err = .transport ∨ (post f).err = .generic ∨ (post f).err = .read) := post_nil_body_iff f

/-- `checkResponse` alone (as `pinProgress` uses it, before reading the stream) passes exactly status 200 -/
theorem check_success_iff (f : Facts) : (check f).err = .none ↔ f.status = 200 := check_ok_iff f

theorem http_ctype_irrelevant (a : Bool) (b : Beh) (c : CType) :
    clsAt a ⟨b.status, c, b.body, b.transport⟩ = clsAt a b ∧
    clsFirst ⟨b.status, c, b.body, b.transport⟩ = clsFirst b ∧
    post (Beh.facts ⟨b.status, c, b.body, b.transport⟩) = post b.facts := ctype_irrelevant a b c

/-! ### every method's success rests on the HTTP layer -/

/-- `PinLsCid` reports a pin as found only from a `postCtx` success whose body lists the CID -/
theorem ls_found_rests_on_post (t : Table) (c : Nat) (tr : Bool) (b : Beh) (s : PState)
    (h : lsCid t c tr (clsFirst b) = .status s) (hs : s ≠ .u) :
    (post b.plain.facts).err = .none ∧ (b.plain.body = .expected ∨ b.plain.body = .expectedAny) := by
  rcases lsCid_found_cls _ _ _ _ _ h hs with hk | hk
  · obtain ⟨h1, h2, h3⟩ := (clsPost_honest_iff b.plain).1 hk
    exact ⟨(post_ok_iff _).2 ⟨h1, h2⟩, Or.inl h3⟩
  · obtain ⟨h1, h2, h3⟩ := (clsPost_honestAny_iff b.plain).1 hk
    exact ⟨(post_ok_iff _).2 ⟨h1, h2⟩, Or.inr h3⟩

/-- `Unpin` returns nil only from a `postCtx` success, or from an `ipfsError` carrying exactly the
ErrNotPinned text (third case: the reply that got lost was the daemon's own "not pinned" refusal) -/
theorem rm_ok_rests_on_post (t : Table) (c : Nat) (b : Beh) (h : (rmCall t c b).1 = .ok) :
    (post b.plain.facts).err = .none ∨
    ((post b.plain.facts).err = .ipfs ∧ b.plain.body = .errObj .notPinned) ∨
    (rmHonest t c = none ∧ clsAt false b = .lostReply) := by
  have hsucc := clsPost_success_iff b.plain
  rcases rmCall_ok_cls _ _ _ h with hk | hk | hk | ⟨hk, hn⟩
  · left
    rcases clsAt_false_eq b with he | ⟨_, he⟩
    · exact (post_ok_iff _).2 (hsucc.1 (Or.inl (he ▸ hk)))
    · exact (post_ok_iff _).2 (hsucc.1 (Or.inr (Or.inl he)))
  · left
    rcases clsAt_false_eq b with he | ⟨he, _⟩
    · exact (post_ok_iff _).2 (hsucc.1 (Or.inr (Or.inr (he ▸ hk))))
    · rw [he] at hk; cases hk
  · right; left
    rcases clsAt_false_eq b with he | ⟨he, _⟩
    · obtain ⟨h1, h2, h3⟩ := (clsPost_notPinned_iff b.plain).1 (he ▸ hk)
      exact ⟨(post_ipfs_iff _).2 ⟨h1, h2, by simp [h3, Body.decodesAsErrObj]⟩, h3⟩
    · rw [he] at hk; cases hk
  · exact Or.inr (Or.inr ⟨hn, hk⟩)

/-- `pinUpdate` returns nil only from a `postCtx` success -/
theorem upd_ok_rests_on_post (t : Table) (f c : Nat) (b : Beh) (h : (updCall t f c b).1 = .ok) :
    (post b.plain.facts).err = .none := by
  have hsucc := clsPost_success_iff b.plain
  rcases updCall_ok_cls _ _ _ _ h with hk | hk
  · rcases clsAt_false_eq b with he | ⟨_, he⟩
    · exact (post_ok_iff _).2 (hsucc.1 (Or.inl (he ▸ hk)))
    · exact (post_ok_iff _).2 (hsucc.1 (Or.inr (Or.inl he)))
  · rcases clsAt_false_eq b with he | ⟨he, _⟩
    · exact (post_ok_iff _).2 (hsucc.1 (Or.inr (Or.inr (he ▸ hk))))
    · rw [he] at hk; cases hk

/-- `pinProgress` returns nil only when the round trip gave a response, `checkResponse` passed it
(status 200), the stream arrived to its end and carried neither an error object nor garbage -/
theorem add_ok_rests_on_http (t : Table) (c : Nat) (d : Int) (b : Beh) (h : (addCall t c d b).1 = .ok) :
    (doPost b.facts).err = .none ∧ (check b.facts).err = .none ∧ b.transport = .full ∧
      (b.body = .expected ∨ b.body = .expectedAny ∨ b.body = .otherObj ∨ b.body = .jnull ∨ b.body = .empty ∨
        b.body = .slow) := by
  have hk := (addCall_ok_cls _ _ _ _ h).1
  simp only [clsAt, if_true] at hk
  obtain ⟨h1, h2, h3⟩ := (clsAdd_success_iff b).1 hk
  refine ⟨?_, (check_ok_iff _).2 h1, h2, h3⟩
  rw [doPost_eq]
  simp [doPostRef, Beh.facts, h2]

/-! ### lookups: a request is skipped only on a confirmation -/

/-- what a lookup site of the source means in the model -/
structure SiteSem where
  ownCid : Bool          -- the pin's own CID (else the update source)
  filterFromDepth : Bool -- `type=` from the pin's MaxDepth (else from its Mode, through `PinWithOpts`)
  wantRecursive : Bool   -- the test is IsPinned(-1) (else IsPinned(maxDepth))
  errReturned : Bool     -- an error of the lookup ends the call
  skipsAdd : Bool        -- on a positive test no pin/add is sent (`return nil` / `return pinUpdate`)
  deriving DecidableEq, Repr

def siteSem (s : Dec.LookupSite) : Option SiteSem :=
  if s = ⟨"Pin", "PinLsCid", "pin", "", true, "status.IsPinned(maxDepth)", "return nil"⟩ then
    some ⟨true, true, false, true, true⟩
  else if s = ⟨"Pin", "PinLsCid", "fromPin", "api.PinWithOpts(from, pin.PinOptions)", false, "status.IsPinned(-1)",
      "return ipfs.pinUpdate(ctx, from, pin.Cid)"⟩ then
    some ⟨false, false, true, false, true⟩
  else none

/-- the decision taken at a site, for the daemon answer `b` -/
def siteDecision (sem : SiteSem) (i : Input) (f : Nat) (b : Beh) : Bool :=
  if sem.ownCid then lsCid i.table i.cid (typeRec i.depth) (clsFirst b) == .status (asked i.depth)
  else lsCid i.table f i.modeRec (clsFirst b) == .status .r

/-- what the daemon must hold for the decision to be right -/
def siteConfirmed (sem : SiteSem) (i : Input) (f : Nat) : Bool :=
  if sem.ownCid then i.table i.cid == wanted i.depth else i.table f == .r

/-- every place where the source consults PinLsCid / PinLs is one of the two the model has: the
short-cut of `Pin` and the source check before pin/update (a new probe breaks this theorem) -/
theorem gen_lookup_sites_modelled :
    Gen.lookupSites.map siteSem = [some ⟨true, true, false, true, true⟩, some ⟨false, false, true, false, true⟩] := by
  decide

/-- At every lookup site of the source, for every daemon answer of the product space (error objects,
garbage, cut or stalled replies, listings that ignore the `type=` filter): the decision not to send
pin/add is taken only when the daemon holds the CID in the mode the site asks about. -/
theorem skip_only_if_confirmed :
    ∀ s ∈ Gen.lookupSites, ∃ sem, siteSem s = some sem ∧
      ∀ (i : Input) (f : Nat) (b : Beh), siteDecision sem i f b = true → siteConfirmed sem i f = true := by
  intro s hs
  have hm := gen_lookup_sites_modelled
  simp only [Gen.lookupSites, List.map_cons, List.map_nil, List.cons.injEq, and_true] at hm
  simp only [Gen.lookupSites, List.mem_cons, List.not_mem_nil, or_false] at hs
  rcases hs with rfl | rfl
  · refine ⟨_, hm.1, ?_⟩
    intro i f b h
    simp only [siteDecision, if_true, beq_iff_eq] at h
    simp only [siteConfirmed, if_true, beq_iff_eq, wanted_eq_asked]
    exact lsCid_asked _ _ _ _ h
  · refine ⟨_, hm.2, ?_⟩
    intro i f b h
    simp only [siteDecision, Bool.false_eq_true, if_false, beq_iff_eq] at h
    simp only [siteConfirmed, Bool.false_eq_true, if_false, beq_iff_eq]
    exact (lsCid_r_any _ _ _ _ h).1

/-- … and these are the decisions `Pin` takes: a run of `Pin` that sends no pin/add either stopped at
the failed first lookup, or took the short-cut (site 1), or went through pin/update (site 2) -/
theorem pin_without_add (i : Input) (hop : i.op = .pin)
    (hno : ∀ r ∈ (run i).trace, r.isAdd = false) :
    (run i).res = .err ∨
    siteDecision ⟨true, true, false, true, true⟩ i 0 (i.beh 0) = true ∨
    (∃ f, i.src = some f ∧ siteDecision ⟨false, false, true, false, true⟩ i f (i.beh 1) = true) := by
  simp only [run, hop] at hno ⊢
  rcases pin_cases i with ⟨_, hp⟩ | ⟨h0, hp⟩ | ⟨s, h0, hs, hsrc, hp⟩ | ⟨s, f, h0, hs, hsrc, hu, hp⟩ |
      ⟨s, f, h0, hs, hsrc, hu, hp⟩ <;> rw [hp] at hno ⊢
  · exact Or.inl rfl
  · right; left; simp [siteDecision, h0]
  · have := hno (addReq i.cid i.depth) (by simp)
    simp at this
  · right; right; exact ⟨f, hsrc, by simp [siteDecision, hu]⟩
  · have := hno (addReq i.cid i.depth) (by simp)
    simp at this

/-- The source lookup relies on the daemon honouring `type=`: a depth-0 pin (Mode direct) with an update
source that a filter-ignoring daemon lists as recursive goes through pin/update and is reported as done
although the CID is now pinned recursively.  go-ipfs honours the filter; the case is outside `wf`. -/
def witnessFilterIgnoringSource : Input :=
  { op := .pin, n := 2, cid := 0, depth := 0, modeRec := false, src := some 1, norig := 0,
    unpinDisable := false, table := fun c => if c = 1 then .r else .u,
    script := [Beh.ok, ⟨200, .json, .expectedAny, .full⟩, Beh.ok] }

theorem filter_ignoring_source_breaks_direct_update :
    wf witnessFilterIgnoringSource = false ∧ (run witnessFilterIgnoringSource).res = .ok ∧
      (run witnessFilterIgnoringSource).trace = [.ls 0 false, .ls 1 false, .upd 1 0 false] ∧
      (run witnessFilterIgnoringSource).final 0 = .r ∧ wanted witnessFilterIgnoringSource.depth = .d := by
  decide

/-! ### the rest of the connector: BlockGet, BlockPut, Resolve, SwarmPeers, RepoGC, ConfigKey -/

macro "aux_cases" i:ident : tactic => `(tactic| (
  obtain ⟨op, ⟨s, ct, body, tr⟩, v⟩ := $i
  by_cases h200 : s = 200
  · subst h200
    cases op <;> rcases tr with _ | _ | _ | ⟨_ | _⟩ | _ <;>
    rcases body with _ | _ | ⟨_ | _ | _ | _⟩ | _ | _ | _ | _ | _ | _ | _ | _ | _ | _ <;>
      simp (config := {decide := true}) [Aux.run, Aux.readBody, Aux.gcStream, Aux.Beh.stallsAux, Aux.Res.isOk,
        post_eq, doPost_eq, check_eq, postRef, doPostRef, checkRef, Beh.facts, Body.decodesAsErrObj] <;>
      (try split_ifs) <;> (try simp_all (config := {decide := true})) <;> (try omega)
  · have h200' : (s == 200) = false := by simp [h200]
    cases op <;> rcases tr with _ | _ | _ | ⟨_ | _⟩ | _ <;>
    rcases body with _ | _ | ⟨_ | _ | _ | _⟩ | _ | _ | _ | _ | _ | _ | _ | _ | _ | _ <;>
      simp (config := {decide := true}) [Aux.run, Aux.readBody, Aux.gcStream, Aux.Beh.stallsAux, Aux.Res.isOk,
        post_eq, doPost_eq, check_eq, postRef, doPostRef, checkRef, Beh.facts, Body.decodesAsErrObj, h200, h200']))

/-- none of the six methods reports success unless the daemon's reply had status 200 and arrived
completely: for the five that go through `postCtx` that is `post_success_iff`; `RepoGC` calls
`doPostCtx` and `checkResponse` itself -/
theorem aux_success_sound (i : Aux.In) (h : (Aux.run i).isOk = true) :
    i.beh.status = 200 ∧ i.beh.transport = .full ∧ (post i.beh.facts).err = .none := by
  revert h
  aux_cases i

/-- BlockPut: success only if the reply carries a key that parses as a CID -/
theorem blockput_success_sound (i : Aux.In) (hop : i.op = .blockPut) (h : (Aux.run i).isOk = true) :
    (post i.beh.facts).err = .none ∧ (i.beh.body = .expected ∨ i.beh.body = .expectedAny) := by
  revert h hop
  aux_cases i

/-- Resolve: success only with a parsed `/ipfs/<cid>` path, and the CID returned is that one -/
theorem resolve_success_sound (i : Aux.In) (hop : i.op = .resolve) (a b : Nat) (h : Aux.run i = .ok a b) :
    (post i.beh.facts).err = .none ∧ (i.beh.body = .expected ∨ i.beh.body = .expectedAny) ∧ a = 1 := by
  revert h hop
  aux_cases i

/-- RepoGC: a refusal of the daemon (any status but 200, e.g. 500 with an error object) is an error,
not a list with one nameless key (the defect repaired in this round) -/
theorem repogc_refusal_is_error (i : Aux.In) (hop : i.op = .repoGC) (hs : i.beh.status ≠ 200) :
    Aux.run i = .err := by
  revert hs hop
  aux_cases i

/-- RepoGC keeps the per-key errors the daemon streams -/
theorem repogc_errors_kept (i : Aux.In) (hop : i.op = .repoGC) (hb : i.beh.body = .expected) (hv : i.variant % 3 = 1)
    (a b : Nat) (h : Aux.run i = .ok a b) : a = 2 ∧ b = 1 := by
  revert h hv hb hop
  aux_cases i

/-- a well-formed success reply is reported as a success -/
theorem aux_good_reply_ok (i : Aux.In) (h1 : i.beh.status = 200) (h2 : i.beh.transport = .full)
    (h3 : i.beh.body = .expected)
    (hop : i.op = .blockGet ∨ i.op = .blockPut ∨ i.op = .resolve ∨ i.op = .repoGC) : (Aux.run i).isOk = true := by
  revert hop h3 h2 h1
  aux_cases i

theorem aux_returns (i : Aux.In) : Aux.run i ≠ .hang ∧ Aux.run i ≠ .panic ∧ Aux.run i ≠ .errctx := by
  aux_cases i

/-- every clause of the Spec for these methods holds of the model, for every reply of the product space -/
theorem aux_holds (i : Aux.In) : Aux.holds i (Aux.run i) = true := by
  have c1 : Aux.cSuccessSound i (Aux.run i) = true := by
    unfold Aux.cSuccessSound
    cases h : (Aux.run i).isOk
    · simp
    · obtain ⟨a, b, _⟩ := aux_success_sound i h
      simp [a, b]
  have c2 : Aux.cResolveCid i (Aux.run i) = true := by
    unfold Aux.cResolveCid
    cases h : Aux.run i with
    | ok a b =>
      by_cases hop : i.op = .resolve
      · simp [hop, (resolve_success_sound i hop a b h).2.2]
      · simp [hop]
    | _ => rfl
  have c3 : Aux.cGcErrorsKept i (Aux.run i) = true := by
    unfold Aux.cGcErrorsKept
    cases h : Aux.run i with
    | ok a b =>
      by_cases hc : i.op = .repoGC ∧ i.beh.body = .expected ∧ i.variant % 3 = 1
      · obtain ⟨ha, hb⟩ := repogc_errors_kept i hc.1 hc.2.1 hc.2.2 a b h
        simp [ha, hb]
      · simp only [Bool.or_eq_true, Bool.not_eq_true', Bool.and_eq_false_iff, beq_eq_false_iff_ne, ne_eq]
        left
        by_cases h1 : i.op = .repoGC
        · by_cases h2 : i.beh.body = .expected
          · right; intro h3; exact hc ⟨h1, h2, by simpa using h3⟩
          · left; right; simpa using h2
        · left; left; simpa using h1
    | _ => rfl
  have c4 : Aux.cGoodReplyOk i (Aux.run i) = true := by
    unfold Aux.cGoodReplyOk
    by_cases hc : i.beh.status = 200 ∧ i.beh.transport = .full ∧ i.beh.body = .expected ∧
        (i.op = .blockGet ∨ i.op = .blockPut ∨ i.op = .resolve ∨ i.op = .repoGC)
    · simp [aux_good_reply_ok i hc.1 hc.2.1 hc.2.2.1 hc.2.2.2]
    · simp only [Bool.or_eq_true, Bool.not_eq_true', Bool.and_eq_false_iff, beq_eq_false_iff_ne, ne_eq,
        Bool.or_eq_false_iff]
      left
      by_cases h1 : i.beh.status = 200
      · by_cases h2 : i.beh.transport = .full
        · by_cases h3 : i.beh.body = .expected
          · right
            have h4 : ¬ (i.op = .blockGet ∨ i.op = .blockPut ∨ i.op = .resolve ∨ i.op = .repoGC) :=
              fun h4 => hc ⟨h1, h2, h3, h4⟩
            simp only [not_or] at h4
            simpa [and_assoc] using h4
          · left; right; simpa using h3
        · left; left; right; simpa using h2
      · left; left; left; simpa using h1
  have c5 : Aux.cReturns (Aux.run i) = true := by
    have := aux_returns i
    simp [Aux.cReturns, this]
  simp [Aux.holds, Aux.clauses, c1, c2, c3, c4, c5]

example : Aux.run ⟨.repoGC, ⟨200, .json, .expected, .full⟩, 1⟩ = .ok 2 1 ∧
    Aux.run ⟨.repoGC, ⟨500, .json, .errObj .other, .full⟩, 0⟩ = .err ∧
    Aux.run ⟨.resolve, ⟨200, .json, .otherObj, .full⟩, 0⟩ = .err ∧
    Aux.run ⟨.swarmPeers, ⟨200, .json, .expected, .full⟩, 2⟩ = .err := by decide

/-! ### success only if the daemon reached the asked state -/

/-- `Pin` returns nil ⇒ the daemon holds the CID in the asked mode. -/
theorem pin_success_sound (i : Input) (hw : wf i = true) (hop : i.op = .pin)
    (h : (run i).res = .ok) : (run i).final i.cid = wanted i.depth := by
  rw [wanted_eq_asked]
  simp only [run, hop] at h ⊢
  rcases pin_cases i with ⟨_, hp⟩ | ⟨h0, hp⟩ | ⟨s, h0, hs, hsrc, hp⟩ | ⟨s, f, h0, hs, hsrc, hu, hp⟩ |
      ⟨s, f, h0, hs, hsrc, hu, hp⟩
  · rw [hp] at h; simp at h
  · rw [hp]; exact lsCid_asked _ _ _ _ h0
  · rw [hp] at h ⊢
    exact addCall_ok _ _ _ _ h
  · rw [hp] at h ⊢
    have hr := updCall_ok _ _ _ _ h
    obtain ⟨_, hm⟩ := lsCid_r_any _ _ _ _ hu
    have hd : i.depth ≠ 0 := by
      intro hd
      by_cases hk : clsFirst (i.beh 1) = .honestAny
      · simp [wf, hsrc, hd, hk, hop] at hw
      · simp [wf, hsrc, hm hk, hd] at hw
    simp only [hr, asked, hd, if_false]
  · rw [hp] at h ⊢
    exact addCall_ok _ _ _ _ h

/-- `Unpin` returns nil ⇒ the daemon holds no pin on the CID (for a daemon that does not lie). -/
theorem unpin_success_sound (i : Input) (hw : wf i = true) (hop : i.op = .unpin)
    (h : (run i).res = .ok) : held ((run i).final i.cid) = false := by
  simp only [run, hop, unpin] at h ⊢
  by_cases hd : i.unpinDisable = true
  · simp [hd] at h
  · simp only [hd, if_false, Bool.false_eq_true] at h ⊢
    apply rmCall_ok _ _ _ h
    intro hl
    simp [wf, hop, hl.1, hl.2] at hw

/-- a truthfully answered `PinLsCid` reports the daemon's state as far as the type filter shows it;
if the daemon lists the pin whatever the filter, exactly the daemon's state -/
theorem ls_truthful (i : Input) (hop : i.op = .ls) :
    (clsFirst (i.beh 0) = .honest →
      (run i).res = .st (if i.table i.cid = wanted i.depth then i.table i.cid else .u)) ∧
    (clsFirst (i.beh 0) = .honestAny → (run i).res = .st (i.table i.cid)) := by
  simp only [run, hop, lsOp]
  constructor <;> intro hb <;> rw [hb]
  · rw [lsCid_honest, wanted_eq_asked]
  · rw [lsCid_honestAny]

/-! ### requests nothing when already pinned as asked -/

theorem no_request_when_already (i : Input) (hop : i.op = .pin)
    (hp : i.table i.cid = wanted i.depth)
    (hb : clsFirst (i.beh 0) = .honest ∨ clsFirst (i.beh 0) = .honestAny) :
    (run i).res = .ok ∧ (run i).trace = [.ls i.cid (typeRec i.depth)] ∧ (run i).swarmMax = 0 ∧
      (run i).final = i.table := by
  rw [wanted_eq_asked] at hp
  have h0 : lsCid i.table i.cid (typeRec i.depth) (clsFirst (i.beh 0)) = .status (asked i.depth) := by
    rcases hb with hb | hb <;> rw [hb]
    · rw [lsCid_honest]; simp [hp]
    · rw [lsCid_honestAny, hp]
  simp [run, hop, pin, h0]

/-! ### unpinning what is not pinned is a success -/

theorem unpin_absent_ok (i : Input) (hop : i.op = .unpin) (hd : i.unpinDisable = false)
    (ha : held (i.table i.cid) = false)
    (hb : clsAt false (i.beh 0) = .honest ∨ clsAt false (i.beh 0) = .notPinned) :
    (run i).res = .ok := by
  simp only [run, hop, unpin, hd, if_false, Bool.false_eq_true]
  exact rmCall_absent _ _ _ ha hb

/-! ### pin update -/

/-- a pin/update is sent only by `Pin`, from the pin's own source to its CID, and only when the
daemon holds the source recursively -/
theorem update_only_if_recursive (i : Input) (f t : Nat) (u : Bool) (h : Req.upd f t u ∈ (run i).trace) :
    i.op = .pin ∧ i.src = some f ∧ t = i.cid ∧ i.table f = .r := by
  cases hop : i.op with
  | unpin =>
    simp only [run, hop, unpin] at h
    split at h <;> simp at h
  | ls =>
    simp only [run, hop, lsOp] at h
    split at h <;> simp at h
  | pin =>
    simp only [run, hop] at h
    rcases pin_cases i with ⟨_, hp⟩ | ⟨h0, hp⟩ | ⟨s, h0, hs, hsrc, hp⟩ | ⟨s, f', h0, hs, hsrc, hu, hp⟩ |
        ⟨s, f', h0, hs, hsrc, hu, hp⟩ <;> rw [hp] at h <;> simp [addReq] at h
    obtain ⟨rfl, rfl, _⟩ := h
    exact ⟨rfl, hsrc, rfl, (lsCid_r_any _ _ _ _ hu).1⟩

/-- … and always with `unpin=false` -/
theorem update_unpin_false (i : Input) (f t : Nat) (u : Bool) (h : Req.upd f t u ∈ (run i).trace) :
    u = false := by
  cases hop : i.op with
  | unpin =>
    simp only [run, hop, unpin] at h
    split at h <;> simp at h
  | ls =>
    simp only [run, hop, lsOp] at h
    split at h <;> simp at h
  | pin =>
    simp only [run, hop] at h
    rcases pin_cases i with ⟨_, hp⟩ | ⟨h0, hp⟩ | ⟨s, h0, hs, hsrc, hp⟩ | ⟨s, f', h0, hs, hsrc, hu, hp⟩ |
        ⟨s, f', h0, hs, hsrc, hu, hp⟩ <;> rw [hp] at h <;> simp [addReq] at h
    exact h.2.2

/-- `Pin` leaves the update source as it was: untouched when it is another CID, still recursively
pinned when it is the CID itself -/
theorem source_kept (i : Input) (s : Nat) (hop : i.op = .pin) (hsrc : i.src = some s) :
    (s ≠ i.cid → (run i).final s = i.table s) ∧ (i.table s = .r → (run i).final s = .r) := by
  simp only [run, hop]
  rcases pin_cases i with ⟨_, hp⟩ | ⟨h0, hp⟩ | ⟨s', h0, hs, hsrc', hp⟩ | ⟨s', f, h0, hs, hsrc', hu, hp⟩ |
      ⟨s', f, h0, hs, hsrc', hu, hp⟩ <;> rw [hp]
  · exact ⟨fun _ => rfl, fun h => h⟩
  · exact ⟨fun _ => rfl, fun h => h⟩
  · rw [hsrc] at hsrc'; cases hsrc'
  · rw [hsrc] at hsrc'; cases hsrc'
    refine ⟨fun hne => updCall_frame _ _ _ _ _ hne, fun hr => ?_⟩
    by_cases hne : s = i.cid
    · subst hne; exact updCall_same _ _ _ hr
    · show (updCall i.table s i.cid (i.beh 2)).2 s = .r
      rw [updCall_frame _ _ _ _ _ hne]; exact hr
  · rw [hsrc] at hsrc'; cases hsrc'
    refine ⟨fun hne => addCall_frame _ _ _ _ _ hne, fun hr => ?_⟩
    by_cases hne : s = i.cid
    · -- the source is the CID itself and is recursively pinned: an honest pin/ls of it says so
      subst hne
      exact addCall_keeps_r _ _ _ _ hr
    · show (addCall i.table i.cid i.depth (i.beh 2)).2 s = .r
      rw [addCall_frame _ _ _ _ _ hne]; exact hr

/-! ### daemon and transport failures are reported as errors -/

/-- if any request that decides the outcome failed, the call does not report success -/
theorem errors_reported (i : Input)
    (hf : ((servedT i (run i).trace).zipIdx.any (fun x => failure i x.2 x.1.1 x.1.2)) = true) :
    isSuccess (run i).res = false := by
  cases hop : i.op with
  | unpin =>
    simp only [run, hop, unpin] at hf ⊢
    by_cases hd : i.unpinDisable = true
    · simp [hd, isSuccess]
    · simp only [hd, if_false, Bool.false_eq_true] at hf ⊢
      simp [servedT, List.zipIdx, Req.isAdd] at hf
      rw [rmCall_of_failure i 0 _ hf]; rfl
  | ls =>
    simp only [run, hop, lsOp] at hf ⊢
    cases hl : lsCid i.table i.cid (typeRec i.depth) (clsFirst (i.beh 0)) with
    | err => rfl
    | status s =>
      rw [hl] at hf
      simp [servedT, List.zipIdx, Req.isAdd] at hf
      rw [lsCid_of_failure i _ _ _ hf] at hl; cases hl
  | pin =>
    simp only [run, hop] at hf ⊢
    rcases pin_cases i with ⟨_, hp⟩ | ⟨h0, hp⟩ | ⟨s, h0, hs, hsrc, hp⟩ | ⟨s, f, h0, hs, hsrc, hu, hp⟩ |
        ⟨s, f, h0, hs, hsrc, hu, hp⟩ <;> rw [hp] at hf ⊢
    · rfl
    · simp [servedT, List.zipIdx, Req.isAdd] at hf
      rw [lsCid_of_failure i _ _ _ hf] at h0; cases h0
    · simp [servedT, List.zipIdx, Req.isAdd, addReq] at hf
      rcases hf with hf | hf
      · rw [lsCid_of_failure i _ _ _ hf] at h0; cases h0
      · have := addCall_of_failure i 1 (i.beh 1) (by simpa [addReq] using hf)
        simp [this, isSuccess]
    · simp [servedT, List.zipIdx, Req.isAdd] at hf
      rcases hf with hf | hf | hf
      · rw [lsCid_of_failure i _ _ _ hf] at h0; cases h0
      · simp [failure] at hf
      · have hne := updCall_of_failure i 2 f false (i.beh 2) hf
        rcases updCall_res i.table f i.cid (i.beh 2) with h | h | h
        · exact absurd h hne
        · simp [h, isSuccess]
        · simp [h, isSuccess]
    · simp [servedT, List.zipIdx, Req.isAdd, addReq] at hf
      rcases hf with hf | hf | hf
      · rw [lsCid_of_failure i _ _ _ hf] at h0; cases h0
      · simp [failure] at hf
      · have := addCall_of_failure i 2 (i.beh 2) (by simpa [addReq] using hf)
        simp [this, isSuccess]

/-! ### a pin that makes no progress is given up -/

/-- a pin/add that stalls or whose progress number stops rising, and a pin/update that is not
answered, make `Pin` return an error by itself -/
theorem stall_times_out (i : Input) (hop : i.op = .pin)
    (hs : (servedT i (run i).trace).any (fun x => isPinning x.1 && (x.2 == .stall || x.2 == .noProgress)) = true) :
    (run i).res = .err := by
  simp only [run, hop] at hs ⊢
  rcases pin_cases i with ⟨_, hp⟩ | ⟨h0, hp⟩ | ⟨s, h0, hs', hsrc, hp⟩ | ⟨s, f, h0, hs', hsrc, hu, hp⟩ |
      ⟨s, f, h0, hs', hsrc, hu, hp⟩ <;> rw [hp] at hs ⊢
  · simp [servedT, List.zipIdx, isPinning] at hs
  · simp [servedT, List.zipIdx, Req.isAdd, addReq, isPinning] at hs
    exact addCall_of_stall _ _ _ _ hs
  · simp [servedT, List.zipIdx, Req.isAdd, isPinning] at hs
    rcases hs with hs | hs
    · exact updCall_of_stall _ _ _ _ hs
    · exact absurd hs (clsAt_false_ne_noProgress _)
  · simp [servedT, List.zipIdx, Req.isAdd, addReq, isPinning] at hs
    exact addCall_of_stall _ _ _ _ hs

/-- the call always returns (model: never `hang`, never `panic`) -/
theorem run_returns (i : Input) : (run i).res ≠ .hang ∧ (run i).res ≠ .panic := by
  cases hop : i.op with
  | unpin =>
    simp only [run, hop, unpin]
    by_cases hd : i.unpinDisable = true
    · simp [hd]
    · simp only [hd, if_false, Bool.false_eq_true]
      rcases rmCall_res i.table i.cid (i.beh 0) with h | h <;> simp [h]
  | ls =>
    simp only [run, hop, lsOp]
    split <;> simp
  | pin =>
    simp only [run, hop]
    rcases pin_cases i with ⟨_, hp⟩ | ⟨h0, hp⟩ | ⟨s, h0, hs, hsrc, hp⟩ | ⟨s, f, h0, hs, hsrc, hu, hp⟩ |
        ⟨s, f, h0, hs, hsrc, hu, hp⟩ <;> rw [hp]
    · simp
    · simp
    · rcases addCall_res i.table i.cid i.depth (i.beh 1) with h | h <;> simp [h]
    · rcases updCall_res i.table f i.cid (i.beh 2) with h | h | h <;> simp [h]
    · rcases addCall_res i.table i.cid i.depth (i.beh 2) with h | h <;> simp [h]

/-- the transcribed conversation never ends only because the caller's context did -/
theorem run_no_errctx (i : Input) : (run i).res ≠ .errctx := by
  cases hop : i.op with
  | unpin =>
    simp only [run, hop, unpin]
    by_cases hd : i.unpinDisable = true
    · simp [hd]
    · simp only [hd, if_false, Bool.false_eq_true]
      rcases rmCall_res i.table i.cid (i.beh 0) with h | h <;> simp [h]
  | ls =>
    simp only [run, hop, lsOp]
    split <;> simp
  | pin =>
    simp only [run, hop]
    rcases pin_cases i with ⟨_, hp⟩ | ⟨h0, hp⟩ | ⟨s, h0, hs, hsrc, hp⟩ | ⟨s, f, h0, hs, hsrc, hu, hp⟩ |
        ⟨s, f, h0, hs, hsrc, hu, hp⟩ <;> rw [hp]
    · simp
    · simp
    · rcases addCall_res i.table i.cid i.depth (i.beh 1) with h | h <;> simp [h]
    · rcases updCall_res2 i.table f i.cid (i.beh 2) with h | h <;> simp [h]
    · rcases addCall_res i.table i.cid i.depth (i.beh 2) with h | h <;> simp [h]

/-! ### every output the model admits satisfies every clause -/

/-- C16 at full strength: whatever the real connector may show according to the model satisfies the
property, for every pin, prior pin table and script of daemon behaviours in the quantifier's domain. -/
theorem allowed_holds (i : Input) (o : Output) (hw : wf i = true) (ha : allowed i o = true) :
    holds i o = true := by
  simp only [allowed, Bool.and_eq_true, beq_iff_eq, List.all_eq_true, List.mem_range] at ha
  obtain ⟨⟨⟨hres, htr⟩, hfin⟩, hsw⟩ := ha
  have hcid : i.cid < i.n := by
    simp only [wf, Bool.and_eq_true, decide_eq_true_eq] at hw; exact hw.1.1
  have hfc : o.final i.cid = (run i).final i.cid := hfin _ hcid
  have hfs : ∀ s, i.src = some s → o.final s = (run i).final s := by
    intro s hs
    simp only [wf, hs, Bool.and_eq_true, decide_eq_true_eq] at hw
    exact hfin _ hw.1.2.1.1
  have c1 : cPinSound i o = true := by
    unfold cPinSound; rw [hres, hfc]
    by_cases h : (i.op == .pin && (run i).res == .ok) = true
    · have h' : i.op = .pin ∧ (run i).res = .ok := by simpa using h
      simp [pin_success_sound i hw h'.1 h'.2]
    · simp [h]
  have c2 : cUnpinSound i o = true := by
    unfold cUnpinSound; rw [hres, hfc]
    by_cases h : (i.op == .unpin && (run i).res == .ok) = true
    · have h' : i.op = .unpin ∧ (run i).res = .ok := by simpa using h
      simp [unpin_success_sound i hw h'.1 h'.2]
    · simp [h]
  have c3 : cLsTruthful i o = true := by
    rw [cLsTruthful_iff, hres]
    exact ⟨fun hop hb => (ls_truthful i hop).1 hb, fun hop hb => (ls_truthful i hop).2 hb⟩
  have c4 : cErrorsReported i o = true := by
    unfold cErrorsReported served; rw [hres, htr]
    by_cases h : ((servedT i (run i).trace).zipIdx.any (fun x => failure i x.2 x.1.1 x.1.2)) = true
    · simp [errors_reported i h]
    · simp [h]
  have c5 : cNoRequestWhenAlready i o = true := by
    rw [cNoRequestWhenAlready_iff, hres, htr, hfc]
    intro hop hp hb
    obtain ⟨h1, h2, h3, h4⟩ := no_request_when_already i hop hp hb
    rw [h3] at hsw
    simp [h1, h2, h4, isLsOf, swarmOk_zero _ hsw]
  have c6 : cUnpinAbsentOk i o = true := by
    unfold cUnpinAbsentOk; rw [hres]
    by_cases h : (i.op == .unpin && !i.unpinDisable && !held (i.table i.cid) &&
        (clsAt false (i.beh 0) == .honest || clsAt false (i.beh 0) == .notPinned)) = true
    · have h' : ((i.op = .unpin ∧ i.unpinDisable = false) ∧ held (i.table i.cid) = false) ∧
          (clsAt false (i.beh 0) = .honest ∨ clsAt false (i.beh 0) = .notPinned) := by simpa using h
      simp [unpin_absent_ok i h'.1.1.1 h'.1.1.2 h'.1.2 h'.2]
    · simp [h]
  have c7 : cStallTimesOut i o = true := by
    unfold cStallTimesOut served; rw [hres, htr]
    by_cases h : (i.op == .pin && (servedT i (run i).trace).any
        (fun x => isPinning x.1 && (x.2 == .stall || x.2 == .noProgress))) = true
    · have h' : i.op = .pin ∧ (servedT i (run i).trace).any
          (fun x => isPinning x.1 && (x.2 == .stall || x.2 == .noProgress)) = true := by simpa using h
      simp [stall_times_out i h'.1 h'.2]
    · simp [h]
  have c8 : cReturns o = true := by
    unfold cReturns; rw [hres]
    simp [run_returns i]
  have c9 : cUpdateOnlyIfRecursive i o = true := by
    unfold cUpdateOnlyIfRecursive; rw [htr, List.all_eq_true]
    intro r hr
    cases r with
    | upd f t u =>
      obtain ⟨h1, h2, h3, h4⟩ := update_only_if_recursive i f t u hr
      simp [h1, h2, h3, h4]
    | _ => rfl
  have c10 : cUpdateUnpinFalse o = true := by
    unfold cUpdateUnpinFalse; rw [htr, List.all_eq_true]
    intro r hr
    cases r with
    | upd f t u => simp [update_unpin_false i f t u hr]
    | _ => rfl
  have c11 : cSourceKept i o = true := by
    unfold cSourceKept
    cases hsrc : i.src with
    | none => rfl
    | some s =>
      simp only
      rw [hfs s hsrc]
      by_cases hop : i.op = .pin
      · obtain ⟨h1, h2⟩ := source_kept i s hop hsrc
        by_cases hne : s = i.cid
        · subst hne
          by_cases hr : i.table i.cid = .r
          · simp [h2 hr, hr]
          · simp [hr]
        · by_cases hr : i.table s = .r
          · simp [h1 hne, hr]
          · simp [h1 hne]
      · simp [hop]
  have c12 : cPinGivesUp i o = true := by
    rw [cPinGivesUp_iff, hres]
    exact fun _ => ⟨run_no_errctx i, (run_returns i).1⟩
  simp [holds, clauses, c1, c2, c3, c4, c5, c6, c7, c8, c9, c10, c11, c12]

/-! ### what the Bool checker says, as a proposition -/

/-- `holds` (the checker the driver applies to the implementation's output) is exactly the property,
clause by clause, as propositions: it cannot be quietly weaker than the statement. -/
theorem holds_iff (i : Input) (o : Output) : holds i o = true ↔
    ((i.op = .pin → o.res = .ok → o.final i.cid = wanted i.depth) ∧
     (i.op = .unpin → o.res = .ok → held (o.final i.cid) = false) ∧
     ((i.op = .ls → clsFirst (i.beh 0) = .honest →
        o.res = .st (if i.table i.cid = wanted i.depth then i.table i.cid else .u)) ∧
      (i.op = .ls → clsFirst (i.beh 0) = .honestAny → o.res = .st (i.table i.cid))) ∧
     ((∃ x ∈ (served i o).zipIdx, failure i x.2 x.1.1 x.1.2 = true) → isSuccess o.res = false) ∧
     (i.op = .pin → i.table i.cid = wanted i.depth →
        (clsFirst (i.beh 0) = .honest ∨ clsFirst (i.beh 0) = .honestAny) →
        o.res = .ok ∧ (∀ r ∈ o.trace, isLsOf i.cid r = true) ∧ o.trace.length ≤ 1 ∧ o.swarm = [] ∧
          o.final i.cid = i.table i.cid) ∧
     (i.op = .unpin → i.unpinDisable = false → held (i.table i.cid) = false →
        (clsAt false (i.beh 0) = .honest ∨ clsAt false (i.beh 0) = .notPinned) → o.res = .ok) ∧
     (i.op = .pin → (∃ x ∈ served i o, isPinning x.1 = true ∧ (x.2 = .stall ∨ x.2 = .noProgress)) →
        o.res = .err) ∧
     (o.res ≠ .hang ∧ o.res ≠ .panic) ∧
     (i.op = .pin → o.res ≠ .errctx ∧ o.res ≠ .hang) ∧
     (∀ f t u, Req.upd f t u ∈ o.trace → i.op = .pin ∧ i.src = some f ∧ t = i.cid ∧ i.table f = .r) ∧
     (∀ f t u, Req.upd f t u ∈ o.trace → u = false) ∧
     (∀ s, i.src = some s → i.op = .pin →
        (s ≠ i.cid → o.final s = i.table s) ∧ (i.table s = .r → o.final s = .r))) := by
  simp only [holds, clauses, List.all_cons, List.all_nil, Bool.and_true, Bool.and_eq_true,
    cPinSound_iff, cUnpinSound_iff, cLsTruthful_iff, cErrorsReported_iff, cNoRequestWhenAlready_iff,
    cUnpinAbsentOk_iff, cStallTimesOut_iff, cReturns_iff, cPinGivesUp_iff, cUpdateOnlyIfRecursive_iff,
    cUpdateUnpinFalse_iff, cSourceKept_iff]

/-! ### the hypotheses are met by non-trivial inputs -/

/-- a recursive pin with an update source that the daemon holds recursively: three requests, pin/update -/
def exUpdate : Input :=
  { op := .pin, n := 3, cid := 0, depth := -1, modeRec := true, src := some 1, norig := 12,
    unpinDisable := false, table := fun c => if c = 1 then .r else if c = 2 then .d else .u,
    script := [Beh.ok, Beh.ok, Beh.ok] }

example :
    wf exUpdate = true ∧
      (run exUpdate).trace = [.ls 0 true, .ls 1 true, .upd 1 0 false] ∧ (run exUpdate).res = .ok ∧
      (run exUpdate).final 0 = .r ∧ (run exUpdate).final 1 = .r ∧ (run exUpdate).swarmMax = 10 := by decide

/-- the former finding K28: source recursively pinned, pin/update never answered: now an error -/
def exUpdateStall : Input :=
  { op := .pin, n := 2, cid := 0, depth := -1, modeRec := true, src := some 1, norig := 0,
    unpinDisable := false, table := fun c => if c = 1 then .r else .u,
    script := [Beh.ok, Beh.ok, ⟨200, .none, .empty, .stallHeaders⟩] }

example :
    wf exUpdateStall = true ∧ (run exUpdateStall).trace = [.ls 0 true, .ls 1 true, .upd 1 0 false] ∧
      (run exUpdateStall).res = .err ∧ (run exUpdateStall).final 0 = .u := by decide

/-- a direct pin whose pin/add stream stalls after some progress: error, nothing pinned -/
def exStall : Input :=
  { op := .pin, n := 2, cid := 0, depth := 0, modeRec := false, src := none, norig := 0,
    unpinDisable := false, table := fun _ => .i, script := [⟨500, .json, .errObj .other, .full⟩, ⟨200, .json, .nonJson, .stallBody⟩] }

example :
    wf exStall = true ∧
      (run exStall).trace = [.ls 0 false, .add 0 false none true] ∧ (run exStall).res = .err ∧
      (run exStall).final 0 = .i := by decide

/-- pin/add answered by a 200 stream that carries an error: reported as an error, nothing pinned -/
def exStreamErr : Input :=
  { op := .pin, n := 1, cid := 0, depth := -1, modeRec := true, src := none, norig := 0,
    unpinDisable := false, table := fun _ => .u, script := [Beh.ok, ⟨200, .json, .serr, .full⟩] }

example :
    wf exStreamErr = true ∧
      (run exStreamErr).trace = [.ls 0 true, .add 0 true none true] ∧ (run exStreamErr).res = .err ∧
      (run exStreamErr).final 0 = .u := by decide

/-- unpinning an only indirectly pinned CID: the daemon says "not pinned", the connector says ok -/
def exUnpinAbsent : Input :=
  { op := .unpin, n := 1, cid := 0, depth := -1, modeRec := true, src := none, norig := 0,
    unpinDisable := false, table := fun _ => .i, script := [Beh.ok] }

example : wf exUnpinAbsent = true ∧ (run exUnpinAbsent).trace = [.rm 0] ∧ (run exUnpinAbsent).res = .ok := by
  decide

/-! ### which configured time ends which request (governance table regenerated from ipfshttp.go) -/

/-- today's source: every daemon request of Pin / Unpin / PinLsCid runs under a configured deadline or the
progress watchdog, pin/add also against a stream that stays alive without progress; so does every request
of the six single-request methods -/
theorem gen_steps_governed : allGoverned Gen.ctxSites = true ∧ Aux.allGoverned Gen.ctxSites = true := by decide

/-- which configuration field it is: look-ups `ipfs_request_timeout`, pin/update `pin_timeout`, pin/add the
watchdog over `pin_timeout` (and no plain deadline, which would cut a slow but progressing pin), pin/rm
`unpin_timeout`, repo/gc `repogc_timeout` -/
theorem gen_governor_table :
    chainGoverned (· == .timeout "IPFSRequestTimeout") Gen.ctxSites lsChain = true ∧
    chainGoverned (· == .timeout "PinTimeout") Gen.ctxSites Step.pinUpd.chain = true ∧
    chainGoverned isWatchdog Gen.ctxSites Step.pinAdd.chain = true ∧
    chainGoverned isDeadline Gen.ctxSites Step.pinAdd.chain = false ∧
    chainGoverned (· == .timeout "UnpinTimeout") Gen.ctxSites Step.unpinRm.chain = true ∧
    chainGoverned (· == .timeout "RepoGCTimeout") Gen.ctxSites Aux.Op.repoGC.chain = true := by decide

theorem stepGoverned_of_all (sites : List Dec.CtxSite) (h : allGoverned sites = true) (s : Step) (c : Cls) :
    stepGoverned sites s c = true := by
  simp only [allGoverned, Bool.and_eq_true, List.all_eq_true] at h
  have hs : s ∈ Step.all := by cases s <;> simp [Step.all]
  unfold stepGoverned
  by_cases hc : (c == .noProgress && s == .pinAdd) = true
  · have hs' : s = .pinAdd := by
      simp only [Bool.and_eq_true, beq_iff_eq] at hc; exact hc.2
    rw [if_pos hc, hs']; exact h.2
  · rw [if_neg hc]; exact h.1 s hs

theorem firstUngoverned_none (sites : List Dec.CtxSite) (h : allGoverned sites = true) (i : Input) (tr : List Req) :
    firstUngoverned sites i tr = none := by
  unfold firstUngoverned
  rw [List.find?_eq_none]
  intro k _
  cases hr : tr[k]? with
  | none => simp
  | some r =>
    simp only
    cases hs : stepOf i.op r k with
    | none => simp
    | some s => simp [stepGoverned_of_all sites h]

/-- with every step governed the interpreted model is the transcribed one: for all inputs -/
theorem runCtx_eq_run (sites : List Dec.CtxSite) (h : allGoverned sites = true) (i : Input) :
    runCtx sites i = run i := by
  unfold runCtx
  simp only [firstUngoverned_none sites h]

theorem allowedCtx_eq (sites : List Dec.CtxSite) (h : allGoverned sites = true) (i : Input) (o : Output) :
    allowedCtx sites i o = allowed i o := by
  unfold allowedCtx allowed
  rw [runCtx_eq_run sites h]

/-- for ANY governance table: the call is left to the caller's context exactly when some request that the
daemon does not answer is not governed -/
theorem runCtx_errctx_iff (sites : List Dec.CtxSite) (i : Input) :
    (runCtx sites i).res = .errctx ↔ (firstUngoverned sites i (run i).trace).isSome = true := by
  cases h : firstUngoverned sites i (run i).trace with
  | none => simp [runCtx, h, run_no_errctx i]
  | some k => simp [runCtx, h]

/-- "gives up with an error when a pin makes no progress for the configured time", for every request of the
conversation: with a table in which every step is governed, `Pin` (and Unpin, PinLsCid) never ends only
because the caller's context did -/
theorem pin_gives_up (sites : List Dec.CtxSite) (h : allGoverned sites = true) (i : Input) :
    (runCtx sites i).res ≠ .errctx ∧ (runCtx sites i).res ≠ .hang := by
  rw [runCtx_eq_run sites h]
  exact ⟨run_no_errctx i, (run_returns i).1⟩

/-- what the driver compares the implementation with (`allowedCtx Gen.ctxSites`) satisfies every clause -/
theorem allowedCtx_holds (i : Input) (o : Output) (hw : wf i = true) (ha : allowedCtx Gen.ctxSites i o = true) :
    holds i o = true := by
  rw [allowedCtx_eq _ gen_steps_governed.1] at ha
  exact allowed_holds i o hw ha

/-- the table of a source in which `PinLsCid` no longer puts `IPFSRequestTimeout` on its context -/
def sitesNoLookupTimeout : List Dec.CtxSite :=
  Gen.ctxSites.map (fun s => if s.fn == "PinLsCid" then { s with bounds := [] } else s)

/-- the table of a source in which `pinUpdate` has no deadline (the state before the repair of K28) -/
def sitesNoUpdateTimeout : List Dec.CtxSite :=
  Gen.ctxSites.map (fun s => if s.fn == "pinUpdate" then { s with bounds := [] } else s)

/-- the table of a source in which `Pin` replaces the watchdog by a plain `context.WithTimeout(ctx, PinTimeout)` -/
def sitesPlainPinTimeout : List Dec.CtxSite :=
  Gen.ctxSites.map (fun s => if s.fn == "Pin" && s.bounds != [] then { s with bounds := [.timeout "PinTimeout"] } else s)

/-- a pin whose look-up is never answered -/
def exLookupStall : Input :=
  { op := .pin, n := 1, cid := 0, depth := -1, modeRec := true, src := none, norig := 0,
    unpinDisable := false, table := fun _ => .u, script := [⟨200, .none, .empty, .stallHeaders⟩] }

/-- a recursive pin whose pin/add stream stays alive with the progress number stuck -/
def exNoProgress : Input :=
  { op := .pin, n := 1, cid := 0, depth := -1, modeRec := true, src := none, norig := 0,
    unpinDisable := false, table := fun _ => .u, script := [Beh.ok, ⟨200, .json, .stuck, .full⟩] }

/-- refutations: each of the three edits leaves a pin to the caller's context, and the clause fails -/
theorem ungoverned_lookup_breaks_pin :
    wf exLookupStall = true ∧ (runCtx sitesNoLookupTimeout exLookupStall).res = .errctx ∧
      cPinGivesUp exLookupStall ⟨(runCtx sitesNoLookupTimeout exLookupStall).res, [], [], fun _ => .u⟩ = false ∧
      (runCtx Gen.ctxSites exLookupStall).res = .err := by decide

theorem ungoverned_update_breaks_pin :
    wf exUpdateStall = true ∧ (runCtx sitesNoUpdateTimeout exUpdateStall).res = .errctx ∧
      (runCtx sitesNoUpdateTimeout exUpdateStall).trace = [.ls 0 true, .ls 1 true, .upd 1 0 false] ∧
      (runCtx Gen.ctxSites exUpdateStall).res = .err := by decide

theorem plain_deadline_is_no_watchdog :
    allGoverned sitesPlainPinTimeout = false ∧
      wf exNoProgress = true ∧ (runCtx sitesPlainPinTimeout exNoProgress).res = .errctx ∧
      (runCtx sitesPlainPinTimeout exStall).res = .err ∧
      (runCtx Gen.ctxSites exNoProgress).res = .err := by decide

/-- the six single-request methods: governed ⇒ the interpreted model is the transcribed one, and a stalled
request never ends with the caller's context -/
theorem aux_runCtx_eq (sites : List Dec.CtxSite) (h : Aux.allGoverned sites = true) (i : Aux.In) :
    Aux.runCtx sites i = Aux.run i := by
  have hg : chainGoverned isDeadline sites i.op.chain = true := by
    simp only [Aux.allGoverned, List.all_eq_true] at h
    exact h i.op (by cases i.op <;> simp [Aux.Op.all])
  simp [Aux.runCtx, hg]

theorem aux_gives_up (i : Aux.In) : Aux.runCtx Gen.ctxSites i ≠ .errctx ∧ Aux.runCtx Gen.ctxSites i ≠ .hang := by
  rw [aux_runCtx_eq _ gen_steps_governed.2]
  exact ⟨(aux_returns i).2.2, (aux_returns i).1⟩

/-- a stalled request of a method without a deadline would be left to the caller: RepoGC without `RepoGCTimeout` -/
theorem ungoverned_aux_waits :
    Aux.runCtx (Gen.ctxSites.map (fun s => if s.fn == "RepoGC" then { s with bounds := [] } else s))
      ⟨.repoGC, ⟨200, .none, .empty, .stallHeaders⟩, 0⟩ = .errctx := by decide

/-! ### The anchored functions still read as the model was transcribed (regenerated from /repo on every run) -/

/-! ### round 8b: how every daemon request is built (regenerated `Gen.reqSites`, `Gen.pinArgsTable`, …) and the tables of api/types.go -/
section Requests
open ReqM

/-- `Unpin` sends `pin/rm?arg=<the cid>` and nothing that makes go-ipfs unpin non-recursively -/
theorem gen_req_rm (c : Nat) (d : Int) : reqOf Gen.reqSites genT "Unpin" ⟨c, 0, d⟩ = some (.rm c) := req_rm c d

/-- `pinUpdate` sends `pin/update?arg=<source>&arg=<cid>` in this order WITH an explicit `unpin=false`
(read with go-ipfs' default `unpin=true` for a request that leaves the option out) -/
theorem gen_req_upd (f c : Nat) (d : Int) : reqOf Gen.reqSites genT "pinUpdate" ⟨c, f, d⟩ = some (.upd f c false) := req_upd f c d

/-- `PinLsCid` asks for the cid with `type=direct` exactly for depth 0 and `type=recursive` for every other depth
(through the regenerated arms of `ToPinMode` and `PinMode.String`) -/
theorem gen_req_ls (c : Nat) (d : Int) : reqOf Gen.reqSites genT "PinLsCid" ⟨c, 0, d⟩ = some (.ls c (typeRec d)) := req_ls c d

/-- `pinProgress` sends `pin/add?arg=<cid>&<pinArgs(depth)>&progress=true`; through the regenerated arms of `pinArgs`:
`recursive=false` exactly for depth 0, `max-depth` exactly for a positive depth -/
theorem gen_req_add (c : Nat) (d : Int) : reqOf Gen.reqSites genT "pinProgress" ⟨c, 0, d⟩ = some (addReq c d) := req_add c d

theorem gen_pinType (d : Int) :
    pinTypeT Gen.toPinModeTable Gen.pinModeStringTable d = some (if d = 0 then "direct" else "recursive") := pinType_gen d

theorem gen_pinArgs (d : Int) :
    pinArgsPairs Gen.pinArgsTable d =
      some (if d < 0 then [("recursive", WVal.txt "true")] else if d = 0 then [("recursive", WVal.txt "false")]
            else [("recursive", WVal.txt "true"), ("max-depth", WVal.num d)]) := pinArgs_gen d

/-- `IsPinned(maxDepth)` for EVERY status × depth: true exactly for status direct at depth 0 and status recursive at any other depth -/
theorem gen_isPinned (st : St) (d : Int) :
    isPinnedT Gen.isPinnedTable st d = some (decide ((if d = 0 then St.direct else St.recursive) = st)) := isPinned_gen st d

/-- in the model's terms: the short-cut test holds exactly when the daemon's state is the one `asked` names -/
theorem gen_isPinned_asked (s : PState) (d : Int) :
    isPinnedT Gen.isPinnedTable (St.ofP s) d = some (decide (s = asked d)) := by
  rw [gen_isPinned]
  by_cases h : d = 0 <;> cases s <;> simp [h, asked, St.ofP]

/-- the `Type` texts of go-ipfs are read as the state they name, `indirect through <anything>` as indirect -/
theorem gen_fromString_types (s : PState) (through : String) (h : s ≠ .u) :
    fromStringT Gen.fromStringTable (typeText s through) = some (St.ofP s) := by
  cases s with
  | u => exact absurd rfl h
  | d => show fromStringT Gen.fromStringTable "direct" = some St.direct; decide
  | r => show fromStringT Gen.fromStringTable "recursive" = some St.recursive; decide
  | i => exact fromString_indirect through

/-- anything else is `Bug`, which no `IsPinned` accepts -/
theorem gen_fromString_other_unpinned (d : Int) :
    fromStringT Gen.fromStringTable "" = some .bug ∧ fromStringT Gen.fromStringTable "Direct" = some .bug ∧
    isPinnedT Gen.isPinnedTable .bug d = some false := by
  refine ⟨rfl, rfl, ?_⟩
  rw [gen_isPinned]; by_cases h : d = 0 <;> simp [h]

/-- the direct `types` cases (round 8 final): whatever today's regenerated tables answer for ANY text, status and depth, the short-cut
test accepts exactly the requested mode (of the given status and of the parsed one) and the `type=` filter names that mode and survives
`PinModeFromString` -/
theorem gen_types_sound (text : String) (st : St) (d : Int) (o : TypesOut)
    (h : typesT Gen.fromStringTable Gen.isPinnedTable Gen.toPinModeTable Gen.pinModeStringTable text st d = some o) :
    o.pinnedStatus = decide (wantSt d = st) ∧ o.pinnedParsed = decide (wantSt d = o.parsed) ∧
    o.pinType = (if d = 0 then "direct" else "recursive") ∧ o.roundTrip = o.pinType := by
  unfold typesT at h
  simp only [gen_isPinned, gen_pinType] at h
  cases hf : fromStringT Gen.fromStringTable text with
  | none => simp [hf] at h
  | some p =>
    simp only [hf] at h
    cases h
    exact ⟨rfl, rfl, rfl, rfl⟩

example : typesT Gen.fromStringTable Gen.isPinnedTable Gen.toPinModeTable Gen.pinModeStringTable "direct" .recursive 0 =
    some ⟨.direct, true, false, "direct", "direct"⟩ := by decide

/-- every request of every conversation of the transcribed model is the one today's source builds -/
theorem rebuildTrace_run (i : Input) : rebuildTrace Gen.reqSites genT i (run i).trace = (run i).trace :=
  ReqM.rebuildTrace_run i

/-- with today's tables the doubly interpreted model (time-outs and request construction) is the transcribed one -/
theorem runReq_eq_run (i : Input) : runReq Gen.ctxSites Gen.reqSites genT i = run i := by
  unfold runReq rebuildOut
  rw [runCtx_eq_run _ gen_steps_governed.1, ReqM.rebuildTrace_run, rebuildTable_gen]

theorem allowedReq_eq (i : Input) (o : Output) : allowedReq Gen.ctxSites Gen.reqSites genT i o = allowed i o := by
  unfold allowedReq allowed
  rw [runReq_eq_run]

/-- what the driver compares the implementation with satisfies all clauses -/
theorem allowedReq_holds (i : Input) (o : Output) (hw : wf i = true)
    (ha : allowedReq Gen.ctxSites Gen.reqSites genT i o = true) : holds i o = true := by
  rw [allowedReq_eq] at ha
  exact allowed_holds i o hw ha

/-- a pin of cid 0 (recursive) as an update of cid 1, which the daemon holds recursively -/
def exUpdateReq : Input :=
  { op := .pin, n := 2, cid := 0, depth := -1, modeRec := true, src := some 1, norig := 0, unpinDisable := false,
    table := fun x => if x = 1 then .r else .u, script := [] }

example : wf exUpdateReq = true := by decide

/-- the seeded change C16g as a table (pin/update built without its `unpin` parameter): go-ipfs reads `unpin=true` … -/
theorem omitted_unpin_reads_true (f c : Nat) (d : Int) :
    reqOf sitesNoUnpin genT "pinUpdate" ⟨c, f, d⟩ = some (.upd f c true) := noUnpin_reads_true f c d

/-- … and the interpreted model then predicts the loss of the source's pin (clause `source_kept` fails on its output),
while with today's table the source stays pinned -/
theorem omitted_unpin_loses_source :
    (runReq Gen.ctxSites sitesNoUnpin genT exUpdateReq).final 1 = .u ∧
    (runReq Gen.ctxSites sitesNoUnpin genT exUpdateReq).trace.getLast? = some (.upd 1 0 true) ∧
    (runReq Gen.ctxSites Gen.reqSites genT exUpdateReq).final 1 = .r := by decide

end Requests


theorem gen_source_pinArgs : Gen.pinArgs = Expected.pinArgs := rfl
theorem gen_source_pin : Gen.pin = Expected.pin := rfl
theorem gen_source_pinProgress : Gen.pinProgress = Expected.pinProgress := rfl
theorem gen_source_pinUpdate : Gen.pinUpdate = Expected.pinUpdate := rfl
theorem gen_source_unpin : Gen.unpin = Expected.unpin := rfl
theorem gen_source_pinLs : Gen.pinLs = Expected.pinLs := rfl
theorem gen_source_pinLsCid : Gen.pinLsCid = Expected.pinLsCid := rfl
theorem gen_source_doPostCtx : Gen.doPostCtx = Expected.doPostCtx := rfl
theorem gen_source_postCtx : Gen.postCtx = Expected.postCtx := rfl
theorem gen_source_checkResponse : Gen.checkResponse = Expected.checkResponse := rfl
theorem gen_source_statusFromString : Gen.statusFromString = Expected.statusFromString := rfl
theorem gen_source_isPinned : Gen.isPinned = Expected.isPinned := rfl
theorem gen_source_toPinMode : Gen.toPinMode = Expected.toPinMode := rfl



/-! ## Round 8c — the statement order of `Pin` / `Unpin`, interpreted (`Gen.pinSeq`, `Gen.unpinSeq`) -/
section Round8c
open CV.C16 CV.C16.Seq CV.C16.Dec

/-- today's `Pin` body, read statement by statement from the source, IS the transcribed `pin` (all inputs) -/
theorem gen_pinSeq_is_pin (i : Input) : (interp i Gen.pinSeq (init i)).map (·.1) = some (pin i) := interp_pin i

/-- today's `Unpin` body likewise -/
theorem gen_unpinSeq_is_unpin (i : Input) : (interp i Gen.unpinSeq (init i)).map (·.1) = some (unpin i) := interp_unpin i

/-- what the driver compares with (the interpreted sequences) is the model the clause theorems are about -/
theorem allowedSeq_eq (i : Input) (o : Output) : allowedSeq Gen.pinSeq Gen.unpinSeq i o = allowed i o :=
  allowedSeq_allowed i o

/-- … and so satisfies every clause, for all inputs of the domain -/
theorem allowedSeq_holds (i : Input) (o : Output) (hw : wf i = true)
    (ha : allowedSeq Gen.pinSeq Gen.unpinSeq i o = true) : holds i o = true :=
  allowed_holds i o hw (by rw [← allowedSeq_eq]; exact ha)

/-- direction 4: the deferred `updateInformerMetric` is armed exactly when the call went on to a request that
changes the daemon's pin table (pin/add, pin/update, pin/rm) — never after a failed probe, the short-cut or a
disabled unpin.  (Model statement over the regenerated sequence; the metric itself is not observed.) -/
theorem gen_metric_iff_mutation (i : Input) (m : MOut) (b : Bool)
    (h : runSeq Gen.pinSeq Gen.unpinSeq i = some (m, b)) : b = m.trace.any Req.mutates := by
  unfold runSeq at h
  cases hop : i.op with
  | ls => rw [hop] at h; simp [lsOp] at h; obtain ⟨hm, hb⟩ := h; subst hm hb; split <;> simp [Req.mutates]
  | unpin =>
    rw [hop] at h
    by_cases hd : i.unpinDisable = true
    · simp [Gen.unpinSeq, interp, init, hd, done] at h; obtain ⟨hm, hb⟩ := h; subst hm hb; simp
    · simp only [Gen.unpinSeq, interp, init, hd, rmPost] at h
      revert h
      cases clsAt false (i.beh 0) <;> simp [done, npTexts] <;>
        (try (cases rmHonest i.table i.cid <;> simp [done, npTexts])) <;>
        (intro hm hb; subst hm hb; simp [Req.mutates])
  | pin =>
    rw [hop] at h
    revert h
    cases h0 : lsCid i.table i.cid (typeRec i.depth) (clsFirst (i.beh 0)) with
    | err => simp [Gen.pinSeq, interp, init, lookupArg, h0, done]; intro hm hb; subst hm hb; simp [Req.mutates]
    | status s =>
      by_cases hs : s = asked i.depth
      · simp [Gen.pinSeq, interp, init, lookupArg, depthOf, isPinned, h0, hs, done]
        intro hm hb; subst hm hb; simp [Req.mutates]
      · cases hsrc : i.src with
        | none =>
          rcases addCall_ok_or_err i.table i.cid i.depth (i.beh 1) with ha | ha <;>
            simp [Gen.pinSeq, interp, init, lookupArg, depthOf, cidOf, isPinned, h0, hs, hsrc, done, ha] <;>
            (intro hm hb; subst hm hb; simp [Req.mutates, addReq])
        | some f =>
          cases h1 : lsCid i.table f i.modeRec (clsFirst (i.beh 1)) with
          | err =>
            rcases addCall_ok_or_err i.table i.cid i.depth (i.beh 2) with ha | ha <;>
              simp [Gen.pinSeq, interp, init, lookupArg, depthOf, cidOf, isPinned, h0, hs, hsrc, h1, done, ha] <;>
              (intro hm hb; subst hm hb; simp [Req.mutates, addReq])
          | status s1 =>
            by_cases h1r : s1 = .r
            · simp [Gen.pinSeq, interp, init, lookupArg, depthOf, cidOf, isPinned, asked_neg1, h0, hs, hsrc, h1, h1r, done]
              intro hm hb; subst hm hb; simp [Req.mutates]
            · rcases addCall_ok_or_err i.table i.cid i.depth (i.beh 2) with ha | ha <;>
                simp [Gen.pinSeq, interp, init, lookupArg, depthOf, cidOf, isPinned, asked_neg1, h0, hs, hsrc, h1, h1r, done, ha] <;>
                (intro hm hb; subst hm hb; simp [Req.mutates, addReq])

/-- edited bodies a realistic wrong change would produce -/
def pinSeqProbeErrNil : List SeqStmt := Gen.pinSeq.set 1 (.ifErrReturn false)      -- `if err != nil { return nil }`
def pinSeqNoErrCheck : List SeqStmt := Gen.pinSeq.eraseIdx 1                        -- the test of the probe's error dropped
def pinSeqShortcutOtherDepth : List SeqStmt := Gen.pinSeq.set 2 (.ifPinnedReturnNil "-1")  -- short-cut tests IsPinned(-1)
def unpinSeqWrongText : List SeqStmt := Gen.unpinSeq.set 3 (.ifErrTolerate ["\"pin is not pinned\""])

/-- a pin whose probe fails on the wire (non-JSON 500), nothing pinned -/
def exProbeFails : Input :=
  { op := .pin, n := 1, cid := 0, depth := -1, modeRec := true, src := none, norig := 0,
    unpinDisable := false, table := fun _ => .u, script := [Beh.of "nj"] }

/-- a direct pin (depth 0) of a cid the daemon holds recursively, the look-up answered without the type filter -/
def exHeldDirect : Input :=
  { op := .pin, n := 1, cid := 0, depth := 0, modeRec := false, src := none, norig := 0,
    unpinDisable := false, table := fun _ => .r, script := [Beh.of "oka"] }

/-- an unpin of a cid the daemon does not hold, honestly refused with go-ipfs' "not pinned" text -/
def exUnpinNp8c : Input :=
  { op := .unpin, n := 1, cid := 0, depth := -1, modeRec := true, src := none, norig := 0,
    unpinDisable := false, table := fun _ => .u, script := [Beh.of "np"] }

example : wf exProbeFails = true ∧ wf exUnpinNp8c = true := by decide

/-- 'treat a probe error as pinned': the interpreted model then reports success with nothing pinned
(clause pin_success_sound false); today's sequence reports the error -/
theorem probe_error_as_pinned_breaks :
    (interp exProbeFails pinSeqProbeErrNil (init exProbeFails)).map (·.1.res) = some .ok ∧
    cPinSound exProbeFails ⟨.ok, [], [], fun _ => .u⟩ = false ∧
    (interp exProbeFails Gen.pinSeq (init exProbeFails)).map (·.1.res) = some .err := by decide

/-- 'skip the probe result check': the failed probe is then followed by a pin/add -/
theorem dropped_error_check_changes_trace :
    (interp exProbeFails pinSeqNoErrCheck (init exProbeFails)).map (·.1.trace) =
        some [.ls 0 true, .add 0 true none true] ∧
    (interp exProbeFails Gen.pinSeq (init exProbeFails)).map (·.1.trace) = some [.ls 0 true] := by decide

/-- the short-cut tested against another depth than the pin's: a cid held recursively passes for a direct pin -/
theorem shortcut_other_depth_breaks :
    (interp exHeldDirect pinSeqShortcutOtherDepth (init exHeldDirect)).map (·.1.res) = some .ok ∧
    cPinSound exHeldDirect ⟨.ok, [], [], fun _ => .r⟩ = false ∧
    (interp exHeldDirect Gen.pinSeq (init exHeldDirect)).map (·.1.trace) = some [.ls 0 false, .add 0 false none true] := by decide

/-- 'not pinned' tolerated for the WRONG text: the honest refusal becomes an error (clause unpin_absent_ok false) -/
theorem wrong_tolerated_text_breaks :
    (interp exUnpinNp8c unpinSeqWrongText (init exUnpinNp8c)).map (·.1.res) = some .err ∧
    cUnpinAbsentOk exUnpinNp8c ⟨.err, [], [], fun _ => .u⟩ = false ∧
    (interp exUnpinNp8c Gen.unpinSeq (init exUnpinNp8c)).map (·.1.res) = some .ok := by decide

/-- a statement the translator does not understand ends the interpretation: no output, nothing allowed -/
theorem unknown_statement_fails_closed (i : Input) (t : String) (st : St) (rest : List SeqStmt) (hk : st.skip = 0) :
    interp i (.unknown t :: rest) st = none := by simp [interp, hk]

end Round8c

end CV.C16
