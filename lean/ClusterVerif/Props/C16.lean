import ClusterVerif.Spec.C16
namespace CV.C16

/-- unpinning is refused without any request when `UnpinDisable` is set -/
theorem unpin_disabled_no_request (i : Input) (h : i.unpinDisable = true) (hop : i.op = .unpin) :
    (run i).trace = [] ∧ (run i).res = .err := by
  simp [run, hop, unpin, h]

end CV.C16
