import ClusterVerif.Lemmas.C08
import ClusterVerif.Gen.C08

/-!
# C08 — records survive every encoding boundary; decoders never crash

Property theorems only (helper lemmas are in `Lemmas/C08.lean`).

L1, over the schema table regenerated from the repository (`Gen/C08.lean`), by `decide`:
* `tags_unique`, `no_dropped_fields`, `structs_resolved`, `codec_paths_agree`, `omitempty_safe`
* `all_fields_decodable_partial` — every field of every record is decodable by encoding/json and by
  ugorji msgpack, except `PinOptions.Origins` (known finding K01) and the opaque tracing field
  `SpanContext.Tracestate`; `all_fields_decodable_full` is the statement without exceptions and
  `all_fields_decodable_full_fails` its refutation, with `origins_is_the_witness`.

L2, for every value (no bound):
* `proto_roundtrip` — ProtoUnmarshal ∘ ProtoMarshal = the explicit projection `lossyProto`;
  `proto_property_partial` — which the Spec's comparison accepts when the pin's mode agrees with its
  depth; `proto_property_full` (no such hypotheses), `proto_property_full_fails` (finding K13) and
  `proto_property_full_fails_undef_reference` (finding K38).
* `query_roundtrip`, `query_property`.
* `status_string_roundtrip` (every filter of known statuses; in full since the repair of K14), `status_named_roundtrip`, `mode_string_roundtrip`, `type_string_roundtrip`.
* `opts_equals_refl/symm/trans`, `pin_equals_refl/symm/trans` — Equals is an equivalence on values held
  behind distinct pointers; `opts_equals_sound`, `pin_equals_sound` — it never overlooks a difference; `equals_is_equivalence_full` (also for one pointer) and its refutation.
* `tagged_field_identity` — the generic prediction for json/msgpack is the identity on a field whose
  static type is decodable, away from rejected zero values and the two string-formed leaf types.
-/
namespace CV.C08.Props
open CV.C08

/-! ## L1: the generated schema -/

/-- json and codec names are unique per struct, after promotion of embedded structs -/
theorem tags_unique : tagsUnique Gen.table = true := by decide

/-- no exported field is dropped with a "-" tag -/
theorem no_dropped_fields : noDroppedFields Gen.table = true := by decide

/-- every struct type reachable from a wire record has a table entry -/
theorem structs_resolved : allResolved Gen.table = true := by decide

/-- for every leaf type the encoder and the decoder of each library take the same path
    (Marshaler ↔ Unmarshaler, Text ↔ Text, Binary ↔ Binary, by kind ↔ by kind) -/
theorem codec_paths_agree : allPathsAgree Gen.table = true := by decide

/-- omitempty only sits on fields whose "empty" is the zero value up to nil-vs-empty -/
theorem omitempty_safe : allOmitSafe Gen.table = true := by decide

/-- the fields that are NOT decodable -/
def decodeExceptions : List (String × String) := [("PinOptions", "Origins"), ("SpanContext", "Tracestate")]

/-- the full statement: every field of every record is decodable in both tag-driven formats -/
def all_fields_decodable_full : Prop := allDecodableExcept Gen.table [] = true

theorem all_fields_decodable_partial : allDecodableExcept Gen.table decodeExceptions = true := by decide

theorem all_fields_decodable_full_fails : ¬ all_fields_decodable_full := by
  unfold all_fields_decodable_full; decide

/-- the witness: `PinOptions.Origins` (a slice of an interface type) is decodable in neither format -/
theorem origins_is_the_witness :
    ((lookupRec Gen.table "PinOptions").bind fun r => (r.fields.find? fun f => f.go == "Origins").map
      fun f => (decodable true f.ty, decodable false f.ty)) = some (false, false) := by decide

example : (lookupRec Gen.table "Pin").isSome = true ∧ Gen.table.length > 20 := by decide

/-! ## L2: protobuf -/

/-- `ProtoUnmarshal(ProtoMarshal(p))` is exactly `lossyProto p`, for every pin within the preconditions
    (factors and depth in int32, a PinType constant, valid peer IDs, expiry within int64 seconds) -/
theorem proto_roundtrip (p : Pin) (h : wfProto p = true) : protoRoundtrip p = .ok (lossyProto p) :=
  CV.C08.proto_roundtrip p h

/-- the full statement of "a stored pin decodes to an equal pin" -/
def proto_property_full : Prop :=
  ∀ p : Pin, wfProto p = true → ∃ q, protoRoundtrip p = .ok q ∧ pinSame .proto p q = true

/-- … proved for pins whose mode is the one their depth implies (what `PinWithOpts` establishes) and whose
    reference is not a non-nil pointer to cid.Undef -/
theorem proto_property_partial (p : Pin) (h : wfProto p = true) (hm : p.opts.mode = toPinMode p.maxDepth)
    (hr : p.reference ≠ some undefCid) :
    ∃ q, protoRoundtrip p = .ok q ∧ pinSame .proto p q = true := by
  refine ⟨lossyProto p, proto_roundtrip p h, ?_⟩
  simp [pinSame, optsSame, lossyProto, expiryKey_trunc, hm, hr]

/-- a cluster-DAG pin as the sharding adder builds it: mode recursive, depth 0 -/
def clusterDagPin : Pin :=
  { opts := { rmin := -1, rmax := -1, name := "~x", mode := 0, shardSize := 0, userAllocs := [], expireAt := Time.zero,
              metadata := [], pinUpdate := none, origins := [] },
    cid := some "c0", type := 8, allocs := [], maxDepth := 0, reference := some "c1" }

/-- … and refuted without that hypothesis (finding K13): the stored form gives the pin the other mode -/
theorem proto_property_full_fails : ¬ proto_property_full := by
  intro h
  obtain ⟨q, hq, hs⟩ := h clusterDagPin (by decide)
  have : protoRoundtrip clusterDagPin = .ok (lossyProto clusterDagPin) := proto_roundtrip _ (by decide)
  rw [this] at hq
  injection hq with hq
  subst hq
  revert hs
  decide

/-- the first shard pin of a sharded add as shard.go built it before 9d8b946: a reference pointing to cid.Undef -/
def firstShardPin : Pin :=
  { opts := { rmin := 1, rmax := 1, name := "~x", mode := 0, shardSize := 0, userAllocs := [], expireAt := Time.zero,
              metadata := [], pinUpdate := none, origins := [] },
    cid := some "c0", type := 16, allocs := ["p1"], maxDepth := 1, reference := some undefCid }

/-- … and also for a pin whose mode agrees with its depth but whose reference points to cid.Undef (finding K38):
    the stored form reads it back as a nil reference -/
theorem proto_property_full_fails_undef_reference :
    wfProto firstShardPin = true ∧ firstShardPin.opts.mode = toPinMode firstShardPin.maxDepth ∧
    protoRoundtrip firstShardPin = .ok { firstShardPin with reference := none } ∧
    pinSame .proto firstShardPin { firstShardPin with reference := none } = false := by decide

example : wfProto clusterDagPin = true ∧ protoRoundtrip clusterDagPin = .ok { clusterDagPin with opts := { clusterDagPin.opts with mode := 1 } } := by
  decide

/-! ## L2: query string -/

/-- `FromQuery(ToQuery(po))` is exactly `lossyQuery po` when every origin has a /p2p/ component and the user
    allocations are peer IDs (or the list is empty, or holds only the empty peer ID: the value is then "") -/
theorem query_roundtrip (po : PinOptions) (h : po.origins.all (·.p2p) = true)
    (hu : (uaValueEmpty po.userAllocs || po.userAllocs.all validEntry) = true) : queryRoundtrip po = .ok (lossyQuery po) := by
  unfold queryRoundtrip fromQuery toQuery lossyQuery
  have hf : List.filter (fun kv : String × String => kv.1 != emptyStr) (List.filter (fun kv => kv.1 != emptyStr) po.metadata)
      = List.filter (fun kv => kv.1 != emptyStr) po.metadata := by simp [List.filter_filter]
  have hmode : ¬(¬modeString po.mode = "" ∧ ¬modeString po.mode = "recursive" ∧ ¬modeString po.mode = "direct") := by
    unfold modeString; split <;> simp
  have hsz : ¬ ((po.shardSize : Int) < 0) := by omega
  have hu' : (!uaValueEmpty po.userAllocs && !po.userAllocs.all validEntry) = false := by
    cases h1 : uaValueEmpty po.userAllocs <;> cases h2 : po.userAllocs.all validEntry <;> simp_all
  by_cases hz : po.expireAt.isZero = true
  · have e : po.expireAt = Time.zero := by simpa [Time.isZero] using hz
    have z : Time.zero.isZero = true := by decide
    simp [h, hf, e, z, hmode, hsz, hu', QInt.isBad, QInt.getD]
  · simp [h, hz, hf, hmode, hsz, hu', QInt.isBad, QInt.getD]

/-- preconditions of the query form: a recursive/direct mode, valid peers, origins with a peer ID -/
def wfQuery (po : PinOptions) : Bool :=
  (po.mode == 0 || po.mode == 1) && po.userAllocs.all validEntry && po.origins.all (·.p2p)

/-- pin options survive the query string, up to the entry for the empty metadata key -/
theorem query_property (po : PinOptions) (h : wfQuery po = true) :
    ∃ q, queryRoundtrip po = .ok q ∧ optsSame .query po q = true := by
  simp only [wfQuery, Bool.and_eq_true, Bool.or_eq_true, beq_iff_eq] at h
  obtain ⟨⟨hm, hu⟩, ho⟩ := h
  refine ⟨lossyQuery po, query_roundtrip po ho (by simp [hu]), ?_⟩
  have hu' : (if uaValueEmpty po.userAllocs = true then [] else po.userAllocs) = po.userAllocs := by
    by_cases he : uaValueEmpty po.userAllocs = true
    · rw [if_pos he]
      simp only [uaValueEmpty, Bool.or_eq_true, beq_iff_eq] at he
      rcases he with e | e
      · exact e.symm
      · rw [e] at hu; exact absurd hu (by decide)
    · rw [if_neg he]
  have hmode : modeFromString (modeString po.mode) = po.mode := by
    rcases hm with e | e <;> rw [e] <;> decide
  simp [optsSame, lossyQuery, hu', hmode, metaNonEmpty, List.filter_filter]

example : wfQuery clusterDagPin.opts = true := by decide

/-! ## L2: string forms -/

/-- every status and every filter of known statuses survives String → FromString (and so its JSON form,
    which goes through the same two functions). Holds in full since d6bd794 (was finding K14). -/
theorem status_string_roundtrip (st : Nat) (h : knownStatusFilter st = true) : statusRoundtrip st = st :=
  statusRoundtrip_known st h

/-- regression example for K14: pinned|pin_error used to come back as pinned|error = 30 -/
example : knownStatusFilter 20 = true ∧ statusRoundtrip 20 = 20 ∧ statusStrings 20 = ["pin_error", "pinned"] := by decide

/-- every named status (the twelve single ones, undefined, error, queued) survives -/
theorem status_named_roundtrip : (statusNames.all fun kv => statusRoundtrip kv.1 == kv.1) = true := by decide

theorem mode_string_roundtrip (m : Int) (h : m = 0 ∨ m = 1) : modeFromString (modeString m) = m := by
  rcases h with e | e <;> rw [e] <;> decide

theorem type_string_roundtrip (t : Nat) (h : t ∈ [1, 2, 4, 8, 16, 30]) : typeFromString (typeString t) = t := by
  simp only [List.mem_cons, List.mem_nil_iff, or_false] at h
  rcases h with e | e | e | e | e | e <;> rw [e] <;> decide

/-! ## L2: Equals -/

/-- metadata comes from a Go map: keys are unique -/
def uniqueKeys (po : PinOptions) : Prop := (po.metadata.map (·.1)).Nodup

theorem opts_equals_refl (a : PinOptions) (h : uniqueKeys a) : optsEquals a a = true := by
  simp [optsEquals, metaSub_refl h, metaKeys_refl, originsSub_refl]

theorem opts_equals_symm (a b : PinOptions) (hb : uniqueKeys b) (h : optsEquals a b = true) : optsEquals b a = true := by
  simp only [optsEquals, Bool.and_eq_true, beq_iff_eq] at h ⊢
  obtain ⟨⟨⟨⟨⟨⟨⟨⟨⟨⟨⟨⟨h1, h2⟩, h3⟩, h4⟩, h5⟩, h6⟩, h7⟩, h8⟩, h9⟩, h10⟩, h11⟩, h12⟩, h13⟩ := h
  exact ⟨⟨⟨⟨⟨⟨⟨⟨⟨⟨⟨⟨h1.symm, h2.symm⟩, h3.symm⟩, h4.symm⟩, h5.symm⟩, h6.symm⟩, h7.symm⟩, h8.symm⟩,
    metaSub_symm hb h9 h10⟩, metaKeys_symm h9⟩, h11.symm⟩, h13⟩, h12⟩

theorem opts_equals_trans (a b c : PinOptions) (h : optsEquals a b = true) (h' : optsEquals b c = true) : optsEquals a c = true := by
  simp only [optsEquals, Bool.and_eq_true, beq_iff_eq] at h h' ⊢
  obtain ⟨⟨⟨⟨⟨⟨⟨⟨⟨⟨⟨⟨h1, h2⟩, h3⟩, h4⟩, h5⟩, h6⟩, h7⟩, h8⟩, h9⟩, h10⟩, h11⟩, h12⟩, h13⟩ := h
  obtain ⟨⟨⟨⟨⟨⟨⟨⟨⟨⟨⟨⟨g1, g2⟩, g3⟩, g4⟩, g5⟩, g6⟩, g7⟩, g8⟩, g9⟩, g10⟩, g11⟩, g12⟩, g13⟩ := h'
  exact ⟨⟨⟨⟨⟨⟨⟨⟨⟨⟨⟨⟨h1.trans g1, h2.trans g2⟩, h3.trans g3⟩, h4.trans g4⟩, h5.trans g5⟩, h6.trans g6⟩, h7.trans g7⟩, h8.trans g8⟩,
    metaSub_trans h9 g9⟩, metaKeys_trans h10 g10⟩, h11.trans g11⟩, originsSub_trans h12 g12⟩, originsSub_trans g13 h13⟩

theorem pin_equals_refl (a : Pin) (h : uniqueKeys a.opts) : pinEquals a a = true := by
  simp [pinEquals, opts_equals_refl a.opts h]

theorem pin_equals_symm (a b : Pin) (hb : uniqueKeys b.opts) (h : pinEquals a b = true) : pinEquals b a = true := by
  simp only [pinEquals, Bool.and_eq_true, beq_iff_eq] at h ⊢
  obtain ⟨⟨⟨⟨⟨h1, h2⟩, h3⟩, h4⟩, h5⟩, h6⟩ := h
  exact ⟨⟨⟨⟨⟨h1.symm, h2.symm⟩, h3.symm⟩, h4.symm⟩, h5.symm⟩, opts_equals_symm _ _ hb h6⟩

theorem pin_equals_trans (a b c : Pin) (h : pinEquals a b = true) (h' : pinEquals b c = true) : pinEquals a c = true := by
  simp only [pinEquals, Bool.and_eq_true, beq_iff_eq] at h h' ⊢
  obtain ⟨⟨⟨⟨⟨h1, h2⟩, h3⟩, h4⟩, h5⟩, h6⟩ := h
  obtain ⟨⟨⟨⟨⟨g1, g2⟩, g3⟩, g4⟩, g5⟩, g6⟩ := h'
  exact ⟨⟨⟨⟨⟨h1.trans g1, h2.trans g2⟩, h3.trans g3⟩, h4.trans g4⟩, h5.trans g5⟩, opts_equals_trans _ _ _ h6 g6⟩

/-- `PinOptions.Equals` never overlooks a difference: options it calls equal are equal up to the order of the
    user allocations, the order and repeats of origins, the ignored `PinUpdate` and the empty metadata key -/
theorem opts_equals_sound (a b : PinOptions) (ha : uniqueKeys a) (hb : uniqueKeys b) (h : optsEquals a b = true) :
    optsSameLoose a b = true := by
  have h' := h
  simp only [optsEquals, Bool.and_eq_true, beq_iff_eq] at h
  obtain ⟨⟨⟨⟨⟨⟨⟨⟨⟨⟨⟨⟨h1, h2⟩, h3⟩, h4⟩, h5⟩, _⟩, h7⟩, h8⟩, h9⟩, h10⟩, _⟩, h12⟩, h13⟩ := h
  simp only [optsSameLoose, sameSet, Bool.and_eq_true, beq_iff_eq]
  refine ⟨⟨⟨⟨⟨⟨⟨⟨h1, h2⟩, h4⟩, h3⟩, h5⟩, isPerm_of_sortS_eq h7⟩, h8⟩, metaNonEmpty_perm ha hb h9 (metaSub_symm hb h9 h10)⟩, ?_, ?_⟩
  · exact h12
  · exact h13

/-- the same for `Pin.Equals` (allocations up to order) -/
theorem pin_equals_sound (a b : Pin) (ha : uniqueKeys a.opts) (hb : uniqueKeys b.opts) (h : pinEquals a b = true) :
    pinRest a b = true ∧ optsSameLoose a.opts b.opts = true := by
  simp only [pinEquals, Bool.and_eq_true, beq_iff_eq] at h
  obtain ⟨⟨⟨⟨⟨h1, h2⟩, h3⟩, h4⟩, h5⟩, h6⟩ := h
  refine ⟨?_, opts_equals_sound _ _ ha hb h6⟩
  simp only [pinRest, Bool.and_eq_true, beq_iff_eq]
  exact ⟨⟨⟨⟨h1, h2⟩, h3⟩, h4⟩, isPerm_of_sortS_eq h5⟩

/-- the full statement: `Equals` is reflexive whichever way the two arguments are held -/
def equals_is_equivalence_full : Prop := ∀ (samePointer : Bool) (a : Pin), uniqueKeys a.opts → pinEqualsPtr samePointer a a = true

/-- … it is, for two distinct pointers (with `pin_equals_symm`, `pin_equals_trans`: an equivalence) -/
theorem equals_is_equivalence_partial (a : Pin) (h : uniqueKeys a.opts) : pinEqualsPtr false a a = true := by
  simp [pinEqualsPtr, pin_equals_refl a h]

/-- … and it is not for one pointer: `p.Equals(p)` is false by the explicit `pin == pin2` test -/
theorem equals_is_equivalence_full_fails : ¬ equals_is_equivalence_full := by
  intro h
  have := h true clusterDagPin (by simp [uniqueKeys, clusterDagPin])
  simp [pinEqualsPtr] at this

/-! ## the generic prediction -/

/-- for a field whose static type is decodable, away from zero values the type's own unmarshaler rejects
    and from the two leaf types with a lossy string form, encode-then-decode under json/msgpack is the
    identity on the dumped token -/
theorem tagged_field_identity (js : Bool) (f : Field) (tok : String)
    (hd : decodable js f.ty = true)
    (hz : (elemToks f.ty tok).any (zeroRejected js (leafName (peel f.ty))) = false)
    (hs : leafName (peel f.ty) ≠ "api.TrackerStatus") (hm : leafName (peel f.ty) ≠ "api.PinMode")
    (hp : tok ≠ undefCid ∨ isPtr f.ty = false) :
    predictField js f tok = some tok := by
  unfold predictField predictFieldE
  rcases hp with hp | hp
  · have : (tok == "c-") = false := by simpa [undefCid] using hp
    simp [hd, hz, hs, hm, this, Except.toOption]
  · simp [hd, hz, hs, hm, hp, Except.toOption]

end CV.C08.Props
