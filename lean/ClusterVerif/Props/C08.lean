import ClusterVerif.Lemmas.C08
import ClusterVerif.Lemmas.C08Eq
import ClusterVerif.Lemmas.C08Wire
import ClusterVerif.Lemmas.C08Query
import ClusterVerif.Lemmas.C08Total
import ClusterVerif.Gen.C08
import ClusterVerif.Gen.C08Pb
import ClusterVerif.Lemmas.C08Prod
import ClusterVerif.Lemmas.C08Add
import ClusterVerif.Lemmas.C08AddDec
import ClusterVerif.Lemmas.C08Util
import ClusterVerif.Gen.C08Add
import ClusterVerif.Lemmas.C08Mp

/-!
# C08 — records survive every encoding boundary; decoders never crash

Property theorems only (helper lemmas are in `Lemmas/C08.lean`).

L1, over the schema table regenerated from the repository (`Gen/C08.lean`), by `decide`:
* `tags_unique`, `no_dropped_fields`, `structs_resolved`, `codec_paths_agree`, `omitempty_safe`
* `all_fields_decodable_partial` — every field of every record is decodable by encoding/json and by
  ugorji msgpack, except `PinOptions.Origins` (known finding K01) and the opaque tracing field
  `SpanContext.Tracestate`; `all_fields_decodable_full` is the statement without exceptions and
  `all_fields_decodable_full_fails` its refutation, with `origins_is_the_witness`.

L2, for every value (no bound):
* `proto_roundtrip` — ProtoUnmarshal ∘ ProtoMarshal = the explicit projection `lossyProto`;
  `proto_property_partial` — which the Spec's comparison accepts when the pin's mode agrees with its
  depth; `proto_property_full` (no such hypotheses), `proto_property_full_fails` (finding K13) and
  `proto_property_full_fails_undef_reference` (finding K38).
* `query_roundtrip`, `query_property`.
* `status_string_roundtrip` (every filter of known statuses; in full since the repair of K14), `status_named_roundtrip`, `mode_string_roundtrip`, `type_string_roundtrip`.
* `opts_equals_refl/symm/trans`, `pin_equals_refl/symm/trans` — Equals is an equivalence on values held
  behind distinct pointers; `opts_equals_sound`, `pin_equals_sound` — it never overlooks a difference; `equals_is_equivalence_full` (also for one pointer) and its refutation.
* `tagged_field_identity` — the generic prediction for json/msgpack is the identity on a field whose
  static type is decodable, away from rejected zero values and the two string-formed leaf types.
-/
namespace CV.C08.Props
open CV.C08

/-! ## L1: the generated schema -/

/-- json and codec names are unique per struct, after promotion of embedded structs -/
theorem tags_unique : tagsUnique Gen.table = true := by decide

/-- no exported field is dropped with a "-" tag -/
theorem no_dropped_fields : noDroppedFields Gen.table = true := by decide

/-- every struct type reachable from a wire record has a table entry -/
theorem structs_resolved : allResolved Gen.table = true := by decide

/-- for every leaf type the encoder and the decoder of each library take the same path
    (Marshaler ↔ Unmarshaler, Text ↔ Text, Binary ↔ Binary, by kind ↔ by kind) -/
theorem codec_paths_agree : allPathsAgree Gen.table = true := by decide

/-- omitempty only sits on fields whose "empty" is the zero value up to nil-vs-empty -/
theorem omitempty_safe : allOmitSafe Gen.table = true := by decide

/-- the fields that are NOT decodable -/
def decodeExceptions : List (String × String) := [("PinOptions", "Origins"), ("SpanContext", "Tracestate")]

/-- the full statement: every field of every record is decodable in both tag-driven formats -/
def all_fields_decodable_full : Prop := allDecodableExcept Gen.table [] = true

theorem all_fields_decodable_partial : allDecodableExcept Gen.table decodeExceptions = true := by decide

theorem all_fields_decodable_full_fails : ¬ all_fields_decodable_full := by
  unfold all_fields_decodable_full; decide

/-- the witness: `PinOptions.Origins` (a slice of an interface type) is decodable in neither format -/
theorem origins_is_the_witness :
    ((lookupRec Gen.table "PinOptions").bind fun r => (r.fields.find? fun f => f.go == "Origins").map
      fun f => (decodable true f.ty, decodable false f.ty)) = some (false, false) := by decide

example : (lookupRec Gen.table "Pin").isSome = true ∧ Gen.table.length > 20 := by decide

/-! ## L2: protobuf -/

/-- `ProtoUnmarshal(ProtoMarshal(p))` is exactly `lossyProto p`, for every pin within the preconditions
    (factors and depth in int32, a PinType constant, valid peer IDs, expiry within int64 seconds) -/
theorem proto_roundtrip (p : Pin) (h : wfProto p = true) : protoRoundtrip p = .ok (lossyProto p) :=
  CV.C08.proto_roundtrip p h

/-- the full statement of "a stored pin decodes to an equal pin" -/
def proto_property_full : Prop :=
  ∀ p : Pin, wfProto p = true → ∃ q, protoRoundtrip p = .ok q ∧ pinSame .proto p q = true

/-- … proved for pins whose mode is the one their depth implies (what `PinWithOpts` establishes) and whose
    reference is not a non-nil pointer to cid.Undef -/
theorem proto_property_partial (p : Pin) (h : wfProto p = true) (hm : p.opts.mode = toPinMode p.maxDepth)
    (hr : p.reference ≠ some undefCid) :
    ∃ q, protoRoundtrip p = .ok q ∧ pinSame .proto p q = true := by
  refine ⟨lossyProto p, proto_roundtrip p h, ?_⟩
  simp [pinSame, optsSame, lossyProto, expiryKey_trunc, hm, hr]

/-- a cluster-DAG pin as the sharding adder builds it: mode recursive, depth 0 -/
def clusterDagPin : Pin :=
  { opts := { rmin := -1, rmax := -1, name := "~x", mode := 0, shardSize := 0, userAllocs := [], expireAt := Time.zero,
              metadata := [], pinUpdate := none, origins := [] },
    cid := some "c0", type := 8, allocs := [], maxDepth := 0, reference := some "c1" }

/-- … and refuted without that hypothesis (finding K13): the stored form gives the pin the other mode -/
theorem proto_property_full_fails : ¬ proto_property_full := by
  intro h
  obtain ⟨q, hq, hs⟩ := h clusterDagPin (by decide)
  have : protoRoundtrip clusterDagPin = .ok (lossyProto clusterDagPin) := proto_roundtrip _ (by decide)
  rw [this] at hq
  injection hq with hq
  subst hq
  revert hs
  decide

/-- the first shard pin of a sharded add as shard.go built it before 9d8b946: a reference pointing to cid.Undef -/
def firstShardPin : Pin :=
  { opts := { rmin := 1, rmax := 1, name := "~x", mode := 0, shardSize := 0, userAllocs := [], expireAt := Time.zero,
              metadata := [], pinUpdate := none, origins := [] },
    cid := some "c0", type := 16, allocs := ["p1"], maxDepth := 1, reference := some undefCid }

/-- … and also for a pin whose mode agrees with its depth but whose reference points to cid.Undef (finding K38):
    the stored form reads it back as a nil reference -/
theorem proto_property_full_fails_undef_reference :
    wfProto firstShardPin = true ∧ firstShardPin.opts.mode = toPinMode firstShardPin.maxDepth ∧
    protoRoundtrip firstShardPin = .ok { firstShardPin with reference := none } ∧
    pinSame .proto firstShardPin { firstShardPin with reference := none } = false := by decide

example : wfProto clusterDagPin = true ∧ protoRoundtrip clusterDagPin = .ok { clusterDagPin with opts := { clusterDagPin.opts with mode := 1 } } := by
  decide

/-! ## L2: query string -/

/-- `FromQuery(ToQuery(po))` is exactly `lossyQuery po` when every origin has a /p2p/ component and the user
    allocations are peer IDs (or the list is empty, or holds only the empty peer ID: the value is then "") -/
theorem query_roundtrip (po : PinOptions) (h : po.origins.all (·.p2p) = true)
    (hu : (uaValueEmpty po.userAllocs || po.userAllocs.all validEntry) = true) : queryRoundtrip po = .ok (lossyQuery po) := by
  unfold queryRoundtrip fromQuery toQuery lossyQuery
  have hf : List.filter (fun kv : String × String => kv.1 != emptyStr) (List.filter (fun kv => kv.1 != emptyStr) po.metadata)
      = List.filter (fun kv => kv.1 != emptyStr) po.metadata := by simp [List.filter_filter]
  have hmode : ¬(¬modeString po.mode = "" ∧ ¬modeString po.mode = "recursive" ∧ ¬modeString po.mode = "direct") := by
    unfold modeString; split <;> simp
  have hsz : ¬ ((po.shardSize : Int) < 0) := by omega
  have hu' : (!uaValueEmpty po.userAllocs && !po.userAllocs.all validEntry) = false := by
    cases h1 : uaValueEmpty po.userAllocs <;> cases h2 : po.userAllocs.all validEntry <;> simp_all
  by_cases hz : po.expireAt.isZero = true
  · have e : po.expireAt = Time.zero := by simpa [Time.isZero] using hz
    have z : Time.zero.isZero = true := by decide
    simp [h, hf, e, z, hmode, hsz, hu', QInt.isBad, QInt.getD]
  · simp [h, hz, hf, hmode, hsz, hu', QInt.isBad, QInt.getD]

/-- preconditions of the query form: a recursive/direct mode, valid peers, origins with a peer ID -/
def wfQuery (po : PinOptions) : Bool :=
  (po.mode == 0 || po.mode == 1) && po.userAllocs.all validEntry && po.origins.all (·.p2p)

/-- pin options survive the query string, up to the entry for the empty metadata key -/
theorem query_property (po : PinOptions) (h : wfQuery po = true) :
    ∃ q, queryRoundtrip po = .ok q ∧ optsSame .query po q = true := by
  simp only [wfQuery, Bool.and_eq_true, Bool.or_eq_true, beq_iff_eq] at h
  obtain ⟨⟨hm, hu⟩, ho⟩ := h
  refine ⟨lossyQuery po, query_roundtrip po ho (by simp [hu]), ?_⟩
  have hu' : (if uaValueEmpty po.userAllocs = true then [] else po.userAllocs) = po.userAllocs := by
    by_cases he : uaValueEmpty po.userAllocs = true
    · rw [if_pos he]
      simp only [uaValueEmpty, Bool.or_eq_true, beq_iff_eq] at he
      rcases he with e | e
      · exact e.symm
      · rw [e] at hu; exact absurd hu (by decide)
    · rw [if_neg he]
  have hmode : modeFromString (modeString po.mode) = po.mode := by
    rcases hm with e | e <;> rw [e] <;> decide
  simp [optsSame, lossyQuery, hu', hmode, metaNonEmpty, List.filter_filter]

example : wfQuery clusterDagPin.opts = true := by decide

/-! ## L2: string forms -/

/-- every status and every filter of known statuses survives String → FromString (and so its JSON form,
    which goes through the same two functions). Holds in full since d6bd794 (was finding K14). -/
theorem status_string_roundtrip (st : Nat) (h : knownStatusFilter st = true) : statusRoundtrip st = st :=
  statusRoundtrip_known st h

/-- regression example for K14: pinned|pin_error used to come back as pinned|error = 30 -/
example : knownStatusFilter 20 = true ∧ statusRoundtrip 20 = 20 ∧ statusStrings 20 = ["pin_error", "pinned"] := by decide

/-- every named status (the twelve single ones, undefined, error, queued) survives -/
theorem status_named_roundtrip : (statusNames.all fun kv => statusRoundtrip kv.1 == kv.1) = true := by decide

theorem mode_string_roundtrip (m : Int) (h : m = 0 ∨ m = 1) : modeFromString (modeString m) = m := by
  rcases h with e | e <;> rw [e] <;> decide

theorem type_string_roundtrip (t : Nat) (h : t ∈ [1, 2, 4, 8, 16, 30]) : typeFromString (typeString t) = t := by
  simp only [List.mem_cons, List.mem_nil_iff, or_false] at h
  rcases h with e | e | e | e | e | e <;> rw [e] <;> decide

/-! ## L2: Equals -/

/-- metadata comes from a Go map: keys are unique -/
def uniqueKeys (po : PinOptions) : Prop := (po.metadata.map (·.1)).Nodup

theorem opts_equals_refl (a : PinOptions) (h : uniqueKeys a) : optsEquals a a = true := by
  simp [optsEquals, metaSub_refl h, metaKeys_refl, originsSub_refl]

theorem opts_equals_symm (a b : PinOptions) (hb : uniqueKeys b) (h : optsEquals a b = true) : optsEquals b a = true := by
  simp only [optsEquals, Bool.and_eq_true, beq_iff_eq] at h ⊢
  obtain ⟨⟨⟨⟨⟨⟨⟨⟨⟨⟨⟨⟨h1, h2⟩, h3⟩, h4⟩, h5⟩, h6⟩, h7⟩, h8⟩, h9⟩, h10⟩, h11⟩, h12⟩, h13⟩ := h
  exact ⟨⟨⟨⟨⟨⟨⟨⟨⟨⟨⟨⟨h1.symm, h2.symm⟩, h3.symm⟩, h4.symm⟩, h5.symm⟩, h6.symm⟩, h7.symm⟩, h8.symm⟩,
    metaSub_symm hb h9 h10⟩, metaKeys_symm h9⟩, h11.symm⟩, h13⟩, h12⟩

theorem opts_equals_trans (a b c : PinOptions) (h : optsEquals a b = true) (h' : optsEquals b c = true) : optsEquals a c = true := by
  simp only [optsEquals, Bool.and_eq_true, beq_iff_eq] at h h' ⊢
  obtain ⟨⟨⟨⟨⟨⟨⟨⟨⟨⟨⟨⟨h1, h2⟩, h3⟩, h4⟩, h5⟩, h6⟩, h7⟩, h8⟩, h9⟩, h10⟩, h11⟩, h12⟩, h13⟩ := h
  obtain ⟨⟨⟨⟨⟨⟨⟨⟨⟨⟨⟨⟨g1, g2⟩, g3⟩, g4⟩, g5⟩, g6⟩, g7⟩, g8⟩, g9⟩, g10⟩, g11⟩, g12⟩, g13⟩ := h'
  exact ⟨⟨⟨⟨⟨⟨⟨⟨⟨⟨⟨⟨h1.trans g1, h2.trans g2⟩, h3.trans g3⟩, h4.trans g4⟩, h5.trans g5⟩, h6.trans g6⟩, h7.trans g7⟩, h8.trans g8⟩,
    metaSub_trans h9 g9⟩, metaKeys_trans h10 g10⟩, h11.trans g11⟩, originsSub_trans h12 g12⟩, originsSub_trans g13 h13⟩

theorem pin_equals_refl (a : Pin) (h : uniqueKeys a.opts) : pinEquals a a = true := by
  simp [pinEquals, opts_equals_refl a.opts h]

theorem pin_equals_symm (a b : Pin) (hb : uniqueKeys b.opts) (h : pinEquals a b = true) : pinEquals b a = true := by
  simp only [pinEquals, Bool.and_eq_true, beq_iff_eq] at h ⊢
  obtain ⟨⟨⟨⟨⟨h1, h2⟩, h3⟩, h4⟩, h5⟩, h6⟩ := h
  exact ⟨⟨⟨⟨⟨h1.symm, h2.symm⟩, h3.symm⟩, h4.symm⟩, h5.symm⟩, opts_equals_symm _ _ hb h6⟩

theorem pin_equals_trans (a b c : Pin) (h : pinEquals a b = true) (h' : pinEquals b c = true) : pinEquals a c = true := by
  simp only [pinEquals, Bool.and_eq_true, beq_iff_eq] at h h' ⊢
  obtain ⟨⟨⟨⟨⟨h1, h2⟩, h3⟩, h4⟩, h5⟩, h6⟩ := h
  obtain ⟨⟨⟨⟨⟨g1, g2⟩, g3⟩, g4⟩, g5⟩, g6⟩ := h'
  exact ⟨⟨⟨⟨⟨h1.trans g1, h2.trans g2⟩, h3.trans g3⟩, h4.trans g4⟩, h5.trans g5⟩, opts_equals_trans _ _ _ h6 g6⟩

/-- `PinOptions.Equals` never overlooks a difference: options it calls equal are equal up to the order of the
    user allocations, the order and repeats of origins, the ignored `PinUpdate` and the empty metadata key -/
theorem opts_equals_sound (a b : PinOptions) (ha : uniqueKeys a) (hb : uniqueKeys b) (h : optsEquals a b = true) :
    optsSameLoose a b = true := by
  have h' := h
  simp only [optsEquals, Bool.and_eq_true, beq_iff_eq] at h
  obtain ⟨⟨⟨⟨⟨⟨⟨⟨⟨⟨⟨⟨h1, h2⟩, h3⟩, h4⟩, h5⟩, _⟩, h7⟩, h8⟩, h9⟩, h10⟩, _⟩, h12⟩, h13⟩ := h
  simp only [optsSameLoose, sameSet, Bool.and_eq_true, beq_iff_eq]
  refine ⟨⟨⟨⟨⟨⟨⟨⟨h1, h2⟩, h4⟩, h3⟩, h5⟩, isPerm_of_sortS_eq h7⟩, h8⟩, metaNonEmpty_perm ha hb h9 (metaSub_symm hb h9 h10)⟩, ?_, ?_⟩
  · exact h12
  · exact h13

/-- the same for `Pin.Equals` (allocations up to order) -/
theorem pin_equals_sound (a b : Pin) (ha : uniqueKeys a.opts) (hb : uniqueKeys b.opts) (h : pinEquals a b = true) :
    pinRest a b = true ∧ optsSameLoose a.opts b.opts = true := by
  simp only [pinEquals, Bool.and_eq_true, beq_iff_eq] at h
  obtain ⟨⟨⟨⟨⟨h1, h2⟩, h3⟩, h4⟩, h5⟩, h6⟩ := h
  refine ⟨?_, opts_equals_sound _ _ ha hb h6⟩
  simp only [pinRest, Bool.and_eq_true, beq_iff_eq]
  exact ⟨⟨⟨⟨h1, h2⟩, h3⟩, h4⟩, isPerm_of_sortS_eq h5⟩

/-- the full statement: `Equals` is reflexive whichever way the two arguments are held -/
def equals_is_equivalence_full : Prop := ∀ (samePointer : Bool) (a : Pin), uniqueKeys a.opts → pinEqualsPtr samePointer a a = true

/-- … it is, for two distinct pointers (with `pin_equals_symm`, `pin_equals_trans`: an equivalence) -/
theorem equals_is_equivalence_partial (a : Pin) (h : uniqueKeys a.opts) : pinEqualsPtr false a a = true := by
  simp [pinEqualsPtr, pin_equals_refl a h]

/-- … and it is not for one pointer: `p.Equals(p)` is false by the explicit `pin == pin2` test -/
theorem equals_is_equivalence_full_fails : ¬ equals_is_equivalence_full := by
  intro h
  have := h true clusterDagPin (by simp [uniqueKeys, clusterDagPin])
  simp [pinEqualsPtr] at this

/-! ## the generic prediction -/

/-- for a field whose static type is decodable, away from zero values the type's own unmarshaler rejects
    and from the two leaf types with a lossy string form, encode-then-decode under json/msgpack is the
    identity on the dumped token -/
theorem tagged_field_identity (js : Bool) (f : Field) (tok : String)
    (hd : decodable js f.ty = true)
    (hz : (elemToks f.ty tok).any (zeroRejected js (leafName (peel f.ty))) = false)
    (hs : leafName (peel f.ty) ≠ "api.TrackerStatus") (hm : leafName (peel f.ty) ≠ "api.PinMode")
    (hp : tok ≠ undefCid ∨ isPtr f.ty = false) :
    predictField js f tok = some tok := by
  unfold predictField predictFieldE
  rcases hp with hp | hp
  · have : (tok == "c-") = false := by simpa [undefCid] using hp
    simp [hd, hz, hs, hm, this, Except.toOption]
  · simp [hd, hz, hs, hm, hp, Except.toOption]


/-! ## Equals: completeness and the exact characterisation (round 7) -/

/-- what `PinOptions.Equals` compares, exactly: name, mode, both factors, shard size, the user allocations as a
    multiset, the expiry, the metadata as a map WITHOUT the entry of the empty key, and the origins by length and
    mutual inclusion of their addresses. NOT compared: `PinUpdate`, the empty metadata key, order and — beyond the
    length — multiplicity of origins. No hypotheses. -/
theorem opts_equals_iff (a b : PinOptions) : optsEquals a b = true ↔
    (a.name = b.name ∧ a.mode = b.mode ∧ a.rmax = b.rmax ∧ a.rmin = b.rmin ∧ a.shardSize = b.shardSize ∧
     a.userAllocs.Perm b.userAllocs ∧ a.expireAt = b.expireAt ∧
     (∀ k v, (k, v) ∈ a.metadata → k ≠ emptyStr → lookupKV k b.metadata = some v) ∧
     (∀ k v, (k, v) ∈ b.metadata → k ≠ emptyStr → (lookupKV k a.metadata).isSome = true) ∧
     a.origins.length = b.origins.length ∧ (∀ o ∈ a.origins, ∃ o' ∈ b.origins, o.tok = o'.tok) ∧
     (∀ o ∈ b.origins, ∃ o' ∈ a.origins, o.tok = o'.tok)) :=
  CV.C08.opts_equals_iff a b

/-- what `Pin.Equals` compares: CID, type, depth, reference, the allocations as a multiset, and the options as above -/
theorem pin_equals_iff (a b : Pin) : pinEquals a b = true ↔
    (a.cid = b.cid ∧ a.type = b.type ∧ a.maxDepth = b.maxDepth ∧ a.reference = b.reference ∧
     a.allocs.Perm b.allocs ∧ optsEquals a.opts b.opts = true) :=
  CV.C08.pin_equals_iff a b

/-- `equals_complete` for the model: options that agree up to list order (and the two ignored items) are Equal -/
theorem opts_equals_complete (a b : PinOptions) (hb : uniqueKeys b) (h : optsSameStrict a b = true) : optsEquals a b = true :=
  CV.C08.opts_equals_complete a b hb h

theorem pin_equals_complete (a b : Pin) (hb : uniqueKeys b.opts) (h1 : pinRest a b = true)
    (h2 : optsSameStrict a.opts b.opts = true) : pinEquals a b = true :=
  CV.C08.pin_equals_complete a b hb h1 h2

example : uniqueKeys clusterDagPin.opts ∧ pinRest clusterDagPin clusterDagPin = true ∧
    optsSameStrict clusterDagPin.opts clusterDagPin.opts = true := by
  refine ⟨by simp [uniqueKeys, clusterDagPin], by decide, by decide⟩

/-! ## byte-level wire forms (round 7) -/
open CV.C08.Wire

/-- field numbers, wire kinds and repeated flags of `pb.Pin`/`pb.PinOptions` in today's generated code are the
    ones the byte-level model is written for -/
theorem pb_schema_matches : Gen.Pb.schema = Wire.expectedSchema := by decide

theorem varint_roundtrip (n : Nat) (rest : Bytes) (h : n < Wire.two64) : decodeVarint (encodeVarint n ++ rest) = some (n, rest) :=
  decodeVarint_encode n rest h

theorem zigzag_roundtrip (i : Int) (h : inI32 i = true) : unzigzag32 (zigzag32 i) = i := unzigzag32_zigzag32 i h

/-- bytes ⇄ `(field number, wire type, payload)` lists -/
theorem tokens_roundtrip (ts : List Tok) (h : ts.all wfTok = true) : tokens (encodeToks ts) = some ts := tokens_encode ts h

/-- `proto.Unmarshal(proto.Marshal(m)) = m` at the byte level, for every message within the ranges of the wire
    format (int32 fields, UTF-8 strings, unique map keys, payload lengths below 2^64) -/
theorem pb_decode_encode (m : PinRaw) (h : wfMsg m = true) : (encodePin m).bind decodePin = some m := by
  have he : encodePin m = some (encodeToks (toksPin m)) := by
    unfold encodePin
    cases ho : m.opts with
    | none => rfl
    | some o =>
      have : stringsValid o = true := by
        simp only [wfMsg, wfPinRaw, ho, wfOptsRaw, Bool.and_eq_true] at h
        simp only [stringsValid, Bool.and_eq_true]
        exact ⟨h.1.1.2.1.1.1.2, h.1.1.2.2⟩
      simp [this]
  rw [he]
  exact decodePin_encode m h

/-- the decoder accepts the fields in any order that keeps the relative order of tokens of one field number -/
theorem pb_decode_perm {ts ts' : List Tok} (h : FieldPerm ts ts') : pinOfToks ts = pinOfToks ts' := pinOfToks_perm h

/-- … in particular the canonical encoding reordered: still the message -/
theorem pb_decode_perm_canonical (m : PinRaw) (hw : wfMsg m = true) {ts' : List Tok} (h : FieldPerm (toksPin m) ts') :
    pinOfToks ts' = some m := by
  rw [← pinOfToks_perm h]; exact pinOfToks_toksPin m hw

/-- unknown fields (numbers above 6, or a known number in another wire type) are skipped wherever they stand -/
theorem pb_decode_unknown_skipped (l1 l2 : List Tok) (t : Tok) (h : 6 < t.num) :
    pinOfToks (l1 ++ t :: l2) = pinOfToks (l1 ++ l2) := pinOfToks_skip l1 l2 t (pinUpd_unknown t h)

/-- the last value of a singular field wins (here: `MaxDepth`) -/
example : pinOfToks [⟨4, .varint 1⟩, ⟨4, .varint 4⟩] = some { PinRaw.zero with maxDepth := 2 } := by decide

/-- the byte layer is transparent: whatever `ProtoUnmarshal` computes from the decoded message (`ofMsg`), it
    computes from the message `ProtoMarshal` built — so `Pin → bytes → Pin` is `Pin → pb.Pin → Pin`, which
    `proto_roundtrip` shows to be the projection `lossyProto` -/
theorem proto_roundtrip_bytes {α : Type} (ofMsg : PinRaw → α) (m : PinRaw) (h : wfMsg m = true) :
    ((encodePin m).bind decodePin).map ofMsg = some (ofMsg m) := by
  rw [pb_decode_encode m h]; rfl

/-- totality with well-formedness: every byte string is rejected or decodes to a message whose scalar fields are
    in range and whose strings are UTF-8; the byte-string leaves (CIDs, peers, multiaddresses) are arbitrary — the
    junk class `ProtoUnmarshal` maps to cid.Undef / an error -/
theorem decode_total_wf (bs : Bytes) : decodePin bs = none ∨ ∃ p, decodePin bs = some p ∧ wfPinRaw p = true :=
  CV.C08.Wire.decode_total_wf bs

def exampleMsg : PinRaw :=
  { cid := [1, 85, 18, 1, 7], type := 3, allocs := [[18, 1, 9], []], maxDepth := -1, reference := [],
    opts := some { rmin := -1, rmax := 2147483647, name := [195, 169], shardSize := 0,
                   metadata := [([107], [38, 61]), ([], [])], pinUpdate := [], expireAt := 1900000000, origins := [[4, 127, 0, 0, 1]] } }

example : wfMsg exampleMsg = true := by decide
example : (encodePin exampleMsg).bind decodePin = some exampleMsg := pb_decode_encode _ (by decide)

/-- `url.QueryUnescape(url.QueryEscape(s)) = s` for every byte string -/
theorem unescape_escape (s : Bytes) : unescape (escape s) = some s := CV.C08.Wire.unescape_escape s

/-- `url.ParseQuery(url.Values.Encode())` gives back every parameter, in key order, whatever bytes keys and
    values hold (`&`, `=`, `%`, `+`, space, non-ASCII, invalid UTF-8) -/
theorem query_roundtrip_text (l : List (Bytes × Bytes)) : parseQuery (encodeQuery l) = some (sortKV l) :=
  CV.C08.Wire.query_roundtrip_text l

/-- … and `Get` reads each of them back verbatim -/
theorem query_get_roundtrip (l : List (Bytes × Bytes)) (k v : Bytes) (hn : (l.map (·.1)).Nodup) (hm : (k, v) ∈ l) :
    (parseQuery (encodeQuery l)).map (getQ k) = some v := CV.C08.Wire.query_get_roundtrip l k v hn hm

example : (parseQuery (encodeQuery [([110], [38, 61, 37, 43, 32, 255]), ([109, 45], [])])).map (getQ [110]) = some [38, 61, 37, 43, 32, 255] := by decide


/-! ## the producers: what the non-test code builds (round 7) -/
open CV.C08.Prod CV.C08.Gen.Prod in
/-- over the table of every construction / mutation site of the wire record types in non-test code
    (`Gen/C08Prod.lean`, regenerated on every run): every construction shape is recognised; no producer builds a
    pin whose mode disagrees with its depth (K13's precondition), sets a `Reference` to `cid.Undef` (K37/K38's),
    or sets a pin type that is not one of the four storable constants; field assignments outside construction
    sites only happen in the decoder itself; and the table covers the known producers -/
theorem producers_ok : allOK facts sites = true := CV.C08.Prod.producers_ok

open CV.C08.Prod CV.C08.Gen.Prod in
theorem producers_mode_depth_agree : facts.constructors = true ∧ (sites.all (modeDepthOK facts.recursive)) = true :=
  CV.C08.Prod.producers_mode_depth_agree

open CV.C08.Prod CV.C08.Gen.Prod in
theorem producers_reference_defined : (sites.all referenceOK) = true := CV.C08.Prod.producers_reference_defined

open CV.C08.Prod CV.C08.Gen.Prod in
theorem producers_recognised : noUnrecognised sites unrecognisedAllowed = true := CV.C08.Prod.producers_recognised


/-! ## Round 8: the query form of the add parameters (api/add.go) -/
section AddParams
open CV.C08.Add

/-- today's api/add.go has the parameter tables the model `Model/C08Add.lean` transcribes: the steps of
    `AddParamsFromQuery` and of `ToQueryString` in source order (kind, key, field, accepted values), the defaults of the
    non-pin-option fields, the conjuncts of `Equals`, and the bodies of `parseBoolParam` / `parseIntParam` -/
theorem add_table_matches :
    Gen.Add.reads = expectedReads ∧ Gen.Add.writes = expectedWrites ∧
    expectedDefaults.all (fun d => Gen.Add.defaults.contains d) = true ∧ Gen.Add.equalsFields = expectedEquals ∧
    Gen.Add.helpers = [("parseBoolParam", "ok"), ("parseIntParam", "ok")] := by decide

/-- over the GENERATED table: every statement of both functions is recognised (no `unknown` step) -/
theorem add_steps_recognised : allRecognised Gen.Add.reads Gen.Add.writes = true := by decide

/-- over the GENERATED table: every parameter written is read under the same key, into the same field, with a
    matching parse kind, and the other way round; no key or field twice on either side -/
theorem add_writes_reads_agree : writesReadsAgree Gen.Add.reads Gen.Add.writes = true := by decide

/-- over the GENERATED table: every declared field of `AddParams` / `IPFSAddParams` is written with the kind of its Go
    type, read, and has a default — a new field that one side forgets fails here -/
theorem add_fields_covered : fieldsCovered Gen.Add.fields Gen.Add.reads Gen.Add.writes Gen.Add.defaults = true := by decide

/-- over the GENERATED table: hash and version are read before the CIDv0 rule, which precedes the raw-leaves default,
    which precedes the explicit raw-leaves parameter -/
theorem add_rule_order : ruleOrderOk Gen.Add.reads = true := by decide

/-- over the GENERATED table: `AddParams.Equals` compares the pin options and every field except `Progress` -/
theorem add_equals_covers : equalsCovers Gen.Add.fields Gen.Add.equalsFields = true := by decide

/-- `strconv.ParseBool (fmt.Sprintf "%t" b) = b` -/
theorem add_bool_text_roundtrip (b : Bool) : parseBool (fmtBool b) = some b := parseBool_fmtBool b

/-- `strconv.Atoi (fmt.Sprintf "%d" i) = i` for every 64-bit `i` (and the text is not the empty "absent" value) —
    all integers, through core's `Int.repr` / `String.toInt?` lemmas -/
theorem add_int_text_roundtrip (i : Int) (h : inInt64 i = true) : showInt i ≠ "" ∧ atoi (showInt i) = some i :=
  atoi_showInt i h

/-- the non-pin-option parameters survive `ToQueryString → AddParamsFromQuery`, for ALL well-formed values -/
theorem add_extras_roundtrip (x : AddX) (hwf : wfX x = true) : fromParams (toParams x) = some x :=
  fromParams_toParams x hwf

example : wfX { defaultX with cidVersion := 1, hashFun := "blake2b-256", rawLeaves := false, layout := "trickle", noCopy := true } = true := by decide

/-- whole `AddParams`: with pin options in the domain of `query_roundtrip`, the round trip is the pin options' lossy
    projection with `PinUpdate` cleared, everything else unchanged -/
theorem add_params_roundtrip (p : AddParams) (hx : wfX p.x = true)
    (ho : p.opts.origins.all (·.p2p) = true)
    (hu : uaValueEmpty p.opts.userAllocs = true ∨ p.opts.userAllocs.all validEntry = true) :
    addRoundtrip p = .ok { opts := { lossyQuery p.opts with pinUpdate := none }, x := p.x } := by
  unfold addRoundtrip
  rw [query_roundtrip p.opts ho (by simpa using hu), fromParams_toParams p.x hx]

/-- the full statement (no well-formedness of the add parameters) is false -/
def add_extras_roundtrip_full : Prop := ∀ x : AddX, fromParams (toParams x) = some x

/-- …an empty chunker comes back as the default chunker -/
theorem add_extras_roundtrip_full_fails : ¬ add_extras_roundtrip_full := by
  intro h
  have := h { defaultX with chunker := "" }
  revert this
  rw [show fromParams (toParams { defaultX with chunker := "" }) = some defaultX from by
        have := fromParams_toParams defaultX (by decide)
        exact this ▸ rfl]
  decide

/-- the step order matters: parsing `raw-leaves` before the version-dependent default loses an explicit
    `raw-leaves=false` of a CIDv1 add (the alternative a reordering edit would implement) -/
theorem add_raw_leaves_order_matters :
    ∃ x, wfX x = true ∧ fromParamsRawFirst (toParams x) ≠ some x := by
  refine ⟨{ defaultX with cidVersion := 1, rawLeaves := false }, by decide, ?_⟩
  unfold fromParamsRawFirst
  rw [fromParams_toParams _ (by decide)]
  decide

/-- defaults of an empty query: `DefaultAddParams` except that `Format` becomes "" (it is assigned unconditionally) -/
theorem add_defaults : fromParams [] = some { defaultX with format := "" } := by decide

/-- a hash function other than sha2-256 without a version moves to CIDv1 with raw leaves; with an explicit
    version 0 it is refused (6355d34) -/
theorem add_hash_cid_rule (h : String) (hne : h ≠ "") (hs : isSha256 h = false) :
    fromParams [("hash", h)] = some { defaultX with format := "", hashFun := h, cidVersion := 1, rawLeaves := true } := by
  have hne' : (h != "") = true := by simpa using hne
  simp [fromParams, getP, boolParam, intParam, hne', hs, defaultX]

example : isSha256 "blake2b-256" = false := by decide

/-! ### the decoder on ARBITRARY parameter sets (round 8b; tied to the real `AddParamsFromQuery` by the `aq` cases) -/

/-- `strconv.ParseBool` as modelled accepts exactly six spellings of true … -/
theorem add_bool_true_spellings (s : String) :
    parseBool s = some true ↔ s = "1" ∨ s = "t" ∨ s = "T" ∨ s = "TRUE" ∨ s = "true" ∨ s = "True" := parseBool_true_iff s

/-- … and six of false; everything else (`yes`, `tRUE`, `01`, ` true`) is an error -/
theorem add_bool_false_spellings (s : String) :
    parseBool s = some false ↔ s = "0" ∨ s = "f" ∨ s = "F" ∨ s = "FALSE" ∨ s = "false" ∨ s = "False" := parseBool_false_iff s

example : parseBool "tRUE" = none ∧ parseBool "yes" = none ∧ parseBool "01" = none ∧ parseBool "T" = some true := by decide

/-- base-10 `Atoi` has no digit separators: `1_0` is refused wherever the underscore stands -/
theorem add_int_rejects_underscore (s : String) (h : s.toList.any (· == '_') = true) : atoi s = none := atoi_underscore s h

example : ("1_0".toList.any (· == '_')) = true := by decide

/-- whatever integer text is accepted is a 64-bit value -/
theorem add_int_accepted_in_range (s : String) (i : Int) (h : atoi s = some i) : inInt64 i = true := atoi_range h

/-- the decoder depends on `Values.Get` of its fourteen keys only: two parameter sets that agree there decode alike
    (order, unknown keys, later values of a repeated key cannot matter) -/
theorem add_decoder_reads_only_its_keys (q q' : Params) (h : ∀ k ∈ addKeys, getP q k = getP q' k) :
    fromParams q = fromParams q' := fromParams_congr h

theorem add_decoder_first_value_wins (k v v' : String) (q : Params) :
    fromParams ((k, v) :: (k, v') :: q) = fromParams ((k, v) :: q) := fromParams_first_value k v v' q

theorem add_decoder_ignores_unknown_keys (k v : String) (q : Params) (hk : k ∉ addKeys) :
    fromParams ((k, v) :: q) = fromParams q := fromParams_unknown_key k v q hk

example : "Shard" ∉ addKeys ∧ "cid_version" ∉ addKeys := by decide

theorem add_decoder_order_irrelevant (k v k' v' : String) (q : Params) (h : k ≠ k') :
    fromParams ((k, v) :: (k', v') :: q) = fromParams ((k', v') :: (k, v) :: q) := fromParams_swap k v k' v' q h

/-- all fourteen parameters absent OR EMPTY, whatever else the query holds: the defaults (generalises `add_defaults`) -/
theorem add_absent_defaults (q : Params) (h : ∀ k ∈ addKeys, getP q k = "") :
    fromParams q = some { defaultX with format := "" } := fromParams_absent h

example : ∀ k ∈ addKeys, getP [("name", "x"), ("shard", ""), ("foo", "1")] k = "" := by decide

/-- whatever the decoder accepts is a well-formed parameter value (the domain of `add_extras_roundtrip`): known layout
    and format, named chunker and hash, never CIDv0 with a hash other than sha2-256, a 64-bit version -/
theorem add_decoded_wf (q : Params) (x : AddX) (h : fromParams q = some x) : wfX x = true := fromParams_wf h

/-- `decoded_reencodes` for the model, ALL parameter sets: an accepted query gives a value that `ToQueryString` writes
    and `AddParamsFromQuery` reads back unchanged (the decoder's image consists of fixed points of the round trip) -/
theorem add_decoded_reencodes (q : Params) (x : AddX) (h : fromParams q = some x) :
    fromParams (toParams x) = some x := fromParams_fixed h

example : fromParams [("shard", "T"), ("raw-leaves", "F"), ("hash", "SHA2-256"), ("layout", "trickle")] =
    some { defaultX with format := "", shard := true, hashFun := "SHA2-256", layout := "trickle" } := by decide

end AddParams

/-! ## api/util.go: the peer-ID string helpers (round 8b; tied by the `str p2s` / `str s2p` cases) -/
section PeerStrings
open CV.C08.Util

/-- `StringsToPeers(PeersToStrings(ps))` is `ps` without the empty IDs, order kept -/
theorem peers_strings_roundtrip (ps : List (Option Nat)) : stringsToPeers (peersToStrings ps) = ps.filterMap id := s2p_p2s ps

/-- … hence the identity on lists of defined peer IDs -/
theorem peers_strings_roundtrip_partial (ps : List Nat) : stringsToPeers (peersToStrings (ps.map some)) = ps := s2p_p2s_defined ps

example : stringsToPeers (peersToStrings [some 3, some 0, some 3]) = [3, 0, 3] := by decide

/-- the full statement (every list of peer IDs survives, entry by entry) … -/
def peers_strings_roundtrip_full : Prop := ∀ ps : List (Option Nat), (stringsToPeers (peersToStrings ps)).map some = ps

/-- … is false: the empty ID is written as "" and skipped on the way back (the K40 pattern; positions shift) -/
theorem peers_strings_roundtrip_full_fails : ¬ peers_strings_roundtrip_full := by
  intro h
  have := h [some 1, none, some 2]
  revert this; decide

/-- `PeersToStrings` keeps the length (one string per ID), `StringsToPeers` never grows the list -/
theorem peers_strings_lengths (ps : List (Option Nat)) (ss : List SItem) :
    (peersToStrings ps).length = ps.length ∧ (stringsToPeers ss).length ≤ ss.length := ⟨p2s_length ps, s2p_length_le ss⟩

/-- what `StringsToPeers` returns, written by `PeersToStrings`, reads back unchanged — for ALL string lists (the CID
    text form of a peer comes back in base58: same peer) -/
theorem strings_peers_reencode (ss : List SItem) :
    stringsToPeers (peersToStrings ((stringsToPeers ss).map some)) = stringsToPeers ss := s2p_p2s_defined _

example : stringsToPeers [.cid 4, .junk, .empty, .b58 1] = [4, 1] := by decide

end PeerStrings

/-! ## Round 8c — the msgpack envelope of dsstate (`serialEntry` stream; `Model/C08Mp.lean`, tied byte for byte by `mpenc`/`mpdec`) -/
section MpEnvelope
open CV.C08.Mp

/-- the 2- and 4-byte big-endian lengths `encRaw` writes read back, for every length in range -/
theorem mp_length_bytes_roundtrip (n : Nat) : (n < 65536 → beNat (be16 n) = n) ∧ (n < 4294967296 → beNat (be32 n) = n) :=
  ⟨beNat_be16, beNat_be32⟩

/-- ∀ byte strings below 32 bytes and ∀ continuations: the token reader returns exactly what `encRaw` wrote -/
theorem mp_fixraw_roundtrip (bs rest : Mp.Bytes) (h : bs.length < 32) : readTok (encRaw bs ++ rest) = some (Tok.raw bs, rest) :=
  readTok_encRaw_short bs rest h

example : readTok (encRaw [1, 2, 3] ++ [0x82]) = some (Tok.raw [1, 2, 3], [0x82]) := by decide

/-- ∀ stores, ∀ streams whose first entry decodes without a key (nil entry, `k` nil / empty / missing): `Unmarshal` fails
    and the store still holds exactly what it held (the first entry is decoded before anything is deleted) -/
theorem mp_keyless_first_keeps_store (old : Store) (bs rest : Mp.Bytes) (e : Entry)
    (h : decodeEntry bs = .ok e rest) (hk : e.key = []) : unmarshal old bs = .err old := unmarshal_keyless_first old bs rest e h hk

example : decodeEntry [0x81, 0xa1, 0x76, 0xa1, 7] = .ok { key := [], value := some [7] } [] := by decide
example : decodeEntry [0xc0, 1, 2] = .ok { key := [], value := none } [1, 2] := by decide

/-- the empty stream is a valid dump: it empties the store -/
theorem mp_empty_stream_empties (old : Store) : unmarshal old [] = .ok [] := rfl

/-- ∀ stores, ∀ streams that END INSIDE their first entry: `Unmarshal` succeeds with an EMPTY store (the decoder's error for
    a cut value is io.EOF, which `Unmarshal` takes for the clean end) -/
theorem mp_cut_first_entry_empties (old : Store) (bs : Mp.Bytes) (h : decodeEntry bs = .err) : unmarshal old bs = .ok [] :=
  unmarshal_cut_first old bs h

example : decodeEntry ((encEntry { key := [65], value := some [1, 2, 3] }).take 8) = .err := by decide

/-- what one would want: a stream cut inside an entry is refused … -/
def mp_cut_stream_refused : Prop :=
  ∀ (old : Store) (es : List Entry) (n : Nat), n < (marshal es).length → decodeEntry ((marshal es).take n) ≠ .eof →
    (∀ m, m ≤ es.length → (marshal es).take n ≠ marshal (es.take m)) → ∃ s, unmarshal old ((marshal es).take n) = .err s

/-- the witness: two entries -/
def cutWitness : List Entry := [{ key := [65], value := some [1] }, { key := [66], value := some [2, 3] }]

/-- … is false for the code as it is: two entries, cut one byte before the end, restore to the first entry alone, no error -/
theorem mp_cut_stream_refused_fails : ¬ mp_cut_stream_refused := by
  intro h
  have hne : ∀ m, m ≤ 2 → (marshal cutWitness).take 15 ≠ marshal (cutWitness.take m) := by
    intro m hm
    have : m = 0 ∨ m = 1 ∨ m = 2 := by omega
    rcases this with rfl | rfl | rfl <;> decide
  obtain ⟨s, hs⟩ := h [([90], [9])] cutWitness 15 (by decide) (by decide) (fun m hm => hne m hm)
  have e : unmarshal [([90], [9])] ((marshal cutWitness).take 15) = .ok [([65], [1])] := by decide
  rw [e] at hs
  cases hs

example : unmarshal [([90], [9])] ((marshal [{ key := [65], value := some [1] }, { key := [66], value := some [2, 3] }]).take 15)
    = .ok [([65], [1])] := by decide

/-- concrete round trips through the model (fixraw, raw16 and nil values; an unknown field with a nested value is skipped;
    `v` before `k`; a repeated `k`: the later one wins) -/
theorem mp_roundtrip_examples :
    unmarshal [([90], [9])] (marshal [{ key := [65], value := some [1] }, { key := [66], value := none }])
      = .ok (putAll [] [{ key := [65], value := some [1] }, { key := [66], value := none }]) ∧
    decodeEntry [0x83, 0xa1, 0x76, 0xa1, 7, 0xa1, 0x78, 0x92, 0x81, 1, 0xc0, 0xcd, 1, 2, 0xa1, 0x6b, 0xd9, 1, 65]
      = .ok { key := [65], value := some [7] } [] ∧
    decodeEntry [0x82, 0xa1, 0x6b, 0xa1, 65, 0xa1, 0x6b, 0xa1, 66] = .ok { key := [66], value := none } [] := by decide

/-- raw16: ∀ byte strings of 32 … 65535 bytes and ∀ continuations, the token reader returns what `encRaw` wrote
    (head 0xda, two length bytes read back by `mp_length_bytes_roundtrip`) -/
theorem mp_raw16_roundtrip (bs rest : Mp.Bytes) (h1 : 32 ≤ bs.length) (h2 : bs.length < 65536) :
    readTok (encRaw bs ++ rest) = some (Tok.raw bs, rest) := readTok_encRaw_16 bs rest (by omega) h2

example : 32 ≤ (List.replicate 40 (7 : UInt8)).length ∧ (List.replicate 40 (7 : UInt8)).length < 65536 := by decide

/-- raw32: ∀ byte strings of 2^16 … 2^32-1 bytes and ∀ continuations (head 0xdb, four length bytes) -/
theorem mp_raw32_roundtrip (bs rest : Mp.Bytes) (h1 : 65536 ≤ bs.length) (h2 : bs.length < 4294967296) :
    readTok (encRaw bs ++ rest) = some (Tok.raw bs, rest) := readTok_encRaw_32 bs rest (by omega) (by omega) h2

example : beNat (be32 70000) = 70000 := (mp_length_bytes_roundtrip 70000).2 (by decide)

/-- the three ranges together: every byte string below 2^32 bytes (the format's limit) -/
theorem mp_raw_roundtrip (bs rest : Mp.Bytes) (h : bs.length < 4294967296) :
    readTok (encRaw bs ++ rest) = some (Tok.raw bs, rest) := readTok_encRaw bs rest h

example : readTok (encRaw (List.replicate 40 7) ++ [0x82]) = some (Tok.raw (List.replicate 40 7), [0x82]) :=
  mp_raw_roundtrip _ _ (by decide)

/-- ∀ entries (key and value below 2^32 bytes, nil values included) and ∀ continuations: `dec.Decode` returns exactly the
    entry `enc.Encode` wrote and stops exactly at its end -/
theorem mp_entry_roundtrip (e : Entry) (rest : Mp.Bytes)
    (hk : e.key.length < 4294967296) (hv : (valBytes e.value).length < 4294967296) :
    decodeEntry (encEntry e ++ rest) = .ok e rest := decodeEntry_encEntry e rest hk hv

example : decodeEntry (encEntry { key := [65], value := none } ++ [0x82]) = .ok { key := [65], value := none } [0x82] :=
  mp_entry_roundtrip _ _ (by decide) (by decide)

/-- the general statement, PROVED (round 8 final; it was a named Prop before): every list of entries with non-empty keys and
    lengths below 2^32 restores to exactly `putAll [] es`, whatever the store held — `Unmarshal ∘ Marshal` over the envelope,
    by induction over the entry list through `loop`'s fuel. Also evaluated by the driver on every `mpenc` case
    (`mpenc-model-roundtrip`) and on the real code. -/
theorem mp_snapshot_roundtrip_full :
  ∀ (old : Store) (es : List Entry), (∀ e ∈ es, e.key ≠ [] ∧ e.key.length < 4294967296 ∧ (valBytes e.value).length < 4294967296) →
    unmarshal old (marshal es) = .ok (putAll [] es) := unmarshal_marshal

example : ∀ e ∈ cutWitness, e.key ≠ [] ∧ e.key.length < 4294967296 ∧ (valBytes e.value).length < 4294967296 := by decide

/-- hence a whole dump restores to the same store whatever was there before -/
theorem mp_restore_forgets_old (old old' : Store) (es : List Entry)
    (h : ∀ e ∈ es, e.key ≠ [] ∧ e.key.length < 4294967296 ∧ (valBytes e.value).length < 4294967296) :
    unmarshal old (marshal es) = unmarshal old' (marshal es) := by
  rw [mp_snapshot_roundtrip_full old es h, mp_snapshot_roundtrip_full old' es h]

/-- the statement without the non-empty-key hypothesis … -/
def mp_snapshot_roundtrip_anykey : Prop := ∀ (old : Store) (es : List Entry), unmarshal old (marshal es) = .ok (putAll [] es)

/-- … is false: an entry with an empty key is written but refused on the way back (the old content stays) -/
theorem mp_snapshot_roundtrip_anykey_fails : ¬ mp_snapshot_roundtrip_anykey := by
  intro h
  have := h [([90], [9])] [{ key := [], value := some [1] }]
  revert this; decide

end MpEnvelope

end CV.C08.Props
