import ClusterVerif.Spec.C08
import ClusterVerif.Gen.C08
/-! C08 — property theorems (first batch: the schema theorems over the generated table). -/
namespace CV.C08.Props
open CV.C08

/-- json and codec names are unique per struct (after promotion of embedded structs) -/
theorem tags_unique : tagsUnique Gen.table = true := by decide

end CV.C08.Props
