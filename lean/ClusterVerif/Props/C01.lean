import ClusterVerif.Spec.C01
import ClusterVerif.Lemmas.PinMap

namespace CV.C01
open CV

/-- the Spec's reading of "applying the sequence" is the model's -/
theorem specReplay_eq_replay (ops : List Op) : specReplay ops = replay ops := by
  have h : specApply = applyOp := by
    funext m o
    cases o <;> rfl
  unfold specReplay replay
  rw [h]

end CV.C01
