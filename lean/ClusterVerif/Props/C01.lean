import ClusterVerif.Lemmas.C01
import ClusterVerif.Lemmas.C01Commit
import ClusterVerif.Gen.C01Commit
import ClusterVerif.Model.C01Gate
import ClusterVerif.Lemmas.C01Shutdown
import ClusterVerif.Gen.C01Shutdown
import ClusterVerif.Spec.C01Folder
import ClusterVerif.Model.C01FolderTerm

/-!
# C01 — Raft: every replica's pinset equals the committed pin/unpin sequence

Property theorems only (helpers in `Lemmas/C01.lean`, `Lemmas/PinMap.lean`). `ops` is the committed
sequence (one for all peers: Raft, trusted), `evs` any sequence of events on any of `n` peers
(apply next entry, Snapshot(), Persist(), install the newest snapshot of another peer, shutdown,
kill, restart, offline read). `allDecodable ops`: no entry carries a pin with origins (see
`decode_total_fails`, known finding K01a). `atomicRun`: no entry is applied / no snapshot installed on
a peer between its `Snapshot()` and the matching `Persist()` (see `prefix_inv_fails`, known finding K09).

* `future_inv_partial` — every schedule: what a peer serves holds, under every CID, the value of a
  prefix at least as long as what its Raft has applied (a committed value, never one from the past).
* `caught_up_exact_partial` — every schedule: a peer that has applied the whole sequence serves exactly
  `replay ops`; `catch_up_reachable_partial`: from every reachable state every peer can get there
  (restart if down — from its newest snapshot or from nothing — and replay).
* `prefix_inv_partial` — schedules with point-in-time snapshots: a peer serves exactly
  `replay (ops.take applied)`. `prefix_inv_full` (all schedules) is false: `prefix_inv_fails`,
  `some_prefix_fails` (not even some other prefix).
* `ack_visible_durable_partial` — an acknowledged entry is in the sequence, visible on the committing
  peer, and after any later events every caught-up peer holds the whole sequence and every peer can
  catch up again.
* `tracker_handoff`, `no_other_calls` — an applied entry hands exactly its pin to the tracker, with the
  stored cid, type, depth, allocations (and mode when mode and depth agree); nothing else does.
* `handoff_order_full` is false (`handoff_order_fails`: the calls are dispatched asynchronously, K29);
  `handoff_order_partial` when the entries in flight together concern different cids.
* `decode_total` is false (`decode_total_fails`); `decode_total_partial` for pins without origins;
  `caught_up_exact_fails`: one such entry and a caught-up peer serves an error.
-/
namespace CV.C01
open CV

/-- the Spec's reading of "applying the sequence" is the model's -/
theorem specReplay_eq_replay (ops : List Op) : specReplay ops = replay ops := by
  have h : specApply = applyOp := by
    funext m o
    cases o <;> rfl
  unfold specReplay replay
  rw [h]

/-- one entry per CID, always -/
theorem store_wf_partial (ops : List Op) (n : Nat) (evs : List (Nat × Ev)) (hdec : allDecodable ops) :
    ∀ r ∈ run ops (initSys n) evs, r.store.wf = true := by
  intro r hr
  exact (run_inv (x := false) hdec evs (sinv_init false ops n) (by intro h; cases h) r hr).good.1

theorem future_inv_partial (ops : List Op) (n : Nat) (evs : List (Nat × Ev)) (hdec : allDecodable ops) :
    ∀ r ∈ run ops (initSys n) evs, r.up = true →
      ∃ m, r.view = .pins m ∧
        ∀ c, ∃ j, r.applied ≤ j ∧ j ≤ ops.length ∧ m.get c = (replay (ops.take j)).get c := by
  intro r hr hup
  have hinv := run_inv (x := false) hdec evs (sinv_init false ops n) (by intro h; cases h) r hr
  exact ⟨r.store, view_of_inv hinv hup, good_fut hinv.good⟩

theorem caught_up_exact_partial (ops : List Op) (n : Nat) (evs : List (Nat × Ev)) (hdec : allDecodable ops) :
    ∀ r ∈ run ops (initSys n) evs, r.up = true → r.applied = ops.length → r.view = .pins (replay ops) := by
  intro r hr hup hall
  have hinv := run_inv (x := false) hdec evs (sinv_init false ops n) (by intro h; cases h) r hr
  rw [view_of_inv hinv hup]
  have hg := hinv.good
  rw [hall] at hg
  rw [good_caught_up hg]

/-- by replaying the log, restarting from disk or after an installed snapshot: wherever the system is,
    peer `j` can be brought to hold exactly the whole sequence -/
theorem catch_up_reachable_partial (ops : List Op) (n : Nat) (evs : List (Nat × Ev)) (hdec : allDecodable ops)
    (j : Nat) (hj : j < n) :
    ∃ r', (run ops (run ops (initSys n) evs) (recover ops j))[j]? = some r' ∧ r'.up = true ∧
          r'.applied = ops.length ∧ r'.view = .pins (replay ops) := by
  have hs := run_inv (x := false) hdec evs (sinv_init false ops n) (by intro h; cases h)
  have hlen : j < (run ops (initSys n) evs).length := by
    rw [run_length]; simpa [initSys] using hj
  obtain ⟨r', h1, h2, h3⟩ := recover_reaches hdec hs hlen
  refine ⟨r', h1, h2, h3, ?_⟩
  have hmem : r' ∈ run ops (initSys n) (evs ++ recover ops j) := by
    rw [run_append]; exact List.mem_of_getElem? h1
  exact caught_up_exact_partial ops n _ hdec r' hmem h2 h3

theorem prefix_inv_partial (ops : List Op) (n : Nat) (evs : List (Nat × Ev)) (hdec : allDecodable ops)
    (hat : atomicRun ops (initSys n) evs = true) :
    ∀ r ∈ run ops (initSys n) evs, r.up = true → r.view = .pins (replay (ops.take r.applied)) := by
  intro r hr hup
  have hinv := run_inv (x := true) hdec evs (sinv_init true ops n) (fun _ => hat) r hr
  rw [view_of_inv hinv hup, ← good_exact hinv.good]

example : atomicRun [Op.pin (pinCid 1), .unpin (pinCid 1), .pin (pinCid 2)] (initSys 2)
    [(0, .apply), (0, .snapBegin), (0, .snapPersist), (0, .apply), (1, .install 0), (1, .apply), (0, .kill),
     (0, .restart), (0, .apply)] = true := by decide

/-- the full statement: every schedule, every history -/
def prefix_inv_full : Prop :=
  ∀ (ops : List Op) (n : Nat) (evs : List (Nat × Ev)),
    ∀ r ∈ run ops (initSys n) evs, r.up = true → r.view = .pins (replay (ops.take r.applied))

def k09Ops : List Op := [.pin (pinCid 2), .pin (pinCid 0), .unpin (pinCid 0), .pin (pinCid 1)]
/-- Snapshot() after one entry, three more applied, Persist(); kill, restart, one entry re-applied -/
def k09Evs : List (Nat × Ev) :=
  [(0, .apply), (0, .snapBegin), (0, .apply), (0, .apply), (0, .apply), (0, .snapPersist), (0, .kill),
   (0, .restart), (0, .apply)]

theorem prefix_inv_fails : ¬ prefix_inv_full := by
  intro h
  exact absurd (h k09Ops 1 k09Evs) (by decide)

/-- the weaker reading "some prefix", for histories without origins -/
def some_prefix_full : Prop :=
  ∀ (ops : List Op) (n : Nat) (evs : List (Nat × Ev)), allDecodable ops →
    ∀ r ∈ run ops (initSys n) evs, ∀ m, r.view = .pins m → ∃ j, j ≤ ops.length ∧ m = replay (ops.take j)

theorem some_prefix_fails : ¬ some_prefix_full := by
  intro h
  have hdec : allDecodable k09Ops := by
    intro o ho
    revert o
    decide
  have hmem : (run k09Ops (initSys 1) k09Evs)[0] ∈ run k09Ops (initSys 1) k09Evs := List.getElem_mem _
  obtain ⟨j, hj, heq⟩ := h k09Ops 1 k09Evs hdec _ hmem ((run k09Ops (initSys 1) k09Evs)[0]).store (by decide)
  have hall : ∀ j, j ≤ k09Ops.length → ((run k09Ops (initSys 1) k09Evs)[0]).store ≠ replay (k09Ops.take j) := by decide
  exact hall j hj heq

/-! ### decoding -/

def decode_total : Prop := ∀ o : Op, o.decodable = true

theorem decode_total_partial (o : Op) (h : o.thePin.opts.origins = []) (hc : o.thePin.cid ≠ undefCid)
    (hr : o.thePin.ref ≠ some undefCid) : o.decodable = true := by
  unfold Op.decodable
  rw [h]
  simp [hc, hr]

def originsPin : Pin := { pinCid 1 with opts := { (pinCid 1).opts with origins := [3] } }

theorem decode_total_fails : ¬ decode_total := by
  intro h
  exact absurd (h (.pin originsPin)) (by decide)

/-- nor does a pin whose reference is `cid.Undef` (what the first shard pin of a sharded add carried
    before 9d8b946), nor one without a cid -/
theorem decode_total_fails_undef :
    (Op.pin { pinCid 1 with ref := some undefCid }).decodable = false ∧ (Op.unpin (pinCid undefCid)).decodable = false := by
  decide

/-- `caught_up_exact` without the restriction to decodable histories -/
def caught_up_exact_full : Prop :=
  ∀ (ops : List Op) (n : Nat) (evs : List (Nat × Ev)),
    ∀ r ∈ run ops (initSys n) evs, r.up = true → r.applied = ops.length → r.view = .pins (replay ops)

theorem caught_up_exact_fails : ¬ caught_up_exact_full := by
  intro h
  exact absurd (h [.pin (pinCid 0), .pin originsPin] 1 [(0, .apply), (0, .apply)]) (by decide)

/-! ### acknowledged entries -/

/-- Peer `i` (state `r` after `evs₁`) applies its next entry and the FSM acknowledges it
    (that is when LogPin / LogUnpin return nil on the committing peer). -/
theorem ack_visible_durable_partial (ops : List Op) (n : Nat) (evs₁ : List (Nat × Ev)) (hdec : allDecodable ops)
    (i : Nat) (r : Replica) (hr : (run ops (initSys n) evs₁)[i]? = some r)
    (hack : (stepR ops r none .apply).2.res = .ok) :
    -- the acknowledged entry is entry number `r.applied` of the committed sequence
    r.applied < ops.length ∧
    -- visible on the committing peer: every key shows a prefix that contains the entry
    -- (exactly the prefix ending with it when snapshots are point-in-time)
    (∃ r', (step ops (run ops (initSys n) evs₁) i .apply).1[i]? = some r' ∧ r'.up = true ∧
        r'.applied = r.applied + 1 ∧
        ∃ m, r'.view = .pins m ∧
          (∀ c, ∃ j, r.applied < j ∧ j ≤ ops.length ∧ m.get c = (replay (ops.take j)).get c) ∧
          (atomicRun ops (initSys n) (evs₁ ++ [(i, .apply)]) = true → m = replay (ops.take (r.applied + 1)))) ∧
    -- durable: whatever happens next on any peer (kills, restarts, snapshots, installs) a caught-up
    -- peer holds the whole sequence, and every peer can catch up again
    (∀ evs₂ : List (Nat × Ev),
      (∀ r'' ∈ run ops (initSys n) (evs₁ ++ (i, .apply) :: evs₂),
          r''.up = true → r''.applied = ops.length → r''.view = .pins (replay ops)) ∧
      (∀ j, j < n → ∃ r'', (run ops (run ops (initSys n) (evs₁ ++ (i, .apply) :: evs₂)) (recover ops j))[j]? = some r'' ∧
          r''.up = true ∧ r''.applied = ops.length ∧ r''.view = .pins (replay ops))) := by
  obtain ⟨hup, op, hop, hstep⟩ := apply_ok hack
  have hlt : r.applied < ops.length := (List.getElem?_eq_some_iff.1 hop).1
  refine ⟨hlt, ?_, ?_⟩
  · have hat := step_at (ops := ops) hr .apply
    have hsrc : srcSnapOf (run ops (initSys n) evs₁) .apply = none := rfl
    rw [hsrc, hstep] at hat
    refine ⟨_, hat, hup, rfl, ?_⟩
    have hmem := List.mem_of_getElem? hat
    have heq : run ops (initSys n) (evs₁ ++ [(i, .apply)]) = (step ops (run ops (initSys n) evs₁) i .apply).1 := by
      rw [run_append]; rfl
    rw [← heq] at hmem
    have hinv := run_inv (x := false) hdec _ (sinv_init false ops n) (by intro h; cases h) _ hmem
    refine ⟨_, view_of_inv hinv hup, ?_, ?_⟩
    · intro c
      obtain ⟨j, h1, h2, h3⟩ := good_fut hinv.good c
      exact ⟨j, h1, h2, h3⟩
    · intro hatomic
      have hinv' := run_inv (x := true) hdec _ (sinv_init true ops n) (fun _ => hatomic) _ hmem
      exact good_exact hinv'.good
  · intro evs₂
    exact ⟨caught_up_exact_partial ops n _ hdec, fun j hj => catch_up_reachable_partial ops n _ hdec j hj⟩

/-! ### the tracker -/

theorem tracker_handoff (ops : List Op) (r : Replica) (src : Option Snap) (hw : r.store.wf = true)
    (hok : (stepR ops r src .apply).2.res = .ok) :
    ∃ op, ops[r.applied]? = some op ∧ (stepR ops r src .apply).2.calls = [callOf op] ∧
      (match op with
       | .pin p => callOf op = .track p ∧
           ∃ s, (stepR ops r src .apply).1.store.get p.cid = some s ∧
             p.cid = s.cid ∧ p.type = s.type ∧ p.depth = s.depth ∧ p.allocs = s.allocs ∧
             (modeAgrees p = true → p.opts.mode = s.opts.mode)
       | .unpin p => callOf op = .untrack p ∧ (stepR ops r src .apply).1.store.get p.cid = none) := by
  obtain ⟨_, op, hop, hstep⟩ := apply_ok hok
  refine ⟨op, hop, by rw [hstep], ?_⟩
  rw [hstep]
  cases op with
  | pin p =>
    refine ⟨rfl, p.stored, ?_, rfl, rfl, rfl, rfl, ?_⟩
    · show (PinMap.put p.stored r.store).get p.cid = some p.stored
      rw [get_put hw]
      simp [Pin.stored]
    · intro hm
      have : p.opts.mode = depthToMode p.depth := by simpa [modeAgrees] using hm
      rw [this]; rfl
  | unpin p =>
    refine ⟨rfl, ?_⟩
    show (PinMap.erase r.store p.cid).get p.cid = none
    rw [get_erase]
    simp

theorem no_other_calls (ops : List Op) (r : Replica) (src : Option Snap) (e : Ev) :
    (stepR ops r src e).2.calls ≠ [] → e = .apply ∧ (stepR ops r src e).2.res = .ok :=
  no_other_calls_core ops r src e

/-! ### order of arrival at the tracker -/

/-- the tracker is called synchronously: what arrives is what was dispatched, in that order -/
theorem sync_arrival_exact (dispatched arrived : List Call) (h : arrivalAllowed dispatched arrived = true) :
    arrived = dispatched := by
  unfold arrivalAllowed at h
  exact eq_of_beq h

/-- Full strength (2ba6875): for every committed sequence and EVERY schedule of events on any peers, over
    any stretch `evs₂` in which peer `i` is not restarted and has no snapshot installed (one incarnation
    of its tracker, fed by the log alone — `evs₁` is arbitrary and may end in either), the tracker of peer
    `i` receives exactly the Track / Untrack calls of the entries its Raft applied meanwhile, each once,
    in log order; whatever order of arrival the dispatch allows is that one. -/
theorem handoff_order (ops : List Op) (n : Nat) (evs₁ evs₂ : List (Nat × Ev)) (i : Nat) (hdec : allDecodable ops)
    (hq : noReset i evs₂ = true) (r : Replica) (hr : (run ops (initSys n) evs₁)[i]? = some r) :
    ∃ r', (run ops (initSys n) (evs₁ ++ evs₂))[i]? = some r' ∧ r.applied ≤ r'.applied ∧
      callsAt ops i (run ops (initSys n) evs₁) evs₂ = sentFor ops r.applied (r'.applied - r.applied) ∧
      (∀ arrived, arrivalAllowed (callsAt ops i (run ops (initSys n) evs₁) evs₂) arrived = true →
        arrived = sentFor ops r.applied (r'.applied - r.applied) ∧
        ∀ c, perCid c arrived = perCid c (sentFor ops r.applied (r'.applied - r.applied))) := by
  have hs := run_inv (x := false) hdec evs₁ (sinv_init false ops n) (by intro h; cases h)
  obtain ⟨k, r', h1, h2, h3⟩ := callsAt_spec hdec i evs₂ hs hq hr
  have hk : r'.applied - r.applied = k := by omega
  refine ⟨r', by rw [run_append]; exact h1, by omega, by rw [hk]; exact h3, ?_⟩
  intro arrived harr
  have := sync_arrival_exact _ _ harr
  rw [hk, this, h3]
  exact ⟨rfl, fun _ => rfl⟩

example : callsAt [Op.pin (pinCid 1), .unpin (pinCid 1), .pin (pinCid 2)] 0 (initSys 2)
    [(0, .apply), (1, .apply), (0, .snapBegin), (0, .apply), (0, .snapPersist), (1, .apply), (0, .apply), (0, .kill)] =
    [.track (pinCid 1), .untrack (pinCid 1), .track (pinCid 2)] := by decide

/-- an observation of entries applied back to back whose calls arrived as the model says satisfies the
    `tracker` and `tracker_order` clauses of the Spec -/
theorem burst_obs_holds (ops : List Op) (i a k : Nat) (res : Res) (v : View) :
    let o : Obs := { rep := i, ev := .restart, res := res, applied := a + k, view := v,
                     calls := sentFor ops a k, burst := true, first := a }
    trackerOk ops o = true ∧ trackerOrderOk ops o = true := by
  have hsent : sentIn ops { rep := i, ev := .restart, res := res, applied := a + k, view := v,
                            calls := sentFor ops a k, burst := true, first := a } = sentFor ops a k := by
    unfold sentIn sentFor
    simp
  refine ⟨?_, ?_⟩
  · unfold trackerOk
    simp only [if_true, hsent]
    exact List.isPerm_iff.2 (List.Perm.refl _)
  · unfold trackerOrderOk
    simp only [Bool.not_true, Bool.false_or, hsent]
    simp

/-- the refuted alternative — the dispatch before 2ba6875 (`GoContext`, not awaited): whatever order the
    asynchronous calls arrive in, every cid sees its instructions in commit order -/
def async_handoff_order_full : Prop :=
  ∀ (dispatched arrived : List Call), arrivalAllowedAsync dispatched arrived = true →
    ∀ c, perCid c arrived = perCid c dispatched

/-- false: pin c then unpin c applied back to back could arrive as Untrack, Track (was K29; the reverse
    patch of 2ba6875 is reported as a violation with exactly this history) -/
theorem async_handoff_order_fails : ¬ async_handoff_order_full := by
  intro h
  exact absurd (h [.track (pinCid 1), .untrack (pinCid 1)] [.untrack (pinCid 1), .track (pinCid 1)] (by decide) 1)
    (by decide)

/-- it held only when no two entries in flight together concerned the same cid -/
theorem async_handoff_order_partial (dispatched arrived : List Call) (h : arrivalAllowedAsync dispatched arrived = true)
    (hn : (dispatched.map Call.cid).Nodup) : ∀ c, perCid c arrived = perCid c dispatched := by
  intro c
  unfold arrivalAllowedAsync at h
  exact perCid_of_perm (List.isPerm_iff.1 h) hn c

/-! ### the Spec clauses on the model's own observations -/

/-- For every history without origins and every schedule with point-in-time snapshots, the observations
    the model predicts (`modelTrace`: after each event, what the peer serves, how far its Raft is, the
    tracker calls) satisfy every clause of the property as the Spec states it. The driver compares the
    implementation's observations with exactly these. -/
theorem model_holds_partial (ops : List Op) (n : Nat) (evs : List (Nat × Ev)) (hdec : allDecodable ops)
    (hat : atomicRun ops (initSys n) evs = true) (hidx : ∀ ie ∈ evs, ie.1 < n) :
    holds ops (modelTrace ops (initSys n) evs) = true := by
  have hlen : (initSys n).length = n := by simp [initSys]
  have h := modelTrace_clauses hdec evs (sinv_init true ops n) hat (by rw [hlen]; exact hidx)
  unfold holds clauses
  simp only [List.all_cons, List.all_nil, Bool.and_true, Bool.and_eq_true, List.all_eq_true]
  exact ⟨fun o ho => (h o ho).1, fun o ho => (h o ho).2.1, fun o ho => (h o ho).2.2.1,
         fun o ho => (h o ho).2.2.2.1, fun o ho => (h o ho).2.2.2.2.1, fun o ho => (h o ho).2.2.2.2.2.2,
         fun o ho => (h o ho).2.2.2.2.2.1⟩

example : holds [Op.pin (pinCid 1), .unpin (pinCid 1), .pin (pinCid 2)]
    (modelTrace [Op.pin (pinCid 1), .unpin (pinCid 1), .pin (pinCid 2)] (initSys 2)
      [(0, .apply), (0, .snapBegin), (0, .snapPersist), (0, .apply), (1, .install 0), (1, .apply), (0, .shutdown),
       (0, .offline), (0, .restart), (0, .apply)]) = true := by decide

/-- and the K09 schedule really breaks the clauses (the driver reports it as a known finding) -/
example : holds k09Ops (modelTrace k09Ops (initSys 1) k09Evs) = false := by decide

end CV.C01

/-! ### the commit path: acknowledged ⇒ committed

`Commit.commit rs os retries oracle` models `commit()` (LogPin / LogUnpin) and, with the same skeleton,
`AddPeer` / `RmPeer`, over an oracle of attempt outcomes; `Gen.*Shape` are the statement skeletons the
translator `harness/extract_c01` read off today's `consensus/raft/consensus.go`. -/
namespace CV.C01.Commit

/-- the source has the skeleton the model was written for (re-checked against every tree) -/
theorem extracted_shapes :
    Gen.redirectShape = expectedRedir ∧ Gen.commitShape = expectedOuter ∧
    Gen.addPeerShape = expectedOuter ∧ Gen.rmPeerShape = expectedOuter ∧
    Gen.facts.all (·.2) = true := by decide

/-- the decodability gate of `commit` stands where the model has it: one unconditional
    `if err := checkDecodable(op); err != nil { return <error> }` on the operation handed to `CommitOp`,
    before the retry loop; LogPin and LogUnpin both go through it and return its error -/
theorem extracted_gate : Gen.gateShape = expectedGate := by decide

/-- LogPin / LogUnpin return nil only if some attempt really committed the operation: the last attempt
    it went through was a successful local apply or a forward the leader executed, and no earlier one was
    (nothing is committed twice by retrying). -/
theorem ack_implies_some_attempt_committed (retries : Nat) (oracle : List Outcome)
    (h : (commit Gen.redirectShape Gen.commitShape retries oracle).err = false) :
    ∃ p s, (commit Gen.redirectShape Gen.commitShape retries oracle).consumed = p ++ [s] ∧
      s.success = true ∧ ∀ x ∈ p, x.success = false := by
  rw [extracted_shapes.1, extracted_shapes.2.1] at h ⊢
  rcases (commit_post retries oracle).2.2.1 h with ⟨p, s, hp, hs, hn⟩ | ⟨_, _, h0⟩
  · exact ⟨p, s, hp, hs, hn⟩
  · cases h0

/-- the same for `AddPeer` and `RmPeer`, which go through `redirectToLeader` with the same skeleton -/
theorem ack_implies_some_attempt_committed_peers (retries : Nat) (oracle : List Outcome) :
    ((commit Gen.redirectShape Gen.addPeerShape retries oracle).err = false →
      ∃ x ∈ (commit Gen.redirectShape Gen.addPeerShape retries oracle).consumed, x.success = true) ∧
    ((commit Gen.redirectShape Gen.rmPeerShape retries oracle).err = false →
      ∃ x ∈ (commit Gen.redirectShape Gen.rmPeerShape retries oracle).consumed, x.success = true) := by
  rw [extracted_shapes.1, extracted_shapes.2.2.1, extracted_shapes.2.2.2.1]
  have key : (commit expectedRedir expectedOuter retries oracle).err = false →
      ∃ x ∈ (commit expectedRedir expectedOuter retries oracle).consumed, x.success = true := by
    intro h
    rcases (commit_post retries oracle).2.2.1 h with ⟨p, s, hp, hs, _⟩ | ⟨_, _, h0⟩
    · exact ⟨s, by rw [hp]; simp, hs⟩
    · cases h0
  exact ⟨key, key⟩

/-- when no attempt succeeds the caller is told so — and conversely an error return means that none of
    the attempts this call went through committed anything -/
theorem all_fail_reports_error (retries : Nat) (oracle : List Outcome) :
    (commit Gen.redirectShape Gen.commitShape retries oracle).err = true ↔
    ∀ x ∈ (commit Gen.redirectShape Gen.commitShape retries oracle).consumed, x.success = false := by
  rw [extracted_shapes.1, extracted_shapes.2.1]
  constructor
  · exact (commit_post retries oracle).2.2.2
  · intro hn
    cases herr : (commit expectedRedir expectedOuter retries oracle).err with
    | true => rfl
    | false =>
      rcases (commit_post retries oracle).2.2.1 herr with ⟨p, s, hp, hs, _⟩ | ⟨_, _, h0⟩
      · have := hn s (by rw [hp]; simp)
        rw [hs] at this; cases this
      · cases h0

/-- retry bound: the attempts are taken from the oracle in order, at most (CommitRetries+1)² of them -/
theorem retry_bound (retries : Nat) (oracle : List Outcome) :
    (commit Gen.redirectShape Gen.commitShape retries oracle).consumed <+: oracle ∧
    (commit Gen.redirectShape Gen.commitShape retries oracle).consumed.length ≤ (retries + 1) * (retries + 1) := by
  rw [extracted_shapes.1, extracted_shapes.2.1]
  exact ⟨(commit_post retries oracle).1, (commit_post retries oracle).2.1⟩

/-- every forward fails, CommitRetries+1 times: exactly that many attempts, and an error -/
example : commit Gen.redirectShape Gen.commitShape 1 [.fwdErr, .fwdErr, .fwdOk] =
    { err := true, consumed := [.fwdErr, .fwdErr] } := by decide
/-- the last retry gets through -/
example : commit Gen.redirectShape Gen.commitShape 1 [.fwdErr, .fwdOk] =
    { err := false, consumed := [.fwdErr, .fwdOk] } := by decide
/-- leadership comes and goes -/
example : commit Gen.redirectShape Gen.commitShape 1 [.fwdErr, .selfApplyErr, .fwdErr, .selfApplyOk] =
    { err := false, consumed := [.fwdErr, .selfApplyErr, .fwdErr, .selfApplyOk] } := by decide

/-! #### the decodability gate (3d753d4) -/

/-- an operation that cannot be read back from its msgpack form (origins, undefined cid or reference) is
    answered with an error before anything is attempted: no leader is asked, nothing is forwarded,
    nothing reaches the log -/
theorem undecodable_refused_no_attempt (retries : Nat) (oracle : List Outcome) :
    commitOp Gen.gateShape Gen.redirectShape Gen.commitShape retries false oracle =
      { err := true, consumed := [] } := by
  rw [extracted_gate]
  rfl

/-- for an operation that can be decoded the gate is invisible: every theorem about `commit` above is a
    statement about LogPin / LogUnpin of such an operation -/
theorem gate_transparent (retries : Nat) (oracle : List Outcome) :
    commitOp Gen.gateShape Gen.redirectShape Gen.commitShape retries true oracle =
      commit Gen.redirectShape Gen.commitShape retries oracle := by
  rw [extracted_gate]
  rfl

/-- LogPin / LogUnpin return nil only for an operation every replica can decode, and only if the last
    attempt the call went through really committed it (and no earlier one did) -/
theorem ack_implies_decodable (retries : Nat) (decodable : Bool) (oracle : List Outcome)
    (h : (commitOp Gen.gateShape Gen.redirectShape Gen.commitShape retries decodable oracle).err = false) :
    decodable = true ∧
    ∃ p s, (commitOp Gen.gateShape Gen.redirectShape Gen.commitShape retries decodable oracle).consumed = p ++ [s] ∧
      s.success = true ∧ ∀ x ∈ p, x.success = false := by
  cases decodable with
  | false => rw [undecodable_refused_no_attempt] at h; cases h
  | true =>
    rw [gate_transparent] at h ⊢
    exact ⟨rfl, ack_implies_some_attempt_committed retries oracle h⟩

/-- an operation reaches the log (some attempt committed it) only if it can be decoded, and exactly when
    the call is acknowledged -/
theorem committed_iff_acknowledged (retries : Nat) (decodable : Bool) (oracle : List Outcome) :
    ((commitOp Gen.gateShape Gen.redirectShape Gen.commitShape retries decodable oracle).consumed.any (·.success) = true ↔
      (commitOp Gen.gateShape Gen.redirectShape Gen.commitShape retries decodable oracle).err = false) := by
  cases decodable with
  | false => rw [undecodable_refused_no_attempt]; simp
  | true =>
    rw [gate_transparent]
    constructor
    · intro hany
      cases herr : (commit Gen.redirectShape Gen.commitShape retries oracle).err with
      | false => rfl
      | true =>
        obtain ⟨x, hx, hs⟩ := List.any_eq_true.1 hany
        have := (all_fail_reports_error retries oracle).1 herr x hx
        rw [this] at hs; cases hs
    · intro herr
      obtain ⟨p, s, hp, hs, _⟩ := ack_implies_some_attempt_committed retries oracle herr
      rw [hp]
      simp [hs]

example : commitOp Gen.gateShape Gen.redirectShape Gen.commitShape 1 false [.fwdOk] = { err := true, consumed := [] } := by decide
example : commitOp Gen.gateShape Gen.redirectShape Gen.commitShape 1 true [.fwdErr, .fwdOk] =
    { err := false, consumed := [.fwdErr, .fwdOk] } := by decide

/-- why the gate matters (the code before 3d753d4): without it an operation no replica can decode is
    committed and acknowledged -/
theorem ungated_acks_undecodable :
    ∃ retries oracle, (commitOp { expectedGate with pos := .absent } expectedRedir expectedOuter retries false oracle).err = false ∧
      (commitOp { expectedGate with pos := .absent } expectedRedir expectedOuter retries false oracle).consumed.any (·.success) = true :=
  ⟨1, [.selfApplyOk], by decide⟩

/-- … and so it is when the result of the check is not returned -/
theorem ignored_gate_acks_undecodable :
    ∃ retries oracle, (commitOp { expectedGate with errReturned := false } expectedRedir expectedOuter retries false oracle).err = false ∧
      (commitOp { expectedGate with errReturned := false } expectedRedir expectedOuter retries false oracle).consumed.any (·.success) = true :=
  ⟨1, [.selfApplyOk], by decide⟩

/-- why its place matters: checked after the loop, the operation is answered with an error and yet sits
    in the log of every peer -/
theorem late_gate_commits_what_it_refuses :
    ∃ retries oracle, (commitOp { expectedGate with pos := .afterLoop } expectedRedir expectedOuter retries false oracle).err = true ∧
      (commitOp { expectedGate with pos := .afterLoop } expectedRedir expectedOuter retries false oracle).consumed.any (·.success) = true :=
  ⟨1, [.selfApplyOk], by decide⟩

/-- why the assignment matters: were the RPC result declared (`:=`) instead of assigned, a call whose
    forwards all fail would be acknowledged although nothing was committed -/
theorem shadowed_forward_acks_uncommitted :
    ∃ retries oracle,
      (commit { expectedRedir with fwdKept := false } expectedOuter retries oracle).err = false ∧
      ∀ x ∈ (commit { expectedRedir with fwdKept := false } expectedOuter retries oracle).consumed, x.success = false :=
  ⟨1, [.fwdErr, .fwdErr], by decide⟩

end CV.C01.Commit

/-! ### acknowledged histories: what reaches the log has passed the gate

`logAfter` (`Model/C01Gate.lean`) is the Raft log a sequence of LogPin / LogUnpin calls leaves behind, each
call with its own oracle of attempt outcomes. With the gate of 3d753d4 every entry of it can be decoded, so
the hypothesis `allDecodable` of the `_partial` theorems above is discharged for every history that comes
through the commit path: the statements below have no hypothesis left. The FSM's behaviour on an entry it
cannot decode (`caught_up_exact_fails`, the `poisoned` branch of `stepR`) remains a fact about raw log
entries; it is not reachable through `commit` (`gated_never_inconsistent`). -/
namespace CV.C01
open CV CV.C01.Commit

/-- the log a history of submissions leaves behind, with the skeleton extracted from today's source -/
abbrev gatedLog (retries : Nat) (subs : List Submission) : List Op :=
  logAfter Gen.gateShape Gen.redirectShape Gen.commitShape retries subs

/-- every entry of the log was submitted by a call that was acknowledged, and can be decoded -/
theorem logged_was_acknowledged (retries : Nat) (subs : List Submission) :
    ∀ o ∈ gatedLog retries subs, ∃ s ∈ subs, s.op = o ∧
      (answerOf Gen.gateShape Gen.redirectShape Gen.commitShape retries s).err = false ∧ o.decodable = true := by
  induction subs with
  | nil => intro o ho; cases ho
  | cons s rest ih =>
    intro o ho
    unfold gatedLog logAfter at ho
    rcases List.mem_append.1 ho with h | h
    · by_cases hc : (answerOf Gen.gateShape Gen.redirectShape Gen.commitShape retries s).committed = true
      · rw [if_pos hc] at h
        have ho' : o = s.op := by simpa using h
        have herr := (committed_iff_acknowledged retries s.op.decodable s.oracle).1 hc
        exact ⟨s, List.mem_cons_self, ho'.symm, herr, by rw [ho']; exact (ack_implies_decodable retries _ _ herr).1⟩
      · rw [if_neg hc] at h; cases h
    · obtain ⟨s', hs', h1, h2, h3⟩ := ih o h
      exact ⟨s', List.mem_cons_of_mem _ hs', h1, h2, h3⟩

/-- the committed sequence contains no entry a replica cannot decode -/
theorem gated_log_decodable (retries : Nat) (subs : List Submission) : allDecodable (gatedLog retries subs) := by
  intro o ho
  obtain ⟨_, _, _, _, h⟩ := logged_was_acknowledged retries subs o ho
  exact h

/-- an acknowledged call's operation is in the log (and an operation the gate refuses never is) -/
theorem acknowledged_is_logged (retries : Nat) (subs : List Submission) (s : Submission) (hs : s ∈ subs)
    (hack : (answerOf Gen.gateShape Gen.redirectShape Gen.commitShape retries s).err = false) :
    s.op ∈ gatedLog retries subs ∧ s.op.decodable = true := by
  refine ⟨?_, (ack_implies_decodable retries _ _ hack).1⟩
  induction subs with
  | nil => cases hs
  | cons t rest ih =>
    unfold gatedLog logAfter
    rcases List.mem_cons.1 hs with rfl | h
    · have hc := (committed_iff_acknowledged retries s.op.decodable s.oracle).2 hack
      have hc' : (answerOf Gen.gateShape Gen.redirectShape Gen.commitShape retries s).committed = true := hc
      rw [if_pos hc']
      simp
    · exact List.mem_append_right _ (ih h)

theorem refused_never_logged (retries : Nat) (subs : List Submission) (o : Op) (hu : o.decodable = false) :
    o ∉ gatedLog retries subs := by
  intro ho
  have := gated_log_decodable retries subs o ho
  rw [hu] at this; cases this

/-- the FSM-level histories of the harness: the entries the gate lets through -/
theorem committedOf_decodable (submitted : List Op) : allDecodable (committedOf submitted) := by
  intro o ho
  unfold committedOf at ho
  exact (List.mem_filter.1 ho).2

/-- Histories that come through `commit` never poison an FSM: on every peer, after every schedule, the
    FSM is consistent and `LogOp.Cid` holds no half-decoded pin. The branches of `stepR` behind
    `inconsistent` / `poisoned` (entry refused by the FSM, crash of the next pin entry, unpin entry on a
    poisoned FSM) are unreachable for them. -/
theorem gated_never_inconsistent (retries : Nat) (subs : List Submission) (n : Nat) (evs : List (Nat × Ev)) :
    ∀ r ∈ run (gatedLog retries subs) (initSys n) evs, r.inconsistent = false ∧ r.poisoned = false := by
  intro r hr
  have hinv := run_inv (x := false) (gated_log_decodable retries subs) evs (sinv_init false _ n) (by intro h; cases h) r hr
  exact ⟨hinv.incons, hinv.poison⟩

/-- … and every entry handed to a peer's FSM is applied by it: an acknowledged operation is applied on
    every replica whose Raft delivers it (`decode_total` holds on the committed sequence) -/
theorem gated_apply_never_refused (retries : Nat) (subs : List Submission) (n : Nat) (evs : List (Nat × Ev)) :
    ∀ r ∈ run (gatedLog retries subs) (initSys n) evs, ∀ src,
      ((stepR (gatedLog retries subs) r src .apply).2.res = .ok ∨ (stepR (gatedLog retries subs) r src .apply).2.res = .noop) ∧
      (r.up = true → r.applied < (gatedLog retries subs).length → (stepR (gatedLog retries subs) r src .apply).2.res = .ok) := by
  intro r hr src
  have hdec := gated_log_decodable retries subs
  have hinv := run_inv (x := false) hdec evs (sinv_init false _ n) (by intro h; cases h) r hr
  refine ⟨apply_res hdec hinv.poison src, ?_⟩
  intro hup hlt
  unfold stepR
  dsimp only
  simp only [hup, Bool.not_true, Bool.false_eq_true, if_false]
  have hop : (gatedLog retries subs)[r.applied]? = some (gatedLog retries subs)[r.applied] := List.getElem?_eq_getElem hlt
  rw [hop]
  have hd := hdec _ (List.getElem_mem hlt)
  simp [hd, hinv.poison]

/-- `future_inv` at full strength for histories that come through the commit path -/
theorem future_inv (retries : Nat) (subs : List Submission) (n : Nat) (evs : List (Nat × Ev)) :
    ∀ r ∈ run (gatedLog retries subs) (initSys n) evs, r.up = true →
      ∃ m, r.view = .pins m ∧
        ∀ c, ∃ j, r.applied ≤ j ∧ j ≤ (gatedLog retries subs).length ∧
          m.get c = (replay ((gatedLog retries subs).take j)).get c :=
  future_inv_partial _ n evs (gated_log_decodable retries subs)

/-- `caught_up_exact` at full strength: every submission history, every schedule -/
theorem caught_up_exact (retries : Nat) (subs : List Submission) (n : Nat) (evs : List (Nat × Ev)) :
    ∀ r ∈ run (gatedLog retries subs) (initSys n) evs, r.up = true →
      r.applied = (gatedLog retries subs).length → r.view = .pins (replay (gatedLog retries subs)) :=
  caught_up_exact_partial _ n evs (gated_log_decodable retries subs)

/-- An acknowledged operation is part of the committed sequence, that sequence can be applied by every
    replica, and whatever happens (any schedule of applies, snapshots, installs, shutdowns, kills, restarts
    on any peers) every peer can be brought to hold exactly the result of the whole sequence. -/
theorem ack_applied_everywhere (retries : Nat) (subs : List Submission) (s : Submission) (hs : s ∈ subs)
    (hack : (answerOf Gen.gateShape Gen.redirectShape Gen.commitShape retries s).err = false)
    (n : Nat) (evs : List (Nat × Ev)) (j : Nat) (hj : j < n) :
    s.op ∈ gatedLog retries subs ∧
    ∃ r', (run (gatedLog retries subs) (run (gatedLog retries subs) (initSys n) evs) (recover (gatedLog retries subs) j))[j]? = some r' ∧
      r'.up = true ∧ r'.applied = (gatedLog retries subs).length ∧ r'.view = .pins (replay (gatedLog retries subs)) :=
  ⟨(acknowledged_is_logged retries subs s hs hack).1,
   catch_up_reachable_partial _ n evs (gated_log_decodable retries subs) j hj⟩

/-- the tracker hand-off order for histories that come through the commit path -/
theorem handoff_order_gated (retries : Nat) (subs : List Submission) (n : Nat) (evs₁ evs₂ : List (Nat × Ev)) (i : Nat)
    (hq : noReset i evs₂ = true) (r : Replica) (hr : (run (gatedLog retries subs) (initSys n) evs₁)[i]? = some r) :
    ∃ r', (run (gatedLog retries subs) (initSys n) (evs₁ ++ evs₂))[i]? = some r' ∧ r.applied ≤ r'.applied ∧
      callsAt (gatedLog retries subs) i (run (gatedLog retries subs) (initSys n) evs₁) evs₂ =
        sentFor (gatedLog retries subs) r.applied (r'.applied - r.applied) := by
  obtain ⟨r', h1, h2, h3, _⟩ := handoff_order _ n evs₁ evs₂ i (gated_log_decodable retries subs) hq r hr
  exact ⟨r', h1, h2, h3⟩

/-! #### leadership changes

Who leads is not part of the replica model: the committed sequence is one list whichever leader appended
which entry (Raft's log matching and leader completeness: trusted), and a peer that leads is a peer like
any other for `step`. A leader that is shut down between commits is the event `shutdown` on that peer, a
leader that dies is `kill`; the new leader "continuing" is later entries of the same sequence being applied
(`apply`) on the survivors; the old leader coming back is `restart` (its newest snapshot, then the log)
possibly with `install` of the new leader's snapshot. All theorems above quantify over EVERY such schedule
(`future_inv`, `caught_up_exact`, `ack_applied_everywhere`, `ack_visible_durable_partial` with arbitrary
`evs₂`, `handoff_order` with arbitrary `evs₁`), so they cover these histories; no new event kind is needed.
The thorough `net` suite drives them on three real nodes. One such schedule, concretely: -/

/-- peer 0 leads and applies two entries, is shut down; peer 1 leads, applies them and two more, snapshots;
    peer 0 comes back (own snapshot), gets peer 1's snapshot installed, applies the rest; peer 2 was behind
    all along and catches up from the log: every observation satisfies every clause -/
example : holds (gatedLog 1 [⟨.pin (pinCid 1), [.selfApplyOk]⟩, ⟨.pin (pinCid 2), [.selfApplyOk]⟩,
                              ⟨.pin originsPin, [.selfApplyOk]⟩,
                              ⟨.unpin (pinCid 1), [.fwdErr, .fwdOk]⟩, ⟨.pin (pinCid 3), [.selfApplyOk]⟩,
                              ⟨.unpin (pinCid 2), [.fwdOk]⟩])
    (modelTrace (gatedLog 1 [⟨.pin (pinCid 1), [.selfApplyOk]⟩, ⟨.pin (pinCid 2), [.selfApplyOk]⟩,
                              ⟨.pin originsPin, [.selfApplyOk]⟩,
                              ⟨.unpin (pinCid 1), [.fwdErr, .fwdOk]⟩, ⟨.pin (pinCid 3), [.selfApplyOk]⟩,
                              ⟨.unpin (pinCid 2), [.fwdOk]⟩]) (initSys 3)
      [(0, .apply), (0, .apply), (1, .apply), (0, .shutdown), (0, .offline), (1, .apply), (1, .apply), (1, .apply),
       (1, .snapBegin), (1, .snapPersist), (1, .apply), (0, .restart), (0, .install 1), (0, .apply),
       (2, .apply), (2, .apply), (2, .apply), (2, .apply), (2, .apply), (1, .kill), (1, .restart), (1, .apply)]) = true := by
  decide

/-- a history with a refused operation in the middle: it is not in the log, its neighbours are -/
example : gatedLog 1 [⟨.pin (pinCid 1), [.selfApplyOk]⟩, ⟨.pin originsPin, [.selfApplyOk]⟩,
                      ⟨.unpin (pinCid undefCid), [.fwdOk]⟩, ⟨.unpin (pinCid 1), [.fwdErr, .fwdOk]⟩,
                      ⟨.pin (pinCid 2), [.fwdErr, .fwdErr]⟩] =
    [.pin (pinCid 1), .unpin (pinCid 1)] := by decide

/-! ## Round 8 — the shutdown snapshot and the offline read (`consensus/raft/raft.go`)

`raft.OfflineState` reads the newest snapshot of the data folder and nothing else (no log replay), so what a peer
applied reaches a reader of its disk only through the snapshot `raftWrapper.Shutdown` takes. The code is
`Shut.takesSnapshot` / `Shut.shutEv` over the shape regenerated from raft.go (`Shut.Gen.shape`) and the context
`Shutdown` is called with. -/

/-- the translator's reading of raft.go is the shape the statements below are about -/
theorem extracted_shutdown : Shut.Gen.shape = Shut.expected := by decide

/-- raft.go as it is: `Shutdown(ctx)` asks Raft for a snapshot whatever context it is called with — live,
    deadline-bound, expired, already cancelled — and whether or not Raft had caught up: the replica event
    is the model's `shutdown` for every input -/
theorem shutdown_snapshots_every_ctx (ctx : Shut.Ctx) (cu : Bool) :
    Shut.takesSnapshot Shut.Gen.shape ctx cu = true ∧ Shut.shutEv Shut.Gen.shape ctx cu = .shutdown := by
  rw [extracted_shutdown]
  cases ctx <;> cases cu <;> decide

/-- every replica of every reachable state: no stored or pending snapshot is labelled beyond what its Raft
    applied, and a replica whose FSM was never initialized has none -/
theorem reachable_snapBound (ops : List Op) (n : Nat) (evs : List (Nat × Ev)) :
    ∀ r ∈ run ops (initSys n) evs, Shut.snapBound r :=
  Shut.run_sbound ops evs _ (Shut.sbound_init n)

/-- EVERY committed sequence, EVERY schedule, every peer, every context: after `Shutdown` the peer is down and a
    read of its data folder (`OfflineState`) shows exactly what the peer served when it was shut down (the
    shutdown snapshot is the newest one, whatever snapshots — late-persisted, installed — the folder holds) -/
theorem shutdown_offline_exact (ops : List Op) (n : Nat) (evs : List (Nat × Ev)) (ctx : Shut.Ctx) (cu : Bool) :
    ∀ r ∈ run ops (initSys n) evs, ∀ m, r.view = .pins m →
      (stepR ops r none (Shut.shutEv Shut.Gen.shape ctx cu)).1.up = false ∧
      (stepR ops r none (Shut.shutEv Shut.Gen.shape ctx cu)).1.offlineView = m ∧
      (r.canSnapshot = true → (stepR ops r none (Shut.shutEv Shut.Gen.shape ctx cu)).1.offlineIdx = r.applied) := by
  intro r hr m hv
  obtain ⟨hb1, _, hb3⟩ := reachable_snapBound ops n evs r hr
  rw [(shutdown_snapshots_every_ctx ctx cu).2]
  unfold Replica.view at hv
  by_cases hu : r.up = true
  · simp only [hu, Bool.not_true, Bool.false_eq_true, if_false] at hv
    by_cases hi : r.initialized = true
    · simp only [hi, Bool.not_true, Bool.false_eq_true, if_false] at hv
      by_cases hinc : r.inconsistent = true
      · simp only [hinc, if_true] at hv
        cases hv
      · have hinc' : r.inconsistent = false := by simpa using hinc
        simp only [hinc', Bool.false_eq_true, if_false] at hv
        have hm : r.store = m := by injection hv
        have hc : r.canSnapshot = true := by simp [Replica.canSnapshot, hi, hinc']
        unfold stepR
        dsimp only
        simp only [hu, hc, Bool.not_true, Bool.false_eq_true, if_false, if_true]
        refine ⟨rfl, ?_, fun _ => ?_⟩
        · unfold Replica.offlineView down
          dsimp only
          rw [Shut.newest_cons_of_bound _ _ _ hb1]
          exact hm
        · unfold Replica.offlineIdx down
          dsimp only
          rw [Shut.newest_cons_of_bound _ _ _ hb1]
          rfl
    · have hi' : r.initialized = false := by simpa using hi
      simp only [hi', Bool.not_false, if_true] at hv
      have hm : m = [] := by injection hv with h; exact h.symm
      have hs : r.snaps = [] := (hb3 hi').1
      have hc : r.canSnapshot = false := by simp [Replica.canSnapshot, hi']
      unfold stepR
      dsimp only
      simp only [hu, hc, Bool.not_true, Bool.false_eq_true, if_false]
      refine ⟨rfl, ?_, fun h => by cases h⟩
      unfold Replica.offlineView down
      dsimp only
      rw [hs, hm]
      rfl
  · have hu' : r.up = false := by simpa using hu
    simp only [hu', Bool.not_false, if_true] at hv
    cases hv

/-- for every history of LogPin/LogUnpin calls and every schedule: a caught-up peer that is shut down — with ANY
    context — leaves a data folder whose offline read is exactly the result of the whole committed sequence:
    every acknowledged pin is in it, every acknowledged unpin is gone (no hypothesis) -/
theorem clean_shutdown_offline_caught_up (retries : Nat) (subs : List Submission) (n : Nat) (evs : List (Nat × Ev))
    (ctx : Shut.Ctx) (cu : Bool) :
    ∀ r ∈ run (gatedLog retries subs) (initSys n) evs, r.up = true →
      r.applied = (gatedLog retries subs).length →
      (stepR (gatedLog retries subs) r none (Shut.shutEv Shut.Gen.shape ctx cu)).1.offlineView = replay (gatedLog retries subs) := by
  intro r hr hu ha
  have hv := caught_up_exact retries subs n evs r hr hu ha
  exact (shutdown_offline_exact _ n evs ctx cu r hr _ hv).2.1

/-- the alternative the seeded edit of round 8 implements (wait bound to the caller's context AND only a timeout
    "snapshots anyway"): a Shutdown with an already-cancelled context takes no snapshot, and the offline read misses an
    acknowledged pin — it shows the state of the previous snapshot -/
theorem ctx_bound_shutdown_loses_acknowledged :
    Shut.takesSnapshot Shut.ctxBound .cancelled true = false ∧
    (((run [Op.pin (pinCid 1), .pin (pinCid 2)] (initSys 1) [(0, .apply), (0, .snapBegin), (0, .snapPersist), (0, .apply)])[0]?).map
        (fun r => (stepR [Op.pin (pinCid 1), .pin (pinCid 2)] r none (Shut.shutEv Shut.ctxBound .cancelled true)).1.offlineView)) =
      some (replay [Op.pin (pinCid 1)]) ∧
    replay [Op.pin (pinCid 1)] ≠ replay [Op.pin (pinCid 1), .pin (pinCid 2)] := by
  decide

/-- … while with every other context that edit behaves like the code (why it passes tests that shut down with
    `context.Background()`), and each of its two sites alone is harmless for every context -/
theorem ctx_bound_needs_both_sites_and_a_cancelled_ctx (cu : Bool) :
    (∀ ctx, ctx ≠ Shut.Ctx.cancelled → Shut.takesSnapshot Shut.ctxBound ctx cu = true) ∧
    (∀ ctx, Shut.takesSnapshot Shut.ctxBoundWaitOnly ctx cu = true) ∧
    (∀ ctx, Shut.takesSnapshot Shut.deadlineOnlyArm ctx cu = true) := by
  refine ⟨?_, ?_, ?_⟩
  · intro ctx h; cases ctx <;> cases cu <;> first | decide | exact absurd rfl h
  · intro ctx; cases ctx <;> cases cu <;> decide
  · intro ctx; cases ctx <;> cases cu <;> decide

/-- a shape the translator does not recognise, or a Shutdown that does not call `snapshotOnShutdown`, never
    snapshots: unknown code is never vouched for -/
theorem unrecognised_shutdown_never_snapshots (sh : Shut.Shape) (ctx : Shut.Ctx) (cu : Bool)
    (h : sh.recognised = false ∨ sh.called = false) : Shut.takesSnapshot sh ctx cu = false := by
  unfold Shut.takesSnapshot
  rcases h with h | h <;> simp [h]

/-- the hypotheses of `shutdown_offline_exact` are met by a non-trivial history (an older, late-persisted snapshot
    in the folder; a cancelled context), and the Spec clause `shutdown_durable` accepts what the model predicts
    and rejects the observation the context-bound edit produces -/
example : shutdownDurableFrom [] (modelTrace k09Ops (initSys 1)
    [(0, .apply), (0, .snapBegin), (0, .apply), (0, .snapPersist), (0, .apply),
     (0, Shut.shutEv Shut.Gen.shape .cancelled true), (0, .offline), (0, .restart), (0, .apply), (0, .shutdown), (0, .offline)]) = true := by
  decide

example : shutdownDurableFrom []
    [ { rep := 0, ev := .apply, res := .ok, applied := 1, view := .pins (replay [Op.pin (pinCid 1)]), calls := [] },
      { rep := 0, ev := .shutdown, res := .err, applied := 1, view := .down, calls := [] },
      { rep := 0, ev := .offline, res := .ok, applied := 0, view := .pins [], calls := [] } ] = false := by
  decide

end CV.C01

/-! ## Round 8b: the data-folder tools (`SnapshotSave` / `CleanupRaft` / `Consensus.Clean` / `OfflineState`), `Model/C01Folder`

The model is the INTENDED behaviour; the real `SnapshotSave` deviates from it after an import over an existing snapshot
(the Raft term restarts below the imported snapshot's term: proposal K01e in notes/C01.md) — the suite `fold` reports that
as a failure of `folder_exact` on the implementation's observations. -/
namespace CV.C01.Folder

/-- invariant: readers see `ref`, and a running node whose FSM holds no state serves the empty state over an empty folder -/
def Inv (s : St) (ref : List Nat) : Prop :=
  visible s = ref ∧ (s.up = true → s.init = false → s.live = [] ∧ s.snap = none)

theorem inv_step (s : St) (ref : List Nat) (st : Step) (h : Inv s ref) :
    Inv (step s st).1 (refStep ref st (step s st).2) ∧ (step s st).1.up = upAfter s.up st ∧
    ¬ (s.up = true ∧ st = .clean ∧ (step s st).2 = .ok) := by
  obtain ⟨hv, hi⟩ := h
  cases st <;> cases hu : s.up <;> cases hn : s.init <;> cases hs : s.snap <;>
    simp_all [step, visible, refStep, upAfter, Inv]

/-- every history of starts, LogPin/LogUnpin, forced snapshots, clean shutdowns, offline reads, imports and cleanups,
    from an empty folder: every observation shows exactly the acknowledged state (an import replaces it, a cleanup empties
    it), and no cleanup is acknowledged under a running node -/
theorem folder_model_meets_spec_from (steps : List Step) : ∀ (s : St) (ref : List Nat), Inv s ref →
    specFrom s.up ref (runTrace s steps) = (true, true) := by
  induction steps with
  | nil => intro s ref _; rfl
  | cons st rest ih =>
    intro s ref h
    obtain ⟨h1, h2, h3⟩ := inv_step s ref st h
    have := ih (step s st).1 _ h1
    simp only [runTrace, specFrom]
    rw [← h2, this]
    have hv : visible (step s st).1 = refStep ref st (step s st).2 := h1.1
    simp [hv]
    by_cases hu : s.up = true
    · by_cases hc : st = Step.clean
      · exact Or.inr (fun hr => h3 ⟨hu, hc, hr⟩)
      · exact Or.inl (Or.inr hc)
    · exact Or.inl (Or.inl (by simpa using hu))

theorem folder_model_meets_spec (steps : List Step) : foldHolds (runTrace {} steps) = true := by
  have h := folder_model_meets_spec_from steps {} [] (by simp [Inv, visible])
  simp [foldHolds, foldClauses]
  exact ⟨by simpa using congrArg Prod.fst h, by simpa using congrArg Prod.snd h⟩

example : foldHolds (runTrace {} [.restart, .pin 7, .shutdown, .importSt [3, 0, 2], .offline, .restart, .clean, .pin 5,
    .shutdown, .offline, .clean, .offline]) = true := by decide

/-- after an import the folder shows exactly the imported state, the next start serves it, and an operation
    acknowledged then is applied on top of it and survives the shutdown -/
theorem import_restart_op_shutdown (s : St) (m : List Nat) (c : Nat) (hd : s.up = false) :
    let s1 := (step s (.importSt m)).1
    let s2 := (step s1 .restart).1
    let s3 := (step s2 (.pin c)).1
    let s4 := (step s3 .shutdown).1
    visible s1 = norm m ∧ visible s2 = norm m ∧ visible s3 = ins c (norm m) ∧ visible s4 = ins c (norm m) := by
  simp [step, visible, hd]

/-- a cleanup is refused under a running node and empties the folder of a stopped one, whatever it held -/
theorem clean_guarded (s : St) :
    (s.up = true → step s .clean = (s, .refused)) ∧ (s.up = false → visible (step s .clean).1 = []) := by
  constructor <;> intro h <;> simp [step, visible, h]

/-- refuted alternative: without the guard a cleanup under a running node is acknowledged (`clean_guard` fails) and
    the acknowledged pin is gone after the shutdown + start that follows … -/
theorem unguarded_clean_fails :
    let tr : List Obs := [⟨.restart, .ok, []⟩, ⟨.pin 1, .ok, [1]⟩, ⟨.clean, .ok, [1]⟩]
    foldHolds tr = false ∧ (stepUnguardedClean { up := true, init := true, live := [1], snap := some [1] } .clean).2 = .ok := by
  decide

/-- refuted alternative: an import written BELOW the existing newest snapshot is not what readers get -/
theorem stale_import_fails :
    let s : St := { up := false, init := true, live := [7], snap := some [7] }
    visible (stepStaleImport s (.importSt [0, 2])).1 = [7] ∧
    foldHolds [⟨.importSt [0, 2], .kept, [7]⟩] = false := by
  decide

end CV.C01.Folder

/-! ## Round 8c: the folder WITH Raft terms (`Model/C01FolderTerm`) — K01e as a model arm

`FileSnapshotStore.List` orders by (term, index); `SnapshotSave` over an existing snapshot keeps its term while `CleanupRaft`
discards the stable store. The term-aware model is what suite `fold` compares the implementation with (the spec stays the
intended one), so the K01e cases AGREE with the model and fail `folder_exact` only. -/
namespace CV.C01.Folder

theorem atLeast_iff (a b : Snap) : atLeast a b = true ↔ b.term < a.term ∨ (a.term = b.term ∧ b.idx ≤ a.idx) := by
  simp [atLeast]

/-- the snapshot written last is `snapMetas[0]` iff it sorts at or before the previous first one -/
theorem newest_cons_iff (a : Snap) (l : List Snap) :
    newest (a :: l) = some a ↔ ∀ b, newest l = some b → atLeast a b = true := by
  cases h : newest l with
  | none => simp [newest, h]
  | some b =>
    by_cases hab : atLeast a b = true
    · simp [newest, h, hab]
    · simp only [newest, h, hab]
      constructor
      · intro he
        have : b = a := by simpa using he
        subst this
        exact absurd (by simp [atLeast]) hab
      · intro hall
        exact absurd (hall b rfl) hab

/-- THE shutdown snapshot of a running node whose FSM holds a state is the folder's newest snapshot iff its (term, index)
    is at or above the newest one already there -/
theorem shutdown_snapshot_newest_iff (s : TSt) (hu : s.up = true) (hi : s.init = true) :
    newest (stepT s .shutdown).1.snaps = some ⟨s.lterm, s.lidx, s.live⟩ ↔
      ∀ b, newest s.snaps = some b → (b.term < s.lterm ∨ (s.lterm = b.term ∧ b.idx ≤ s.lidx)) := by
  have : (stepT s .shutdown).1.snaps = ⟨s.lterm, s.lidx, s.live⟩ :: s.snaps := by simp [stepT, takeSnap, hu, hi]
  rw [this, newest_cons_iff]
  constructor
  · intro h b hb; exact (atLeast_iff _ _).1 (h b hb)
  · intro h b hb; exact (atLeast_iff _ _).2 (h b hb)

/-- … and, what the FSM applied being at or behind every snapshot's index (`b.idx ≤ s.lidx`: it restored the newest one): iff
    its TERM — the term of the last operation applied, NOT the current term — is at least the term of the newest snapshot
    there, e.g. the imported one -/
theorem shutdown_snapshot_newest_iff_term (s : TSt) (hu : s.up = true) (hi : s.init = true) (b : Snap)
    (hb : newest s.snaps = some b) (hidx : b.idx ≤ s.lidx) :
    newest (stepT s .shutdown).1.snaps = some ⟨s.lterm, s.lidx, s.live⟩ ↔ b.term ≤ s.lterm := by
  rw [shutdown_snapshot_newest_iff s hu hi]
  constructor
  · intro h
    rcases h b hb with h1 | ⟨h1, _⟩
    · exact Nat.le_of_lt h1
    · exact Nat.le_of_eq h1.symm
  · intro h c hc
    have : c = b := by rw [hb] at hc; exact (Option.some.inj hc).symm
    subst this
    rcases Nat.lt_or_eq_of_le h with h1 | h1
    · exact Or.inl h1
    · exact Or.inr ⟨h1.symm, hidx⟩

example : let s : TSt := { up := true, init := true, live := [0, 2, 5], snaps := [⟨2, 4, [0, 2]⟩], cur := 1, idx := 6, lterm := 1, lidx := 6 }
    newest (stepT s .shutdown).1.snaps = some ⟨2, 4, [0, 2]⟩ := by decide

/-- K01e for EVERY folder: a stopped folder whose newest snapshot has term ≥ 2 (any cluster that ever elected a leader), any
    imported state, any cid not in it — the import takes the metadata over, the next start serves the imported state, the pin is
    acknowledged and served, and after the clean shutdown the offline read shows the imported state WITHOUT it -/
theorem kept_import_hides_later_ops (s : TSt) (b : Snap) (m : List Nat) (c : Nat) (hd : s.up = false)
    (hb : newest s.snaps = some b) (ht : 2 ≤ b.term) (hc : ins c (norm m) ≠ norm m) :
    let s1 := (stepT s (.importSt m)).1
    let s2 := (stepT s1 .restart).1
    let s3 := (stepT s2 (.pin c)).1
    let s4 := (stepT s3 .shutdown).1
    (stepT s (.importSt m)).2 = .kept ∧ visibleT s1 = norm m ∧ visibleT s2 = norm m ∧ visibleT s3 = ins c (norm m) ∧
      visibleT s4 = norm m ∧ visibleT s4 ≠ visibleT s3 := by
  have h1 : ¬ b.term < 1 := by omega
  have h2 : ¬ 1 = b.term := by omega
  simp [stepT, visibleT, takeSnap, newest, atLeast, replayFrom, suffixFrom, hd, hb, h1, h2]
  exact fun h => hc h.symm

example : newest ({ snaps := [⟨2, 4, [7]⟩] } : TSt).snaps = some ⟨2, 4, [7]⟩ ∧ ins 5 (norm [0, 2]) ≠ norm [0, 2] := by decide

/-- the smallest K01e case: the term-aware model yields EXACTLY the observations of the real code
    (`C01 fold 0 R,p7,d,i0.2,R,p5,d,o => ok~- ok~7 ok~7 ok~0.2~k ok~0.2 ok~0.2.5 ok~0.2 ok~0.2`), they fail the property,
    one shutdown snapshot is not the newest; one more start restores the stale snapshot + the log suffix behind ITS index (the
    acknowledged state) but a shutdown then is stale AGAIN (the replayed entry carries term 1); only an operation committed
    in a term ≥ the imported one makes the shutdown snapshot the newest again -/
theorem k01e_predicted_by_term_model :
    let steps : List Step := [.restart, .pin 7, .shutdown, .importSt [0, 2], .restart, .pin 5, .shutdown, .offline]
    runTraceT {} steps = [⟨.restart, .ok, []⟩, ⟨.pin 7, .ok, [7]⟩, ⟨.shutdown, .ok, [7]⟩, ⟨.importSt [0, 2], .kept, [0, 2]⟩,
        ⟨.restart, .ok, [0, 2]⟩, ⟨.pin 5, .ok, [0, 2, 5]⟩, ⟨.shutdown, .ok, [0, 2]⟩, ⟨.offline, .ok, [0, 2]⟩] ∧
      foldHolds (runTraceT {} steps) = false ∧ staleShutdowns {} steps = 1 ∧
      (runTraceT {} (steps ++ [.restart, .shutdown, .offline])).map (·.vis) =
        [[], [7], [7], [0, 2], [0, 2], [0, 2, 5], [0, 2], [0, 2], [0, 2, 5], [0, 2], [0, 2]] ∧
      staleShutdowns {} (steps ++ [.restart, .shutdown, .offline]) = 2 ∧
      (runTraceT {} (steps ++ [.restart, .pin 1, .shutdown, .offline])).map (·.vis) =
        [[], [7], [7], [0, 2], [0, 2], [0, 2, 5], [0, 2], [0, 2], [0, 2, 5], [0, 1, 2, 5], [0, 1, 2, 5], [0, 1, 2, 5]] ∧
      staleShutdowns {} (steps ++ [.restart, .pin 1, .shutdown, .offline]) = 1 := by
  decide

/-- the repair proposed for K01e (the import writes term 1 / index 2 like the fresh arm, the folder being fresh after
    `CleanupRaft`): for every stopped folder (no log without a snapshot: only clean shutdowns), imported state and cid the
    offline read after the shutdown shows the pin -/
theorem fixed_import_shutdown_exact (s : TSt) (m : List Nat) (c : Nat) (hd : s.up = false)
    (hl : newest s.snaps = none → s.log = []) :
    let s1 := (stepTFixed s (.importSt m)).1
    let s2 := (stepTFixed s1 .restart).1
    let s3 := (stepTFixed s2 (.pin c)).1
    let s4 := (stepTFixed s3 .shutdown).1
    visibleT s1 = norm m ∧ visibleT s2 = norm m ∧ visibleT s3 = ins c (norm m) ∧ visibleT s4 = ins c (norm m) := by
  have hc : 0 < s.cur ∨ s.cur = 0 := by omega
  cases hb : newest s.snaps with
  | none => simp [stepTFixed, stepT, visibleT, takeSnap, newest, atLeast, replayFrom, suffixFrom, hd, hb, hl hb, hc]
  | some b => simp [stepTFixed, stepT, visibleT, takeSnap, newest, atLeast, replayFrom, suffixFrom, hd, hb]

/-- without any import over an existing snapshot the two models coincide on this history (first start, ops, forced
    snapshot, shutdown, cleanup, fresh import, start, ops, shutdown): the intended model is the term-aware one there -/
example : runTraceT {} [.restart, .pin 4, .snapshot, .pin 1, .shutdown, .clean, .offline, .importSt [6, 4, 2], .restart,
      .unpin 6, .pin 3, .shutdown, .offline] =
    runTrace {} [.restart, .pin 4, .snapshot, .pin 1, .shutdown, .clean, .offline, .importSt [6, 4, 2], .restart,
      .unpin 6, .pin 3, .shutdown, .offline] := by decide


/-! ### Round 8 final: the term-aware folder REFINES the intended one on every history without a metadata-keeping import
(induction over the step list; `Sim` = same up / init / live, content of the newest snapshot = the intended folder's snapshot,
a running node's (lastTerm, lastIndex) at or above every snapshot and log entry, a stopped node without log behind its newest snapshot) -/

theorem ft_newest_none : ∀ l : List Snap, newest l = none → l = []
  | [], _ => rfl
  | a :: rest, h => by
    simp only [newest] at h
    split at h
    · cases h
    · split at h <;> cases h

theorem ft_newest_ge : ∀ (l : List Snap) (n : Snap), newest l = some n → ∀ b ∈ l, leTI b n.term n.idx
  | [], _, h => by simp [newest] at h
  | a :: rest, n, h => by
    intro b hb
    simp only [newest] at h
    cases hr : newest rest with
    | none =>
      have := ft_newest_none rest hr
      subst this
      simp only [hr] at h
      cases h
      simp at hb
      subst hb
      exact Or.inr ⟨rfl, Nat.le_refl _⟩
    | some m =>
      have ih := ft_newest_ge rest m hr
      simp only [hr] at h
      by_cases ham : atLeast a m = true
      · simp only [ham, if_true] at h
        cases h
        have ham' : m.term < a.term ∨ (a.term = m.term ∧ m.idx ≤ a.idx) := by simpa [atLeast] using ham
        rcases List.mem_cons.mp hb with hb | hb
        · subst hb; exact Or.inr ⟨rfl, Nat.le_refl _⟩
        · have := ih b hb
          unfold leTI at this ⊢
          omega
      · simp only [ham] at h
        cases h
        have ham' : ¬ (n.term < a.term ∨ (a.term = n.term ∧ n.idx ≤ a.idx)) := by simpa [atLeast] using ham
        rcases List.mem_cons.mp hb with hb | hb
        · subst hb
          unfold leTI
          omega
        · exact ih b hb

theorem ft_newest_mem (l : List Snap) (n : Snap) (h : newest l = some n) : n ∈ l := by
  induction l with
  | nil => simp [newest] at h
  | cons a rest ih =>
    simp only [newest] at h
    cases hr : newest rest with
    | none => simp only [hr] at h; cases h; simp
    | some m =>
      simp only [hr] at h
      split at h
      · cases h; simp
      · cases h; exact List.mem_cons_of_mem _ (ih hr)

theorem ft_newest_cons_of_ge (a : Snap) (l : List Snap) (h : ∀ b ∈ l, leTI b a.term a.idx) : newest (a :: l) = some a := by
  cases hr : newest l with
  | none => simp [newest, hr]
  | some m =>
    have := h m (ft_newest_mem l m hr)
    have ham : atLeast a m = true := by
      unfold leTI at this
      simp [atLeast]
      omega
    simp [newest, hr, ham]

theorem ft_suffix_nil (i : Nat) (log : List (Nat × Nat × LOp)) (h : ∀ e ∈ log, e.1 ≤ i) : suffixFrom i log = [] := by
  unfold suffixFrom
  rw [List.filter_eq_nil_iff]
  intro e he
  have := h e (List.mem_reverse.mp he)
  simp
  omega

theorem ft_any_false (i : Nat) (log : List (Nat × Nat × LOp)) (h : ∀ e ∈ log, e.1 ≤ i) : log.any (fun e => i < e.1) = false := by
  rw [List.any_eq_false]
  intro e he
  have := h e he
  simp
  omega

theorem sim_visible (t : TSt) (s : St) (h : Sim t s) : visibleT t = visible s := by
  obtain ⟨hup, _, hlive, hsnap, _, _⟩ := h
  unfold visibleT visible
  rw [← hup, ← hsnap, hlive]
  cases newest t.snaps <;> simp

theorem sim_step (t : TSt) (s : St) (h : Sim t s) (st : Step) (hk : (stepT t st).2 ≠ .kept) :
    Sim (stepT t st).1 (step s st).1 ∧ (stepT t st).2 = (step s st).2 := by
  obtain ⟨tup, tinit, tlive, tsnaps, tcur, tidx, tlog, tlterm, tlidx⟩ := t
  obtain ⟨sup, sinit, slive, ssnap⟩ := s
  obtain ⟨hup, hinit, hlive, hsnap, hU, hD⟩ := h
  simp only at hup hinit hlive hsnap hU hD
  subst hup hinit hlive
  cases tup with
  | false =>
    obtain ⟨d1, d2, d3⟩ := hD rfl
    simp only at d1 d2 d3
    cases st with
    | pin c => exact ⟨⟨rfl, rfl, rfl, hsnap, hU, hD⟩, rfl⟩
    | unpin c => exact ⟨⟨rfl, rfl, rfl, hsnap, hU, hD⟩, rfl⟩
    | snapshot => exact ⟨⟨rfl, rfl, rfl, hsnap, hU, hD⟩, rfl⟩
    | shutdown => exact ⟨⟨rfl, rfl, rfl, hsnap, hU, hD⟩, rfl⟩
    | offline => exact ⟨⟨rfl, rfl, rfl, hsnap, hU, hD⟩, rfl⟩
    | importSt m =>
      cases hn : newest tsnaps with
      | some b => simp [stepT, hn] at hk
      | none =>
        have h0 := ft_newest_none _ hn
        subst h0
        have hl := d2 rfl
        subst hl
        simp only [hn, Option.map_none] at hsnap
        subst hsnap
        refine ⟨⟨rfl, rfl, rfl, ?_, ?_, ?_⟩, ?_⟩
        · simp [stepT, step, newest]
        · intro h; simp [stepT, newest] at h
        · intro _
          simp [stepT, newest, DownInv]
        · simp [stepT, step, newest]
    | clean =>
      refine ⟨⟨rfl, rfl, rfl, ?_, ?_, ?_⟩, rfl⟩
      · simp [stepT, step, newest]
      · intro h; simp [stepT] at h
      · intro _; simp [stepT, DownInv, newest]
    | restart =>
      cases hn : newest tsnaps with
      | none =>
        have h0 := ft_newest_none _ hn
        subst h0
        have hl := d2 rfl
        subst hl
        simp only [hn, Option.map_none] at hsnap
        subst hsnap
        refine ⟨⟨rfl, ?_, ?_, ?_, ?_, ?_⟩, rfl⟩
        · simp [stepT, step, newest]
        · simp [stepT, step, newest, replayFrom, suffixFrom]
        · simp [stepT, step, newest]
        · intro _
          simp [stepT, newest, UpInv, suffixFrom]
        · intro h; simp [stepT] at h
      | some b =>
        have hb := ft_newest_mem _ _ hn
        have hne : tsnaps.isEmpty = false := by
          cases tsnaps with
          | nil => cases hb
          | cons _ _ => rfl
        have hsuf := ft_suffix_nil b.idx tlog (d3 b hn)
        have hany := ft_any_false b.idx tlog (d3 b hn)
        simp only [hn, Option.map_some] at hsnap
        subst hsnap
        refine ⟨⟨rfl, ?_, ?_, ?_, ?_, ?_⟩, rfl⟩
        · simp [stepT, step, hn, hany]
        · simp [stepT, step, hn, replayFrom, hsuf]
        · simp [stepT, step, hn]
        · intro _
          have hge := ft_newest_ge _ _ hn
          have hbt := d1 b hb
          simp only [stepT, hn, hsuf, hne, UpInv, Bool.and_false]
          refine ⟨?_, ?_, ?_, ?_, ?_⟩
          · simpa using hbt
          · simp; omega
          · simpa using d3 b hn
          · simp
          · simpa using hge
        · intro h; simp [stepT] at h
  | true =>
    obtain ⟨u1, u2, u3, u4, u5⟩ := hU rfl
    simp only at u1 u2 u3 u4 u5
    cases st with
    | pin c =>
      refine ⟨⟨rfl, rfl, rfl, hsnap, ?_, ?_⟩, rfl⟩
      · intro _
        refine ⟨Nat.le_refl _, Nat.le_refl _, ?_, ?_, ?_⟩
        · intro e he
          simp only [stepT, if_true, List.mem_cons] at he
          rcases he with he | he
          · subst he; exact Nat.le_refl _
          · have := u3 e he
            show e.1 ≤ tidx + 1
            omega
        · intro h; simp [stepT] at h
        · intro b hb
          have := u5 b hb
          unfold leTI at this ⊢
          show b.term < tcur ∨ (tcur = b.term ∧ b.idx ≤ tidx + 1)
          omega
      · intro h; simp [stepT] at h
    | unpin c =>
      refine ⟨⟨rfl, rfl, rfl, hsnap, ?_, ?_⟩, rfl⟩
      · intro _
        refine ⟨Nat.le_refl _, Nat.le_refl _, ?_, ?_, ?_⟩
        · intro e he
          simp only [stepT, if_true, List.mem_cons] at he
          rcases he with he | he
          · subst he; exact Nat.le_refl _
          · have := u3 e he
            show e.1 ≤ tidx + 1
            omega
        · intro h; simp [stepT] at h
        · intro b hb
          have := u5 b hb
          unfold leTI at this ⊢
          show b.term < tcur ∨ (tcur = b.term ∧ b.idx ≤ tidx + 1)
          omega
      · intro h; simp [stepT] at h
    | snapshot =>
      cases tinit with
      | false => exact ⟨⟨rfl, rfl, rfl, hsnap, hU, hD⟩, rfl⟩
      | true =>
        have hnew := ft_newest_cons_of_ge ⟨tlterm, tlidx, tlive⟩ tsnaps u5
        refine ⟨⟨rfl, rfl, rfl, ?_, ?_, ?_⟩, rfl⟩
        · simp [stepT, step, takeSnap, hnew]
        · intro _
          refine ⟨u1, u2, u3, ?_, ?_⟩
          · intro h; simp [stepT, takeSnap] at h
          · intro b hb
            simp only [stepT, takeSnap, if_true, List.mem_cons] at hb
            rcases hb with hb | hb
            · subst hb; exact Or.inr ⟨rfl, Nat.le_refl _⟩
            · exact u5 b hb
        · intro h; simp [stepT, takeSnap] at h
    | shutdown =>
      cases tinit with
      | false =>
        obtain ⟨e1, e2⟩ := u4 rfl
        subst e1 e2
        refine ⟨⟨rfl, rfl, rfl, ?_, ?_, ?_⟩, rfl⟩
        · simpa [stepT, step, takeSnap] using hsnap
        · intro h; simp [stepT, takeSnap] at h
        · intro _; simp [stepT, takeSnap, DownInv, newest]
      | true =>
        have hnew := ft_newest_cons_of_ge ⟨tlterm, tlidx, tlive⟩ tsnaps u5
        refine ⟨⟨rfl, rfl, rfl, ?_, ?_, ?_⟩, rfl⟩
        · simp [stepT, step, takeSnap, hnew]
        · intro h; simp [stepT, takeSnap] at h
        · intro _
          simp only [stepT, takeSnap, if_true, DownInv, hnew]
          refine ⟨?_, ?_, ?_⟩
          · intro b hb
            rcases List.mem_cons.mp hb with hb | hb
            · subst hb; show tlterm ≤ tcur + 1; omega
            · have := u5 b hb
              unfold leTI at this
              omega
          · intro h; cases h
          · intro b hb e he
            cases hb
            exact u3 e he
    | offline => exact ⟨⟨rfl, rfl, rfl, hsnap, hU, hD⟩, rfl⟩
    | importSt m => exact ⟨⟨rfl, rfl, rfl, hsnap, hU, hD⟩, rfl⟩
    | clean => exact ⟨⟨rfl, rfl, rfl, hsnap, hU, hD⟩, rfl⟩
    | restart => exact ⟨⟨rfl, rfl, rfl, hsnap, hU, hD⟩, rfl⟩

/-- THE refinement theorem: from related states, on every history without a metadata-keeping import, the term-aware
    folder (what the code does) and the intended folder produce the same observations -/
theorem term_model_refines_intended_from : ∀ (steps : List Step) (t : TSt) (s : St), Sim t s → keptImports t steps = 0 →
    runTraceT t steps = runTrace s steps
  | [], _, _, _, _ => rfl
  | st :: rest, t, s, h, hk => by
    simp only [keptImports] at hk
    have hk1 : (stepT t st).2 ≠ .kept := by
      intro he
      simp [he] at hk
    have hk2 : keptImports (stepT t st).1 rest = 0 := by omega
    obtain ⟨hs, hr⟩ := sim_step t s h st hk1
    simp only [runTraceT, runTrace]
    rw [term_model_refines_intended_from rest _ _ hs hk2, hr, sim_visible _ _ hs]

theorem sim_init : Sim {} {} := by
  refine ⟨rfl, rfl, rfl, rfl, ?_, ?_⟩
  · intro h; cases h
  · intro _; simp [DownInv, newest]

/-- … from the empty folder -/
theorem term_model_refines_intended (steps : List Step) (hk : keptImports {} steps = 0) :
    runTraceT {} steps = runTrace {} steps :=
  term_model_refines_intended_from steps _ _ sim_init hk

/-- the hypothesis is met by a 13-step history with a fresh import, a cleanup, restarts and operations in several terms -/
example : keptImports {} [.restart, .pin 7, .shutdown, .clean, .importSt [3, 1], .restart, .pin 5, .snapshot, .unpin 3,
    .shutdown, .offline, .restart, .shutdown] = 0 := by decide


theorem ft_shutdown_newest (t : TSt) (s : St) (h : Sim t s) (hu : t.up = true) (hi : t.init = true) :
    newest (stepT t .shutdown).1.snaps = some ⟨t.lterm, t.lidx, t.live⟩ := by
  obtain ⟨_, _, _, _, hU, _⟩ := h
  obtain ⟨_, _, _, _, u5⟩ := hU hu
  simp only [stepT, hu, takeSnap, hi, if_true]
  exact ft_newest_cons_of_ge ⟨t.lterm, t.lidx, t.live⟩ t.snaps u5

/-- … and on such a history EVERY clean shutdown leaves its snapshot as the folder's newest one: the arm of K01e
    (`staleShutdowns > 0`) needs a metadata-keeping import -/
theorem no_stale_shutdown_without_kept_import_from : ∀ (steps : List Step) (t : TSt) (s : St), Sim t s →
    keptImports t steps = 0 → staleShutdowns t steps = 0
  | [], _, _, _, _ => rfl
  | st :: rest, t, s, h, hk => by
    simp only [keptImports] at hk
    have hk1 : (stepT t st).2 ≠ .kept := by
      intro he
      simp [he] at hk
    have hk2 : keptImports (stepT t st).1 rest = 0 := by omega
    obtain ⟨hs, _⟩ := sim_step t s h st hk1
    have ih := no_stale_shutdown_without_kept_import_from rest _ _ hs hk2
    simp only [staleShutdowns, ih, Nat.add_zero]
    by_cases hc : st = .shutdown ∧ t.up = true ∧ t.init = true
    · obtain ⟨h1, h2, h3⟩ := hc
      subst h1
      simp [ft_shutdown_newest t s h h2 h3]
    · rw [if_neg]
      intro hcond
      simp only [Bool.and_eq_true, beq_iff_eq] at hcond
      exact hc ⟨hcond.1.1.1, hcond.1.1.2, hcond.1.2⟩

theorem no_stale_shutdown_without_kept_import (steps : List Step) (hk : keptImports {} steps = 0) :
    staleShutdowns {} steps = 0 :=
  no_stale_shutdown_without_kept_import_from steps _ _ sim_init hk

/-- the hypothesis cannot be dropped: the K01e history has one kept import and one stale shutdown -/
example : keptImports {} [.restart, .pin 7, .shutdown, .importSt [0, 2], .restart, .pin 5, .shutdown, .offline] = 1 ∧
    staleShutdowns {} [.restart, .pin 7, .shutdown, .importSt [0, 2], .restart, .pin 5, .shutdown, .offline] = 1 := by decide

end CV.C01.Folder
