import ClusterVerif.Spec.C09

namespace CV.C09

/-- `Latest` right after `Add` is the metric added, whatever the ring held (capacity > 0). -/
theorem window_latest_add (w : Window) (m : Metric) (h : w ≠ []) : (w.add m).latest = some m := by
  cases w with
  | nil => exact absurd rfl h
  | cons a t => simp [Window.add, Window.latest]

end CV.C09
