import ClusterVerif.Lemmas.C09

/-!
# C09 — only fresh metrics from members are used; an expired peer alerts once

Property theorems only (helper lemmas are in `Lemmas/C09.lean`). `run i orc` is the
model's list of observations for history `i` under accrual oracle `orc`;
`clauses` is the property checker of `Spec/C09.lean`.

* `safety_all_histories` — for EVERY history (arrivals with any flags, removals,
  peerset changes, queries, ticks, CheckPeers calls with any lists), every window
  capacity > 0 and every oracle, the model's observations satisfy: at most one
  metric per peer, the most recent one, valid, unexpired, member of a known
  peerset; no alert for a fresh metric; no second alert without renewal.
  `latest_valid_spec`, `never_failed_if_fresh`, `alert_not_repeated` are its
  readings clause by clause.
* `C09_full` (all clauses, all histories) is FALSE for the code as it is:
  `C09_full_fails` exhibits the recorded finding K10 (CheckAll skips metrics that are
  not valid). `C09_partial` proves ALL clauses — exactly-once across renewals included,
  which finding K09a used to break before fix e17258f — under the explicit hypothesis
  `calm` (no such tick).
* `allowed_safe`, `allowed_holds_partial` — the same for every output the model
  relation `allowed` admits (`clauses_of_allowed`: no clause depends on the order
  of what Go takes out of maps); `model_allowed`: the relation is inhabited.
* `alert_once` — an expired metric, then any number of checks: exactly one alert,
  forgotten by the second visit, silent afterwards.
* `window_all_spec` — wrap-around of the ring.
* `republish_*` — the publish loops re-publish before the previous expiry.
-/
namespace CV.C09

/-- `Latest` right after `Add` is the metric added, whatever the ring held (capacity > 0). -/
theorem window_latest_add (w : Window) (m : Metric) (h : w ≠ []) : (w.add m).latest = some m := by
  cases w with
  | nil => exact absurd rfl h
  | cons a t => simp [Window.add, Window.latest]

/-- Safety clauses, every history. -/
theorem safety_all_histories (i : Input) (orc : Nat → Nat → Nat → Bool) (hw : wf i = true) (hmax : i.maxA = 1) :
    ∀ c ∈ clauses i orc (run i orc), c.1 ∈ safeNames → c.2 = true := by
  simp only [wf, Bool.and_eq_true, decide_eq_true_eq] at hw
  exact safe_from (P := { cap := i.cap, maxA := i.maxA, orc := orc }) hw.2 hmax hw.1.1 i.ops 0 _ _
    (inv_init _ _ _) (fun _ h => h)

/-- First sentence of the property: what `LatestMetrics` returns. -/
theorem latest_valid_spec (i : Input) (orc : Nat → Nat → Nat → Bool) (hw : wf i = true) (hmax : i.maxA = 1) :
    ∀ c ∈ clauses i orc (run i orc),
      c.1 ∈ ["at_most_one_per_peer", "most_recent", "valid_unexpired", "member"] → c.2 = true := by
  intro c hc hn
  apply safety_all_histories i orc hw hmax c hc
  simp only [List.mem_cons, List.mem_nil_iff, or_false] at hn
  rcases hn with h | h | h | h <;> simp [safeNames, h]

/-- A peer whose latest metric is unexpired is never reported as failed. -/
theorem never_failed_if_fresh (i : Input) (orc : Nat → Nat → Nat → Bool) (hw : wf i = true) (hmax : i.maxA = 1) :
    ∀ c ∈ clauses i orc (run i orc), c.1 = "fresh_never_failed" → c.2 = true := by
  intro c hc hn
  exact safety_all_histories i orc hw hmax c hc (by simp [safeNames, hn])

/-- No (name, peer) is alerted twice by one check, nor again without renewal. -/
theorem alert_not_repeated (i : Input) (orc : Nat → Nat → Nat → Bool) (hw : wf i = true) (hmax : i.maxA = 1) :
    ∀ c ∈ clauses i orc (run i orc), c.1 = "alert_once" → c.2 = true := by
  intro c hc hn
  exact safety_all_histories i orc hw hmax c hc (by simp [safeNames, hn])

/-- the hypothesis of the exactly-once clauses, on the model's run of the history: no tick
    without a peerset function finds a stored latest metric that is not valid (finding K10) -/
def calm (i : Input) (orc : Nat → Nat → Nat → Bool) : Bool :=
  calmFrom { cap := i.cap, maxA := i.maxA, orc := orc } 0 (State.init i.ps0) i.ops

/-- The property at full strength: every clause, every history. -/
def C09_full : Prop :=
  ∀ (i : Input) (orc : Nat → Nat → Nat → Bool), wf i = true → i.maxA = 1 → holds i orc (run i orc) = true

/-- All clauses — including "reported exactly once, then forgotten" across renewals,
    removals and repeated list entries — for every history in which no tick without a
    peerset function finds a stored latest metric that is not valid. In particular for
    every history whose peerset is always known or failing, and for every history whose
    arrivals are all valid. -/
theorem C09_partial (i : Input) (orc : Nat → Nat → Nat → Bool) (hw : wf i = true) (hmax : i.maxA = 1)
    (hcalm : calm i orc = true) : holds i orc (run i orc) = true := by
  simp only [wf, Bool.and_eq_true, decide_eq_true_eq] at hw
  unfold holds
  rw [List.all_eq_true]
  exact all_from (P := { cap := i.cap, maxA := i.maxA, orc := orc }) hw.2 hmax hw.1.1 i.ops 0 _ _
    (inv_init _ _ _) (sync_init _) (fresh_init _) (fun _ h => h) hw.1.2 hcalm

/-- The history that used to show finding K09a (alert, renewal, second expiry — the alert
    counter was kept and the second failure forgotten silently). Since fix e17258f the
    second expiry is alerted: the history is calm and all clauses hold. -/
def formerCounterKept : Input :=
  { cap := 2, maxA := 1, ps0 := .known [0],
    ops := [.add ⟨0, 0, 0, true, true⟩, .tick, .add ⟨2, 0, 0, true, false⟩, .tick,
            .add ⟨4, 0, 0, true, true⟩, .tick, .tick] }

/-- K10: no peerset function, latest metric expired and not valid: never reported. -/
def witnessCheckAllInvalid : Input :=
  { cap := 2, maxA := 1, ps0 := .unknown, ops := [.add ⟨0, 0, 0, false, true⟩, .tick, .tick] }

/-- The code as it is does not meet the exactly-once clauses on every history (finding K10). -/
theorem C09_full_fails : ¬ C09_full := by
  intro h
  have := h witnessCheckAllInvalid (fun _ _ _ => true) (by decide) rfl
  revert this
  decide

/-- Wrap-around: after any sequence of `Add`s to a new window of capacity `cap > 0`, `All`
    is the last `cap` metrics, newest first (so `Latest` is the last one added). -/
theorem window_all_spec (cap : Nat) (hc : 0 < cap) (ms : List Metric) :
    (ms.foldl Window.add (Window.new cap)).all = ms.reverse.take cap := by
  obtain ⟨xs, hr, h⟩ := fold_add_rep cap hc ms (Window.new cap) [] [] (ringRep_new cap) (by simp)
  rw [ringRep_all hr, h]; simp

/-- An arrival history (any arrivals, removals, peerset changes, queries; no checks yet)
    leaves (name, peer) with an expired latest metric that a check finds failed (fewer than
    6 samples, or the accrual oracle says failed). Then any number of `CheckPeers` calls that
    include the peer, with no renewal in between, raise exactly one alert for it; after the
    second call its stale metric is forgotten (and the remaining calls are silent). -/
theorem alert_once (P : Params) (hmax : P.maxA = 1) (ps0 : Peerset) (h : List Op)
    (hnc : ∀ op ∈ h, isCheck op = false) (k : Key) (w0 : Window) (m : Metric)
    (hw : (stateAfter P 0 (State.init ps0) h).win k = some w0) (hl : w0.latest = some m)
    (hx : m.expired = true) (hf : w0.count < accrualMin ∨ ∀ i, P.orc i k.1 k.2 = true)
    (ls : List (List Nat)) (hcov : ∀ l ∈ ls, k.2 ∈ l) :
    alertsFor k (runFrom P h.length (stateAfter P 0 (State.init ps0) h) (ls.map .checkPeers)) =
        (if ls = [] then 0 else 1) ∧
    (2 ≤ ls.length →
      latestOf (stateAfter P h.length (stateAfter P 0 (State.init ps0) h) (ls.map .checkPeers)) k = none) := by
  obtain ⟨hc0, hst⟩ := noCheck_state P h 0 (State.init ps0) hnc (by simp [State.init]) (by simp [State.init])
  have hG : Gd k (stateAfter P 0 (State.init ps0) h) :=
    ⟨fun k' => by rw [hc0 k']; omega, hst k (by rw [hw]; simp)⟩
  have he0 : ecnt (stateAfter P 0 (State.init ps0) h) k = 0 := by
    have := ecnt_le (stateAfter P 0 (State.init ps0) h) k
    rw [hc0 k] at this; omega
  obtain ⟨h1, h2⟩ := once_from P hmax k w0 m hl hx hf ls hcov h.length _ hG ⟨hw, he0⟩
  refine ⟨h1, fun hlen => ?_⟩
  have := (h2 hlen).1
  simp [latestOf, this]

/-- The model's own observations are among those it allows. -/
theorem model_allowed (i : Input) (orc : Nat → Nat → Nat → Bool) : allowed i orc (run i orc) = true :=
  sameAll_refl _

/-- The property checker gives the same verdicts on every output the model allows
    (the order of alerts / metrics / forgotten pairs is irrelevant to every clause). -/
theorem clauses_of_allowed (i : Input) (orc : Nat → Nat → Nat → Bool) (out : List Obs)
    (h : allowed i orc out = true) : clauses i orc out = clauses i orc (run i orc) :=
  (clausesFrom_same i.cap orc i.ops i.ops 0 _ _ _ h).symm

/-- C09, safety clauses, for every history and EVERY output the model relation admits. -/
theorem allowed_safe (i : Input) (orc : Nat → Nat → Nat → Bool) (out : List Obs) (hw : wf i = true)
    (hmax : i.maxA = 1) (h : allowed i orc out = true) :
    ∀ c ∈ clauses i orc out, c.1 ∈ safeNames → c.2 = true := by
  rw [clauses_of_allowed i orc out h]
  exact safety_all_histories i orc hw hmax

/-- C09, all clauses, for calm histories and every output the model relation admits. -/
theorem allowed_holds_partial (i : Input) (orc : Nat → Nat → Nat → Bool) (out : List Obs) (hw : wf i = true)
    (hmax : i.maxA = 1) (hcalm : calm i orc = true) (h : allowed i orc out = true) :
    holds i orc out = true := by
  unfold holds
  rw [clauses_of_allowed i orc out h]
  exact C09_partial i orc hw hmax hcalm

/-! ### the publish loops (third sentence) -/

theorem remaining_ttl_nonneg (ttl delay : Int) (a : Iter) (hd : delay ≤ ttl) (ha : a.wf delay) :
    0 ≤ a.expire ttl - a.reset := by
  obtain ⟨h1, h2, h3, h4⟩ := ha
  unfold Iter.expire; omega

theorem republish_before_expiry (ttl delay : Int) (a b : Iter) (_hd : 0 ≤ delay) (h4 : 4 * delay < ttl)
    (ha : a.wf delay) (hb : b.wf delay) (hf : b.follows ttl a) : b.pub < a.expire ttl := by
  obtain ⟨a1, a2, a3, a4⟩ := ha
  obtain ⟨b1, b2, b3, b4⟩ := hb
  unfold Iter.follows Iter.nextFire at hf
  unfold Iter.expire at hf ⊢
  by_cases he : a.err = true
  · simp only [he, if_true] at hf; omega
  · simp only [he, Bool.false_eq_true, if_false] at hf; omega

theorem republish_after_one_error (ttl delay : Int) (a b c : Iter) (_hd : 0 ≤ delay) (h10 : 10 * delay < ttl)
    (ha : a.wf delay) (hb : b.wf delay) (hc : c.wf delay) (hab : b.follows ttl a) (hbc : c.follows ttl b)
    (hae : a.err = false) (hbe : b.err = true) : c.pub < a.expire ttl := by
  obtain ⟨a1, a2, a3, a4⟩ := ha
  obtain ⟨b1, b2, b3, b4⟩ := hb
  obtain ⟨c1, c2, c3, c4⟩ := hc
  unfold Iter.follows Iter.nextFire at hab hbc
  unfold Iter.expire at hab hbc ⊢
  simp only [hae, hbe, if_true, Bool.false_eq_true, if_false] at hab hbc
  omega

theorem two_errors_too_late : ∃ (ttl : Int) (a b c d : Iter), 0 < ttl ∧ a.wf 0 ∧ b.wf 0 ∧ c.wf 0 ∧ d.wf 0 ∧
    b.follows ttl a ∧ c.follows ttl b ∧ d.follows ttl c ∧ a.err = false ∧ b.err = true ∧ c.err = true ∧
    ¬ d.pub < a.expire ttl :=
  ⟨4, ⟨0, 0, 0, 0, false⟩, ⟨2, 2, 2, 2, true⟩, ⟨3, 3, 3, 3, true⟩, ⟨4, 4, 4, 4, false⟩, by
    simp [Iter.wf, Iter.follows, Iter.nextFire, Iter.expire]⟩

theorem ping_republish (interval delay : Int) (a b : Iter) (_hd : 0 ≤ delay) (h2 : 2 * delay < interval)
    (ha : a.wf delay) (hb : b.wf delay) (hf : b.pingFollows interval a) : b.pub < a.pingExpire interval := by
  obtain ⟨a1, a2, a3, a4⟩ := ha
  obtain ⟨b1, b2, b3, b4⟩ := hb
  unfold Iter.pingFollows Iter.pingNextFire at hf
  unfold Iter.pingExpire
  by_cases he : a.err = true
  · simp only [he, if_true] at hf; omega
  · simp only [he, Bool.false_eq_true, if_false] at hf; omega

/-- a ping, one failed publish, the next ping: the retry after `interval / 2` lands before the first ping expires -/
theorem ping_republish_after_one_error (interval delay : Int) (a b c : Iter) (_hd : 0 ≤ delay)
    (h6 : 6 * delay < interval) (ha : a.wf delay) (hb : b.wf delay) (hc : c.wf delay)
    (hab : b.pingFollows interval a) (hbc : c.pingFollows interval b)
    (hae : a.err = false) (hbe : b.err = true) : c.pub < a.pingExpire interval := by
  obtain ⟨a1, a2, a3, a4⟩ := ha
  obtain ⟨b1, b2, b3, b4⟩ := hb
  obtain ⟨c1, c2, c3, c4⟩ := hc
  unfold Iter.pingFollows Iter.pingNextFire at hab hbc
  unfold Iter.pingExpire
  simp only [hae, hbe, if_true, Bool.false_eq_true, if_false] at hab hbc
  omega

/-- the loop as it was (a ticker, no retry): after one failed publish the next ping is not before the
    expiry of the last delivered one, even with zero delay (repaired in /repo, see known_findings F31) -/
theorem ping_ticker_one_error_too_late (interval : Int) (a c : Iter) (ha : a.wf 0) (hc : c.wf 0)
    (h : c.fire = a.fire + 2 * interval) : ¬ c.pub < a.pingExpire interval := by
  obtain ⟨a1, a2, a3, a4⟩ := ha
  obtain ⟨c1, c2, c3, c4⟩ := hc
  unfold Iter.pingExpire; omega

/-! ### Non-vacuity: concrete histories meet the hypotheses and exercise every arm -/

/-- arrivals for two peers (one wrapping a 2-slot window), a query, alert, forget, silence,
    then an expired re-arrival that is alerted in its turn -/
private def ex1 : Input :=
  { cap := 2, maxA := 1, ps0 := .known [0, 1],
    ops := [.add ⟨0, 0, 0, true, false⟩, .add ⟨1, 0, 0, true, false⟩, .add ⟨2, 0, 0, true, true⟩,
            .add ⟨3, 0, 1, true, false⟩, .add ⟨4, 0, 2, true, false⟩, .query 0, .tick, .checkPeers [0, 0, 1], .tick,
            .setPeers .unknown, .query 0, .add ⟨11, 0, 0, true, true⟩, .tick] }
example : wf ex1 = true ∧ calm ex1 (fun _ _ _ => false) = true ∧
    run ex1 (fun _ _ _ => false) =
      [.silent, .silent, .silent, .silent, .silent, .metrics [(1, 3)] true, .check [(0, 0, some 2)] [],
       .check [] [(0, 0)], .check [] [], .silent, .metrics [(1, 3), (2, 4)] true, .silent,
       .check [(0, 0, some 11)] []] ∧
    holds ex1 (fun _ _ _ => false) (run ex1 (fun _ _ _ => false)) = true := by decide
/-- the property checker rejects a repeated alert and a stale metric in the answer -/
example : holds ex1 (fun _ _ _ => false)
      [.silent, .silent, .silent, .silent, .silent, .metrics [(1, 3)] true, .check [(0, 0, some 2)] [],
       .check [(0, 0, some 2)] [], .check [] [], .silent, .metrics [(1, 3), (2, 4)] true, .silent,
       .check [(0, 0, some 11)] []] = false ∧
    holds ex1 (fun _ _ _ => false)
      [.silent, .silent, .silent, .silent, .silent, .metrics [(0, 2), (1, 3)] true, .check [(0, 0, some 2)] [],
       .check [] [(0, 0)], .check [] [], .silent, .metrics [(1, 3), (2, 4)] true, .silent,
       .check [(0, 0, some 11)] []] = false := by decide
/-- the former K09a history: the second failure is alerted now (and the pre-fix answer is rejected) -/
example : wf formerCounterKept = true ∧ calm formerCounterKept (fun _ _ _ => true) = true ∧
    run formerCounterKept (fun _ _ _ => true) =
      [.silent, .check [(0, 0, some 0)] [], .silent, .check [] [], .silent, .check [(0, 0, some 4)] [],
       .check [] [(0, 0)]] ∧
    holds formerCounterKept (fun _ _ _ => true)
      [.silent, .check [(0, 0, some 0)] [], .silent, .check [] [], .silent, .check [] [(0, 0)],
       .check [] []] = false := by decide
/-- the hypothesis of `C09_partial` is not met by the remaining counterexample -/
example : calm witnessCheckAllInvalid (fun _ _ _ => true) = false := by decide

end CV.C09
