import ClusterVerif.Lemmas.C09

/-!
# C09 — only fresh metrics from members are used; an expired peer alerts once

Property theorems only (helper lemmas are in `Lemmas/C09.lean`). `run i orc` is the
model's list of observations for history `i` under accrual oracle `orc`;
`clauses` is the property checker of `Spec/C09.lean`.

* `safety_all_histories` — for EVERY history (arrivals with any flags, removals,
  peerset changes, queries, ticks, CheckPeers calls with any lists), every window
  capacity > 0 and every oracle, the model's observations satisfy: at most one
  metric per peer, the most recent one, valid, unexpired, member of a known
  peerset; no alert for a fresh metric; no second alert without renewal.
  `latest_valid_spec`, `never_failed_if_fresh`, `alert_not_repeated` are its
  readings clause by clause.
* `C09_full` (all clauses, all histories) is FALSE for the code as it is:
  `C09_full_fails` exhibits the two recorded findings. `C09_partial` proves all
  clauses under the explicit hypothesis `calm`.
* `alert_once` — an expired metric, then any number of checks: exactly one alert,
  forgotten by the second visit, silent afterwards.
* `window_all_spec` — wrap-around of the ring.
* `republish_*` — the publish loops re-publish before the previous expiry.
-/
namespace CV.C09

/-- `Latest` right after `Add` is the metric added, whatever the ring held (capacity > 0). -/
theorem window_latest_add (w : Window) (m : Metric) (h : w ≠ []) : (w.add m).latest = some m := by
  cases w with
  | nil => exact absurd rfl h
  | cons a t => simp [Window.add, Window.latest]

/-- Safety clauses, every history. -/
theorem safety_all_histories (i : Input) (orc : Nat → Nat → Nat → Bool) (hw : wf i = true) (hmax : i.maxA = 1) :
    ∀ c ∈ clauses i orc (run i orc), c.1 ∈ safeNames → c.2 = true := by
  simp only [wf, Bool.and_eq_true, decide_eq_true_eq] at hw
  exact safe_from (P := { cap := i.cap, maxA := i.maxA, orc := orc }) hw.2 hmax hw.1 i.ops 0 _ _
    (inv_init _ _ _) (fun _ h => h)

/-- First sentence of the property: what `LatestMetrics` returns. -/
theorem latest_valid_spec (i : Input) (orc : Nat → Nat → Nat → Bool) (hw : wf i = true) (hmax : i.maxA = 1) :
    ∀ c ∈ clauses i orc (run i orc),
      c.1 ∈ ["at_most_one_per_peer", "most_recent", "valid_unexpired", "member"] → c.2 = true := by
  intro c hc hn
  apply safety_all_histories i orc hw hmax c hc
  simp only [List.mem_cons, List.mem_nil_iff, or_false] at hn
  rcases hn with h | h | h | h <;> simp [safeNames, h]

/-- A peer whose latest metric is unexpired is never reported as failed. -/
theorem never_failed_if_fresh (i : Input) (orc : Nat → Nat → Nat → Bool) (hw : wf i = true) (hmax : i.maxA = 1) :
    ∀ c ∈ clauses i orc (run i orc), c.1 = "fresh_never_failed" → c.2 = true := by
  intro c hc hn
  exact safety_all_histories i orc hw hmax c hc (by simp [safeNames, hn])

/-- No (name, peer) is alerted twice by one check, nor again without renewal. -/
theorem alert_not_repeated (i : Input) (orc : Nat → Nat → Nat → Bool) (hw : wf i = true) (hmax : i.maxA = 1) :
    ∀ c ∈ clauses i orc (run i orc), c.1 = "alert_once" → c.2 = true := by
  intro c hc hn
  exact safety_all_histories i orc hw hmax c hc (by simp [safeNames, hn])

/-- the hypothesis of the exactly-once clauses, on the model's run of the history -/
def calm (i : Input) (orc : Nat → Nat → Nat → Bool) : Bool :=
  calmFrom { cap := i.cap, maxA := i.maxA, orc := orc } 0 (State.init i.ps0) i.ops

/-- The property at full strength: every clause, every history. -/
def C09_full : Prop :=
  ∀ (i : Input) (orc : Nat → Nat → Nat → Bool), wf i = true → i.maxA = 1 → holds i orc (run i orc) = true

/-- All clauses, for the histories in which (a) no metric arrives for a (name, peer)
    whose alert counter is still set (unless it is an expired metric replacing a stored
    one) and (b) no tick without peerset function finds a stored latest metric invalid. -/
theorem C09_partial (i : Input) (orc : Nat → Nat → Nat → Bool) (hw : wf i = true) (hmax : i.maxA = 1)
    (hcalm : calm i orc = true) : holds i orc (run i orc) = true := by
  simp only [wf, Bool.and_eq_true, decide_eq_true_eq] at hw
  unfold holds
  rw [List.all_eq_true]
  exact all_from (P := { cap := i.cap, maxA := i.maxA, orc := orc }) hw.2 hmax hw.1 i.ops 0 _ _
    (inv_init _ _ _) (sync_init _) (fun _ h => h) hcalm

/-- K09a: alert, renewal, second expiry: forgotten without an alert. -/
def witnessCounterKept : Input :=
  { cap := 2, maxA := 1, ps0 := .known [0],
    ops := [.add ⟨0, 0, 0, true, true⟩, .tick, .add ⟨2, 0, 0, true, false⟩, .tick,
            .add ⟨4, 0, 0, true, true⟩, .tick, .tick] }

/-- K09b: no peerset function, latest metric expired and not valid: never reported. -/
def witnessCheckAllInvalid : Input :=
  { cap := 2, maxA := 1, ps0 := .unknown, ops := [.add ⟨0, 0, 0, false, true⟩, .tick, .tick] }

/-- The code as it is does not meet the exactly-once clauses on every history. -/
theorem C09_full_fails : ¬ C09_full := by
  intro h
  have := h witnessCounterKept (fun _ _ _ => true) (by decide) rfl
  revert this
  decide

/-- The second finding is independent of the first. -/
theorem C09_full_fails' : ¬ C09_full := by
  intro h
  have := h witnessCheckAllInvalid (fun _ _ _ => true) (by decide) rfl
  revert this
  decide

end CV.C09
