/-
C12 — property theorems (see notes/C12.md).
-/
import ClusterVerif.Spec.C12
namespace CV.C12

/-- the hijack table regenerated from today's ipfsproxy.New is exactly the frozen expectation -/
theorem hijack_exact :
    Gen.C12.methods = hijackMethods ∧
    Gen.C12.pathPrefix = "/api/v0" ∧
    Gen.C12.routes.map (fun r => (r.segs, r.handler, r.slash)) = expectedRoutes ∧
    Gen.C12.topRoutes = [("PathPrefix", "/", "reverseProxy")] ∧
    Gen.C12.topAfterHijack = true ∧
    Gen.C12.routerOptions = [] ∧
    Gen.C12.unknownRegistrations = [] ∧
    Gen.C12.reverseProxyCtor = "httputil.NewSingleHostReverseProxy" ∧
    Gen.C12.reverseProxyFields = ["Transport"] ∧
    Gen.C12.pinOps = [("pinHandler", "PinPath"), ("unpinHandler", "UnpinPath")] ∧
    Gen.C12.slashSetsArg = true := by
  decide

end CV.C12
