/-
C12 — property theorems.

* `hijack_exact`: the table regenerated from today's `ipfsproxy.New` is the frozen expectation (decide).
* `route_eq_classify`: the model's gorilla/mux router over that table classifies every (method, path) exactly
  as the property's definition of a hijacked request (`classify`), for all strings.
* `relay_identity`: every non-hijacked request with a clean path is relayed unchanged and answered with the
  daemon's response; all relay clauses of the Spec hold.
* `never_forwarded_mutation`: a hijacked request reaches the daemon neither as itself nor as the call it replaces.
* `error_no_op_partial` / `error_no_op_full_fails`: an error answer means no cluster operation, except in the
  two corners today's code has (pin/update whose final Unpin fails; add?pin=false), witnessed in Lean.
* `run_holds_partial` / `C12_full_fails`: every clause of the property on every input outside the three corners
  (K12a unclean relayed path, K12b, K12c); the corners really fail.
The model is tied to the code by the correspondence run (checks/C12.py).
-/
import ClusterVerif.Lemmas.C12
namespace CV.C12

/-- the hijack table regenerated from today's ipfsproxy.New is exactly the frozen expectation -/
theorem hijack_exact :
    Gen.C12.methods = hijackMethods ∧
    Gen.C12.pathPrefix = "/api/v0" ∧
    Gen.C12.routes.map (fun r => (r.segs, r.handler, r.slash)) = expectedRoutes ∧
    Gen.C12.routes.map patsOf = Gen.C12.routes.map (fun r => r.segs.map compileSeg) ∧
    Gen.C12.topRoutes = [("PathPrefix", "/", "reverseProxy")] ∧
    Gen.C12.topAfterHijack = true ∧
    Gen.C12.routerOptions = [] ∧
    Gen.C12.unknownRegistrations = [] ∧
    Gen.C12.reverseProxyCtor = "httputil.NewSingleHostReverseProxy" ∧
    Gen.C12.reverseProxyFields = ["Transport"] ∧
    Gen.C12.pinOps = [("pinHandler", "PinPath"), ("unpinHandler", "UnpinPath")] ∧
    Gen.C12.slashSetsArg = true := by
  decide

/-- for every method and every decoded path, the first matching route of today's table (if the method is one
    the sub-router accepts) serves exactly the endpoint, with exactly the slash argument, that the property's
    definition of a hijacked request names — and nothing else is hijacked -/
theorem route_eq_classify (m : String) (p : Bytes) :
    (if Gen.C12.methods.contains m then
        (routeSegs Gen.C12.routes (splitOn 47 p)).map (fun x => (endpointOfHandler x.1, x.2))
      else none)
      = (classify m p).map (fun x => (some x.1, x.2)) := by
  rw [methods_eq]
  unfold classify
  split_ifs
  · exact routeSegs_eq_classifySegs _
  · rfl

example : route "POST" (b!"/api/v0/pin/add/QmFoo") = .hijack "pinHandler" (some (b!"QmFoo")) := by decide
example : route "DELETE" (b!"/api/v0/pin/add/QmFoo") = .relay := by decide
example : route "POST" (b!"/api/v0/pin/add/") = .relay := by decide
example : route "GET" (b!"/api/v0/p%69n/ls") = .hijack "pinLsHandler" none := by decide

/-- every other request (clean path): one daemon request, identical in method, path (byte-identical when the raw
    path is RFC 3986-valid, the same decoded path otherwise), query, headers and body; the daemon's status, body
    and header are returned; no cluster RPC. Stated for either typing of the add handler's Unpin call. -/
theorem relay_identity (typed : Bool) (i : Input) (obs : AddObs) (p : Bytes)
    (hb : ∀ c ∈ i.path, c < 256) (hd : pctDecode false i.path = some p)
    (hcls : classify i.method p = none) (hcl : isClean p = true) :
    runWith Gen.C12.methods Gen.C12.routes typed i obs = relayOut i p ∧
    (relayOut i p).rpcs = [] ∧
    (∃ d, (relayOut i p).dreqs = [d] ∧ d.method = i.method ∧ d.query = i.query ∧ d.hdrs = i.hdrs ∧ d.body = i.body ∧
        pctDecode false d.path = some p ∧ (rfcValidPath i.path = true → d.path = i.path)) ∧
    holds i (relayOut i p) = true := by
  obtain ⟨h1, h2⟩ := relay_holds typed i obs p hb hd hcls hcl
  refine ⟨h1, rfl, ⟨_, rfl, rfl, rfl, rfl, rfl, ?_, ?_⟩, h2⟩
  · exact fwdPath_decodes _ _ hd (pctDecode_lt false i.path p hb hd)
  · intro hr; exact fwdPath_of_rfc _ _ hr

example : classify "DELETE" (b!"/api/v0/pin/add") = none ∧ isClean (b!"/api/v0/pin/add") = true := by decide

/-- a hijacked request (clean path) makes exactly the two helper requests of setHeaders; none of them is the
    request itself, and none is — under any method that can execute a command — the endpoint it replaces -/
theorem never_forwarded_mutation (typed : Bool) (i : Input) (obs : AddObs) (p : Bytes) (ep : Endpoint) (sl : Option Bytes)
    (hd : pctDecode false i.path = some p) (hcl : isClean p = true)
    (hcls : classify i.method p = some (ep, sl)) (hx : endpointOfPath i.env.extractPath = none) :
    (runWith Gen.C12.methods Gen.C12.routes typed i obs).dreqs = helperReqs i p ∧
    ∀ d ∈ helperReqs i p,
      ¬ (d.method = i.method ∧ pctDecode false d.path = some p) ∧
      (d.method = "OPTIONS" ∨ d.method = "HEAD" ∨ endpointOfPath d.path ≠ some ep) := by
  obtain ⟨h, hh, hroute⟩ := (route_spec i.method i.path p hd hcl).2 ep sl hcls
  unfold route at hroute
  obtain ⟨hm, hseg⟩ := classify_segs _ _ _ hcls
  obtain ⟨hno, _⟩ := hijack_method_ne _ hm
  refine ⟨by simp [runWith, hroute, hd, mkOut], ?_⟩
  intro d hdm
  simp only [helperReqs, List.mem_cons, List.mem_nil_iff, or_false] at hdm
  rcases hdm with rfl | rfl
  · exact ⟨fun h => hno h.1.symm, Or.inl rfl⟩
  · refine ⟨fun h => ?_, Or.inr (Or.inr (by simp [hx]))⟩
    simp [endpointOfPath, h.2, hseg] at hx

/-- FULL statement: a hijacked request answered with an error performed no cluster operation -/
def error_no_op_full : Prop :=
  ∀ (i : Input) (obs : AddObs) (p : Bytes) (x : Endpoint × Option Bytes), WF i obs →
    pctDecode false i.path = some p → classify i.method p = some x →
    (run i obs).success = false → doneOps (run i obs) = []

/-- PARTIAL: … outside the corners K12b / K12c (extra hypothesis `corner … = false`), for either typing of the Unpin call -/
theorem error_no_op_partial (typed : Bool) (i : Input) (obs : AddObs) (p : Bytes) (x : Endpoint × Option Bytes)
    (hwf : WF i obs) (hd : pctDecode false i.path = some p) (hcls : classify i.method p = some x)
    (hc : corner typed i = false)
    (herr : (runWith Gen.C12.methods Gen.C12.routes typed i obs).success = false) :
    doneOps (runWith Gen.C12.methods Gen.C12.routes typed i obs) = [] := by
  obtain ⟨ep, sl⟩ := x
  have h := hijack_holds typed i obs p ep sl hwf hd hcls hc
  simp only [holds, clauses, hd, hcls, List.all_cons, List.all_nil, Bool.and_true, Bool.and_eq_true] at h
  have h3 := h.2.2.1
  simpa [herr] using h3

/-- today's code really answers an error after pinning (K12b): the full statement is false -/
theorem error_no_op_full_fails : ¬ error_no_op_full := by
  intro h
  have := h witUpdate { root := [], items := [[]] } (b!"/api/v0/pin/update") (.pinUpdate, none) witUpdate_wf
    (by decide) (by decide) (by decide)
  revert this
  decide

/-- FULL statement: every clause of the property on every well-formed input -/
def C12_full : Prop := ∀ (i : Input) (obs : AddObs), WF i obs → holds i (run i obs) = true

/-- PARTIAL: every clause of the property holds of the model on every well-formed input outside the three corners
    (extra hypothesis `corner … = false`), for either typing of the add handler's Unpin call -/
theorem run_holds_partial (typed : Bool) (i : Input) (obs : AddObs) (hwf : WF i obs) (hc : corner typed i = false) :
    holds i (runWith Gen.C12.methods Gen.C12.routes typed i obs) = true := by
  cases hd : pctDecode false i.path with
  | none => simp [holds, clauses, hd]
  | some p =>
    cases hcls : classify i.method p with
    | some x => exact hijack_holds typed i obs p x.1 x.2 hwf hd hcls hc
    | none =>
      have hcl : isClean p = true := by simpa [corner, hd, hcls] using hc
      rw [(relay_holds typed i obs p hwf.bytes hd hcls hcl).1]
      exact (relay_holds typed i obs p hwf.bytes hd hcls hcl).2

/-- with a well-typed Unpin call (the repaired add handler) the add corner shrinks to "the Unpin itself fails" -/
theorem corner_typed_add (i : Input) (p : Bytes) (sl : Option Bytes) (hd : pctDecode false i.path = some p)
    (hcls : classify i.method p = some (.add, sl)) (hu : i.env.fail .unpin = false) : corner true i = false := by
  simp [corner, hd, hcls, hu]

/-- the three corners are real: each witness is well-formed and fails a clause on the model of today's code -/
theorem C12_full_fails : ¬ C12_full := by
  intro h
  have := h witRedirect _ witRedirect_wf
  revert this
  decide

theorem update_corner_fails : holds witUpdate (run witUpdate { root := [], items := [[]] }) = false := by decide
/-- add?pin=false with the ill-typed Unpin argument (today's source: `typedUnpinNow = false`) -/
theorem add_nopin_corner_fails :
    holds witAdd (runWith Gen.C12.methods Gen.C12.routes false witAdd { root := [7], items := [[7]] }) = false := by decide
theorem redirect_corner_fails : holds witRedirect (run witRedirect { root := [], items := [[]] }) = false := by decide

/-- add?pin=false with the well-typed Unpin argument (source since fix 227da32) when the trailing Unpin RPC fails:
    the content was added and pinned, the answer carries an error (what remains of K32) -/
theorem add_unpin_fails_corner :
    holds { witAdd with env := { witAdd.env with fails := [.unpin] } }
      (runWith Gen.C12.methods Gen.C12.routes true { witAdd with env := { witAdd.env with fails := [.unpin] } }
        { root := [7], items := [[7]] }) = false := by decide

/-- … and it is met when that Unpin goes through -/
theorem add_nopin_typed_ok :
    holds witAdd (runWith Gen.C12.methods Gen.C12.routes true witAdd { root := [7], items := [[7]] }) = true := by decide

/-- a non-trivial input outside the corners: POST /api/v0/pin/add/<arg>?type=direct -/
example : corner false { witAdd with path := b!"/api/v0/pin/add/x", query := some (b!"type=direct") } = false := by decide

end CV.C12
