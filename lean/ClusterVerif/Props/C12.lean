/-
C12 — property theorems.

* `hijack_exact`: the table regenerated from today's `ipfsproxy.New` is the frozen expectation (decide).
* `route_eq_classify`: the model's gorilla/mux router over that table classifies every (method, path) exactly
  as the property's definition of a hijacked request (`classify`), for all strings.
* `relay_identity`: every non-hijacked request with a clean path is relayed unchanged and answered with the
  daemon's response; all relay clauses of the Spec hold.
* `never_forwarded_mutation`: a hijacked request reaches the daemon neither as itself nor as the call it replaces.
* `error_no_op_partial` / `error_no_op_full_fails`: an error answer means no cluster operation, except in the
  two corners today's code has (pin/update whose final Unpin fails; add?pin=false), witnessed in Lean.
* `run_holds_partial` / `C12_full_fails`: every clause of the property on every input outside the three corners
  (K12a unclean relayed path, K12b, K12c; round 8c: K12d repo/gc trailer); the corners really fail.
The model is tied to the code by the correspondence run (checks/C12.py).
-/
import ClusterVerif.Lemmas.C12Flow
namespace CV.C12

/-- the hijack table regenerated from today's ipfsproxy.New is exactly the frozen expectation -/
theorem hijack_exact :
    Gen.C12.methods = hijackMethods ∧
    Gen.C12.pathPrefix = "/api/v0" ∧
    Gen.C12.routes.map (fun r => (r.segs, r.handler, r.slash)) = expectedRoutes ∧
    Gen.C12.routes.map patsOf = Gen.C12.routes.map (fun r => r.segs.map compileSeg) ∧
    Gen.C12.topRoutes = [("PathPrefix", "/", "reverseProxy")] ∧
    Gen.C12.topAfterHijack = true ∧
    Gen.C12.routerOptions = [] ∧
    Gen.C12.unknownRegistrations = [] ∧
    Gen.C12.reverseProxyCtor = "httputil.NewSingleHostReverseProxy" ∧
    Gen.C12.reverseProxyFields = ["Transport"] ∧
    Gen.C12.pinOps = [("pinHandler", "PinPath"), ("unpinHandler", "UnpinPath")] ∧
    Gen.C12.slashSetsArg = true := by
  decide

/-- for every method and every decoded path, the first matching route of today's table (if the method is one
    the sub-router accepts) serves exactly the endpoint, with exactly the slash argument, that the property's
    definition of a hijacked request names — and nothing else is hijacked -/
theorem route_eq_classify (m : String) (p : Bytes) :
    (if Gen.C12.methods.contains m then
        (routeSegs Gen.C12.routes (splitOn 47 p)).map (fun x => (endpointOfHandler x.1, x.2))
      else none)
      = (classify m p).map (fun x => (some x.1, x.2)) := by
  rw [methods_eq]
  unfold classify
  split_ifs
  · exact routeSegs_eq_classifySegs _
  · rfl

example : route "POST" (b!"/api/v0/pin/add/QmFoo") = .hijack "pinHandler" (some (b!"QmFoo")) := by decide
example : route "DELETE" (b!"/api/v0/pin/add/QmFoo") = .relay := by decide
example : route "POST" (b!"/api/v0/pin/add/") = .relay := by decide
example : route "GET" (b!"/api/v0/p%69n/ls") = .hijack "pinLsHandler" none := by decide

/-- every other request (clean path): one daemon request, identical in method, path (byte-identical when the raw
    path is RFC 3986-valid, the same decoded path otherwise), query, headers and body; the daemon's status, body
    and header are returned; no cluster RPC. Stated for either typing of the add handler's Unpin call. -/
theorem relay_identity (typed : Bool) (i : Input) (obs : AddObs) (p : Bytes)
    (hb : ∀ c ∈ i.path, c < 256) (hd : pctDecode false i.path = some p)
    (hcls : classify i.method p = none) (hcl : isClean p = true) :
    runWith Gen.C12.methods Gen.C12.routes typed i obs = relayOut i p ∧
    (relayOut i p).rpcs = [] ∧
    (∃ d, (relayOut i p).dreqs = [d] ∧ d.method = i.method ∧ d.query = i.query ∧ d.hdrs = i.hdrs ∧ d.body = i.body ∧
        pctDecode false d.path = some p ∧ (rfcValidPath i.path = true → d.path = i.path)) ∧
    holds i (relayOut i p) = true := by
  obtain ⟨h1, h2⟩ := relay_holds typed i obs p hb hd hcls hcl
  refine ⟨h1, rfl, ⟨_, rfl, rfl, rfl, rfl, rfl, ?_, ?_⟩, h2⟩
  · exact fwdPath_decodes _ _ hd (pctDecode_lt false i.path p hb hd)
  · intro hr; exact fwdPath_of_rfc _ _ hr

example : classify "DELETE" (b!"/api/v0/pin/add") = none ∧ isClean (b!"/api/v0/pin/add") = true := by decide

/-- a hijacked request (clean path) makes exactly the two helper requests of setHeaders; none of them is the
    request itself, and none is — under any method that can execute a command — the endpoint it replaces -/
theorem never_forwarded_mutation (typed : Bool) (i : Input) (obs : AddObs) (p : Bytes) (ep : Endpoint) (sl : Option Bytes)
    (hd : pctDecode false i.path = some p) (hcl : isClean p = true)
    (hcls : classify i.method p = some (ep, sl)) (hx : endpointOfPath i.env.extractPath = none) :
    (runWith Gen.C12.methods Gen.C12.routes typed i obs).dreqs = helperReqs i p ∧
    ∀ d ∈ helperReqs i p,
      ¬ (d.method = i.method ∧ pctDecode false d.path = some p) ∧
      (d.method = "OPTIONS" ∨ d.method = "HEAD" ∨ endpointOfPath d.path ≠ some ep) := by
  obtain ⟨h, hh, hroute⟩ := (route_spec i.method i.path p hd hcl).2 ep sl hcls
  unfold route at hroute
  obtain ⟨hm, hseg⟩ := classify_segs _ _ _ hcls
  obtain ⟨hno, _⟩ := hijack_method_ne _ hm
  refine ⟨by simp [runWith, hroute, hd, mkOut], ?_⟩
  intro d hdm
  simp only [helperReqs, List.mem_cons, List.mem_nil_iff, or_false] at hdm
  rcases hdm with rfl | rfl
  · exact ⟨fun h => hno h.1.symm, Or.inl rfl⟩
  · refine ⟨fun h => ?_, Or.inr (Or.inr (by simp [hx]))⟩
    simp [endpointOfPath, h.2, hseg] at hx

/-- FULL statement: a hijacked request answered with an error performed no cluster operation -/
def error_no_op_full : Prop :=
  ∀ (i : Input) (obs : AddObs) (p : Bytes) (x : Endpoint × Option Bytes), WF i obs →
    pctDecode false i.path = some p → classify i.method p = some x →
    (run i obs).success = false → doneOps (run i obs) = []

/-- PARTIAL: … outside the corners K12b / K12c (extra hypothesis `corner … = false`), for either typing of the Unpin call -/
theorem error_no_op_partial (typed : Bool) (i : Input) (obs : AddObs) (p : Bytes) (x : Endpoint × Option Bytes)
    (hwf : WF i obs) (hd : pctDecode false i.path = some p) (hcls : classify i.method p = some x)
    (hc : corner typed i = false)
    (herr : (runWith Gen.C12.methods Gen.C12.routes typed i obs).success = false) :
    doneOps (runWith Gen.C12.methods Gen.C12.routes typed i obs) = [] := by
  obtain ⟨ep, sl⟩ := x
  have h := hijack_holds typed i obs p ep sl hwf hd hcls hc
  simp only [holds, clauses, hd, hcls, List.all_cons, List.all_nil, Bool.and_true, Bool.and_eq_true] at h
  have h3 := h.2.2.1
  simpa [herr] using h3

/-- today's code really answers an error after pinning (K12b): the full statement is false -/
theorem error_no_op_full_fails : ¬ error_no_op_full := by
  intro h
  have := h witUpdate { root := [], items := [[]] } (b!"/api/v0/pin/update") (.pinUpdate, none) witUpdate_wf
    (by decide) (by decide) (by decide)
  revert this
  decide

/-- FULL statement: every clause of the property on every well-formed input -/
def C12_full : Prop := ∀ (i : Input) (obs : AddObs), WF i obs → holds i (run i obs) = true

/-- PARTIAL: every clause of the property holds of the model on every well-formed input outside the three corners
    (extra hypothesis `corner … = false`), for either typing of the add handler's Unpin call -/
theorem run_holds_partial (typed : Bool) (i : Input) (obs : AddObs) (hwf : WF i obs) (hc : corner typed i = false) :
    holds i (runWith Gen.C12.methods Gen.C12.routes typed i obs) = true := by
  cases hd : pctDecode false i.path with
  | none => simp [holds, clauses, hd]
  | some p =>
    cases hcls : classify i.method p with
    | some x => exact hijack_holds typed i obs p x.1 x.2 hwf hd hcls hc
    | none =>
      have hcl : isClean p = true := by simpa [corner, hd, hcls] using hc
      rw [(relay_holds typed i obs p hwf.bytes hd hcls hcl).1]
      exact (relay_holds typed i obs p hwf.bytes hd hcls hcl).2

/-- with a well-typed Unpin call (the repaired add handler) the add corner shrinks to "the Unpin itself fails" -/
theorem corner_typed_add (i : Input) (p : Bytes) (sl : Option Bytes) (hd : pctDecode false i.path = some p)
    (hcls : classify i.method p = some (.add, sl)) (hu : i.env.fail .unpin = false) : corner true i = false := by
  simp [corner, hd, hcls, hu]

/-- the three corners are real: each witness is well-formed and fails a clause on the model of today's code -/
theorem C12_full_fails : ¬ C12_full := by
  intro h
  have := h witRedirect _ witRedirect_wf
  revert this
  decide

theorem update_corner_fails : holds witUpdate (run witUpdate { root := [], items := [[]] }) = false := by decide
/-- add?pin=false with the ill-typed Unpin argument (today's source: `typedUnpinNow = false`) -/
theorem add_nopin_corner_fails :
    holds witAdd (runWith Gen.C12.methods Gen.C12.routes false witAdd { root := [7], items := [[7]] }) = false := by decide
theorem redirect_corner_fails : holds witRedirect (run witRedirect { root := [], items := [[]] }) = false := by decide

/-- add?pin=false with the well-typed Unpin argument (source since fix 227da32) when the trailing Unpin RPC fails:
    the content was added and pinned, the answer carries an error (what remains of K32) -/
theorem add_unpin_fails_corner :
    holds { witAdd with env := { witAdd.env with fails := [.unpin] } }
      (runWith Gen.C12.methods Gen.C12.routes true { witAdd with env := { witAdd.env with fails := [.unpin] } }
        { root := [7], items := [[7]] }) = false := by decide

/-- … and it is met when that Unpin goes through -/
theorem add_nopin_typed_ok :
    holds witAdd (runWith Gen.C12.methods Gen.C12.routes true witAdd { root := [7], items := [[7]] }) = true := by decide

/-! ### round 8c: the repo/gc corner (K12d) -/

/-- K12d is real on the model of today's code: `POST /api/v0/repo/gc`, a peer's collection failed, no
    `stream-errors=true`: 200 + `X-Stream-Error` although `Cluster.RepoGC` ran (`hijack_error_no_op`) -/
theorem repoGC_corner_fails : holds witGC (run witGC { root := [], items := [[]] }) = false := by decide

/-- … and ONLY `hijack_error_no_op` fails on it -/
theorem repoGC_corner_only_error_no_op :
    ((clauses witGC (run witGC { root := [], items := [[]] })).filter (fun c => !c.2)).map (·.1) = ["hijack_error_no_op"] := by
  decide

/-- the same collection with `stream-errors=true` (errors travel in the body): the property holds, not a corner -/
theorem repoGC_stream_errors_ok :
    holds { witGC with query := some (b!"stream-errors=true") }
      (run { witGC with query := some (b!"stream-errors=true") } { root := [], items := [[]] }) = true ∧
    corner typedUnpinNow { witGC with query := some (b!"stream-errors=true") } = false := by decide

/-- the repo/gc corner is exactly "the collection reported an error and the request does not say `stream-errors=true`"
    (the literal spelling; the first value wins), for every request that classifies as repo/gc -/
theorem corner_repoGC_iff (typed : Bool) (i : Input) (p : Bytes) (sl : Option Bytes) (hd : pctDecode false i.path = some p)
    (hcls : classify i.method p = some (.repoGC, sl)) :
    corner typed i = true ↔ i.env.gcErr ≠ 0 ∧ qGet (parseQuery (i.query.getD [])) b!"stream-errors" ≠ b!"true" := by
  simp [corner, hd, hcls, gcSerr]

/-- a collection without errors is never in the corner, whatever the query -/
theorem corner_repoGC_clean (typed : Bool) (i : Input) (p : Bytes) (sl : Option Bytes) (hd : pctDecode false i.path = some p)
    (hcls : classify i.method p = some (.repoGC, sl)) (h0 : i.env.gcErr = 0) : corner typed i = false := by
  simp [corner, hd, hcls, gcSerr, h0]

/-- the model's repo/gc answer for EVERY environment and query: an RPC failure is a plain 500 and nothing ran; otherwise
    200, the RPC succeeded, and the trailer is set iff `gcSerr` — so an error answer after the operation is exactly K12d -/
theorem repoGC_model_shape (e : Env) (q : List (Bytes × Bytes)) :
    (e.fail .repoGC = true → repoGCH e q = { status := 500, rpcs := [{ name := .repoGC, ok := false }] }) ∧
    (e.fail .repoGC = false → (repoGCH e q).status = 200 ∧ (repoGCH e q).rpcs = [{ name := .repoGC }] ∧
      ((repoGCH e q).serr = true ↔ e.gcErr ≠ 0 ∧ qGet q b!"stream-errors" ≠ b!"true")) := by
  constructor
  · intro h; simp [repoGCH, h]
  · intro h; simp [repoGCH, h, gcSerr]

example : classify witGC.method (b!"/api/v0/repo/gc") = some (.repoGC, none) ∧ corner typedUnpinNow witGC = true ∧
    gcSerr { gcErr := 2 } [(b!"stream-errors", b!"True")] = true := by decide

/-! ## Round 8: the relay set-up of `New` (transport, timeouts) interpreted by the model -/

/-- the relay set-up regenerated from today's `New` is the frozen expectation: `http.DefaultTransport` with no field
    set, shared with the header-extraction helper; the client-facing server takes its four timeouts from the
    configuration fields of the same name and serves the (optionally traced) router behind the logging handler only -/
theorem relay_setup_exact :
    Gen.C12.relayTransport = .defaultTransport ∧
    Gen.C12.relayTransportFields = [] ∧
    Gen.C12.headerRoundTripper = "reverseProxy.Transport" ∧
    Gen.C12.serverFields =
      [("ReadTimeout", .cfg .readTimeout), ("WriteTimeout", .cfg .writeTimeout),
       ("ReadHeaderTimeout", .cfg .readHeaderTimeout), ("IdleTimeout", .cfg .idleTimeout),
       ("Handler", .other "handlers.LoggingHandler(writer, handler)"), ("MaxHeaderBytes", .other "cfg.MaxHeaderBytes")] ∧
    Gen.C12.serverCalls = ["SetKeepAlivesEnabled(true)"] ∧
    Gen.C12.handlerChain = ["router", "&ochttp.Handler{Handler: router}"] ∧
    Gen.C12.relaySetupProblems = [] ∧
    relaySetupUnderstood Gen.C12.relayTransport Gen.C12.relayTransportFields = true := by
  decide

/-- SEMANTIC tie: whatever the configuration, today's relay transport puts NO bound on the time the daemon takes to
    start answering (no timeout shorter than the client's own patience cuts a relayed call) -/
theorem relay_no_ttfb_bound (c : Timeouts) :
    ttfbBound Gen.C12.relayTransport Gen.C12.relayTransportFields c = none := by
  cases c; rfl

/-- characterisation for EVERY understood set-up: the relay waits for ever iff it is the default transport, or a
    transport literal whose `ResponseHeaderTimeout` is unset or evaluates to 0 under the configuration -/
theorem ttfbBound_none_iff (k : Gen.C12.TransportKind) (fs : List (String × Gen.C12.Dur)) (c : Timeouts)
    (hu : relaySetupUnderstood k fs = true) :
    ttfbBound k fs c = none ↔
      (k = .defaultTransport ∨ fieldVal fs "ResponseHeaderTimeout" = none ∨
       ∃ d, fieldVal fs "ResponseHeaderTimeout" = some d ∧ durMs c d = some 0) := by
  cases k with
  | defaultTransport => simp [ttfbBound]
  | unknown e => simp [relaySetupUnderstood] at hu
  | transportLit =>
    cases hf : fieldVal fs "ResponseHeaderTimeout" with
    | none => simp [ttfbBound, hf]
    | some d =>
      cases d with
      | other e => simp [relaySetupUnderstood, hf] at hu
      | ms n => cases n <;> simp [ttfbBound, hf, durMs]
      | cfg f =>
        cases f <;> simp only [ttfbBound, hf, durMs] <;> split <;> simp_all

/-- a set-up without a bound behaves, on EVERY request and for every daemon delay, exactly like the model without
    the set-up (so all theorems about `runWith` carry over) -/
theorem runT_eq_of_no_bound (k : Gen.C12.TransportKind) (fs : List (String × Gen.C12.Dur))
    (h : ∀ c, ttfbBound k fs c = none) (mths : List String) (tbl : List Gen.C12.Route) (typed : Bool)
    (i : Input) (obs : AddObs) :
    runT k fs mths tbl typed i obs = runWith mths tbl typed i obs := by
  unfold runT runWith timedOut
  rw [h]
  cases routeWith mths tbl i.method i.path <;> simp

/-- today's code, for every request, every configuration of the four timeouts, every daemon delay and pause -/
theorem runNow_eq_run (i : Input) (obs : AddObs) : runNow i obs = run i obs :=
  runT_eq_of_no_bound _ _ relay_no_ttfb_bound _ _ _ i obs

/-- a relayed call is answered with the daemon's answer HOWEVER slow the daemon is and whatever timeouts are
    configured (name/publish, dht/*, cat of remote content …): all relay clauses hold -/
theorem slow_daemon_relayed (i : Input) (obs : AddObs) (p : Bytes)
    (hb : ∀ c ∈ i.path, c < 256) (hd : pctDecode false i.path = some p)
    (hcls : classify i.method p = none) (hcl : isClean p = true) :
    runNow i obs = relayOut i p ∧ (runNow i obs).status = i.env.dStatus ∧ holds i (runNow i obs) = true := by
  have h := relay_identity typedUnpinNow i obs p hb hd hcls hcl
  have e : runNow i obs = relayOut i p := by rw [runNow_eq_run]; exact h.1
  exact ⟨e, by rw [e]; rfl, by rw [e]; exact h.2.2.2⟩

/-- the whole property on today's model, set-up included (outside the three known corners) -/
theorem runNow_holds_partial (i : Input) (obs : AddObs) (hwf : WF i obs) (hc : corner typedUnpinNow i = false) :
    holds i (runNow i obs) = true := by
  rw [runNow_eq_run]; exact run_holds_partial typedUnpinNow i obs hwf hc

/-- the set-up a realistic edit introduces: a dedicated `http.Transport` whose `ResponseHeaderTimeout` follows the
    proxy's `read_header_timeout` -/
def headerTimeoutSetup : List (String × Gen.C12.Dur) :=
  [("IdleConnTimeout", .cfg .idleTimeout), ("ResponseHeaderTimeout", .cfg .readHeaderTimeout)]

/-- REFUTATION of that alternative, for ALL inputs: every relayed request (clean path) whose daemon needs longer
    than a non-zero `read_header_timeout` and whose answer is not itself an empty 502 breaks `relay_response` -/
theorem header_timeout_breaks_relay (typed : Bool) (i : Input) (obs : AddObs) (p : Bytes)
    (hd : pctDecode false i.path = some p) (hcls : classify i.method p = none) (hcl : isClean p = true)
    (hpos : 0 < i.env.cfg.readHeader) (hslow : i.env.cfg.readHeader < i.env.dDelay) (hst : i.env.dStatus ≠ 502) :
    runT .transportLit headerTimeoutSetup Gen.C12.methods Gen.C12.routes typed i obs = gatewayOut i p ∧
    holds i (runT .transportLit headerTimeoutSetup Gen.C12.methods Gen.C12.routes typed i obs) = false := by
  have hroute := (route_spec i.method i.path p hd hcl).1 hcls
  unfold route at hroute
  have hb : ttfbBound .transportLit headerTimeoutSetup i.env.cfg = some i.env.cfg.readHeader := by
    cases hc : i.env.cfg with
    | mk rh idle rd wr =>
      simp only [hc] at hpos
      cases rh with
      | zero => omega
      | succ n => rfl
  have hto : timedOut .transportLit headerTimeoutSetup i.env = true := by
    simp [timedOut, hb, hslow]
  have hrun : runT .transportLit headerTimeoutSetup Gen.C12.methods Gen.C12.routes typed i obs = gatewayOut i p := by
    simp [runT, hroute, hto, hd]
  refine ⟨hrun, ?_⟩
  rw [hrun]
  have : (502 == i.env.dStatus) = false := by
    simp; exact fun h => hst h.symm
  simp [holds, clauses, hd, hcls, gatewayOut, relayOut, this]

/-- a concrete slow call: POST /api/v0/name/publish, read_header_timeout 300 ms, daemon answers after 600 ms -/
def witSlow : Input :=
  { method := "POST", path := b!"/api/v0/name/publish", query := some (b!"arg=x"), hdrs := [], body := [],
    env := { dBody := [1, 2, 3], extractPath := b!"/api/v0/version", cfg := { readHeader := 300, idle := 200 }, dDelay := 600 } }

example : classify witSlow.method (b!"/api/v0/name/publish") = none ∧ isClean (b!"/api/v0/name/publish") = true ∧
    0 < witSlow.env.cfg.readHeader ∧ witSlow.env.cfg.readHeader < witSlow.env.dDelay ∧ witSlow.env.dStatus ≠ 502 := by decide

/-- … today's model relays it (200 with the daemon's body), the edited set-up answers 502 -/
theorem slow_witness :
    (runNow witSlow {}).status = 200 ∧ (runNow witSlow {}).body = [1, 2, 3] ∧ holds witSlow (runNow witSlow {}) = true ∧
    (runT .transportLit headerTimeoutSetup Gen.C12.methods Gen.C12.routes true witSlow {}).status = 502 := by decide

/-- a bound that does not fire (daemon faster than the timeout, or timeout 0) leaves the relay alone, for ANY set-up -/
theorem runT_eq_of_fast (k : Gen.C12.TransportKind) (fs : List (String × Gen.C12.Dur)) (mths : List String)
    (tbl : List Gen.C12.Route) (typed : Bool) (i : Input) (obs : AddObs)
    (h : ∀ t, ttfbBound k fs i.env.cfg = some t → i.env.dDelay ≤ t) :
    runT k fs mths tbl typed i obs = runWith mths tbl typed i obs := by
  have hto : timedOut k fs i.env = false := by
    unfold timedOut
    cases hb : ttfbBound k fs i.env.cfg with
    | none => rfl
    | some t => have := h t hb; simp; omega
  unfold runT runWith
  rw [hto]
  cases routeWith mths tbl i.method i.path <;> simp

/-- hijacked requests do not go through the relay transport's response path: the set-up never changes their answer -/
theorem runT_hijack_indep (k : Gen.C12.TransportKind) (fs : List (String × Gen.C12.Dur)) (typed : Bool)
    (i : Input) (obs : AddObs) (h : String) (arg : Option Bytes)
    (hr : routeWith Gen.C12.methods Gen.C12.routes i.method i.path = .hijack h arg) :
    runT k fs Gen.C12.methods Gen.C12.routes typed i obs = runWith Gen.C12.methods Gen.C12.routes typed i obs := by
  simp [runT, hr]

/-- Prop-level reading of the Bool checker: `holds` is exactly "every named clause is true" -/
theorem holds_iff (i : Input) (o : Output) : holds i o = true ↔ ∀ c ∈ clauses i o, c.2 = true := by
  simp [holds, List.all_eq_true]

/-- the proxy keeps no state between requests in the model: the answer to a request sequence is the per-request
    answer of each (memoryless), so every per-request theorem holds along every history -/
theorem history_holds (l : List (Input × AddObs))
    (h : ∀ x ∈ l, WF x.1 x.2 ∧ corner typedUnpinNow x.1 = false) :
    ∀ x ∈ l.map (fun x => (x.1, runNow x.1 x.2)), holds x.1 x.2 = true := by
  intro x hx
  obtain ⟨y, hy, rfl⟩ := List.mem_map.1 hx
  exact runNow_holds_partial y.1 y.2 (h y hy).1 (h y hy).2

/-- a non-trivial input outside the corners: POST /api/v0/pin/add/<arg>?type=direct -/
example : corner false { witAdd with path := b!"/api/v0/pin/add/x", query := some (b!"type=direct") } = false := by decide


/-! ## Round 8b: the handlers as regenerated decision structures, INTERPRETED (Model/C12Flow.lean)

`Gen.C12.*Flow` is regenerated from the handler bodies on every run (harness/extract_c12/flow.go). The theorems below are
stated over the regenerated structures themselves; numbers are positions in `Gen.C12.flowSyms` (see `flow_syms_used`). -/
open CV.Gen.C12 (Step StepKind Arm)

/-- the regenerated handler structures and their symbol table are the frozen expectation, and the translator understood
    every statement that touches the response writer or the RPC client -/
theorem flow_exact :
    Gen.C12.pinOpHandlerFlow = Expected.pinOpHandlerFlow ∧ Gen.C12.pinLsHandlerFlow = Expected.pinLsHandlerFlow ∧
    Gen.C12.pinUpdateHandlerFlow = Expected.pinUpdateHandlerFlow ∧ Gen.C12.addHandlerFlow = Expected.addHandlerFlow ∧
    Gen.C12.repoStatHandlerFlow = Expected.repoStatHandlerFlow ∧ Gen.C12.repoGCHandlerFlow = Expected.repoGCHandlerFlow ∧
    Gen.C12.flowSyms = Expected.flowSyms ∧ Gen.C12.flowProblems = [] :=
  ⟨rfl, rfl, rfl, rfl, rfl, rfl, rfl, rfl⟩

/-- the symbols the theorems below mention by number -/
theorem flow_syms_used :
    Gen.C12.flowSyms[4]? = some "Cluster" ∧ Gen.C12.flowSyms[5]? = some "$op" ∧ Gen.C12.flowSyms[27]? = some "PinPath" ∧
    Gen.C12.flowSyms[30]? = some "Unpin" ∧ Gen.C12.flowSyms[57]? = some "RepoGC" ∧
    Gen.C12.flowSyms[1]? = some "r.URL.Query().Get(\"arg\")" ∧
    Gen.C12.flowSyms[9]? = some "r.URL.Query().Get(\"arg\") != \"\"" ∧
    Gen.C12.flowSyms[20]? = some "r.URL.Query()[\"arg\"][0]" ∧ Gen.C12.flowSyms[21]? = some "r.URL.Query()[\"arg\"][1]" ∧
    Gen.C12.flowSyms[29]? = some "!(r.URL.Query().Get(\"unpin\") == \"false\")" ∧
    Gen.C12.flowSyms[34]? = some "r.URL.Query().Get(\"only-hash\") == \"true\"" ∧
    Gen.C12.flowSyms[40]? = some "!(r.URL.Query().Get(\"pin\") == \"false\")" ∧
    Gen.C12.flowSyms[41]? = some "api.PinCid(root)" ∧ Gen.C12.flowSyms[31]? = some "api.PinCid(fromCid)" ∧
    Gen.C12.flowSyms[51]? = some "err != nil" ∧ Gen.C12.flowSyms[50]? = some "range errs" := by
  refine ⟨rfl, rfl, rfl, rfl, rfl, rfl, rfl, rfl, rfl, rfl, rfl, rfl, rfl, rfl, rfl, rfl⟩

/-- every regenerated handler is well formed: each step that can fail has an error arm that RETURNS, answers at most
    once and with an error status; each free-standing error answer is followed by `return`; no success status ≥ 400;
    nothing the translator did not understand -/
theorem flows_wf : allFlows.all wfFlow = true := by decide

/-- ALL six handlers, EVERY valuation of their conditions, EVERY failure script (which checks reject, which RPCs fail):
    once an error is detected or answered no RPC / add is issued any more, and an error status is the last thing the
    handler does (no second answer either). Proved for every well-formed flow (`interp_quiet`, `interp_errFinal`),
    not by enumeration. -/
theorem handlers_error_then_nothing (v f : Nat → Bool) :
    ∀ fl ∈ allFlows, quietAfterError (interp v f 0 fl) = true ∧ errFinal (interp v f 0 fl) = true := by
  intro fl hfl
  have hwf : wfFlow fl = true := (List.all_eq_true.mp flows_wf) fl hfl
  exact ⟨interp_quiet v f fl 0 hwf, interp_errFinal v f fl 0 hwf⟩

/-- the general statement behind it, for every flow a future handler may be translated to -/
theorem wf_flow_error_then_nothing (steps : List Step) (hwf : wfFlow steps = true) (v f : Nat → Bool) (k : Nat) :
    quietAfterError (interp v f k steps) = true ∧ errFinal (interp v f k steps) = true :=
  ⟨interp_quiet v f steps k hwf, interp_errFinal v f steps k hwf⟩

example : wfFlow Gen.C12.pinUpdateHandlerFlow = true ∧
    interp (fun a => a == 29) (fun k => k == 9) 0 Gen.C12.pinUpdateHandlerFlow =
      [.op 22 23 24 true, .set 25 26, .op 4 27 28 false, .resp 500] := by decide

theorem one_response_table : allFlows.all (flowAll (fun evs => respCount evs == 1)) = true := by decide

/-- exactly one answer per request: all six handlers, every valuation, every failure script -/
theorem handlers_one_response (v f : Nat → Bool) : ∀ fl ∈ allFlows, respCount (interp v f 0 fl) = 1 := by
  intro fl hfl
  have h := flow_forall (fun evs => respCount evs == 1) fl ((List.all_eq_true.mp one_response_table) fl hfl) v f
  simpa using h

/-- `error_no_op` at FULL strength for pin add / pin rm / pin ls / repo stat: an answer that tells the client about
    an error (error status, X-Stream-Error) means that no cluster operation was performed at all -/
theorem flow_error_no_op_full (v f : Nat → Bool) :
    ∀ fl ∈ [Gen.C12.pinOpHandlerFlow, Gen.C12.pinLsHandlerFlow, Gen.C12.repoStatHandlerFlow],
      errNoOp (interp v f 0 fl) = true := by
  intro fl hfl
  have ht : [Gen.C12.pinOpHandlerFlow, Gen.C12.pinLsHandlerFlow, Gen.C12.repoStatHandlerFlow].all (flowAll errNoOp) = true := by decide
  exact flow_forall errNoOp fl ((List.all_eq_true.mp ht) fl hfl) v f

/-- pin/update, add and repo/gc do NOT have it at full strength (K31, K32 at the level of the code's structure; repo/gc:
    `X-Stream-Error` is set after the collection ran, when a peer or a key reported an error and `stream-errors` is not "true") … -/
def flow_error_no_op_full_repoGC : Prop := ∀ v f : Nat → Bool, errNoOp (interp v f 0 Gen.C12.repoGCHandlerFlow) = true
def flow_error_no_op_full_update : Prop := ∀ v f : Nat → Bool, errNoOp (interp v f 0 Gen.C12.pinUpdateHandlerFlow) = true
def flow_error_no_op_full_add : Prop := ∀ v f : Nat → Bool, errNoOp (interp v f 0 Gen.C12.addHandlerFlow) = true

theorem flow_error_no_op_full_update_fails : ¬ flow_error_no_op_full_update := by
  intro h
  have := h (fun a => a == 29) (fun k => k == 10)
  revert this
  decide

theorem flow_error_no_op_full_add_fails : ¬ flow_error_no_op_full_add := by
  intro h
  have := h (fun _ => false) (fun k => k == 8)
  revert this
  decide

theorem flow_error_no_op_full_repoGC_fails : ¬ flow_error_no_op_full_repoGC := by
  intro h
  have := h (fun a => a == 63) (fun _ => false)
  revert this
  decide

/-- … repo/gc: the ONLY way is the X-Stream-Error header set at the very end (guard 63: not stream-errors and the collected
    error string is not empty), after a 200 status: the RPC itself did not fail -/
theorem flow_error_no_op_partial_repoGC (v f : Nat → Bool) :
    errNoOp (interp v f 0 Gen.C12.repoGCHandlerFlow) = true ∨
      (v 63 = true ∧ interp v f 0 Gen.C12.repoGCHandlerFlow = [.op 4 57 16 true, .resp 200, .serr]) := by
  have h := flow_forallV (fun v evs => errNoOp evs || (v 63 && evs == [.op 4 57 16 true, .resp 200, .serr]))
    Gen.C12.repoGCHandlerFlow (by
      intro v v' evs h
      have e := h 63 (by decide)
      simp [e]) (by decide) v f
  simpa using h

/-- … and the ONLY way either of them answers an error after a cluster operation is the failing trailing
    `Cluster.Unpin` (of `api.PinCid(fromCid)` resp. `api.PinCid(root)`): every valuation, every failure script -/
theorem flow_error_no_op_partial (v f : Nat → Bool) :
    (errNoOp (interp v f 0 Gen.C12.pinUpdateHandlerFlow) = true ∨
      Ev.op 4 30 31 false ∈ interp v f 0 Gen.C12.pinUpdateHandlerFlow) ∧
    (errNoOp (interp v f 0 Gen.C12.addHandlerFlow) = true ∨
      Ev.op 4 30 41 false ∈ interp v f 0 Gen.C12.addHandlerFlow) := by
  have h1 := flow_forall (fun evs => errNoOp evs || evs.contains (Ev.op 4 30 31 false)) Gen.C12.pinUpdateHandlerFlow (by decide) v f
  have h2 := flow_forall (fun evs => errNoOp evs || evs.contains (Ev.op 4 30 41 false)) Gen.C12.addHandlerFlow (by decide) v f
  simp only [Bool.or_eq_true, List.contains_iff_mem] at h1 h2
  exact ⟨h1, h2⟩

/-! ### the success arm issues exactly the intended operation (argument expressions included) -/

def pinOpSuccess (evs : List Ev) : Bool :=
  anyFailed evs || (opsOf evs == [(4, 5, 6)] && statusOf evs == 200 && evs.contains (.set 2 3))

/-- pin add / pin rm: no failure ⇒ exactly one RPC `Cluster.$op(&api.PinPath{Path: p.String()})` with
    `pinPath.Mode = PinModeFromString(type)` set before it, answer 200 -/
theorem pinOp_flow_success (v f : Nat → Bool) : pinOpSuccess (interp v f 0 Gen.C12.pinOpHandlerFlow) = true :=
  flow_forall pinOpSuccess _ (by decide) v f

def pinLsSuccess (v : Nat → Bool) (evs : List Ev) : Bool :=
  anyFailed evs || (opsOf evs == (if v 9 then [(4, 11, 12)] else [(4, 15, 16)]) && statusOf evs == 200)

/-- pin ls: with an argument exactly `Cluster.PinGet(c)`, without exactly `Cluster.Pins`; answer 200 -/
theorem pinLs_flow_success (v f : Nat → Bool) : pinLsSuccess v (interp v f 0 Gen.C12.pinLsHandlerFlow) = true := by
  refine flow_forallV pinLsSuccess _ ?_ (by decide) v f
  intro v v' evs h
  have e := h 9 (by decide)
  simp [pinLsSuccess, e]

def pinUpdateSuccess (v : Nat → Bool) (evs : List Ev) : Bool :=
  if v 18 || v 19 then statusOf evs == 400 && !evs.any isOp
  else anyFailed evs ||
    (opsOf evs == [(22, 23, 24), (4, 27, 28)] ++ (if v 29 then [(4, 30, 31)] else []) && statusOf evs == 200 &&
      evs.contains (.set 25 26))

/-- pin update: fewer than two arguments ⇒ 400 and no RPC; otherwise, no failure ⇒ Resolve(from), PinPath(to) with
    `PinUpdate = fromCid`, then Unpin(PinCid(fromCid)) iff `unpin` is not "false"; answer 200 -/
theorem pinUpdate_flow_success (v f : Nat → Bool) : pinUpdateSuccess v (interp v f 0 Gen.C12.pinUpdateHandlerFlow) = true := by
  refine flow_forallV pinUpdateSuccess _ ?_ (by decide) v f
  intro v v' evs h
  have e1 := h 18 (by decide)
  have e2 := h 19 (by decide)
  have e3 := h 29 (by decide)
  simp [pinUpdateSuccess, e1, e2, e3]

def addSuccess (v : Nat → Bool) (evs : List Ev) : Bool :=
  if v 34 then isErr (statusOf evs) && !evs.any isOp
  else anyFailed evs || (evs.contains (.adder true) && opsOf evs == (if v 40 then [] else [(4, 30, 41)]))

/-- add: `only-hash=true` ⇒ an error and NOTHING is added or pinned (the fix dca1577 as a theorem over the structure);
    otherwise, no failure ⇒ the adder runs and `Cluster.Unpin(api.PinCid(root))` follows iff `pin=false` -/
theorem add_flow_success (v f : Nat → Bool) : addSuccess v (interp v f 0 Gen.C12.addHandlerFlow) = true := by
  refine flow_forallV addSuccess _ ?_ (by decide) v f
  intro v v' evs h
  have e1 := h 34 (by decide)
  have e2 := h 40 (by decide)
  simp [addSuccess, e1, e2]

def repoStatSuccess (v : Nat → Bool) (evs : List Ev) : Bool :=
  anyFailed evs ||
    (opsOf evs == [(42, 43, 16)] && evs.contains (.multi 22 49) && statusOf evs == 200 &&
      (evs.contains (.set 53 54) == (v 50 && !v 51)) && (evs.contains (.set 55 56) == (v 50 && !v 51)))

/-- repo stat: Consensus.Peers, then IPFSConnector.RepoStat on all peers; in the loop over the answers a peer's
    RepoSize and StorageMax are added to the totals iff that peer's call did not fail (`err != nil` ⇒ skipped); answer 200 -/
theorem repoStat_flow_success (v f : Nat → Bool) : repoStatSuccess v (interp v f 0 Gen.C12.repoStatHandlerFlow) = true := by
  refine flow_forallV repoStatSuccess _ ?_ (by decide) v f
  intro v v' evs h
  have e1 := h 50 (by decide)
  have e2 := h 51 (by decide)
  simp [repoStatSuccess, e1, e2]

def repoGCSuccess (evs : List Ev) : Bool := anyFailed evs || (opsOf evs == [(4, 57, 16)] && statusOf evs == 200)

theorem repoGC_flow_success (v f : Nat → Bool) : repoGCSuccess (interp v f 0 Gen.C12.repoGCHandlerFlow) = true :=
  flow_forall repoGCSuccess _ (by decide) v f

/-! ### refutations: what a realistic wrong edit of a handler does to the interpreted structure -/

/-- a dropped `return` after the ParsePath error of pinOpHandler: the flow is no longer well formed and, when ParsePath
    rejects the argument, the handler answers 500 and then STILL issues the cluster operation -/
theorem missing_return_refuted :
    let fl := editArm 1 (fun a => some { a with returns := false }) Gen.C12.pinOpHandlerFlow
    wfFlow fl = false ∧
    interp (fun _ => false) (fun k => k == 1) 0 fl = [.resp 500, .set 2 3, .op 4 5 6 true, .resp 200] ∧
    quietAfterError (interp (fun _ => false) (fun k => k == 1) 0 fl) = false ∧
    errNoOp (interp (fun _ => false) (fun k => k == 1) 0 fl) = false := by decide

/-- an error arm that answers 200 (the RPC failed, the client is told it worked) -/
theorem error_arm_200_refuted :
    let fl := editArm 3 (fun a => some { a with code := 200 }) Gen.C12.pinOpHandlerFlow
    wfFlow fl = false ∧ statusOf (interp (fun _ => false) (fun k => k == 3) 0 fl) = 200 ∧
    anyFailed (interp (fun _ => false) (fun k => k == 3) 0 fl) = true := by decide

/-- an ignored error (`p, _ := path.ParsePath(arg)`): the operation runs on whatever came back and 200 is answered -/
theorem ignored_error_refuted :
    let fl := editArm 1 (fun _ => none) Gen.C12.pinOpHandlerFlow
    wfFlow fl = false ∧ interp (fun _ => false) (fun k => k == 1) 0 fl = [.set 2 3, .op 4 5 6 true, .resp 200] := by decide

/-- pin/update that unpins before it pins (order of the two cluster operations swapped) is a different structure:
    its success trace is not the one `pinUpdate_flow_success` requires -/
theorem update_order_refuted :
    pinUpdateSuccess (fun a => a == 29)
      [.op 22 23 24 true, .op 4 30 31 true, .set 25 26, .op 4 27 28 true, .resp 200] = false := by decide

/-! ### the hand-written handler models (what the correspondence run compares with the real proxy) agree with the
    interpreted structures: same status, same RPC outcomes in the same order, for every environment and query -/

theorem pinOp_flow_agrees (e : Env) (q : List (Bytes × Bytes)) (op : RpcName) (v : Nat → Bool) :
    absEv (interp v (fun k => (k == 1 && (e.pp (qGet q b!"arg")).isNone) || (k == 3 && e.fail op)) 0
      Gen.C12.pinOpHandlerFlow) = (pinOpH e q op).abs := by
  cases hp : e.pp (qGet q b!"arg") <;> cases hf : e.fail op <;>
    simp [Gen.C12.pinOpHandlerFlow, interp, stepEvs, guardHolds, failTail, armEvs, armReturns, absEv, statusOf, opOks,
      pinOpH, HOut.abs, hp, hf]

theorem pinLs_flow_agrees (e : Env) (q : List (Bytes × Bytes)) (v : Nat → Bool)
    (hv : v 9 = !(qGet q b!"arg").isEmpty) :
    absEv (interp v (fun k => (k == 2 && (e.cd (qGet q b!"arg")).isNone) || (k == 3 && e.fail .pinGet) ||
      (k == 5 && e.fail .pins)) 0 Gen.C12.pinLsHandlerFlow) = (pinLsH e q).abs := by
  cases he : (qGet q b!"arg").isEmpty <;> cases hc : e.cd (qGet q b!"arg") <;> cases hg : e.fail .pinGet <;>
    cases hf : e.fail .pins <;> cases h17 : v 17 <;>
    simp [Gen.C12.pinLsHandlerFlow, interp, stepEvs, guardHolds, failTail, armEvs, armReturns, absEv, statusOf, opOks,
      pinLsH, HOut.abs, hv, he, hc, hg, hf, h17]

/-- repo/gc (round 8c: the trailer included): with atom 63 (`!streamErrors && mErrStr != ""`) read as `gcSerr`, the
    interpreted structure and the hand-written model agree on status, RPC outcomes AND on whether `X-Stream-Error` is set -/
theorem repoGC_flow_agrees (e : Env) (q : List (Bytes × Bytes)) (v : Nat → Bool) (h63 : v 63 = gcSerr e q) :
    absEv (interp v (fun k => k == 2 && e.fail .repoGC) 0 Gen.C12.repoGCHandlerFlow) = (repoGCH e q).abs ∧
    (interp v (fun k => k == 2 && e.fail .repoGC) 0 Gen.C12.repoGCHandlerFlow).contains .serr = (repoGCH e q).serr := by
  cases hf : e.fail .repoGC <;> cases h58 : v 58 <;> cases h59 : v 59 <;> cases h60 : v 60 <;> cases h61 : v 61 <;>
    cases hg : gcSerr e q <;>
    simp [Gen.C12.repoGCHandlerFlow, interp, stepEvs, guardHolds, failTail, armEvs, armReturns, absEv, statusOf, opOks,
      repoGCH, HOut.abs, hf, h58, h59, h60, h61, h63, hg]

/-- repo/stat (round 8c): the interpreted structure and the hand-written model agree on the status, on the outcome of the one
    plain RPC (`Consensus.Peers`), on the MultiCall being issued iff `Peers` succeeded, and the model lists after `Peers` exactly one
    `RepoStat` outcome per peer (none when `Peers` failed) — every environment, every valuation of the loop atoms -/
theorem repoStat_flow_agrees (e : Env) (v : Nat → Bool) :
    statusOf (interp v (fun k => k == 1 && e.fail .peers) 0 Gen.C12.repoStatHandlerFlow) = (repoStatH e).status ∧
    opOks (interp v (fun k => k == 1 && e.fail .peers) 0 Gen.C12.repoStatHandlerFlow) = ((repoStatH e).rpcs.take 1).map (·.ok) ∧
    (interp v (fun k => k == 1 && e.fail .peers) 0 Gen.C12.repoStatHandlerFlow).contains (.multi 22 49) = !(e.fail .peers) ∧
    ((repoStatH e).rpcs.drop 1).length = (if e.fail .peers then 0 else e.npeers) ∧
    ((repoStatH e).rpcs.drop 1).all (fun r => r.name == .repoStat) = true := by
  cases hf : e.fail .peers <;> cases h44 : v 44 <;> cases h50 : v 50 <;> cases h51 : v 51 <;> cases h52 : v 52 <;>
    simp [Gen.C12.repoStatHandlerFlow, interp, stepEvs, guardHolds, failTail, armEvs, armReturns, statusOf, opOks,
      repoStatH, hf, h44, h50, h51, h52]

example : statusOf (interp (fun _ => false) (fun k => k == 1 && ({ fails := [.peers] } : Env).fail .peers) 0
    Gen.C12.repoStatHandlerFlow) = 500 := by decide

/-- the adder of the add model succeeds (root present, body / options accepted, block RPCs and `Cluster.Pin` succeed) -/
def addAdderOk (e : Env) (q : List (Bytes × Bytes)) : Bool :=
  !(addNoRoot e q || e.ing == 1 || e.fail .blockAllocate || e.fail .blockPut || e.fail .pin)

/-- the failure script of `addHandlerFlow` that corresponds to an environment: positions 1 (MultipartReader), 4
    (AddParamsFromQuery), 6 (AddMultipartHTTPHandler), 8 (the trailing Cluster.Unpin) -/
def addScript (e : Env) (q : List (Bytes × Bytes)) (k : Nat) : Bool :=
  (k == 1 && e.ing == 0) || (k == 4 && addParamsErr q) || (k == 6 && !addAdderOk e q) || (k == 8 && e.fail .unpin)

/-- the statement: `addHandlerFlow` and `addH` agree on the trailing-Unpin outcomes, on the plain 500 of the arms before the
    adder, and on status / X-Stream-Error once the adder succeeded (proved below as `add_flow_agrees_proved`). -/
def add_flow_agrees : Prop :=
  ∀ (e : Env) (q : List (Bytes × Bytes)) (obs : AddObs) (v : Nat → Bool),
    v 34 = (qGet q b!"only-hash" == b!"true") → v 40 = !(qGet q b!"pin" == b!"false") →
    opOks (interp v (addScript e q) 0 Gen.C12.addHandlerFlow) =
      (((addH true e q obs).rpcs.filter (fun r => r.name == .unpin)).map (·.ok)) ∧
    ((interp v (addScript e q) 0 Gen.C12.addHandlerFlow).any (fun ev => ev == .adder true || ev == .adder false) = false →
      addH true e q obs = { status := 500 } ∧ statusOf (interp v (addScript e q) 0 Gen.C12.addHandlerFlow) = 500) ∧
    ((interp v (addScript e q) 0 Gen.C12.addHandlerFlow).contains (.adder true) = true →
      (addH true e q obs).status = 200 ∧
      (addH true e q obs).serr = ((interp v (addScript e q) 0 Gen.C12.addHandlerFlow).contains .serr && addStream q))

/-- closed form of the interpreted `addHandlerFlow` (round 8 final): every valuation, every failure script -/
theorem add_interp (v f : Nat → Bool) :
    interp v f 0 Gen.C12.addHandlerFlow =
      if f 1 then [Ev.resp 500] else if v 34 then [Ev.resp 500] else if f 4 then [Ev.resp 500] else
        (if v 37 then [Ev.set 38 39] else []) ++
          (if f 6 then [Ev.adder false] else
            Ev.adder true ::
              (if v 40 then [] else if f 8 then [Ev.op 4 30 41 false, Ev.serr] else [Ev.op 4 30 41 true])) := by
  cases h1 : f 1 <;> cases h34 : v 34 <;> cases h4 : f 4 <;> cases h37 : v 37 <;> cases h6 : f 6 <;> cases h40 : v 40 <;>
    cases h8 : f 8 <;>
    simp [Gen.C12.addHandlerFlow, interp, stepEvs, guardHolds, failTail, armEvs, armReturns, h1, h34, h4, h37, h6, h40, h8]

/-- the arms of `addH` before the adder: a plain 500, nothing ran -/
theorem addH_pre (e : Env) (q : List (Bytes × Bytes)) (obs : AddObs)
    (h : (e.ing == 0 || qGet q b!"only-hash" == b!"true" || addParamsErr q) = true) :
    addH true e q obs = { status := 500 } := by
  cases h0 : (e.ing == 0) <;> cases hoh : (qGet q b!"only-hash" == b!"true") <;> cases hpe : addParamsErr q <;>
    simp [addH, h0, hoh, hpe] at h ⊢

/-- the arms of `addH` in which the adder fails: no `Cluster.Unpin` is issued -/
theorem addH_adderFails (e : Env) (q : List (Bytes × Bytes)) (obs : AddObs)
    (h : (e.ing == 0 || qGet q b!"only-hash" == b!"true" || addParamsErr q) = false) (ha : addAdderOk e q = false) :
    ((addH true e q obs).rpcs.filter (fun r => r.name == .unpin)).map (·.ok) = [] := by
  cases h0 : (e.ing == 0) <;> cases hoh : (qGet q b!"only-hash" == b!"true") <;> cases hpe : addParamsErr q <;>
    simp [h0, hoh, hpe] at h
  cases hnr : addNoRoot e q <;> cases hs : addStream q
  all_goals first
    | (simp [addH, h0, hoh, hpe, hnr, hs]; done)
    | (cases hi : (e.ing == 1) <;> cases hba : e.fail .blockAllocate <;> cases hbp : e.fail .blockPut <;>
        cases hp : e.fail .pin <;>
        simp [addH, addPinRpc, addAdderOk, h0, hoh, hpe, hnr, hs, hi, hba, hbp, hp] at ha ⊢)

/-- the arms of `addH` after a successful adder: 200; the trailing `Cluster.Unpin` runs iff `pin=false`, and its failure
    sets `X-Stream-Error` (a trailer in stream mode only) -/
theorem addH_adderOk (e : Env) (q : List (Bytes × Bytes)) (obs : AddObs)
    (h : (e.ing == 0 || qGet q b!"only-hash" == b!"true" || addParamsErr q) = false) (ha : addAdderOk e q = true) :
    (addH true e q obs).status = 200 ∧
    (addH true e q obs).serr = ((qGet q b!"pin" == b!"false") && e.fail .unpin && addStream q) ∧
    ((addH true e q obs).rpcs.filter (fun r => r.name == .unpin)).map (·.ok) =
      (if qGet q b!"pin" == b!"false" then [!(e.fail .unpin)] else []) := by
  cases h0 : (e.ing == 0) <;> cases hoh : (qGet q b!"only-hash" == b!"true") <;> cases hpe : addParamsErr q <;>
    simp [h0, hoh, hpe] at h
  cases hnr : addNoRoot e q <;> cases hi : (e.ing == 1) <;> cases hba : e.fail .blockAllocate <;>
    cases hbp : e.fail .blockPut <;> cases hp : e.fail .pin <;> simp [addAdderOk, hnr, hi, hba, hbp, hp] at ha
  cases hpin : (qGet q b!"pin" == b!"false") <;> cases hu : e.fail .unpin <;>
    simp [addH, addPinRpc, h0, hoh, hpe, hnr, hi, hba, hbp, hp, hpin, hu]

/-- round 8 final: `add_flow_agrees` PROVED, one lemma per group of arms of `addH` (`addH_pre`, `addH_adderFails`,
    `addH_adderOk`) against the closed form `add_interp` of the interpreted structure -/
theorem add_flow_agrees_proved : add_flow_agrees := by
  intro e q obs v h34 h40
  have s1 : addScript e q 1 = (e.ing == 0) := by simp [addScript]
  have s4 : addScript e q 4 = addParamsErr q := by simp [addScript]
  have s6 : addScript e q 6 = !addAdderOk e q := by simp [addScript]
  have s8 : addScript e q 8 = e.fail .unpin := by simp [addScript]
  rw [add_interp, s1, s4, s6, s8, h34, h40]
  cases hpre : (e.ing == 0 || qGet q b!"only-hash" == b!"true" || addParamsErr q)
  · have hpre' := hpre
    simp only [Bool.or_eq_false_iff] at hpre'
    obtain ⟨⟨h0, hoh⟩, hpe⟩ := hpre'
    cases ha : addAdderOk e q
    · have hm := addH_adderFails e q obs hpre ha
      cases h37 : v 37 <;> simp [h0, hoh, hpe, hm, opOks]
    · obtain ⟨m1, m2, m3⟩ := addH_adderOk e q obs hpre ha
      cases h37 : v 37 <;> cases hpin : (qGet q b!"pin" == b!"false") <;> cases hu : e.fail .unpin <;>
        simp [h0, hoh, hpe, m1, m2, m3, hpin, hu, opOks]
  · have hm := addH_pre e q obs hpre
    cases h0 : (e.ing == 0) <;> cases hoh : (qGet q b!"only-hash" == b!"true") <;> cases hpe : addParamsErr q <;>
      simp [h0, hoh, hpe] at hpre <;> simp [h0, hoh, hpe, hm, opOks, statusOf]

example : addAdderOk { ing := 2 } [(b!"pin", b!"false")] = true ∧
    addScript { ing := 2, fails := [.unpin] } [(b!"pin", b!"false")] 8 = true := by decide

/-- pin/ls answer content of the handler model (round 8 final): the keys listed are the whole pinset when no `arg` is given,
    else the one decoded CID; nothing is listed on an error arm -/
theorem pinLs_model_content (e : Env) (q : List (Bytes × Bytes)) :
    (pinLsH e q).items =
      if (pinLsH e q).status == 200 then
        (if (qGet q b!"arg").isEmpty then e.pins else (e.cd (qGet q b!"arg")).toList)
      else [] := by
  cases he : (qGet q b!"arg").isEmpty <;> cases hc : e.cd (qGet q b!"arg") <;> cases hg : e.fail .pinGet <;>
    cases hf : e.fail .pins <;> simp [pinLsH, he, hc, hg, hf]

/-- pin/ls reads NOTHING of the query but the first `arg`: no `type=` filter, whatever else is sent (every pin is
    listed, as "recursive", for `type=direct` too) -/
theorem pinLs_model_only_arg (e : Env) (q q' : List (Bytes × Bytes)) (h : qGet q b!"arg" = qGet q' b!"arg") :
    pinLsH e q = pinLsH e q' := by
  simp [pinLsH, h]

example : (pinLsH { pins := [[1], [2]] } [(b!"type", b!"direct")]).items = [[1], [2]] := by decide

/-- pin/update with at least two arguments -/
theorem pinUpdate_flow_agrees (e : Env) (q : List (Bytes × Bytes)) (v : Nat → Bool) (frm tgt : Bytes) (rest : List Bytes)
    (hq : qAll q b!"arg" = frm :: tgt :: rest) (h18 : v 18 = false) (h19 : v 19 = false)
    (h29 : v 29 = !(qGet q b!"unpin" == b!"false")) :
    absEv (interp v (fun k => (k == 5 && (e.pp frm).isNone) || (k == 6 && (e.pp tgt).isNone) || (k == 7 && e.fail .resolve) ||
      (k == 9 && e.fail .pinPath) || (k == 10 && e.fail .unpin)) 0 Gen.C12.pinUpdateHandlerFlow) = (pinUpdateH e q).abs := by
  cases hf : e.pp frm <;> cases ht : e.pp tgt <;> cases hr : e.fail .resolve <;> cases hp : e.fail .pinPath <;>
    cases hu : e.fail .unpin <;> cases hn : (qGet q b!"unpin" == b!"false") <;>
    simp [Gen.C12.pinUpdateHandlerFlow, interp, stepEvs, guardHolds, failTail, armEvs, armReturns, absEv, statusOf, opOks,
      pinUpdateH, HOut.abs, hq, h18, h19, h29, hf, ht, hr, hp, hu, hn]

example : (pinOpH { oracle := [([120], some [47, 120], none)], fails := [.pinPath] } [(b!"arg", [120])] .pinPath).abs = (500, [false]) := by
  decide

/-! ### repo/stat: the sum, for every peer list -/

/-- the totals do not depend on the order in which the peers answered -/
theorem repoStat_total_perm {l m : List (Option (Nat × Nat))} (h : l.Perm m) : statTotal l = statTotal m :=
  statTotal_perm h

/-- failed peers contribute nothing, whatever they would have reported; the sum splits over any partition of the peers -/
theorem repoStat_total_only_ok (l m : List (Option (Nat × Nat))) :
    statTotal l = statTotal (l.filter Option.isSome) ∧
    statTotal (l ++ m) = ((statTotal l).1 + (statTotal m).1, (statTotal l).2 + (statTotal m).2) :=
  ⟨statTotal_filter l, statTotal_append l m⟩

/-- all peers failing: the zero totals with status 200 (what the handler answers; `repoStatH`'s `fail .repoStat` arm) -/
theorem repoStat_total_all_failed (n : Nat) : statTotal (List.replicate n none) = (0, 0) := statTotal_none n

/-- the handler model's answer (what the correspondence run compares with the real proxy, per-peer failures included) is
    that sum over what the peers answered: failed peers are skipped, whichever they are -/
theorem repoStat_model_total (e : Env) (hp : e.fail .peers = false) :
    (repoStatH e).items = [dec (statTotal (statAnswers e)).1, dec (statTotal (statAnswers e)).2] ∧
    (repoStatH e).status = 200 ∧
    (repoStatH e).rpcs.map (·.ok) = true :: (statAnswers e).map Option.isSome := by
  have hsum : ∀ l : List Nat, statTotal (l.map (fun k => if statOk e k then some (1000, 100000) else none)) =
      ((l.filter (statOk e)).length * 1000, (l.filter (statOk e)).length * 100000) := by
    intro l
    induction l with
    | nil => simp [statTotal]
    | cons k l ih =>
      cases hk : statOk e k
      · simpa [statTotal, hk, List.filter_cons] using ih
      · simp only [List.map_cons, hk, if_true, statTotal, ih, List.filter_cons, List.length_cons]
        ext <;> simp <;> omega
  refine ⟨?_, ?_, ?_⟩
  · simp [repoStatH, hp, statAnswers, statOkCount, hsum]
  · simp [repoStatH, hp]
  · simp only [repoStatH, hp, statAnswers]
    simp [List.map_map, Function.comp_def]
    intro k _
    cases statOk e k <;> simp

example : (repoStatH { npeers := 3, statBad := [1] }).items = [dec 2000, dec 200000] ∧
    ((repoStatH { npeers := 3, statBad := [1] }).rpcs.map (·.ok)) = [true, true, false, true] := by decide

example : statTotal [some (1000, 100000), none, some (7, 9)] = (1007, 100009) := by decide

end CV.C12
