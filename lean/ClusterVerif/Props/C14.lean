import ClusterVerif.Lemmas.C14

/-! # C14 — property theorems (placeholder: one easy theorem first) -/
namespace CV.C14

/-- `Unmarshal` does not depend on what the target held. -/
theorem unmarshal_ignores_prior (t t' : PinMap) (s : List Pin) : unmarshal t s = unmarshal t' s := rfl

end CV.C14
