import ClusterVerif.Lemmas.C14
import ClusterVerif.Lemmas.C14Crash
import ClusterVerif.Model.C14Source
import ClusterVerif.Gen.C14
import ClusterVerif.Model.C14Start
import ClusterVerif.Spec.C14Start
import ClusterVerif.Lemmas.C14Start
import ClusterVerif.Model.C14Snaps
import ClusterVerif.Lemmas.C14Snaps
import ClusterVerif.Model.C14Damage
import ClusterVerif.Lemmas.C14Damage
import ClusterVerif.Model.C14Crdt

/-!
# C14 — state export/import, snapshots, backups and the peerstore file round-trip

Property theorems only (helper lemmas are in `Lemmas/C14.lean`).

Pinset round trips (for every list `g` of pins added to the source state, every prior
content `t` of the target, every order the datastore lists/streams the entries in):
* `marshal_unmarshal_id`, `snapshot_offline_id` — no hypothesis on the pins at all;
* `export_import_id_partial` — well-formed pins without origins; `export_import_id_full`
  (all well-formed pins) is kept as a `def` and refuted: `export_import_id_full_fails`
  (a pin with origins cannot be decoded from the JSON stream — known finding K01c);
* `export_import_crdt_empty_ok`, `importStateCrdt_eq`, `export_import_crdt_id_partial` — the crdt manager
  (after 2096d62: no Commit when nothing was added) behaves as the raft manager on every stream.
Rotation: `rotate_spec` (every retention ≥ 1, every pre-existing folder set, every
operation sequence, every observation window), `never_more_than_n`.
Peerstore: `peerstore_roundtrip`, `final_newline_irrelevant`, `crlf_irrelevant`, `bad_lines_skipped_shaped`
(every file shape), `bad_lines_skipped` (every file; the 64 KiB limit, former finding
K19, was removed from the code by 610b52a).
-/
set_option linter.unusedSimpArgs false
namespace CV.C14

/-! ## pinset round trips -/

/-- Marshal → Unmarshal reproduces the pinset, whatever the target held and whatever order
    the datastore query streams the entries in. -/
theorem marshal_unmarshal_id (g t stream : List Pin) (h : isArrangement (fromList g) stream = true) :
    unmarshal (fromList t) stream = fromList g ∧ samePinset (unmarshal (fromList t) stream) (fromList g) = true := by
  have hp : stream.Perm (fromList g) := List.isPerm_iff.1 h
  have he : unmarshal (fromList t) stream = fromList g := putAll_arrangement (ss_fromList g) hp
  exact ⟨he, by rw [he]; exact samePinset_self (ss_fromList g)⟩

/-- SnapshotSave → OfflineState (onto a store holding anything) reproduces the pinset. -/
theorem snapshot_offline_id (g t stream : List Pin) (h : isArrangement (fromList g) stream = true) :
    offlineState (fromList t) (some stream) = fromList g :=
  (marshal_unmarshal_id g t stream h).1

/-- export → import for every pinset of well-formed pins, all well-formed pins allowed -/
def export_import_id_full : Prop :=
  ∀ (g t listing : List Pin), (∀ p ∈ g, wfPin p = true) → listing.Perm (fromList g) →
    ∃ js, exportStream listing = some js ∧ importState (fromList t) js false = (.ok (fromList g), fromList g)

/-- export → import reproduces the pinset (and replaces whatever the target held) for every
    pinset of well-formed pins without origins, in whatever order `State.List` lists them. -/
theorem export_import_id_partial (g t listing : List Pin) (hw : ∀ p ∈ g, wfPin p = true)
    (ho : ∀ p ∈ g, p.origins = []) (hl : listing.Perm (fromList g)) :
    ∃ js, exportStream listing = some js ∧ importState (fromList t) js false = (.ok (fromList g), fromList g) := by
  have hst : ∀ x ∈ listing, StoredPlain x := by
    intro x hx
    obtain ⟨p, hp, rfl⟩ := mem_fromList (hl.mem_iff.1 hx)
    exact ⟨p, (wfPin_iff p).1 (hw p hp), ho p hp, rfl⟩
  obtain ⟨js, hjs, himp⟩ := export_import_stream hst
  refine ⟨js, hjs, ?_⟩
  unfold importState
  rw [himp [], putAll_arrangement (ss_fromList g) hl]
  rfl

/-- the code really violates the full statement: one data pin with one origin -/
theorem export_import_id_full_fails : ¬ export_import_id_full := by
  intro h
  let p : Pin := { cid := 0, ptype := 2, allocs := [], depth := -1, ref := none, rmin := 0, rmax := 0, name := 0,
                   mode := 0, shard := 0, ualloc := [], expire := 0, pmeta := [], pupdate := none, origins := [0] }
  obtain ⟨js, h1, h2⟩ := h [p] [] (fromList [p]) (by decide) (List.Perm.refl _)
  have : exportStream (fromList [p]) = some [(jenc (store p)).get (by decide)] := by decide
  rw [this] at h1
  cases h1
  revert h2
  decide

example : wfPin { cid := 3, ptype := 16, allocs := [1, 0], depth := 1, ref := some 2, rmin := 1, rmax := 2, name := 4,
                  mode := 1, shard := 5, ualloc := [3], expire := 1600000000, pmeta := [(1, 2), (3, 0)],
                  pupdate := some 7, origins := [] } = true := by decide

/-- crdt: importing the export of the empty pinset succeeds and leaves the cleaned (empty)
    store, whatever the target held (was known finding K14a/K18 until 2096d62) -/
theorem export_import_crdt_empty_ok (t : List Pin) :
    ∃ js, exportStream (fromList []) = some js ∧ importStateCrdt (fromList t) js false = (.ok (fromList []), fromList []) :=
  ⟨[], rfl, rfl⟩

/-- the crdt manager's import agrees with the raft manager's on every stream -/
theorem importStateCrdt_eq (t : PinMap) (js : List JPin) (g : Bool) : importStateCrdt t js g = importState t js g := by
  unfold importStateCrdt importState
  cases js with
  | nil => cases g <;> rfl
  | cons j js' =>
    cases importInto [] (j :: js') with
    | none => rfl
    | some m => cases g <;> rfl

/-- export → crdt import reproduces the pinset under the same hypotheses as the raft manager -/
theorem export_import_crdt_id_partial (g t listing : List Pin) (hw : ∀ p ∈ g, wfPin p = true)
    (ho : ∀ p ∈ g, p.origins = []) (hl : listing.Perm (fromList g)) :
    ∃ js, exportStream listing = some js ∧ importStateCrdt (fromList t) js false = (.ok (fromList g), fromList g) := by
  obtain ⟨js, h1, h2⟩ := export_import_id_partial g t listing hw ho hl
  exact ⟨js, h1, by rw [importStateCrdt_eq]; exact h2⟩

/-! ## the import stream, document by document -/

/-- importing two streams one after the other is importing their concatenation (concatenated exports) -/
theorem importInto_append : ∀ (a b : List JPin) (m : PinMap),
    importInto m (a ++ b) = (importInto m a).bind (fun m' => importInto m' b) := by
  intro a
  induction a with
  | nil => intro b m; rfl
  | cons j t ih =>
    intro b m
    simp only [List.cons_append, importInto]
    cases jdec j with
    | none => rfl
    | some p => exact ih b _

/-- the import keeps the representation invariant -/
theorem importInto_ss : ∀ (js : List JPin) (m r : PinMap), SS m → importInto m js = some r → SS r := by
  intro js
  induction js with
  | nil => intro m r hm h; cases h; exact hm
  | cons j t ih =>
    intro m r hm h
    simp only [importInto] at h
    cases hj : jdec j with
    | none => rw [hj] at h; cases h
    | some p => rw [hj] at h; exact ih _ r (ss_put hm) h

/-- **import_dup_last_wins.** Of several documents with the same cid the LAST one is what the state holds: if no
    document after `j` names the cid of `j`, the imported state holds exactly `j`'s pin for that cid. -/
theorem import_dup_last_wins (pre post : List JPin) (j : JPin) (p : Pin) (m r : PinMap) (hm : SS m)
    (hj : jdec j = some p) (hpost : ∀ j' ∈ post, ∀ p', jdec j' = some p' → p'.cid ≠ p.cid)
    (h : importInto m (pre ++ j :: post) = some r) :
    store p ∈ r ∧ ∀ q ∈ r, q.cid = p.cid → q = store p := by
  rw [importInto_append] at h
  cases hpre : importInto m pre with
  | none => rw [hpre] at h; cases h
  | some m1 =>
    rw [hpre] at h
    simp only [Option.bind_some, importInto, hj] at h
    have hm1 : SS m1 := importInto_ss pre m m1 hm hpre
    have hcid : (store p).cid = p.cid := rfl
    -- after `j`: the state holds store p as the only pin with that cid; later documents keep it
    have key : ∀ (post : List JPin) (m2 r : PinMap), SS m2 → (store p ∈ m2 ∧ ∀ q ∈ m2, q.cid = p.cid → q = store p) →
        (∀ j' ∈ post, ∀ p', jdec j' = some p' → p'.cid ≠ p.cid) → importInto m2 post = some r →
        store p ∈ r ∧ ∀ q ∈ r, q.cid = p.cid → q = store p := by
      intro post
      induction post with
      | nil => intro m2 r _ hin _ h; cases h; exact hin
      | cons j' t ih =>
        intro m2 r hs hin hp h
        simp only [importInto] at h
        cases hj' : jdec j' with
        | none => rw [hj'] at h; cases h
        | some p' =>
          rw [hj'] at h
          have hne : p'.cid ≠ p.cid := hp j' List.mem_cons_self p' hj'
          refine ih _ r (ss_put hs) ⟨?_, ?_⟩ (fun x hx => hp x (List.mem_cons_of_mem _ hx)) h
          · exact (mem_put hs).2 (Or.inr ⟨hin.1, fun hc => hne (show (store p').cid = (store p).cid from hc.symm)⟩)
          · intro q hq hqc
            rcases (mem_put hs).1 hq with rfl | ⟨hq', _⟩
            · exact absurd hqc hne
            · exact hin.2 q hq' hqc
    refine key post _ r (ss_put hm1) ⟨(mem_put hm1).2 (Or.inl rfl), ?_⟩ hpost h
    intro q hq hqc
    rcases (mem_put hm1).1 hq with rfl | ⟨_, hne⟩
    · rfl
    · exact absurd hqc hne

/-- **import_prefix_on_error.** A stream that breaks (a document that does not decode, or bytes that are not JSON after
    complete documents) makes `state import` fail, and NOTHING of the documents read before the break is kept: the
    manager has cleaned the target and saves/commits only at the end (raft: the data folder is gone, see
    `import_failure_leaves`; crdt: the batch is dropped). -/
theorem import_prefix_on_error (prior : PinMap) (stream : List JPin) (garbage : Bool)
    (h : importInto [] stream = none ∨ garbage = true) :
    importState prior stream garbage = (.err, []) ∧ importStateCrdt prior stream garbage = (.err, []) := by
  rw [importStateCrdt_eq]
  unfold importState
  rcases h with h | h
  · rw [h]; exact ⟨rfl, rfl⟩
  · subst h
    cases importInto [] stream <;> exact ⟨rfl, rfl⟩

/-! ## rotation -/

/-- Every step of every operation sequence meets the rotation clauses, for every retention ≥ 1
    in force (also after reconfiguration), every pre-existing folder set and every window `m`
    of indices the clauses are evaluated on; the calls never panic. -/
theorem rotate_spec {α : Type} [DecidableEq α] (m : Nat) :
    ∀ (ops : List (Op α)) (st : Nat × Dirs α), (∀ k ∈ keeps st.1 ops, 1 ≤ k) →
      ∃ sts, run st ops = sts.map some ∧ stepsHold m st ops sts = true := by
  intro ops
  induction ops with
  | nil => intro st _; exact ⟨[], rfl, rfl⟩
  | cons op ops ih =>
    intro st hk
    have hk1 : 1 ≤ st.1 := hk st.1 (by simp [keeps])
    obtain ⟨st', hs, hc, hk'⟩ := step_spec hk1 m st.2 op
    have hs' : step st op = some st' := hs
    obtain ⟨sts, hr, hh⟩ := ih st' (by
      intro k hkm
      apply hk k
      simp only [keeps, List.mem_cons]
      right
      rw [hk'] at hkm
      exact hkm)
    refine ⟨st' :: sts, ?_, ?_⟩
    · simp only [run, hs', hr, List.map_cons]
    · simp only [stepsHold, hc, hh, Bool.and_self]


/-- With a fixed retention N ≥ 1 and no backup folder outside the window to begin with, no
    sequence of cleans/saves ever leaves a backup outside old.0 … old.(N-1): never more than N. -/
theorem never_more_than_n {α : Type} :
    ∀ (ops : List (Op α)) (st : Nat × Dirs α), 1 ≤ st.1 → (∀ op ∈ ops, ∀ k, op ≠ .setKeep k) →
      (∀ i, st.1 ≤ i → st.2.old i = none) →
      ∀ r ∈ run st ops, ∃ s, r = some s ∧ s.1 = st.1 ∧ ∀ i, (s.2.old i).isSome = true → i < st.1 := by
  intro ops
  induction ops with
  | nil => intro st _ _ _ r hr; simp [run] at hr
  | cons op ops ih =>
    intro st hk hno hout r hr
    cases hs : step st op with
    | none =>
      -- cannot happen: retention ≥ 1
      have hmb : ∀ f, st.2.data = some f → ∃ a, makeBackup st.1 st.2 = some a := by
        intro f hd
        obtain ⟨a, _, h1, _⟩ := makeBackup_eq hk st.2 f hd
        exact ⟨a, h1⟩
      exfalso
      cases op with
      | clean =>
        simp only [step, cleanupRaft] at hs
        split at hs
        · rename_i s hd
          obtain ⟨a, ha⟩ := hmb _ hd
          simp [ha] at hs
        · simp at hs
      | save t =>
        simp only [step, snapshotSave, cleanupRaft] at hs
        split at hs
        · rename_i s hd
          obtain ⟨a, ha⟩ := hmb _ hd
          simp [ha] at hs
        · simp at hs
      | mkdir => simp [step] at hs
      | setKeep k => simp [step] at hs
    | some st' =>
      obtain ⟨hk', hold⟩ := step_outside hk st.2 op st' hs (hno op List.mem_cons_self)
      have hout' : ∀ i, st'.1 ≤ i → st'.2.old i = none := by
        intro i hi
        rw [hk'] at hi
        rw [hold i hi]
        exact hout i hi
      simp only [run, hs, List.mem_cons] at hr
      rcases hr with rfl | hr
      · refine ⟨st', rfl, hk', ?_⟩
        intro i hi
        by_contra hge
        rw [hout' i (by omega)] at hi
        simp at hi
      · obtain ⟨s, h1, h2, h3⟩ := ih st' (by omega) (fun o ho => hno o (List.mem_cons_of_mem _ ho)) hout' r hr
        exact ⟨s, h1, by omega, fun i hi => by have := h3 i hi; omega⟩

example : ∃ sts : List (Nat × Dirs Nat), run (2, ({ data := some (.snap 7), old := fun i => if i = 0 then some (.snap 5) else if i = 2 then some (.snap 3) else none } : Dirs Nat))
    [.clean, .save 8, .save 9] = sts.map some := (rotate_spec 5 _ _ (by decide)).imp fun _ h => h.1

/-! ## the peerstore file -/

/-- The file written from what `PeerInfos` returns (any tie-break of its sort, any order of a
    peer's DNS addresses) reads back line for line; a fresh host that imports it holds exactly
    the saved addresses for every saved peer and lists the peers in the saved order, whatever
    tie-break its own `PeerInfos` uses; and the saved order is by priority. -/
theorem peerstore_roundtrip (i : PSInput) (P : List (Nat × List Nat)) (univ : List Nat) (out2 : List (Nat × List Nat))
    (hpeers : i.peers.Nodup) (hP : peerInfosAllowed i P = true)
    (hu : ∀ p ∈ i.peers, p ∈ univ) (hun : univ.Nodup)
    (hout : peerInfosAllowed { self := i.self, known := importPeers i.self (load (save P)) univ, peers := univ } out2 = true) :
    load (save P) = flatten P ∧
    sortedByPrio i.known (P.map (·.1)) = true ∧
    out2.map (·.1) = P.map (·.1) ∧
    ∀ e ∈ P, importedAddrs i.self (load (save P)) e.1 = e.2 := by
  obtain ⟨hn, hne, hself, hsub, hsorted⟩ := allowed_facts i P hpeers hP
  rw [load_save] at hout ⊢
  refine ⟨rfl, hsorted, ?_, imported_addresses i.self P hn hself⟩
  unfold peerInfosAllowed at hout
  simp only [Bool.and_eq_true] at hout
  exact import_order i.self P univ (out2.map (·.1)) hn hne hself (fun p hp => hu p (hsub p hp)) hun
    (List.isPerm_iff.1 hout.1.1) hout.1.2

example : peerInfosAllowed { self := 0, known := [⟨1, some 5, [6, 1]⟩, ⟨2, none, [7, 5]⟩, ⟨3, some 5, []⟩], peers := [3, 1, 0, 2] }
    [(2, [5, 7]), (1, [1])] = true := by decide

/-- `LoadPeerstore` returns exactly the lines that parse, in file order, for EVERY file: a line
    that does not parse (whether or not it starts with '/', whatever its length — 610b52a removed
    the 64 KiB limit that made this partial) is never returned, and removing or inserting such a
    line changes nothing else. -/
theorem bad_lines_skipped (file : List Line) :
    load file = file.filter Line.loads ∧
    (∀ l ∈ load file, l.loads = true) ∧
    (∀ (a b : List Line) (bad : Line), bad.loads = false → load (a ++ bad :: b) = load a ++ load b) ∧
    (∀ self order, (fileClauses self { finalNewline := true, bom := false } (file.map (fun l => ⟨l, 0⟩))
        { loaded := (load file).map some, order := order, panic := false }).head? = some ("bad_lines_skipped", true)) := by
  refine ⟨rfl, ?_, ?_, ?_⟩
  · intro l hl
    exact (List.mem_filter.1 hl).2
  · intro a b bad hb
    simp [load, List.filter_append, hb]
  · intro self order
    have h := validLines_plain file
    simp [fileClauses, load, h]

/-- What `LoadPeerstore` returns does not depend on whether the last line of the file is terminated
    by a newline (the text that `ReadString` returns together with `io.EOF` is looked at too). -/
theorem final_newline_irrelevant (b1 b2 bom : Bool) (file : List FLine) :
    loadShaped { finalNewline := b1, bom := bom } file = loadShaped { finalNewline := b2, bom := bom } file := rfl

/-- "\r\n" line ends load exactly like "\n" line ends: the one trailing "\r" the code strips never
    matters, line by line (lines with a second "\r" keep it in both files). -/
theorem crlf_irrelevant (sh : FileShape) (file : List FLine) :
    loadShaped sh (file.map FLine.stripCr) = loadShaped sh file := by
  have hp : ∀ fl : FLine, fl.stripCr.parses = fl.parses := by
    intro fl
    unfold FLine.stripCr FLine.parses
    by_cases h : fl.cr ≤ 1 <;> simp [h]
  have hf : ∀ l : List FLine, ((l.map FLine.stripCr).filter FLine.parses).map (·.l) = (l.filter FLine.parses).map (·.l) := by
    intro l
    induction l with
    | nil => rfl
    | cons x t ih =>
      simp only [List.map_cons, List.filter_cons, hp]
      by_cases hx : x.parses = true
      · simp only [hx, if_true, List.map_cons, ih]; rfl
      · simp only [hx, Bool.false_eq_true, if_false, ih]
  unfold loadShaped
  cases sh.bom
  · exact hf file
  · simp only [if_true, ← List.map_drop]; exact hf (file.drop 1)

/-- Every line of the file that is a multiaddress as written is loaded, in file order, and nothing
    else — for every file shape (line ends, final newline or not, byte order mark); the Bool clause
    of the checker holds for the model's result. -/
theorem bad_lines_skipped_shaped (sh : FileShape) (file : List FLine) :
    loadShaped sh file = validLines sh file ∧
    (∀ self order, (fileClauses self sh file { loaded := (loadShaped sh file).map some, order := order, panic := false }).head? =
        some ("bad_lines_skipped", true)) := by
  have h := loadShaped_eq_validLines sh file
  exact ⟨h, fun self order => by simp [fileClauses, h]⟩

/-- a file without the shapes: `loadShaped` is `load` -/
theorem loadShaped_plain (b : Bool) (file : List Line) :
    loadShaped { finalNewline := b, bom := false } (file.map (fun l => ⟨l, 0⟩)) = load file := by
  unfold loadShaped load FLine.parses
  simp only [Bool.false_eq_true, if_false, List.filter_map, List.map_map]
  induction file with
  | nil => rfl
  | cons x t ih => cases hx : x.loads <;> simp_all [List.filter_cons, Function.comp]

example : loadShaped { finalNewline := false, bom := false } [⟨.full 0 1, 1⟩, ⟨.full 2 3, 2⟩, ⟨.empty, 2⟩, ⟨.bare 4, 0⟩] =
    [.full 0 1, .bare 4] := by decide
example : loadShaped { finalNewline := true, bom := true } [⟨.full 0 1, 0⟩, ⟨.full 2 3, 0⟩] = [.full 2 3] := by decide

example : load [.long, .full 0 1, .slashBad 3, .noSlash 0, .empty, .bare 2] = [.full 0 1, .bare 2] := by decide

/-! ## crash points (every prefix of the filesystem steps of an operation, then a restart) -/

/-- The steps of `CleanupRaft`, run to the end, are the operation of the rotation model. -/
theorem clean_steps_complete {α : Type} (junk : Folder α) {keep : Nat} (hk : 1 ≤ keep) (d : Dirs α) :
    cleanupRaft keep d = some (applySteps junk d (cleanSteps keep d)) := by
  unfold cleanupRaft cleanSteps
  cases hd : d.data with
  | none => rfl
  | some f =>
    cases f with
    | nosnap => rfl
    | snap s => simp only []; rw [final_eq_makeBackup hk d _ hd, backup_all junk hk d _ hd]

/-- The steps of `SnapshotSave`, run to the end, are the operation of the rotation model. -/
theorem save_steps_complete {α : Type} (junk : Folder α) {keep : Nat} (hk : 1 ≤ keep) (d : Dirs α) (s : α) :
    snapshotSave keep d s = some (applySteps junk d (saveSteps keep d s)) := by
  unfold snapshotSave saveSteps
  cases hd : d.data with
  | none => simp only [applySteps, List.foldl_cons, List.foldl_nil, applyStep, hd]
  | some f =>
    cases f with
    | nosnap => simp only [applySteps, List.foldl_cons, List.foldl_nil, applyStep]
    | snap p =>
      simp only []
      have h := clean_steps_complete junk hk d
      unfold cleanSteps at h
      simp only [hd] at h
      rw [h, applySteps_append]
      simp only [Option.map_some, applySteps, List.foldl_cons, List.foldl_nil, applyStep]

/-- **backup_never_loses_data.** A crash after ANY number of filesystem steps of `CleanupRaft` (for every
    retention ≥ 1, every pre-existing folder set, whatever a half-removed folder looks like): the snapshot that
    was in the data folder is in the data folder or in old.0; every other backup is in its slot or the next
    one, except the one in old.(N-1) when all N slots were taken; nothing outside old.0 … old.(N-1) is touched
    (so there are never more than N backups plus the data folder). -/
theorem backup_never_loses_data {α : Type} (junk : Folder α) {keep : Nat} (hk : 1 ≤ keep) (d : Dirs α) (s : α)
    (hd : d.data = some (.snap s)) (k : Nat) :
    ((crashAt junk d (cleanSteps keep d) k).data = some (.snap s) ∨ (crashAt junk d (cleanSteps keep d) k).old 0 = some (.snap s)) ∧
    (∀ i x, d.old i = some x → (i + 1 = keep ∧ ∀ j < keep, (d.old j).isSome = true) ∨
        (crashAt junk d (cleanSteps keep d) k).old i = some x ∨ (crashAt junk d (cleanSteps keep d) k).old (i + 1) = some x) ∧
    (∀ i, keep ≤ i → (crashAt junk d (cleanSteps keep d) k).old i = d.old i) := by
  have hs : cleanSteps keep d = backupSteps keep d := by unfold cleanSteps; rw [hd]
  rw [hs]
  obtain ⟨h1, h2, h3, _⟩ := form_facts hk junk d _ hd _ (backup_forms junk keep d k)
  exact ⟨h1, h2, h3⟩

/-- **The next rotation repairs the numbering.** `CleanupRaft` run again after a crash at ANY point ends
    exactly where the uninterrupted `CleanupRaft` ends — for every data folder (snapshot, no snapshot, absent). -/
theorem crash_restart_repairs {α : Type} (junk : Folder α) {keep : Nat} (hk : 1 ≤ keep) (d : Dirs α) (k : Nat) :
    cleanupRaft keep (crashAt junk d (cleanSteps keep d) k) = cleanupRaft keep d := by
  cases hd : d.data with
  | none =>
    have hs : cleanSteps keep d = [.mkData, .rmData] := by unfold cleanSteps; rw [hd]
    rw [hs]
    match k with
    | 0 => rfl
    | 1 => simp only [crashAt, List.take_succ_cons, List.take_zero, applySteps, List.foldl_cons, List.foldl_nil, applyStep, cleanupRaft, hd]
    | k + 2 => simp only [crashAt, List.take_succ_cons, List.take_nil, applySteps, List.foldl_cons, List.foldl_nil, applyStep, cleanupRaft, hd]
  | some f =>
    cases f with
    | nosnap =>
      have hs : cleanSteps keep d = [.rmData] := by unfold cleanSteps; rw [hd]
      rw [hs]
      cases k with
      | zero => rfl
      | succ k =>
        simp only [crashAt, List.take_succ_cons, List.take_nil, applySteps, List.foldl_cons, List.foldl_nil, applyStep,
          cleanupRaft, hd]
    | snap s =>
      have hs : cleanSteps keep d = backupSteps keep d := by unfold cleanSteps; rw [hd]
      rw [hs]
      have hform := backup_forms junk keep d k
      have hd' : cleanupRaft keep d = makeBackup keep d := by unfold cleanupRaft; rw [hd]
      rcases (form_facts hk junk d _ hd _ hform).2.2.2 with h | h
      · rw [hd']
        unfold cleanupRaft
        rw [h]
        exact form_restart hk junk d _ hd _ hform h
      · rw [h, hd', final_eq_makeBackup hk d _ hd]
        rfl

example : cleanupRaft 2 (crashAt (.nosnap) ({ data := some (.snap 5), old := fun i => if i < 2 then some (.snap i) else none } : Dirs Nat)
    (cleanSteps 2 { data := some (.snap 5), old := fun i => if i < 2 then some (.snap i) else none }) 3) =
    cleanupRaft 2 { data := some (.snap 5), old := fun i => if i < 2 then some (.snap i) else none } :=
  crash_restart_repairs _ (by decide) _ _

/-- **snapshot_save_atomic_or_absent.** After a crash at ANY point of `SnapshotSave` the data folder holds what it
    held, nothing (absent, or a folder without a visible snapshot), or the new snapshot — never a mixture; and a
    snapshot it held before is in the data folder or in old.0. -/
theorem snapshot_save_atomic_or_absent {α : Type} (junk : Folder α) {keep : Nat} (hk : 1 ≤ keep) (d : Dirs α) (s : α) (k : Nat) :
    ((crashAt junk d (saveSteps keep d s) k).data = d.data ∨ (crashAt junk d (saveSteps keep d s) k).data = none ∨
      (crashAt junk d (saveSteps keep d s) k).data = some .nosnap ∨ (crashAt junk d (saveSteps keep d s) k).data = some (.snap s)) ∧
    (∀ p, d.data = some (.snap p) → (crashAt junk d (saveSteps keep d s) k).data = some (.snap p) ∨
      (crashAt junk d (saveSteps keep d s) k).old 0 = some (.snap p)) := by
  cases hd : d.data with
  | none =>
    have hs : saveSteps keep d s = [.mkData, .commit s] := by unfold saveSteps; rw [hd]
    rw [hs]
    refine ⟨?_, fun p hp => by cases hp⟩
    match k with
    | 0 => left; simp [crashAt, applySteps, hd]
    | 1 => right; right; left; simp [crashAt, applySteps, applyStep, hd]
    | k + 2 => right; right; right; simp [crashAt, applySteps, applyStep]
  | some f =>
    cases f with
    | nosnap =>
      have hs : saveSteps keep d s = [.commit s] := by unfold saveSteps; rw [hd]
      rw [hs]
      refine ⟨?_, fun p hp => by cases hp⟩
      match k with
      | 0 => left; simp [crashAt, applySteps, hd]
      | k + 1 => right; right; right; simp [crashAt, applySteps, applyStep]
    | snap p =>
      have hs : saveSteps keep d s = backupSteps keep d ++ [.mkData, .commit s] := by unfold saveSteps; rw [hd]
      rw [hs]
      by_cases hk1 : k ≤ (backupSteps keep d).length
      · have he : crashAt junk d (backupSteps keep d ++ [.mkData, .commit s]) k = crashAt junk d (backupSteps keep d) k := by
          unfold crashAt; rw [take_append_le _ _ _ hk1]
        rw [he]
        obtain ⟨h1, _, _, h4⟩ := form_facts hk junk d _ hd _ (backup_forms junk keep d k)
        refine ⟨?_, fun q hq => by cases hq; exact h1⟩
        rcases h4 with h | h
        · exact Or.inl h
        · right; left; rw [h]; rfl
      · have he : crashAt junk d (backupSteps keep d ++ [.mkData, .commit s]) k =
            applySteps junk (finalForm keep d) (([FsStep.mkData, .commit s] : List (FsStep α)).take (k - (backupSteps keep d).length)) := by
          unfold crashAt
          rw [take_append_ge _ _ _ (by omega), applySteps_append, backup_all junk hk d _ hd]
        rw [he]
        have h0 : (finalForm keep d).old 0 = some (.snap p) := by simp [finalForm, hd]
        obtain ⟨j, hj⟩ : ∃ j, k - (backupSteps keep d).length = j + 1 := ⟨k - (backupSteps keep d).length - 1, by omega⟩
        rw [hj]
        cases j with
        | zero =>
          refine ⟨Or.inr (Or.inr (Or.inl ?_)), fun q hq => by cases hq; exact Or.inr h0⟩
          simp [applySteps, applyStep, finalForm]
        | succ j =>
          refine ⟨Or.inr (Or.inr (Or.inr ?_)), fun q hq => by cases hq; exact Or.inr (by simpa [applySteps, applyStep] using h0)⟩
          simp [applySteps, applyStep]

/-- the stronger reading: after a crash the data folder holds the previous snapshot or the new one -/
def snapshot_save_strongly_atomic : Prop :=
  ∀ (junk : Folder Nat) (keep : Nat), 1 ≤ keep → ∀ (d : Dirs Nat) (s k : Nat),
    (crashAt junk d (saveSteps keep d s) k).data = d.data ∨ (crashAt junk d (saveSteps keep d s) k).data = some (.snap s)

/-- The code does not guarantee it: between the rotation and the rename of the new snapshot the data folder is
    absent (`OfflineState` reads the empty pinset; the previous snapshot is in old.0). Witness: N = 1, data = snapshot 1,
    saving snapshot 2, crash after the first step. Reproduced on the implementation: `C14 crash 1 3 1 -,-,- s2`. -/
theorem snapshot_save_strongly_atomic_fails : ¬ snapshot_save_strongly_atomic := by
  intro h
  have := h .nosnap 1 (by decide) { data := some (.snap 1), old := fun _ => none } 2 1
  revert this
  decide

/-- **import_failure_leaves.** A raft `state import` whose stream does not decode has done exactly the cleaning: the
    data folder is gone (the peer holds the empty pinset) and what it held is the newest backup. -/
theorem import_failure_leaves {α : Type} (junk : Folder α) {keep : Nat} (hk : 1 ≤ keep) (d : Dirs α) (s : α) :
    cleanupRaft keep d = some (applySteps junk d (importSteps keep d s false)) ∧
    (applySteps junk d (importSteps keep d s false)).data = none ∧
    (∀ p, d.data = some (.snap p) → (applySteps junk d (importSteps keep d s false)).old 0 = some (.snap p)) := by
  have he : importSteps keep d s false = cleanSteps keep d := by simp [importSteps]
  rw [he]
  have hc := clean_steps_complete junk hk d
  refine ⟨hc, ?_, ?_⟩
  · unfold cleanupRaft at hc
    cases hd : d.data with
    | none => rw [hd] at hc; simp only [Option.some.injEq] at hc; rw [← hc]
    | some f =>
      cases f with
      | nosnap => rw [hd] at hc; simp only [Option.some.injEq] at hc; rw [← hc]
      | snap p =>
        rw [hd] at hc; simp only [] at hc
        rw [final_eq_makeBackup hk d _ hd] at hc
        simp only [Option.some.injEq] at hc; rw [← hc]; rfl
  · intro p hp
    have hs : cleanSteps keep d = backupSteps keep d := by unfold cleanSteps; rw [hp]
    rw [hs, backup_all junk hk d _ hp]
    simp [finalForm, hp]

/-- **peerstore_save_atomic_or_absent.** After a crash at ANY point of `SavePeerstore` (as it is since d57f8e5:
    temporary file, then rename) `LoadPeerstore` returns the addresses of the previous file or the new ones, in order. -/
theorem peerstore_save_atomic_or_absent (f : PFiles) (pinfos : List (Nat × List Nat)) (k : Nat) :
    ploaded (pcrashAt f (psaveSteps pinfos) k) = ploaded f ∨ ploaded (pcrashAt f (psaveSteps pinfos) k) = flatten pinfos := by
  by_cases hk : k ≤ ([PStep.createTmp] ++ (save pinfos).map PStep.writeTmp).length
  · left
    unfold pcrashAt psaveSteps ploaded
    rw [take_append_le _ _ _ hk]
    rw [foldl_keeps_file]
    intro s hs
    have hs' := List.mem_of_mem_take hs
    simp only [List.mem_append, List.mem_singleton, List.mem_map] at hs'
    rcases hs' with h | ⟨x, _, rfl⟩
    · exact Or.inl h
    · exact Or.inr ⟨x, rfl⟩
  · right
    unfold pcrashAt
    rw [List.take_of_length_le (by simp only [psaveSteps, List.length_append, List.length_cons, List.length_nil] at hk ⊢; omega), psave_all]
    simp only [ploaded, Option.getD_some]
    exact load_save pinfos

/-- saving again after a crash at any point gives the complete new file and leaves no temporary file -/
theorem peerstore_restart_repairs (f : PFiles) (pinfos : List (Nat × List Nat)) (k : Nat) :
    (psaveSteps pinfos).foldl applyP (pcrashAt f (psaveSteps pinfos) k) = { file := some (save pinfos), tmp := none } :=
  psave_all _ _

/-- the same statement for the code as it was until d57f8e5 (truncate in place, then write line by line) -/
def peerstore_save_in_place_atomic : Prop :=
  ∀ (f : PFiles) (pinfos : List (Nat × List Nat)) (k : Nat),
    ploaded (pcrashAt f (psaveInPlaceSteps pinfos) k) = ploaded f ∨ ploaded (pcrashAt f (psaveInPlaceSteps pinfos) k) = flatten pinfos

/-- It failed: a crash right after the truncation left an empty file (all saved addresses lost, none of the new ones
    written). Reproduced on the implementation before the repair: `C14 pscrash f4p1,f5p3 2:4.5/3:6 => kill=f4p1,f5p3|-|f4p2|…`. -/
theorem peerstore_save_in_place_atomic_fails : ¬ peerstore_save_in_place_atomic := by
  intro h
  have := h { file := some [.full 4 1], tmp := none } [(2, [4])] 1
  revert this
  decide

/-- A peerstore file cut inside a line: every whole line before the cut that parses is loaded, in order; what is
    left of the cut line is skipped unless it happens to be an address again (then it is the last entry). -/
theorem truncated_tail (file : List Line) (k : Nat) (c : Cut) :
    load (cutFile file k c) = load (file.take k) ++ load c.line ∧
    (c = .nothing ∨ c = .unparsable → load (cutFile file k c) = load (file.take k)) := by
  constructor
  · simp [cutFile, load, List.filter_append]
  · rintro (rfl | rfl) <;> simp [cutFile, load, List.filter_append, Cut.line, Line.loads]

example : ploaded (pcrashAt { file := some [.full 4 1, .full 5 3], tmp := none } (psaveSteps [(2, [4, 5]), (3, [6])]) 3) =
    [.full 4 1, .full 5 3] := by decide

/-- **ps_no_extra_peer.** For EVERY peerstore file (any lines in any order: duplicates, several addresses per peer,
    interleaved peers, bare addresses, comments, blank and unparsable lines, our own address): the peers a fresh host
    knows after importing it are exactly the peers (of the universe, other than ourselves) that have a full address
    line in the file — no extra peer, none missing — and the addresses it holds for such a peer are exactly the
    addresses of that peer's lines. -/
theorem ps_no_extra_peer (self : Nat) (file : List Line) (univ : List Nat) :
    (∀ p, p ∈ (importPeers self (load file) univ).map (·.id) ↔ p ∈ univ ∧ p ≠ self ∧ ∃ a, Line.full a p ∈ file) ∧
    (∀ k ∈ importPeers self (load file) univ, ∀ a, a ∈ k.addrs ↔ Line.full a k.id ∈ file) ∧
    (univ.Nodup → ((importPeers self (load file) univ).map (·.id)).Nodup) := by
  have hentry : ∀ q k, importedEntry self (load file) q = some k →
      k.id = q ∧ q ≠ self ∧ k.addrs = importedAddrs self (load file) q ∧ ∃ a, Line.full a q ∈ file := by
    intro q k h
    unfold importedEntry at h
    split at h
    · cases h
    · rename_i pr hpr
      cases h
      unfold importPrio at hpr
      by_cases hq : q = self
      · simp [hq] at hpr
      · simp only [hq, if_false] at hpr
        obtain ⟨a, ha⟩ := lastIdx_present q (load file) 0 (by rw [hpr]; simp)
        exact ⟨rfl, hq, rfl, a, full_mem_load.1 ha⟩
  refine ⟨?_, ?_, ?_⟩
  · intro p
    simp only [importPeers, List.mem_map, List.mem_filterMap]
    constructor
    · rintro ⟨k, ⟨q, hq, hk⟩, rfl⟩
      obtain ⟨h1, h2, _, h4⟩ := hentry q k hk
      rw [h1]
      exact ⟨hq, h2, h4⟩
    · rintro ⟨hu, hps, a, ha⟩
      have hsome := lastIdx_isSome_of_mem p a (load file) 0 none (full_mem_load.2 ha)
      obtain ⟨pr, hpr⟩ := Option.isSome_iff_exists.1 hsome
      exact ⟨{ id := p, prio := some pr, addrs := importedAddrs self (load file) p },
        ⟨p, hu, by simp [importedEntry, importPrio, hps, hpr]⟩, rfl⟩
  · intro k hk a
    simp only [importPeers, List.mem_filterMap] at hk
    obtain ⟨q, _, hk⟩ := hk
    obtain ⟨h1, h2, h3, _⟩ := hentry q k hk
    rw [h3, h1, mem_importedAddrs, full_mem_load]
    exact ⟨fun h => h.1, fun h => ⟨h, h2⟩⟩
  · intro hn
    unfold importPeers
    rw [List.map_filterMap]
    have : ∀ q, (importedEntry self (load file) q).map (·.id) = if (importedEntry self (load file) q).isSome then some q else none := by
      intro q
      cases h : importedEntry self (load file) q with
      | none => rfl
      | some k => simp [(hentry q k h).1]
    simp only [this]
    refine List.Nodup.sublist ?_ hn
    clear hn
    induction univ with
    | nil => exact List.Sublist.slnil
    | cons x t ih =>
      rw [List.filterMap_cons]
      by_cases hx : (importedEntry self (load file) x).isSome = true
      · simp only [hx, if_true]; exact List.Sublist.cons_cons _ ih
      · simp only [hx]; exact List.Sublist.cons _ ih

example : (importPeers 0 (load [.noSlash 0, .full 4 2, .bare 5, .full 6 3, .full 5 2, .slashBad 1, .full 7 0, .empty]) (List.range 6)).map (·.id) =
    [2, 3] := by decide

/-- **ps_same_priority_order** for EVERY peerstore file in which every peer's lines are adjacent (any other content:
    garbage, comments, blank lines, bare addresses, our own address, duplicate lines, several addresses per peer — the
    hypothesis `contiguous` is the one under which "line order" orders the peers at all; it is the Spec clause's guard):
    whatever tie-break the fresh host's `PeerInfos` uses, it lists the peers in the order of their first line. -/
theorem ps_same_priority_order (self : Nat) (file : List Line) (univ : List Nat) (outp : List (Nat × List Nat))
    (hu : ∀ p ∈ linePeers self (load file), p ∈ univ) (hun : univ.Nodup)
    (hc : contiguous (linePeers self (load file)) = true)
    (hout : peerInfosAllowed { self := self, known := importPeers self (load file) univ, peers := univ } outp = true) :
    outp.map (·.1) = dedupKeepFirst (linePeers self (load file)) := by
  set L := load file with hL
  set known2 := importPeers self L univ with hk2
  set D := dedupKeepFirst (linePeers self L) with hD
  unfold peerInfosAllowed at hout
  simp only [Bool.and_eq_true] at hout
  have hperm := List.isPerm_iff.1 hout.1.1
  have hsorted := hout.1.2
  have hDmem : ∀ p, p ∈ D ↔ p ≠ self ∧ ∃ a, Line.full a p ∈ L := fun p => mem_dedupKeepFirst.trans mem_linePeers
  have hDu : ∀ p ∈ D, p ∈ univ := fun p hp => hu p (mem_dedupKeepFirst.1 hp)
  have hprio : ∀ p ∈ D, ∀ k, lastIdx p L 0 none = some k → prioOf known2 p = k := by
    intro p hp k hk'
    have hps : p ≠ self := ((hDmem p).1 hp).1
    unfold prioOf
    rw [hk2, lookup_importPeers, if_pos (hDu p hp)]
    simp [importedEntry, importPrio, hps, hk']
  have hmem : ∀ p, p ∈ listed { self := self, known := known2, peers := univ } ↔ p ∈ D := by
    intro p
    unfold listed
    simp only [List.mem_filter, Bool.and_eq_true, bne_iff_ne, Bool.not_eq_true', ne_eq]
    constructor
    · rintro ⟨hpu, hps, hadd⟩
      have hent : importedEntry self L p ≠ none := by
        intro hnone
        simp only [addrsOf] at hadd
        rw [hk2, lookup_importPeers, if_pos hpu, hnone] at hadd
        simp at hadd
      have hl : lastIdx p L 0 none ≠ none := by
        intro hnone
        apply hent
        simp [importedEntry, importPrio, hps, hnone]
      obtain ⟨a, ha⟩ := lastIdx_present p L 0 hl
      exact (hDmem p).2 ⟨hps, a, ha⟩
    · intro hp
      obtain ⟨hps, a, ha⟩ := (hDmem p).1 hp
      refine ⟨hDu p hp, hps, ?_⟩
      obtain ⟨k, hk'⟩ := Option.isSome_iff_exists.1 (lastIdx_isSome_of_mem p a L 0 none ha)
      simp only [addrsOf]
      rw [hk2, lookup_importPeers, if_pos (hDu p hp)]
      simp only [importedEntry, importPrio, hps, if_false, hk', Option.map_some, Option.getD_some]
      have := importedAddrs_ne_nil (self := self) hps ha
      cases h : importedAddrs self L p with
      | nil => exact absurd h this
      | cons _ _ => rfl
  have hPstrict : D.Pairwise (fun a b => prioOf known2 a < prioOf known2 b) := by
    refine List.Pairwise.imp_of_mem ?_ (dedup_prio_increasing self L 0 hc)
    intro p q hp hq ⟨a, b, ha, hb, hab⟩
    rw [hprio p hp a ha, hprio q hq b hb]
    exact hab
  have houtmem : ∀ x, x ∈ outp.map (·.1) ↔ x ∈ D := fun x => (hperm.mem_iff).trans (hmem x)
  have houtnd : (outp.map (·.1)).Nodup := by
    rw [hperm.nodup_iff]
    exact List.Nodup.filter _ hun
  have hdist : ∀ x ∈ D, ∀ y ∈ D, x = y ∨ prioOf known2 x ≠ prioOf known2 y := by
    intro x hx y hy
    rcases pairwise_both hPstrict x hx y hy with h | h | h
    · exact Or.inl h
    · exact Or.inr (Nat.ne_of_lt h)
    · exact Or.inr (Nat.ne_of_gt h)
  have houtstrict : (outp.map (·.1)).Pairwise (fun a b => prioOf known2 a < prioOf known2 b) := by
    have h1 := sortedByPrio_pairwise known2 _ hsorted
    have h2 : (outp.map (·.1)).Pairwise (fun a b => a ≠ b) := houtnd
    have h3 := List.Pairwise.and h1 h2
    refine List.Pairwise.imp_of_mem ?_ h3
    intro a b ha hb ⟨hle, hne'⟩
    rcases hdist a ((houtmem a).1 ha) b ((houtmem b).1 hb) with h | h
    · exact absurd h hne'
    · omega
  exact strict_sorted_unique (prioOf known2) _ D houtstrict hPstrict houtmem

example : contiguous (linePeers 0 (load [.noSlash 0, .full 4 2, .bare 5, .full 5 2, .full 7 0, .full 6 3, .slashBad 1, .full 6 3])) = true ∧
    dedupKeepFirst (linePeers 0 (load [.noSlash 0, .full 4 2, .bare 5, .full 5 2, .full 7 0, .full 6 3, .slashBad 1, .full 6 3])) = [2, 3] := by
  decide

/-! ## Prop-level readings of the Bool checkers -/

/-- Prop reading of the Bool checker `samePinset`: one pin per cid on both sides, same pins. -/
theorem samePinset_iff (a b : List Pin) :
    samePinset a b = true ↔ (a.map (·.cid)).Nodup ∧ (b.map (·.cid)).Nodup ∧ ∀ p, p ∈ a ↔ p ∈ b := by
  unfold samePinset
  simp only [Bool.and_eq_true, nodupCids_iff, List.all_eq_true, List.contains_iff_mem]
  constructor
  · rintro ⟨⟨⟨h1, h2⟩, h3⟩, h4⟩
    exact ⟨h1, h2, fun p => ⟨h3 p, h4 p⟩⟩
  · rintro ⟨h1, h2, h3⟩
    exact ⟨⟨⟨h1, h2⟩, fun p hp => (h3 p).1 hp⟩, fun p hp => (h3 p).2 hp⟩

/-- Prop reading of the rotation clauses on a window of `m` indices. -/
theorem rotClauses_iff {β : Type} [DecidableEq β] (keep m : Nat) (s : β) (b a : Dirs β) :
    allHold (rotClauses keep m s b a) = true ↔
      a.old 0 = some (.snap s) ∧
      (∀ i < m, i + 1 < keep → (∀ j ≤ i, (b.old j).isSome = true) → a.old (i + 1) = b.old i) ∧
      (∀ i < m, (b.old i).isSome = true →
          (i + 1 = keep ∧ ∀ j < keep, (b.old j).isSome = true) ∨
          ((i + 1 < keep ∧ ∀ j ≤ i, (b.old j).isSome = true) → a.old (i + 1) = b.old i) ∧
          (¬ (i + 1 < keep ∧ ∀ j ≤ i, (b.old j).isSome = true) → a.old i = b.old i)) ∧
      (∀ i < m, keep ≤ i → a.old i = b.old i) := by
  unfold rotClauses allHold
  simp only [List.all_cons, List.all_nil, Bool.and_true, Bool.and_eq_true, beq_iff_eq, List.all_eq_true,
    List.mem_range, Bool.or_eq_true, Bool.not_eq_true', decide_eq_true_eq, runUpTo_iff, windowFull_iff]
  constructor
  · rintro ⟨h1, h2, h3, h4⟩
    refine ⟨h1, ?_, ?_, ?_⟩
    · intro i hi hk hall
      rcases h2 i hi with h | h
      · rw [Bool.and_eq_false_iff] at h
        rcases h with h | h
        · simp at h; omega
        · have := (runUpTo_iff b i).2 hall
          rw [this] at h; cases h
      · exact h
    · intro i hi hsome
      rcases h3 i hi with (h | h) | h
      · rw [Option.isNone_iff_eq_none] at h
        rw [h] at hsome; cases hsome
      · exact Or.inl h
      · right
        constructor
        · intro hc
          rw [if_pos (by simpa [runUpTo_iff] using hc)] at h
          simpa using h
        · intro hc
          rw [if_neg (by simpa [runUpTo_iff] using hc)] at h
          simpa using h
    · intro i hi hk
      rcases h4 i hi with h | h
      · omega
      · exact h
  · rintro ⟨h1, h2, h3, h4⟩
    refine ⟨h1, ?_, ?_, ?_⟩
    · intro i hi
      by_cases hc : i + 1 < keep ∧ ∀ j ≤ i, (b.old j).isSome = true
      · exact Or.inr (h2 i hi hc.1 hc.2)
      · left
        rw [Bool.and_eq_false_iff]
        rw [not_and_or] at hc
        rcases hc with hc | hc
        · left; simpa using hc
        · right
          rw [Bool.eq_false_iff]
          intro hr
          exact hc ((runUpTo_iff b i).1 hr)
    · intro i hi
      by_cases hsome : (b.old i).isSome = true
      · rcases h3 i hi hsome with h | ⟨h, h'⟩
        · exact Or.inl (Or.inr h)
        · right
          by_cases hc : i + 1 < keep ∧ ∀ j ≤ i, (b.old j).isSome = true
          · rw [if_pos (by simpa [runUpTo_iff] using hc)]
            simpa using h hc
          · rw [if_neg (by simpa [runUpTo_iff] using hc)]
            simpa using h' hc
      · left; left
        cases hb : b.old i with
        | none => rfl
        | some _ => rw [hb] at hsome; simp at hsome
    · intro i hi
      by_cases hk : i < keep
      · exact Or.inl hk
      · exact Or.inr (h4 i hi (by omega))

/-! ### Round 8: the Raft data folder as (snapshot, log); `state import` onto it and the STARTED peer

`Model/C14Start.lean`. What a started peer serves is the newest snapshot PLUS the log entries behind it, so
"import replaces whatever was there" has to get rid of the log too. -/
section StartTheorems
open CV.C14.Start

/-- `CleanupRaft` always leaves no data folder (a folder without snapshot is removed with its log) -/
theorem cleanup_leaves_nothing (d : Start.Data) : (Start.cleanup d).1 = none := by
  cases d with
  | none => rfl
  | some r => obtain ⟨snap, log⟩ := r; cases snap <;> rfl

/-- `import_then_start_id`, for EVERY prior content of the data folder (no folder, a log only, a snapshot, a snapshot
    and a log behind it — any indices, any entries) and every imported pinset: the peer started after
    `raftStateManager.ImportState` serves exactly the imported pinset, the offline read gives the same, and no log
    entry is left in the folder. -/
theorem import_then_start_id (d : Start.Data) (s : List Nat) :
    Start.start (Start.importState d s).1 = s ∧ Start.offline (Start.importState d s).1 = s ∧
    (Start.importState d s).1 = some { snap := some (2, s), log := [] } := by
  have h := cleanup_leaves_nothing d
  simp only [Start.importState, h, Start.snapshotSave, Start.start, Start.startR, Start.replay, Start.offline, and_self]

example : Start.start (Start.importState (Start.build [.pin 3, .restart, .pin 4, .unpin 3] false) [5]).1 = [5] := by decide

/-- whole histories: whatever a single-voter peer did before (any sequence of pins, unpins and graceful restarts),
    killed or shut down, the peer started after an import serves the import -/
theorem import_after_any_history (ops : List Start.Op) (graceful : Bool) (s : List Nat) :
    Start.start (Start.importState (Start.build ops graceful) s).1 = s := (import_then_start_id _ s).1

/-- a folder that held a snapshot is the backup (old.0) afterwards — whole, log included: both the offline read
    and a peer started on the backup give what they gave before the import -/
theorem import_backs_up (d : Start.Data) (s : List Nat) (h : Start.hasSnap d = true) : (Start.importState d s).2 = d := by
  cases d with
  | none => simp [Start.hasSnap] at h
  | some r =>
    obtain ⟨snap, log⟩ := r
    cases snap with
    | none => simp [Start.hasSnap] at h
    | some p => rfl

example : Start.hasSnap (Start.build [.pin 3] true) = true := by decide

/-- The alternative "leave the backup to SnapshotSave" (import without `Clean`): the OFFLINE read cannot tell it
    from the real thing — for every folder it shows exactly the imported pinset … -/
theorem importNoClean_offline_id (d : Start.Data) (s : List Nat) : Start.offline (Start.importNoClean d s).1 = s := by
  cases d with
  | none => rfl
  | some r => obtain ⟨snap, log⟩ := r; cases snap <;> rfl

/-- … and so does the started peer whenever the folder held a snapshot or did not exist … -/
theorem importNoClean_start_ok (d : Start.Data) (s : List Nat) (h : Start.hasSnap d = true ∨ d = none) :
    Start.start (Start.importNoClean d s).1 = s := by
  cases d with
  | none => rfl
  | some r =>
    obtain ⟨snap, log⟩ := r
    cases snap with
    | none => simp [Start.hasSnap] at h
    | some p => rfl

/-- … but on a folder with a LOG and NO snapshot (a peer killed before its first snapshot) the started peer replays
    every entry behind index 2 on top of the import -/
theorem importNoClean_start_log_only (log : List (Nat × Start.Entry)) (s : List Nat) :
    Start.start (Start.importNoClean (some { snap := none, log := log }) s).1 = Start.replay s 2 log := rfl

def importNoClean_start_id : Prop := ∀ (d : Start.Data) (s : List Nat), Start.start (Start.importNoClean d s).1 = s

/-- refuted: one committed pin, killed, import of the EMPTY pinset: the started peer serves the old pin -/
theorem importNoClean_start_id_fails : ¬ importNoClean_start_id := by
  intro h
  have := h (Start.build [.pin 3] false) []
  revert this
  decide

/-- Prop reading of the Bool clause -/
theorem sameSet_iff (a b : List Nat) : sameSet a b = true ↔ a.foldr insS [] = b.foldr insS [] := by
  simp [sameSet]

/-- "a killed peer starts with everything it committed": `start (build ops false)` is the pinset the operations
    give. Proved in round 8b (`restart_keeps_state_full_holds`). -/
def restart_keeps_state_full : Prop :=
  ∀ ops : List Start.Op, Start.start (Start.build ops false) =
    (ops.foldl (fun st o => match o with | .pin c => Start.ins c st | .unpin c => Start.del c st | .restart => st) [])

/-- the index invariant holds of every folder the single-voter peer writes: all indices positive and at most the last
    log index, every command entry at or before `cmdIdx` — after ANY sequence of pins, unpins and graceful restarts,
    killed or shut down -/
theorem build_index_invariant (ops : List Start.Op) (graceful : Bool) :
    ∃ r, Start.build ops graceful = some r ∧ Start.Inv r := by
  cases graceful with
  | false => exact ⟨_, rfl, Start.inv_runOps _ ops Start.inv_boot_none⟩
  | true => exact ⟨_, rfl, Start.inv_shutdown _ (Start.inv_runOps _ ops Start.inv_boot_none)⟩

/-- `restart_keeps_state`, whole histories, KILLED peer: the peer started again on the folder (newest snapshot + replay
    of the log behind its index) serves exactly what the operations give — for every sequence of pins, unpins and
    graceful restarts. (Was a `def … : Prop` validated by the correspondence run only.) -/
theorem restart_keeps_state_full_holds : restart_keeps_state_full := by
  intro ops
  have h := Start.startR_runOps (Start.boot none) ops Start.inv_boot_none
  have h0 : Start.startR (Start.boot none) = [] := by decide
  rw [h0] at h
  simp only [Start.start, Start.build, Bool.false_eq_true, if_false]
  rw [h]
  apply Start.foldl_congr_fun
  intro st o; cases o <;> rfl

example : Start.start (Start.build [.pin 3, .pin 5, .restart, .unpin 3, .restart, .restart, .pin 7] false) = [5, 7] := by decide

/-- … and the peer that was SHUT DOWN (snapshot at the index of its last command, no-ops behind it) -/
theorem restart_keeps_state_graceful (ops : List Start.Op) :
    Start.start (Start.build ops true) = ops.foldl Start.specStep [] := by
  have hi := Start.inv_runOps (Start.boot none) ops Start.inv_boot_none
  have h := Start.startR_runOps (Start.boot none) ops Start.inv_boot_none
  have h0 : Start.startR (Start.boot none) = [] := by decide
  rw [h0] at h
  simp only [Start.start, Start.build, if_true]
  rw [Start.startR_shutdown _ hi, h]

/-- `snapshot_offline_id` for the snapshot a peer takes itself: after a graceful shutdown of a peer that committed at
    least one pin or unpin, the OFFLINE read (`state export` of a stopped peer) is exactly what the operations give -/
theorem graceful_offline_id (ops : List Start.Op) (hc : ops.any Start.Op.isCmd = true) :
    Start.offline (Start.build ops true) = ops.foldl Start.specStep [] := by
  have hi := Start.inv_runOps (Start.boot none) ops Start.inv_boot_none
  have h := Start.startR_runOps (Start.boot none) ops Start.inv_boot_none
  have h0 : Start.startR (Start.boot none) = [] := by decide
  rw [h0] at h
  have hp := Start.fsmIdx_pos _ hi (Start.cmd_in_log (Start.boot none) ops hc)
  simp only [Start.build, if_true, Start.shutdown, hp, if_false, Start.offline, h]

example : ([Start.Op.restart, .pin 4, .unpin 9] : List Start.Op).any Start.Op.isCmd = true := by decide

/-- the offline read of a KILLED peer's folder is NOT what it served (it lags by the log): the alternative reading
    "export of a killed peer's folder = its pinset" is refuted — one committed pin, killed -/
def killed_offline_id : Prop := ∀ ops : List Start.Op, Start.offline (Start.build ops false) = ops.foldl Start.specStep []

theorem killed_offline_id_fails : ¬ killed_offline_id := by
  intro h
  have := h [.pin 3]
  revert this
  decide

/-- a committed entry is applied on top of what the peer serves, whatever the folder holds (any snapshot, any log):
    the per-step form of the identity -/
theorem commit_applies (r : Start.Raft) (e : Start.Entry) :
    Start.startR (Start.commit r e) = Start.applyE (Start.startR r) e := Start.startR_commit r e

/-- "a snapshot with a higher index than part of the log": the started peer ignores every log entry at or before the
    snapshot index, whatever it says — only the suffix behind the snapshot is replayed (so `SnapshotSave`'s choice of the
    index decides how much of a log that is still in the folder comes back) -/
theorem start_ignores_log_before_snapshot (i : Nat) (s : List Nat) (l : List (Nat × Start.Entry)) :
    Start.startR { snap := some (i, s), log := l } =
    Start.startR { snap := some (i, s), log := l.filter (fun x => decide (i < x.1)) } := by
  simp only [Start.startR]; exact (Start.replay_filter s i l).symm

example : Start.startR { snap := some (3, [7]), log := [(1, .cfg), (2, .pin 1), (3, .pin 2), (4, .pin 5), (5, .unpin 7)] } = [5] := by decide

end StartTheorems

/-! ## a data folder holding several snapshots and leftovers (round 8b, `Model/C14Snaps.lean`) -/
section SnapsTheorems

/-- WHICH snapshot `LastStateRaw`/`OfflineState` read: one of the folder's readable snapshots such that none is newer
    by (term, index) — whatever else is in `snapshots/` (`*.tmp` directories, unreadable metadata, files) -/
theorem offline_reads_newest (l : List Snaps.Item) (c : Nat) (h : Snaps.offline (some l) = some c) :
    ∃ m ∈ Snaps.snapsOf l, m.pin = c ∧ ∀ x ∈ Snaps.snapsOf l, Snaps.newer x m = false := by
  simp only [Snaps.offline, Snaps.latest, Option.map_eq_some_iff] at h
  obtain ⟨m, hm, hc⟩ := h
  obtain ⟨h1, h2⟩ := Snaps.newest_spec _ m hm
  exact ⟨m, h1, hc, h2⟩

example : Snaps.offline (some [.snap ⟨2, 5, 7⟩, .tmp, .snap ⟨10, 3, 8⟩, .badmeta, .snap ⟨9, 11, 9⟩, .file]) = some 8 := by decide

/-- the directory listing order (creation order, name order) does not matter: for distinct (term, index) pairs every
    permutation of the snapshots gives the same newest one -/
theorem newest_perm (l₁ l₂ : List Snaps.Snap) (hp : l₁.Perm l₂) (hd : Snaps.KeysDistinct l₁) :
    Snaps.newest l₁ = Snaps.newest l₂ := by
  cases h1 : Snaps.newest l₁ with
  | none =>
    have hl := (Snaps.newest_none_iff l₁).mp h1
    subst hl
    have hlen := hp.length_eq
    cases l₂ with
    | nil => rfl
    | cons a t => simp at hlen
  | some m1 =>
    cases h2 : Snaps.newest l₂ with
    | none =>
      have hl := (Snaps.newest_none_iff l₂).mp h2
      subst hl
      have hlen := hp.length_eq
      cases l₁ with
      | nil => simp [Snaps.newest] at h1
      | cons a t => simp at hlen
    | some m2 =>
      obtain ⟨hm1, ha1⟩ := Snaps.newest_spec _ _ h1
      obtain ⟨hm2, ha2⟩ := Snaps.newest_spec _ _ h2
      have e1 := ha1 m2 (hp.mem_iff.mpr hm2)
      have e2 := ha2 m1 (hp.mem_iff.mp hm1)
      rw [Snaps.newer_false_iff] at e1 e2
      have : m1 = m2 := hd m1 hm1 m2 (hp.mem_iff.mpr hm2) (by omega) (by omega)
      rw [this]

example : Snaps.KeysDistinct [⟨2, 5, 7⟩, ⟨10, 3, 8⟩, ⟨9, 11, 9⟩] := by
  intro x hx y hy; simp at hx hy; rcases hx with rfl | rfl | rfl <;> rcases hy with rfl | rfl | rfl <;> simp

/-- `snapshot_offline_id` onto EVERY pre-existing folder content (absent, empty, leftovers only, one snapshot, several
    snapshots in any order with leftovers in between): the offline read after `SnapshotSave c` is `c` -/
theorem save_offline_id_multi (f : Snaps.Folder) (c : Nat) : Snaps.offline (Snaps.save f c).1 = some c := by
  unfold Snaps.save
  cases h : Snaps.latest f with
  | none =>
    simp only [Snaps.offline, Snaps.latest, Snaps.snapsOf_append, Snaps.latest_none_snapsOf f h, Snaps.snapsOf,
      List.nil_append, Snaps.newest_singleton, Option.map_some]
  | some n => rfl

/-- a folder with a readable snapshot goes to old.0 WHOLE (every older snapshot, every leftover); the new data folder
    holds exactly one snapshot, which carries the term and index of the previous newest one -/
theorem save_backs_up_all (f : Snaps.Folder) (c : Nat) (n : Snaps.Snap) (h : Snaps.latest f = some n) :
    (Snaps.save f c).2 = f ∧ (Snaps.save f c).1 = some [.snap ⟨n.term, n.index, c⟩] ∧ Snaps.count (Snaps.save f c).1 = 1 := by
  simp [Snaps.save, h, Snaps.count, Snaps.snapsOf]

/-- no readable snapshot: no backup, nothing removed, the new snapshot is (term 1, index 2) and is the one read -/
theorem save_fresh (f : Snaps.Folder) (c : Nat) (h : Snaps.latest f = none) :
    (Snaps.save f c).2 = none ∧ Snaps.latest (Snaps.save f c).1 = some ⟨1, 2, c⟩ ∧ Snaps.count (Snaps.save f c).1 = 1 := by
  have hs : Snaps.save f c = (some (f.getD [] ++ [.snap ⟨1, 2, c⟩]), none) := by simp only [Snaps.save, h]
  have hl := Snaps.latest_none_snapsOf f h
  rw [hs]
  simp only [Snaps.latest, Snaps.count, Snaps.snapsOf_append, hl, Snaps.snapsOf, List.nil_append,
    Snaps.newest_singleton, List.length_singleton, and_self]

/-- `CleanupRaft`: a folder with a readable snapshot becomes old.0 as it is, otherwise it is removed without backup -/
theorem cleanup_multi (f : Snaps.Folder) :
    (Snaps.cleanup f).1 = none ∧ (Snaps.cleanup f).2 = (if (Snaps.latest f).isSome then f else none) := by
  unfold Snaps.cleanup; cases h : Snaps.latest f <;> simp

/-- alternatives a wrong edit implements, refuted: "the snapshot with the highest INDEX" (ignoring the term) … -/
def newest_is_highest_index : Prop := ∀ l : List Snaps.Snap, Snaps.newest l = Snaps.newestByIndex l
theorem newest_is_highest_index_fails : ¬ newest_is_highest_index := by
  intro h; have := h [⟨2, 5, 1⟩, ⟨1, 9, 2⟩]; revert this; decide

/-- … and "the LAST of the list" (`snapMetas[len-1]`, the oldest) -/
def newest_is_oldest : Prop := ∀ l : List Snaps.Snap, Snaps.newest l = Snaps.oldest l
theorem newest_is_oldest_fails : ¬ newest_is_oldest := by
  intro h; have := h [⟨1, 2, 1⟩, ⟨1, 9, 2⟩]; revert this; decide

/-- SEMANTIC tie (regenerated from the syntax tree of consensus/raft/raft.go on every run, `Gen.Sem`): the facts the folder
    models rest on — `latestSnapshot` opens element 0 of the newest-first list (`Snaps.newest`), `SnapshotSave` with a snapshot
    present cleans and copies `meta.Index`/`meta.Term` (`Snaps.save`, `Start.snapshotSave`), its fresh-start branch writes
    (term 1, index 2) and does not clean, `CleanupRaft` removes exactly the folder without readable snapshot and returns.
    A harmless rewrite changes none of these; a change of any of them fails here (and the `snaps`/`start` suites give the input). -/
theorem gen_sem_snapshot_folder :
    (Gen.Sem.latestOpenIndex, Gen.Sem.saveMetaBranchCleans, Gen.Sem.saveMetaIndexExpr, Gen.Sem.saveMetaTermExpr,
     Gen.Sem.saveFreshIndex, Gen.Sem.saveFreshTerm, Gen.Sem.cleanupEmptyCond, Gen.Sem.cleanupEmptyArm) =
    (some 0, true, "meta.Index", "meta.Term", some 2, some 1, "meta == nil && err == nil",
     ["os.RemoveAll(dataFolder)", "return"]) := rfl

/-- … and the model's fresh-start snapshot IS the one with the regenerated constants -/
theorem gen_sem_fresh_matches_model (c : Nat) :
    Snaps.latest (Snaps.save none c).1 =
      some ⟨Gen.Sem.saveFreshTerm.getD 0, Gen.Sem.saveFreshIndex.getD 0, c⟩ := by
  simp [Snaps.save, Snaps.latest, Snaps.snapsOf, Snaps.newest, Snaps.pick, Gen.Sem.saveFreshTerm, Gen.Sem.saveFreshIndex]

end SnapsTheorems

/-! ## damaged snapshots, equal (term, index), retention (round 8c, `Model/C14Damage.lean`) -/
section DamageTheorems
open Damage

/-- the offline read NEVER silently answers with an older snapshot: when it answers with a pinset, that is an undamaged
    snapshot of the folder that no other snapshot — damaged or not — is newer than -/
theorem offline_never_stale (l : List DSnap) (c : Nat) (h : offlineD (some l) = .pins c) :
    ∃ m ∈ l, m.bad = false ∧ m.s.pin = c ∧ ∀ x ∈ l, Snaps.newer x.s m.s = false := by
  simp only [offlineD] at h
  cases hn : newestD l with
  | none => simp [hn] at h
  | some m =>
    simp only [hn] at h
    obtain ⟨h1, h2⟩ := newestD_spec l m hn
    cases hb : m.bad with
    | true => simp [hb] at h
    | false =>
      simp only [hb, Bool.false_eq_true, if_false, Read.pins.injEq] at h
      exact ⟨m, h1, hb, h, h2⟩
example : offlineD (some [⟨⟨1, 9, 2⟩, true⟩, ⟨⟨2, 5, 3⟩, false⟩]) = .pins 3 := by decide

/-- a damaged snapshot is refused exactly when it is the one `List` puts first: for every folder the read is the refusal
    iff the newest snapshot is damaged (an older damaged snapshot is invisible) -/
theorem offline_broken_iff (l : List DSnap) : offlineD (some l) = .broken ↔ ∃ m, newestD l = some m ∧ m.bad = true := by
  simp only [offlineD]
  cases hn : newestD l with
  | none => simp
  | some m => cases hb : m.bad <;> simp [hb]
example : offlineD (some [⟨⟨1, 9, 2⟩, false⟩, ⟨⟨2, 5, 3⟩, true⟩]) = .broken := by decide

/-- `SnapshotSave` onto a folder whose newest snapshot is damaged is REFUSED and changes nothing (no backup, no new snapshot) -/
theorem save_refused_on_damaged_newest (l : List DSnap) (c : Nat) (m : DSnap) (hn : newestD l = some m) (hb : m.bad = true) :
    saveD (some l) c = ⟨some l, none, true⟩ := by
  simp only [saveD, Option.getD_some, hn, hb, if_true]
example : saveD (some [⟨⟨1, 9, 2⟩, false⟩, ⟨⟨2, 5, 3⟩, true⟩]) 4 = ⟨some [⟨⟨1, 9, 2⟩, false⟩, ⟨⟨2, 5, 3⟩, true⟩], none, true⟩ := by decide

/-- … whereas `state import` (Clean first) succeeds on EVERY folder, damaged or not: the read afterwards is the import, and a
    folder that listed any snapshot is old.0, whole -/
theorem import_onto_damaged_id (f : DFolder) (c : Nat) :
    (importD f c).failed = false ∧ offlineD (importD f c).data = .pins c ∧
      (∀ l m, f = some l → newestD l = some m → (importD f c).old0 = f) := by
  have hfresh : saveD none c = ⟨some [⟨⟨1, 2, c⟩, false⟩], none, false⟩ := by simp [saveD, newestD]
  have hoff : offlineD (some [⟨⟨1, 2, c⟩, false⟩]) = .pins c := by simp [offlineD, newestD, pickD]
  cases f with
  | none => simp [importD, cleanupD, hfresh, hoff]
  | some l =>
    cases hn : newestD l with
    | none =>
      refine ⟨by simp [importD, cleanupD, hn, hfresh], by simp [importD, cleanupD, hn, hfresh, hoff], ?_⟩
      intro l1 m h1 h2; cases h1; rw [hn] at h2; cases h2
    | some m => simp [importD, cleanupD, hn, hfresh, hoff]
example : (importD (some [⟨⟨1, 9, 2⟩, false⟩, ⟨⟨2, 5, 3⟩, true⟩]) 4).data = some [⟨⟨1, 2, 4⟩, false⟩] := by decide

/-- `SnapshotSave` on an undamaged newest snapshot: `snapshot_offline_id` and the whole folder (damaged older ones included) in old.0 -/
theorem save_ok_on_intact_newest (l : List DSnap) (c : Nat) (m : DSnap) (hn : newestD l = some m) (hb : m.bad = false) :
    (saveD (some l) c).failed = false ∧ offlineD (saveD (some l) c).data = .pins c ∧ (saveD (some l) c).old0 = some l := by
  have hs : saveD (some l) c = ⟨some [⟨⟨m.s.term, m.s.index, c⟩, false⟩], some l, false⟩ := by
    simp only [saveD, Option.getD_some, hn, hb]; simp
  rw [hs]; simp [offlineD, newestD, pickD]
example : (saveD (some [⟨⟨1, 9, 2⟩, true⟩, ⟨⟨2, 5, 3⟩, false⟩]) 4).data = some [⟨⟨2, 5, 4⟩, false⟩] := by decide

/-- equal (term, index): the snapshot created LAST is the one read, as soon as no other key is larger -/
theorem tie_latest_created_wins (l : List DSnap) (x : DSnap) (h : ∀ y ∈ l, Snaps.newer y.s x.s = false) :
    newestD (l ++ [x]) = some x := newestD_append_tie l x h
example : newestD [⟨⟨2, 5, 3⟩, false⟩, ⟨⟨1, 100, 1⟩, false⟩, ⟨⟨2, 5, 4⟩, false⟩] = some ⟨⟨2, 5, 4⟩, false⟩ := by decide

/-- refuted alternative: "the first created of equal keys is read" (`pick` of the round-8b model, which assumed distinct keys) -/
theorem tie_first_created_fails :
    ¬ (∀ l : List Snaps.Snap, (newestD (l.map (fun s => ⟨s, false⟩))).map (·.s) = Snaps.newest l) := by
  intro h
  have := h [⟨2, 5, 3⟩, ⟨2, 5, 4⟩]
  revert this; decide

/-- the offline read and the START of a peer differ on a damaged newest snapshot (the started peer falls back, hashicorp
    `restoreSnapshot`): the "fall back" reading of the offline read is NOT what the code does — witness -/
theorem offline_is_not_fallback : ¬ (∀ l : List DSnap, offlineD (some l) = offlineFallback l) := by
  intro h
  have := h [⟨⟨1, 9, 2⟩, false⟩, ⟨⟨2, 5, 3⟩, true⟩]
  revert this; decide

/-- without damage the two agree for every folder -/
theorem offline_eq_fallback_of_intact (l : List DSnap) (h : ∀ x ∈ l, x.bad = false) : offlineD (some l) = offlineFallback l := by
  have hf : l.filter (fun x => !x.bad) = l := by
    apply List.filter_eq_self.mpr; intro x hx; simp [h x hx]
  simp only [offlineD, offlineFallback, startD, hf]
  cases hn : newestD l with
  | none =>
    cases l with
    | nil => simp
    | cons a t =>
      exfalso
      have : ∀ (t : List DSnap) (a : DSnap), ∃ m, t.foldl pickD (some a) = some m := by
        intro t; induction t with
        | nil => intro a; exact ⟨a, rfl⟩
        | cons b t ih =>
          intro a; simp only [List.foldl_cons, pickD]
          cases Snaps.newer a.s b.s <;> simp [ih]
      obtain ⟨m, hm⟩ := this t a
      simp [newestD, pickD, hm] at hn
  | some m =>
    have := h m (newestD_spec l m hn).1
    simp [this]
example : ∀ x ∈ [(⟨⟨1, 9, 2⟩, false⟩ : DSnap), ⟨⟨2, 5, 3⟩, false⟩], x.bad = false := by decide

/-- retention (`ReapSnapshots`, `RaftMaxSnapshots`): at most `keep` snapshots stay, each of them was in the folder, and with
    keep ≥ 1 the first kept one is a snapshot no other is newer than — reaping never removes what `latestSnapshot` reads -/
theorem reap_keeps_newest (keep : Nat) (l : List Snaps.Snap) :
    (Snaps.reap keep l).length = min keep l.length ∧ (∀ x ∈ Snaps.reap keep l, x ∈ l) ∧
      (1 ≤ keep → ∀ m, (Snaps.reap keep l).head? = some m → m ∈ l ∧ ∀ x ∈ l, Snaps.newer x m = false) := by
  refine ⟨by simp [Snaps.reap, sortDesc_length], ?_, ?_⟩
  · intro x hx
    exact (mem_sortDesc x l).mp (List.mem_of_mem_take hx)
  · intro hk m hm
    have hmax := headMax_sortDesc l
    cases hs : Snaps.sortDesc l with
    | nil => simp [Snaps.reap, hs] at hm
    | cons a t =>
      have hka : keep = (keep - 1) + 1 := by omega
      rw [Snaps.reap, hs, hka, List.take_succ_cons] at hm
      simp only [List.head?_cons, Option.some.injEq] at hm
      subst hm
      rw [hs] at hmax
      refine ⟨(mem_sortDesc a l).mp (by rw [hs]; exact List.mem_cons_self ..), ?_⟩
      intro x hx
      have hx' := (mem_sortDesc x l).mpr hx
      rw [hs] at hx'
      rcases List.mem_cons.mp hx' with rfl | hx'
      · exact Snaps.newer_irrefl _
      · exact hmax x hx'
example : Snaps.reap 2 [⟨1, 9, 1⟩, ⟨2, 5, 2⟩, ⟨1, 100, 3⟩] = [⟨2, 5, 2⟩, ⟨1, 100, 3⟩] := by decide


/-- the SEMANTIC tie of `raftStateManager.ImportState` (go/ast → operation list, not text): the regenerated list decodes to
    Clean, GetStore, GetOfflineState, importState, SnapshotSave, every error ending the function -/
theorem gen_sem_import_ops :
    Gen.SemImport.raftImportOps.map decodeOp = [some .clean, some .store, some .offline, some .imp, some .save] := by decide

/-- … and INTERPRETED on the folder model it is `importD`, for every folder (damaged, tied, absent) and every pinset — so with
    `import_onto_damaged_id` the regenerated operation list itself replaces whatever was there -/
theorem gen_sem_import_is_model (f : DFolder) (c : Nat) :
    runImport (Gen.SemImport.raftImportOps.map decodeOp) f none none c = some (importD f c) := by
  rw [gen_sem_import_ops]
  have hd : (cleanupD f).data = none := by
    cases f with
    | none => rfl
    | some l => simp only [cleanupD]; cases newestD l <;> rfl
  have hs : (saveD none c).old0 = none := by simp [saveD, newestD]
  simp [runImport, hd, offlineD, importD, hs]
  intro h; exact h.symm
example : runImport (Gen.SemImport.raftImportOps.map decodeOp) (some [⟨⟨1, 9, 2⟩, false⟩, ⟨⟨2, 5, 3⟩, true⟩]) none none 4
    = some ⟨some [⟨⟨1, 2, 4⟩, false⟩], some [⟨⟨1, 9, 2⟩, false⟩, ⟨⟨2, 5, 3⟩, true⟩], false⟩ := by decide

/-- the alternative "no Clean first, SnapshotSave does the backup" (the seeded change of round 8), interpreted: on a folder whose
    newest snapshot is damaged the import FAILS and nothing is replaced — a second failing input for it besides log-without-snapshot -/
theorem import_without_clean_fails_on_damaged :
    runImport [some .store, some .offline, some .imp, some .save] (some [⟨⟨2, 5, 3⟩, true⟩]) none none 4
      = some ⟨some [⟨⟨2, 5, 3⟩, true⟩], none, true⟩ := by decide

/-- the decode loop of `importState`: decode, end of stream ⇒ done, error ⇒ stop, add, error ⇒ stop, count -/
theorem gen_sem_import_loop :
    Gen.SemImport.importLoop = ["var", "dec.Decode", "if err == io.EOF return n, nil", "if err != nil return n, err",
      "st.Add", "if err != nil return n, err", "n++"] := by decide

end DamageTheorems


/-! ### The anchored functions still read as the model was transcribed (regenerated from /repo on every run) -/

theorem gen_source_Dsstate_f_DefaultHandle : Gen.Dsstate.f_DefaultHandle = Expected.Dsstate.f_DefaultHandle := rfl
theorem gen_source_Dsstate_f_New : Gen.Dsstate.f_New = Expected.Dsstate.f_New := rfl
theorem gen_source_Dsstate_f_State_Add : Gen.Dsstate.f_State_Add = Expected.Dsstate.f_State_Add := rfl
theorem gen_source_Dsstate_f_State_Rm : Gen.Dsstate.f_State_Rm = Expected.Dsstate.f_State_Rm := rfl
theorem gen_source_Dsstate_f_State_Get : Gen.Dsstate.f_State_Get = Expected.Dsstate.f_State_Get := rfl
theorem gen_source_Dsstate_f_State_Has : Gen.Dsstate.f_State_Has = Expected.Dsstate.f_State_Has := rfl
theorem gen_source_Dsstate_f_State_List : Gen.Dsstate.f_State_List = Expected.Dsstate.f_State_List := rfl
theorem gen_source_Dsstate_f_State_Migrate : Gen.Dsstate.f_State_Migrate = Expected.Dsstate.f_State_Migrate := rfl
theorem gen_source_Dsstate_f_State_Marshal : Gen.Dsstate.f_State_Marshal = Expected.Dsstate.f_State_Marshal := rfl
theorem gen_source_Dsstate_f_State_Unmarshal : Gen.Dsstate.f_State_Unmarshal = Expected.Dsstate.f_State_Unmarshal := rfl
theorem gen_source_Dsstate_f_cidToDsKey : Gen.Dsstate.f_cidToDsKey = Expected.Dsstate.f_cidToDsKey := rfl
theorem gen_source_Dsstate_f_dsKeyToCid : Gen.Dsstate.f_dsKeyToCid = Expected.Dsstate.f_dsKeyToCid := rfl
theorem gen_source_Dsstate_f_State_key : Gen.Dsstate.f_State_key = Expected.Dsstate.f_State_key := rfl
theorem gen_source_Dsstate_f_State_unkey : Gen.Dsstate.f_State_unkey = Expected.Dsstate.f_State_unkey := rfl
theorem gen_source_Dsstate_f_State_serializePin : Gen.Dsstate.f_State_serializePin = Expected.Dsstate.f_State_serializePin := rfl
theorem gen_source_Dsstate_f_State_deserializePin : Gen.Dsstate.f_State_deserializePin = Expected.Dsstate.f_State_deserializePin := rfl
theorem gen_source_Dsstate_f_NewBatching : Gen.Dsstate.f_NewBatching = Expected.Dsstate.f_NewBatching := rfl
theorem gen_source_Dsstate_f_BatchingState_Commit : Gen.Dsstate.f_BatchingState_Commit = Expected.Dsstate.f_BatchingState_Commit := rfl
theorem gen_source_DataHelper_f_newDataBackupHelper : Gen.DataHelper.f_newDataBackupHelper = Expected.DataHelper.f_newDataBackupHelper := rfl
theorem gen_source_DataHelper_f_dataBackupHelper_makeName : Gen.DataHelper.f_dataBackupHelper_makeName = Expected.DataHelper.f_dataBackupHelper_makeName := rfl
theorem gen_source_DataHelper_f_dataBackupHelper_listBackups : Gen.DataHelper.f_dataBackupHelper_listBackups = Expected.DataHelper.f_dataBackupHelper_listBackups := rfl
theorem gen_source_DataHelper_f_dataBackupHelper_makeBackup : Gen.DataHelper.f_dataBackupHelper_makeBackup = Expected.DataHelper.f_dataBackupHelper_makeBackup := rfl
theorem gen_source_Raft_f_SnapshotSave : Gen.Raft.f_SnapshotSave = Expected.Raft.f_SnapshotSave := rfl
theorem gen_source_Raft_f_latestSnapshot : Gen.Raft.f_latestSnapshot = Expected.Raft.f_latestSnapshot := rfl
theorem gen_source_Raft_f_LastStateRaw : Gen.Raft.f_LastStateRaw = Expected.Raft.f_LastStateRaw := rfl
theorem gen_source_Raft_f_CleanupRaft : Gen.Raft.f_CleanupRaft = Expected.Raft.f_CleanupRaft := rfl
theorem gen_source_Raft_f_raftWrapper_Clean : Gen.Raft.f_raftWrapper_Clean = Expected.Raft.f_raftWrapper_Clean := rfl
theorem gen_source_Raft_f_OfflineState : Gen.Raft.f_OfflineState = Expected.Raft.f_OfflineState := rfl
theorem gen_source_Pstoremgr_f_New : Gen.Pstoremgr.f_New = Expected.Pstoremgr.f_New := rfl
theorem gen_source_Pstoremgr_f_Manager_ImportPeer : Gen.Pstoremgr.f_Manager_ImportPeer = Expected.Pstoremgr.f_Manager_ImportPeer := rfl
theorem gen_source_Pstoremgr_f_Manager_RmPeer : Gen.Pstoremgr.f_Manager_RmPeer = Expected.Pstoremgr.f_Manager_RmPeer := rfl
theorem gen_source_Pstoremgr_f_Manager_filteredPeerAddrs : Gen.Pstoremgr.f_Manager_filteredPeerAddrs = Expected.Pstoremgr.f_Manager_filteredPeerAddrs := rfl
theorem gen_source_Pstoremgr_f_Manager_PeerInfos : Gen.Pstoremgr.f_Manager_PeerInfos = Expected.Pstoremgr.f_Manager_PeerInfos := rfl
theorem gen_source_Pstoremgr_f_Manager_ImportPeers : Gen.Pstoremgr.f_Manager_ImportPeers = Expected.Pstoremgr.f_Manager_ImportPeers := rfl
theorem gen_source_Pstoremgr_f_Manager_ImportPeersFromPeerstore : Gen.Pstoremgr.f_Manager_ImportPeersFromPeerstore = Expected.Pstoremgr.f_Manager_ImportPeersFromPeerstore := rfl
theorem gen_source_Pstoremgr_f_Manager_LoadPeerstore : Gen.Pstoremgr.f_Manager_LoadPeerstore = Expected.Pstoremgr.f_Manager_LoadPeerstore := rfl
theorem gen_source_Pstoremgr_f_Manager_SavePeerstore : Gen.Pstoremgr.f_Manager_SavePeerstore = Expected.Pstoremgr.f_Manager_SavePeerstore := rfl
theorem gen_source_Pstoremgr_f_writePeerstore : Gen.Pstoremgr.f_writePeerstore = Expected.Pstoremgr.f_writePeerstore := rfl
theorem gen_source_Pstoremgr_f_Manager_SavePeerstoreForPeers : Gen.Pstoremgr.f_Manager_SavePeerstoreForPeers = Expected.Pstoremgr.f_Manager_SavePeerstoreForPeers := rfl
theorem gen_source_Pstoremgr_f_Manager_Bootstrap : Gen.Pstoremgr.f_Manager_Bootstrap = Expected.Pstoremgr.f_Manager_Bootstrap := rfl
theorem gen_source_Pstoremgr_f_Manager_SetPriority : Gen.Pstoremgr.f_Manager_SetPriority = Expected.Pstoremgr.f_Manager_SetPriority := rfl
theorem gen_source_Pstoremgr_f_Manager_HandlePeerFound : Gen.Pstoremgr.f_Manager_HandlePeerFound = Expected.Pstoremgr.f_Manager_HandlePeerFound := rfl
theorem gen_source_Pstoremgr_f_peerSort_Len : Gen.Pstoremgr.f_peerSort_Len = Expected.Pstoremgr.f_peerSort_Len := rfl
theorem gen_source_Pstoremgr_f_peerSort_Less : Gen.Pstoremgr.f_peerSort_Less = Expected.Pstoremgr.f_peerSort_Less := rfl
theorem gen_source_Pstoremgr_f_peerSort_Swap : Gen.Pstoremgr.f_peerSort_Swap = Expected.Pstoremgr.f_peerSort_Swap := rfl
theorem gen_source_Pstoremgr_f_byString_Len : Gen.Pstoremgr.f_byString_Len = Expected.Pstoremgr.f_byString_Len := rfl
theorem gen_source_Pstoremgr_f_byString_Swap : Gen.Pstoremgr.f_byString_Swap = Expected.Pstoremgr.f_byString_Swap := rfl
theorem gen_source_Pstoremgr_f_byString_Less : Gen.Pstoremgr.f_byString_Less = Expected.Pstoremgr.f_byString_Less := rfl
theorem gen_source_Cmdutils_f_NewStateManager : Gen.Cmdutils.f_NewStateManager = Expected.Cmdutils.f_NewStateManager := rfl
theorem gen_source_Cmdutils_f_NewStateManagerWithHelper : Gen.Cmdutils.f_NewStateManagerWithHelper = Expected.Cmdutils.f_NewStateManagerWithHelper := rfl
theorem gen_source_Cmdutils_f_raftStateManager_GetStore : Gen.Cmdutils.f_raftStateManager_GetStore = Expected.Cmdutils.f_raftStateManager_GetStore := rfl
theorem gen_source_Cmdutils_f_raftStateManager_GetOfflineState : Gen.Cmdutils.f_raftStateManager_GetOfflineState = Expected.Cmdutils.f_raftStateManager_GetOfflineState := rfl
theorem gen_source_Cmdutils_f_raftStateManager_ImportState : Gen.Cmdutils.f_raftStateManager_ImportState = Expected.Cmdutils.f_raftStateManager_ImportState := rfl
theorem gen_source_Cmdutils_f_raftStateManager_ExportState : Gen.Cmdutils.f_raftStateManager_ExportState = Expected.Cmdutils.f_raftStateManager_ExportState := rfl
theorem gen_source_Cmdutils_f_raftStateManager_Clean : Gen.Cmdutils.f_raftStateManager_Clean = Expected.Cmdutils.f_raftStateManager_Clean := rfl
theorem gen_source_Cmdutils_f_crdtStateManager_GetStore : Gen.Cmdutils.f_crdtStateManager_GetStore = Expected.Cmdutils.f_crdtStateManager_GetStore := rfl
theorem gen_source_Cmdutils_f_crdtStateManager_GetOfflineState : Gen.Cmdutils.f_crdtStateManager_GetOfflineState = Expected.Cmdutils.f_crdtStateManager_GetOfflineState := rfl
theorem gen_source_Cmdutils_f_crdtStateManager_ImportState : Gen.Cmdutils.f_crdtStateManager_ImportState = Expected.Cmdutils.f_crdtStateManager_ImportState := rfl
theorem gen_source_Cmdutils_f_crdtStateManager_ExportState : Gen.Cmdutils.f_crdtStateManager_ExportState = Expected.Cmdutils.f_crdtStateManager_ExportState := rfl
theorem gen_source_Cmdutils_f_crdtStateManager_Clean : Gen.Cmdutils.f_crdtStateManager_Clean = Expected.Cmdutils.f_crdtStateManager_Clean := rfl
theorem gen_source_Cmdutils_f_importState : Gen.Cmdutils.f_importState = Expected.Cmdutils.f_importState := rfl
theorem gen_source_Cmdutils_f_exportState : Gen.Cmdutils.f_exportState = Expected.Cmdutils.f_exportState := rfl
theorem gen_source_FsCalls_c_dataBackupHelper_listBackups : Gen.FsCalls.c_dataBackupHelper_listBackups = Expected.FsCalls.c_dataBackupHelper_listBackups := rfl
theorem gen_source_FsCalls_c_dataBackupHelper_makeBackup : Gen.FsCalls.c_dataBackupHelper_makeBackup = Expected.FsCalls.c_dataBackupHelper_makeBackup := rfl
theorem gen_source_FsCalls_c__CleanupRaft : Gen.FsCalls.c__CleanupRaft = Expected.FsCalls.c__CleanupRaft := rfl
theorem gen_source_FsCalls_c__SnapshotSave : Gen.FsCalls.c__SnapshotSave = Expected.FsCalls.c__SnapshotSave := rfl
theorem gen_source_FsCalls_c_Manager_SavePeerstore : Gen.FsCalls.c_Manager_SavePeerstore = Expected.FsCalls.c_Manager_SavePeerstore := rfl
theorem gen_source_FsCalls_c__writePeerstore : Gen.FsCalls.c__writePeerstore = Expected.FsCalls.c__writePeerstore := rfl
theorem gen_source_FsCalls_c_raftStateManager_ImportState : Gen.FsCalls.c_raftStateManager_ImportState = Expected.FsCalls.c_raftStateManager_ImportState := rfl
theorem gen_source_FsCalls_c_crdtStateManager_ImportState : Gen.FsCalls.c_crdtStateManager_ImportState = Expected.FsCalls.c_crdtStateManager_ImportState := rfl


/-! ## The crdt side: `crdtStateManager.ImportState` / `ExportState` / `Clean`, `crdt.OfflineState` on a shared datastore -/

section CrdtTheorems
open CV.C14.Crdt

theorem crdt_filter_clean (ns : Nat) (ds : DS) : (clean ns ds).filter (fun e => e.ns == ns) = [] := by
  unfold clean
  rw [List.filter_filter]
  apply List.filter_eq_nil_iff.2
  intro e _
  cases h : e.ns == ns <;> simp [bne, h]

/-- after `Clean` the offline read is empty, for every store content -/
theorem crdt_read_clean (ns : Nat) (ds : DS) : offlineRead ns (clean ns ds) = [] := by
  unfold offlineRead
  rw [crdt_filter_clean]
  rfl

/-- `Clean` leaves every other namespace as it was -/
theorem crdt_clean_others (ns : Nat) (ds : DS) : (clean ns ds).filter (fun e => e.ns != ns) = clean ns ds := by
  unfold clean
  rw [List.filter_filter]
  congr 1
  funext e
  simp

theorem crdt_read_commit_clean (ns : Nat) (ds : DS) {m : PinMap} (hs : SS m) :
    offlineRead ns (commit ns m (clean ns ds)) = m := by
  unfold offlineRead commit
  rw [List.filter_append, crdt_filter_clean, List.nil_append]
  have : (m.map (fun p => ({ ns := ns, pin := p } : Entry))).filter (fun e => e.ns == ns) =
      m.map (fun p => ({ ns := ns, pin := p } : Entry)) := by
    apply List.filter_eq_self.2
    intro e he
    obtain ⟨p, _, rfl⟩ := List.mem_map.1 he
    simp
  rw [this, List.map_map]
  have : (m.map ((fun e : Entry => e.pin) ∘ fun p => ({ ns := ns, pin := p } : Entry))) = m := by
    simp [Function.comp_def]
  rw [this]
  exact putAll_arrangement hs (List.Perm.refl _)

theorem ss_importInto : ∀ (js : List JPin) {m m' : PinMap}, SS m → importInto m js = some m' → SS m' := by
  intro js
  induction js with
  | nil => intro m m' hs h; simp [importInto] at h; exact h ▸ hs
  | cons j t ih =>
    intro m m' hs h
    unfold importInto at h
    cases hj : jdec j with
    | none => simp [hj] at h
    | some p => simp [hj] at h; exact ih (ss_put hs) h

/-- what is read offline after an import depends on the stream only: NOTHING survives of the prior content of the crdt
    name space (every prior store content, every stream, garbled or not) -/
theorem crdt_import_replaces (ns : Nat) (ds : DS) (js : List JPin) (garbage : Bool) :
    offlineRead ns (importCrdt ns ds js garbage).2 = offlineRead ns (importCrdt ns [] js garbage).2 ∧
    (importCrdt ns ds js garbage).1 = (importCrdt ns [] js garbage).1 ∧
    (importCrdt ns ds js garbage).2.filter (fun e => e.ns != ns) = clean ns ds := by
  unfold importCrdt
  cases h : importInto [] js with
  | none => exact ⟨by simp [crdt_read_clean], rfl, crdt_clean_others ns ds⟩
  | some m =>
    have hs : SS m := ss_importInto js ss_nil h
    cases garbage
    · cases hjs : js.isEmpty
      · refine ⟨by simp [crdt_read_commit_clean _ _ hs], rfl, ?_⟩
        simp only [Bool.false_eq_true, if_false]
        unfold commit
        rw [List.filter_append, crdt_clean_others]
        have : (m.map (fun p => ({ ns := ns, pin := p } : Entry))).filter (fun e => e.ns != ns) = [] := by
          apply List.filter_eq_nil_iff.2
          intro e he
          obtain ⟨p, _, rfl⟩ := List.mem_map.1 he
          simp
        rw [this, List.append_nil]
      · exact ⟨by simp [crdt_read_clean], rfl, by simpa using crdt_clean_others ns ds⟩
    · exact ⟨by simp [crdt_read_clean], rfl, by simpa using crdt_clean_others ns ds⟩

/-- what the crdt manager's import leaves is what the abstract `importStateCrdt` of the pins suite says -/
theorem crdt_import_is_model (ns : Nat) (ds : DS) (t : PinMap) (js : List JPin) (garbage : Bool) :
    ((importCrdt ns ds js garbage).1, offlineRead ns (importCrdt ns ds js garbage).2) = importStateCrdt t js garbage := by
  unfold importCrdt importStateCrdt
  cases h : importInto [] js with
  | none => simp [crdt_read_clean]
  | some m =>
    have hs : SS m := ss_importInto js ss_nil h
    cases garbage
    · cases hjs : js.isEmpty <;> simp [crdt_read_clean, crdt_read_commit_clean _ _ hs]
    · simp [crdt_read_clean]

/-- export → crdt import onto ANY store content → offline read / crdt export: the same pinset
    (every prior store content, every pinset of well-formed pins without origins - K01c -, every listing order) -/
theorem crdt_import_export_id (ns : Nat) (ds : DS) (g listing : List Pin) (hw : ∀ p ∈ g, wfPin p = true)
    (ho : ∀ p ∈ g, p.origins = []) (hl : listing.Perm (fromList g)) :
    ∃ js, exportStream listing = some js ∧ (importCrdt ns ds js false).1 = .ok (fromList g) ∧
      offlineRead ns (importCrdt ns ds js false).2 = fromList g ∧
      exportCrdt ns (importCrdt ns ds js false).2 = exportStream (fromList g) := by
  obtain ⟨js, h1, h2⟩ := export_import_crdt_id_partial g [] listing hw ho hl
  have h := crdt_import_is_model ns ds (fromList []) js false
  rw [h2] at h
  have ha := congrArg Prod.fst h
  have hb := congrArg Prod.snd h
  simp only at ha hb
  exact ⟨js, h1, ha, hb, by unfold exportCrdt; rw [hb]⟩

/-- refuted alternative: an import that does not `Clean` keeps a pin that is not in the import -/
theorem crdt_import_without_clean_keeps_prior :
    ∃ (ds : DS) (js : List JPin) (p : Pin), p ∈ offlineRead 0 (importNoClean 0 ds js).2 ∧
      p ∉ offlineRead 0 (importCrdt 0 ds js false).2 := by
  let p : Pin := { cid := 5, ptype := 2, allocs := [], depth := -1, ref := none, rmin := 0, rmax := 0, name := 0,
                   mode := 0, shard := 0, ualloc := [], expire := 0, pmeta := [], pupdate := none, origins := [] }
  exact ⟨ofPins 0 [p], [], p, by decide, by decide⟩

def crdtExamplePin : Pin :=
  { cid := 5, ptype := 2, allocs := [], depth := -1, ref := none, rmin := 0, rmax := 0, name := 0,
    mode := 0, shard := 0, ualloc := [], expire := 0, pmeta := [], pupdate := none, origins := [] }

example : offlineRead 0 (ofPins 0 [crdtExamplePin] ++ ofPins 1 [crdtExamplePin]) ≠ [] ∧
    clean 0 (ofPins 0 [crdtExamplePin] ++ ofPins 1 [crdtExamplePin]) ≠ [] ∧
    offlineRead 0 (importCrdt 0 (ofPins 0 [crdtExamplePin] ++ ofPins 1 [crdtExamplePin]) [] false).2 = [] := by decide

end CrdtTheorems
end CV.C14
