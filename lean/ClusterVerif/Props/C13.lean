import ClusterVerif.Lemmas.C13Log
import ClusterVerif.Lemmas.C13Deliv
/-!
C13 — property theorems about the bookkeeping model (Model/C13.lean) of the adders' DAG
services. They hold for every block stream, every allocation script, every script of
BlockPut / BlockAllocate / Pin failures. The content half of the property (closure under
links, read-back, root equalities) is not modelled; it is validated by the harness.

`CallerStops`: the importer does not go on after a failed `Add` (`adder.go` returns at the first
error of `dagFmtr.Add`, so `Finalize` is reached only when no `Add` failed). The dependency
go-unixfs breaks this in one place (balanced.Layout drops the error of the first child's
`AddChild`), and then the bookkeeping clauses do fail: `bookkeeping_full_fails`.
-/
namespace CV.C13
open CV

/-- the generated constants are the ones the model was written for -/
theorem gen_shape : Gen.fitRecognised = true ∧ Gen.guardRecognised = true ∧ Gen.directTestIsLeMaxLinks = true ∧
    Gen.emptyTestIsSizeZero = true ∧ Gen.fitStrict = true ∧ Gen.guardUsesLinks = false ∧ Gen.guardConst = 1 ∧
    Gen.depthDirect = 1 ∧ Gen.depthIndirect = 2 := by decide

/-- the Bool checker is exactly the conjunction of its named clauses -/
theorem holds_iff (c : Cfg) (v : View) : holds c v = true ↔ ∀ x ∈ clauses c v, x.2 = true := by
  simp [holds, List.all_eq_true]

/-- `Finalize` is reached only when no `Add` returned an error -/
def CallerStops (c : Cfg) (stream : List Blk) (fin : Option Nat) : Prop :=
  (run c stream fin).finalized = true → (run c stream fin).failed = []

theorem wf_parts {c : Cfg} {stream : List Blk} (h : wf c stream = true) :
    c.allocs.all nodupNat = true ∧ consistent stream = true := by
  simp only [wf, Bool.and_eq_true] at h
  exact ⟨h.1.1, h.2⟩

/-- The full statement: the model's view of its own run meets every pin / shard clause of the Spec. -/
def bookkeeping_full : Prop :=
  ∀ (c : Cfg) (stream : List Blk) (fin : Option Nat) (cl rb rp ri : Bool), wf c stream = true →
    (bookkeeping c ((run c stream fin).view stream cl rb rp ri)).all (·.2) = true

theorem ok_finalized (c : Cfg) (stream : List Blk) (fin : Option Nat) (hok : (run c stream fin).status = .ok) :
    (run c stream fin).finalized = true := by
  unfold run at hok ⊢
  split_ifs at hok ⊢
  · unfold runShard at hok ⊢
    rcases h : shAddAll c ShSt.init stream 0 [] with ⟨s, pan, failed⟩
    rw [h] at hok
    cases pan <;> cases fin <;> simp_all
  · unfold runSingle at hok ⊢
    rcases h : singleAddAll c SSt.init stream 0 [] with ⟨s, failed⟩
    rw [h] at hok
    cases fin <;> simp_all

/-- On success the destination daemons hold every block the adder was given: each block of the stream was
    accepted by at least one destination (for callers that stop at the first failed `Add`). -/
theorem blocks_delivered (c : Cfg) (stream : List Blk) (fin : Option Nat) (hstop : CallerStops c stream fin)
    (hok : (run c stream fin).status = .ok) : allDelivered (run c stream fin).log stream = true := by
  have hfin := ok_finalized c stream fin hok
  have hnf := hstop hfin
  unfold run at hfin hnf ⊢
  split_ifs at hfin hnf ⊢
  · exact runShard_delivered c stream fin hfin hnf
  · exact runSingle_delivered c stream fin hnf

/-- ... proved for callers that stop at the first failed `Add` -/
theorem bookkeeping_partial (c : Cfg) (stream : List Blk) (fin : Option Nat) (cl rb rp ri : Bool)
    (hwf : wf c stream = true) (hstop : CallerStops c stream fin) :
    (bookkeeping c ((run c stream fin).view stream cl rb rp ri)).all (·.2) = true := by
  obtain ⟨hnd, hcons⟩ := wf_parts hwf
  have hdel : (deliveryClauses ((run c stream fin).view stream cl rb rp ri)).all (·.2) = true := by
    by_cases hok : (run c stream fin).status = .ok
    · simp [deliveryClauses, Out.view, hok, blocks_delivered c stream fin hstop hok]
    · have : ((run c stream fin).status == Status.ok) = false := by simpa using hok
      simp [deliveryClauses, Out.view, this]
  have hpins : (pinClauses c ((run c stream fin).view stream cl rb rp ri)).all (·.2) = true := by
    unfold CallerStops run at hstop
    unfold run
    cases hs : c.shard with
    | true =>
      simp only [hs, if_true] at hstop ⊢
      exact sharded_book c stream _ cl rb rp ri hs hcons (runShard_ok c stream fin hnd hstop)
    | false =>
      simp only [hs] at hstop ⊢
      exact single_book c stream fin cl rb rp ri hs hnd
  simp only [bookkeeping, List.all_append, hdel, hpins, Bool.and_self]

def witnessCfg : Cfg :=
  { shard := true, «local» := false,
    opts := { rmin := 1, rmax := 1, name := 0, mode := .recursive, shard := 10, expire := .zero, metadata := [],
              update := none, origins := [], ualloc := [] },
    allocs := [[1]], afail := [], pfail := [], faults := [] }

def witnessStream : List Blk := [⟨1, 20⟩, ⟨2, 5⟩]

/-- ... and false without that hypothesis: block 1 does not fit an empty shard (its Add fails), the
    caller goes on, block 2 is added, Finalize pins the root; block 1 is in no shard. -/
theorem bookkeeping_full_fails : ¬ bookkeeping_full := by
  intro h
  have := h witnessCfg witnessStream (some 2) true true true true (by decide)
  revert this
  decide

example : wf witnessCfg witnessStream = true ∧ (run witnessCfg witnessStream (some 2)).failed = [0] ∧
    (run witnessCfg witnessStream (some 2)).status = .ok := by decide

def exCfg : Cfg := { witnessCfg with opts := { witnessCfg.opts with shard := 12 }, allocs := [[1, 2], [3]],
                                      faults := [⟨2, 1, 1, .rpc⟩] }
def exStream : List Blk := [⟨1, 5⟩, ⟨2, 5⟩, ⟨1, 5⟩, ⟨3, 5⟩]

/-- a concrete add meeting the hypotheses of the theorems below: two shards, a destination dropped
    after an RPC error, a repeated block, success -/
example : wf exCfg exStream = true ∧ (run exCfg exStream (some 3)).status = .ok ∧
    (run exCfg exStream (some 3)).failed = [] ∧ (run exCfg exStream (some 3)).finalized = true ∧
    ((run exCfg exStream (some 3)).shards.map (fun r => r.blocks.map (·.id))) = [[1, 2], [3]] ∧
    (bookkeeping exCfg ((run exCfg exStream (some 3)).view exStream true true true true)).all (·.2) = true := by decide

/-- On failure the root is not pinned: an add that does not report success has had no data pin and no
    meta pin accepted — whatever fails (any BlockPut at any destination, any allocation, any pin
    call), and even if the caller goes on after a failed `Add`. -/
theorem no_pin_on_failure (c : Cfg) (stream : List Blk) (fin : Option Nat) (hwf : wf c stream = true)
    (hfail : (run c stream fin).status ≠ .ok) :
    ∀ p ∈ acceptedPins (run c stream fin).pins, p.type ≠ .dataT ∧ p.type ≠ .metaT := by
  cases hs : c.shard with
  | true =>
    have hrun : run c stream fin = runShard c stream fin := by simp [run, hs]
    rw [hrun] at hfail ⊢
    intro p hp
    rcases runShard_no_root_pin c stream fin hfail p hp with h | h <;> simp [h]
  | false =>
    have hrun : run c stream fin = runSingle c stream fin := by simp [run, hs]
    rw [hrun] at hfail ⊢
    rw [runSingle_no_root_pin c stream fin (wf_parts hwf).1 hfail]
    simp

/-- On success, not sharded: exactly one pin is accepted: of the returned root, of type data, recursive,
    with the requested options, and with the peers `BlockAllocate` returned - which are the peers the
    blocks were handed to - or with no peers at all when the request replicates everywhere. -/
theorem pins_on_success_single (c : Cfg) (stream : List Blk) (fin : Option Nat) (hwf : wf c stream = true)
    (hs : c.shard = false) (hok : (run c stream fin).status = .ok) :
    ∃ p d, acceptedPins (run c stream fin).pins = [p] ∧ p.cid = (run c stream fin).root ∧ p.type = .dataT ∧
      p.opts = { c.opts with mode := .recursive } ∧ p.depth = -1 ∧ p.ref = none ∧
      p.allocs = (if c.opts.rmin < 0 then [] else d) ∧ d.Nodup ∧
      (c.local = false → (run c stream fin).sentAll = sortDedup d) := by
  have hrun : run c stream fin = runSingle c stream fin := by simp [run, hs]
  rw [hrun] at hok ⊢
  obtain ⟨r, d, _, hnd, hroot, hpins, hsent⟩ := runSingle_success c stream fin (wf_parts hwf).1 hok
  refine ⟨sentPin (rootPin c r d), d, hpins, ?_, ?_, ?_, ?_, ?_, ?_, (nodupNat_iff d).mp hnd, hsent⟩
  · rw [hroot]; simp [sentPin_cid, rootPin, pinWithOpts]
  · simp [sentPin_type, rootPin, pinWithOpts]
  · simp [sentPin_opts, rootPin, pinWithOpts, workOpts]
  · simp [sentPin_depth, rootPin, pinWithOpts, workOpts, modeToDepth]
  · simp [sentPin_ref, rootPin, pinWithOpts]
  · simp [sentPin_allocs, rootPin, pinWithOpts, workOpts]

theorem shOut (c : Cfg) (stream : List Blk) (fin : Option Nat) (hwf : wf c stream = true) (hs : c.shard = true)
    (hstop : CallerStops c stream fin) : run c stream fin = runShard c stream fin ∧ ShOutOk c stream (run c stream fin) := by
  have hrun : run c stream fin = runShard c stream fin := by simp [run, hs]
  unfold CallerStops at hstop
  rw [hrun] at hstop ⊢
  exact ⟨rfl, runShard_ok c stream fin (wf_parts hwf).1 hstop⟩

/-- On success, sharded: the accepted pins are the shard pins in order, then the cluster-DAG pin (direct,
    replicated everywhere, referencing the root), then the meta pin of the root with the requested
    options, referencing the cluster DAG. -/
theorem pins_on_success_sharded (c : Cfg) (stream : List Blk) (fin : Option Nat) (hwf : wf c stream = true)
    (hs : c.shard = true) (hstop : CallerStops c stream fin) (hok : (run c stream fin).status = .ok) :
    ∃ cd cdp mp, (run c stream fin).cdag = some cd ∧
      acceptedPins (run c stream fin).pins = (run c stream fin).shards.map (·.pin) ++ [cdp, mp] ∧
      (∀ r ∈ (run c stream fin).shards, r.pin.type = .shardT) ∧
      cdp.cid = cd ∧ cdp.type = .clusterDagT ∧ cdp.depth = 0 ∧ cdp.ref = some (run c stream fin).root ∧
      cdp.opts.rmin = -1 ∧ cdp.opts.rmax = -1 ∧ cdp.allocs = [] ∧
      mp.cid = (run c stream fin).root ∧ mp.type = .metaT ∧ mp.ref = some cd ∧
      mp.opts = { c.opts with mode := .recursive } ∧
      -- mode and depth agree on both (what the stored protobuf form needs to read back unchanged)
      cdp.opts.mode = .direct ∧ depthToMode cdp.depth = cdp.opts.mode ∧ depthToMode mp.depth = mp.opts.mode := by
  obtain ⟨_, h⟩ := shOut c stream fin hwf hs hstop
  obtain ⟨cd, hcd, hpins⟩ := h.ok hok
  refine ⟨cd, _, _, hcd, hpins, fun r hr => (h.shards r hr).1.type, ?_, ?_, ?_, ?_, ?_, ?_, ?_, ?_, ?_, ?_, ?_, ?_, ?_, ?_⟩ <;>
    simp [sentPin_cid, sentPin_type, sentPin_depth, sentPin_ref, sentPin_opts, sentPin_allocs, cdagPin, metaPin, workOpts,
      modeToDepth, depthToMode]

/-- The shard links, in order, are exactly the stream without repetitions: each block in one shard. -/
theorem shards_partition (c : Cfg) (stream : List Blk) (fin : Option Nat) (hwf : wf c stream = true)
    (hs : c.shard = true) (hstop : CallerStops c stream fin) (hok : (run c stream fin).status = .ok) :
    ((run c stream fin).shards.flatMap (·.blocks)).map (·.id) = addFirsts [] stream ∧
    (addFirsts [] stream).Nodup ∧ ∀ x, x ∈ addFirsts [] stream ↔ ∃ b ∈ stream, b.id = x := by
  obtain ⟨_, h⟩ := shOut c stream fin hwf hs hstop
  refine ⟨h.part hok, nodup_addFirsts stream [] List.nodup_nil, fun x => ?_⟩
  rw [mem_addFirsts]; simp

/-- Every shard that was flushed and pinned - in successful and in failed adds - is under the limit. -/
theorem shard_under_limit (c : Cfg) (stream : List Blk) (fin : Option Nat) (hwf : wf c stream = true)
    (hs : c.shard = true) (hstop : CallerStops c stream fin) :
    ∀ r ∈ (run c stream fin).shards, (r.blocks.map (·.size)).sum < c.opts.shard ∧ r.pin.opts.shard = (r.blocks.map (·.size)).sum := by
  obtain ⟨_, h⟩ := shOut c stream fin hwf hs hstop
  intro r hr
  exact ⟨(h.shards r hr).1.size, (h.shards r hr).1.psize⟩

/-- A shard is pinned with depth 2 exactly when `makeDAG` had to build an indirect node, which is exactly
    when it has more than `MaxLinks` links; otherwise its single node links the blocks and depth 1 covers
    them. (With the guard as it stood before commit b655b93 the generated `guardUsesLinks` is true and
    this theorem no longer checks.) -/
theorem depth_covers_links (c : Cfg) (stream : List Blk) (fin : Option Nat) (hwf : wf c stream = true)
    (hs : c.shard = true) (hstop : CallerStops c stream fin) :
    ∀ r ∈ (run c stream fin).shards,
      (r.blocks.length > Gen.maxLinks → r.nnodes > 1 ∧ r.pin.depth = 2) ∧
      (r.blocks.length ≤ Gen.maxLinks → r.nnodes = 1 ∧ r.pin.depth = 1) := by
  obtain ⟨_, h⟩ := shOut c stream fin hwf hs hstop
  intro r hr
  have hd := (h.shards r hr).1.depth
  have hi := (h.shards r hr).1.indirect
  have hn := (h.shards r hr).1.nnpos
  constructor
  · intro hl
    have := hi.mpr hl
    exact ⟨this, by simp [hd, this]⟩
  · intro hl
    have : ¬ r.nnodes > 1 := fun hgt => by have := hi.mp hgt; omega
    exact ⟨by omega, by simp [hd, this]⟩

/-- Shard pins carry the peers `BlockAllocate` returned for that shard - the peers its blocks were handed
    to - or none when replicating everywhere. -/
theorem shard_allocations (c : Cfg) (stream : List Blk) (fin : Option Nat) (hwf : wf c stream = true)
    (hs : c.shard = true) (hstop : CallerStops c stream fin) :
    ∀ r ∈ (run c stream fin).shards, r.pin.allocs = (if c.opts.rmin < 0 then [] else r.allocs) ∧ r.allocs.Nodup := by
  obtain ⟨_, h⟩ := shOut c stream fin hwf hs hstop
  intro r hr
  exact ⟨(h.shards r hr).1.allocs, (nodupNat_iff _).mp (h.shards r hr).1.nodup⟩

/-- The accepted pins that the Spec's decoder (`Obs.view`, `pinsOkOf`) reads off the model's event log are
    the accepted pins the theorems above speak about: for the pin clauses the decoder and the model's
    structural view agree by proof (for the shard contents and destinations they are compared per case). -/
theorem decoded_pins (c : Cfg) (stream : List Blk) (fin : Option Nat) :
    pinsOkOf (run c stream fin).log = acceptedPins (run c stream fin).pins := run_log_pins c stream fin

end CV.C13
