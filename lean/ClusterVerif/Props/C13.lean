import ClusterVerif.Lemmas.C13Log
import ClusterVerif.Lemmas.C13Deliv
import ClusterVerif.Lemmas.C13Import
import ClusterVerif.Model.C13Flow
import ClusterVerif.Lemmas.C13Par
import ClusterVerif.Lemmas.C13Flush
/-!
C13 — property theorems about the bookkeeping model (Model/C13.lean) of the adders' DAG
services. They hold for every block stream, every allocation script, every script of
BlockPut / BlockAllocate / Pin failures.

The content half of the property (second part of this file, namespace `CV.C13.Imp`) is proved over the model
of the importer front-end (Model/C13Import.lean): size chunker, balanced and trickle layouts, directories,
the stream handed to the DAG service; for every file length, chunk size, layout, raw-leaves, wrap and hidden
setting and every directory tree. Hashing, the protobuf / unixfs byte encodings, CAR input and the rabin /
buzhash boundaries are not modelled: for those the harness' Go oracles remain.

`CallerStops`: the importer does not go on after a failed `Add` (`adder.go` returns at the first
error of `dagFmtr.Add`, so `Finalize` is reached only when no `Add` failed). The dependency
go-unixfs breaks this in one place (balanced.Layout drops the error of the first child's
`AddChild`), and then the bookkeeping clauses do fail: `bookkeeping_full_fails`.
-/
namespace CV.C13
open CV

/-- the generated constants are the ones the model was written for -/
theorem gen_shape : Gen.fitRecognised = true ∧ Gen.guardRecognised = true ∧ Gen.directTestIsLeMaxLinks = true ∧
    Gen.emptyTestIsSizeZero = true ∧ Gen.fitStrict = true ∧ Gen.guardUsesLinks = false ∧ Gen.guardConst = 1 ∧
    Gen.depthDirect = 1 ∧ Gen.depthIndirect = 2 := by decide

/-- the Bool checker is exactly the conjunction of its named clauses -/
theorem holds_iff (c : Cfg) (v : View) : holds c v = true ↔ ∀ x ∈ clauses c v, x.2 = true := by
  simp [holds, List.all_eq_true]

/-- `Finalize` is reached only when no `Add` returned an error -/
def CallerStops (c : Cfg) (stream : List Blk) (fin : Option Nat) : Prop :=
  (run c stream fin).finalized = true → (run c stream fin).failed = []

theorem wf_parts {c : Cfg} {stream : List Blk} (h : wf c stream = true) :
    c.allocs.all nodupNat = true ∧ consistent stream = true := by
  simp only [wf, Bool.and_eq_true] at h
  exact ⟨h.1.1, h.2⟩

/-- The full statement: the model's view of its own run meets every pin / shard clause of the Spec. -/
def bookkeeping_full : Prop :=
  ∀ (c : Cfg) (stream : List Blk) (fin : Option Nat) (cl rb rp ri : Bool), wf c stream = true →
    (bookkeeping c ((run c stream fin).view stream cl rb rp ri)).all (·.2) = true

theorem ok_finalized (c : Cfg) (stream : List Blk) (fin : Option Nat) (hok : (run c stream fin).status = .ok) :
    (run c stream fin).finalized = true := by
  unfold run at hok ⊢
  split_ifs at hok ⊢
  · unfold runShard at hok ⊢
    rcases h : shAddAll c ShSt.init stream 0 [] with ⟨s, pan, failed⟩
    rw [h] at hok
    cases pan <;> cases fin <;> simp_all
  · unfold runSingle at hok ⊢
    rcases h : singleAddAll c SSt.init stream 0 [] with ⟨s, failed⟩
    rw [h] at hok
    cases fin <;> simp_all

/-- On success the destination daemons hold every block the adder was given: each block of the stream was
    accepted by at least one destination (for callers that stop at the first failed `Add`). -/
theorem blocks_delivered (c : Cfg) (stream : List Blk) (fin : Option Nat) (hstop : CallerStops c stream fin)
    (hok : (run c stream fin).status = .ok) : allDelivered (run c stream fin).log stream = true := by
  have hfin := ok_finalized c stream fin hok
  have hnf := hstop hfin
  unfold run at hfin hnf ⊢
  split_ifs at hfin hnf ⊢
  · exact runShard_delivered c stream fin hfin hnf
  · exact runSingle_delivered c stream fin hnf

/-- ... proved for callers that stop at the first failed `Add` -/
theorem bookkeeping_partial (c : Cfg) (stream : List Blk) (fin : Option Nat) (cl rb rp ri : Bool)
    (hwf : wf c stream = true) (hstop : CallerStops c stream fin) :
    (bookkeeping c ((run c stream fin).view stream cl rb rp ri)).all (·.2) = true := by
  obtain ⟨hnd, hcons⟩ := wf_parts hwf
  have hdel : (deliveryClauses ((run c stream fin).view stream cl rb rp ri)).all (·.2) = true := by
    by_cases hok : (run c stream fin).status = .ok
    · simp [deliveryClauses, Out.view, hok, blocks_delivered c stream fin hstop hok]
    · have : ((run c stream fin).status == Status.ok) = false := by simpa using hok
      simp [deliveryClauses, Out.view, this]
  have hpins : (pinClauses c ((run c stream fin).view stream cl rb rp ri)).all (·.2) = true := by
    unfold CallerStops run at hstop
    unfold run
    cases hs : c.shard with
    | true =>
      simp only [hs, if_true] at hstop ⊢
      exact sharded_book c stream _ cl rb rp ri hs hcons (runShard_ok c stream fin hnd hstop)
    | false =>
      simp only [hs] at hstop ⊢
      exact single_book c stream fin cl rb rp ri hs hnd
  simp only [bookkeeping, List.all_append, hdel, hpins, Bool.and_self]

def witnessCfg : Cfg :=
  { shard := true, «local» := false,
    opts := { rmin := 1, rmax := 1, name := 0, mode := .recursive, shard := 10, expire := .zero, metadata := [],
              update := none, origins := [], ualloc := [] },
    allocs := [[1]], afail := [], pfail := [], faults := [] }

def witnessStream : List Blk := [⟨1, 20⟩, ⟨2, 5⟩]

/-- ... and false without that hypothesis: block 1 does not fit an empty shard (its Add fails), the
    caller goes on, block 2 is added, Finalize pins the root; block 1 is in no shard. -/
theorem bookkeeping_full_fails : ¬ bookkeeping_full := by
  intro h
  have := h witnessCfg witnessStream (some 2) true true true true (by decide)
  revert this
  decide

example : wf witnessCfg witnessStream = true ∧ (run witnessCfg witnessStream (some 2)).failed = [0] ∧
    (run witnessCfg witnessStream (some 2)).status = .ok := by decide

def exCfg : Cfg := { witnessCfg with opts := { witnessCfg.opts with shard := 12 }, allocs := [[1, 2], [3]],
                                      faults := [⟨2, 1, 1, .rpc⟩] }
def exStream : List Blk := [⟨1, 5⟩, ⟨2, 5⟩, ⟨1, 5⟩, ⟨3, 5⟩]

/-- a concrete add meeting the hypotheses of the theorems below: two shards, a destination dropped
    after an RPC error, a repeated block, success -/
example : wf exCfg exStream = true ∧ (run exCfg exStream (some 3)).status = .ok ∧
    (run exCfg exStream (some 3)).failed = [] ∧ (run exCfg exStream (some 3)).finalized = true ∧
    ((run exCfg exStream (some 3)).shards.map (fun r => r.blocks.map (·.id))) = [[1, 2], [3]] ∧
    (bookkeeping exCfg ((run exCfg exStream (some 3)).view exStream true true true true)).all (·.2) = true := by decide

/-- On failure the root is not pinned: an add that does not report success has had no data pin and no
    meta pin accepted — whatever fails (any BlockPut at any destination, any allocation, any pin
    call), and even if the caller goes on after a failed `Add`. -/
theorem no_pin_on_failure (c : Cfg) (stream : List Blk) (fin : Option Nat) (hwf : wf c stream = true)
    (hfail : (run c stream fin).status ≠ .ok) :
    ∀ p ∈ acceptedPins (run c stream fin).pins, p.type ≠ .dataT ∧ p.type ≠ .metaT := by
  cases hs : c.shard with
  | true =>
    have hrun : run c stream fin = runShard c stream fin := by simp [run, hs]
    rw [hrun] at hfail ⊢
    intro p hp
    rcases runShard_no_root_pin c stream fin hfail p hp with h | h <;> simp [h]
  | false =>
    have hrun : run c stream fin = runSingle c stream fin := by simp [run, hs]
    rw [hrun] at hfail ⊢
    rw [runSingle_no_root_pin c stream fin (wf_parts hwf).1 hfail]
    simp

/-- On success, not sharded: exactly one pin is accepted: of the returned root, of type data, recursive,
    with the requested options, and with the peers `BlockAllocate` returned - which are the peers the
    blocks were handed to - or with no peers at all when the request replicates everywhere. -/
theorem pins_on_success_single (c : Cfg) (stream : List Blk) (fin : Option Nat) (hwf : wf c stream = true)
    (hs : c.shard = false) (hok : (run c stream fin).status = .ok) :
    ∃ p d, acceptedPins (run c stream fin).pins = [p] ∧ p.cid = (run c stream fin).root ∧ p.type = .dataT ∧
      p.opts = { c.opts with mode := .recursive } ∧ p.depth = -1 ∧ p.ref = none ∧
      p.allocs = (if c.opts.rmin < 0 then [] else d) ∧ d.Nodup ∧
      (c.local = false → (run c stream fin).sentAll = sortDedup d) := by
  have hrun : run c stream fin = runSingle c stream fin := by simp [run, hs]
  rw [hrun] at hok ⊢
  obtain ⟨r, d, _, hnd, hroot, hpins, hsent⟩ := runSingle_success c stream fin (wf_parts hwf).1 hok
  refine ⟨sentPin (rootPin c r d), d, hpins, ?_, ?_, ?_, ?_, ?_, ?_, (nodupNat_iff d).mp hnd, hsent⟩
  · rw [hroot]; simp [sentPin_cid, rootPin, pinWithOpts]
  · simp [sentPin_type, rootPin, pinWithOpts]
  · simp [sentPin_opts, rootPin, pinWithOpts, workOpts]
  · simp [sentPin_depth, rootPin, pinWithOpts, workOpts, modeToDepth]
  · simp [sentPin_ref, rootPin, pinWithOpts]
  · simp [sentPin_allocs, rootPin, pinWithOpts, workOpts]

theorem shOut (c : Cfg) (stream : List Blk) (fin : Option Nat) (hwf : wf c stream = true) (hs : c.shard = true)
    (hstop : CallerStops c stream fin) : run c stream fin = runShard c stream fin ∧ ShOutOk c stream (run c stream fin) := by
  have hrun : run c stream fin = runShard c stream fin := by simp [run, hs]
  unfold CallerStops at hstop
  rw [hrun] at hstop ⊢
  exact ⟨rfl, runShard_ok c stream fin (wf_parts hwf).1 hstop⟩

/-- On success, sharded: the accepted pins are the shard pins in order, then the cluster-DAG pin (direct,
    replicated everywhere, referencing the root), then the meta pin of the root with the requested
    options, referencing the cluster DAG. -/
theorem pins_on_success_sharded (c : Cfg) (stream : List Blk) (fin : Option Nat) (hwf : wf c stream = true)
    (hs : c.shard = true) (hstop : CallerStops c stream fin) (hok : (run c stream fin).status = .ok) :
    ∃ cd cdp mp, (run c stream fin).cdag = some cd ∧
      acceptedPins (run c stream fin).pins = (run c stream fin).shards.map (·.pin) ++ [cdp, mp] ∧
      (∀ r ∈ (run c stream fin).shards, r.pin.type = .shardT) ∧
      cdp.cid = cd ∧ cdp.type = .clusterDagT ∧ cdp.depth = 0 ∧ cdp.ref = some (run c stream fin).root ∧
      cdp.opts.rmin = -1 ∧ cdp.opts.rmax = -1 ∧ cdp.allocs = [] ∧
      mp.cid = (run c stream fin).root ∧ mp.type = .metaT ∧ mp.ref = some cd ∧
      mp.opts = { c.opts with mode := .recursive } ∧
      -- mode and depth agree on both (what the stored protobuf form needs to read back unchanged)
      cdp.opts.mode = .direct ∧ depthToMode cdp.depth = cdp.opts.mode ∧ depthToMode mp.depth = mp.opts.mode := by
  obtain ⟨_, h⟩ := shOut c stream fin hwf hs hstop
  obtain ⟨cd, hcd, hpins⟩ := h.ok hok
  refine ⟨cd, _, _, hcd, hpins, fun r hr => (h.shards r hr).1.type, ?_, ?_, ?_, ?_, ?_, ?_, ?_, ?_, ?_, ?_, ?_, ?_, ?_, ?_⟩ <;>
    simp [sentPin_cid, sentPin_type, sentPin_depth, sentPin_ref, sentPin_opts, sentPin_allocs, cdagPin, metaPin, workOpts,
      modeToDepth, depthToMode]

/-- The shard links, in order, are exactly the stream without repetitions: each block in one shard. -/
theorem shards_partition (c : Cfg) (stream : List Blk) (fin : Option Nat) (hwf : wf c stream = true)
    (hs : c.shard = true) (hstop : CallerStops c stream fin) (hok : (run c stream fin).status = .ok) :
    ((run c stream fin).shards.flatMap (·.blocks)).map (·.id) = addFirsts [] stream ∧
    (addFirsts [] stream).Nodup ∧ ∀ x, x ∈ addFirsts [] stream ↔ ∃ b ∈ stream, b.id = x := by
  obtain ⟨_, h⟩ := shOut c stream fin hwf hs hstop
  refine ⟨h.part hok, nodup_addFirsts stream [] List.nodup_nil, fun x => ?_⟩
  rw [mem_addFirsts]; simp

/-- Every shard that was flushed and pinned - in successful and in failed adds - is under the limit. -/
theorem shard_under_limit (c : Cfg) (stream : List Blk) (fin : Option Nat) (hwf : wf c stream = true)
    (hs : c.shard = true) (hstop : CallerStops c stream fin) :
    ∀ r ∈ (run c stream fin).shards, (r.blocks.map (·.size)).sum < c.opts.shard ∧ r.pin.opts.shard = (r.blocks.map (·.size)).sum := by
  obtain ⟨_, h⟩ := shOut c stream fin hwf hs hstop
  intro r hr
  exact ⟨(h.shards r hr).1.size, (h.shards r hr).1.psize⟩

/-- A shard is pinned with depth 2 exactly when `makeDAG` had to build an indirect node, which is exactly
    when it has more than `MaxLinks` links; otherwise its single node links the blocks and depth 1 covers
    them. (With the guard as it stood before commit b655b93 the generated `guardUsesLinks` is true and
    this theorem no longer checks.) -/
theorem depth_covers_links (c : Cfg) (stream : List Blk) (fin : Option Nat) (hwf : wf c stream = true)
    (hs : c.shard = true) (hstop : CallerStops c stream fin) :
    ∀ r ∈ (run c stream fin).shards,
      (r.blocks.length > Gen.maxLinks → r.nnodes > 1 ∧ r.pin.depth = 2) ∧
      (r.blocks.length ≤ Gen.maxLinks → r.nnodes = 1 ∧ r.pin.depth = 1) := by
  obtain ⟨_, h⟩ := shOut c stream fin hwf hs hstop
  intro r hr
  have hd := (h.shards r hr).1.depth
  have hi := (h.shards r hr).1.indirect
  have hn := (h.shards r hr).1.nnpos
  constructor
  · intro hl
    have := hi.mpr hl
    exact ⟨this, by simp [hd, this]⟩
  · intro hl
    have : ¬ r.nnodes > 1 := fun hgt => by have := hi.mp hgt; omega
    exact ⟨by omega, by simp [hd, this]⟩

/-- Shard pins carry the peers `BlockAllocate` returned for that shard - the peers its blocks were handed
    to - or none when replicating everywhere. -/
theorem shard_allocations (c : Cfg) (stream : List Blk) (fin : Option Nat) (hwf : wf c stream = true)
    (hs : c.shard = true) (hstop : CallerStops c stream fin) :
    ∀ r ∈ (run c stream fin).shards, r.pin.allocs = (if c.opts.rmin < 0 then [] else r.allocs) ∧ r.allocs.Nodup := by
  obtain ⟨_, h⟩ := shOut c stream fin hwf hs hstop
  intro r hr
  exact ⟨(h.shards r hr).1.allocs, (nodupNat_iff _).mp (h.shards r hr).1.nodup⟩

/-- The accepted pins that the Spec's decoder (`Obs.view`, `pinsOkOf`) reads off the model's event log are
    the accepted pins the theorems above speak about: for the pin clauses the decoder and the model's
    structural view agree by proof (for the shard contents and destinations they are compared per case). -/
theorem decoded_pins (c : Cfg) (stream : List Blk) (fin : Option Nat) :
    pinsOkOf (run c stream fin).log = acceptedPins (run c stream fin).pins := run_log_pins c stream fin

/-! ## the content half: what the importer builds and hands to the DAG service -/
namespace Imp

variable {β : Type}

/-- `size-n` chunks concatenate to the input (any input, any n > 0; `size-0` is refused by the parser) -/
theorem chunk_concat (n : Nat) (hn : 0 < n) (xs : List β) : (chunk n xs).flatten = xs :=
  chunkAux_concat n hn xs.length xs (Nat.le_refl _)

/-- no chunk is empty or longer than n, all but the last have exactly n items, the empty input has no chunk,
    and the lengths are the ones the driver computes from the file size alone -/
theorem chunk_sizes (n : Nat) (hn : 0 < n) (xs : List β) :
    (∀ c ∈ chunk n xs, 0 < c.length ∧ c.length ≤ n) ∧ (∀ c ∈ (chunk n xs).dropLast, c.length = n) ∧
    chunk n ([] : List β) = [] ∧ (chunk n xs).map List.length = chunkLens n xs.length :=
  ⟨(chunkAux_sizes n hn xs.length xs (Nat.le_refl _)).1, (chunkAux_sizes n hn xs.length xs (Nat.le_refl _)).2, rfl,
   chunkAux_lens n xs.length xs⟩

example : chunk 3 [1, 2, 3, 4, 5, 6, 7] = [[1, 2, 3], [4, 5, 6], [7]] ∧ chunk 3 [1, 2, 3, 4, 5, 6] = [[1, 2, 3], [4, 5, 6]] ∧
    chunkLens 64 130 = [64, 64, 2] ∧ chunkLens 64 128 = [64, 64] := by decide

/-- Balanced layout: reading the leaves left to right gives back the file, byte for byte - for every file
    length, chunk size and width ≥ 2 (the code's width is 174). The empty file is one empty leaf. -/
theorem readback_balanced (n W : Nat) (hn : 0 < n) (hW : 2 ≤ W) (raw : Bool) (bytes : List β) :
    (balanced bytesCodec raw W (chunk n bytes)).node.leaves.flatten = bytes := by
  rw [(balanced_ok bytesCodec rfl raw W hW _).2]
  split_ifs with h
  · have := chunk_concat n hn bytes
    rw [h] at this
    simpa [bytesCodec] using this
  · exact chunk_concat n hn bytes

/-- Trickle layout: the same. The empty file is an inner node without links. -/
theorem readback_trickle (n W : Nat) (hn : 0 < n) (hW : 0 < W) (raw : Bool) (bytes : List β) :
    (trickle bytesCodec raw W (chunk n bytes)).node.leaves.flatten = bytes := by
  rw [(trickle_ok bytesCodec raw W hW _).2]
  exact chunk_concat n hn bytes

/-- The leaves are the chunks themselves, in order (so a single-chunk file is its leaf under the balanced
    layout, and there are as many leaves as chunks). -/
theorem leaves_are_chunks (W : Nat) (hW : 2 ≤ W) (raw : Bool) (chunks : List (List β)) (hne : chunks ≠ []) :
    (balanced bytesCodec raw W chunks).node.leaves = chunks ∧ (trickle bytesCodec raw W chunks).node.leaves = chunks ∧
    (∀ c : List β, (balanced bytesCodec raw W [c]).node = .leaf (leafKind raw .file) c) := by
  refine ⟨?_, (trickle_ok bytesCodec raw W (by omega) _).2, fun c => ?_⟩
  · rw [(balanced_ok bytesCodec rfl raw W hW _).2]; simp [hne]
  · simp [balanced, grow]

/-- Every inner node records for each link the number of file bytes under it, the size returned for the
    root is the file length (both layouts). -/
theorem sizes_recorded (n W : Nat) (hn : 0 < n) (hW : 2 ≤ W) (raw : Bool) (bytes : List β) :
    ((balanced bytesCodec raw W (chunk n bytes)).node.sized List.length = true ∧
     (balanced bytesCodec raw W (chunk n bytes)).size = bytes.length) ∧
    ((trickle bytesCodec raw W (chunk n bytes)).node.sized List.length = true ∧
     (trickle bytesCodec raw W (chunk n bytes)).size = bytes.length) := by
  have hb := balanced_ok bytesCodec rfl raw W hW (chunk n bytes)
  have ht := trickle_ok bytesCodec raw W (by omega) (chunk n bytes)
  refine ⟨⟨hb.1.sized, ?_⟩, ⟨ht.1.sized, ?_⟩⟩
  · rw [hb.1.size, fsize_eq_leaves]
    show ((balanced bytesCodec raw W (chunk n bytes)).node.leaves.map List.length).sum = _
    rw [sum_map_length_eq, readback_balanced n W hn hW]
  · rw [ht.1.size, fsize_eq_leaves]
    show ((trickle bytesCodec raw W (chunk n bytes)).node.leaves.map List.length).sum = _
    rw [sum_map_length_eq, readback_trickle n W hn (by omega)]

/-- No node of a balanced DAG has more than W links; a trickle node has at most W + 4 per level. -/
theorem fanout_bounded (W : Nat) (hW : 2 ≤ W) (raw : Bool) (chunks : List (List β)) :
    (balanced bytesCodec raw W chunks).node.fan W = true ∧
    (trickle bytesCodec raw W chunks).node.fan (W + 4 * chunks.length) = true :=
  ⟨(balanced_ok bytesCodec rfl raw W hW chunks).1.fan, (trickle_ok bytesCodec raw W (by omega) chunks).1.fan⟩

/-- The builders hand the blocks to `DAGService.Add` in post-order: children left to right, each once it is
    complete, the root last. -/
theorem emission_postorder (W : Nat) (hW : 2 ≤ W) (raw : Bool) (chunks : List (List β)) :
    (balanced bytesCodec raw W chunks).emitted = (balanced bytesCodec raw W chunks).node.post ∧
    (trickle bytesCodec raw W chunks).emitted = (trickle bytesCodec raw W chunks).node.post :=
  ⟨(balanced_ok bytesCodec rfl raw W hW chunks).1.post, (trickle_ok bytesCodec raw W (by omega) chunks).1.post⟩

/-- The balanced DAG is as shallow as the width allows: for n ≥ 1 chunks its height h is the least with
    n ≤ W^h (one chunk: the leaf is the root, h = 0; up to W chunks: h = 1; …). -/
theorem balanced_depth_minimal (W : Nat) (hW : 2 ≤ W) (raw : Bool) (c : List β) (cs : List (List β)) :
    (c :: cs).length ≤ W ^ (balanced bytesCodec raw W (c :: cs)).node.height ∧
    (0 < (balanced bytesCodec raw W (c :: cs)).node.height →
      W ^ ((balanced bytesCodec raw W (c :: cs)).node.height - 1) < (c :: cs).length) := by
  have hb : balanced bytesCodec raw W (c :: cs) = grow bytesCodec (leafKind raw .file) W cs.length 0
      { node := .leaf (leafKind raw .file) c, size := bytesCodec.len c, below := [] } cs := rfl
  have h := grow_depth bytesCodec (leafKind raw .file) W hW cs.length 0
    { node := .leaf (leafKind raw .file) c, size := bytesCodec.len c, below := [] } cs (Nat.le_refl _)
    (by simp [FNode.height]) (by simp [FNode.nleaves]) (by intro _; simp [FNode.nleaves])
  simp only [FNode.nleaves] at h
  obtain ⟨_, h2, h3⟩ := h
  rw [hb]
  simp only [List.length_cons]
  refine ⟨by omega, fun hp => ?_⟩
  have := h3 hp
  omega

example : (balanced bytesCodec false 2 (chunk 2 [1, 2, 3, 4, 5, 6, 7, 8, 9])).node.height = 3 ∧
    (balanced bytesCodec false 2 (chunk 2 [1, 2, 3, 4, 5, 6, 7, 8, 9])).node.leaves = [[1, 2], [3, 4], [5, 6], [7, 8], [9]] ∧
    (balanced bytesCodec false 2 (chunk 2 [1, 2, 3, 4, 5, 6, 7, 8, 9])).emitted.length = 11 ∧
    (trickle bytesCodec true 2 (chunk 1 [1, 2, 3, 4, 5, 6, 7, 8, 9])).node.leaves.length = 9 := by decide

/-- Closure: the stream handed to the DAG service contains the root and, with a block, every block it links
    to; and nothing else than the blocks reachable from the root - except, for a lone file or symlink added
    without wrapping, the MFS directory that holds it under its CID (`scaffold`), and the empty directory node
    that `mfs.Mkdir` adds for every directory below the top level. -/
theorem closure (nameOf : UNode (List β) → String) (p : Params) (hW : 2 ≤ p.width) (top : List (String × Entry β))
    (r : UNode (List β)) (hr : importRoot p top = some r) :
    r ∈ emitStream nameOf p top ∧
    (∀ b ∈ emitStream nameOf p top, ∀ c ∈ b.links, c ∈ emitStream nameOf p top) ∧
    (∀ b, Reach r b → b ∈ emitStream nameOf p top) ∧
    (∀ b ∈ emitStream nameOf p top, Reach r b ∨ b ∈ scaffold nameOf r ∨ b = .dir []) := by
  have hm := emitStream_mem nameOf p hW top r hr
  refine ⟨(hm r).2 (Or.inl (UNode.mem_blocks_self r)), ?_, fun b hb => (hm b).2 (Or.inl (reach_blocks r b hb)), ?_⟩
  · intro b hb c hc
    rcases (hm b).1 hb with h | h | h
    · exact (hm c).2 (Or.inl (blocks_closed r b c h hc))
    · unfold scaffold at h
      split_ifs at h
      · simp at h
      · simp only [List.mem_singleton] at h
        subst h
        simp only [UNode.links, List.map_cons, List.map_nil, List.mem_singleton] at hc
        rw [hc]
        exact (hm _).2 (Or.inl (UNode.mem_blocks_self r))
    · subst h
      simp [UNode.links] at hc
  · intro b hb
    rcases (hm b).1 hb with h | h | h
    · exact Or.inl (blocks_reach r b h)
    · exact Or.inr (Or.inl h)
    · exact Or.inr (Or.inr h)

/-- The same block is offered to `Add` several times (file roots re-added by MFS, the root by `PinRoot`,
    equal chunks, equal files). Whatever the CID function, the seen-set of the sharding DAG service keeps each
    CID once, and exactly the CIDs of the stream: shard links partition the *distinct* blocks. -/
theorem stream_dedup {γ : Type} [DecidableEq γ] (cid : UNode (List β) → γ) (stream : List (UNode (List β))) :
    (firsts [] (stream.map cid)).Nodup ∧ ∀ x, x ∈ firsts [] (stream.map cid) ↔ ∃ b ∈ stream, cid b = x := by
  refine ⟨firsts_nodup _ _, fun x => ?_⟩
  rw [mem_firsts]; simp

example : firsts [] [1, 2, 2, 3, 1, 3] = [1, 2, 3] := by decide

/-- Every entry of a directory of the request is linked from the directory's node under its name, with the
    DAG the importer builds for it; entries whose name starts with a dot are left out exactly when hidden
    files were not asked for; nothing else is linked; the links are in name order. -/
theorem every_file_reachable (p : Params) (es : List (String × Entry β)) :
    ∃ ls, importEntry p (visible p.hidden (.dir es)) = .dir ls ∧
      (∀ n u, (n, u) ∈ ls ↔ ∃ e, (n, e) ∈ es ∧ u = importEntry p (visible p.hidden e) ∧
        (p.hidden = true ∨ isHiddenName n = false)) ∧
      ls.Pairwise (fun a b => a.1 ≤ b.1) ∧ ls.length = (visibleL p.hidden es).length := by
  refine ⟨sortLinks (importEntries p (visibleL p.hidden es)), by simp [visible, importEntry], ?_, sortLinks_sorted _, ?_⟩
  · intro n u
    rw [mem_sortLinks, mem_importEntries]
    constructor
    · rintro ⟨e', he', rfl⟩
      obtain ⟨e, he, rfl, hv⟩ := (mem_visibleL p.hidden es n e').mp he'
      exact ⟨e, he, rfl, hv⟩
    · rintro ⟨e, he, rfl, hv⟩
      exact ⟨visible p.hidden e, (mem_visibleL p.hidden es n _).mpr ⟨e, he, rfl, hv⟩, rfl⟩
  · rw [length_sortLinks]
    induction (visibleL p.hidden es) with
    | nil => simp [importEntries]
    | cons x rest ih => obtain ⟨n, e⟩ := x; simp [importEntries, ih]

/-- When wrapping, the root links every top-level entry (those are never filtered) under its name. -/
theorem wrap_root_links (p : Params) (hw : p.wrap = true) (top : List (String × Entry β)) :
    ∃ ls, importRoot p top = some (.dir ls) ∧
      (∀ n u, (n, u) ∈ ls ↔ ∃ e, (n, e) ∈ top ∧ u = importEntry p (visible p.hidden e)) ∧
      ls.Pairwise (fun a b => a.1 ≤ b.1) := by
  refine ⟨sortLinks (importEntries p (visibleTop p.hidden top)), by simp [importRoot, hw], ?_, sortLinks_sorted _⟩
  intro n u
  rw [mem_sortLinks, mem_importEntries]
  constructor
  · rintro ⟨e', he', rfl⟩
    obtain ⟨e, he, rfl⟩ := (mem_visibleTop p.hidden top n e').mp he'
    exact ⟨e, he, rfl⟩
  · rintro ⟨e, he, rfl⟩
    exact ⟨visible p.hidden e, (mem_visibleTop p.hidden top n _).mpr ⟨e, he, rfl⟩, rfl⟩

/-- The returned root is a directory exactly when the add wraps or the single top-level entry is one. -/
theorem root_is_dir_iff_wrap_or_tree (p : Params) (top : List (String × Entry β)) (r : UNode (List β))
    (hr : importRoot p top = some r) :
    r.isDir = true ↔ (p.wrap = true ∨ ∃ n e, top = [(n, e)] ∧ e.isDir = true) := by
  unfold importRoot at hr
  cases hw : p.wrap with
  | true =>
    simp only [hw, if_true, Option.some.injEq] at hr
    subst hr; simp [UNode.isDir]
  | false =>
    simp only [hw, Bool.false_eq_true, if_false] at hr
    rcases top with _ | ⟨⟨n, e⟩, _ | ⟨x, rest⟩⟩
    · simp at hr
    · simp only [Option.some.injEq] at hr
      subst hr
      cases e <;> simp [visible, importEntry, UNode.isDir, Entry.isDir]
    · simp at hr

/-- The root is the same with and without sharding: whatever DAG service is behind the importer (any state
    type, any `Add` that may fail at any block), the blocks offered to it are a prefix of one stream that
    depends on the tree and the import parameters only; two adds that both get through have offered the same
    blocks and return the same root. -/
theorem root_independent_of_dagservice {σ₁ σ₂ : Type} (svc₁ : Svc σ₁ (UNode (List β))) (svc₂ : Svc σ₂ (UNode (List β)))
    (s₁ : σ₁) (s₂ : σ₂) (nameOf : UNode (List β) → String) (p : Params) (top : List (String × Entry β)) :
    (importWith svc₁ s₁ nameOf p top).offered <+: emitStream nameOf p top ∧
    (importWith svc₂ s₂ nameOf p top).offered <+: emitStream nameOf p top ∧
    ∀ r₁ r₂, (importWith svc₁ s₁ nameOf p top).root = some r₁ → (importWith svc₂ s₂ nameOf p top).root = some r₂ →
      r₁ = r₂ ∧ importRoot p top = some r₁ ∧
      (importWith svc₁ s₁ nameOf p top).offered = emitStream nameOf p top ∧
      (importWith svc₂ s₂ nameOf p top).offered = emitStream nameOf p top := by
  refine ⟨feed_prefix svc₁ _ s₁, feed_prefix svc₂ _ s₂, ?_⟩
  intro r₁ r₂ h1 h2
  simp only [importWith] at h1 h2 ⊢
  split_ifs at h1 h2 with c1 c2
  exact ⟨Option.some.inj (h1.symm.trans h2), h1, feed_all svc₁ _ s₁ c1, feed_all svc₂ _ s₂ c2⟩

def exTree : List (String × Entry Nat) :=
  [("t", .dir [("b", .file [1, 2, 3, 4, 5]), (".h", .file [9]), ("a", .symlink "b"), ("d", .dir [])])]

/-- a tree with a hidden entry, a symlink, an empty directory and a three-chunk file: the hypotheses are met -/
example : (importRoot ({ chunkSize := 2, width := 2 } : Params) exTree).isSome = true ∧
    (emitStream (fun _ => "x") ({ chunkSize := 2, width := 2 } : Params) exTree).length = 13 ∧
    (emitStream (fun _ => "x") ({ chunkSize := 2, width := 2, hidden := true } : Params) exTree).length = 15 := by decide

end Imp

end CV.C13

/-! ## Round 8 — the single DAG service interpreted from its source; the front of `FromFiles` -/
namespace CV.C13.Flow
open CV CV.C13

/-- the statements of single.New / Add / Finalize read from the source are the program the model was written for -/
theorem gen_single_flow : Gen.singleFlow = code := by decide

/-- shard.go: `AddLink` adds the block's size and numbers links by position; `Flush` = makeDAG, AddMany, pin with the
    shard's allocations / shard type / reference iff a previous shard / ShardSize = Size(); `Size` / `Limit` getters -/
theorem gen_shard_flow : Gen.shardAddLink = shardAddLinkCode ∧ Gen.shardFlush = shardFlushCode ∧
    Gen.shardSize = [.retCurrentSize] ∧ Gen.shardLimit = [.retSizeLimit] := by decide

/-- adder.go `FromFiles`: the statement order the model `fromFiles` was written for -/
theorem gen_fromfiles_flow : Gen.fromFiles = fromFilesCode := by decide

/-- the interpreted `Add` of that program is the model's `singleAdd` -/
theorem addF_code (c : Cfg) (s : SSt) (b : Blk) : addF code c s b = singleAdd c s b := by
  unfold addF singleAdd
  cases hd : s.dests with
  | some d => simp [code, tailRun]
  | none =>
    rcases ha : allocate c s.env with ⟨e, _ | d⟩
    · simp [code, List.foldl, guardedStep, ha, hd]
    · cases hl : c.local <;> simp [code, List.foldl, guardedStep, ha, hl, hd, evalBA, tailRun]

/-- the interpreted `Finalize` of that program is the model's `singleFinalize` -/
theorem finF_code (c : Cfg) (s : SSt) (root : Nat) : finF code c s root = singleFinalize c s root := by
  unfold finF singleFinalize
  simp only [code, List.foldl, finStep, newOpts, rootPin, workOpts]
  rcases hp : pinCall c s.env { pinWithOpts root { c.opts with mode := .recursive } with allocs := s.dests.getD [] } with ⟨e, _ | _⟩ <;> simp

theorem addAllG_single (c : Cfg) (s : SSt) (l : List Blk) (i : Nat) (failed : List Nat) :
    addAllG (singleAdd c) s l i failed = singleAddAll c s l i failed := by
  induction l generalizing s i failed with
  | nil => simp [addAllG, singleAddAll]
  | cons b bs ih =>
    unfold addAllG singleAddAll
    rcases h : singleAdd c s b with ⟨s1, st⟩
    cases st <;> simp [ih]

/-- **Refinement**: a not-sharded add executed by the program read from adder/single/dag_service.go is the model's
    `runSingle`, for every configuration, block stream, allocation / fault script — so every theorem about `run`
    with `shard = false` (`no_pin_on_failure`, `pins_on_success_single`, `bookkeeping_partial`, `blocks_delivered`)
    is a theorem about that program. -/
theorem single_flow_refines (c : Cfg) (stream : List Blk) (fin : Option Nat) :
    runSingleF Gen.singleFlow c stream fin = runSingle c stream fin := by
  rw [gen_single_flow]
  have hadd : addF code c = singleAdd c := by funext s b; exact addF_code c s b
  unfold runSingleF runSingle
  rw [hadd, addAllG_single]
  rcases h : singleAddAll c SSt.init stream 0 [] with ⟨s, failed⟩
  cases fin with
  | none => rfl
  | some r => simp only [finF_code]

/-- ... for instance: on failure the interpreted program has no data / meta pin accepted -/
theorem flow_no_pin_on_failure (c : Cfg) (stream : List Blk) (fin : Option Nat) (hwf : wf c stream = true)
    (hs : c.shard = false) (hfail : (runSingleF Gen.singleFlow c stream fin).status ≠ .ok) :
    ∀ p ∈ acceptedPins (runSingleF Gen.singleFlow c stream fin).pins, p.type ≠ .dataT ∧ p.type ≠ .metaT := by
  have hrun : run c stream fin = runSingle c stream fin := by simp [run, hs]
  rw [single_flow_refines] at hfail ⊢
  rw [← hrun] at hfail ⊢
  exact no_pin_on_failure c stream fin hwf hfail

def flowCfg : Cfg :=
  { shard := false, «local» := false,
    opts := { rmin := 1, rmax := 2, name := 0, mode := .direct, shard := 0, expire := .zero, metadata := [],
              update := none, origins := [], ualloc := [] },
    allocs := [[1, 2], [3]], afail := [], pfail := [], faults := [⟨1, 1, 1, .rpc⟩] }
def flowStream : List Blk := [⟨1, 5⟩, ⟨2, 7⟩, ⟨3, 5⟩]

/-- a concrete add (direct mode requested, two destinations, one dropped after an RPC error) that succeeds and meets
    every bookkeeping clause when run by the program read from the source -/
example : wf flowCfg flowStream = true ∧ (runSingleF Gen.singleFlow flowCfg flowStream (some 3)).status = .ok ∧
    (bookkeeping flowCfg ((runSingleF Gen.singleFlow flowCfg flowStream (some 3)).view flowStream true true true true)).all (·.2) = true := by
  decide

/-- what a reordered / shortened dag_service.go would do to the property: each of these programs succeeds on the
    add above and fails a clause of the Spec (so the statement order is load-bearing, not a matter of style):
    * `dgs.dests = nil` before `rootPin.Allocations = dgs.dests`, or the assignment dropped: the root is pinned
      without the allocations the blocks were sent to;
    * `New` not forcing recursive mode: the root is pinned in direct mode, its blocks are not covered;
    * `dgs.dests = dests` dropped: a fresh `BlockAllocate` (and BlockAdder) for every block — other calls than the
      model's (here the Spec cannot tell from the model's own view, whose destinations are read off `dgs.dests`;
      on the implementation the destinations come from the BlockPut log) -/
theorem reordered_programs_break_property :
    (∀ f ∈ [resetFirst, noAllocs, noForce],
      (runSingleF f flowCfg flowStream (some 3)).status = .ok ∧
      holds flowCfg ((runSingleF f flowCfg flowStream (some 3)).view flowStream true true true true) = false) ∧
    (runSingleF noStore flowCfg flowStream (some 3)).log ≠ (runSingle flowCfg flowStream (some 3)).log := by
  decide

/-- fail-closed: a program whose allocation guard is not the recognised `dgs.dests == nil` never adds a block -/
theorem unknown_guard_never_ok (f : SingleFlow) (h : f.guard = .other) (c : Cfg) (s : SSt) (b : Blk) :
    addF f c s b = (s, .panic) := by
  simp [addF, h]

/-! ### `FromFiles` -/

theorem fromFiles_refused (i : FIn) (h : i.format = .bad ∨ i.refused = true) : fromFiles i = ⟨[], none⟩ := by
  unfold fromFiles
  rcases h with h | h <;> simp [h]

/-- an entry whose `Add` fails: no `Finalize` (unixfs: every entry is walked) -/
theorem loop_error_no_finalize (i : FIn) (hf : i.format ≠ .car) (es : List (Option Nat)) (k root : Nat) (added : List Nat)
    (h : none ∈ es) : (loop i es k root added).finalize = none := by
  induction es generalizing k root added with
  | nil => simp at h
  | cons e es ih =>
    unfold loop
    by_cases hc : i.cancelBefore = some k
    · simp [hc]
    · cases e with
      | none => simp [hc]
      | some r =>
        have hin : none ∈ es := by simpa using h
        simp [hc, hf, ih _ _ _ hin]

/-- a broken entry iterator (truncated multipart body): no `Finalize` -/
theorem loop_itErr_no_finalize (i : FIn) (hf : i.format ≠ .car) (hit : i.itErr = true) (es : List (Option Nat)) (k root : Nat)
    (added : List Nat) : (loop i es k root added).finalize = none := by
  induction es generalizing k root added with
  | nil => simp [loop, hit]
  | cons e es ih =>
    unfold loop
    by_cases hc : i.cancelBefore = some k
    · simp [hc]
    · cases e with
      | none => simp [hc]
      | some r => simp [hc, hf, ih]

/-- cancellation before an entry that would be reached: no `Finalize` -/
theorem loop_cancel_no_finalize (i : FIn) (hf : i.format ≠ .car) (j : Nat) (hcn : i.cancelBefore = some j) (es : List (Option Nat))
    (k root : Nat) (added : List Nat) (hk : k ≤ j) (hj : j < k + es.length) : (loop i es k root added).finalize = none := by
  induction es generalizing k root added with
  | nil => simp at hj; omega
  | cons e es ih =>
    unfold loop
    by_cases hc : j = k
    · simp [hcn, hc]
    · have hne : ¬ (i.cancelBefore = some k) := by rw [hcn]; simpa using hc
      cases e with
      | none => simp [hcn, hc]
      | some r =>
        have := ih (k + 1) r (added ++ [k]) (by omega) (by simp at hj; omega)
        simp [hcn, hc, hf, this]

/-- the good case: every entry added, in order, `Finalize` with the root of the last one -/
theorem loop_all_ok (i : FIn) (hf : i.format = .unixfs) (hit : i.itErr = false) (hcn : i.cancelBefore = none) (rs : List Nat)
    (k root : Nat) (added : List Nat) :
    loop i (rs.map some) k root added = ⟨added ++ List.range' k rs.length, some (rs.getLast?.getD root)⟩ := by
  induction rs generalizing k root added with
  | nil => simp [loop, hit]
  | cons r rs ih =>
    unfold loop
    simp only [List.map_cons, hcn, hf]
    rw [ih]
    cases rs with
    | nil => simp [List.range'_succ]
    | cons x xs =>
      have hne : (x :: xs).getLast? = some ((x :: xs).getLast (by simp)) := List.getLast?_eq_some_getLast (by simp)
      simp [List.range'_succ, hne]

/-- **No pin unless `FromFiles` reaches `Finalize`**: whenever the front refuses the parameters, an entry fails, the
    context is cancelled or the input breaks — `(fromFiles i).finalize = none` — the add has no data / meta pin
    accepted, whatever blocks were handed to the DAG service before (composition with `no_pin_on_failure`). -/
theorem front_failure_no_pin (i : FIn) (c : Cfg) (stream : List Blk) (hwf : wf c stream = true)
    (h : (fromFiles i).finalize = none) :
    ∀ p ∈ acceptedPins (run c stream (fromFiles i).finalize).pins, p.type ≠ .dataT ∧ p.type ≠ .metaT := by
  rw [h]
  apply no_pin_on_failure c stream none hwf
  intro hok
  have hfin := ok_finalized c stream none hok
  revert hfin
  unfold run
  split_ifs
  · unfold runShard
    rcases hh : shAddAll c ShSt.init stream 0 [] with ⟨s, pan, failed⟩
    cases pan <;> simp
  · unfold runSingle
    rcases hh : singleAddAll c SSt.init stream 0 [] with ⟨s, failed⟩
    simp

example : fromFiles ⟨.unixfs, false, false, [some 7, none, some 9], none, none, false⟩ = ⟨[0, 1], none⟩ ∧
    fromFiles ⟨.unixfs, false, false, [some 7, some 9], none, none, false⟩ = ⟨[0, 1], some 9⟩ ∧
    fromFiles ⟨.unixfs, false, false, [some 7, some 9], none, some 1, false⟩ = ⟨[0], none⟩ ∧
    fromFiles ⟨.unixfs, false, false, [some 7, some 9], none, none, true⟩ = ⟨[0, 1], none⟩ ∧
    fromFiles ⟨.car, false, false, [some 7, some 9], none, none, false⟩ = ⟨[0], some 7⟩ ∧
    fromFiles ⟨.car, true, false, [some 7], some 8, none, false⟩ = ⟨[0], none⟩ ∧
    fromFiles ⟨.unixfs, true, false, [some 7, some 9], some 8, none, false⟩ = ⟨[0], some 8⟩ ∧
    fromFiles ⟨.unixfs, false, true, [some 7], none, none, false⟩ = ⟨[], none⟩ := by decide

end CV.C13.Flow

/-! ## Round 8b — parameter plumbing: the request's import parameters reach the importer unchanged

`Gen.newIpfsAdder` / `Gen.ipfsAdd` are read from adder/adder.go and adder/ipfsadd/add.go by `harness/extract_c13par`
(statements with their right-hand sides as expression trees) and INTERPRETED by `Par.settingsOf` / `Par.importerOf`
(Model/C13Par.lean). The theorems are proved by running the interpreter symbolically on the generated programs themselves, not
through a textual equality: a rewrite that keeps the meaning still checks, an edit that changes a value for some request does not. "Equals what the standard importer computes for the same parameters" needs every explicit
request value to be the importer's value: `Par.expected`, written from the property text. -/
namespace CV.C13.Par

/-- the importer constants of the linked libraries are the ones the importer model (Model/C13Import.lean) is written
    with (width 174, trickle repeat 4, default chunk 262144) and meet the hypotheses of its theorems (`W ≥ 2`, `n > 0`) -/
theorem gen_importer_constants :
    Gen.linksPerBlock = ({} : Imp.Params).width ∧ Gen.defaultChunk = ({} : Imp.Params).chunkSize ∧
    Gen.depthRepeat = 4 ∧ Gen.depthRepeatFound = true ∧ Gen.sha256 = sha256Code ∧
    2 ≤ Gen.linksPerBlock ∧ 0 < Gen.defaultChunk ∧ Gen.defaultChunk ≤ Gen.chunkSizeLimit := by decide

/-- **Explicit request values reach the importer unchanged**: for EVERY request (layout, chunker string, raw-leaves,
    no-copy, progress, CID version, hash name) and every table of hash names, the program read from `newIpfsAdder`
    configures the importer exactly as the request says — or refuses it for an unknown CID version / hash name or
    CIDv0 with another hash than sha2-256. -/
theorem params_reach_importer (names : List (String × Nat)) (r : Req) :
    settingsOf names Gen.newIpfsAdder r = expected names r := by
  exact gen_settings names r

/-- field by field: when an importer is built, raw-leaves, no-copy, chunker string and progress are the request's,
    trickle iff the layout is "trickle", the CID builder is the requested version (0 or 1) with the requested hash
    function (and sha2-256 for version 0) and the default digest length. No value is derived from another one. -/
theorem explicit_values_unchanged (names : List (String × Nat)) (r : Req) (s : Settings)
    (h : settingsOf names Gen.newIpfsAdder r = .built s) :
    s.rawLeaves = r.rawLeaves ∧ s.noCopy = r.noCopy ∧ s.chunker = r.chunker ∧ s.progress = r.progress ∧
    s.trickle = (r.layout == "trickle") ∧ (r.cidVersion = 0 ∨ r.cidVersion = 1) ∧
    ∃ hc, lookup names (lower r.hashFun) = some hc ∧ s.builder = some ⟨r.cidVersion.toNat, hc, true⟩ ∧
      (r.cidVersion = 0 → hc = sha256Code) := by
  rw [params_reach_importer] at h
  exact expected_built names r s h

/-- second hop, `(*ipfsadd.Adder).add`: `DagBuilderParams`, `chunker.FromString` and the layout switch get the switches
    as they are, the width is `DefaultLinksPerBlock` -/
theorem importer_gets_settings (links : Nat) (s : Settings) :
    importerOf links Gen.ipfsAdd s = some ⟨s.chunker, s.rawLeaves, links, s.noCopy, s.builder, s.trickle⟩ := by
  exact gen_importerOf links s

/-- both hops: request → what go-unixfs is run with -/
theorem plumb_end_to_end (names : List (String × Nat)) (links : Nat) (r : Req) :
    plumb names links Gen.newIpfsAdder Gen.ipfsAdd r =
      some (match expected names r with
            | .built s => some ⟨s.chunker, s.rawLeaves, links, s.noCopy, s.builder, s.trickle⟩
            | _ => none) := by
  unfold plumb
  rw [params_reach_importer]
  cases he : expected names r with
  | built s => simp [importer_gets_settings]
  | refused => rfl
  | malformed =>
    exfalso
    unfold expected at he
    split_ifs at he
    cases hl : lookup names (lower r.hashFun) with
    | none => simp [hl] at he
    | some hc =>
      simp only [hl] at he
      split_ifs at he

/-- a rewrite that keeps the meaning (builder taken before the hash is written — a pointer —, assignments in another
    order) is interpreted to the same settings: the tie is semantic, not textual -/
theorem harmless_reorder_same (names : List (String × Nat)) (r : Req) :
    settingsOf names builderEarly r = settingsOf names Gen.newIpfsAdder r := by
  rw [params_reach_importer]
  exact builderEarly_settings names r

/-- refutations — the programs a plausible edit gives do NOT pass the request on:
    `forcedRaw` (seeded change C13f: raw leaves implied by CIDv1 / no-copy) imports an explicit `raw-leaves=false`,
    `cid-version=1` request with raw leaves; `rawDropped` never sets raw leaves; `hashDropped` hashes with sha2-256
    whatever was asked. -/
theorem edited_programs_change_request :
    (∃ r s, settingsOf [("sha2-256", 18), ("sha2-512", 19)] forcedRaw r = .built s ∧ r.rawLeaves = false ∧ s.rawLeaves = true) ∧
    (∃ r s, settingsOf [("sha2-256", 18), ("sha2-512", 19)] rawDropped r = .built s ∧ r.rawLeaves = true ∧ s.rawLeaves = false) ∧
    (∃ r s, settingsOf [("sha2-256", 18), ("sha2-512", 19)] hashDropped r = .built s ∧
        lookup [("sha2-256", 18), ("sha2-512", 19)] (lower r.hashFun) = some 19 ∧ s.builder = some ⟨1, 18, true⟩) := by
  refine ⟨⟨⟨"", "", false, false, false, 1, "sha2-256"⟩, _, rfl, rfl, rfl⟩,
          ⟨⟨"", "", true, false, false, 0, "sha2-256"⟩, _, rfl, rfl, rfl⟩,
          ⟨⟨"", "", false, false, false, 1, "SHA2-512"⟩, _, rfl, by decide, rfl⟩⟩

/-- fail-closed: a statement the translator did not recognise never yields an importer -/
theorem unknown_statement_never_built (names : List (String × Nat)) (r : Req) (pre post : List POp) (s : Settings)
    (hpre : ∀ op ∈ pre, op ≠ .retAdder) : settingsOf names (pre ++ .other :: post) r ≠ .built s := by
  unfold settingsOf
  generalize ({} : St) = st
  induction pre generalizing st with
  | nil => simp [exec]
  | cons op ops ih =>
    have hop : op ≠ .retAdder := hpre op (by simp)
    have ih' : ∀ st', exec names r (ops ++ POp.other :: post) st' ≠ Outcome.built s :=
      fun st' => ih (fun o ho => hpre o (List.mem_cons_of_mem _ ho)) st'
    cases op
    case retAdder => exact absurd rfl hop
    all_goals simp only [List.cons_append, exec]
    all_goals (repeat' split)
    all_goals first | exact ih' _ | simp

/-- go-ipfs-chunker `FromString`: a size splitter never has size 0 (the hypothesis `0 < n` of `chunk_concat`,
    `chunk_sizes`, `readback_*` is met by every accepted chunker string) and is the default or at most the limit;
    `""` and `"default"` are the default size -/
theorem chunker_string_sound (s : String) (n : Nat) (h : parseChunker Gen.defaultChunk Gen.chunkSizeLimit s = .size n) :
    0 < n ∧ n ≤ Gen.chunkSizeLimit := by
  have := parseChunker_size Gen.defaultChunk Gen.chunkSizeLimit s n (by decide) h
  have hd : Gen.defaultChunk ≤ Gen.chunkSizeLimit := by decide
  omega

theorem chunker_string_default : parseChunker Gen.defaultChunk Gen.chunkSizeLimit "" = .size Gen.defaultChunk ∧
    parseChunker Gen.defaultChunk Gen.chunkSizeLimit "default" = .size Gen.defaultChunk :=
  parseChunker_default _ _

example : parseChunker 262144 1048576 "size-64" = .size 64 ∧ parseChunker 262144 1048576 "size-0" = .refused ∧
    parseChunker 262144 1048576 "size-10-20" = .size 10 ∧ parseChunker 262144 1048576 "size-1048577" = .refused ∧
    parseChunker 262144 1048576 "size-" = .refused ∧ parseChunker 262144 1048576 "rabin-16-32-64" = .unmodelled ∧
    parseChunker 262144 1048576 "sized" = .refused := by decide

example : settingsOf Gen.hashNames Gen.newIpfsAdder ⟨"trickle", "size-64", false, false, true, 1, "Blake2b-256"⟩ =
    .built ⟨true, false, "size-64", true, false, true, some ⟨1, 0xb220, true⟩⟩ ∧
    settingsOf Gen.hashNames Gen.newIpfsAdder ⟨"", "", true, false, false, 0, "sha2-512"⟩ = .refused ∧
    settingsOf Gen.hashNames Gen.newIpfsAdder ⟨"", "", true, false, false, 2, "sha2-256"⟩ = .refused ∧
    settingsOf Gen.hashNames Gen.newIpfsAdder ⟨"", "", true, false, false, 1, "nohash"⟩ = .refused := by decide

end CV.C13.Par

/-! ## Round 8 final — shard.go interpreted: `AddLink` / `Size` / `Limit` / `Flush` as the regenerated operation lists say -/
namespace CV.C13.Flow
open CV CV.C13

theorem numbered_append (l : List Nat) (i x : Nat) :
    numbered i (l ++ [x]) = numbered i l ++ [(i + l.length, x)] := by
  induction l generalizing i with
  | nil => simp [numbered]
  | cons h t ih => simp [numbered, ih]; omega

theorem numbered_any_ge (l : List Nat) (i j : Nat) (h : i + l.length ≤ j) :
    (numbered i l).any (fun x => x.1 == j) = false := by
  induction l generalizing i with
  | nil => simp [numbered]
  | cons a t ih =>
    simp only [numbered, List.any_cons, List.length_cons] at h ⊢
    rw [ih (i + 1) (by omega)]
    have : (i == j) = false := by simp; omega
    simp [this]

theorem numbered_length (l : List Nat) (i : Nat) : (numbered i l).length = l.length := by
  induction l generalizing i with
  | nil => rfl
  | cons a t ih => simp [numbered, ih]

theorem numbered_vals (l : List Nat) (i : Nat) : (numbered i l).map (·.2) = l := by
  induction l generalizing i with
  | nil => rfl
  | cons a t ih => simp [numbered, ih]

/-- one interpreted `AddLink` is the hand-written step `blocks := blocks ++ [b]` (link numbered by position, size added) -/
theorem addLinkF_code (lim : Nat) (k : Cur) (b : Blk) :
    addLinkF Gen.shardAddLink (objOf lim k) b = some (objOf lim { k with blocks := k.blocks ++ [b] }) := by
  rw [gen_shard_flow.1]
  have h := numbered_any_ge (k.blocks.map (·.id)) 0 (k.blocks.map (·.id)).length (by omega)
  simp only [List.length_map] at h
  simp [addLinkF, shardAddLinkCode, List.foldl, alStep, objOf, mapSet, numbered_length, numbered_append, h, Cur.size]

/-- **shard_flow_refines**: for every link sequence, the program read from shard.go — `AddLink` once per block on a
    fresh shard — ends in exactly the object the hand-written bookkeeping (`Cur` with these blocks) stands for, and the
    interpreted `Size()` / `Limit()` / fit test on it are `Cur.size` / the configured limit / the model's `fits`. -/
theorem shard_flow_refines (lim : Nat) (k : Cur) (bs : List Blk) :
    addLinksF Gen.shardAddLink (objOf lim k) bs = some (objOf lim { k with blocks := k.blocks ++ bs }) ∧
    sizeF Gen.shardSize (objOf lim { k with blocks := k.blocks ++ bs }) = some (Cur.size { k with blocks := k.blocks ++ bs }) ∧
    limitF Gen.shardLimit (objOf lim { k with blocks := k.blocks ++ bs }) = some lim ∧
    ∀ sz, fitsF Gen.shardSize Gen.shardLimit (objOf lim { k with blocks := k.blocks ++ bs }) sz =
      some (fits (Cur.size { k with blocks := k.blocks ++ bs }) sz lim) := by
  refine ⟨?_, ?_, ?_, ?_⟩
  · induction bs generalizing k with
    | nil => simp [addLinksF]
    | cons b t ih =>
      simp only [addLinksF, addLinkF_code]
      have := ih { k with blocks := k.blocks ++ [b] }
      simpa [List.append_assoc] using this
  · simp [gen_shard_flow.2.2.1, sizeF, objOf]
  · simp [gen_shard_flow.2.2.2, limitF, sizeF, objOf]
  · intro sz; simp [gen_shard_flow.2.2.1, gen_shard_flow.2.2.2, fitsF, limitF, sizeF, objOf, fits]

/-- from a fresh shard (`newShard`: no links, size 0) -/
theorem shard_flow_refines_fresh (lim : Nat) (a d : List Nat) (bs : List Blk) :
    addLinksF Gen.shardAddLink ⟨[], 0, lim⟩ bs = some (objOf lim ⟨a, d, bs⟩) := by
  have := (shard_flow_refines lim ⟨a, d, []⟩ bs).1
  simpa [objOf, numbered, Cur.size] using this

example : addLinksF Gen.shardAddLink ⟨[], 0, 100⟩ [⟨7, 10⟩, ⟨8, 20⟩, ⟨7, 5⟩] = some ⟨[(0, 7), (1, 8), (2, 7)], 35, 100⟩ := by decide

/-- refutation (size not accumulated, `sh.currentSize += s` dropped): the interpreted `Size()` stays 0, the fit test
    accepts a block the limit excludes, and the object is no longer the one the bookkeeping stands for -/
theorem noSizeAccum_breaks :
    ¬ (∀ (lim : Nat) (k : Cur) (b : Blk), addLinkF noSizeAccum (objOf lim k) b = some (objOf lim { k with blocks := k.blocks ++ [b] })) ∧
    (addLinksF noSizeAccum ⟨[], 0, 10⟩ [⟨1, 8⟩]).bind (fun o => fitsF Gen.shardSize Gen.shardLimit o 8) = some true ∧
    fits (Cur.size ⟨[], [], [⟨1, 8⟩]⟩) 8 10 = false := by
  refine ⟨fun h => ?_, by decide, by decide⟩
  have := h 10 ⟨[], [], []⟩ ⟨1, 8⟩
  revert this; decide

/-- refutation (limit compared with `<=`): with the non-strict operator a block that makes the shard exactly full is
    accepted, which the strict test read from the source (`Gen.fitStrict`) refuses -/
theorem fit_le_differs : fits 4 6 10 = false ∧ decide (4 + 6 ≤ 10) = true := by decide

/-- **the interpreted `Flush` refines the hand-written one**: the regenerated `(*shard).Flush` program, run on the object
    the bookkeeping `Cur` stands for (allocations, shard number and previous shard as `flushCurrentShard` passes them), ends in
    exactly the cluster side, destinations and outcome of `flushCore` (the `shard.Flush` part of `flush`) -/
theorem flush_flow_refines (lim : Nat) (c : Cfg) (s : ShSt) (k : Cur) :
    flushF Gen.shardFlush Gen.shardSize c s.env k.dests (objOf lim k) ⟨k.allocs, s.shards.length, s.prev⟩ =
      some (flushCore c s k) := by
  have hv : (objOf lim k).dagNode.map (·.2) = k.blocks.map (·.id) := numbered_vals _ 0
  have hl : (objOf lim k).dagNode.length = k.blocks.length := by simp [objOf, numbered_length]
  have hp : specPin c (objOf lim k) ⟨k.allocs, s.shards.length, s.prev⟩
      (makeDAG s.env.named ((objOf lim k).dagNode.map (·.2)))
      (indirectGuard (makeDAG s.env.named ((objOf lim k).dagNode.map (·.2))).length (objOf lim k).dagNode.length) =
      flushPin c s k := by
    rw [hv, hl]; rfl
  rw [flushF_code]
  unfold flushSpec flushCore
  rw [hp, hv]
  unfold flushNodes
  generalize putMany c s.env k.dests (makeDAG s.env.named (k.blocks.map (·.id))) = pm
  rcases pm with ⟨e1, d1, _ | _⟩
  · rfl
  · generalize pinCall c e1 (flushPin c s k) = q
    rcases q with ⟨e2, _ | _⟩ <;> rfl

end CV.C13.Flow
