import ClusterVerif.Spec.C13
namespace CV.C13

/-- the generated constants are the ones the model was written for -/
theorem gen_shape : Gen.fitRecognised = true ∧ Gen.guardRecognised = true ∧ Gen.directTestIsLeMaxLinks = true ∧
    Gen.emptyTestIsSizeZero = true := by decide

end CV.C13
