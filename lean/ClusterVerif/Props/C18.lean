import ClusterVerif.Gen.C18
import ClusterVerif.Spec.C18
namespace CV.C18

/-- every recorded access to a designated field holds its designated lock (writes exclusively) -/
theorem gen_table_disciplined : tableOK Gen.guards Gen.spawns Gen.accesses = true := by decide

end CV.C18
