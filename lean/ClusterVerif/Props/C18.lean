import ClusterVerif.Gen.C18
import ClusterVerif.Lemmas.C18
import ClusterVerif.Model.C18Source
import ClusterVerif.Lemmas.C18Sync
import ClusterVerif.Lemmas.C18SyncClusterA
import ClusterVerif.Lemmas.C18SyncClusterB
import ClusterVerif.Lemmas.C18SyncClusterC
import ClusterVerif.Lemmas.C18SyncClusterR
import ClusterVerif.Model.C18Inventory
import ClusterVerif.Model.C18ChanOps
import ClusterVerif.Model.C18SyncOps
import ClusterVerif.Model.C18Torn
import ClusterVerif.Lemmas.C18SyncMoreA
import ClusterVerif.Lemmas.C18SyncMoreB
import ClusterVerif.Lemmas.C18SyncMoreR
import ClusterVerif.Lemmas.C18SyncClusterS

/-!
# C18 — concurrent use of the API never races, panics, deadlocks or tears results

Property theorems only (helpers in `Lemmas/C18.lean`).
-/
namespace CV.C18

/-! ## 1. lockset discipline ⇒ conflicting accesses are ordered by the lock -/

/-- In a well-locked trace that follows the discipline `L`, two conflicting accesses (same location,
different threads, at least one write) at positions `i < j` are separated by a release of `L x` by
the first thread and a later acquisition of `L x` by the second: they are ordered by the
release→acquire edge of the lock, in every execution, for any number of threads. -/
theorem lockset_drf (L : Loc → Mutex) (tr : List Ev) (hwl : wellLocked tr = true) (hd : disciplined L tr = true)
    (i j : Nat) (hij : i < j) (ei ej : Ev) (hi : tr[i]? = some ei) (hj : tr[j]? = some ej)
    (t u : Thread) (x : Loc) (wi wj : Bool)
    (hai : ei.access = some (t, x, wi)) (haj : ej.access = some (u, x, wj))
    (htu : t ≠ u) (hconf : wi = true ∨ wj = true) :
    ∃ r a, i < r ∧ r < a ∧ a < j ∧ tr[r]? = some (.rel t (L x)) ∧ ∃ md, tr[a]? = some (.acq u (L x) md) := by
  obtain ⟨σi, hσi⟩ := stAt_isSome hwl i
  obtain ⟨σj, hσj⟩ := stAt_isSome hwl j
  have hoki := discRun_at (L := L) (σ0 := []) hd hσi hi
  have hokj := discRun_at (L := L) (σ0 := []) hd hσj hj
  -- the holds the discipline gives at i and j
  have hti : ∃ ht ∈ σi, ht.t = t ∧ ht.m = L x ∧ (wi = true → ht.mode = .ex) := by
    cases ei with
    | rd t' x' =>
      simp only [Ev.access, Option.some.injEq, Prod.mk.injEq] at hai
      obtain ⟨rfl, rfl, rfl⟩ := hai
      obtain ⟨h, hh, h1, h2⟩ := holdsAny_mem hoki
      exact ⟨h, hh, h1, h2, by simp⟩
    | wr t' x' =>
      simp only [Ev.access, Option.some.injEq, Prod.mk.injEq] at hai
      obtain ⟨rfl, rfl, rfl⟩ := hai
      obtain ⟨h, hh, h1, h2, h3⟩ := holdsEx_mem hoki
      exact ⟨h, hh, h1, h2, fun _ => h3⟩
    | acq _ _ _ => simp [Ev.access] at hai
    | rel _ _ => simp [Ev.access] at hai
  have huj : ∃ hu ∈ σj, hu.t = u ∧ hu.m = L x ∧ (wj = true → hu.mode = .ex) := by
    cases ej with
    | rd t' x' =>
      simp only [Ev.access, Option.some.injEq, Prod.mk.injEq] at haj
      obtain ⟨rfl, rfl, rfl⟩ := haj
      obtain ⟨h, hh, h1, h2⟩ := holdsAny_mem hokj
      exact ⟨h, hh, h1, h2, by simp⟩
    | wr t' x' =>
      simp only [Ev.access, Option.some.injEq, Prod.mk.injEq] at haj
      obtain ⟨rfl, rfl, rfl⟩ := haj
      obtain ⟨h, hh, h1, h2, h3⟩ := holdsEx_mem hokj
      exact ⟨h, hh, h1, h2, fun _ => h3⟩
    | acq _ _ _ => simp [Ev.access] at haj
    | rel _ _ => simp [Ev.access] at haj
  obtain ⟨ht, hhti, htt, htm, htw⟩ := hti
  obtain ⟨hu, hhuj, hut, hum, huw⟩ := huj
  -- an access does not change the state
  have hstep_i : step σi ei = some σi := by
    cases ei with
    | rd _ _ => rfl
    | wr _ _ => rfl
    | acq _ _ _ => simp [Ev.access] at hai
    | rel _ _ => simp [Ev.access] at hai
  -- u's hold is not there at i
  have hu_not_i : hu ∉ σi := by
    intro hmem
    have hex := excl_stAt hσi
    rcases hconf with hw | hw
    · have := hex ht hhti hu hmem (by rw [htm, hum]) (htw hw)
      exact htu (by rw [← htt, ← this, hut])
    · have := hex hu hmem ht hhti (by rw [htm, hum]) (huw hw)
      exact htu (by rw [← htt, this, hut])
  -- so it is acquired at some a in [i, j)
  obtain ⟨a, hia, haj', hna, hpa⟩ := exists_flip (fun k => ∃ σ, stAt tr k = some σ ∧ hu ∈ σ) (Nat.le_of_lt hij)
    (by rintro ⟨σ, hσ, hm⟩; rw [hσi] at hσ; cases hσ; exact hu_not_i hm) ⟨σj, hσj, hhuj⟩
  obtain ⟨σa, hσa⟩ := stAt_isSome hwl a
  obtain ⟨σa1, hσa1, hua1⟩ := hpa
  have hua : hu ∉ σa := fun hm => hna ⟨σa, hσa, hm⟩
  have halen : a < tr.length := by
    have := (List.getElem?_eq_some_iff.mp hj).1
    omega
  have hea : tr[a]? = some tr[a] := List.getElem?_eq_getElem halen
  have hstepa : step σa tr[a] = some σa1 := by rw [← stAt_succ hea hσa]; exact hσa1
  obtain ⟨heva, hcan⟩ := mem_step_gain hstepa hua hua1
  have hane : a ≠ i := by
    intro h
    have h1 : tr[a] = ei := by
      have : tr[a]? = some ei := by rw [h]; exact hi
      rw [hea] at this; exact Option.some.inj this
    have h2 : σa = σi := by
      have : stAt tr a = some σi := by rw [h]; exact hσi
      rw [hσa] at this; exact Option.some.inj this
    rw [h1, h2, hstep_i] at hstepa
    cases hstepa
    exact hu_not_i hua1
  have hia' : i < a := Nat.lt_of_le_of_ne hia (Ne.symm hane)
  -- at a, t's hold is gone
  have ht_not_a : ht ∉ σa := by
    intro hmem
    rw [hum] at hcan
    cases hmd : hu.mode with
    | ex =>
      rw [hmd] at hcan
      exact canAcq_ex hcan ht hmem htm
    | sh =>
      rw [hmd] at hcan
      rcases hconf with hw | hw
      · exact canAcq_sh hcan ht hmem htm (htw hw)
      · rw [huw hw] at hmd; cases hmd
  -- so it is released at some r in [i, a)
  obtain ⟨r, hir, hra, hnr, hpr⟩ := exists_flip (fun k => ¬ ∃ σ, stAt tr k = some σ ∧ ht ∈ σ) (Nat.le_of_lt hia')
    (by intro h; exact h ⟨σi, hσi, hhti⟩)
    (by rintro ⟨σ, hσ, hm⟩; rw [hσa] at hσ; cases hσ; exact ht_not_a hm)
  obtain ⟨σr, hσr⟩ := stAt_isSome hwl r
  obtain ⟨σr1, hσr1⟩ := stAt_isSome hwl (r + 1)
  have htr : ht ∈ σr := by
    by_contra hc
    exact hnr (by rintro ⟨σ, hσ, hm⟩; rw [hσr] at hσ; cases hσ; exact hc hm)
  have htr1 : ht ∉ σr1 := fun hm => hpr ⟨σr1, hσr1, hm⟩
  have hrlen : r < tr.length := by omega
  have her : tr[r]? = some tr[r] := List.getElem?_eq_getElem hrlen
  have hstepr : step σr tr[r] = some σr1 := by rw [← stAt_succ her hσr]; exact hσr1
  have hevr := mem_step_lose hstepr htr htr1
  have hrne : r ≠ i := by
    intro h
    have h1 : tr[r] = ei := by
      have : tr[r]? = some ei := by rw [h]; exact hi
      rw [her] at this; exact Option.some.inj this
    have h2 : σr = σi := by
      have : stAt tr r = some σi := by rw [h]; exact hσi
      rw [hσr] at this; exact Option.some.inj this
    rw [h1, h2, hstep_i] at hstepr
    cases hstepr
    exact htr1 hhti
  refine ⟨r, a, Nat.lt_of_le_of_ne hir (Ne.symm hrne), hra, haj', ?_, hu.mode, ?_⟩
  · rw [her, hevr, htt, htm]
  · rw [hea, heva, hut, hum]

/-- no two conflicting accesses of different threads are ever adjacent in an execution -/
theorem no_adjacent_conflict (L : Loc → Mutex) (tr : List Ev) (hwl : wellLocked tr = true) (hd : disciplined L tr = true)
    (i : Nat) (ei ej : Ev) (hi : tr[i]? = some ei) (hj : tr[i + 1]? = some ej)
    (t u : Thread) (x : Loc) (wi wj : Bool)
    (hai : ei.access = some (t, x, wi)) (haj : ej.access = some (u, x, wj))
    (htu : t ≠ u) (hconf : wi = true ∨ wj = true) : False := by
  obtain ⟨r, a, h1, h2, h3, _⟩ := lockset_drf L tr hwl hd i (i + 1) (Nat.lt_succ_self i) ei ej hi hj t u x wi wj hai haj htu hconf
  omega

/-- the hypotheses are satisfiable by a non-trivial trace: two threads, a writer and a reader of
location 7 guarded by mutex 3, and an unrelated shared hold -/
example :
    let tr : List Ev := [.acq 1 3 .ex, .wr 1 7, .rel 1 3, .acq 2 3 .sh, .acq 1 5 .sh, .rd 2 7, .rel 2 3, .rel 1 5]
    wellLocked tr = true ∧ disciplined (fun _ => 3) tr = true := by decide

/-- … and the discipline is not vacuous: an unlocked read is rejected -/
example : disciplined (fun _ => 3) [.acq 1 3 .ex, .wr 1 7, .rel 1 3, .rd 2 7] = false := by decide

/-! ## 2. programs: static checks ⇒ all interleavings are disciplined and deadlock free -/

/-- If every thread's script passes the static lockset check (what the generated table asserts of
every function), then every interleaving of the threads is a well-locked, disciplined trace —
so `lockset_drf` applies to every execution of the program. -/
theorem static_disciplined (L : Loc → Mutex) (progs : List (List Act))
    (hok : ∀ p ∈ progs, lockOK L [] p = true) (sch : List Nat) (s : Sys) (evs : List Ev)
    (hrun : (Sys.init progs).run sch = some (s, evs)) :
    wellLocked evs = true ∧ disciplined L evs = true := by
  have key : ∀ (sch : List Nat) (s0 s : Sys) (evs : List Ev), s0.Inv (fun h p => lockOK L h p = true) →
      s0.run sch = some (s, evs) → runTr s0.σ evs = some s.σ ∧ discRun L s0.σ evs = true := by
    intro sch
    induction sch with
    | nil =>
      intro s0 s evs _ h
      simp only [Sys.run, Option.some.injEq, Prod.mk.injEq] at h
      obtain ⟨rfl, rfl⟩ := h
      simp [runTr, discRun]
    | cons t sch ih =>
      intro s0 s evs hinv h
      simp only [Sys.run] at h
      cases h1 : s0.stepT t with
      | none => simp [h1] at h
      | some r1 =>
        obtain ⟨s1, e⟩ := r1
        rw [h1] at h
        simp only at h
        cases h2 : s1.run sch with
        | none => simp [h2] at h
        | some r2 =>
          obtain ⟨s2, es⟩ := r2
          rw [h2] at h
          simp only [Option.some.injEq, Prod.mk.injEq] at h
          obtain ⟨rfl, rfl⟩ := h
          obtain ⟨a, rest, hp, he, hs, _⟩ := stepT_spec h1
          have hinv1 := inv_stepT (lockOK_closed L) hinv h1
          obtain ⟨hr, hdisc⟩ := ih s1 s2 es hinv1 h2
          subst he
          have hok_t := hinv t
          unfold Sys.prog at hok_t
          rw [hp] at hok_t
          simp only [Option.getD_some, lockOK, Bool.and_eq_true] at hok_t
          refine ⟨by simp only [runTr, hs]; exact hr, ?_⟩
          simp only [discRun, hs, Bool.and_eq_true]
          refine ⟨?_, hdisc⟩
          cases a with
          | acq m md => rfl
          | rel m => rfl
          | rd x => simp only [Act.ev, okAt]; rw [← th_any]; exact hok_t.1
          | wr x => simp only [Act.ev, okAt]; rw [← th_anyEx]; exact hok_t.1
  have hinit : (Sys.init progs).Inv (fun h p => lockOK L h p = true) :=
    inv_init progs hok (by simp [lockOK])
  obtain ⟨h1, h2⟩ := key sch (Sys.init progs) s evs hinit hrun
  exact ⟨by simp only [wellLocked]; simp only [Sys.init] at h1; rw [h1]; rfl, h2⟩

/-- With an acyclic lock-acquisition order (`rank` strictly increases along every nested
acquisition of every script, releases match, nothing is held at the end) no reachable state has
all unfinished threads blocked: whenever some thread has not finished, some thread can move. -/
theorem acyclic_no_deadlock (rank : Mutex → Nat) (progs : List (List Act))
    (hok : ∀ p ∈ progs, orderOK rank [] p = true) (sch : List Nat) (s : Sys) (evs : List Ev)
    (hrun : (Sys.init progs).run sch = some (s, evs)) (hunf : ∃ p ∈ s.progs, p ≠ []) :
    ∃ t, (s.stepT t).isSome = true := by
  have hinv : s.Inv (fun h p => orderOK rank h p = true) :=
    inv_run (orderOK_closed rank) (inv_init progs hok (by simp [orderOK])) hrun
  by_contra hno
  push Not at hno
  have hnone : ∀ t, s.stepT t = none := by
    intro t
    cases h : s.stepT t with
    | none => rfl
    | some r => exact absurd (by simp [h]) (hno t)
  -- every unfinished thread is at a blocked acquisition
  have hhead : ∀ (t : Nat) (a : Act) (r : List Act), s.progs[t]? = some (a :: r) → ∃ m md, a = Act.acq m md ∧ canAcq s.σ m md = false := by
    intro t a r hp
    have hst := hnone t
    have hok_t := hinv t
    unfold Sys.prog at hok_t
    rw [hp] at hok_t
    simp only [Option.getD_some, orderOK, Bool.and_eq_true] at hok_t
    unfold Sys.stepT at hst
    rw [hp] at hst
    simp only at hst
    cases a with
    | acq m md =>
      refine ⟨m, md, rfl, ?_⟩
      simp only [Act.ev, step] at hst
      by_cases hc : canAcq s.σ m md = true
      · simp [hc] at hst
      · simpa using hc
    | rel m =>
      exfalso
      have hany : holdsAny s.σ t m = true := by rw [← th_any]; exact hok_t.1
      have : s.σ.any (relP t m) = true := hany
      simp [Act.ev, step, this] at hst
    | rd x => simp [Act.ev, step] at hst
    | wr x => simp [Act.ev, step] at hst
  -- the unfinished threads, and one whose awaited mutex has maximal rank
  let headM : Nat → Mutex := fun t => match s.progs[t]? with
    | some (.acq m _ :: _) => m
    | _ => 0
  let U := (List.range s.progs.length).filter (fun t => !(s.prog t).isEmpty)
  have hU : U ≠ [] := by
    obtain ⟨p, hp, hne⟩ := hunf
    obtain ⟨u, hu⟩ := List.mem_iff_getElem?.mp hp
    have hlt : u < s.progs.length := (List.getElem?_eq_some_iff.mp hu).1
    have : u ∈ U := by
      simp only [U, List.mem_filter, List.mem_range, Sys.prog, hu, Option.getD_some]
      exact ⟨hlt, by cases p with | nil => exact absurd rfl hne | cons _ _ => rfl⟩
    exact List.ne_nil_of_mem this
  obtain ⟨t0, ht0, hmax⟩ := exists_max (fun t => rank (headM t)) U hU
  simp only [U, List.mem_filter, List.mem_range] at ht0
  obtain ⟨ht0lt, ht0ne⟩ := ht0
  have hp0 : ∃ a r, s.progs[t0]? = some (a :: r) := by
    unfold Sys.prog at ht0ne
    cases h : s.progs[t0]? with
    | none => simp [h] at ht0ne
    | some p =>
      cases p with
      | nil => simp [h] at ht0ne
      | cons a r => exact ⟨a, r, rfl⟩
  obtain ⟨a0, r0, hp0⟩ := hp0
  obtain ⟨m0, md0, rfl, hblk⟩ := hhead t0 a0 r0 hp0
  obtain ⟨x, hx, hxm⟩ := blocked_has_holder hblk
  -- the blocker x.t holds m0; it is unfinished and waits for a mutex of larger rank
  have hheld : (x.m, x.mode) ∈ threadHolds s.σ x.t := mem_threadHolds hx
  have hok1 := hinv x.t
  cases hp1 : s.progs[x.t]? with
  | none =>
    simp only [Sys.prog, hp1, Option.getD_none, orderOK, List.isEmpty_iff] at hok1
    rw [hok1] at hheld; cases hheld
  | some p1 =>
    cases p1 with
    | nil =>
      simp only [Sys.prog, hp1, Option.getD_some, orderOK, List.isEmpty_iff] at hok1
      rw [hok1] at hheld; cases hheld
    | cons a1 r1 =>
      obtain ⟨m1, md1, rfl, _⟩ := hhead x.t a1 r1 hp1
      simp only [Sys.prog, hp1, Option.getD_some, orderOK, Bool.and_eq_true, List.all_eq_true] at hok1
      have hlt := hok1.1 _ hheld
      simp only [decide_eq_true_eq] at hlt
      have hx_in : x.t ∈ U := by
        simp only [U, List.mem_filter, List.mem_range, Sys.prog, hp1, Option.getD_some]
        exact ⟨(List.getElem?_eq_some_iff.mp hp1).1, rfl⟩
      have hle := hmax x.t hx_in
      have h0 : headM t0 = m0 := by simp only [headM, hp0]
      have h1 : headM x.t = m1 := by simp only [headM, hp1]
      simp only [h0, h1] at hle
      rw [hxm] at hlt
      omega

/-- Summaries and calling contexts are sound for the script model: let every function body pass the
modular lockset check in every calling context recorded for it (`modOK`: accesses against the
locks held so far, each call site's lockset must itself be a recorded context of the callee, the
body returns with the locks it was entered with). Then the script obtained by INLINING all calls
(to any depth at which inlining succeeds; recursion beyond the bound yields `none`, never a script)
passes the flat check `lockOK` from each of its contexts, and is balanced. -/
theorem inline_preserves_lockOK (L : Loc → Mutex) (P : List Body) (ctxs : Nat → List Held)
    (hmod : ∀ f H, H ∈ ctxs f → modOK L ctxs H H (P.getD f []) = true)
    (fuel f : Nat) (H : Held) (acts : List Act) (hH : H ∈ ctxs f) (hin : inlineFn P fuel f = some acts) :
    lockOK L H acts = true ∧ acts.foldl after H = H := by
  induction fuel generalizing f H acts with
  | zero => simp [inlineFn] at hin
  | succ n ih =>
    simp only [inlineFn] at hin
    exact inlineWith_ok L ctxs (inlineFn P n) (fun g H' a' hg ha => ih g H' a' hg ha) H (P.getD f []) H acts (hmod f H hH) hin

/-- … so a program whose threads are root functions (entered with nothing held: `[] ∈ ctxs f`) has
only well-locked, disciplined executions once its calls are inlined: `static_disciplined`, hence
`lockset_drf`, apply to it. -/
theorem inlined_program_disciplined (L : Loc → Mutex) (P : List Body) (ctxs : Nat → List Held)
    (hmod : ∀ f H, H ∈ ctxs f → modOK L ctxs H H (P.getD f []) = true)
    (fuel : Nat) (rootsL : List Nat) (hroot : ∀ f ∈ rootsL, [] ∈ ctxs f)
    (progs : List (List Act)) (hprogs : ∀ p ∈ progs, ∃ f ∈ rootsL, inlineFn P fuel f = some p)
    (sch : List Nat) (s : Sys) (evs : List Ev) (hrun : (Sys.init progs).run sch = some (s, evs)) :
    wellLocked evs = true ∧ disciplined L evs = true := by
  refine static_disciplined L progs (fun p hp => ?_) sch s evs hrun
  obtain ⟨f, hf, hin⟩ := hprogs p hp
  exact (inline_preserves_lockOK L P ctxs hmod fuel f [] p (hroot f hf) hin).1

/-- non-vacuity: `Filter`-like root 0 takes mutex 1 shared and calls helper 1, which reads location 9
(guarded by mutex 1) relying on its caller's lock; contexts: root `[]`, helper `[(1, sh)]` -/
example :
    let P : List Body := [[.act (.acq 1 .sh), .call 1, .act (.rel 1)], [.act (.rd 9)]]
    let ctxs : Nat → List Held := fun f => if f = 0 then [[]] else [[(1, .sh)]]
    modOK (fun _ => 1) ctxs [] [] (P.getD 0 []) = true ∧ modOK (fun _ => 1) ctxs [(1, .sh)] [(1, .sh)] (P.getD 1 []) = true
      ∧ inlineFn P 2 0 = some [.acq 1 .sh, .rd 9, .rel 1] ∧ inlineFn P 1 0 = none := by decide

/-- … and the helper writing instead of reading is rejected in that context (RLock held by the caller) -/
example : modOK (fun _ => 1) (fun _ => [[(1, .sh)]]) [(1, .sh)] [(1, .sh)] [.act (.wr 9)] = false := by decide

/-- a non-trivial program meeting both static checks: two threads nesting mutexes 1 → 2 -/
example :
    let progs : List (List Act) :=
      [[.acq 1 .ex, .acq 2 .sh, .rd 9, .rel 2, .wr 8, .rel 1], [.acq 2 .ex, .wr 9, .rel 2, .acq 1 .sh, .rd 8, .rel 1]]
    let L : Loc → Mutex := fun x => if x = 9 then 2 else 1
    (∀ p ∈ progs, lockOK L [] p = true) ∧ (∀ p ∈ progs, orderOK id [] p = true) := by decide

/-- opposite nesting orders are rejected by the order check under every ranking that accepts the first script -/
example : orderOK id [] [.acq 2 .ex, .acq 1 .ex, .rel 1, .rel 2] = false := by decide

/-! ## 3. `Cluster.Alerts()` against `alertsHandler`, all interleavings -/

open Alerts in
/-- With the result sized under `alertsMux` (the current code), for EVERY schedule of the alert
writer and any number of readers, for every bound `maxAlerts` and every sequence of distinct,
non-empty incoming alerts: no reader ever hits an index error, and every list `Alerts()` returns
has no empty entry and no duplicated entry. -/
theorem alerts_safe (maxAlerts : Nat) (pending : List Nat) (hnd : pending.Nodup) (h0 : 0 ∉ pending)
    (todo : Nat) (sched : List Nat) (k : Nat) :
    let s := run ⟨maxAlerts, true⟩ (init pending todo) sched
    (s.readers k).pc ≠ .crashed ∧ ∀ l ∈ (s.readers k).outs, 0 ∉ l ∧ l.Nodup := by
  intro s
  have hinv : Inv s := Alerts.inv_run ⟨maxAlerts, true⟩ rfl sched (Alerts.inv_init pending hnd h0 todo)
  exact ⟨(hinv.2 k).notCrashed, (hinv.2 k).outs⟩

open Alerts in
/-- … and every returned list is exactly the alert log at some moment, most recent first: it is the
reverse of a list the writer had built (stated for the last call: the log while the lock was held) -/
theorem alerts_snapshot (maxAlerts : Nat) (pending : List Nat) (hnd : pending.Nodup) (h0 : 0 ∉ pending)
    (todo : Nat) (sched : List Nat) (k : Nat) :
    let s := run ⟨maxAlerts, true⟩ (init pending todo) sched
    (s.readers k).pc = .copied → (s.readers k).res = s.alerts.reverse := by
  intro s
  have hinv : Inv s := Alerts.inv_run ⟨maxAlerts, true⟩ rfl sched (Alerts.inv_init pending hnd h0 todo)
  exact (hinv.2 k).copied

/-- The sequential reference the driver judges returned alert lists by is the model's own: when
alerts 1..k have gone through the writer (four steps each), the log is `alertsAfter maxAlerts k`
read backwards — so by `alerts_snapshot` a reader then returns exactly `alertsAfter maxAlerts k`. -/
theorem alerts_sequential (maxAlerts k todo : Nat) (b : Bool) :
    (Alerts.run ⟨maxAlerts, b⟩ (Alerts.init (List.range' 1 k) todo) (List.replicate (4 * k) 0)).alerts
      = (alertsAfter maxAlerts k).reverse := by
  have h := Alerts.writer_alone ⟨maxAlerts, b⟩ (List.range' 1 k) (Alerts.init (List.range' 1 k) todo) rfl rfl rfl
  simp only [List.length_range'] at h
  rw [h.1]
  exact Alerts.seq_log maxAlerts k

/-- non-vacuity: a schedule in which reader 0 returns the two alerts delivered so far, newest first -/
example : ((Alerts.run ⟨1000, true⟩ (Alerts.init [5, 6, 7] 1) [0, 0, 0, 0, 0, 0, 0, 0, 1, 1, 1, 1, 1, 1, 1]).readers 0).outs = [[6, 5]] := by
  decide

/-- REFUTED for the order before commit c03e9ef (length read before taking the lock): the reader
sizes its result for an empty log, the writer then appends one alert, the reader locks and ranges
over one element: index `0 - 1 - 0` is out of range. -/
example : ((Alerts.run ⟨1000, false⟩ (Alerts.init [5] 1) [1, 0, 0, 0, 0, 1, 1, 1]).readers 0).pc = .crashed := by
  decide

/-- REFUTED, second shape (with maxAlerts = 1 to keep the schedule short): the reader sizes its
result for two alerts, the writer resets the log and appends a third, the reader copies one
element into a list of two: an empty entry is returned. -/
example : ((Alerts.run ⟨1, false⟩ (Alerts.init [5, 6, 7] 1)
    [0, 0, 0, 0, 0, 0, 0, 0, 1, 0, 0, 0, 0, 1, 1, 1, 1, 1]).readers 0).outs = [[0, 7]] := by
  decide

/-! ## 3'. status and error text of one operation (finding K18a / K17, fixed by add9366) -/

/-- read in ONE critical section, the (phase, error) pair is always a pair the writer wrote -/
theorem pair_read_atomic (sched : List Bool) :
    (PairRead.run false sched).gotPhase = (PairRead.run false sched).gotErr := by
  have key : ∀ (sched : List Bool) (s : PairRead.St), s.phase = s.err → s.gotPhase = s.gotErr →
      (sched.foldl (PairRead.step false) s).gotPhase = (sched.foldl (PairRead.step false) s).gotErr := by
    intro sched
    induction sched with
    | nil => intro s _ h; exact h
    | cons b bs ih =>
      intro s h1 h2
      simp only [List.foldl_cons]
      apply ih
      · cases b with
        | true => simp [PairRead.step]
        | false =>
          simp only [PairRead.step]
          cases hp : s.gotPhase with
          | none => simpa using h1
          | some v =>
            simp only
            cases he : s.gotErr with
            | none => simpa using h1
            | some w => simpa using h1
      · cases b with
        | true => simpa [PairRead.step] using h2
        | false =>
          simp only [PairRead.step]
          cases hp : s.gotPhase with
          | none => simp [h1]
          | some v =>
            simp only
            cases he : s.gotErr with
            | none => rw [hp, he] at h2; cases h2
            | some w => simp only; rw [hp, he]; rw [hp, he] at h2; exact h2
  exact key sched {} rfl rfl

/-- REFUTED for the code before add9366 (two critical sections): the writer's section in between
gives the old phase with the new error text — a `pinning` PinInfo carrying the failure's message -/
example : ((PairRead.run true [false, true, false]).gotPhase, (PairRead.run true [false, true, false]).gotErr)
    = (some 0, some 1) := by decide

/-! ## 4. today's sources: the regenerated lock-fact table -/

/-- every recorded access to a designated field holds its designated lock (writes exclusively),
every designated field and mutex is still declared, immutable fields are never written outside
their constructor literal, and the crdt batching state is published to its only reader by the go
statement that follows its only write -/
theorem gen_table_disciplined :
    tableOK Gen.guards Gen.spawns Gen.accesses Gen.contexts Gen.callEdges Gen.roots Gen.fnFacts = true := by decide +kernel

/-- every reference taken out of a guarded structure that leaves its function (returned, sent on a
channel, stored elsewhere) is a value copy, a fresh container of values, or points to objects
with their own lock in the table / to payloads never written after insertion -/
theorem gen_escapes_copied : escapesOK Gen.escapes = true := by decide

/-- the interprocedural part of the table is not vacuous: some context carries a caller's lock
into a callee, and some context binds a parameter to guarded data (`filterOpsMap(ctx, opt.operations, …)`) -/
theorem gen_contexts_nonempty :
    Gen.contexts.any (fun c => !c.locks.isEmpty) = true ∧ Gen.contexts.any (fun c => !c.binds.isEmpty) = true
      ∧ Gen.accesses.any (fun a => a.param != 0) = true ∧ 3 ≤ Gen.escapes.length := by decide

/-- the graph of nested acquisitions (direct, or through resolved calls and interface
implementers) is acyclic: `rankOf` is a strict order along every edge -/
theorem gen_lock_order_acyclic : acyclicB Gen.edges = true := by decide

/-- the extractor understood every construct of every function that touches a designated field
or a mutex (fail closed) -/
theorem gen_no_unrecognised_shapes : Gen.problems = [] := by decide

/-- the functions that build a PinInfo read phase, error text and timestamp of an operation in ONE
critical section of its mutex (so `pair_read_atomic`, not the refuted two-section reading, is the
model of today's `unsafePinInfo`) -/
theorem gen_snapshots_atomic : snapshotsOK Gen.snapshots = true := by decide

/-- round 8b: EVERY field of a struct of the analysed packages whose type comes from package `sync` is the designated mutex
of some guard of the discipline, or is in the reviewed list of `Model/C18Inventory.lean` (`paMux`, the two wait groups, one
`sync.Map`) — a new mutex in the anchored structs fails this obligation until it is said what it guards -/
theorem gen_sync_inventory_reviewed : inventoryOK Gen.syncFields reviewedSyncFields = true := by decide

/-- … and the inventory is not vacuous: the twelve designated mutexes are found -/
theorem gen_sync_inventory_nonempty : 12 ≤ (designatedMutexes Gen.syncFields).length ∧ 16 ≤ Gen.syncFields.length := by decide

/-- Prop reading of `inventoryOK`: every listed field is a designated mutex or a reviewed field -/
theorem inventoryOK_sound (fs : List SyncField) (rv : List (String × String)) (h : inventoryOK fs rv = true) :
    ∀ f ∈ fs, (f.2.2.2 = true ∧ isMutexKind f.2.2.1 = true) ∨ (f.2.2.2 = false ∧ (f.1, f.2.1) ∈ rv) := by
  intro f hf
  unfold inventoryOK at h
  rw [Bool.and_eq_true] at h
  have := List.all_eq_true.mp h.1 f hf
  simp only [Bool.or_eq_true, Bool.and_eq_true, Bool.not_eq_true', List.contains_iff_mem] at this
  exact this

/-- a struct that gained an unreviewed mutex is rejected; the same field once designated is accepted -/
example : inventoryOK [(".|Cluster", "newMu", "Mutex", false)] [] = false ∧
    inventoryOK [(".|Cluster", "newMu", "Mutex", true)] [] = true ∧
    inventoryOK [] [(".|Cluster", "gone")] = false := by decide

/-- round 8b, SEMANTIC tie of the synchronisation models: every channel send and every `close` in a function of the ten anchored
files (`Gen.chanOps`, go/ast) is a known site of a transcribed program, and the program has the same shape there — a send that is a
case of a `select` with `default:` is an alternative of an instruction with a default branch (`tryOp`), a plain send is a plain
one-alternative instruction, a `close` is present in the thread; every listed site still exists. A queue send that loses its
`default:` (wrong edits t2 / w1 / q1 of `more_wrong_edits_refuted`) or a new `close` (t3) breaks THIS obligation, a rewrite that
keeps the channel operations does not. -/
theorem gen_chan_ops_match_model : chanOpsOK Gen.chanOps = true := by decide +kernel

/-- the facts the three blocking-send edits and the closing `Shutdown` would produce are rejected; the edited programs do not have
the shape of today's facts either -/
example : chanOpOK ("pintracker/stateless|Tracker.enqueue", "send", "ch", "blocking") = false ∧
    chanOpOK ("monitor/metrics|Checker.alert", "send", "mc.alertCh", "blocking") = false ∧
    chanOpOK ("consensus/crdt|Consensus.LogPin", "send", "css.batchItemCh", "blocking") = false ∧
    chanOpOK ("pintracker/stateless|Tracker.Shutdown", "close", "spt.pinCh", "-") = false ∧
    sendsHaveDefault Sync.Progs.tTrack2Blocking 1 = false ∧
    closesOnly Sync.Progs.aShutdown [0] = true ∧ closesOnly Sync.Progs.tShutdownClosesQueue [0] = false := by decide +kernel

/-- Prop reading of `sendsHaveDefault` -/
theorem sendsHaveDefault_sound (code : Sync.Code) (ch : Nat) (h : sendsHaveDefault code ch = true) :
    ∀ ins ∈ code, ∀ a ∈ ins.alts, a.op = Sync.Op.send ch → ins.dflt.isSome = true := by
  intro ins hins a ha hop
  have h1 := List.all_eq_true.mp (List.all_eq_true.mp h ins hins) a ha
  simp only [hop, opSendsOn, Nat.beq_refl, Bool.not_true, Bool.false_or] at h1
  exact h1

open Sync in
/-- what the `default:` buys, for EVERY program and state: a thread standing at an instruction with a default branch can always
move (one of its alternatives is enabled, or the default is taken) — a `select` with `default:` never blocks, whatever the
other threads did to the channel -/
theorem default_never_blocks {P : List Code} {cfg : Cfg} {s t pc : Nat} {ins : Instr}
    (h0 : panicCode s = 0) (hi : instrAt P cfg s t = some ins) (hd : ins.dflt = some pc) :
    ∃ a, (Sync.step P cfg s t a).isSome = true := dflt_never_blocks h0 hi hd

/-- ROUND 8c — receives, `<-ctx.Done()` arms, WaitGroup calls and go statements of the anchored files against the transcribed
programs (`Model/C18SyncOps.lean`): every row of the regenerated `Gen.syncOps` is a known site with the recorded multiplicity,
and where a program transcribes it the thread has the operation in the shape of the row's class (arm of a select without default /
with default / plain statement). A new or dropped receive, `Done()` arm, `wg.Add/Done/Wait` or go statement, one moved into or
out of a `select`, a changed `Add` argument: this fails (closed) — a rewrite that keeps these operations does not. -/
theorem gen_sync_ops_match_model : syncOpsOK Gen.syncOps = true := by decide +kernel

/-- not vacuous: 68 rows today, 29 of the 50 sites are tied to an instruction of a program (the others are reviewed with a reason) -/
theorem gen_sync_ops_nonempty : 60 ≤ Gen.syncOps.length ∧ 25 ≤ modelledSites := by decide +kernel

/-- the stateless tracker never calls `spt.wg.Add`: `spt.wg.Wait()` in `Shutdown` waits for nobody — the fact behind
"wg 0 = `spt.wg` (never Added)" of `progA` / `progT` (the workers are NOT awaited by `Shutdown`; they leave through `ctx.Done()`) -/
theorem tracker_wg_never_added : noWgAdd Gen.syncOps "pintracker/stateless" = true := by decide +kernel

/-- facts realistic wrong edits would produce are rejected: `Shutdown` without `wg.Wait()` (row dropped), `ready()` calling
`c.Shutdown` without `go` (one go statement less), `opWorker` without its `ctx.Done()` arm, `watchPeers` receiving the ticker in a
plain statement, `run()` with `Add(2)` -/
example : syncOpsOK (Gen.syncOps.filter fun o => !(o.1 == ".|Cluster.Shutdown" && o.2.1 == "wgWait")) = false ∧
    syncOpsOK (Gen.syncOps.eraseP fun o => o.1 == ".|Cluster.ready" && o.2.1 == "go") = false ∧
    syncOpsOK (Gen.syncOps.filter fun o => !(o.1 == "pintracker/stateless|Tracker.opWorker" && o.2.1 == "done")) = false ∧
    syncOpsOK (Gen.syncOps ++ [(".|Cluster.watchPeers", "recv", "ticker.C", "plain")]) = false ∧
    syncOpsOK (Gen.syncOps ++ [(".|Cluster.run", "wgAdd", "c.wg", "2")]) = false := by decide +kernel

/-- Prop reading of the shape check for a `select` row: the thread has an instruction WITHOUT default branch, with at least two
alternatives, one of which is the operation — i.e. the operation can be pre-empted by a sibling arm, and blocks when none is enabled -/
theorem countShaped_select_sound (code : Sync.Code) (w : Sync.Op) (h : 1 ≤ countShaped code w "select") :
    ∃ ins ∈ code, ins.dflt = none ∧ 2 ≤ ins.alts.length ∧ ∃ a ∈ ins.alts, opIs w a.op = true := by
  unfold countShaped at h
  have hne : (code.filter fun ins => shapeOK "select" ins && ins.alts.any fun a => opIs w a.op) ≠ [] := by
    intro h0; rw [h0] at h; exact absurd h (by decide)
  obtain ⟨ins, hins⟩ := List.exists_mem_of_ne_nil _ hne
  have hm := List.mem_filter.mp hins
  have hb := hm.2
  simp only [Bool.and_eq_true] at hb
  obtain ⟨hs, ha⟩ := hb
  have hs' : (ins.dflt.isNone && Nat.ble 2 ins.alts.length) = true := by
    simpa [shapeOK] using hs
  simp only [Bool.and_eq_true] at hs'
  obtain ⟨a, hain, hop⟩ := List.any_eq_true.mp ha
  refine ⟨ins, hm.1, ?_, Nat.le_of_ble_eq_true hs'.2, a, hain, hop⟩
  cases hd : ins.dflt with
  | none => rfl
  | some _ => rw [hd] at hs'; exact absurd hs'.1 (by simp)

example : 1 ≤ countShaped (Sync.Progs.tWorker 1) (.done 0) "select" := by decide

/-- ROUND 8c — "never tears results" at model level (`Model/C18Torn.lean`): a getter that copies the fields of a guarded value
inside ONE critical section returns fields of one value — the one present when it acquired the mutex, which is whole if writers
leave only whole values at their `unlock`; holds for EVERY accepted continuation (writers may write only while holding the mutex:
the discipline `gen_table_disciplined` establishes). -/
theorem getter_copy_under_lock_whole (Whole : List Nat → Prop) (g : Nat) (s s' : Torn.TS) (evs : List Torn.Ev)
    (hfree : s.holder = none) (hinv : Whole s.cell) (hq : Torn.quiet g evs = true)
    (hr : Torn.run s (.lock g :: evs) = some s') :
    Whole s'.cell ∧ ∀ p ∈ Torn.readsOf g { s with holder := some g } evs, p.2 = s.cell.getD p.1 0 :=
  Torn.copy_under_lock_whole Whole g s s' evs hfree hinv hq hr

/-- the alternative refuted: reading the fields without the mutex returns a value nobody stored -/
theorem getter_without_lock_tears :
    (Torn.run ⟨[0, 0], none⟩ Torn.tornTrace).isSome = true ∧
      Torn.readsOf 2 ⟨[0, 0], none⟩ Torn.tornTrace = [(0, 1), (1, 0)] := Torn.unlocked_getter_tears

/-- tie to the regenerated escape facts: the getters the statement above is about exist in the table (kind `copy` / `value`:
`Cluster.Alerts`, `Store.Distribution`, `OperationTracker.OpContext`, `OperationTracker.Status` today) and nothing escapes raw -/
theorem gen_copy_getters_present :
    4 ≤ (Gen.escapes.filter fun e => e.kind == .copy || e.kind == .value).length ∧ escapesOK Gen.escapes = true := by decide

/-- the table is not vacuous -/
theorem gen_table_nonempty : 60 ≤ Gen.accesses.length ∧ 5 ≤ Gen.edges.length ∧ 15 ≤ Gen.guards.length := by decide

/-- the Bool check of acyclicity exhibits a rank function (the hypothesis shape of `acyclic_no_deadlock`) -/
theorem acyclicB_rank (edges : List (Nat × Nat)) (h : acyclicB edges = true) :
    ∃ rank : Nat → Nat, ∀ e ∈ edges, rank e.1 < rank e.2 := by
  refine ⟨rankOf edges, fun e he => ?_⟩
  have := List.all_eq_true.mp h e he
  simpa using this

/-! ## 4'. the source text of the functions the synchronisation models transcribe is the snapshot they were read from -/

theorem gen_source_stateless_New : Gen.Src.stateless_New = Expected.stateless_New := rfl
theorem gen_source_stateless_Tracker_opWorker : Gen.Src.stateless_Tracker_opWorker = Expected.stateless_Tracker_opWorker := rfl
theorem gen_source_stateless_Tracker_enqueue : Gen.Src.stateless_Tracker_enqueue = Expected.stateless_Tracker_enqueue := rfl
theorem gen_source_stateless_Tracker_SetClient : Gen.Src.stateless_Tracker_SetClient = Expected.stateless_Tracker_SetClient := rfl
theorem gen_source_stateless_Tracker_Shutdown : Gen.Src.stateless_Tracker_Shutdown = Expected.stateless_Tracker_Shutdown := rfl
theorem gen_source_crdt_New : Gen.Src.crdt_New = Expected.crdt_New := rfl
theorem gen_source_crdt_Consensus_setup : Gen.Src.crdt_Consensus_setup = Expected.crdt_Consensus_setup := rfl
theorem gen_source_crdt_Consensus_Shutdown : Gen.Src.crdt_Consensus_Shutdown = Expected.crdt_Consensus_Shutdown := rfl
theorem gen_source_crdt_Consensus_SetClient : Gen.Src.crdt_Consensus_SetClient = Expected.crdt_Consensus_SetClient := rfl
theorem gen_source_crdt_Consensus_Ready : Gen.Src.crdt_Consensus_Ready = Expected.crdt_Consensus_Ready := rfl
theorem gen_source_crdt_Consensus_LogPin : Gen.Src.crdt_Consensus_LogPin = Expected.crdt_Consensus_LogPin := rfl
theorem gen_source_crdt_Consensus_LogUnpin : Gen.Src.crdt_Consensus_LogUnpin = Expected.crdt_Consensus_LogUnpin := rfl
theorem gen_source_crdt_Consensus_batchWorker : Gen.Src.crdt_Consensus_batchWorker = Expected.crdt_Consensus_batchWorker := rfl
theorem gen_source_cluster_NewCluster : Gen.Src.cluster_NewCluster = Expected.cluster_NewCluster := rfl
theorem gen_source_cluster_Cluster_run : Gen.Src.cluster_Cluster_run = Expected.cluster_Cluster_run := rfl
theorem gen_source_cluster_Cluster_ready : Gen.Src.cluster_Cluster_ready = Expected.cluster_Cluster_ready := rfl
theorem gen_source_cluster_Cluster_Ready : Gen.Src.cluster_Cluster_Ready = Expected.cluster_Cluster_Ready := rfl
theorem gen_source_cluster_Cluster_Shutdown : Gen.Src.cluster_Cluster_Shutdown = Expected.cluster_Cluster_Shutdown := rfl
theorem gen_source_cluster_Cluster_Done : Gen.Src.cluster_Cluster_Done = Expected.cluster_Cluster_Done := rfl
theorem gen_source_cluster_Cluster_watchPeers : Gen.Src.cluster_Cluster_watchPeers = Expected.cluster_Cluster_watchPeers := rfl
-- round 8b: the functions `Model/C18SyncProgs2.lean` transcribes
theorem gen_source_stateless_Tracker_pin : Gen.Src.stateless_Tracker_pin = Expected.stateless_Tracker_pin := rfl
theorem gen_source_stateless_Tracker_unpin : Gen.Src.stateless_Tracker_unpin = Expected.stateless_Tracker_unpin := rfl
theorem gen_source_stateless_Tracker_Recover : Gen.Src.stateless_Tracker_Recover = Expected.stateless_Tracker_Recover := rfl
theorem gen_source_stateless_Tracker_recoverWithPinInfo : Gen.Src.stateless_Tracker_recoverWithPinInfo = Expected.stateless_Tracker_recoverWithPinInfo := rfl
theorem gen_source_disk_Informer_SetClient : Gen.Src.disk_Informer_SetClient = Expected.disk_Informer_SetClient := rfl
theorem gen_source_disk_Informer_Shutdown : Gen.Src.disk_Informer_Shutdown = Expected.disk_Informer_Shutdown := rfl
theorem gen_source_disk_Informer_GetMetric : Gen.Src.disk_Informer_GetMetric = Expected.disk_Informer_GetMetric := rfl
theorem gen_source_numpin_Informer_SetClient : Gen.Src.numpin_Informer_SetClient = Expected.numpin_Informer_SetClient := rfl
theorem gen_source_numpin_Informer_Shutdown : Gen.Src.numpin_Informer_Shutdown = Expected.numpin_Informer_Shutdown := rfl
theorem gen_source_numpin_Informer_GetMetric : Gen.Src.numpin_Informer_GetMetric = Expected.numpin_Informer_GetMetric := rfl
theorem gen_source_metrics_NewChecker : Gen.Src.metrics_NewChecker = Expected.metrics_NewChecker := rfl
theorem gen_source_metrics_Checker_alert : Gen.Src.metrics_Checker_alert = Expected.metrics_Checker_alert := rfl
theorem gen_source_metrics_Checker_Alerts : Gen.Src.metrics_Checker_Alerts = Expected.metrics_Checker_Alerts := rfl
theorem gen_source_metrics_Checker_Watch : Gen.Src.metrics_Checker_Watch = Expected.metrics_Checker_Watch := rfl

/-! ## 4''. synchronisation beyond mutexes: channels, WaitGroups, cancellation, go statements

Proofs in `Lemmas/C18Sync.lean`; semantics in `Model/C18Sync.lean`, the three transcribed protocols in `Model/C18SyncProgs.lean`. -/

open Sync Sync.Progs in
/-- `sync_drf`: in ANY trace (any length, any number of threads), two memory accesses of different
threads that are ordered by ANY chain of program-order and synchronisation edges (mutex release →
acquisition, n-th send → n-th receive, close → receive-of-zero, `Done` → `Wait`, `cancel` →
`<-ctx.Done()`, go statement → started goroutine) are separated by a release-type event of the
first thread and a later acquire-type event (or the start) of the second — the generalisation of
`lockset_drf`'s conclusion from the lock edge to every edge kind. -/
theorem sync_drf {tr : List SEv} {i j : Nat} {ei ej : SEv} {ai aj : Tid × Sync.Loc × Bool}
    (h : HB tr i j) (hi : tr[i]? = some ei) (hj : tr[j]? = some ej) (hne : ei.tid ≠ ej.tid)
    (hai : isAccess ei = some ai) (haj : isAccess ej = some aj) :
    ∃ p q, i < p ∧ p < q ∧ q ≤ j ∧
      (∃ ep, tr[p]? = some ep ∧ ep.tid = ei.tid ∧ isRelease ep = true) ∧
      (∃ ea, tr[q]? = some ea ∧ ea.tid = ej.tid ∧
        ((isAcquire ea = true ∧ q < j) ∨ ∃ r t', p ≤ r ∧ r < q ∧ tr[r]? = some (.spawn t' ea.tid))) :=
  sync_drf_core h hi hj hne hai haj

open Sync in
/-- … in particular such accesses are never adjacent: they are not a race in the operational sense
(conflicting accesses simultaneously enabled) -/
theorem sync_ordered_not_adjacent {tr : List SEv} {i j : Nat} {ei ej : SEv} {ai aj : Tid × Sync.Loc × Bool}
    (h : HB tr i j) (hi : tr[i]? = some ei) (hj : tr[j]? = some ej) (hne : ei.tid ≠ ej.tid)
    (hai : isAccess ei = some ai) (haj : isAccess ej = some aj) : j ≠ i + 1 :=
  hb_not_adjacent h hi hj hne hai haj

open Sync in
/-- the edges are facts of the operational semantics, not conventions: in every execution a
receive-of-zero comes after a close of that channel, an observed cancellation after the cancel, an
event of a started goroutine after its go statement, and at every prefix the receives of a channel
do not outnumber its sends (so the n-th receive has its n-th send before it) -/
theorem sync_edges_operational {P : List Code} {cfg : Cfg} {init s : Nat} {sched : List Choice} {evs : List SEv}
    (hok : progOk P cfg = true) (h : run P cfg init sched = some (s, evs)) :
    (∀ (c : Chan) (t : Tid) (j : Nat), c < cfg.caps.length → dig init (oClosed cfg c) = 0 → evs[j]? = some (SEv.recvZero t c) →
        ∃ i t', i < j ∧ evs[i]? = some (SEv.close t' c))
    ∧ (∀ (k : Sync.Ctx) (t : Tid) (j : Nat), k < cfg.nCtx → dig init (oCtx cfg k) = 0 → evs[j]? = some (SEv.done t k) →
        ∃ i t', i < j ∧ evs[i]? = some (SEv.cancel t' k))
    ∧ (∀ (e : SEv) (j : Nat), evs[j]? = some e → e.tid < cfg.nT → dig init (oPc cfg e.tid) = 0 →
        ∃ i t', i < j ∧ evs[i]? = some (SEv.spawn t' e.tid))
    ∧ (∀ (c : Chan) (k : Nat), c < cfg.caps.length → cfg.caps.getD c 0 < B → dig init (oLen cfg c) = 0 →
        countBefore evs (isRecvOn c) k ≤ countBefore evs (isSendOn c) k) :=
  ⟨fun c t j hc h0 hj => recvZero_after_close hok hc h0 h hj,
   fun k t j hk h0 hj => done_after_cancel hok hk h0 h hj,
   fun e j hj hu h0 => spawned_after_spawn hok h hj hu h0,
   fun c k hc hcap h0 => recv_after_send hok hc hcap h0 h k⟩

open Sync in
/-- exhaustive exploration is sound: a set that contains the initial state, is closed under every
step of every thread and passes the three checks bounds EVERY execution: no run-time panic of a
synchronisation primitive (send on / close of a closed channel, negative WaitGroup counter, unlock
of an unlocked mutex), no deadlock (all threads finished or some thread can move), no racy state -/
theorem sync_exploration_sound {P : List Code} {cfg : Cfg} {T : NSet} {init : Nat}
    (h0 : T.mem init = true) (hc : closedB P cfg T = true) (hs : safeB P cfg T.toList = true) :
    ∀ (sched : List Choice) (s : Nat) (evs : List SEv), run P cfg init sched = some (s, evs) →
      panicCode s = 0 ∧ (allFinished P cfg s = true ∨ ∃ c : Choice, (stepC P cfg s c).isSome = true) ∧
      racyB P cfg s = false :=
  safe_all_interleavings h0 hc hs

open Sync in
/-- a panicked end state means the LAST event of the trace is that panic and no earlier one is: "no
reachable panicked state" = "no execution ever sends on a closed channel, closes a closed channel, …" -/
theorem sync_panic_is_event {P : List Code} {cfg : Cfg} (sched : List Choice) (s s' : Nat) (evs : List SEv)
    (h : run P cfg s sched = some (s', evs)) (h0 : panicCode s = 0) :
    (panicCode s' = 0 ∧ ∀ e ∈ evs, isPanic e = false) ∨
    (∃ t evs0, evs = evs0 ++ [.panic t (panicCode s')] ∧ panicCode s' ≠ 0 ∧ ∀ e ∈ evs0, isPanic e = false) :=
  run_panic sched s s' evs h h0

open Sync Sync.Progs in
/-- (a) the stateless pin tracker IN USE (constructor, `SetClient`, then `Track`/`Untrack` callers,
the `opWorker`, two concurrent `Shutdown`s), ALL interleavings (297 states): no send on a closed
channel, no double close, no deadlock, no unsynchronised access to `spt.shutdown` -/
theorem tracker_shutdown_safe : ∀ (sched : List Choice) (s : Nat) (evs : List SEv),
    run progA (cfgA 5) initA sched = some (s, evs) →
      panicCode s = 0 ∧ (allFinished progA (cfgA 5) s = true ∨ ∃ c : Choice, (stepC progA (cfgA 5) s c).isSome = true) ∧
      racyB progA (cfgA 5) s = false := progA_safe

open Sync Sync.Progs in
/-- (b) the crdt consensus component IN USE (`New`, `SetClient`, `<-Ready()`, then `LogPin` callers,
`setup`, `batchWorker`, two concurrent `Shutdown`s), ALL interleavings (390 states) -/
theorem crdt_shutdown_safe : ∀ (sched : List Choice) (s : Nat) (evs : List SEv),
    run progB (cfgB 6) initB sched = some (s, evs) →
      panicCode s = 0 ∧ (allFinished progB (cfgB 6) s = true ∨ ∃ c : Choice, (stepC progB (cfgB 6) s c).isSome = true) ∧
      racyB progB (cfgB 6) s = false := progB_safe

/-- the safety statement of one program: under EVERY schedule no run-time panic of a synchronisation primitive, no
deadlock (all threads finished or some thread can move), no racy state -/
def SafeAll (P : List Sync.Code) (cfg : Sync.Cfg) (init : Nat) : Prop :=
  ∀ (sched : List Sync.Choice) (s : Nat) (evs : List Sync.SEv), Sync.run P cfg init sched = some (s, evs) →
    Sync.panicCode s = 0 ∧
    (Sync.allFinished P cfg s = true ∨ ∃ c : Sync.Choice, (Sync.stepC P cfg s c).isSome = true) ∧
    Sync.racyB P cfg s = false

open Sync Sync.Progs in
/-- (c) FULL statement for `Cluster` (the protocol of `cluster.go` after 87856f0: `readyB` / `removed` under
`stateLock`, `Shutdown` reading both once, `readyB` set before `close(readyCh)`, failure branches of `ready()`
starting `Shutdown` with `go`): ALL interleavings of
(i) two user `Shutdown`s issued at any moment after `NewCluster` returned — in particular while `ready()` is still
running, the usage that deadlocked before the fix (K18b) — with `ready()`, `run()`, `watchPeers`, a `<-Ready()` user and
a `<-Done()` waiter (2176 states); (ii) `ready()` taking its timeout / `consensus.Peers`-error branch and starting a
`Shutdown` itself, concurrently with a user `Shutdown` (2692 states); (iii) `watchPeers` noticing the removal, setting
`removed` and starting a `Shutdown`, concurrently with a user `Shutdown` (2752 states)
are safe. In these programs no thread can move for ever (`watchPeers`' loop is unrolled once), so "not deadlocked"
is not satisfied by a spinning ticker: every maximal execution ends with every started thread finished — every
`Shutdown` returned, `Done()` released. -/
theorem cluster_shutdown_safe :
    SafeAll progC (cfgC 9) initC ∧ SafeAll progCF (cfgC 9) initC ∧ SafeAll progCR (cfgC 9) initC :=
  ⟨progC_certified.safe, progCF_certified.safe, progCR_certified.safe⟩

open Sync Sync.Progs in
/-- round 8b: scenario (c-i) with `watchPeers`' `for { select … }` loop AS WRITTEN (`progCS`, 1858 states; `progC` unrolls it
once): under every schedule no panic, no racy state, never a state where nothing can move. Round 8 had only evaluated this
program. With the loop the ticker can move until the context is cancelled, so the liveness conjunct says less than in
`cluster_shutdown_safe` — which is why both are kept: `progC` for "every Shutdown returns", `progCS` for "the unrolling
hides no panic / race of the loop program". -/
theorem cluster_shutdown_safe_loop : SafeAll progCS (cfgC 9) initC := progCS_certified.safe

open Sync Sync.Progs in
/-- the K18b window is a run of `progC`: a user `Shutdown` reaches `c.wg.Wait()` (lock, flags read once, cancel) while
`ready()` is between "consensus ready" and `c.stateLock.Lock()` -/
example : (run progC (cfgC 9) initC
    [(0,0),(0,0),(0,0),(0,0),(0,0),(0,0),(1,0),(1,0),(4,0),(4,1),(4,0),(4,0),(4,0),(4,0),(4,0),(4,0)]).isSome = true := by
  decide +kernel

/-- the statement `cluster_shutdown_safe` (i) for the protocol BEFORE 87856f0 (`progC0Old`: `readyB` / `removed` guarded
by `shutdownLock`, `ready()` taking it after `close(readyCh)`). REFUTED below: this is what a revert of the fix
reintroduces (finding K18b, fixed in /repo by 87856f0). -/
def cluster_old_protocol_safe : Prop := SafeAll Sync.Progs.progC0Old (Sync.Progs.cfgCOld 8) Sync.Progs.initCOld

open Sync Sync.Progs in
/-- the OLD protocol restricted (`ready()` leaving through `ctx.Done()`, `watchPeers` without its removal branch) was
safe (254 states): the deadlocks below need `ready()` / `watchPeers` to reach their `shutdownLock.Lock()` -/
theorem cluster_old_protocol_safe_restricted : SafeAll progC00Old (cfgCOld 8) initCOld := progC00Old_safe

open Sync Sync.Progs in
/-- K18b (fixed by 87856f0; a revert brings it back): in the OLD protocol `Cluster.Shutdown` racing `ready()` deadlocks —
`ready()` (in the goroutine counted in `c.wg`) is between `close(c.readyCh)` and `c.shutdownLock.Lock()` when a `Shutdown`
takes the lock and reaches `c.wg.Wait()`. Replayed on the real code by soak `clusterearly`. -/
theorem cluster_old_protocol_deadlocks : ¬ cluster_old_protocol_safe := by
  intro hfull
  obtain ⟨s, evs, hrun, _, hnf, hstuck⟩ := progC0Old_deadlocks
  obtain ⟨_, hlive, _⟩ := hfull schedC0Old s evs hrun
  rcases hlive with h | ⟨c, hc⟩
  · rw [h] at hnf; cases hnf
  · rw [hstuck c] at hc; cases hc

open Sync Sync.Progs in
/-- the same deadlock shape of the OLD protocol through `watchPeers` (it took `shutdownLock` in a goroutine counted in `c.wg`) -/
theorem cluster_old_watchpeers_deadlock : ∃ s evs, run progCOld (cfgCOld 8) initCOld schedCOld = some (s, evs) ∧
    panicCode s = 0 ∧ allFinished progCOld (cfgCOld 8) s = false ∧ ∀ c : Choice, stepC progCOld (cfgCOld 8) s c = none :=
  progCOld_deadlocks

open Sync Sync.Progs in
/-- realistic wrong edits of the REPAIRED protocol, refuted by one schedule each: (c1) a failure branch of `ready()`
calling `c.Shutdown(ctx)` without `go` deadlocks (`Shutdown` waits for the wait group that counts its own goroutine);
(c2) `Shutdown` keeping `stateLock` until it returns (`defer`) deadlocks with `ready()`; (c3) `ready()` writing `readyB`
without `stateLock` reaches a racy state with `Shutdown`'s read -/
theorem cluster_wrong_edits_refuted :
    (∃ s evs, run progC1 (cfgC 2) (mkInit (cfgC 2) [0]) schedC1 = some (s, evs) ∧
        panicCode s = 0 ∧ allFinished progC1 (cfgC 2) s = false ∧ ∀ c : Choice, stepC progC1 (cfgC 2) s c = none)
    ∧ (∃ s evs, run progC2 (cfgC 9) initC schedC2 = some (s, evs) ∧
        panicCode s = 0 ∧ allFinished progC2 (cfgC 9) s = false ∧ ∀ c : Choice, stepC progC2 (cfgC 9) s c = none)
    ∧ (∃ s evs, run progC3 (cfgC 9) initC schedC3 = some (s, evs) ∧ racyB progC3 (cfgC 9) s = true) :=
  ⟨progC1_deadlocks, progC2_deadlocks, progC3_racy⟩

open Sync Sync.Progs in
/-- usages OUTSIDE "in use", refuted by one schedule each: `SetClient` concurrent with `Shutdown` sends
on the closed `rpcReady` (a1, b2); a second `SetClient` blocks forever, `rpcReady` has capacity 1 and
no receiver in the tracker (a2); crdt `Shutdown` before `<-Ready()` races with `setup` on `css.crdt` (b1);
and what the mutex buys: `Shutdown` without `shutdownMu` closes `rpcReady` twice (a3) -/
theorem misuse_refuted :
    (∃ s evs, run progA1 (cfgA 2) (mkInit (cfgA 2) [0]) schedA1 = some (s, evs) ∧ panicCode s = 1 ∧ evs.getLast? = some (.panic 0 1))
    ∧ (∃ s evs, run progA2 (cfgA 1) (mkInit (cfgA 1) [0]) schedA2 = some (s, evs) ∧
        panicCode s = 0 ∧ allFinished progA2 (cfgA 1) s = false ∧ ∀ c : Choice, stepC progA2 (cfgA 1) s c = none)
    ∧ (∃ s evs, run progA3 (cfgA 3) (mkInit (cfgA 3) [0]) schedA3p = some (s, evs) ∧ panicCode s = 2 ∧ evs.getLast? = some (.panic 2 2))
    ∧ (∃ s evs, run progB1 (cfgB 4) (mkInit (cfgB 4) [0]) schedB1 = some (s, evs) ∧ racyB progB1 (cfgB 4) s = true)
    ∧ (∃ s evs, run progB2 (cfgB 2) (mkInit (cfgB 2) [0]) schedB2 = some (s, evs) ∧ panicCode s = 1 ∧ evs.getLast? = some (.panic 0 1)) :=
  ⟨progA1_panics, progA2_deadlocks, progA3_panics, progB1_racy, progB2_panics⟩

open Sync Sync.Progs in
/-- round 8b (t): the stateless tracker IN USE beyond `tracker_shutdown_safe`: BOTH workers, `spt.rpcClient` as a memory cell
(written by `SetClient` without a lock before the tracker is handed out; read by `pin` / `unpin` in the workers and by
`Status` / `Recover` in the callers), `Track` ×2 on a queue of capacity one (the full-queue arm of `enqueue` is reached, also
after `Shutdown` when no worker is left), and (i) `Recover` (status read, re-enqueue on `unpinCh`, status read) racing ONE
`Shutdown` (1179 states) / (ii) TWO concurrent `Shutdown`s (597 states): under EVERY schedule no send on a closed channel, no
double close, no deadlock (every call returns: no thread can spin in these programs), no racy state — in particular the
workers' unlocked reads of `spt.rpcClient` are ordered after `SetClient`'s write by the queue (send → receive) -/
theorem tracker_inuse_safe : SafeAll progT (cfgT 6) initT ∧ SafeAll progTS (cfgT 6) initT :=
  ⟨progT_certified.safe, progTS_certified.safe⟩

open Sync Sync.Progs in
/-- a run of `progT` in which the second `Track` meets the full queue AFTER `Shutdown` returned and the workers left
(the schedule that deadlocks the blocking-send edit `progT2`) -/
example : (run progT (cfgT 6) initT (schedT2 ++ [(3,1)])).isSome = true := by decide +kernel

open Sync Sync.Progs in
/-- round 8b (i): the informer protocol (`informer/disk`, `informer/numpin`): `SetClient` by `NewCluster`, then two `GetMetric`
callers, a `Shutdown` and a later `SetClient`, ALL interleavings (426 states): no deadlock, no racy state on `rpcClient` -/
theorem informer_protocol_safe : SafeAll progI (cfgI 5) initI := progI_certified.safe

open Sync Sync.Progs in
/-- round 8b (w): `metrics.Checker`: `Watch` (three ticks, each `CheckPeers` → `alert` = map update and NON-blocking send on
`alertCh` inside `failedPeersMu`), a direct `CheckAll` caller, the consumer of `Alerts()` and the cancellation of the context,
a queue of two for four alerts, ALL interleavings (1013 states): no deadlock — `Watch` always gets back to its `select` and
leaves through `ctx.Done()`, also when nobody drains the channel any more —, no racy state on the maps -/
theorem checker_watch_safe : SafeAll progW (cfgW 5) initW := progW_certified.safe

open Sync Sync.Progs in
/-- round 8b (q): the crdt batching queue when it is full and after `Shutdown`: three `LogPin`s of one caller on a queue of
two, `batchWorker`, two concurrent `Shutdown`s, ALL interleavings (624 states): safe; the third `LogPin` takes the
`ErrMaxQueueSizeReached` arm when `batchWorker` has left -/
theorem crdt_full_queue_safe : SafeAll progQ (cfgB 6) initB := progQ_certified.safe

open Sync Sync.Progs in
/-- round 8b: misuse and realistic wrong edits of these protocols, refuted by one schedule each:
(t1) a `Track` handed out before `SetClient` returned → racy state on `spt.rpcClient`; (t2) `enqueue` with a blocking send →
deadlock after `Shutdown` (workers gone, queue full); (t3) `Shutdown` also closing `pinCh` → a `Track` in use panics (send on
closed channel); (i1) `GetMetric` using the field again outside its critical section → racy with `Shutdown`; (i2) informer
`Shutdown` without `mu` (revert of 85a92cc) → racy; (w1) `alert` with a blocking send inside `failedPeersMu` → `Watch` stuck
for ever once the consumer left (does not stop on `ctx.Done()`); (w2) `alert` without `failedPeersMu` → racy maps;
(q1) `LogPin` with a blocking send → deadlock after `Shutdown` -/
theorem more_wrong_edits_refuted :
    (∃ s evs, run progT1 (cfgT 6) initT schedT1 = some (s, evs) ∧ racyB progT1 (cfgT 6) s = true)
    ∧ (∃ s evs, run progT2 (cfgT 6) initT schedT2 = some (s, evs) ∧
        panicCode s = 0 ∧ allFinished progT2 (cfgT 6) s = false ∧ ∀ c : Choice, stepC progT2 (cfgT 6) s c = none)
    ∧ (∃ s evs, run progT3 (cfgT 6) initT schedT3 = some (s, evs) ∧ panicCode s = 1 ∧ evs.getLast? = some (.panic 3 1))
    ∧ (∃ s evs, run progI1 (cfgI 5) initI schedI1 = some (s, evs) ∧ racyB progI1 (cfgI 5) s = true)
    ∧ (∃ s evs, run progI2 (cfgI 5) initI schedI2 = some (s, evs) ∧ racyB progI2 (cfgI 5) s = true)
    ∧ (∃ s evs, run progW1 (cfgW 5) initW schedW1 = some (s, evs) ∧
        panicCode s = 0 ∧ allFinished progW1 (cfgW 5) s = false ∧ ∀ c : Choice, stepC progW1 (cfgW 5) s c = none)
    ∧ (∃ s evs, run progW2 (cfgW 5) initW schedW2 = some (s, evs) ∧ racyB progW2 (cfgW 5) s = true)
    ∧ (∃ s evs, run progQ1 (cfgB 6) initB schedQ1 = some (s, evs) ∧
        panicCode s = 0 ∧ allFinished progQ1 (cfgB 6) s = false ∧ ∀ c : Choice, stepC progQ1 (cfgB 6) s c = none) :=
  ⟨progT1_racy, progT2_deadlocks, progT3_panics, progI1_racy, progI2_racy, progW1_deadlocks, progW2_racy, progQ1_deadlocks⟩

/-- the blocking-send edits are refutations of the corresponding `SafeAll` statements (shape of `cluster_old_protocol_deadlocks`) -/
theorem blocking_enqueue_not_safe :
    ¬ SafeAll Sync.Progs.progT2 (Sync.Progs.cfgT 6) Sync.Progs.initT ∧ ¬ SafeAll Sync.Progs.progW1 (Sync.Progs.cfgW 5) Sync.Progs.initW
      ∧ ¬ SafeAll Sync.Progs.progQ1 (Sync.Progs.cfgB 6) Sync.Progs.initB := by
  refine ⟨fun hs => ?_, fun hs => ?_, fun hs => ?_⟩
  · obtain ⟨s, evs, hrun, _, hnf, hstuck⟩ := Sync.progT2_deadlocks
    obtain ⟨_, hlive, _⟩ := hs _ s evs hrun
    rcases hlive with h | ⟨c, hc⟩
    · rw [h] at hnf; cases hnf
    · rw [hstuck c] at hc; cases hc
  · obtain ⟨s, evs, hrun, _, hnf, hstuck⟩ := Sync.progW1_deadlocks
    obtain ⟨_, hlive, _⟩ := hs _ s evs hrun
    rcases hlive with h | ⟨c, hc⟩
    · rw [h] at hnf; cases hnf
    · rw [hstuck c] at hc; cases hc
  · obtain ⟨s, evs, hrun, _, hnf, hstuck⟩ := Sync.progQ1_deadlocks
    obtain ⟨_, hlive, _⟩ := hs _ s evs hrun
    rcases hlive with h | ⟨c, hc⟩
    · rw [h] at hnf; cases hnf
    · rw [hstuck c] at hc; cases hc

/-! ## 5. the Bool clauses mean what the statement says -/

theorem nodupB_iff (l : List Nat) : nodupB l = true ↔ l.Nodup := by
  induction l with
  | nil => simp [nodupB]
  | cons a l ih => simp [nodupB, ih]

theorem list_clauses_iff (i : Input) (l : List Nat) :
    holds i (.list l) = true ↔ (0 ∉ l ∧ l.Nodup) := by
  simp [holds, clauses, noEmpty, nodupB_iff]

theorem pininfo_clauses_iff (i : Input) (st : String) (e : Bool) :
    holds i (.pininfo st e) = true ↔ (e = true → errorStatus st = true) := by
  cases e <;> simp [holds, clauses]

theorem summary_clauses_iff (i : Input) (ops torn panics stalled races : Nat) :
    holds i (.summary ops torn panics stalled races) = true ↔ (races = 0 ∧ panics = 0 ∧ stalled = 0 ∧ torn = 0) := by
  simp [holds, clauses]

/-- what the model of the alert log allows satisfies the clauses (for the driver's `allowed`) -/
theorem descFrom_good (hi n : Nat) (h : n ≤ hi) : 0 ∉ descFrom hi n ∧ (descFrom hi n).Nodup := by
  have mem : ∀ n hi x, x ∈ descFrom hi n → x ≤ hi ∧ hi < x + n := by
    intro n
    induction n with
    | zero => intro hi x hx; simp [descFrom] at hx
    | succ n ih =>
      intro hi x hx
      simp only [descFrom, List.mem_cons] at hx
      rcases hx with rfl | hx
      · omega
      · have := ih (hi - 1) x hx; omega
  refine ⟨fun h0 => ?_, ?_⟩
  · have := mem n hi 0 h0; omega
  · induction n generalizing hi with
    | zero => simp [descFrom]
    | succ n ih =>
      simp only [descFrom, List.nodup_cons]
      refine ⟨fun hx => ?_, ih (hi - 1) (by omega)⟩
      have := mem n (hi - 1) hi hx
      omega

theorem lenAfter_le (mx k : Nat) : lenAfter mx k ≤ k := by
  induction k with
  | zero => simp [lenAfter]
  | succ k ih =>
    simp only [lenAfter]
    split <;> omega

/-- every list the sequential models of the alert log and of the metrics window produce satisfies
the clauses: what the driver accepts as `allowed` is never a torn result -/
theorem model_lists_hold (i : Input) (mx cap k : Nat) :
    holds i (.list (alertsAfter mx k)) = true ∧ holds i (.list (windowAfter cap k)) = true := by
  rw [list_clauses_iff, list_clauses_iff]
  exact ⟨descFrom_good k _ (lenAfter_le mx k), descFrom_good k _ (Nat.min_le_left k cap)⟩

end CV.C18
