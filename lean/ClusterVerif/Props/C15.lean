import ClusterVerif.Spec.C15
import ClusterVerif.Gen.C15

namespace CV.C15

/-- every row of the regenerated table is loaded iff it is saved -/
theorem table_loaded_iff_saved : Gen.fields.all loadedIffSaved = true := by decide

end CV.C15
