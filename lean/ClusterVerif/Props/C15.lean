import ClusterVerif.Spec.C15
import ClusterVerif.Gen.C15

/-!
# C15 — configuration saves and loads losslessly, validates totally, hides secrets

Two layers.

1. **Kind theorems** (for *all* values of *any* Go value type `α`): for every load/save kind pair the model
   calls `lossless`, `load ∘ save ∘ load = load`, every non-zero value is settable, and the zero value means
   "keep the default" exactly for the zero-blind kinds; booleans under a zero-blind kind are settable iff the
   default is `false`; durations: only `parseDurations` on an unparsable string refuses, nothing else does.
2. **Table theorems** (`decide` over `Gen.fields`, the table regenerated from the sources on every run):
   every row is copied in and out by a lossless kind pair or is on the hand-written allow-list of the Spec,
   is loaded iff saved, omits exactly its default, hides secret-named keys, has a valid default, and can be
   set to a non-numeric zero.  The unchanged tree does **not** satisfy the full statement (`C15_full_fails`);
   `C15_partial` proves it for all rows outside the explicit exception list, and `exceptions_all_fail` shows
   every exception is a real failure of the strict row predicate, not padding.
-/
namespace CV.C15

/-! ## 1. kind theorems -/

/-- scalar kind pairs -/
def scalarPair (lk : LoadKind) (sk : SaveKind) : Bool :=
  match lk, sk with
  | .direct, .direct | .setIfNotDefault, .direct | .setIfNotDefault, .omitIfDefault
  | .zeroMeansDefault, .direct | .mergo, .direct | .copyNonEmpty, .direct => true
  | _, _ => false

/-- duration kind pairs -/
def durPair (lk : LoadKind) (sk : SaveKind) : Bool :=
  match lk, sk with
  | .parseDurations, .durString | .parseDurations, .omitIfDefaultDur
  | .parseOrZeroSIND, .durString | .parseOrZeroDirect, .durString | .emptyZeroParseDurations, .durString => true
  | _, _ => false

/-- parse/print kind pairs (single value, list, the crdt `"*"` list) and the TLS path pair -/
def codecPair (lk : LoadKind) (sk : SaveKind) : Bool :=
  match lk, sk with
  | .codecAlways, .codecPrint | .codecNonEmpty, .codecPrint | .codecNonEmpty, .codecPrintNonZero
  | .codecListAlways, .codecListPrint | .codecListNonEmpty, .codecListPrint | .codecListNonEmpty, .codecListPrintNonEmpty
  | .codecListLenient, .codecListPrint | .peerListStar, .peerListStarPrint | .tlsPath, .direct => true
  | _, _ => false

/-- `lossless` is exactly: a scalar pair, a duration pair, or the pointer pair -/
theorem lossless_cases (lk : LoadKind) (sk : SaveKind) :
    lossless lk sk = (scalarPair lk sk || durPair lk sk || codecPair lk sk || (lk == .pointerOptional && sk == .direct)) := by
  cases lk <;> cases sk <;> rfl

/-- a field that is saved but never loaded, or loaded but never saved, is never lossless
(raft `datastore_namespace` before fix 4c3cf57 was the first shape) -/
theorem lossless_needs_both (lk : LoadKind) (sk : SaveKind) (h : lossless lk sk = true) :
    lk ≠ .none ∧ sk ≠ .none ∧ lk ≠ .custom ∧ sk ≠ .custom := by
  cases lk <;> cases sk <;> simp [lossless] at h <;> simp

/-- the zero-blind copy composed with the omit-if-default save, spelled out -/
theorem sind_omit_roundtrip [DecidableEq α] (zero d j : α) :
   (if (if (if j = zero then d else j) = d then zero else (if j = zero then d else j)) = zero then d
    else (if (if j = zero then d else j) = d then zero else (if j = zero then d else j))) =
   (if j = zero then d else j) := by
  by_cases h1 : j = zero <;> simp [h1]
  by_cases h2 : j = d <;> simp [h2]

/-- **Round trip, scalars.**  LoadJSON starts from `Default()` (`cur = d`), an omit-if-default save compares
with that same default: loading what was saved after a load gives the same Config value, for every JSON
value `j` of every type. -/
theorem scalar_roundtrip [DecidableEq α] (lk : LoadKind) (sk : SaveKind) (h : scalarPair lk sk = true)
    (zero d j : α) :
    loadScalar lk zero d d (saveScalar sk zero d (loadScalar lk zero d d j)) = loadScalar lk zero d d j := by
  cases lk <;> cases sk <;> simp [scalarPair] at h <;> simp only [loadScalar, saveScalar]
  · by_cases h1 : j = zero <;> simp [h1]
  · exact sind_omit_roundtrip zero d j
  · by_cases h1 : j = zero <;> simp [h1]
  · by_cases h1 : j = zero <;> simp [h1]
  · by_cases h1 : j = zero <;> simp [h1]

/-- **No setting dropped, scalars.**  Every non-zero value arrives in the Config. -/
theorem scalar_settable [DecidableEq α] (lk : LoadKind) (sk : SaveKind) (h : scalarPair lk sk = true)
    (zero d v : α) (hv : v ≠ zero) : loadScalar lk zero d d v = v := by
  cases lk <;> cases sk <;> simp [scalarPair] at h <;> simp [loadScalar, hv]

/-- … and under `direct` the zero value too. -/
theorem direct_settable [DecidableEq α] (zero cur d v : α) : loadScalar .direct zero cur d v = v := rfl

/-- **Zero means default** for the zero-blind scalar kinds (the property's parenthesis). -/
theorem zero_means_default [DecidableEq α] (lk : LoadKind) (hb : zeroBlind lk = true) (hp : lk ≠ .parseOrZeroSIND)
    (hc : lk.isCodec = false ∨ lk = .copyNonEmpty) (zero d : α) : loadScalar lk zero d d zero = d := by
  cases lk <;> simp [zeroBlind] at hb <;> simp_all [loadScalar, LoadKind.isCodec]

/-- **Booleans under a zero-blind kind are settable iff the default is `false`.**  `false` is not a numeric
zero, so the property does not excuse it: this is the badger `truncate` / `sync_writes` defect. -/
theorem bool_settable_iff (lk : LoadKind) (hb : lk = .setIfNotDefault ∨ lk = .mergo) (d : Bool) :
    (∀ b : Bool, ∃ j : Bool, loadScalar lk false d d j = b) ↔ d = false := by
  rcases hb with h | h <;> subst h <;> cases d <;> simp [loadScalar]

/-- the same for a value arriving later (environment variable over a loaded `true`) -/
theorem bool_true_sticks (lk : LoadKind) (hb : lk = .setIfNotDefault ∨ lk = .mergo) (d j : Bool) :
    loadScalar lk false true d j = true := by
  rcases hb with h | h <;> subst h <;> cases j <;> simp [loadScalar]

/-- **Round trip, durations** (time.ParseDuration ∘ String = id is the trusted part, see `DurJ`). -/
theorem dur_roundtrip (lk : LoadKind) (sk : SaveKind) (h : durPair lk sk = true) (cur : Int) (j : DurJ) (v : Int)
    (hl : loadDur lk cur j = some v) : loadDur lk cur (saveDur sk cur v) = some v := by
  cases lk <;> cases sk <;> simp [durPair] at h <;> cases j <;> simp_all [loadDur, saveDur]
  · by_cases hv : v = cur <;> simp [hv]
  · intro h0; split at hl <;> omega

/-- **No setting dropped, durations**: every non-zero duration arrives. -/
theorem dur_settable (lk : LoadKind) (sk : SaveKind) (h : durPair lk sk = true) (cur d : Int) (hd : d ≠ 0) :
    loadDur lk cur (.ok d) = some d := by
  cases lk <;> cases sk <;> simp [durPair] at h <;> simp [loadDur, hd]

/-- a zero duration is kept by `ParseDurations` ("0s" is honoured: cluster `mdns_interval`), replaced by the
current value under `SetIfNotDefault` (raft) -/
theorem dur_zero (cur : Int) :
    loadDur .parseDurations cur (.ok 0) = some 0 ∧ loadDur .parseOrZeroSIND cur (.ok 0) = some cur ∧
    loadDur .parseOrZeroDirect cur (.ok 0) = some 0 ∧
    loadDur .emptyZeroParseDurations cur (.ok 0) = some 0 ∧ loadDur .emptyZeroParseDurations cur .empty = some 0 := by
  simp [loadDur]

/-- **Refusal is an error value, and only for an unparsable string under a checked ParseDurations.** -/
theorem dur_refuses_only_bad (lk : LoadKind) (cur : Int) (j : DurJ) (h : loadDur lk cur j = none) :
    (lk = .parseDurations ∨ lk = .emptyZeroParseDurations) ∧ j = .bad := by
  cases j <;> cases lk <;> simp_all [loadDur]

/-- pointer settings: absent keeps the current value, anything else (zero included) is taken -/
theorem ptr_roundtrip (cur : α) (j : Option α) : loadPtr cur (savePtr (loadPtr cur j)) = loadPtr cur j := by
  cases j <;> rfl

theorem ptr_settable (cur v : α) : loadPtr cur (some v) = v := rfl

/-- what a checked `ParseDurations` does when it reports no error: every entry that carries a duration is
taken, the empty ones keep their value -/
def durTaken : DurJ × Int → Int
  | (.ok d, _) => d
  | (_, cur) => cur

theorem parseDurations_no_error (l : List (DurJ × Int)) (h : (parseDurations l).2 = false) :
    (parseDurations l).1 = l.map durTaken := by
  induction l with
  | nil => rfl
  | cons a rest ih =>
    obtain ⟨j, cur⟩ := a
    cases j <;> simp_all [parseDurations, durTaken]

/-- … and when it does report one, the caller must look: a caller that does not (`parseDurationsUnchecked`) lets a
well-formed entry after an unparsable one is dropped without an error.  This was the crdt defect repaired by
/repo commit 639679f; the kind stays in the model so that a regression is classified, and is never lossless. -/
theorem parseDurations_unchecked_drops :
    ∃ l : List (DurJ × Int), (parseDurations l).2 = true ∧ (parseDurations l).1 ≠ l.map durTaken := by
  refine ⟨[(.bad, 60), (.ok 5, 0)], ?_⟩
  decide


/-! ## 1b. settings that go through a parser and a printer

Generic in the JSON-level type `J`, the Config-level type `C` and the codec.  The library codecs (multiaddress,
peer ID, hex secret, base64 key) are trusted to satisfy `RoundTrips` — exactly like `time.ParseDuration ∘ String`;
for the enumeration codec it is proved from the regenerated tables (`table_enum_roundtrips`). -/
section CodecKinds
set_option linter.unusedSectionVars false
variable {J C : Type} [DecidableEq J] [DecidableEq C]

theorem leftInv_roundTrips (cd : Codec J C) (h : cd.LeftInv) : cd.RoundTrips := fun _ c _ => h c

/-- `codecAlways` / `codecPrint`: whatever was accepted is reproduced by save → load -/
theorem codec_always_roundtrip (cd : Codec J C) (h : cd.RoundTrips) (empty : J) (unset cur cur' v : C) (j : J)
    (hl : loadCodec .codecAlways cd empty cur j = some v) :
    loadCodec .codecAlways cd empty cur' (saveCodec .codecPrint cd empty unset v) = some v := by
  simp only [loadCodec, saveCodec] at *
  exact h j v hl

/-- `codecNonEmpty` / `codecPrint` (ipfsproxy `node_multiaddress`): "" keeps the current value, which `Default()`
obtained from the parser (`hcur`); the empty string itself is not a parsable value (`hempty`) -/
theorem codec_nonempty_roundtrip (cd : Codec J C) (h : cd.RoundTrips) (empty : J) (unset cur v : C) (j : J)
    (hempty : cd.parse empty = none) (hcur : cd.parse (cd.print cur) = some cur)
    (hl : loadCodec .codecNonEmpty cd empty cur j = some v) :
    loadCodec .codecNonEmpty cd empty cur (saveCodec .codecPrint cd empty unset v) = some v := by
  simp only [loadCodec, saveCodec] at *
  by_cases hj : j = empty
  · simp [hj] at hl; subst hl
    by_cases hp : cd.print cur = empty
    · simp [hp]
    · simp [hp, hcur]
  · simp [hj] at hl
    have h2 := h j v hl
    have hp : cd.print v ≠ empty := fun he => by rw [he, hempty] at h2; cases h2
    simp [hp, h2]

/-- `codecNonEmpty` / `codecPrintNonZero` (restapi `id`, `private_key`): the default is "not configured", which
is saved as "" and comes back as "not configured"; the parser never yields that value (`hunset`) -/
theorem codec_nonempty_nonzero_roundtrip (cd : Codec J C) (h : cd.RoundTrips) (empty : J) (unset v : C) (j : J)
    (hempty : cd.parse empty = none) (hunset : ∀ j, cd.parse j ≠ some unset)
    (hl : loadCodec .codecNonEmpty cd empty unset j = some v) :
    loadCodec .codecNonEmpty cd empty unset (saveCodec .codecPrintNonZero cd empty unset v) = some v := by
  simp only [loadCodec, saveCodec] at *
  by_cases hj : j = empty
  · simp [hj] at hl; subst hl; simp
  · simp [hj] at hl
    have hv : v ≠ unset := fun he => hunset j (he ▸ hl)
    have h2 := h j v hl
    have hp : cd.print v ≠ empty := fun he => by rw [he, hempty] at h2; cases h2
    simp [hv, hp, h2]

/-- **settable**: every well-formed (parsable) non-empty text arrives as the value it denotes -/
theorem codec_settable (lk : LoadKind) (hk : lk = .codecAlways ∨ lk = .codecNonEmpty) (cd : Codec J C)
    (empty : J) (cur c : C) (j : J) (hp : cd.parse j = some c) (hne : j ≠ empty) :
    loadCodec lk cd empty cur j = some c := by
  rcases hk with h | h <;> subst h <;> simp [loadCodec, hp, hne]

/-- refusal is an error value and happens only for a text the parser rejects -/
theorem codec_refuses_only_unparsable (lk : LoadKind) (cd : Codec J C) (empty : J) (cur : C) (j : J)
    (h : loadCodec lk cd empty cur j = none) : cd.parse j = none ∧ (lk = .codecAlways ∨ lk = .codecNonEmpty) := by
  cases lk <;> simp [loadCodec] at h ⊢
  · exact h
  · by_cases hj : j = empty <;> simp [hj] at h; exact h

/-- **accepted ⇒ the row's own Validate conjunct** (`cfg.G == nil` rejected): what the loader leaves in the field
is the value `Default()` put there or a value the parser produced — never the unset value when the default is set -/
theorem codec_accept_valid (lk : LoadKind) (cd : Codec J C) (empty : J) (unset cur v : C) (j : J)
    (hunset : ∀ j, cd.parse j ≠ some unset) (hcur : cur ≠ unset ∨ lk = .codecAlways)
    (hk : lk = .codecAlways ∨ lk = .codecNonEmpty) (hl : loadCodec lk cd empty cur j = some v) : v ≠ unset := by
  rcases hk with h | h <;> subst h <;> simp only [loadCodec] at hl
  · exact fun he => hunset j (he ▸ hl)
  · by_cases hj : j = empty
    · simp [hj] at hl; subst hl; rcases hcur with h | h
      · exact h
      · cases h
    · simp [hj] at hl; exact fun he => hunset j (he ▸ hl)

/-! ### lists -/

theorem parseList_length (cd : Codec J C) : ∀ (j : List J) (l : List C), parseList cd j = some l → l.length = j.length
  | [], l, h => by simp [parseList] at h; subst h; rfl
  | a :: rest, l, h => by
    simp only [parseList] at h
    cases hp : cd.parse a with
    | none => simp [hp] at h
    | some c =>
      cases hr : parseList cd rest with
      | none => simp [hp, hr] at h
      | some l' =>
        simp [hp, hr] at h; subst h
        simp [parseList_length cd rest l' hr]

theorem parseList_roundtrips (cd : Codec J C) (h : cd.RoundTrips) :
    ∀ (j : List J) (l : List C), parseList cd j = some l → parseList cd (l.map cd.print) = some l
  | [], l, hl => by simp [parseList] at hl; subst hl; rfl
  | a :: rest, l, hl => by
    simp only [parseList] at hl
    cases hp : cd.parse a with
    | none => simp [hp] at hl
    | some c =>
      cases hr : parseList cd rest with
      | none => simp [hp, hr] at hl
      | some l' =>
        simp [hp, hr] at hl; subst hl
        simp [parseList, h a c hp, parseList_roundtrips cd h rest l' hr]

/-- every entry parses ⇒ the list is taken entry by entry (settable) -/
theorem parseList_all (cd : Codec J C) (h : cd.LeftInv) (l : List C) : parseList cd (l.map cd.print) = some l := by
  induction l with
  | nil => rfl
  | cons c rest ih => simp [parseList, h c, ih]

/-- all four all-or-nothing list pairs: accepted ⇒ save → load gives the same list.  For the `NonEmpty` load
an empty list keeps the current value `cur` (the default), and printing then loading `cur` needs `cur` to be
parser-made (`hcur`); a saved list that is empty is omitted or written as `[]`, which is the same JSON-level value. -/
theorem codecList_roundtrip (lk : LoadKind) (sk : SaveKind)
    (hk : lk = .codecListAlways ∨ lk = .codecListNonEmpty) (cd : Codec J C) (h : cd.RoundTrips)
    (cur v : List C) (j : List J) (hcur : parseList cd (cur.map cd.print) = some cur)
    (hl : loadCodecList lk cd cur j = some v) :
    loadCodecList lk cd cur (saveCodecList sk cd v) = some v := by
  rcases hk with hk | hk <;> subst hk <;> simp only [loadCodecList, saveCodecList] at *
  · exact parseList_roundtrips cd h j v hl
  · by_cases hj : j.isEmpty = true
    · simp [hj] at hl; subst hl
      by_cases hc : (List.map cd.print cur).isEmpty = true
      · simp [hc]
      · simp [hc, hcur]
    · simp [hj] at hl
      have hlen := parseList_length cd j v hl
      have hv : (List.map cd.print v).isEmpty = false := by
        cases v with
        | nil => cases j with
          | nil => simp at hj
          | cons _ _ => simp at hlen
        | cons _ _ => simp
      simp [hv, parseList_roundtrips cd h j v hl]

/-- the empty list cannot be written over a non-empty default under the `NonEmpty` load (finding K12 for
restapi `http_listen_multiaddress` and ipfsproxy `listen_multiaddress`); under `codecListAlways` it can -/
theorem codecList_empty (cd : Codec J C) (cur : List C) :
    loadCodecList .codecListNonEmpty cd cur [] = some cur ∧ loadCodecList .codecListAlways cd cur [] = some [] := by
  simp [loadCodecList, parseList]

/-- raft `init_peerset` (`api.StringsToPeers`): undecodable entries are skipped, never refused; what was kept is
reproduced -/
theorem codecList_lenient_roundtrip (cd : Codec J C) (h : cd.RoundTrips) (cur cur' : List C) (j : List J) (sk : SaveKind) :
    ∃ v, loadCodecList .codecListLenient cd cur j = some v ∧
      loadCodecList .codecListLenient cd cur' (saveCodecList sk cd v) = some v := by
  refine ⟨j.filterMap cd.parse, rfl, ?_⟩
  simp only [loadCodecList, saveCodecList, Option.some.injEq]
  induction j with
  | nil => rfl
  | cons a rest ih =>
    cases hp : cd.parse a with
    | none => simpa [List.filterMap_cons, hp] using ih
    | some c => simp [List.filterMap_cons, hp, h a c hp]; simpa using ih

/-! ### crdt `trusted_peers` with `"*"` -/

/-- the loader yields either (TrustAll, no list) or (not TrustAll, the decoded list) -/
theorem star_shape (cd : Codec J C) (star : J) : ∀ (j : List J) (r : Bool × List C),
    loadStar cd star j = some r → r.1 = true → r.2 = []
  | [], r, h, ht => by simp [loadStar] at h; subst h; simp at ht
  | p :: rest, r, h, ht => by
    simp only [loadStar] at h
    by_cases hp : p = star
    · simp [hp] at h; subst h; rfl
    · simp only [hp, if_false] at h
      cases hc : cd.parse p with
      | none => simp [hc] at h
      | some c =>
        cases hr : loadStar cd star rest with
        | none => simp [hc, hr] at h
        | some r' =>
          obtain ⟨b, l⟩ := r'
          cases b <;> simp [hc, hr] at h <;> subst h
          · simp at ht
          · rfl

theorem star_print_list (cd : Codec J C) (h : cd.LeftInv) (star : J) (hstar : cd.parse star = none) (l : List C) :
    loadStar cd star (l.map cd.print) = some (false, l) := by
  induction l with
  | nil => rfl
  | cons c rest ih =>
    have hne : cd.print c ≠ star := fun he => by have := h c; rw [he, hstar] at this; cases this
    simp [loadStar, hne, h c, ih]

/-- **round trip**: `"*"` is not a peer ID (`hstar`), so a saved list never turns into TrustAll and `["*"]` comes
back as TrustAll with an empty list — the C07 reading of `trusted_peers` -/
theorem star_roundtrip (cd : Codec J C) (h : cd.LeftInv) (star : J) (hstar : cd.parse star = none)
    (j : List J) (r : Bool × List C) (hl : loadStar cd star j = some r) :
    loadStar cd star (saveStar cd star r) = some r := by
  obtain ⟨b, l⟩ := r
  cases b
  · simpa [saveStar] using star_print_list cd h star hstar l
  · have := star_shape cd star j (true, l) hl rfl
    simp at this; subst this
    simp [saveStar, loadStar]

/-- `"*"` first (or after decodable entries) means trust everybody, whatever follows it -/
theorem star_trust_all (cd : Codec J C) (star : J) (pre : List C) (post : List J) (h : cd.LeftInv)
    (hstar : cd.parse star = none) :
    loadStar cd star (pre.map cd.print ++ star :: post) = some (true, []) := by
  induction pre with
  | nil => simp [loadStar]
  | cons c rest ih =>
    have hne : cd.print c ≠ star := fun he => by have := h c; rw [he, hstar] at this; cases this
    simp [loadStar, hne, h c, ih]

end CodecKinds

/-! ### enumerations: the codec law is proved over the regenerated tables -/

/-- the load `switch` and the `String()` method are inverse to each other, entry by entry -/
def enumTablesInverse (loadT saveT : List (String × String)) : Bool :=
  loadT.all (fun (s, c) => lookup saveT c == some s && lookup loadT s == some c) &&
  saveT.all (fun (c, s) => lookup loadT s == some c)

theorem enum_roundtrips (loadT saveT : List (String × String)) (h : enumTablesInverse loadT saveT = true) :
    (enumCodec loadT saveT).RoundTrips := by
  intro j c hj
  simp only [enumCodec, lookup] at hj ⊢
  simp only [enumTablesInverse, Bool.and_eq_true, List.all_eq_true] at h
  cases hf : List.find? (fun x => x.1 == j) loadT with
  | none => simp [hf] at hj
  | some e =>
    simp [hf] at hj
    have hmem := List.mem_of_find?_eq_some hf
    have hkey : e.1 = j := by simpa using List.find?_some hf
    have := h.1 e hmem
    obtain ⟨s, c'⟩ := e
    simp only at hj hkey
    subst hj; subst hkey
    simp only [lookup, Bool.and_eq_true, beq_iff_eq] at this
    rw [this.1]; simpa [lookup] using this.2

/-- closed set: a text outside the load table is refused (no default is substituted) -/
theorem enum_closed (loadT saveT : List (String × String)) (s : String)
    (h : loadT.all (fun e => e.1 != s) = true) :
    loadCodec .codecAlways (enumCodec loadT saveT) "" "" s = none := by
  simp only [loadCodec, enumCodec, lookup, Option.map_eq_none_iff, List.find?_eq_none]
  intro e he
  have := List.all_eq_true.mp h e he
  simpa using this

/-! ### restapi TLS path pair -/

/-- the texts written in the file are what is saved (not the resolved paths), and a fresh object with the same
base directory and file system accepts the saved form and ends in the same state -/
theorem tls_roundtrip (isAbs : String → Bool) (join : String → String → String) (fs : String → String → Bool)
    (base cert key : String) (s : TLSState)
    (hl : loadTLS isAbs join fs base ⟨"", "", false⟩ cert key = some s) :
    (cert ++ key ≠ "" → saveTLS s = (cert, key)) ∧
    loadTLS isAbs join fs base ⟨"", "", false⟩ (saveTLS s).1 (saveTLS s).2 = some s := by
  simp only [loadTLS, saveTLS] at *
  by_cases he : cert ++ key = ""
  · simp [he] at hl; subst hl; simp [he]
  · simp only [he, if_false] at hl
    by_cases hf : fs (resolvePath isAbs join base cert) (resolvePath isAbs join base key) = true
    · simp [hf] at hl; subst hl; simp [he, hf]
    · simp [hf] at hl

/-- an absolute path is used as it is; a relative one is joined with the base directory exactly once -/
theorem tls_resolved_once (isAbs : String → Bool) (join : String → String → String) (base p : String) :
    resolvePath isAbs join base p = (if isAbs p then p else join base p) := rfl

/-! ### integer seconds: a lossy save, and exactly what it loses -/

theorem seconds_loses_subsecond (v : Int) : loadSeconds (saveSeconds v) = v - v.tmod nsPerSec := by
  have := Int.mul_tdiv_add_tmod v nsPerSec
  simp only [loadSeconds, saveSeconds]
  rw [Int.mul_comm]; omega

theorem seconds_lossless_iff (v : Int) : loadSeconds (saveSeconds v) = v ↔ v.tmod nsPerSec = 0 := by
  rw [seconds_loses_subsecond]; omega

/-- 1.5 s saved as integer seconds comes back as 1 s: `durSeconds` is not a lossless save kind -/
theorem seconds_not_lossless : ∃ v : Int, loadSeconds (saveSeconds v) ≠ v ∧ ∀ lk, lossless lk .durSeconds = false := by
  refine ⟨1500000000, by decide, ?_⟩
  intro lk; cases lk <;> rfl

/-- the model's prediction for a scalar row keeps every non-zero value it accepts (so a correspondence
`ok` on a lossless row implies the Spec's `preserved` for it) -/
theorem predict_scalar_keeps (f : Field) (cur val eff got : Const) (hl : scalarPair f.load f.save = true)
    (hp : predictScalar f cur val = .accept eff got) (hv : val ≠ f.ty.zero) : eff = val := by
  have hload : loadScalar f.load f.ty.zero cur f.dflt val = val := by
    revert hl; cases f.load <;> cases f.save <;> simp_all [scalarPair, loadScalar]
  have hnp : (f.load == LoadKind.pointerOptional) = false := by
    revert hl; cases f.load <;> cases f.save <;> simp [scalarPair]
  unfold predictScalar at hp
  simp only [hnp, hload] at hp
  repeat' split at hp
  all_goals first | (injection hp with h1 h2; exact h1.symm) | (simp at hp) | skip
  all_goals simp_all

/-! ## the Bool checker says what the property says -/

theorem holds_iff (i : Input) (o : Output) :
    holds i o = true ↔
      o.res ≠ "panic" ∧
      (i.kind = .dflt → o.res = "ok" ∧ o.valid = true) ∧
      (o.res = "ok" → o.valid = true) ∧
      (o.res = "ok" → o.fix = true ∧ (o.eff = "-" ∨ o.eff2 = o.eff)) ∧
      (o.res = "ok" → i.kind = .set → preservedOK i o = true) ∧
      o.leak = false := by
  simp only [holds, clauses, List.all_cons, List.all_nil, Bool.and_true, Bool.and_eq_true]
  constructor
  · rintro ⟨h1, h2, h3, h4, h5, h6⟩
    refine ⟨by simpa using h1, ?_, ?_, ?_, ?_, by simpa using h6⟩
    · intro hk; simp [hk] at h2; exact h2
    · intro hr; simp [hr] at h3; exact h3
    · intro hr; simp [hr] at h4; exact h4
    · intro hr hk; simp [hr, hk] at h5; exact h5
  · rintro ⟨h1, h2, h3, h4, h5, h6⟩
    refine ⟨by simpa using h1, ?_, ?_, ?_, ?_, by simpa using h6⟩
    · by_cases hk : i.kind = .dflt
      · have := h2 hk; simp [hk, this.1, this.2]
      · simp [hk]
    · by_cases hr : o.res = "ok"
      · simp [hr, h3 hr]
      · simp [hr]
    · by_cases hr : o.res = "ok"
      · have := h4 hr; simp [hr, this.1]; exact this.2
      · simp [hr]
    · by_cases hr : o.res = "ok"
      · by_cases hk : i.kind = .set
        · have := h5 hr hk; simp [hr, hk, this]
        · simp [hk]
      · simp [hr]

/-! ## 2. table theorems (re-decided on every run over the regenerated `Gen.fields`) -/

/-- the default of a row passes the row's own Validate conjuncts -/
def defaultValid (f : Field) : Bool :=
  match f.dflt.num? with
  | some n => !rejected f.rej n
  | none => match f.dflt with
    | .str "" => !(f.rej.any fun (o, c) => o == .eq && c == .str "")
    | _ => true

/-- everything the property demands of the way one setting is copied in and out -/
def rowStrict (f : Field) : Bool :=
  (lossless f.load f.save || allowed f) &&
  loadedIffSaved f &&
  (!(lossless f.load f.save) || f.sameField) &&
  (!(f.save == .omitIfDefault || f.save == .omitIfDefaultDur) || (f.omitC != .unknown && f.omitC == f.dflt)) &&
  secretHidden f &&
  defaultValid f &&
  -- a zero that is not numeric/duration must be settable: zero-blind kinds need a zero default; the empty
  -- string is not a well-formed multiaddress / peer ID / key, so a single-value codec row owes nothing for it
  (zeroExcused f.ty || !zeroBlind f.load || f.dflt == f.ty.zero || f.load == .codecNonEmpty) &&
  -- a parse/print kind names its codec, and a hidden tag is where DisplayJSON looks for it
  ((f.load.isCodec && f.load != .tlsPath && f.load != .copyNonEmpty) == (f.codec != .none)) &&
  !f.hiddenNested

def sectionStrict (s : Section) : Bool :=
  s.loadEndsWithValidate && (s.loadStartsFromDefault || s.name == "identity")

/-- the full statement over today's sources -/
def C15_full : Prop :=
  Gen.fields.all rowStrict = true ∧ Gen.sections.all sectionStrict = true ∧
  Gen.displayReplacesHidden = true ∧ Gen.managerLoadEndsWithValidate = true

/-- Rows of the unchanged tree that fail `rowStrict`, with the reason.  `defect`: the code contradicts the
property (findings K11/K12); `library`: the default comes from a library constructor the translator
cannot see, so settable-to-zero cannot be decided from the sources (the correspondence run sweeps them). -/
def exceptions : List (String × String × String) := [
  ("badger", "badger_options.truncate", "defect K11: default true, mergo cannot write false"),
  ("badger", "badger_options.sync_writes", "defect K11: library default true, mergo cannot write false"),
  ("badger", "badger_options.read_only", "library default (false) not visible"),
  ("badger", "badger_options.dir", "library default (\"\") not visible"),
  ("badger", "badger_options.value_dir", "library default (\"\") not visible"),
  ("ipfsproxy", "node_https", "defect K11: Default() does not reset NodeHTTPS, SetIfNotDefault cannot write false"),
  ("cluster", "peername", "defect K12: default is the host name, \"\" falls back to it"),
  ("raft", "datastore_namespace", "defect K12: \"\" falls back to \"/r\""),
  ("crdt", "cluster_name", "defect K12: \"\" falls back to the default instead of being refused"),
  ("crdt", "peerset_metric", "defect K12: \"\" falls back to \"ping\" instead of being refused"),
  ("crdt", "datastore_namespace", "defect K12: \"\" falls back to \"/c\""),
  ("ipfsproxy", "extract_headers_path", "defect K12: \"\" falls back to the default instead of being refused"),
  ("badger", "folder", "defect K12: \"\" falls back to \"badger\" instead of being refused"),
  ("leveldb", "folder", "defect K12: \"\" falls back to \"leveldb\" instead of being refused"),
  ("restapi", "http_listen_multiaddress", "defect K12: [] keeps the default address (len(x) > 0 guard)"),
  ("ipfsproxy", "listen_multiaddress", "defect K12: [] keeps the default address (len(x) > 0 guard) instead of being refused") ]

def excepted (f : Field) : Bool := exceptions.any fun (s, p, _) => s == f.sec && p == f.path

/-- **Main table theorem**: every row outside the exception list meets the strict row predicate, and the
structural facts hold for every section. -/
theorem C15_partial :
    (∀ f ∈ Gen.fields, excepted f = false → rowStrict f = true) ∧
    Gen.sections.all sectionStrict = true ∧
    Gen.displayReplacesHidden = true ∧ Gen.managerLoadEndsWithValidate = true := by
  refine ⟨?_, by decide, by decide, by decide⟩
  have h : Gen.fields.all (fun f => excepted f || rowStrict f) = true := by decide
  intro f hf he
  have := List.all_eq_true.mp h f hf
  simpa [he] using this

/-- the exception list is exact: each excepted row really fails, and names a row that exists -/
theorem exceptions_all_fail :
    Gen.fields.all (fun f => !excepted f || !rowStrict f) = true ∧
    exceptions.all (fun (s, p, _) => Gen.fields.any fun f => f.sec == s && f.path == p) = true := by
  constructor <;> decide

/-- the unchanged tree does not satisfy the full statement (witness: badger `truncate`) -/
theorem C15_full_fails : ¬ C15_full := by
  intro h
  have h1 := h.1
  revert h1
  decide

/-- nothing is saved without being loaded or loaded without being saved — no exceptions
(fails if fix 4c3cf57, raft `datastore_namespace`, is reverted) -/
theorem table_loaded_iff_saved : Gen.fields.all loadedIffSaved = true := by decide

/-- every key named like a secret carries `hidden:"true"` in every displayable section, and DisplayJSON
still replaces hidden fields — no exceptions -/
theorem table_secrets_hidden :
    Gen.fields.all secretHidden = true ∧ Gen.displayReplacesHidden = true := by
  constructor <;> decide

/-- every `custom`/`none` row is on the Spec's allow-list and every allow-list entry names such a row -/
theorem allowList_exact :
    Gen.fields.all (fun f => !(f.load == .custom || f.save == .custom || f.load == .none) || allowed f) = true ∧
    allowList.all (fun (s, p, _) => Gen.fields.any fun f =>
      f.sec == s && f.path == p && !(lossless f.load f.save)) = true := by
  constructor <;> decide

/-- every enumeration of the sources: the load `switch` and the `String()` method are inverse tables, hence
(`enum_roundtrips`) the enum codec round-trips; and every enum-codec row has its tables -/
theorem table_enum_roundtrips :
    Gen.enums.all (fun (_, lt, st) => enumTablesInverse lt st && !lt.isEmpty) = true ∧
    Gen.fields.all (fun f => f.codec != .enum || Gen.enums.any (fun (s, _, _) => s == f.sec)) = true := by
  constructor <;> decide

/-- the cluster secret is hex of exactly 0 (no secret) or 32 bytes: anything else is refused -/
theorem table_secret_lengths : Gen.secretLens = [0, 32] := by decide

/-- no `hidden:"true"` tag sits below the top level of a JSON struct, where `DisplayJSON` would not see it -/
theorem table_no_nested_hidden : Gen.fields.all (fun f => !f.hiddenNested) = true := by decide

/-- every default the translator can see passes the Validate conjuncts it can see -/
theorem table_defaults_valid : Gen.fields.all defaultValid = true := by decide

/-- a concrete non-trivial row meets the hypotheses of the kind theorems -/
example : ∃ f ∈ Gen.fields, f.path = "datastore_namespace" ∧ f.sec = "raft" ∧ scalarPair f.load f.save = true ∧
    f.omitC = f.dflt := by decide

set_option maxRecDepth 20000 in
example : (Gen.fields.filter (fun f => lossless f.load f.save)).length ≥ 100 := by decide

set_option maxRecDepth 20000 in
example : (Gen.fields.filter (fun f => codecPair f.load f.save)).length ≥ 19 := by decide

/-- the enum codec of the disk informer meets the hypothesis of the codec theorems -/
example : (enumCodec [("reposize", "MetricRepoSize"), ("freespace", "MetricFreeSpace")]
    [("MetricFreeSpace", "freespace"), ("MetricRepoSize", "reposize")]).RoundTrips :=
  enum_roundtrips _ _ (by decide)


/-! ## 2b. `Validate()` as a conjunction with guards and cross-field conjuncts -/

theorem validate_reject_iff (e : Env) (cs : List Conj) :
    validate e cs = .reject ↔ ∃ c ∈ cs, c.fires e = some true := by
  unfold validate
  cases h : cs.any (fun c => c.fires e == some true) with
  | true =>
    simp only [if_true, true_iff]
    obtain ⟨c, hc, hf⟩ := List.any_eq_true.mp h
    exact ⟨c, hc, by simpa using hf⟩
  | false =>
    cases h3 : cs.all (fun c => c.fires e == some false) <;>
      simp only [Bool.false_eq_true, if_false, if_true, reduceCtorEq, false_iff] <;>
      (rintro ⟨c, hc, hf⟩
       have hb : (c.fires e == some true) = true := by simp [hf]
       have : cs.any (fun c => c.fires e == some true) = true := List.any_eq_true.mpr ⟨c, hc, hb⟩
       rw [h] at this; cases this)

theorem validate_accept_iff (e : Env) (cs : List Conj) :
    validate e cs = .accept ↔ ∀ c ∈ cs, c.fires e = some false := by
  unfold validate
  cases h : cs.any (fun c => c.fires e == some true) with
  | true =>
    simp only [if_true, reduceCtorEq, false_iff]
    intro h2
    obtain ⟨c, hc, hf⟩ := List.any_eq_true.mp h
    have := h2 c hc
    simp [this] at hf
  | false =>
    cases h3 : cs.all (fun c => c.fires e == some false) with
    | true =>
      simp only [Bool.false_eq_true, if_false, if_true, true_iff]
      intro c hc; simpa using List.all_eq_true.mp h3 c hc
    | false =>
      simp only [Bool.false_eq_true, if_false, reduceCtorEq, false_iff]
      intro h2
      have : cs.all (fun c => c.fires e == some false) = true :=
        List.all_eq_true.mpr (fun c hc => by simp [h2 c hc])
      rw [h3] at this; cases this

/-- **LoadJSON accepts ⇒ Validate holds** for every modelled conjunct: no conjunct fires on what was loaded -/
theorem load_accept_valid (applied : Option Env) (cs : List Conj) (e : Env) (h : loadSection applied cs = some e) :
    applied = some e ∧ validate e cs ≠ .reject ∧ ∀ c ∈ cs, c.fires e ≠ some true := by
  cases applied with
  | none => simp [loadSection] at h
  | some e' =>
    simp only [loadSection] at h
    by_cases hv : validate e' cs = .reject
    · simp [hv] at h
    · simp [hv] at h; subst h
      refine ⟨rfl, hv, fun c hc hf => hv ((validate_reject_iff _ _).mpr ⟨c, hc, hf⟩)⟩

/-- … and what Validate rejects is refused at load time (an error value, `none`) -/
theorem load_refuses_rejected (cs : List Conj) (e : Env) (h : validate e cs = .reject) :
    loadSection (some e) cs = none := by
  simp [loadSection, h]

/-- a conjunct over two integer fields fires exactly on its side of the boundary -/
theorem cmp_two_fields (e : Env) (a b : String) (x y : Int) (o : Op)
    (ha : e.get ("f:" ++ a) = .int x) (hb : e.get ("f:" ++ b) = .int y) :
    (Cond.cmp (.fld a) o (.fld b)).eval e = some (o.holds x y) := by
  simp [Cond.eval, Tm.eval, ha, hb, cmpVal]

/-- a conjunct whose guard is off never fires, whatever its condition (metrics/tracing when disabled) -/
theorem guard_off (e : Env) (c : Conj) (g : Cond) (h : c.guard = some g) (hg : g.eval e = some false) :
    c.fires e = some false := by
  simp [Conj.fires, h, hg, and3]

/-- with the guard on, the conjunct is its condition -/
theorem guard_on (e : Env) (c : Conj) (g : Cond) (h : c.guard = some g) (hg : g.eval e = some true) (b : Bool)
    (hc : c.cond.eval e = some b) : c.fires e = some b := by
  cases b <;> simp [Conj.fires, h, hg, hc, and3]

/-- the `low_water > high_water` conjunct of the cluster section, on both sides of its boundary -/
example : validate [("f:A", .int 5), ("f:B", .int 5)] [{ guard := none, cond := .cmp (.fld "A") .gt (.fld "B") }] = .accept ∧
    validate [("f:A", .int 6), ("f:B", .int 5)] [{ guard := none, cond := .cmp (.fld "A") .gt (.fld "B") }] = .reject := by decide

/-- **defaults validate, cross-field and guarded conjuncts included**: for no section does a conjunct fire on the
values `Default()` gives; for the sections all of whose conjuncts read evident defaults the verdict is `accept` -/
theorem table_defaults_validate :
    Gen.validates.all (fun (_, cs, env) => validate env cs != .reject) = true ∧
    (Gen.validates.filter (fun (_, cs, env) => validate env cs == .accept)).length ≥ 8 ∧
    Gen.validates.length = Gen.sections.length := by
  refine ⟨by decide, by decide, by decide⟩


/-! ## 2c. config.Manager: a whole file in, a whole file out (model `Mgr` in Model/C15.lean) -/
namespace Mgr

variable {σ V : Type}

/-- every section of the registry round-trips what it saves (the per-section statement: kind theorems + sweeps) -/
def RegRoundTrips (r : Reg σ V) : Prop :=
  (∀ x, r.cluster.load (r.cluster.save x) = some x) ∧
  ∀ g n sp, r.spec g n = some sp → ∀ x, sp.load (sp.save x) = some x

/-- **manager_save_load_id**: for every Manager state reachable by an accepted load, `ToJSON` succeeds and a
Manager in *any* prior state loading the saved file accepts it and holds the same cluster section and the same
configuration for every registered component (and nothing for an unregistered one) -/
theorem manager_save_load_id (r : Reg σ V) (hr : RegRoundTrips r) (prev : State σ V) (f : File V) (s : State σ V)
    (hl : Loads r prev f s) :
    ∃ fs, saved r s = some fs ∧
      (∀ prev', Loads r prev' fs { s with raw := fs }) ∧
      (∀ prev' s', Loads r prev' fs s' → s'.cluster = s.cluster ∧ ∀ g n, s'.comp g n = s.comp g n) := by
  obtain ⟨_, hne, hcomp, _⟩ := hl
  cases hc : s.cluster with
  | none => exact absurd hc hne
  | some c =>
    have hsv : ∃ fs, saved r s = some fs := by simp [saved, hc]
    obtain ⟨fs, hfs⟩ := hsv
    refine ⟨fs, hfs, ?_, ?_⟩ <;> (simp only [saved, hc, Option.some.injEq] at hfs; subst hfs)
    · intro prev'
      refine ⟨⟨c, hr.1 c, by simp [hc]⟩, by simp [hc], ?_, rfl⟩
      intro g n
      have h1 := hcomp g n
      cases hs : r.spec g n with
      | none => simpa [hs] using h1
      | some sp =>
        simp only [hs] at h1 ⊢
        have hx : ∃ x, s.comp g n = some x := by
          cases he : f.entry g n with
          | none => simp [he] at h1; exact ⟨_, h1⟩
          | some e => cases e with
            | null => simp [he] at h1
            | obj j => simp [he] at h1; obtain ⟨x, _, hx⟩ := h1; exact ⟨x, hx⟩
        obtain ⟨x, hx⟩ := hx
        simp only [hx]
        exact ⟨x, hr.2 g n sp hs x, rfl⟩
    · intro prev' s' hl'
      obtain ⟨hcl', _, hcomp', _⟩ := hl'
      constructor
      · simp only at hcl'
        obtain ⟨c', h1, h2⟩ := hcl'
        rw [hr.1 c] at h1; cases h1; rw [h2]
      · intro g n
        have h1 := hcomp g n
        have h2 := hcomp' g n
        cases hs : r.spec g n with
        | none => simp [hs] at h1 h2; rw [h1, h2]
        | some sp =>
          simp only [hs] at h1 h2
          have hx : ∃ x, s.comp g n = some x := by
            cases he : f.entry g n with
            | none => simp [he] at h1; exact ⟨_, h1⟩
            | some e => cases e with
              | null => simp [he] at h1
              | obj j => simp [he] at h1; obtain ⟨x, _, hx⟩ := h1; exact ⟨x, hx⟩
          obtain ⟨x, hx⟩ := hx
          simp only [hx] at h2
          obtain ⟨x', h3, h4⟩ := h2
          rw [hr.2 g n sp hs x] at h3; cases h3; rw [h4, hx]

/-- **unknown_sections_policy**: what `ToJSON` writes for every (group, name) after an accepted load —
an *unregistered* name keeps exactly what the file had (an object, `null`, or nothing: unknown components and
unknown groups are preserved, never interpreted); a *registered* component is always written, with its defaults
when the file did not define it; a registered component given as `null` is refused at load time -/
theorem unknown_sections_policy (r : Reg σ V) (prev : State σ V) (f : File V) (s : State σ V) (fs : File V)
    (hl : Loads r prev f s) (hs : saved r s = some fs) (g n : String) :
    (r.spec g n = none → fs.entry g n = f.entry g n) ∧
    (∀ sp, r.spec g n = some sp → f.entry g n = none → fs.entry g n = some (.obj (sp.save sp.dflt))) ∧
    (∀ sp, r.spec g n = some sp → f.entry g n ≠ some .null) := by
  obtain ⟨_, hne, hcomp, hraw⟩ := hl
  cases hc : s.cluster with
  | none => exact absurd hc hne
  | some c =>
    simp only [saved, hc, Option.some.injEq] at hs
    subst hs
    have h1 := hcomp g n
    refine ⟨?_, ?_, ?_⟩
    · intro hn; simp [hn, hraw]
    · intro sp hsp he
      simp only [hsp, he] at h1
      simp [hsp, h1]
    · intro sp hsp he
      simp [hsp, he] at h1

/-- the masked form of one component: every top-level hidden key carries the mask, whatever was under it -/
theorem mask_hides (hidden : List String) (maskV : V) (j : CompJ V) (k : String) (v : V)
    (hm : (k, v) ∈ mask hidden maskV j) (hk : hidden.contains k = true) : v = maskV := by
  simp only [mask, List.mem_map] at hm
  obtain ⟨kv, _, he⟩ := hm
  by_cases h : hidden.contains kv.1 = true
  · simp only [h, if_true, Prod.mk.injEq] at he; exact he.2.symm
  · simp only [h] at he
    simp only [Bool.false_eq_true, if_false] at he
    subst he
    exact absurd hk h

/-- … and nothing else is touched (no field disappears from the displayable form, keys stay in order) -/
theorem mask_keeps_keys (hidden : List String) (maskV : V) (j : CompJ V) :
    (mask hidden maskV j).map (·.1) = j.map (·.1) := by
  simp only [mask, List.map_map]
  apply List.map_congr_left
  intro kv _
  simp only [Function.comp]
  split <;> rfl

/-- **display_hides_all_hidden**: in the displayable form of the whole Manager — the cluster section and every
component of every group — each hidden top-level key of each section carries the mask and nothing else; and
nothing that is not a registered component is displayed at all (an unknown component of the file, whatever it
contains, never reaches the displayable form) -/
theorem display_hides_all_hidden (r : Reg σ V) (maskV : V) (s : State σ V) :
    (∀ j, (display r maskV s).cluster = some j → ∀ k v, (k, v) ∈ j → r.cluster.hidden.contains k = true → v = maskV) ∧
    (∀ g n j, (display r maskV s).entry g n = some (.obj j) →
      ∃ sp, r.spec g n = some sp ∧ ∀ k v, (k, v) ∈ j → sp.hidden.contains k = true → v = maskV) ∧
    (∀ g n, r.spec g n = none → (display r maskV s).entry g n = none) := by
  refine ⟨?_, ?_, ?_⟩
  · intro j hj k v hm hk
    simp only [display, Option.map_eq_some_iff] at hj
    obtain ⟨c, _, rfl⟩ := hj
    exact mask_hides _ _ _ k v hm hk
  · intro g n j hj
    simp only [display] at hj
    cases hs : r.spec g n with
    | none => simp [hs] at hj
    | some sp =>
      cases hx : s.comp g n with
      | none => simp [hs, hx] at hj
      | some x =>
        simp [hs, hx] at hj
        subst hj
        exact ⟨sp, rfl, fun k v hm hk => mask_hides _ _ _ k v hm hk⟩
  · intro g n hn; simp [display, hn]

/-- duplicate keys: the last occurrence is the one that counts -/
theorem dup_last_wins (l : List (String × α)) (k : String) (v : α) : lookupLast (l ++ [(k, v)]) k = some v := by
  simp [lookupLast]

/-- the hypotheses are satisfiable: a one-component registry whose section round-trips -/
example : ∃ r : Reg Nat Nat, RegRoundTrips r ∧ r.spec "consensus" "crdt" ≠ none :=
  ⟨{ cluster := { load := fun j => j.head?.map (·.2), dflt := 0, save := fun x => [("k", x)], hidden := ["secret"] },
     spec := fun g n => if g == "consensus" && n == "crdt" then
       some { load := fun j => j.head?.map (·.2), dflt := 1, save := fun x => [("k", x)], hidden := [] } else none },
   ⟨fun _ => rfl, fun g n sp h x => by
      by_cases hc : (g == "consensus" && n == "crdt") = true
      · simp [hc] at h; subst h; rfl
      · simp [hc] at h⟩, by simp⟩

end Mgr

/-! ## 3. config.Manager and the remote `source` (model `Src` in Model/C15.lean)

For every URL type, every web and every prior Manager state. -/
namespace Src

variable {υ : Type}

/-- **plain_roundtrip**: a valid plain configuration given to `LoadJSON`, on *any* Manager state (a source set
by an earlier load included): accepted, the source is forgotten, the configuration is saved in full, and a fresh
Manager loading the saved form ends in the same state. -/
theorem plain_roundtrip (web : υ → Remote υ) (m : Mgr υ) (c : Nat) :
    let r := loadJSON web m (.plain c true)
    r.2 = true ∧ r.1 = { source := none, cfg := some c } ∧ save r.1 = some (.plain c true) ∧
    loadJSON web fresh (.plain c true) = ({ source := none, cfg := some c }, true) := by
  simp [loadJSON, save, fresh]

/-- **source_roundtrip**: for every URL whose remote body is a valid plain configuration (status < 300), on
*any* Manager state: the load is accepted, the Manager remembers the URL, the sections hold the remote
configuration, what is saved is exactly `{"source": url}`, and a fresh Manager loading that saved form ends in
the same effective configuration with the same source. -/
theorem source_roundtrip (web : υ → Remote υ) (m : Mgr υ) (u : υ) (code c : Nat)
    (hw : web u = .resp code (.plain c true)) (hc : code < 300) :
    let r := loadJSON web m (.sourced u)
    r.2 = true ∧ r.1 = { source := some u, cfg := some c } ∧ save r.1 = some (.sourced u) ∧
    loadJSON web fresh (.sourced u) = ({ source := some u, cfg := some c }, true) := by
  have : ¬ code ≥ 300 := by omega
  simp [loadJSON, fromHTTP, loadNested, save, hw, this]

/-- the same through `LoadJSONFromHTTPSource` -/
theorem http_roundtrip (web : υ → Remote υ) (m : Mgr υ) (u : υ) (code c : Nat)
    (hw : web u = .resp code (.plain c true)) (hc : code < 300) :
    fromHTTP web m u = ({ source := some u, cfg := some c }, true) ∧
    save (fromHTTP web m u).1 = some (.sourced u) := by
  have : ¬ code ≥ 300 := by omega
  simp [fromHTTP, loadNested, save, hw, this]

/-- exactly which documents the loader accepts -/
theorem accepted_iff (web : υ → Remote υ) (m : Mgr υ) (d : Doc υ) :
    (loadJSON web m d).2 = true ↔
      (∃ c, d = .plain c true) ∨ (∃ u code c, d = .sourced u ∧ web u = .resp code (.plain c true) ∧ code < 300) := by
  cases d with
  | garbage => simp [loadJSON]
  | plain c v => cases v <;> simp [loadJSON]
  | sourced u =>
    constructor
    · intro h
      simp only [loadJSON, fromHTTP] at h
      cases hw : web u with
      | down => simp [hw] at h
      | resp code body =>
        by_cases hc : code ≥ 300
        · simp [hw, hc] at h
        · cases body with
          | garbage => simp [hw, hc, loadNested] at h
          | sourced u2 => simp [hw, hc, loadNested] at h
          | plain c v =>
            cases v
            · simp [hw, hc, loadNested] at h
            · exact Or.inr ⟨u, code, c, rfl, hw, by omega⟩
    · rintro (⟨c, hd⟩ | ⟨u', code, c, hd, hw, hc⟩)
      · cases hd
      · cases hd
        have : ¬ code ≥ 300 := by omega
        simp [loadJSON, fromHTTP, loadNested, hw, this]

/-- an accepted load always leaves sections that validate (`ToJSON` does not refuse) -/
theorem accepted_valid (web : υ → Remote υ) (m : Mgr υ) (d : Doc υ) (h : (loadJSON web m d).2 = true) :
    (loadJSON web m d).1.cfg ≠ none := by
  rcases (accepted_iff web m d).mp h with ⟨c, rfl⟩ | ⟨u, code, c, rfl, hw, hc⟩
  · simp [loadJSON]
  · have := (source_roundtrip web m u code c hw hc).2.1
    simp [this]

/-- a remote body that declares a source of its own is refused (after `Source` was set to the inner URL) -/
theorem nested_source_refused (web : υ → Remote υ) (m : Mgr υ) (u u2 : υ) (code : Nat)
    (hw : web u = .resp code (.sourced u2)) :
    (loadJSON web m (.sourced u)).2 = false := by
  by_cases hc : code ≥ 300 <;> simp [loadJSON, fromHTTP, loadNested, hw, hc]

/-- a failing fetch or a status ≥ 300 is refused — and leaves `Source` set to the URL -/
theorem failed_fetch_refused (web : υ → Remote υ) (m : Mgr υ) (u : υ)
    (hw : web u = .down ∨ ∃ code body, web u = .resp code body ∧ code ≥ 300) :
    fromHTTP web m u = ({ m with source := some u }, false) := by
  rcases hw with h | ⟨code, body, h, hc⟩
  · simp [fromHTTP, h]
  · simp [fromHTTP, h, hc]

/-- `Source` is cleared only by a parsable plain document given to `LoadJSON` directly: under every other
operation (unparsable document, sourced document whatever the remote answers, `LoadJSONFromHTTPSource`,
`Default()`) a source that is set stays set -/
theorem source_cleared_only_by_plain (web : υ → Remote υ) (m : Mgr υ) (o : Op υ) (h : m.source ≠ none)
    (hc : (step web m o).1.source = none) : ∃ c v, o = .load (.plain c v) := by
  cases o with
  | dflt => exact absurd (by simpa [step, dflt] using hc) h
  | http u =>
    exfalso; revert hc
    simp only [step, fromHTTP]
    cases web u with
    | down => simp
    | resp code body => by_cases hc : code ≥ 300 <;> cases body <;> simp [hc, loadNested]
  | load d =>
    cases d with
    | garbage => exact absurd (by simpa [step, loadJSON] using hc) h
    | plain c v => exact ⟨c, v, rfl⟩
    | sourced u =>
      exfalso; revert hc
      simp only [step, loadJSON, fromHTTP]
      cases web u with
      | down => simp
      | resp code body => by_cases hc : code ≥ 300 <;> cases body <;> simp [hc, loadNested]

/-- a parsable plain document clears the source even when its sections are then refused; an unparsable one
leaves the Manager untouched -/
theorem plain_clears_source (web : υ → Remote υ) (m : Mgr υ) (c : Nat) (v : Bool) :
    (loadJSON web m (.plain c v)).1.source = none ∧ loadJSON web m .garbage = (m, false) := by
  simp [loadJSON]

/-- **An accepted load forgets the history of the Manager**: whatever state the Manager was in, after an
accepted document it is in exactly the state a fresh Manager reaches with that document -/
theorem accepted_load_forgets_history (web : υ → Remote υ) (m : Mgr υ) (d : Doc υ)
    (h : (loadJSON web m d).2 = true) : loadJSON web m d = loadJSON web fresh d := by
  rcases (accepted_iff web m d).mp h with ⟨c, rfl⟩ | ⟨u, code, c, rfl, hw, hc⟩
  · simp [loadJSON]
  · have h1 := (source_roundtrip web m u code c hw hc)
    have h2 := (source_roundtrip web fresh u code c hw hc)
    exact Prod.ext (h1.2.1.trans h2.2.1.symm) (h1.1.trans h2.1.symm)

/-- **Re-used Manager, full statement** (false before /repo fbf34ff, finding F39): after *any* sequence of
operations on *any* Manager, a document the loader accepts is exactly what gets saved, and a fresh Manager
loading the saved form ends in the same state -/
theorem reuse_full (web : υ → Remote υ) (m : Mgr υ) (ops : List (Op υ)) (d : Doc υ)
    (h : (loadJSON web (run web m ops).1 d).2 = true) :
    save (loadJSON web (run web m ops).1 d).1 = some d ∧
    loadJSON web fresh d = loadJSON web (run web m ops).1 d := by
  have hf := accepted_load_forgets_history web (run web m ops).1 d h
  have hacc : (loadJSON web fresh d).2 = true := by rw [← hf]; exact h
  constructor
  · rw [hf]
    rcases (accepted_iff web fresh d).mp hacc with ⟨c, rfl⟩ | ⟨u, code, c, rfl, hw, hc⟩
    · exact (plain_roundtrip web fresh c).2.2.1
    · exact (source_roundtrip web fresh u code c hw hc).2.2.1
  · exact hf.symm

/-- what a *refused* operation may leave behind (observation, no clause of the property covers it): a failed
fetch keeps the URL as `Source`, so a Manager that held a valid configuration then saves `{"source": url}` -/
theorem refused_fetch_changes_save (web : υ → Remote υ) (m : Mgr υ) (u : υ) (c : Nat)
    (hw : web u = .down) (hm : m.cfg = some c) :
    (loadJSON web m (.sourced u)).2 = false ∧ save (loadJSON web m (.sourced u)).1 = some (.sourced u) := by
  simp [loadJSON, fromHTTP, hw, save, hm]

/-- `Manager.Default()` does not clear a source either -/
theorem default_keeps_source (m : Mgr υ) : (dflt m).source = m.source := rfl

example : (run (fun (u : Nat) => if u = 1 then Remote.resp 200 (.plain 5 true) else .down) fresh
    [.load (.sourced 1), .load (.plain 2 true)]).2 = [true, true] := by decide

/-- on a fresh Manager every accepted document is saved as itself (plain in full, sourced as its source) -/
theorem fresh_accept_saves_same (web : υ → Remote υ) (d : Doc υ) (h : (loadJSON web fresh d).2 = true) :
    save (loadJSON web fresh d).1 = some d := by
  rcases (accepted_iff web fresh d).mp h with ⟨c, rfl⟩ | ⟨u, code, c, rfl, hw, hc⟩
  · exact (plain_roundtrip web fresh c).2.2.1
  · exact (source_roundtrip web fresh u code c hw hc).2.2.1

end Src

/-! ## Round 8 — environment variables, identity.json, DisplayJSON -/

/-! ### environment variables over a loaded value (`ApplyEnvVars`, `Manager.LoadJSONFileAndEnv`) -/

/-- **env > file**: a non-zero value in the variable is what the Config holds afterwards, whatever the file said -/
theorem env_overrides_file [DecidableEq α] (lk : LoadKind) (sk : SaveKind) (h : scalarPair lk sk = true)
    (zero d file e : α) (he : e ≠ zero) : fileThenEnv lk sk zero d file (some e) = e := by
  cases lk <;> cases sk <;> simp [scalarPair] at h <;> simp [fileThenEnv, applyEnvScalar, loadScalar, he]

/-- an unset variable changes nothing: `ApplyEnvVars` re-applies the saved form of what the file gave -/
theorem env_unset_keeps_file [DecidableEq α] (lk : LoadKind) (sk : SaveKind) (h : scalarPair lk sk = true)
    (zero d file : α) : fileThenEnv lk sk zero d file none = loadScalar lk zero d d file := by
  cases lk <;> cases sk <;> simp [scalarPair] at h <;> simp only [fileThenEnv, applyEnvScalar, loadScalar, saveScalar]
  · by_cases h1 : file = zero <;> simp [h1]
  · by_cases h1 : file = zero <;> by_cases h2 : d = zero <;> by_cases h3 : file = d <;> simp_all
  · by_cases h1 : file = zero <;> by_cases h2 : d = zero <;> simp_all
  · by_cases h1 : file = zero <;> simp [h1]
  · by_cases h1 : file = zero <;> simp [h1]

/-- **a variable cannot reset a setting to zero** under the zero-blind copies (SetIfNotDefault, mergo, len > 0):
the value the file gave stays.  (Under `direct` it can: `env_direct_sets_zero`.) -/
theorem env_zero_keeps_file [DecidableEq α] (lk : LoadKind) (sk : SaveKind)
    (h : lk = .setIfNotDefault ∨ lk = .mergo ∨ lk = .copyNonEmpty) (zero omitV d cur : α) :
    applyEnvScalar lk sk zero omitV d cur (some zero) = cur := by
  rcases h with rfl | rfl | rfl <;> simp [applyEnvScalar, loadScalar]

theorem env_direct_sets_zero [DecidableEq α] (sk : SaveKind) (zero omitV d cur : α) :
    applyEnvScalar .direct sk zero omitV d cur (some zero) = zero := rfl

/-- the alternative "environment first, file second" (a Manager applying env before LoadJSON) loses the
variable whenever the file names the setting: witness -/
theorem file_after_env_drops_env :
    ¬ ∀ (file e : Nat), e ≠ 0 → loadScalar .setIfNotDefault 0 (applyEnvScalar .setIfNotDefault .direct 0 7 7 7 (some e)) 7 file = e := by
  intro h; have := h 3 5 (by decide); revert this; decide

example : fileThenEnv .setIfNotDefault .direct 0 7 3 (some 5) = 5 := by decide
example : fileThenEnv .setIfNotDefault .omitIfDefault 0 7 3 (none : Option Nat) = 3 := by decide

namespace Ident

/-- **exactly which identities are accepted**: ID and key both parse and belong to the same key pair -/
theorem accept_iff (s : St) (i : IdTok) (k : KeyTok) :
    (apply s i k).2 = true ↔ ∃ n, i = .id n ∧ k = .key n := by
  cases i with
  | bad => simp [apply]
  | id a =>
    cases k with
    | badB64 => simp [apply]
    | badKey => simp [apply]
    | key b =>
      simp only [apply, valid, beq_iff_eq]
      constructor
      · intro h; exact ⟨a, rfl, by rw [h]⟩
      · rintro ⟨n, h1, h2⟩; cases h1; cases h2; rfl

/-- an accepted identity passes `Validate` -/
theorem accepted_valid (s : St) (d : Doc) (h : (load s d).2 = true) : valid (load s d).1 = true := by
  cases d with
  | garbage => simp [load] at h
  | obj i k =>
    obtain ⟨n, rfl, rfl⟩ := (accept_iff s i k).mp h
    simp [load, apply, valid]

/-- an accepted load forgets the history of the object -/
theorem accept_state (s : St) (n : Nat) : apply s (.id n) (.key n) = ({ id := some n, key := some n }, true) := by
  simp [apply, valid]

/-- **save/load round trip**: what was accepted is what is saved, and a fresh Identity loading the saved form
is accepted and ends in the same state -/
theorem roundtrip (s : St) (d : Doc) (h : (load s d).2 = true) :
    ∃ i k, save (load s d).1 = some (i, k) ∧ d = .obj i k ∧ load fresh (.obj i k) = ((load s d).1, true) := by
  cases d with
  | garbage => simp [load] at h
  | obj i k =>
    obtain ⟨n, rfl, rfl⟩ := (accept_iff s i k).mp h
    exact ⟨.id n, .key n, by simp [load, apply, save, valid, fresh]⟩

/-- a mismatching pair, an unparsable ID or an unparsable key is refused (never accepted with a default) -/
theorem mismatch_refused (s : St) (a b : Nat) (h : a ≠ b) : (load s (.obj (.id a) (.key b))).2 = false := by
  simp [load, apply, valid, h]

theorem malformed_refused (s : St) (i : IdTok) (k : KeyTok) (h : i = .bad ∨ k = .badB64 ∨ k = .badKey) :
    (load s (.obj i k)).2 = false := by
  rcases h with rfl | rfl | rfl
  · simp [load, apply]
  · cases i <;> simp [load, apply]
  · cases i <;> simp [load, apply]

/-- **env > file**: both variables naming key pair `n` replace whatever identity was loaded -/
theorem env_overrides (s : St) (n : Nat) (hs : valid s = true) :
    applyEnv s (some (.id n)) (some (.key n)) = ({ id := some n, key := some n }, true) := by
  obtain ⟨i, k⟩ := s
  cases i <;> cases k <;> simp [valid] at hs
  simp [applyEnv, save, apply, valid]

/-- no variable set: `ApplyEnvVars` keeps a valid identity and accepts -/
theorem env_unset_keeps (s : St) (hs : valid s = true) : applyEnv s none none = (s, true) := by
  obtain ⟨i, k⟩ := s
  cases i <;> cases k <;> simp [valid] at hs
  subst hs
  simp [applyEnv, save, apply, valid]

/-- only one of the two variables set to another identity is refused (the ID must match the key) -/
theorem env_half_refused (s : St) (m n : Nat) (hs : s = { id := some m, key := some m }) (h : n ≠ m) :
    (applyEnv s (some (.id n)) none).2 = false ∧ (applyEnv s none (some (.key n))).2 = false := by
  subst hs
  simp [applyEnv, save, apply, valid, h, Ne.symm h]

/-- env then validate: whatever the variables, an accepted `ApplyEnvVars` leaves a valid identity -/
theorem env_accepted_valid (s : St) (ei : Option IdTok) (ek : Option KeyTok) (h : (applyEnv s ei ek).2 = true) :
    valid (applyEnv s ei ek).1 = true := by
  unfold applyEnv at *
  cases hsv : save s with
  | none => simp [hsv] at h
  | some p =>
    obtain ⟨i, k⟩ := p
    simp only [hsv] at h ⊢
    obtain ⟨n, h1, h2⟩ := (accept_iff s _ _).mp h
    rw [h1, h2]; simp [apply, valid]

/-- **whole history**: after any sequence of operations on any Identity, if the next operation is accepted the
Identity is valid, can be saved, and a fresh Identity loading the saved form reaches exactly the same state -/
theorem history_roundtrip (s : St) (ops : List Op) (op : Op) (h : (step (run s ops).1 op).2 = true) :
    valid (step (run s ops).1 op).1 = true ∧
    ∃ i k, save (step (run s ops).1 op).1 = some (i, k) ∧ load fresh (.obj i k) = ((step (run s ops).1 op).1, true) := by
  generalize (run s ops).1 = m at h ⊢
  cases op with
  | load d =>
    refine ⟨accepted_valid m d h, ?_⟩
    obtain ⟨i, k, h1, _, h3⟩ := roundtrip m d h
    exact ⟨i, k, h1, h3⟩
  | env ei ek =>
    have hv := env_accepted_valid m ei ek h
    refine ⟨hv, ?_⟩
    simp only [step] at *
    generalize (applyEnv m ei ek).1 = t at hv ⊢
    match t, hv with
    | ⟨some a, some b⟩, hv =>
      have hab : a = b := by simpa [valid] using hv
      subst hab
      exact ⟨.id a, .key a, by simp [save, load, apply, valid]⟩
    | ⟨none, _⟩, hv => simp [valid] at hv
    | ⟨some _, none⟩, hv => simp [valid] at hv

/-- **restapi's libp2p identity: exactly what is accepted** — nothing of the three set, or ID, key and listen
address all set with the ID belonging to the key -/
theorem rest_accept_iff (i : Option IdTok) (k : Option KeyTok) (addr : Bool) :
    (restLoad i k addr).isSome = true ↔
      (i = none ∧ k = none ∧ addr = false) ∨ ∃ n, i = some (.id n) ∧ k = some (.key n) ∧ addr = true := by
  cases addr <;> rcases i with _ | _ | a <;> rcases k with _ | _ | _ | b <;> simp [restLoad, valid] <;> exact eq_comm

/-- accepted ⇒ valid or entirely unset; and the saved pair loads back to the same state -/
theorem rest_roundtrip (i : Option IdTok) (k : Option KeyTok) (addr : Bool) (s : St) (h : restLoad i k addr = some s) :
    restSave s = (i, k) ∧ restLoad (restSave s).1 (restSave s).2 addr = some s := by
  have hs : (restLoad i k addr).isSome = true := by simp [h]
  rcases (rest_accept_iff i k addr).mp hs with ⟨rfl, rfl, rfl⟩ | ⟨n, rfl, rfl, rfl⟩
  · simp [restLoad] at h; subst h; simp [restSave, restLoad]
  · simp [restLoad, valid] at h; subst h; simp [restSave, restLoad, valid]

example : restLoad (some (.id 1)) (some (.key 1)) true = some { id := some 1, key := some 1 } := by decide
example : restLoad (some (.id 1)) (some (.key 2)) true = none := by decide

theorem run_append (s : St) (a b : List Op) :
    run s (a ++ b) = ((run (run s a).1 b).1, (run s a).2 ++ (run (run s a).1 b).2) := by
  induction a generalizing s with
  | nil => simp [run]
  | cons o rest ih => simp [run, ih]

/-- observation, outside the property (it says a rejected value is refused, not that a refused load is inert):
`applyIdentityJSON` assigns the ID before it decodes the key, so a refused load can leave a half-updated,
invalid Identity whose saved form is refused at the next load -/
theorem refused_load_not_inert : ¬ ∀ (s : St) (d : Doc), (load s d).2 = false → (load s d).1 = s := by
  intro h
  have := h { id := some 0, key := some 0 } (.obj (.id 1) .badB64) (by decide)
  revert this; decide

example : (run fresh [.load (.obj (.id 1) (.key 1)), .env (some (.id 2)) (some (.key 2))]) = ({ id := some 2, key := some 2 }, [true, true]) := by decide
example : (run fresh [.load (.obj (.id 0) (.key 0)), .load (.obj (.id 1) .badB64), .env none none]).2 = [true, false, false] := by decide

end Ident

/-! ### regenerated tables of config/util.go, config/identity.go, config/config.go, interpreted -/

/-- **the regenerated body of `applyIdentityJSON`, interpreted, is the model's `apply`** — for every prior state and
every ID / key token -/
theorem gen_ident_apply (s : Ident.St) (i : Ident.IdTok) (k : Ident.KeyTok) :
    Ident.interp i k Gen.identApplySeq { st := s } = some (Ident.apply s i k) := by
  cases i <;> cases k <;> simp [Gen.identApplySeq, Ident.interp, Ident.apply, Ident.valid]

/-- the alternative without the final Validate accepts a mismatching pair: witness -/
theorem ident_without_validate_accepts_mismatch :
    Ident.interp (.id 0) (.key 1) [.decodeId, .retErr, .setId, .b64, .retErr, .unmarshalKey, .retErr, .setKey, .retNil] { st := {} }
      = some ({ id := some 0, key := some 1 }, true) := by decide

/-- an arm that assigns exactly the non-zero values is the model's SetIfNotDefault copy -/
theorem sind_arm_is_loadScalar [DecidableEq α] (arms : List (String × String)) (ty : String) (zero cur d j : α)
    (h : ∀ z, sindAssigns arms ty z = !z) :
    (if sindAssigns arms ty (decide (j = zero)) = true then j else cur) = loadScalar .setIfNotDefault zero cur d j := by
  rw [h]; by_cases hj : j = zero <;> simp [loadScalar, hj]

/-- a type without an arm is never copied (SetIfNotDefault has no default case): every value would be dropped -/
theorem sind_no_arm_drops (arms : List (String × String)) (ty : String) (h : arms.find? (·.1 == ty) = none) (z : Bool) :
    sindAssigns arms ty z = false := by
  simp [sindAssigns, h]

/-- **every row copied with SetIfNotDefault has an arm of its Go type in the regenerated switch, and that arm
assigns exactly the non-zero values** -/
theorem table_sind_covers :
    Gen.fields.all (fun f => !(f.load == .setIfNotDefault || f.load == .parseOrZeroSIND) ||
      (sindAssigns Gen.sindArms f.ty.goName false && !sindAssigns Gen.sindArms f.ty.goName true)) = true := by decide

/-- the regenerated call order of `Manager.LoadJSONFileAndEnv`, interpreted, is `fileThenEnv`; and
`Manager.ApplyEnvVars` reaches the component sections and the cluster section -/
theorem gen_file_env_order [DecidableEq α] (lk : LoadKind) (sk : SaveKind) (zero d file : α) (env : Option α) :
    runOrder lk sk zero d file env Gen.fileAndEnvOrder d = fileThenEnv lk sk zero d file env := by
  simp [Gen.fileAndEnvOrder, runOrder, fileThenEnv]

theorem table_manager_env_reach : Gen.managerEnvReach = ["sections", "cluster"] := by decide

namespace Disp

/-- **hide law, as far as the code goes**: the value of a leaf below a top-level hidden field is never part of
the displayed form (provided it is not the mask text itself) -/
theorem display_hides_top (cfg : List Leaf) (l : Leaf) (hl : l ∈ cfg) (ht : l.topHidden = true)
    (hu : ∀ l' ∈ cfg, l'.topHidden = false → l'.val ≠ l.val) (hm : l.val ≠ maskText) :
    l.val ∉ shown (display cfg) := by
  simp only [shown, display, List.map_map, List.mem_map, Function.comp, not_exists, not_and]
  intro l' hl' heq
  by_cases h' : l'.topHidden = true
  · simp [h'] at heq; exact hm heq.symm
  · have hf : l'.topHidden = false := by simpa using h'
    simp [hf] at heq; exact hu l' hl' hf heq

/-- the deep walk would hide every tagged leaf, at any nesting depth -/
theorem displayDeep_hides_tagged (cfg : List Leaf) (l : Leaf) (ht : l.tagged = true)
    (hu : ∀ l' ∈ cfg, l'.tagged = false → l'.val ≠ l.val) (hm : l.val ≠ maskText) :
    l.val ∉ shown (displayDeep cfg) := by
  simp only [shown, displayDeep, List.map_map, List.mem_map, Function.comp, not_exists, not_and]
  intro l' hl' heq
  by_cases h' : l'.tagged = true
  · simp [h'] at heq; exact hm heq.symm
  · have hf : l'.tagged = false := by simpa using h'
    simp [hf] at heq; exact hu l' hl' hf heq

/-- top-level hidden implies tagged -/
theorem topHidden_tagged (l : Leaf) (h : l.topHidden = true) : l.tagged = true := by
  obtain ⟨p, v⟩ := l
  cases p with
  | nil => simp [Leaf.topHidden] at h
  | cons s r => simp [Leaf.topHidden] at h; simp [Leaf.tagged, h]

/-- **the code is the deep walk exactly when no tag sits below the top level** (what `table_no_nested_hidden`
keeps true for the sources) -/
theorem display_eq_deep_iff (cfg : List Leaf) :
    display cfg = displayDeep cfg ↔ ∀ l ∈ cfg, l.tagged = true → l.topHidden = true ∨ (l.path.map (·.name), l.val) = ((l.path.take 1).map (·.name), maskText) := by
  simp only [display, displayDeep]
  rw [List.map_inj_left]
  constructor
  · intro h l hl ht
    have := h l hl
    by_cases h' : l.topHidden = true
    · exact Or.inl h'
    · right
      have hf : l.topHidden = false := by simpa using h'
      simpa [hf, ht] using this
  · intro h l hl
    by_cases ht : l.tagged = true
    · rcases h l hl ht with h1 | h1
      · simp [h1, ht]
      · by_cases h' : l.topHidden = true
        · simp [h', ht]
        · have hf : l.topHidden = false := by simpa using h'
          simp [hf, ht, h1]
    · have hf : l.tagged = false := by simpa using ht
      have : l.topHidden = false := by
        cases hh : l.topHidden with
        | false => rfl
        | true => rw [topHidden_tagged l hh] at hf; cases hf
      simp [hf, this]

/-- **refutation of the hide law for arbitrary nesting**: a secret one level down, tagged hidden, is shown -/
theorem nested_hidden_leaks :
    ¬ ∀ (cfg : List Leaf) (l : Leaf), l ∈ cfg → l.tagged = true → l.val ≠ maskText → l.val ∉ shown (display cfg) := by
  intro h
  have := h [⟨[⟨"options", false⟩, ⟨"token", true⟩], "s3cret"⟩] ⟨[⟨"options", false⟩, ⟨"token", true⟩], "s3cret"⟩
    (by simp) (by decide) (by decide)
  revert this; decide

example : shown (display [⟨[⟨"secret", true⟩], "abc"⟩, ⟨[⟨"peername", false⟩], "p"⟩]) = [maskText, "p"] := by decide

end Disp

/-! ## Round 8b: the call sequence Default → LoadJSON → ApplyEnvVars → Validate of EVERY section, regenerated and interpreted -/
namespace Seq

/-- assignments and checked fallible steps run to the end or refuse: nothing is skipped -/
theorem interp_body (o : Oracle) (body rest : List Ev) (hb : body.all isBody = true) (i : Nat) (s : St) :
    interp o (body ++ rest) i 0 s = .err ∨
    interp o (body ++ rest) i 0 s
      = interp o rest (i + body.length) 0 { s with assigned := s.assigned + countAssign body } := by
  induction body generalizing i s with
  | nil => right; simp [countAssign]
  | cons e es ih =>
    simp only [List.all_cons, Bool.and_eq_true] at hb
    obtain ⟨he, hes⟩ := hb
    cases e <;> simp [isBody] at he
    · have := ih hes (i+1) { s with assigned := s.assigned + 1 }
      simp only [List.cons_append, interp]
      rcases this with h | h
      · left; exact h
      · right; rw [h]
        have h1 : i + 1 + es.length = i + (es.length + 1) := by omega
        have h2 : s.assigned + 1 + countAssign es = s.assigned + countAssign (Ev.assign :: es) := by
          simp [countAssign]; omega
        simp only [List.length_cons, h1, h2]
    · simp only [List.cons_append, interp]
      cases hf : o.fails i
      · have := ih hes (i+1) s
        simp only [Bool.false_eq_true, if_false]
        rcases this with h | h
        · left; exact h
        · right; rw [h]
          have h1 : i + 1 + es.length = i + (es.length + 1) := by omega
          have h2 : countAssign (Ev.try :: es) = countAssign es := by
            simp [countAssign]
          simp only [List.length_cons, h1, h2]
      · left; simp

theorem applyOk_split (a : List Ev) (h : applyOk a = true) :
    ∃ body, a = body ++ [.retValidate] ∧ body.all isBody = true ∧ countAssign a = countAssign body ∧ 0 < countAssign body := by
  simp only [applyOk, Bool.and_eq_true] at h
  obtain ⟨⟨h1, h2⟩, h3⟩ := h
  have hl : a.getLast? = some .retValidate := by simpa using h1
  obtain ⟨ys, rfl⟩ := List.getLast?_eq_some_iff.mp hl
  have hc : countAssign (ys ++ [Ev.retValidate]) = countAssign ys := by
    simp [countAssign, List.filter_append]
  refine ⟨ys, rfl, by simpa using h2, hc, ?_⟩
  rw [hc] at h3; simpa using h3

/-- **LoadJSON of a well-shaped section**: whatever fails or not, the call either refuses or has started from the defaults,
executed every assignment of the apply function, dropped no error and returned what `Validate()` said — which was "valid". -/
theorem load_shape_sound (o : Oracle) (a : List Ev) (h : applyOk a = true) (s : St) :
    run o (expand [.unmarshal, .dflt, .apply] a) s = .err ∨
    (o.valid = true ∧
      run o (expand [.unmarshal, .dflt, .apply] a) s = .ok true { dflt := true, assigned := countAssign a, dropped := s.dropped }) := by
  obtain ⟨body, rfl, hb, hc, _⟩ := applyOk_split a h
  have hexp : expand [.unmarshal, .dflt, .apply] (body ++ [.retValidate]) = .unmarshal :: .dflt :: (body ++ [.retValidate]) := by
    simp [expand, List.flatMap]
  rw [hexp, hc]
  simp only [run, interp]
  cases hf : o.fails 0
  · simp only [Bool.false_eq_true, if_false]
    rcases interp_body o body [.retValidate] hb (0+1+1) { s with dflt := true, assigned := 0 } with h1 | h1
    · left; exact h1
    · rw [h1]; simp only [interp]
      cases hv : o.valid
      · left; simp
      · right; simp
  · left; simp

/-- **ApplyEnvVars of a well-shaped section**: no `Default()` — the values loaded from the file stay under the variables —
every assignment runs, the result is validated. -/
theorem env_shape_sound (o : Oracle) (a : List Ev) (h : applyOk a = true) (s : St) :
    run o (expand [.toJSON, .process, .apply] a) s = .err ∨
    (o.valid = true ∧
      run o (expand [.toJSON, .process, .apply] a) s = .ok true { s with assigned := s.assigned + countAssign a }) := by
  obtain ⟨body, rfl, hb, hc, _⟩ := applyOk_split a h
  have hexp : expand [.toJSON, .process, .apply] (body ++ [.retValidate]) = .toJSON :: .process :: (body ++ [.retValidate]) := by
    simp [expand, List.flatMap]
  rw [hexp, hc]
  simp only [run, interp]
  cases hf : o.fails 0
  · cases hg : o.fails (0+1)
    · simp only [Bool.false_eq_true, if_false]
      rcases interp_body o body [.retValidate] hb (0+1+1) s with h1 | h1
      · left; exact h1
      · rw [h1]; simp only [interp]
        cases hv : o.valid
        · left; simp
        · right; simp
    · left; simp
  · left; simp

/-- accepted ⇒ valid, as one line (both entry points) -/
theorem accepted_validated (o : Oracle) (a : List Ev) (h : applyOk a = true) (s : St) (v : Bool) (t : St) :
    (run o (expand [.unmarshal, .dflt, .apply] a) s = .ok v t → v = true ∧ o.valid = true ∧ t.dflt = true ∧ t.assigned = countAssign a) ∧
    (run o (expand [.toJSON, .process, .apply] a) s = .ok v t → v = true ∧ o.valid = true ∧ t.dflt = s.dflt) := by
  constructor
  · intro hr
    rcases load_shape_sound o a h s with h1 | ⟨hv, h1⟩
    · rw [h1] at hr; cases hr
    · rw [h1] at hr; cases hr; exact ⟨rfl, hv, rfl, rfl⟩
  · intro hr
    rcases env_shape_sound o a h s with h1 | ⟨hv, h1⟩
    · rw [h1] at hr; cases hr
    · rw [h1] at hr; cases hr; exact ⟨rfl, hv, rfl⟩

def never : Nat → Bool := fun _ => false
def always : Nat → Bool := fun _ => true

/-- refutation: an apply function ending in `return nil` accepts what Validate() rejects -/
theorem no_validate_accepts_invalid :
    run ⟨never, never, false⟩ [.unmarshal, .dflt, .assign, .retNil] fresh = .ok false ⟨true, 1, false⟩ := by decide

/-- refutation (the shape of seeded change C15f): a helper that returns early for a disabled subsystem is accepted and
validated with only one of its two assignments executed -/
theorem helper_early_return_skips :
    run ⟨never, always, true⟩ [.unmarshal, .dflt, .assign, .skip 2, .try, .assign, .try, .retValidate] fresh = .ok true ⟨true, 1, false⟩ ∧
    run ⟨never, never, true⟩ [.unmarshal, .dflt, .assign, .skip 2, .try, .assign, .try, .retValidate] fresh = .ok true ⟨true, 2, false⟩ := by decide

/-- refutation (the shape of /repo 639679f, crdt): an unchecked ParseDurations error is accepted -/
theorem dropped_error_accepted :
    run ⟨always, never, true⟩ [.dflt, .assign, .droppedErr, .retValidate] fresh = .ok true ⟨true, 1, true⟩ := by decide

/-- refutation: LoadJSON without Default() keeps whatever the object held (no fresh start) -/
theorem no_default_keeps_stale :
    run ⟨never, never, true⟩ [.unmarshal, .assign, .retValidate] ⟨false, 7, false⟩ = .ok true ⟨false, 8, false⟩ := by decide

/-- refutation: ApplyEnvVars that calls Default() forgets the file (assignments counted from zero again) -/
theorem env_with_default_forgets_file :
    run ⟨never, never, true⟩ [.toJSON, .process, .dflt, .assign, .retValidate] ⟨true, 5, false⟩ = .ok true ⟨true, 1, false⟩ := by decide

/-- **the regenerated table**: every section's LoadJSON is parse → Default → apply, ApplyEnvVars is current → environment →
apply, the apply function (helpers inlined) consists of assignments and checked fallible steps and ends in `return cfg.Validate()`;
helper-scoped early returns only where allow-listed -/
theorem table_section_seqs : Gen.sectionSeqs.all SecSeq.ok = true := by decide

theorem table_section_seqs_cover : Gen.sectionSeqs.map (·.name) = Gen.sections.map (·.name) := by decide

/-- the sections without an allow-listed early return have the strict shape -/
theorem table_strict_sections :
    (Gen.sectionSeqs.filter fun s => !skipAllowed.contains s.name).all (fun s => applyOk s.apply) = true := by decide

/-- every regenerated section outside the allow-list: an accepted LoadJSON started from the defaults, ran every assignment and
was validated; an accepted ApplyEnvVars kept the loaded state underneath and was validated -/
theorem gen_sections_sound (sq : SecSeq) (hm : sq ∈ Gen.sectionSeqs) (hn : skipAllowed.contains sq.name = false)
    (o : Oracle) (s : St) (v : Bool) (t : St) :
    (run o (expand [.unmarshal, .dflt, .apply] sq.apply) s = .ok v t → v = true ∧ o.valid = true ∧ t.dflt = true ∧ t.assigned = countAssign sq.apply) ∧
    (run o (expand [.toJSON, .process, .apply] sq.apply) s = .ok v t → v = true ∧ o.valid = true ∧ t.dflt = s.dflt) := by
  have h := table_strict_sections
  rw [List.all_eq_true] at h
  have := h sq (List.mem_filter.mpr ⟨hm, by rw [hn]; rfl⟩)
  exact accepted_validated o sq.apply this s v t

example : applyOk [.assign, .try, .assign, .try, .retValidate] = true := by decide

/-- an apply sequence with helper-scoped early returns that stay inside the body (`skipsInside`) still ends in
`return cfg.Validate()` on EVERY path: it refuses, or it was validated, dropped no error, did not re-run Default and executed at
most the body's assignments — whichever guards fire (any oracle), from any pending jump `k` that stays inside the body -/
theorem skips_sound (o : Oracle) (body : List Ev) : ∀ (i k : Nat) (s : St), skipsInside body = true → k ≤ body.length →
    interp o (body ++ [.retValidate]) i k s = .err ∨
    ∃ s', interp o (body ++ [.retValidate]) i k s = .ok true s' ∧ o.valid = true ∧ s'.dropped = s.dropped ∧ s'.dflt = s.dflt ∧
      s.assigned ≤ s'.assigned ∧ s'.assigned ≤ s.assigned + countAssign body := by
  induction body with
  | nil =>
    intro i k s _ hk
    have : k = 0 := by simpa using hk
    subst this
    cases hv : o.valid <;> simp [interp, hv]
  | cons e es ih =>
    intro i k s hs hk
    have hes : skipsInside es = true := by
      cases e <;> simp_all [skipsInside, isBody]
    have hca : countAssign es ≤ countAssign (e :: es) := by
      simp only [countAssign, List.filter_cons]; split <;> simp
    cases k with
    | succ k' =>
      have hk' : k' ≤ es.length := by simpa using hk
      simp only [List.cons_append, interp]
      rcases ih (i+1) k' s hes hk' with h | ⟨s', h1, h2, h3, h4, h5, h6⟩
      · left; exact h
      · right; exact ⟨s', h1, h2, h3, h4, h5, by omega⟩
    | zero =>
      cases e <;> simp [skipsInside, isBody] at hs
      · -- assign
        simp only [List.cons_append, interp]
        rcases ih (i+1) 0 { s with assigned := s.assigned + 1 } hes (Nat.zero_le _) with h | ⟨s', h1, h2, h3, h4, h5, h6⟩
        · left; exact h
        · right
          have : countAssign (Ev.assign :: es) = countAssign es + 1 := by simp [countAssign]
          refine ⟨s', h1, h2, h3, h4, ?_, ?_⟩ <;> simp at h5 h6 ⊢ <;> omega
      · -- try
        simp only [List.cons_append, interp]
        cases hf : o.fails i
        · simp only [Bool.false_eq_true, if_false]
          rcases ih (i+1) 0 s hes (Nat.zero_le _) with h | ⟨s', h1, h2, h3, h4, h5, h6⟩
          · left; exact h
          · right; exact ⟨s', h1, h2, h3, h4, h5, by omega⟩
        · left; simp
      · -- skip n
        rename_i n
        simp only [List.cons_append, interp]
        cases hf : o.fires i
        · simp only [Bool.false_eq_true, if_false]
          rcases ih (i+1) 0 s hes (Nat.zero_le _) with h | ⟨s', h1, h2, h3, h4, h5, h6⟩
          · left; exact h
          · right; exact ⟨s', h1, h2, h3, h4, h5, by omega⟩
        · simp only [if_true]
          rcases ih (i+1) n s hes hs.1 with h | ⟨s', h1, h2, h3, h4, h5, h6⟩
          · left; exact h
          · right; exact ⟨s', h1, h2, h3, h4, h5, by omega⟩

/-- **soundness of the restapi shape** (`applyOkSkips`, the allow-listed helper-scoped early return of `tlsOptions`): whichever guard
fires and whichever step fails, the apply function refuses or returns what `Validate()` said, with no dropped error -/
theorem applyOkSkips_sound (o : Oracle) (a : List Ev) (h : applyOkSkips a = true) (i : Nat) (s : St) :
    interp o a i 0 s = .err ∨
    ∃ s', interp o a i 0 s = .ok true s' ∧ o.valid = true ∧ s'.dropped = s.dropped ∧ s'.dflt = s.dflt ∧
      s.assigned ≤ s'.assigned ∧ s'.assigned ≤ s.assigned + countAssign a := by
  simp only [applyOkSkips, Bool.and_eq_true] at h
  obtain ⟨⟨h1, hs⟩, _⟩ := h
  have hl : a.getLast? = some .retValidate := by simpa using h1
  obtain ⟨ys, rfl⟩ := List.getLast?_eq_some_iff.mp hl
  have hc : countAssign (ys ++ [Ev.retValidate]) = countAssign ys := by
    simp [countAssign, List.filter_append]
  have hs' : skipsInside ys = true := by simpa using hs
  rw [hc]
  exact skips_sound o ys i 0 s hs' (Nat.zero_le _)

example : applyOkSkips [.assign, .skip 2, .try, .assign, .assign, .retValidate] = true := by decide

/-- the allow-listed sections of the regenerated table have that shape … -/
theorem table_skip_sections :
    (Gen.sectionSeqs.filter fun s => skipAllowed.contains s.name).all (fun s => applyOkSkips s.apply) = true := by decide

/-- … so every accepted apply run of such a section (restapi) was validated and dropped no error -/
theorem gen_skip_sections_sound (sq : SecSeq) (hm : sq ∈ Gen.sectionSeqs) (hn : skipAllowed.contains sq.name = true)
    (o : Oracle) (i : Nat) (s : St) :
    interp o sq.apply i 0 s = .err ∨
    ∃ s', interp o sq.apply i 0 s = .ok true s' ∧ o.valid = true ∧ s'.dropped = s.dropped ∧ s'.dflt = s.dflt ∧
      s.assigned ≤ s'.assigned ∧ s'.assigned ≤ s.assigned + countAssign sq.apply := by
  have h := table_skip_sections
  rw [List.all_eq_true] at h
  exact applyOkSkips_sound o sq.apply (h sq (List.mem_filter.mpr ⟨hm, hn⟩)) i s

/-- refutation: a jump that is NOT inside the body (passes `return cfg.Validate()`) is stuck / unvalidated — `skipsInside` is needed -/
theorem skip_past_validate_not_validated :
    skipsInside [.assign, .skip 2, .assign] = false ∧
    ∀ s', interp ⟨fun _ => false, fun _ => true, true⟩ [.assign, .skip 2, .assign, .retValidate] 0 0 fresh ≠ .ok true s' := by
  refine ⟨by decide, fun s' => ?_⟩
  simp [interp]

end Seq

/-! ## hashicorp/raft ValidateConfig (round 8c) -/
namespace HRaft

/-- `ValidateConfig` accepts exactly the configurations hashicorp/raft calls valid … -/
theorem hraft_accept_iff (r : Vals) : validate (env r) conjs = .accept ↔ Valid r := by
  simp [validate, conjs, Conj.fires, Cond.eval, Tm.eval, Env.get, env, List.find?, cmpVal, Op.holds, or3, Valid, ms]
  by_cases h1 : r.pv < 1 <;> by_cases h2 : 3 < r.pv <;> simp [h1, h2] <;> (try split) <;> (try simp) <;> omega
/-- … and rejects all others: the verdict is never `unknown` once the eight fields are known -/
theorem hraft_reject_iff (r : Vals) : validate (env r) conjs = .reject ↔ ¬ Valid r := by
  simp [validate, conjs, Conj.fires, Cond.eval, Tm.eval, Env.get, env, List.find?, cmpVal, Op.holds, or3, Valid, ms]
  by_cases h1 : r.pv < 1 <;> by_cases h2 : 3 < r.pv <;> simp [h1, h2] <;> (try split) <;> (try simp) <;> omega

/-- **the tie**: the raft section's regenerated Validate conjuncts are its own six followed by exactly hraft's eleven; none is opaque -/
theorem table_raft_hraft :
    (Gen.validates.find? (·.1 == "raft")).map (fun x => x.2.1.drop 6) = some conjs := by decide

theorem table_raft_no_opaque :
    ((Gen.validates.find? (·.1 == "raft")).map (fun x => x.2.1.all (fun c => c.cond != .opaque && c.guard != some .opaque))) = some true := by decide

/-- LoadJSON of the raft section accepts ⇒ the RaftConfig is valid in hashicorp/raft's sense (`load_accept_valid` for raft) -/
theorem hraft_load_accept_valid (r : Vals) (e : Env) (h : loadSection (some (env r)) conjs = some e) : Valid r := by
  by_cases hv : validate (env r) conjs = .reject
  · simp [loadSection, hv] at h
  · exact Classical.not_not.mp (fun hn => hv ((hraft_reject_iff r).mpr hn))

/-- … and an invalid one is refused at load time -/
theorem hraft_load_refuses (r : Vals) (h : ¬ Valid r) : loadSection (some (env r)) conjs = none :=
  load_refuses_rejected _ _ ((hraft_reject_iff r).mpr h)

/-- boundary cases on both sides of each bound (protocol 0|1..3|4, LocalID, 5ms-1|5ms, 1ms-1|1ms, 0|1..1024|1025,
lease = / > heartbeat, election = / < heartbeat) -/
theorem hraft_boundaries : boundaryCases.all (fun c => validate (env c.1) conjs == c.2) = true := by decide

example : Valid dflt := (hraft_accept_iff dflt).mp (by decide)
example : loadSection (some (env dflt)) conjs = some (env dflt) := by decide
example : ¬ Valid { dflt with ll := 1000 * ms + 1 } := (hraft_reject_iff _).mp (by decide)

end HRaft

/-! ## Environment-variable decode kinds (round 8 final) -/
namespace EnvK
open CV.C15.EnvK

theorem splitC_no_sep (c : Char) : ∀ p : List Char, c ∉ p → splitC c p = [p]
  | [], _ => rfl
  | x :: xs, h => by
    have hx : x ≠ c := fun e => h (by simp [e])
    have hxs : c ∉ xs := fun m => h (List.mem_cons_of_mem _ m)
    simp [splitC, hx, splitC_no_sep c xs hxs]

theorem splitC_append (c : Char) (rest : List Char) : ∀ p : List Char, c ∉ p → splitC c (p ++ c :: rest) = p :: splitC c rest
  | [], _ => by simp [splitC]
  | x :: xs, h => by
    have hx : x ≠ c := fun e => h (by simp [e])
    have hxs : c ∉ xs := fun m => h (List.mem_cons_of_mem _ m)
    simp [splitC, hx, splitC_append c rest xs hxs]

/-- `strings.Split(strings.Join(parts, c), c) = parts` for a non-empty list of parts that do not contain the separator -/
theorem split_join (c : Char) : ∀ parts : List (List Char), parts ≠ [] → (∀ p ∈ parts, c ∉ p) → splitC c (joinC c parts) = parts
  | [], h, _ => absurd rfl h
  | [p], _, h => by simpa [joinC] using splitC_no_sep c p (h p (by simp))
  | p :: q :: r, _, h => by
    have ih := split_join c (q :: r) (by simp) (fun x hx => h x (List.mem_cons_of_mem _ hx))
    simp only [joinC]
    rw [splitC_append c _ p (h p (by simp)), ih]

/-- the list form `ToJSON` prints (elements joined by commas, none containing a comma) decodes to the same list -/
theorem env_decode_roundtrip_list (parts : List (List Char)) (hne : parts ≠ []) (h : ∀ p ∈ parts, ',' ∉ p)
    (hb : isBlank (joinC ',' parts) = false) : envDecode .strList (joinC ',' parts) = .ok (.strs parts) := by
  simp [envDecode, hb, split_join ',' parts hne h]

example : envDecode .strList "/ip4/0.0.0.0/tcp/9096,/ip6/::/tcp/9096".toList
    = .ok (.strs ["/ip4/0.0.0.0/tcp/9096".toList, "/ip6/::/tcp/9096".toList]) := by decide

/-- a slice variable is never refused by envconfig itself (only the section's own parsing can refuse it afterwards) -/
theorem env_decode_list_never_refuses (s : List Char) : envDecode .strList s ≠ .refuse := by
  cases h : isBlank s <;> simp [envDecode, h]

/-- what `ToJSON` prints for a bool decodes to it -/
theorem env_decode_roundtrip_bool (b : Bool) : envDecode .bool (toString b).toList = .ok (.bool b) := by
  cases b <;> decide

/-- every text outside ParseBool's twelve spellings is refused -/
theorem env_decode_rejects_bool (s : List Char) (h1 : s ∉ trues) (h2 : s ∉ falses) : envDecode .bool s = .refuse := by
  simp [envDecode, decBool, h1, h2]

example : envDecode .bool "yes".toList = .refuse ∧ envDecode .bool " true".toList = .refuse ∧
    envDecode .bool "T".toList = .ok (.bool true) := by decide

theorem decPairs_bad : ∀ (l : List (List Char)) (p : List Char), p ∈ l → (splitC ':' p).length ≠ 2 → decPairs l = none
  | [], _, h, _ => by simp at h
  | q :: qs, p, h, hl => by
    unfold decPairs
    split
    · rename_i k v hq
      rcases List.mem_cons.mp h with e | m
      · subst e; simp [hq] at hl
      · simp [decPairs_bad qs p m hl]
    · rfl

/-- a map variable with one piece that is not exactly `k:v` is refused as a whole (no pair of it is applied) -/
theorem env_decode_rejects_map (s p : List Char) (hb : isBlank s = false) (hp : p ∈ splitC ',' s)
    (hl : (splitC ':' p).length ≠ 2) : envDecode .strMap s = .refuse ∧ envDecode .strListMap s = .refuse := by
  simp [envDecode, hb, decPairs_bad _ p hp hl]

example : envDecode .strMap "a:b,c".toList = .refuse ∧ envDecode .strMap "a:b:c".toList = .refuse ∧
    envDecode .strMap "a:b,c:d".toList = .ok (.pairs [("a".toList, "b".toList), ("c".toList, "d".toList)]) := by decide

theorem decPairs_print : ∀ l : List (List Char × List Char), (∀ kv ∈ l, ':' ∉ kv.1 ∧ ':' ∉ kv.2) →
    decPairs (l.map fun kv => kv.1 ++ ':' :: kv.2) = some l
  | [], _ => rfl
  | (k, v) :: r, h => by
    have hk := (h (k, v) (by simp)).1
    have hv := (h (k, v) (by simp)).2
    have ih := decPairs_print r (fun kv m => h kv (List.mem_cons_of_mem _ m))
    simp only [List.map, decPairs]
    rw [splitC_append ':' v k hk, splitC_no_sep ':' v hv]
    simp [ih]

/-- the `k:v,k:v` form of a map whose keys and values hold no `,` / `:` decodes to the same pairs -/
theorem env_decode_roundtrip_map (l : List (List Char × List Char)) (hne : l ≠ [])
    (h : ∀ kv ∈ l, ':' ∉ kv.1 ∧ ':' ∉ kv.2 ∧ ',' ∉ kv.1 ∧ ',' ∉ kv.2)
    (hb : isBlank (joinC ',' (l.map fun kv => kv.1 ++ ':' :: kv.2)) = false) :
    envDecode .strMap (joinC ',' (l.map fun kv => kv.1 ++ ':' :: kv.2)) = .ok (.pairs l) := by
  have hs : splitC ',' (joinC ',' (l.map fun kv => kv.1 ++ ':' :: kv.2)) = l.map fun kv => kv.1 ++ ':' :: kv.2 := by
    apply split_join
    · simpa using hne
    · intro p hp
      rcases List.mem_map.mp hp with ⟨kv, m, rfl⟩
      have := h kv m
      simp [this.2.2.1, this.2.2.2]
  simp [envDecode, hb, hs, decPairs_print l (fun kv m => ⟨(h kv m).1, (h kv m).2.1⟩)]

/-- ints: the decimal forms; `12a` / empty / out of range refused; base-0 forms left undecided (envconfig parses base 0) -/
theorem env_decode_int_examples :
    envDecode (.int 64) "-1".toList = .ok (.int (-1)) ∧ envDecode (.int 64) "9223372036854775807".toList = .ok (.int 9223372036854775807) ∧
    envDecode (.int 64) "9223372036854775808".toList = .refuse ∧ envDecode (.int 64) "12a".toList = .refuse ∧
    envDecode (.int 64) "".toList = .refuse ∧ envDecode (.uint 64) "-1".toList = .refuse ∧
    envDecode (.int 64) "0x10".toList = .undecided ∧ envDecode (.int 64) "010".toList = .undecided := by decide

/-- the regenerated table: every variable of every field has a decode kind the model knows (no `other`), and the kind agrees
with the abstract type of the row (list rows are comma-split slices, map rows `k:v` maps, bool rows ParseBool).
Proved by kernel evaluation (`decide +kernel`): the elaborator's `decide` over the 154 string lookups exceeds the default heartbeats.
An `other` kind is also caught at run time: the driver answers `diff model=kind-other` on every `envk` case of such a field. -/
theorem table_env_kinds :
    Gen.fields.all (fun f => match Gen.envKinds.lookup f.env, f.ty with
      | some .other, _ => false
      | none, _ => false
      | some k, .list => k == .strList || k == .floatList
      | some k, .map => k == .strMap || k == .strListMap
      | some k, .bool => k == .bool
      | some k, .dur => k == .str
      | some k, .str => k == .str
      | some _, _ => true) = true := by decide +kernel

end EnvK

end CV.C15
