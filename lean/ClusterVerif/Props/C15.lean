import ClusterVerif.Spec.C15
import ClusterVerif.Gen.C15

/-!
# C15 — configuration saves and loads losslessly, validates totally, hides secrets

Two layers.

1. **Kind theorems** (for *all* values of *any* Go value type `α`): for every load/save kind pair the model
   calls `lossless`, `load ∘ save ∘ load = load`, every non-zero value is settable, and the zero value means
   "keep the default" exactly for the zero-blind kinds; booleans under a zero-blind kind are settable iff the
   default is `false`; durations: only `parseDurations` on an unparsable string refuses, nothing else does.
2. **Table theorems** (`decide` over `Gen.fields`, the table regenerated from the sources on every run):
   every row is copied in and out by a lossless kind pair or is on the hand-written allow-list of the Spec,
   is loaded iff saved, omits exactly its default, hides secret-named keys, has a valid default, and can be
   set to a non-numeric zero.  The unchanged tree does **not** satisfy the full statement (`C15_full_fails`);
   `C15_partial` proves it for all rows outside the explicit exception list, and `exceptions_all_fail` shows
   every exception is a real failure of the strict row predicate, not padding.
-/
namespace CV.C15

/-! ## 1. kind theorems -/

/-- scalar kind pairs -/
def scalarPair (lk : LoadKind) (sk : SaveKind) : Bool :=
  match lk, sk with
  | .direct, .direct | .setIfNotDefault, .direct | .setIfNotDefault, .omitIfDefault
  | .zeroMeansDefault, .direct | .mergo, .direct => true
  | _, _ => false

/-- duration kind pairs -/
def durPair (lk : LoadKind) (sk : SaveKind) : Bool :=
  match lk, sk with
  | .parseDurations, .durString | .parseDurations, .omitIfDefaultDur
  | .parseOrZeroSIND, .durString | .parseOrZeroDirect, .durString => true
  | _, _ => false

/-- `lossless` is exactly: a scalar pair, a duration pair, or the pointer pair -/
theorem lossless_cases (lk : LoadKind) (sk : SaveKind) :
    lossless lk sk = (scalarPair lk sk || durPair lk sk || (lk == .pointerOptional && sk == .direct)) := by
  cases lk <;> cases sk <;> rfl

/-- a field that is saved but never loaded, or loaded but never saved, is never lossless
(raft `datastore_namespace` before fix 4c3cf57 was the first shape) -/
theorem lossless_needs_both (lk : LoadKind) (sk : SaveKind) (h : lossless lk sk = true) :
    lk ≠ .none ∧ sk ≠ .none ∧ lk ≠ .custom ∧ sk ≠ .custom := by
  cases lk <;> cases sk <;> simp [lossless] at h <;> simp

/-- the zero-blind copy composed with the omit-if-default save, spelled out -/
theorem sind_omit_roundtrip [DecidableEq α] (zero d j : α) :
   (if (if (if j = zero then d else j) = d then zero else (if j = zero then d else j)) = zero then d
    else (if (if j = zero then d else j) = d then zero else (if j = zero then d else j))) =
   (if j = zero then d else j) := by
  by_cases h1 : j = zero <;> simp [h1]
  by_cases h2 : j = d <;> simp [h2]

/-- **Round trip, scalars.**  LoadJSON starts from `Default()` (`cur = d`), an omit-if-default save compares
with that same default: loading what was saved after a load gives the same Config value, for every JSON
value `j` of every type. -/
theorem scalar_roundtrip [DecidableEq α] (lk : LoadKind) (sk : SaveKind) (h : scalarPair lk sk = true)
    (zero d j : α) :
    loadScalar lk zero d d (saveScalar sk zero d (loadScalar lk zero d d j)) = loadScalar lk zero d d j := by
  cases lk <;> cases sk <;> simp [scalarPair] at h <;> simp only [loadScalar, saveScalar]
  · by_cases h1 : j = zero <;> simp [h1]
  · exact sind_omit_roundtrip zero d j
  · by_cases h1 : j = zero <;> simp [h1]
  · by_cases h1 : j = zero <;> simp [h1]

/-- **No setting dropped, scalars.**  Every non-zero value arrives in the Config. -/
theorem scalar_settable [DecidableEq α] (lk : LoadKind) (sk : SaveKind) (h : scalarPair lk sk = true)
    (zero d v : α) (hv : v ≠ zero) : loadScalar lk zero d d v = v := by
  cases lk <;> cases sk <;> simp [scalarPair] at h <;> simp [loadScalar, hv]

/-- … and under `direct` the zero value too. -/
theorem direct_settable [DecidableEq α] (zero cur d v : α) : loadScalar .direct zero cur d v = v := rfl

/-- **Zero means default** for the zero-blind scalar kinds (the property's parenthesis). -/
theorem zero_means_default [DecidableEq α] (lk : LoadKind) (hb : zeroBlind lk = true) (hp : lk ≠ .parseOrZeroSIND)
    (zero d : α) : loadScalar lk zero d d zero = d := by
  cases lk <;> simp [zeroBlind] at hb <;> simp_all [loadScalar]

/-- **Booleans under a zero-blind kind are settable iff the default is `false`.**  `false` is not a numeric
zero, so the property does not excuse it: this is the badger `truncate` / `sync_writes` defect. -/
theorem bool_settable_iff (lk : LoadKind) (hb : lk = .setIfNotDefault ∨ lk = .mergo) (d : Bool) :
    (∀ b : Bool, ∃ j : Bool, loadScalar lk false d d j = b) ↔ d = false := by
  rcases hb with h | h <;> subst h <;> cases d <;> simp [loadScalar]

/-- the same for a value arriving later (environment variable over a loaded `true`) -/
theorem bool_true_sticks (lk : LoadKind) (hb : lk = .setIfNotDefault ∨ lk = .mergo) (d j : Bool) :
    loadScalar lk false true d j = true := by
  rcases hb with h | h <;> subst h <;> cases j <;> simp [loadScalar]

/-- **Round trip, durations** (time.ParseDuration ∘ String = id is the trusted part, see `DurJ`). -/
theorem dur_roundtrip (lk : LoadKind) (sk : SaveKind) (h : durPair lk sk = true) (cur : Int) (j : DurJ) (v : Int)
    (hl : loadDur lk cur j = some v) : loadDur lk cur (saveDur sk cur v) = some v := by
  cases lk <;> cases sk <;> simp [durPair] at h <;> cases j <;> simp_all [loadDur, saveDur]
  · by_cases hv : v = cur <;> simp [hv]
  · intro h0; split at hl <;> omega

/-- **No setting dropped, durations**: every non-zero duration arrives. -/
theorem dur_settable (lk : LoadKind) (sk : SaveKind) (h : durPair lk sk = true) (cur d : Int) (hd : d ≠ 0) :
    loadDur lk cur (.ok d) = some d := by
  cases lk <;> cases sk <;> simp [durPair] at h <;> simp [loadDur, hd]

/-- a zero duration is kept by `ParseDurations` ("0s" is honoured: cluster `mdns_interval`), replaced by the
current value under `SetIfNotDefault` (raft) -/
theorem dur_zero (cur : Int) :
    loadDur .parseDurations cur (.ok 0) = some 0 ∧ loadDur .parseOrZeroSIND cur (.ok 0) = some cur ∧
    loadDur .parseOrZeroDirect cur (.ok 0) = some 0 := by
  simp [loadDur]

/-- **Refusal is an error value, and only for an unparsable string under a checked ParseDurations.** -/
theorem dur_refuses_only_bad (lk : LoadKind) (cur : Int) (j : DurJ) (h : loadDur lk cur j = none) :
    lk = .parseDurations ∧ j = .bad := by
  cases j <;> cases lk <;> simp_all [loadDur]

/-- pointer settings: absent keeps the current value, anything else (zero included) is taken -/
theorem ptr_roundtrip (cur : α) (j : Option α) : loadPtr cur (savePtr (loadPtr cur j)) = loadPtr cur j := by
  cases j <;> rfl

theorem ptr_settable (cur v : α) : loadPtr cur (some v) = v := rfl

/-- what a checked `ParseDurations` does when it reports no error: every entry that carries a duration is
taken, the empty ones keep their value -/
def durTaken : DurJ × Int → Int
  | (.ok d, _) => d
  | (_, cur) => cur

theorem parseDurations_no_error (l : List (DurJ × Int)) (h : (parseDurations l).2 = false) :
    (parseDurations l).1 = l.map durTaken := by
  induction l with
  | nil => rfl
  | cons a rest ih =>
    obtain ⟨j, cur⟩ := a
    cases j <;> simp_all [parseDurations, durTaken]

/-- … and when it does report one, the caller must look: a caller that does not (`parseDurationsUnchecked`) lets a
well-formed entry after an unparsable one is dropped without an error.  This was the crdt defect repaired by
/repo commit 639679f; the kind stays in the model so that a regression is classified, and is never lossless. -/
theorem parseDurations_unchecked_drops :
    ∃ l : List (DurJ × Int), (parseDurations l).2 = true ∧ (parseDurations l).1 ≠ l.map durTaken := by
  refine ⟨[(.bad, 60), (.ok 5, 0)], ?_⟩
  decide

/-- the model's prediction for a scalar row keeps every non-zero value it accepts (so a correspondence
`ok` on a lossless row implies the Spec's `preserved` for it) -/
theorem predict_scalar_keeps (f : Field) (cur val eff got : Const) (hl : scalarPair f.load f.save = true)
    (hp : predictScalar f cur val = .accept eff got) (hv : val ≠ f.ty.zero) : eff = val := by
  have hload : loadScalar f.load f.ty.zero cur f.dflt val = val := by
    revert hl; cases f.load <;> cases f.save <;> simp_all [scalarPair, loadScalar]
  have hnp : (f.load == LoadKind.pointerOptional) = false := by
    revert hl; cases f.load <;> cases f.save <;> simp [scalarPair]
  unfold predictScalar at hp
  simp only [hnp, hload] at hp
  repeat' split at hp
  all_goals first | (injection hp with h1 h2; exact h1.symm) | (simp at hp) | skip
  all_goals simp_all

/-! ## the Bool checker says what the property says -/

theorem holds_iff (i : Input) (o : Output) :
    holds i o = true ↔
      o.res ≠ "panic" ∧
      (i.kind = .dflt → o.res = "ok" ∧ o.valid = true) ∧
      (o.res = "ok" → o.valid = true) ∧
      (o.res = "ok" → o.fix = true ∧ (o.eff = "-" ∨ o.eff2 = o.eff)) ∧
      (o.res = "ok" → i.kind = .set → preservedOK i o = true) ∧
      o.leak = false := by
  simp only [holds, clauses, List.all_cons, List.all_nil, Bool.and_true, Bool.and_eq_true]
  constructor
  · rintro ⟨h1, h2, h3, h4, h5, h6⟩
    refine ⟨by simpa using h1, ?_, ?_, ?_, ?_, by simpa using h6⟩
    · intro hk; simp [hk] at h2; exact h2
    · intro hr; simp [hr] at h3; exact h3
    · intro hr; simp [hr] at h4; exact h4
    · intro hr hk; simp [hr, hk] at h5; exact h5
  · rintro ⟨h1, h2, h3, h4, h5, h6⟩
    refine ⟨by simpa using h1, ?_, ?_, ?_, ?_, by simpa using h6⟩
    · by_cases hk : i.kind = .dflt
      · have := h2 hk; simp [hk, this.1, this.2]
      · simp [hk]
    · by_cases hr : o.res = "ok"
      · simp [hr, h3 hr]
      · simp [hr]
    · by_cases hr : o.res = "ok"
      · have := h4 hr; simp [hr, this.1]; exact this.2
      · simp [hr]
    · by_cases hr : o.res = "ok"
      · by_cases hk : i.kind = .set
        · have := h5 hr hk; simp [hr, hk, this]
        · simp [hk]
      · simp [hr]

/-! ## 2. table theorems (re-decided on every run over the regenerated `Gen.fields`) -/

/-- the default of a row passes the row's own Validate conjuncts -/
def defaultValid (f : Field) : Bool :=
  match f.dflt.num? with
  | some n => !rejected f.rej n
  | none => match f.dflt with
    | .str "" => !(f.rej.any fun (o, c) => o == .eq && c == .str "")
    | _ => true

/-- everything the property demands of the way one setting is copied in and out -/
def rowStrict (f : Field) : Bool :=
  (lossless f.load f.save || allowed f) &&
  loadedIffSaved f &&
  (!(lossless f.load f.save) || f.sameField) &&
  (!(f.save == .omitIfDefault || f.save == .omitIfDefaultDur) || (f.omitC != .unknown && f.omitC == f.dflt)) &&
  secretHidden f &&
  defaultValid f &&
  -- a zero that is not numeric/duration must be settable: zero-blind kinds need a zero default
  (zeroExcused f.ty || !zeroBlind f.load || f.dflt == f.ty.zero)

def sectionStrict (s : Section) : Bool :=
  s.loadEndsWithValidate && (s.loadStartsFromDefault || s.name == "identity")

/-- the full statement over today's sources -/
def C15_full : Prop :=
  Gen.fields.all rowStrict = true ∧ Gen.sections.all sectionStrict = true ∧
  Gen.displayReplacesHidden = true ∧ Gen.managerLoadEndsWithValidate = true

/-- Rows of the unchanged tree that fail `rowStrict`, with the reason.  `defect`: the code contradicts the
property (findings K11/K12); `library`: the default comes from a library constructor the translator
cannot see, so settable-to-zero cannot be decided from the sources (the correspondence run sweeps them). -/
def exceptions : List (String × String × String) := [
  ("badger", "badger_options.truncate", "defect K11: default true, mergo cannot write false"),
  ("badger", "badger_options.sync_writes", "defect K11: library default true, mergo cannot write false"),
  ("badger", "badger_options.read_only", "library default (false) not visible"),
  ("badger", "badger_options.dir", "library default (\"\") not visible"),
  ("badger", "badger_options.value_dir", "library default (\"\") not visible"),
  ("ipfsproxy", "node_https", "defect K11: Default() does not reset NodeHTTPS, SetIfNotDefault cannot write false"),
  ("cluster", "peername", "defect K12: default is the host name, \"\" falls back to it"),
  ("raft", "datastore_namespace", "defect K12: \"\" falls back to \"/r\""),
  ("crdt", "cluster_name", "defect K12: \"\" falls back to the default instead of being refused"),
  ("crdt", "peerset_metric", "defect K12: \"\" falls back to \"ping\" instead of being refused"),
  ("crdt", "datastore_namespace", "defect K12: \"\" falls back to \"/c\""),
  ("ipfsproxy", "extract_headers_path", "defect K12: \"\" falls back to the default instead of being refused"),
  ("badger", "folder", "defect K12: \"\" falls back to \"badger\" instead of being refused"),
  ("leveldb", "folder", "defect K12: \"\" falls back to \"leveldb\" instead of being refused") ]

def excepted (f : Field) : Bool := exceptions.any fun (s, p, _) => s == f.sec && p == f.path

/-- **Main table theorem**: every row outside the exception list meets the strict row predicate, and the
structural facts hold for every section. -/
theorem C15_partial :
    (∀ f ∈ Gen.fields, excepted f = false → rowStrict f = true) ∧
    Gen.sections.all sectionStrict = true ∧
    Gen.displayReplacesHidden = true ∧ Gen.managerLoadEndsWithValidate = true := by
  refine ⟨?_, by decide, by decide, by decide⟩
  have h : Gen.fields.all (fun f => excepted f || rowStrict f) = true := by decide
  intro f hf he
  have := List.all_eq_true.mp h f hf
  simpa [he] using this

/-- the exception list is exact: each excepted row really fails, and names a row that exists -/
theorem exceptions_all_fail :
    Gen.fields.all (fun f => !excepted f || !rowStrict f) = true ∧
    exceptions.all (fun (s, p, _) => Gen.fields.any fun f => f.sec == s && f.path == p) = true := by
  constructor <;> decide

/-- the unchanged tree does not satisfy the full statement (witness: badger `truncate`) -/
theorem C15_full_fails : ¬ C15_full := by
  intro h
  have h1 := h.1
  revert h1
  decide

/-- nothing is saved without being loaded or loaded without being saved — no exceptions
(fails if fix 4c3cf57, raft `datastore_namespace`, is reverted) -/
theorem table_loaded_iff_saved : Gen.fields.all loadedIffSaved = true := by decide

/-- every key named like a secret carries `hidden:"true"` in every displayable section, and DisplayJSON
still replaces hidden fields — no exceptions -/
theorem table_secrets_hidden :
    Gen.fields.all secretHidden = true ∧ Gen.displayReplacesHidden = true := by
  constructor <;> decide

/-- every `custom`/`none` row is on the Spec's allow-list and every allow-list entry names such a row -/
theorem allowList_exact :
    Gen.fields.all (fun f => !(f.load == .custom || f.save == .custom || f.load == .none) || allowed f) = true ∧
    allowList.all (fun (s, p, _) => Gen.fields.any fun f =>
      f.sec == s && f.path == p && !(lossless f.load f.save)) = true := by
  constructor <;> decide

/-- every default the translator can see passes the Validate conjuncts it can see -/
theorem table_defaults_valid : Gen.fields.all defaultValid = true := by decide

/-- a concrete non-trivial row meets the hypotheses of the kind theorems -/
example : ∃ f ∈ Gen.fields, f.path = "datastore_namespace" ∧ f.sec = "raft" ∧ scalarPair f.load f.save = true ∧
    f.omitC = f.dflt := by decide

set_option maxRecDepth 20000 in
example : (Gen.fields.filter (fun f => lossless f.load f.save)).length ≥ 100 := by decide

/-! ## 3. config.Manager and the remote `source` (model `Src` in Model/C15.lean)

For every URL type, every web and every prior Manager state. -/
namespace Src

variable {υ : Type}

/-- **plain_roundtrip**: a valid plain configuration given to `LoadJSON`, on *any* Manager state (a source set
by an earlier load included): accepted, the source is forgotten, the configuration is saved in full, and a fresh
Manager loading the saved form ends in the same state. -/
theorem plain_roundtrip (web : υ → Remote υ) (m : Mgr υ) (c : Nat) :
    let r := loadJSON web m (.plain c true)
    r.2 = true ∧ r.1 = { source := none, cfg := some c } ∧ save r.1 = some (.plain c true) ∧
    loadJSON web fresh (.plain c true) = ({ source := none, cfg := some c }, true) := by
  simp [loadJSON, save, fresh]

/-- **source_roundtrip**: for every URL whose remote body is a valid plain configuration (status < 300), on
*any* Manager state: the load is accepted, the Manager remembers the URL, the sections hold the remote
configuration, what is saved is exactly `{"source": url}`, and a fresh Manager loading that saved form ends in
the same effective configuration with the same source. -/
theorem source_roundtrip (web : υ → Remote υ) (m : Mgr υ) (u : υ) (code c : Nat)
    (hw : web u = .resp code (.plain c true)) (hc : code < 300) :
    let r := loadJSON web m (.sourced u)
    r.2 = true ∧ r.1 = { source := some u, cfg := some c } ∧ save r.1 = some (.sourced u) ∧
    loadJSON web fresh (.sourced u) = ({ source := some u, cfg := some c }, true) := by
  have : ¬ code ≥ 300 := by omega
  simp [loadJSON, fromHTTP, loadNested, save, hw, this]

/-- the same through `LoadJSONFromHTTPSource` -/
theorem http_roundtrip (web : υ → Remote υ) (m : Mgr υ) (u : υ) (code c : Nat)
    (hw : web u = .resp code (.plain c true)) (hc : code < 300) :
    fromHTTP web m u = ({ source := some u, cfg := some c }, true) ∧
    save (fromHTTP web m u).1 = some (.sourced u) := by
  have : ¬ code ≥ 300 := by omega
  simp [fromHTTP, loadNested, save, hw, this]

/-- exactly which documents the loader accepts -/
theorem accepted_iff (web : υ → Remote υ) (m : Mgr υ) (d : Doc υ) :
    (loadJSON web m d).2 = true ↔
      (∃ c, d = .plain c true) ∨ (∃ u code c, d = .sourced u ∧ web u = .resp code (.plain c true) ∧ code < 300) := by
  cases d with
  | garbage => simp [loadJSON]
  | plain c v => cases v <;> simp [loadJSON]
  | sourced u =>
    constructor
    · intro h
      simp only [loadJSON, fromHTTP] at h
      cases hw : web u with
      | down => simp [hw] at h
      | resp code body =>
        by_cases hc : code ≥ 300
        · simp [hw, hc] at h
        · cases body with
          | garbage => simp [hw, hc, loadNested] at h
          | sourced u2 => simp [hw, hc, loadNested] at h
          | plain c v =>
            cases v
            · simp [hw, hc, loadNested] at h
            · exact Or.inr ⟨u, code, c, rfl, hw, by omega⟩
    · rintro (⟨c, hd⟩ | ⟨u', code, c, hd, hw, hc⟩)
      · cases hd
      · cases hd
        have : ¬ code ≥ 300 := by omega
        simp [loadJSON, fromHTTP, loadNested, hw, this]

/-- an accepted load always leaves sections that validate (`ToJSON` does not refuse) -/
theorem accepted_valid (web : υ → Remote υ) (m : Mgr υ) (d : Doc υ) (h : (loadJSON web m d).2 = true) :
    (loadJSON web m d).1.cfg ≠ none := by
  rcases (accepted_iff web m d).mp h with ⟨c, rfl⟩ | ⟨u, code, c, rfl, hw, hc⟩
  · simp [loadJSON]
  · have := (source_roundtrip web m u code c hw hc).2.1
    simp [this]

/-- a remote body that declares a source of its own is refused (after `Source` was set to the inner URL) -/
theorem nested_source_refused (web : υ → Remote υ) (m : Mgr υ) (u u2 : υ) (code : Nat)
    (hw : web u = .resp code (.sourced u2)) :
    (loadJSON web m (.sourced u)).2 = false := by
  by_cases hc : code ≥ 300 <;> simp [loadJSON, fromHTTP, loadNested, hw, hc]

/-- a failing fetch or a status ≥ 300 is refused — and leaves `Source` set to the URL -/
theorem failed_fetch_refused (web : υ → Remote υ) (m : Mgr υ) (u : υ)
    (hw : web u = .down ∨ ∃ code body, web u = .resp code body ∧ code ≥ 300) :
    fromHTTP web m u = ({ m with source := some u }, false) := by
  rcases hw with h | ⟨code, body, h, hc⟩
  · simp [fromHTTP, h]
  · simp [fromHTTP, h, hc]

/-- `Source` is cleared only by a parsable plain document given to `LoadJSON` directly: under every other
operation (unparsable document, sourced document whatever the remote answers, `LoadJSONFromHTTPSource`,
`Default()`) a source that is set stays set -/
theorem source_cleared_only_by_plain (web : υ → Remote υ) (m : Mgr υ) (o : Op υ) (h : m.source ≠ none)
    (hc : (step web m o).1.source = none) : ∃ c v, o = .load (.plain c v) := by
  cases o with
  | dflt => exact absurd (by simpa [step, dflt] using hc) h
  | http u =>
    exfalso; revert hc
    simp only [step, fromHTTP]
    cases web u with
    | down => simp
    | resp code body => by_cases hc : code ≥ 300 <;> cases body <;> simp [hc, loadNested]
  | load d =>
    cases d with
    | garbage => exact absurd (by simpa [step, loadJSON] using hc) h
    | plain c v => exact ⟨c, v, rfl⟩
    | sourced u =>
      exfalso; revert hc
      simp only [step, loadJSON, fromHTTP]
      cases web u with
      | down => simp
      | resp code body => by_cases hc : code ≥ 300 <;> cases body <;> simp [hc, loadNested]

/-- a parsable plain document clears the source even when its sections are then refused; an unparsable one
leaves the Manager untouched -/
theorem plain_clears_source (web : υ → Remote υ) (m : Mgr υ) (c : Nat) (v : Bool) :
    (loadJSON web m (.plain c v)).1.source = none ∧ loadJSON web m .garbage = (m, false) := by
  simp [loadJSON]

/-- **An accepted load forgets the history of the Manager**: whatever state the Manager was in, after an
accepted document it is in exactly the state a fresh Manager reaches with that document -/
theorem accepted_load_forgets_history (web : υ → Remote υ) (m : Mgr υ) (d : Doc υ)
    (h : (loadJSON web m d).2 = true) : loadJSON web m d = loadJSON web fresh d := by
  rcases (accepted_iff web m d).mp h with ⟨c, rfl⟩ | ⟨u, code, c, rfl, hw, hc⟩
  · simp [loadJSON]
  · have h1 := (source_roundtrip web m u code c hw hc)
    have h2 := (source_roundtrip web fresh u code c hw hc)
    exact Prod.ext (h1.2.1.trans h2.2.1.symm) (h1.1.trans h2.1.symm)

/-- **Re-used Manager, full statement** (false before /repo fbf34ff, finding F39): after *any* sequence of
operations on *any* Manager, a document the loader accepts is exactly what gets saved, and a fresh Manager
loading the saved form ends in the same state -/
theorem reuse_full (web : υ → Remote υ) (m : Mgr υ) (ops : List (Op υ)) (d : Doc υ)
    (h : (loadJSON web (run web m ops).1 d).2 = true) :
    save (loadJSON web (run web m ops).1 d).1 = some d ∧
    loadJSON web fresh d = loadJSON web (run web m ops).1 d := by
  have hf := accepted_load_forgets_history web (run web m ops).1 d h
  have hacc : (loadJSON web fresh d).2 = true := by rw [← hf]; exact h
  constructor
  · rw [hf]
    rcases (accepted_iff web fresh d).mp hacc with ⟨c, rfl⟩ | ⟨u, code, c, rfl, hw, hc⟩
    · exact (plain_roundtrip web fresh c).2.2.1
    · exact (source_roundtrip web fresh u code c hw hc).2.2.1
  · exact hf.symm

/-- what a *refused* operation may leave behind (observation, no clause of the property covers it): a failed
fetch keeps the URL as `Source`, so a Manager that held a valid configuration then saves `{"source": url}` -/
theorem refused_fetch_changes_save (web : υ → Remote υ) (m : Mgr υ) (u : υ) (c : Nat)
    (hw : web u = .down) (hm : m.cfg = some c) :
    (loadJSON web m (.sourced u)).2 = false ∧ save (loadJSON web m (.sourced u)).1 = some (.sourced u) := by
  simp [loadJSON, fromHTTP, hw, save, hm]

/-- `Manager.Default()` does not clear a source either -/
theorem default_keeps_source (m : Mgr υ) : (dflt m).source = m.source := rfl

example : (run (fun (u : Nat) => if u = 1 then Remote.resp 200 (.plain 5 true) else .down) fresh
    [.load (.sourced 1), .load (.plain 2 true)]).2 = [true, true] := by decide

/-- on a fresh Manager every accepted document is saved as itself (plain in full, sourced as its source) -/
theorem fresh_accept_saves_same (web : υ → Remote υ) (d : Doc υ) (h : (loadJSON web fresh d).2 = true) :
    save (loadJSON web fresh d).1 = some d := by
  rcases (accepted_iff web fresh d).mp h with ⟨c, rfl⟩ | ⟨u, code, c, rfl, hw, hc⟩
  · exact (plain_roundtrip web fresh c).2.2.1
  · exact (source_roundtrip web fresh u code c hw hc).2.2.1

end Src

end CV.C15
