import ClusterVerif.Lemmas.C03
import ClusterVerif.Lemmas.C03Sort
import ClusterVerif.Model.C03Skeleton
import ClusterVerif.Gen.C03

/-!
# C03 — allocations honour the replication factors and use only healthy peers

Property theorems only (helper lemmas are in `Lemmas/C03.lean`).

* `allowed_holds`   — every output the model of `allocate` admits (for any
  iteration order of Go's maps and any tie-breaking of its unstable sort)
  satisfies every clause of the property, for every input. No size bound.
* `valid_factors_no_panic` — the factor pairs the cluster accepts never reach
  the out-of-range slice.
-/
namespace CV.C03

/-- C03 for every input and every resolution of the choices Go leaves open. -/
theorem allowed_holds (i : Input) (o : Output) (hw : wf i = true) (h : allowed i o = true) :
    holds i o = true := by
  unfold holds clauses
  by_cases hev : (i.rmin == -1 && i.rmax == -1) = true
  · -- replication factor -1: the empty list, meaning every peer
    simp only [hev, if_true, List.all_cons, List.all_nil, Bool.and_true]
    simp only [Bool.and_eq_true, beq_iff_eq] at hev
    unfold allowed at h
    have h1 : ¬ (i.rmin + i.rmax == 0) = true := by simp only [beq_iff_eq]; omega
    have h2 : (decide (i.rmin < 0) && decide (i.rmax < 0)) = true := by
      simp only [Bool.and_eq_true, decide_eq_true_eq]; omega
    simpa [h1, h2] using h
  · simp only [hev, Bool.false_eq_true, if_false]
    by_cases hpos : positive i = true
    · simp only [hpos, if_true]
      have hp : 0 < i.rmin ∧ i.rmin ≤ i.rmax := by simpa [positive] using hpos
      unfold allowed at h
      have h1 : ¬ (i.rmin + i.rmax == 0) = true := by simp only [beq_iff_eq]; omega
      have h2 : ¬ (decide (i.rmin < 0) && decide (i.rmax < 0)) = true := by
        simp only [Bool.and_eq_true, decide_eq_true_eq]; omega
      simp only [h1, h2, Bool.false_eq_true, if_false] at h
      have finish : ∀ out, okClauses i out → ([("nodup", cNodup i out), ("added_healthy", cAdded i out),
          ("keep_current", cKeep i out), ("count_min_max", cCount i out), ("priority_first", cPriority i out),
          ("rank_best", cRank i out)] : List (String × Bool)).all (·.2) = true := by
        rintro out ⟨a, b, c, d, e, f⟩; simp [a, b, c, d, e, f]
      by_cases hwant : i.rmax - ((curIds i).length : Int) < 0
      · -- more healthy holders than max
        have hnp : ¬ (((curIds i).length : Int) + (i.rmax - ((curIds i).length : Int)) < 0) := by omega
        simp only [hwant, hnp, if_true, if_false, okWith_iff, okTrunc_iff] at h
        obtain ⟨l, rfl, hlen, hnd, hsub⟩ := h
        apply finish
        refine arm_truncate hw hp ?_ hnd hsub (by omega)
        rw [hlen]; omega
      · simp only [hwant, if_false] at h
        by_cases hneed : i.rmin - ((curIds i).length : Int) ≤ 0
        · -- min already met
          simp only [hneed, if_true, beq_iff_eq] at h
          subst h
          exact finish _ (arm_keep hw (by omega) (by omega))
        · simp only [hneed, if_false] at h
          by_cases hfew : (((priM i).length : Int) + ((candM i).length : Int)) < i.rmin - ((curIds i).length : Int)
          · simp only [hfew, if_true, beq_iff_eq] at h
            subst h
            have := numerics_length_le (priM i)
            have := numerics_length_le (candM i)
            simp only [List.all_cons, List.all_nil, Bool.and_true]
            exact arm_err hw (by push_cast; omega)
          · simp only [hfew, if_false] at h
            by_cases hnum : (((numerics (priM i)).length + (numerics (candM i)).length : Nat) : Int) < i.rmin - ((curIds i).length : Int)
            · simp only [hnum, if_true, beq_iff_eq] at h
              subst h
              simp only [List.all_cons, List.all_nil, Bool.and_true]
              exact arm_err hw hnum
            · simp only [hnum, if_false, okWith_iff, okAlloc_iff] at h
              obtain ⟨l, rfl, hhead, hrest, ha, hb⟩ := h
              apply finish
              refine arm_alloc hw ?_ ?_ rfl hhead hrest ha hb
              · push_cast at hnum ⊢; omega
              · push_cast at hnum ⊢; omega
    · simp [hpos]

/-- The deterministic model (`allocate`: insertion sort, fixed tie-break and map order) always
    produces an output the relation admits: the relation is inhabited on every well-formed input,
    so `allowed_holds` is not vacuous anywhere, and the functional model satisfies the property. -/
theorem allocate_allowed (i : Input) (hw : wf i = true) : allowed i (allocate i) = true :=
  allocate_allowed_aux i hw

theorem allocate_holds (i : Input) (hw : wf i = true) : holds i (allocate i) = true :=
  allowed_holds i (allocate i) hw (allocate_allowed i hw)

/-- With factor pairs accepted by `isReplicationFactorValid`, `allocate` never
    reaches the out-of-range slice expression. -/
theorem valid_factors_no_panic (i : Input) (o : Output) (hv : factorsValid i.rmin i.rmax = true)
    (h : allowed i o = true) : o ≠ .panic := by
  intro ho; subst ho
  unfold factorsValid at hv
  simp only [Bool.and_eq_true, Bool.not_eq_true', Bool.or_eq_false_iff, beq_eq_false_iff_ne, ne_eq,
    decide_eq_false_iff_not, Bool.and_eq_false_iff, bne_eq_false_iff_eq, beq_iff_eq, bne_iff_ne] at hv
  unfold allowed at h
  by_cases h1 : (i.rmin + i.rmax == 0) = true
  · simp [h1] at h
  · by_cases h2 : (decide (i.rmin < 0) && decide (i.rmax < 0)) = true
    · simp [h1, h2] at h
    · simp only [h1, h2, if_false] at h
      simp only [Bool.and_eq_true, decide_eq_true_eq, beq_iff_eq] at h1 h2
      by_cases hwant : i.rmax - ((curIds i).length : Int) < 0
      · have hnp : ¬ (((curIds i).length : Int) + (i.rmax - ((curIds i).length : Int)) < 0) := by omega
        simp [hwant, hnp, Output.okWith] at h
      · simp only [hwant, if_false] at h
        by_cases hneed : i.rmin - ((curIds i).length : Int) ≤ 0
        · simp [hneed] at h
        · simp only [hneed, if_false] at h
          split at h
          · simp at h
          · split at h <;> simp [Output.okWith] at h

/-- The accepted factor pairs are exactly: both -1, or 0 < min ≤ max. -/
theorem factorsValid_iff (a b : Int) :
    factorsValid a b = true ↔ (a = -1 ∧ b = -1) ∨ (0 < a ∧ a ≤ b) := by
  unfold factorsValid
  simp only [Bool.and_eq_true, Bool.not_eq_true', Bool.or_eq_false_iff, beq_eq_false_iff_ne, ne_eq,
    decide_eq_false_iff_not, Bool.and_eq_false_iff, bne_eq_false_iff_eq, beq_iff_eq, bne_iff_ne]
  omega

/-! Non-vacuity: concrete inputs meet the hypotheses and reach the allocating arm. -/
private def ex1 : Input :=
  { desc := false, rmin := 2, rmax := 3, blacklist := [4], priority := [3], current := [0, 9],
    peers := [(0, .valid 5), (1, .valid 1), (2, .valid 1), (3, .valid 7), (4, .valid 0), (5, .expired), (6, .nonNumeric)] }
example : wf ex1 = true ∧ allocate ex1 = .ok [0, 3, 1] ∧ allowed ex1 (allocate ex1) = true ∧
    allowed ex1 (.ok [0, 3, 2]) = true ∧ allowed ex1 (.ok [0, 1, 2]) = false ∧ holds ex1 (.ok [0, 1, 2]) = false := by decide

/-! ### The source still reads as the model was transcribed (regenerated on every run) -/

theorem gen_allocate_skeleton : Gen.allocateSkeleton = Expected.allocateSkeleton := by rfl
theorem gen_classification_order : Gen.classification = Expected.classification := by rfl
theorem gen_obtain_skeleton : Gen.obtainSkeleton = Expected.obtainSkeleton := by rfl
theorem gen_valid_skeleton : Gen.validSkeleton = Expected.validSkeleton := by rfl
theorem gen_allocators : Gen.ascendAllocate = Expected.ascendAllocate ∧ Gen.descendAllocate = Expected.descendAllocate ∧
    Gen.sortNumeric = Expected.sortNumeric ∧ Gen.sorterLess = Expected.sorterLess := ⟨rfl, rfl, rfl, rfl⟩

end CV.C03
